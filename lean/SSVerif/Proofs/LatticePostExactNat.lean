import SSVerif.Proofs.LatticePostAcc
import SSVerif.Proofs.LatticePostFlow
import SSVerif.Proofs.LatticePostExact
/-!
# The exact instance of the generic passes computes the exact model (helper lemmas for C12)

`alphaGen (natGen w)` / `betaGen (natGen w)` — the *same folds* as `alphaInt` / `betaInt` (the control flow of
`lattice_bestpath` / `lattice_posterior`: traversal order, update of the exits of the target, accumulation
over the exits), with `(+, *, 0, 1)` over ℕ in place of `(logmath_add, +, log-zero, 0)` — compute the exact
forward/backward link weights `alphaLink` / `betaLink` of `Model/Lattice.lean` (the objects of
`C12_exact_forward_backward`), and `normGen` / `bwdGen` compute `forwardTotal` / `backwardTotal`.
For natural weights the real-valued exact weights of the accuracy theorems are the casts of these.
-/
namespace SSVerif.Lattice

variable {L : Lat}

section generic
variable {R : Type} {Q : GenParams R}

theorem gen_visit_fold (f : R → R) : ∀ (xs : List Link), xs.Nodup → ∀ (al0 : Link → R) (y : Link),
    (y ∈ xs → (xs.foldl (fun al x => upd al x (f (al x))) al0) y = f (al0 y)) ∧
    (y ∉ xs → (xs.foldl (fun al x => upd al x (f (al x))) al0) y = al0 y) := by
  intro xs
  induction xs with
  | nil =>
    intro _ al0 y
    constructor
    · intro h; cases h
    · intro _; rfl
  | cons x xs ih =>
    intro hnd al0 y
    rw [List.nodup_cons] at hnd
    simp only [List.foldl_cons]
    have := ih hnd.2 (upd al0 x (f (al0 x))) y
    constructor
    · intro hy
      rcases List.mem_cons.1 hy with rfl | hy
      · rw [this.2 hnd.1]; simp [upd]
      · rw [this.1 hy]
        have : y ≠ x := fun h => hnd.1 (h ▸ hy)
        simp [upd, this]
    · intro hy
      have h1 : y ≠ x := fun h => hy (h ▸ List.mem_cons_self)
      have h2 : y ∉ xs := fun h => hy (List.mem_cons_of_mem _ h)
      rw [this.2 h2]; simp [upd, h1]

/-- closed form of one visit of the generic forward pass -/
theorem alphaGenVisit_vals {rank : Nat → Nat} (ok : DagOK L rank) {l : Link} (hl : l ∈ L.links) (al : Link → R) :
    alphaGenVisit Q L al l l = Q.mul (al l) (Q.w l) ∧
    (∀ y, y ∈ exits L l.dst → alphaGenVisit Q L al l y = Q.add (al y) (Q.mul (al l) (Q.w l))) ∧
    (∀ y, y ≠ l → y ∉ exits L l.dst → alphaGenVisit Q L al l y = al y) := by
  have hself : l ∉ exits L l.dst := by
    intro h
    have := ok.rank_lt l hl
    rw [(mem_exits.1 h).2] at this
    omega
  have hfold := gen_visit_fold (fun v => Q.add v (Q.mul (al l) (Q.w l))) (exits L l.dst) (exits_nodup ok _)
    (upd al l (Q.mul (al l) (Q.w l)))
  refine ⟨?_, ?_, ?_⟩
  · unfold alphaGenVisit
    rw [(hfold l).2 hself]; simp [upd]
  · intro y hy
    unfold alphaGenVisit
    rw [(hfold y).1 hy]
    have : y ≠ l := fun h => hself (h ▸ hy)
    simp [upd, this]
  · intro y h1 h2
    unfold alphaGenVisit
    rw [(hfold y).2 h2]; simp [upd, h1]

end generic

/-! ### the exact instance over ℕ -/

section nat
variable {w : Link → Nat}

theorem S_perm {xs ys : List Link} (h : xs.Perm ys) (f : Link → Nat) : S xs f = S ys f := (h.map f).sum_nat

/-- invariant of the exact forward pass after the links `pre` have been visited -/
structure GAcc (L : Lat) (A : Link → Nat) (pre : List Link) (al : Link → Nat) : Prop where
  done : ∀ y ∈ pre, al y = A y
  startv : ∀ y ∈ L.links, y ∉ pre → y.src = L.start → al y = 1
  pend : ∀ y ∈ L.links, y ∉ pre → y.src ≠ L.start → al y = S (visitedInto pre y.src) A

theorem gacc_init {A : Link → Nat} : GAcc L A [] (alphaGenInit (natGen w) L) where
  done := fun y hy => by cases hy
  startv := by
    intro y hy _ hs
    show (if y ∈ L.links ∧ y.src = L.start then 1 else 0) = 1
    rw [if_pos ⟨hy, hs⟩]
  pend := by
    intro y _ _ hs
    show (if y ∈ L.links ∧ y.src = L.start then 1 else 0) = S (visitedInto [] y.src) A
    rw [if_neg (fun h => hs h.2)]
    rfl

theorem gacc_step {rank : Nat → Nat} (ok : DagOK L rank) {A : Link → Nat}
    (hfwd : ∀ l ∈ L.links, A l = w l * ((if l.src = L.start then 1 else 0) + S (entries L l.src) A))
    {pre : List Link} {l : Link} {post : List Link}
    (hnd : (pre ++ l :: post).Nodup) (hsub : ∀ y ∈ pre ++ l :: post, y ∈ L.links)
    (htopo : Topo L (pre ++ l :: post)) {al : Link → Nat} (inv : GAcc L A pre al) :
    GAcc L A (pre ++ [l]) (alphaGenVisit (natGen w) L al l) := by
  have hl : l ∈ L.links := hsub l (by simp)
  have hndpre : pre.Nodup := (List.nodup_append.1 hnd).1
  have hlpre : l ∉ pre := fun h => (List.nodup_append.1 hnd).2.2 l h l (by simp) rfl
  obtain ⟨hv_l, hv_exit, hv_other⟩ := alphaGenVisit_vals (Q := natGen w) ok hl al
  have hnex : ∀ y ∈ pre, y ∉ exits L l.dst := by
    intro y hy h
    obtain ⟨pre', post', hsplit⟩ := List.append_of_mem hy
    have : l ∈ pre' := htopo pre' y (post' ++ l :: post) (by rw [hsplit]; simp) l hl (mem_exits.1 h).2.symm
    exact hlpre (by rw [hsplit]; exact List.mem_append_left _ this)
  have key : al l * w l = A l := by
    rw [hfwd l hl]
    by_cases hs : l.src = L.start
    · have h0 := inv.startv l hl hlpre hs
      have hnone : entries L l.src = [] := by
        rw [List.eq_nil_iff_forall_not_mem]
        intro x hx
        have := mem_entries.1 hx
        exact ok.no_entry_start x this.1 (this.2.trans hs)
      rw [if_pos hs, hnone, h0, S_nil]; omega
    · rw [if_neg hs, inv.pend l hl hlpre hs]
      have hperm : (visitedInto pre l.src).Perm (entries L l.src) := by
        have hndV : (visitedInto pre l.src).Nodup := hndpre.sublist List.filter_sublist
        rw [List.perm_ext_iff_of_nodup hndV (entries_nodup ok _)]
        intro x
        rw [mem_visitedInto, mem_entries]
        constructor
        · intro h; exact ⟨hsub x (List.mem_append_left _ h.1), h.2⟩
        · intro h; exact ⟨htopo pre l post rfl x h.1 h.2, h.2⟩
      rw [S_perm hperm, Nat.zero_add, Nat.mul_comm]
  have hmul : (natGen w).mul (al l) ((natGen w).w l) = al l * w l := rfl
  constructor
  · intro y hy
    rcases List.mem_append.1 hy with hy | hy
    · have hne : y ≠ l := fun h => hlpre (h ▸ hy)
      rw [hv_other y hne (hnex y hy)]
      exact inv.done y hy
    · simp at hy; subst hy
      rw [hv_l, hmul]; exact key
  · intro y hy hyn hs
    have hy1 : y ∉ pre := fun h => hyn (List.mem_append_left _ h)
    have hy2 : y ≠ l := fun h => hyn (by rw [h]; simp)
    have hex : y ∉ exits L l.dst := by
      intro h
      exact ok.no_entry_start l hl ((mem_exits.1 h).2.symm.trans hs)
    rw [hv_other y hy2 hex]
    exact inv.startv y hy hy1 hs
  · intro y hy hyn hs
    have hy1 : y ∉ pre := fun h => hyn (List.mem_append_left _ h)
    have hy2 : y ≠ l := fun h => hyn (by rw [h]; simp)
    rw [visitedInto_snoc]
    by_cases hex : y ∈ exits L l.dst
    · have hsrc : l.dst = y.src := (mem_exits.1 hex).2.symm
      rw [if_pos hsrc, hv_exit y hex, hmul, key, S_append, S_cons, S_nil, inv.pend y hy hy1 hs]
      show S (visitedInto pre y.src) A + A l = _
      omega
    · have hsrc : ¬ l.dst = y.src := fun h => hex (mem_exits.2 ⟨hy, h.symm⟩)
      rw [if_neg hsrc, List.append_nil, hv_other y hy2 hex]
      exact inv.pend y hy hy1 hs

theorem gacc_fold {rank : Nat → Nat} (ok : DagOK L rank) {A : Link → Nat}
    (hfwd : ∀ l ∈ L.links, A l = w l * ((if l.src = L.start then 1 else 0) + S (entries L l.src) A)) :
    ∀ (post pre : List Link) (al : Link → Nat), (pre ++ post).Nodup → (∀ y ∈ pre ++ post, y ∈ L.links) →
      Topo L (pre ++ post) → GAcc L A pre al → GAcc L A (pre ++ post) (post.foldl (alphaGenVisit (natGen w) L) al) := by
  intro post
  induction post with
  | nil => intro pre al _ _ _ inv; simpa using inv
  | cons l post ih =>
    intro pre al hnd hsub htopo inv
    simp only [List.foldl_cons]
    have h1 := gacc_step ok hfwd hnd hsub htopo inv
    have := ih (pre ++ [l]) _ (by simpa using hnd) (by simpa using hsub) (by simpa using htopo) h1
    simpa using this

/-- the exact forward pass computes every solution of the forward equations -/
theorem alphaGen_nat {rank : Nat → Nat} (ok : DagOK L rank) {A : Link → Nat}
    (hfwd : ∀ l ∈ L.links, A l = w l * ((if l.src = L.start then 1 else 0) + S (entries L l.src) A)) :
    ∀ y ∈ L.links, alphaGen (natGen w) L y = A y := by
  obtain ⟨hperm, htopo⟩ := traverse_topological ok
  have hnd : (traverseEdges L).Nodup := (hperm.nodup_iff).2 ok.nodup
  have inv := gacc_fold (w := w) ok hfwd (traverseEdges L) [] (alphaGenInit (natGen w) L) (by simpa using hnd)
    (by intro y hy; exact hperm.mem_iff.1 (by simpa using hy)) (by simpa using htopo) gacc_init
  simp only [List.nil_append] at inv
  intro y hy
  exact inv.done y (hperm.mem_iff.2 hy)

theorem foldl_add_S (g : Link → Nat) : ∀ (xs : List Link) (b : Nat), xs.foldl (fun b x => b + g x) b = b + S xs g := by
  intro xs
  induction xs with
  | nil => intro b; simp [S_nil]
  | cons x xs ih => intro b; simp only [List.foldl_cons]; rw [ih, S_cons]; omega

/-- the exact backward pass computes every solution of the backward equations -/
theorem betaGen_nat {rank : Nat → Nat} (ok : DagOK L rank) {Bx : Link → Nat}
    (hbwd : ∀ l ∈ L.links, Bx l = (if l.dst = L.final then 1 else 0) + S (exits L l.dst) (fun x => w x * Bx x)) :
    ∀ y ∈ L.links, betaGen (natGen w) L y = Bx y := by
  obtain ⟨hperm, htopo⟩ := traverse_topological ok
  have hnd : (traverseEdges L).Nodup := (hperm.nodup_iff).2 ok.nodup
  have key : ∀ (rest done : List Link), traverseEdges L = done ++ rest →
      ∀ y ∈ rest, (rest.foldr (fun l be => betaGenVisit (natGen w) L be l) (fun _ => (natGen w).zero)) y = Bx y := by
    intro rest
    induction rest with
    | nil => intro _ _ y hy; cases hy
    | cons l rest ih =>
      intro done hord
      have ihr := ih (done ++ [l]) (by rw [hord]; simp)
      simp only [List.foldr_cons]
      generalize rest.foldr (fun l be => betaGenVisit (natGen w) L be l) (fun _ => (natGen w).zero) = be at ihr ⊢
      have hl : l ∈ L.links := hperm.mem_iff.1 (by rw [hord]; simp)
      have hnd' : (done ++ l :: rest).Nodup := hord ▸ hnd
      have hlrest : l ∉ rest := (List.nodup_cons.1 (List.nodup_append.1 hnd').2.1).1
      intro y hy
      rcases List.mem_cons.1 hy with rfl | hy
      · unfold betaGenVisit
        by_cases hfin : y.dst = L.final
        · rw [if_pos hfin]
          have hnone : exits L y.dst = [] := by
            rw [List.eq_nil_iff_forall_not_mem]
            intro x hx
            have := mem_exits.1 hx
            exact ok.no_exit_final x this.1 (this.2.trans hfin)
          rw [hbwd y hl, if_pos hfin, hnone, S_nil]
          simp [upd, natGen]
        · rw [if_neg hfin]
          have hxrest : ∀ x ∈ exits L y.dst, x ∈ rest := by
            intro x hx
            have hxm := mem_exits.1 hx
            have hxo : x ∈ done ++ y :: rest := hord ▸ hperm.mem_iff.2 hxm.1
            rcases List.mem_append.1 hxo with h | h
            · exfalso
              obtain ⟨A1, A2, rfl⟩ := List.append_of_mem h
              have hy1 : y ∈ A1 := htopo A1 x (A2 ++ y :: rest) (by rw [hord]; simp) y hl hxm.2.symm
              have := (List.nodup_append.1 hnd').2.2 y (by simp [hy1]) y (by simp)
              exact this rfl
            · rcases List.mem_cons.1 h with h | h
              · exfalso
                subst h
                have := ok.rank_lt x hl
                rw [hxm.2] at this
                omega
              · exact h
          simp only [upd, if_pos]
          rw [hbwd y hl, if_neg hfin, Nat.zero_add]
          show (exits L y.dst).foldl (fun b x => b + be x * w x) 0 = _
          rw [foldl_add_S, Nat.zero_add]
          apply S_congr
          intro x hx
          rw [ihr x (hxrest x hx), Nat.mul_comm]
      · have hne : y ≠ l := fun h => hlrest (h ▸ hy)
        have hval : betaGenVisit (natGen w) L be l y = be y := by
          unfold betaGenVisit
          split <;> simp [upd, hne]
        rw [hval]
        exact ihr y hy
  intro y hy
  have h := key (traverseEdges L) [] (by simp) y (hperm.mem_iff.2 hy)
  unfold betaGen
  rw [List.foldl_reverse]
  exact h

/-- **the exact instance of the passes computes the exact model** of `C12_exact_forward_backward` -/
theorem gen_nat_exact {G : SSVerif.Nfa.Nfa} (ok : LatticeOK G L) (w : Link → Nat) :
    (∀ l ∈ L.links, alphaGen (natGen w) L l = alphaLink L w l ∧ betaGen (natGen w) L l = betaLink L w l) ∧
    (∀ ents : List Link, ents.Perm (entries L L.final) →
      normGen (natGen w) (alphaGen (natGen w) L) ents = forwardTotal L w) ∧
    bwdGen (natGen w) L (betaGen (natGen w) L) = backwardTotal L w := by
  have dag := DagOK.of_latticeOK ok
  have hrank : ∀ l ∈ L.links, L.rank l.src < L.rank l.dst := fun l hl => rank_lt ok hl
  have hM : ∀ l ∈ L.links, L.rank l.dst ≤ L.nframes + 1 := fun l hl => rank_le ok (ok.endpoints.2.2 l hl).2
  have hfb := model_fwdBwd (w := w) hrank hM
  have hA := alphaGen_nat (w := w) dag hfb.fwd
  have hB := betaGen_nat (w := w) dag hfb.bwd
  refine ⟨fun l hl => ⟨hA l hl, hB l hl⟩, ?_, ?_⟩
  · intro ents hents
    show ents.foldl (fun n x => n + alphaGen (natGen w) L x) 0 = _
    rw [foldl_add_S, Nat.zero_add, S_perm hents, forwardTotal_eq]
    apply S_congr
    intro x hx
    exact hA x (mem_entries.1 hx).1
  · show (exits L L.start).foldl (fun b x => b + betaGen (natGen w) L x * w x) 0 = _
    rw [foldl_add_S, Nat.zero_add, backwardTotal_eq]
    apply S_congr
    intro x hx
    rw [hB x (mem_exits.1 hx).1, Nat.mul_comm]

end nat

/-! ### natural weights: the real exact weights are the casts of the model's -/

theorem SR_natCast {α : Type} (xs : List α) (f : α → Nat) : SR xs (fun x => ((f x : Nat) : ℝ)) = ((S xs f : Nat) : ℝ) := by
  induction xs with
  | nil => simp [SR, S]
  | cons x xs ih => rw [SR_cons, S_cons, ih]; push_cast; ring

theorem alphaNodeR_natCast (w : Link → Nat) : ∀ f v, alphaNodeR L (fun l => ((w l : Nat) : ℝ)) f v = ((alphaNode L w f v : Nat) : ℝ) := by
  intro f
  induction f with
  | zero => intro v; rw [alphaNodeR_zero]; show _ = (((if v = L.start then 1 else 0) : Nat) : ℝ); split <;> simp
  | succ f ih =>
    intro v
    rw [alphaNodeR_succ, alphaNode_succ]
    have : (fun l : Link => alphaNodeR L (fun l => ((w l : Nat) : ℝ)) f l.src * ((w l : Nat) : ℝ))
        = fun l => (((alphaNode L w f l.src * w l : Nat)) : ℝ) := by
      funext l; rw [ih]; push_cast; ring
    rw [this, SR_natCast]
    push_cast
    split <;> simp

theorem betaNodeR_natCast (w : Link → Nat) : ∀ f v, betaNodeR L (fun l => ((w l : Nat) : ℝ)) f v = ((betaNode L w f v : Nat) : ℝ) := by
  intro f
  induction f with
  | zero => intro v; rw [betaNodeR_zero]; show _ = (((if v = L.final then 1 else 0) : Nat) : ℝ); split <;> simp
  | succ f ih =>
    intro v
    rw [betaNodeR_succ, betaNode_succ]
    have : (fun l : Link => ((w l : Nat) : ℝ) * betaNodeR L (fun l => ((w l : Nat) : ℝ)) f l.dst)
        = fun l => (((w l * betaNode L w f l.dst : Nat)) : ℝ) := by
      funext l; rw [ih]; push_cast; ring
    rw [this, SR_natCast]
    push_cast
    split <;> simp

theorem linkR_natCast (w : Link → Nat) (l : Link) :
    alphaLinkR L (fun l => ((w l : Nat) : ℝ)) l = ((alphaLink L w l : Nat) : ℝ) ∧
    betaLinkR L (fun l => ((w l : Nat) : ℝ)) l = ((betaLink L w l : Nat) : ℝ) := by
  unfold alphaLinkR betaLinkR alphaLink betaLink
  rw [alphaNodeR_natCast, betaNodeR_natCast]
  push_cast
  exact ⟨rfl, rfl⟩

end SSVerif.Lattice
