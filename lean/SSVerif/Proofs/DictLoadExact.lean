import SSVerif.Proofs.DictLoadSim
import SSVerif.Proofs.TextDict
/-!
# Exactness of the report: the word table is the loaded lines, in order, plus the special words
-/
namespace SSVerif.DictLoad
open SSVerif.HashTable (Key)
open SSVerif.Dict
open SSVerif.TextIn (Buf Span allLines lineWords slice isDictComment)

/-- spelling and phones of an entry -/
def wp (e : Entry) : Key × List Nat := (e.word, e.pron)
def wpT (e : TextIn.DictWord) : Key × List Nat := (e.word, e.pron)

/-- the (spelling, phones) pairs of the lines reported as loaded, in order -/
def loadedOf : List LineRes → List (Key × List Nat)
  | [] => []
  | .loaded _ w p :: r => (w, p) :: loadedOf r
  | .comment :: r => loadedOf r
  | .blank :: r => loadedOf r
  | .noPron :: r => loadedOf r
  | .badPhone :: r => loadedOf r
  | .refused _ _ :: r => loadedOf r

theorem wp_eq (l : List Entry) : l.map wp = (l.map projEntry).map wpT := by
  rw [List.map_map]; rfl

theorem post_words_wp (d : Dict) (word : Key) (pron : List Nat) (bw : Option Nat)
    (hbw : ∀ w0, bw = some w0 → w0 < d.words.length) :
    (post d word pron bw).words.map wp = d.words.map wp ++ [(word, pron)] := by
  rw [wp_eq, wp_eq]
  cases bw with
  | none => rw [proj_post_none]; simp [wpT]
  | some w0 =>
    rw [proj_post_some d word pron w0 (hbw w0 rfl), List.map_append, TextIn.setAlt,
      TextIn.map_modify_eq (d.words.map projEntry) w0 (fun e => { e with alt := some d.words.length }) wpT (fun _ => rfl)]
    simp [wpT]

/-- `dict_add_word`: a refusal leaves the word table alone, a success appends exactly the new pair -/
theorem dictAddWord_words {d : Dict} (h : WF d) (w : Key) (p : List Nat) :
    ((dictAddWord d w p).2 = none ∧ (dictAddWord d w p).1.words = d.words) ∨
    (∃ i, (dictAddWord d w p).2 = some i ∧ (dictAddWord d w p).1.words.map wp = d.words.map wp ++ [(w, p)]) := by
  rcases dictAddWord_spec h w p with ⟨_, r⟩ | ⟨_, _, r⟩ | ⟨_, _, r⟩ | ⟨_, _, bw, hfb, r⟩
  · left; rw [r]; exact ⟨rfl, rfl⟩
  · left; rw [r]; exact ⟨rfl, by simp⟩
  · left; rw [r]; exact ⟨rfl, by simp⟩
  · right
    rw [r]
    refine ⟨_, rfl, ?_⟩
    have := post_words_wp (grow d) w p bw (by
      intro w0 hw0
      obtain ⟨b, hb⟩ := bw_lt h hfb hw0
      simpa using (List.getElem?_eq_some_iff.1 hb).1)
    simpa using this

theorem loadLineR_words {d : Dict} (h : WF d) (m : Mdef) (buf : Buf) (l : Span buf.size) :
    (loadLineR m buf d l).1.words.map wp = d.words.map wp ++ loadedOf [(loadLineR m buf d l).2] := by
  rcases loadLineR_cases m buf d l with ⟨e, e2⟩ | ⟨w, ids, _, _, e, ⟨hn, e2⟩ | ⟨i, hi, e2⟩⟩
  · rw [e]
    rcases e2 with e2 | e2 | e2 | e2 <;> rw [e2] <;> simp [loadedOf]
  · rw [e, e2]
    rcases dictAddWord_words h w ids with ⟨_, hw⟩ | ⟨j, hj, _⟩
    · rw [hw]; simp [loadedOf]
    · rw [hn] at hj; cases hj
  · rw [e, e2]
    rcases dictAddWord_words h w ids with ⟨hn, _⟩ | ⟨j, _, hw⟩
    · rw [hn] at hi; cases hi
    · rw [hw]; simp [loadedOf]

theorem loadedOf_cons (x : LineRes) (r : List LineRes) : loadedOf (x :: r) = loadedOf [x] ++ loadedOf r := by
  cases x <;> simp [loadedOf]

theorem loadLines_words {d : Dict} (h : WF d) (m : Mdef) (buf : Buf) (ls : List (Span buf.size)) :
    (loadLines m buf d ls).1.words.map wp = d.words.map wp ++ loadedOf (loadLines m buf d ls).2 := by
  induction ls generalizing d with
  | nil => simp [loadLines, loadedOf]
  | cons l ls ih =>
    simp only [loadLines]
    rw [ih (wf_loadLineR h m buf l), loadLineR_words h m buf l,
      loadedOf_cons (loadLineR m buf d l).2 (loadLines m buf (loadLineR m buf d l).1 ls).2, List.append_assoc]

theorem loadOpt_words {d : Dict} (h : WF d) (m : Mdef) (b : Option Buf) :
    (loadOpt m b d).1.words.map wp = d.words.map wp ++ loadedOf (loadOpt m b d).2 := by
  cases b with
  | none => simp [loadOpt, loadedOf]
  | some buf => exact loadLines_words h m buf _

theorem loadLines_fillerStart (m : Mdef) (buf : Buf) : ∀ (ls : List (Span buf.size)) (d : Dict),
    (loadLines m buf d ls).1.fillerStart = d.fillerStart
  | [], _ => rfl
  | l :: ls, d => by
    simp only [loadLines]
    rw [loadLines_fillerStart m buf ls]
    rcases loadLineR_cases m buf d l with ⟨e, _⟩ | ⟨w, ids, _, _, e, _⟩
    · rw [e]
    · rw [e]; exact (dictAddWord_fields d w ids).2.1

theorem loadOpt_fillerStart (m : Mdef) (b : Option Buf) (d : Dict) : (loadOpt m b d).1.fillerStart = d.fillerStart := by
  cases b with
  | none => rfl
  | some buf => exact loadLines_fillerStart m buf _ d

/-- `addIfMissing` appends nothing or exactly the word with the silence phone -/
theorem addIfMissing_words {d : Dict} (h : WF d) (m : Mdef) (w : Key) :
    ∃ ex : List (Key × List Nat), (ex = [] ∨ ex = [(w, [m.sil])]) ∧
      (addIfMissing m d w).words.map wp = d.words.map wp ++ ex := by
  unfold addIfMissing
  split
  · rcases dictAddWord_words h w [m.sil] with ⟨_, hw⟩ | ⟨_, _, hw⟩
    · exact ⟨[], Or.inl rfl, by rw [hw]; simp⟩
    · exact ⟨_, Or.inr rfl, hw⟩
  · exact ⟨[], Or.inl rfl, by simp⟩

end SSVerif.DictLoad
