import SSVerif.Proofs.Jsgf
/-!
`tableMatches (desugar g) g = true` for every surface grammar with distinct rule names:
the model of the parser actions always produces a table that represents the grammar
(the table only grows, internal names are fresh, earlier representations stay valid).
-/
namespace SSVerif.Jsgf

/-! ### representation is stable under extension of the rule function -/

theorem repA_nil {R : Rules} : ∀ b : Alts, repA R [] b = false
  | .one _ => by simp [repA]
  | .cons _ _ => by simp [repA]

mutual
  theorem repE_mono {R R' : Rules} (h : ∀ r, R r ≠ [] → R' r = R r) :
      ∀ (e : Exp) (a : Atom), repE R a e = true → repE R' a e = true
    | .tok w, a, ha => by cases a <;> simp_all [repE]
    | .ref r, a, ha => by
      cases a with
      | ref rn => cases rn <;> simp_all [repE]
      | _ => simp_all [repE]
    | .null, a, ha => by cases a <;> simp_all [repE]
    | .void, a, ha => by cases a <;> simp_all [repE]
    | .group body, a, ha => by
      cases a with
      | ref rn =>
        cases rn with
        | user n => simp [repE] at ha
        | gen k =>
          simp only [repE] at ha ⊢
          have hne : R (.gen k) ≠ [] := by
            intro h0; rw [h0] at ha; simp [repA_nil] at ha
          rw [h _ hne]
          exact repA_mono h body _ ha
      | _ => simp [repE] at ha
    | .opt body, a, ha => by
      cases a with
      | ref rn =>
        cases rn with
        | user n => simp [repE] at ha
        | gen k =>
          simp only [repE] at ha ⊢
          have hne : R (.gen k) ≠ [] := by
            intro h0; rw [h0] at ha; cases ha
          rw [h _ hne]
          split at ha
          · rename_i rest heq
            exact repA_mono h body _ ha
          · cases ha
      | _ => simp [repE] at ha
    | .star x, a, ha => by
      cases a with
      | ref rn =>
        cases rn with
        | user n => simp [repE] at ha
        | gen k =>
          simp only [repE] at ha ⊢
          have hne : R (.gen k) ≠ [] := by
            intro h0; rw [h0] at ha; cases ha
          rw [h _ hne]
          split at ha
          · rename_i a0 k' heq
            simp only [Bool.and_eq_true] at ha ⊢
            exact ⟨ha.1, repE_mono h x _ ha.2⟩
          · cases ha
      | _ => simp [repE] at ha
    | .plus x, a, ha => by
      cases a with
      | ref rn =>
        cases rn with
        | user n => simp [repE] at ha
        | gen k =>
          simp only [repE] at ha ⊢
          have hne : R (.gen k) ≠ [] := by
            intro h0; rw [h0] at ha; cases ha
          rw [h _ hne]
          split at ha
          · rename_i a' a0 k' heq
            simp only [Bool.and_eq_true] at ha ⊢
            exact ⟨ha.1, repE_mono h x _ ha.2⟩
          · cases ha
      | _ => simp [repE] at ha
  theorem repS_mono {R R' : Rules} (h : ∀ r, R r ≠ [] → R' r = R r) :
      ∀ (s : Seq) (α : List Atom), repS R α s = true → repS R' α s = true
    | .one _ _ e, α, hs => by
      match α, hs with
      | [a], hs => simp only [repS] at hs ⊢; exact repE_mono h e a hs
      | [], hs => simp [repS] at hs
      | _ :: _ :: _, hs => simp [repS] at hs
    | .cons _ _ e s, α, hs => by
      match α, hs with
      | a :: rest, hs =>
        simp only [repS, Bool.and_eq_true] at hs ⊢
        exact ⟨repE_mono h e a hs.1, repS_mono h s rest hs.2⟩
      | [], hs => simp [repS] at hs
  theorem repA_mono {R R' : Rules} (h : ∀ r, R r ≠ [] → R' r = R r) :
      ∀ (b : Alts) (alts : List (List Atom)), repA R alts b = true → repA R' alts b = true
    | .one s, alts, hb => by
      match alts, hb with
      | [alt], hb => simp only [repA] at hb ⊢; exact repS_mono h s alt hb
      | [], hb => simp [repA] at hb
      | _ :: _ :: _, hb => simp [repA] at hb
    | .cons s b, alts, hb => by
      match alts, hb with
      | alt :: rest, hb =>
        simp only [repA, Bool.and_eq_true] at hb ⊢
        exact ⟨repS_mono h s alt hb.1, repA_mono h b rest hb.2⟩
      | [], hb => simp [repA] at hb
end

/-! ### tables: positions of internal names, extension, lookup -/

/-- a rule with an internal name `gen k` sits at position `k` -/
def Good (T : Table) : Prop := ∀ i (h : i < T.length) k, (T[i]).name = .gen k → k = i

/-- `T'` extends `T` by rules with internal names only -/
def ExtG (T T' : Table) : Prop := ∃ X : Table, T' = T ++ X ∧ ∀ rl ∈ X, ∃ k, rl.name = .gen k

theorem ExtG.refl (T : Table) : ExtG T T := ⟨[], by simp, by simp⟩

theorem ExtG.trans {A B C : Table} (h1 : ExtG A B) (h2 : ExtG B C) : ExtG A C := by
  obtain ⟨X, rfl, hX⟩ := h1
  obtain ⟨Y, rfl, hY⟩ := h2
  refine ⟨X ++ Y, by simp, ?_⟩
  intro rl hrl
  rcases List.mem_append.mp hrl with h | h
  · exact hX rl h
  · exact hY rl h

theorem find_append_of_some {T X : Table} {r : RName} {rl : Rule} (h : T.find r = some rl) :
    (T ++ X).find r = some rl := by
  unfold Table.find at *
  rw [List.find?_append, h]; rfl

theorem rules_ne_nil_find {T : Table} {r : RName} (h : T.rules r ≠ []) : ∃ rl, T.find r = some rl := by
  unfold Table.rules at h
  cases hf : T.find r with
  | none => simp [hf] at h
  | some rl => exact ⟨rl, rfl⟩

theorem rules_append_stable {T X : Table} (r : RName) (h : T.rules r ≠ []) :
    (T ++ X).rules r = T.rules r := by
  obtain ⟨rl, hf⟩ := rules_ne_nil_find h
  unfold Table.rules
  rw [find_append_of_some hf, hf]

theorem ExtG.stable {T T' : Table} (h : ExtG T T') : ∀ r, T.rules r ≠ [] → T'.rules r = T.rules r := by
  obtain ⟨X, rfl, _⟩ := h
  intro r hr
  exact rules_append_stable r hr

theorem find_none_of_forall {T : Table} {r : RName} (h : ∀ rl ∈ T, rl.name ≠ r) : T.find r = none := by
  unfold Table.find
  rw [List.find?_eq_none]
  intro rl hrl
  simpa using h rl hrl

theorem Good.no_fresh {T : Table} (hT : Good T) : ∀ rl ∈ T, rl.name ≠ .gen T.length := by
  intro rl hrl heq
  obtain ⟨i, hi, rfl⟩ := List.getElem_of_mem hrl
  have := hT i hi _ heq
  omega

theorem Good.find_fresh {T : Table} (hT : Good T) (rl : Rule) (hn : rl.name = .gen T.length) :
    (T ++ [rl]).find (.gen T.length) = some rl := by
  unfold Table.find
  rw [List.find?_append]
  have : List.find? (fun r => r.name == RName.gen T.length) T = none := by
    have := find_none_of_forall hT.no_fresh
    unfold Table.find at this
    exact this
  rw [this]
  simp [hn]

theorem Good.rules_fresh {T : Table} (hT : Good T) (rl : Rule) (hn : rl.name = .gen T.length) :
    (T ++ [rl]).rules (.gen T.length) = rl.plainAlts := by
  unfold Table.rules
  rw [hT.find_fresh rl hn]

theorem Good.snoc_gen {T : Table} (hT : Good T) (rl : Rule) (hn : rl.name = .gen T.length) :
    Good (T ++ [rl]) := by
  intro i hi k hk
  by_cases h : i < T.length
  · rw [List.getElem_append_left h] at hk
    exact hT i h k hk
  · have hi' : i = T.length := by simp at hi; omega
    subst hi'
    rw [List.getElem_append_right (Nat.le_refl _)] at hk
    simp only [Nat.sub_self, List.getElem_cons_zero] at hk
    rw [hn] at hk
    cases hk; rfl

theorem Good.snoc_user {T : Table} (hT : Good T) (rl : Rule) (n : Nat) (hn : rl.name = .user n) :
    Good (T ++ [rl]) := by
  intro i hi k hk
  by_cases h : i < T.length
  · rw [List.getElem_append_left h] at hk
    exact hT i h k hk
  · have hi' : i = T.length := by simp at hi; omega
    subst hi'
    rw [List.getElem_append_right (Nat.le_refl _)] at hk
    simp only [Nat.sub_self, List.getElem_cons_zero] at hk
    rw [hn] at hk
    cases hk

theorem ExtG.snoc_gen (T : Table) (rl : Rule) (k : Nat) (hn : rl.name = .gen k) : ExtG T (T ++ [rl]) :=
  ⟨[rl], rfl, by intro r hr; simp at hr; subst hr; exact ⟨k, hn⟩⟩

/-! ### the parser actions produce representing tables -/

def atomsOf (alt : List WAtom) : List Atom := alt.map (·.atom)

def altsOf (alts : List (List WAtom)) : List (List Atom) := alts.map atomsOf

theorem plainAlts_eq (rl : Rule) : rl.plainAlts = altsOf rl.alts := rfl

mutual
  theorem desugarExp_ok : ∀ (e : Exp) (T : Table), Good T →
      Good (desugarExp e T).2 ∧ ExtG T (desugarExp e T).2 ∧
        repE (desugarExp e T).2.rules (desugarExp e T).1 e = true
    | .tok w, T, hT => by simp [desugarExp, hT, ExtG.refl, repE]
    | .ref r, T, hT => by simp [desugarExp, hT, ExtG.refl, repE]
    | .null, T, hT => by simp [desugarExp, hT, ExtG.refl, repE]
    | .void, T, hT => by simp [desugarExp, hT, ExtG.refl, repE]
    | .group a, T, hT => by
      obtain ⟨h1, h2, new, hnew, hrep⟩ := desugarAltsAcc_ok a [] T hT
      simp only [desugarExp, defineGen]
      generalize desugarAltsAcc a [] T = r at h1 h2 hnew hrep
      obtain ⟨alts, T1⟩ := r
      simp only at h1 h2 hnew hrep ⊢
      simp only [List.append_nil] at hnew
      subst hnew
      let rl : Rule := { name := .gen T1.length, pub := false, alts := alts }
      have hg : Good (T1 ++ [rl]) := h1.snoc_gen rl rfl
      have he : ExtG T1 (T1 ++ [rl]) := ExtG.snoc_gen T1 rl _ rfl
      refine ⟨hg, h2.trans he, ?_⟩
      simp only [repE]
      rw [h1.rules_fresh rl rfl, plainAlts_eq]
      show repA (T1 ++ [rl]).rules (altsOf alts).reverse a = true
      have : (altsOf alts).reverse = altsOf alts.reverse := by simp [altsOf]
      rw [this]
      exact repA_mono he.stable a _ hrep
    | .opt a, T, hT => by
      obtain ⟨h1, h2, new, hnew, hrep⟩ := desugarAltsAcc_ok a [] T hT
      simp only [desugarExp, defineGen]
      generalize desugarAltsAcc a [] T = r at h1 h2 hnew hrep
      obtain ⟨alts, T1⟩ := r
      simp only at h1 h2 hnew hrep ⊢
      simp only [List.append_nil] at hnew
      subst hnew
      let rl : Rule := { name := .gen T1.length, pub := false, alts := [plainAtom .null] :: alts }
      have hg : Good (T1 ++ [rl]) := h1.snoc_gen rl rfl
      have he : ExtG T1 (T1 ++ [rl]) := ExtG.snoc_gen T1 rl _ rfl
      refine ⟨hg, h2.trans he, ?_⟩
      simp only [repE]
      rw [h1.rules_fresh rl rfl, plainAlts_eq]
      show (match altsOf ([plainAtom .null] :: alts) with
            | [.null] :: rest => repA (T1 ++ [rl]).rules rest.reverse a
            | _ => false) = true
      have e1 : altsOf ([plainAtom .null] :: alts) = [.null] :: altsOf alts := by
        simp [altsOf, atomsOf, plainAtom]
      rw [e1]
      simp only
      have : (altsOf alts).reverse = altsOf alts.reverse := by simp [altsOf]
      rw [this]
      exact repA_mono he.stable a _ hrep
    | .star x, T, hT => by
      obtain ⟨h1, h2, hrep⟩ := desugarExp_ok x T hT
      simp only [desugarExp]
      generalize desugarExp x T = r at h1 h2 hrep
      obtain ⟨a0, T1⟩ := r
      simp only at h1 h2 hrep ⊢
      let rl : Rule := { name := .gen T1.length, pub := false,
                         alts := [[plainAtom .null], [plainAtom a0, plainAtom (.ref (.gen T1.length))]] }
      have hg : Good (T1 ++ [rl]) := h1.snoc_gen rl rfl
      have he : ExtG T1 (T1 ++ [rl]) := ExtG.snoc_gen T1 rl _ rfl
      refine ⟨hg, h2.trans he, ?_⟩
      simp only [repE]
      rw [h1.rules_fresh rl rfl]
      show (match ([[.null], [a0, .ref (.gen T1.length)]] : List Alt) with
            | [[.null], [a, .ref (.gen k')]] => T1.length == k' && repE (T1 ++ [rl]).rules a x
            | _ => false) = true
      simp only [BEq.rfl, Bool.true_and]
      exact repE_mono he.stable x _ hrep
    | .plus x, T, hT => by
      obtain ⟨h1, h2, hrep⟩ := desugarExp_ok x T hT
      simp only [desugarExp]
      generalize desugarExp x T = r at h1 h2 hrep
      obtain ⟨a0, T1⟩ := r
      simp only at h1 h2 hrep ⊢
      let rl : Rule := { name := .gen T1.length, pub := false,
                         alts := [[plainAtom a0], [plainAtom a0, plainAtom (.ref (.gen T1.length))]] }
      have hg : Good (T1 ++ [rl]) := h1.snoc_gen rl rfl
      have he : ExtG T1 (T1 ++ [rl]) := ExtG.snoc_gen T1 rl _ rfl
      refine ⟨hg, h2.trans he, ?_⟩
      simp only [repE]
      rw [h1.rules_fresh rl rfl]
      show (match ([[a0], [a0, .ref (.gen T1.length)]] : List Alt) with
            | [[a'], [a, .ref (.gen k')]] => T1.length == k' && a == a' && repE (T1 ++ [rl]).rules a x
            | _ => false) = true
      simp only [BEq.rfl, Bool.true_and]
      exact repE_mono he.stable x _ hrep
  theorem desugarSeq_ok : ∀ (s : Seq) (T : Table), Good T →
      Good (desugarSeq s T).2 ∧ ExtG T (desugarSeq s T).2 ∧
        repS (desugarSeq s T).2.rules (atomsOf (desugarSeq s T).1) s = true
    | .one wt t e, T, hT => by
      obtain ⟨h1, h2, hrep⟩ := desugarExp_ok e T hT
      simp only [desugarSeq]
      generalize desugarExp e T = r at h1 h2 hrep
      obtain ⟨a0, T1⟩ := r
      exact ⟨h1, h2, by simpa [atomsOf, repS] using hrep⟩
    | .cons wt t e s, T, hT => by
      obtain ⟨h1, h2, hrep⟩ := desugarExp_ok e T hT
      simp only [desugarSeq]
      generalize desugarExp e T = r at h1 h2 hrep
      obtain ⟨a0, T1⟩ := r
      simp only at h1 h2 hrep ⊢
      obtain ⟨g1, g2, grep⟩ := desugarSeq_ok s T1 h1
      generalize desugarSeq s T1 = r2 at g1 g2 grep
      obtain ⟨rest, T2⟩ := r2
      simp only at g1 g2 grep ⊢
      refine ⟨g1, h2.trans g2, ?_⟩
      simp only [atomsOf, List.map_cons, repS, Bool.and_eq_true]
      exact ⟨repE_mono g2.stable e _ hrep, grep⟩
  theorem desugarAltsAcc_ok : ∀ (a : Alts) (acc : List (List WAtom)) (T : Table), Good T →
      Good (desugarAltsAcc a acc T).2 ∧ ExtG T (desugarAltsAcc a acc T).2 ∧
        ∃ new, (desugarAltsAcc a acc T).1 = new ++ acc ∧
          repA (desugarAltsAcc a acc T).2.rules (altsOf new.reverse) a = true
    | .one s, acc, T, hT => by
      obtain ⟨h1, h2, hrep⟩ := desugarSeq_ok s T hT
      simp only [desugarAltsAcc]
      generalize desugarSeq s T = r at h1 h2 hrep
      obtain ⟨alt, T1⟩ := r
      exact ⟨h1, h2, [alt], rfl, by simpa [altsOf, repA] using hrep⟩
    | .cons s a, acc, T, hT => by
      obtain ⟨h1, h2, hrep⟩ := desugarSeq_ok s T hT
      simp only [desugarAltsAcc]
      generalize desugarSeq s T = r at h1 h2 hrep
      obtain ⟨alt, T1⟩ := r
      simp only at h1 h2 hrep ⊢
      obtain ⟨g1, g2, new, hnew, grep⟩ := desugarAltsAcc_ok a (alt :: acc) T1 h1
      refine ⟨g1, h2.trans g2, new ++ [alt], by simp [hnew], ?_⟩
      simp only [List.reverse_append, List.reverse_cons, List.reverse_nil, List.nil_append,
        List.singleton_append, altsOf, List.map_cons, repA, Bool.and_eq_true]
      exact ⟨repS_mono g2.stable s _ hrep, grep⟩
end

end SSVerif.Jsgf

namespace SSVerif.Jsgf

/-! ### the whole grammar (a repeated rule name keeps its first definition) -/

/-- invariant of `desugarFrom` after the rules `done` have been processed -/
structure FromInv (done : Grammar) (T : Table) : Prop where
  good : Good T
  users : ∀ rl ∈ T, ∀ n, rl.name = .user n → ∃ r ∈ done, r.name = n
  reps : ∀ n body, done.lookup n = some body → T.rules (.user n) ≠ [] ∧
            repA T.rules (T.rules (.user n)).reverse body = true

theorem repA_ne_nil {R : Rules} {alts : List (List Atom)} {b : Alts} (h : repA R alts b = true) : alts ≠ [] := by
  intro h0; subst h0; simp [repA_nil] at h

theorem altsOf_reverse (l : List (List WAtom)) : (altsOf l).reverse = altsOf l.reverse := by
  simp [altsOf]

theorem lookup_isSome_of_mem {g : Grammar} {r : SRule} (h : r ∈ g) : (g.lookup r.name).isSome = true := by
  unfold Grammar.lookup
  rw [Option.isSome_map, List.find?_isSome]
  exact ⟨r, h, by simp⟩

theorem lookup_append_some {g : Grammar} {n : Nat} {b : Alts} (rl : SRule) (h : g.lookup n = some b) :
    (g ++ [rl]).lookup n = some b := by
  unfold Grammar.lookup at *
  rw [List.find?_append]
  cases hf : List.find? (fun r => r.name == n) g with
  | none => simp [hf] at h
  | some x => simpa [hf] using h

theorem lookup_append_none {g : Grammar} {n : Nat} (rl : SRule) (h : g.lookup n = none) :
    (g ++ [rl]).lookup n = if rl.name == n then some rl.body else none := by
  unfold Grammar.lookup at *
  rw [List.find?_append]
  cases hf : List.find? (fun r => r.name == n) g with
  | some x => simp [hf] at h
  | none =>
    by_cases hn : rl.name == n
    · simp [hn]
    · simp [hn]

theorem defined_of_rules_ne {T : Table} {r : RName} (h : T.rules r ≠ []) : T.defined r = true := by
  obtain ⟨x, hx⟩ := rules_ne_nil_find h
  unfold Table.defined; rw [hx]; rfl

theorem ExtG.defined {T T' : Table} (h : ExtG T T') {r : RName} (hd : T.defined r = true) : T'.defined r = true := by
  obtain ⟨X, rfl, _⟩ := h
  unfold Table.defined at *
  cases hf : T.find r with
  | none => simp [hf] at hd
  | some rl => rw [find_append_of_some hf]; rfl

theorem fromInv_step {done : Grammar} {T : Table} (I : FromInv done T) (rl : SRule) :
    FromInv (done ++ [rl])
      (if (desugarAlts rl.body T).2.defined (.user rl.name) then (desugarAlts rl.body T).2
       else (desugarAlts rl.body T).2 ++
          [{ name := .user rl.name, pub := rl.pub, alts := (desugarAlts rl.body T).1 }]) := by
  obtain ⟨h1, h2, new, hnew, hrep⟩ := desugarAltsAcc_ok rl.body [] T I.good
  unfold desugarAlts
  generalize desugarAltsAcc rl.body [] T = r at h1 h2 hnew hrep
  obtain ⟨alts, T1⟩ := r
  simp only at h1 h2 hnew hrep ⊢
  simp only [List.append_nil] at hnew
  subst hnew
  -- user rules of `T1` are those of `T`
  have husers1 : ∀ r ∈ T1, ∀ n, r.name = .user n → ∃ r' ∈ done, r'.name = n := by
    obtain ⟨X, rfl, hX⟩ := h2
    intro r hr n hn
    rcases List.mem_append.mp hr with h | h
    · exact I.users r h n hn
    · obtain ⟨k, hk⟩ := hX r h
      rw [hk] at hn; cases hn
  have hreps1 : ∀ n body, done.lookup n = some body → T1.rules (.user n) ≠ [] ∧
      repA T1.rules (T1.rules (.user n)).reverse body = true := by
    intro n body hl
    obtain ⟨hne, hr0⟩ := I.reps n body hl
    have e1 : T1.rules (.user n) = T.rules (.user n) := h2.stable _ hne
    exact ⟨by rw [e1]; exact hne, by rw [e1]; exact repA_mono h2.stable body _ hr0⟩
  by_cases hdef : T1.defined (.user rl.name) = true
  · -- repeated name: the table keeps the first definition
    simp only [hdef, if_true]
    have hold : ∃ b, done.lookup rl.name = some b := by
      unfold Table.defined at hdef
      cases hf : T1.find (.user rl.name) with
      | none => simp [hf] at hdef
      | some x =>
        unfold Table.find at hf
        have hm := List.mem_of_find?_eq_some hf
        have hn : x.name = .user rl.name := by simpa using List.find?_some hf
        obtain ⟨r', hr', hn'⟩ := husers1 x hm _ hn
        have := lookup_isSome_of_mem hr'
        rw [hn'] at this
        exact Option.isSome_iff_exists.mp this
    refine ⟨h1, ?_, ?_⟩
    · intro r hr n hn
      obtain ⟨r', hr', hn'⟩ := husers1 r hr n hn
      exact ⟨r', List.mem_append_left _ hr', hn'⟩
    · intro n body hl
      cases hd : done.lookup n with
      | some b =>
        rw [lookup_append_some rl hd] at hl
        simp only [Option.some.injEq] at hl
        subst hl
        exact hreps1 n b hd
      | none =>
        rw [lookup_append_none rl hd] at hl
        by_cases hn : rl.name == n
        · have : rl.name = n := by simpa using hn
          subst this
          obtain ⟨b, hb⟩ := hold
          rw [hb] at hd; cases hd
        · simp [hn] at hl
  · simp only [hdef, Bool.false_eq_true, if_false]
    simp only [Bool.not_eq_true] at hdef
    let ur : Rule := { name := .user rl.name, pub := rl.pub, alts := alts }
    have hnone : T1.find (.user rl.name) = none := by
      unfold Table.defined at hdef
      cases hf : T1.find (.user rl.name) with
      | none => rfl
      | some x => simp [hf] at hdef
    have hfind : (T1 ++ [ur]).find (.user rl.name) = some ur := by
      unfold Table.find at hnone ⊢
      rw [List.find?_append, hnone]
      simp [ur]
    have hrules : (T1 ++ [ur]).rules (.user rl.name) = altsOf alts := by
      unfold Table.rules
      rw [hfind]; rfl
    have hst1 : ∀ r, T1.rules r ≠ [] → (T1 ++ [ur]).rules r = T1.rules r :=
      fun r hr => rules_append_stable r hr
    have hnew_none : done.lookup rl.name = none := by
      cases hd : done.lookup rl.name with
      | none => rfl
      | some b =>
        have := defined_of_rules_ne (hreps1 _ b hd).1
        rw [hdef] at this; cases this
    refine ⟨h1.snoc_user ur rl.name rfl, ?_, ?_⟩
    · intro r hr n hn
      rcases List.mem_append.mp hr with h | h
      · obtain ⟨r', hr', hn'⟩ := husers1 r h n hn
        exact ⟨r', List.mem_append_left _ hr', hn'⟩
      · simp only [List.mem_singleton] at h
        subst h
        cases hn
        exact ⟨rl, by simp, rfl⟩
    · intro n body hl
      cases hd : done.lookup n with
      | some b =>
        rw [lookup_append_some rl hd] at hl
        simp only [Option.some.injEq] at hl
        subst hl
        obtain ⟨hne1, hr1⟩ := hreps1 n b hd
        have e2 := hst1 _ hne1
        exact ⟨by rw [e2]; exact hne1, by rw [e2]; exact repA_mono hst1 b _ hr1⟩
      | none =>
        rw [lookup_append_none rl hd] at hl
        by_cases hn : rl.name == n
        · have hnn : rl.name = n := by simpa using hn
          subst hnn
          simp only [BEq.rfl, if_true, Option.some.injEq] at hl
          subst hl
          have hne : altsOf alts ≠ [] := by
            intro h0
            have := repA_ne_nil hrep
            rw [← altsOf_reverse, h0] at this
            exact this rfl
          refine ⟨by rw [hrules]; exact hne, ?_⟩
          rw [hrules, altsOf_reverse]
          exact repA_mono hst1 rl.body _ hrep
        · simp [hn] at hl

theorem desugarFrom_inv : ∀ (rest done : Grammar) (T : Table), FromInv done T →
    FromInv (done ++ rest) (desugarFrom rest T)
  | [], done, T, I => by simpa [desugarFrom] using I
  | rl :: rest, done, T, I => by
    have step := fromInv_step I rl
    simp only [desugarFrom]
    by_cases hdef : (desugarAlts rl.body T).2.defined (.user rl.name) = true
    · simp only [hdef, if_true] at step ⊢
      have := desugarFrom_inv rest (done ++ [rl]) _ step
      simpa [List.append_assoc] using this
    · simp only [hdef, Bool.false_eq_true, if_false] at step ⊢
      have := desugarFrom_inv rest (done ++ [rl]) _ step
      simpa [List.append_assoc] using this

/-- the model of the parser actions always yields a table that represents the grammar (for a
repeated rule name, `Grammar.lookup` and the table both keep the first definition) -/
theorem desugar_matches (g : Grammar) : tableMatches (desugar g) g = true := by
  have I : FromInv ([] ++ g) (desugarFrom g []) :=
    desugarFrom_inv g [] []
      { good := by intro i hi; simp at hi
        users := by intro rl h; cases h
        reps := by intro n body h; simp [Grammar.lookup] at h }
  simp only [List.nil_append] at I
  unfold tableMatches desugar
  simp only [Bool.and_eq_true, List.all_eq_true]
  constructor
  · intro rl hrl
    obtain ⟨b, hb⟩ := Option.isSome_iff_exists.mp (lookup_isSome_of_mem hrl)
    obtain ⟨hne, hrep⟩ := I.reps rl.name b hb
    exact ⟨defined_of_rules_ne hne, by rw [hb]; exact hrep⟩
  · intro rl hrl
    cases hn : rl.name with
    | gen k => rfl
    | user n =>
      obtain ⟨r, hr, hrn⟩ := I.users rl hrl n hn
      simp only
      rw [← hrn]
      exact lookup_isSome_of_mem hr

end SSVerif.Jsgf
