import SSVerif.Proofs.TextSvspec
/-! # `parse_subvecs` model: completeness on canonical texts (C10)

Every well-formed specification is the result of parsing its canonical decimal text, so the
well-formedness predicate proved of accepted specifications (`parseSubvecs_wf`) is exactly the set
of results. -/
namespace SSVerif.TextIn

/-- decimal digits of `n`, most significant first (`fuel > n` is enough) -/
def digitsF : Nat → Nat → List UInt8
  | 0, _ => []
  | f + 1, n => if n < 10 then [UInt8.ofNat (48 + n)] else digitsF f (n / 10) ++ [UInt8.ofNat (48 + n % 10)]

def natDigits (n : Nat) : List UInt8 := digitsF (n + 1) n

theorem digit_facts : ∀ d : Nat, d < 10 →
    isDigit (UInt8.ofNat (48 + d)) = true ∧ (UInt8.ofNat (48 + d)).toNat - 48 = d := by decide

theorem byte_digit_facts : ∀ n : Nat, n < 256 → isDigit (UInt8.ofNat n) = true →
    isSpaceLibc (UInt8.ofNat n) = false ∧ UInt8.ofNat n ≠ 45 ∧ UInt8.ofNat n ≠ 43 ∧ UInt8.ofNat n ≠ 44 ∧ UInt8.ofNat n ≠ 47 := by
  decide +kernel

theorem digit_not (b : UInt8) (h : isDigit b = true) :
    isSpaceLibc b = false ∧ b ≠ 45 ∧ b ≠ 43 ∧ b ≠ 44 ∧ b ≠ 47 := by
  have := byte_digit_facts b.toNat (UInt8.toNat_lt b)
  rw [UInt8.ofNat_toNat] at this
  exact this h

theorem digitsF_allDigits : ∀ (f n : Nat), ∀ b ∈ digitsF f n, isDigit b = true
  | 0, _, b, h => by simp [digitsF] at h
  | f + 1, n, b, h => by
    unfold digitsF at h
    split at h
    · rename_i hn
      simp only [List.mem_singleton] at h; subst h; exact (digit_facts n hn).1
    · rw [List.mem_append] at h
      rcases h with h | h
      · exact digitsF_allDigits f _ b h
      · simp only [List.mem_singleton] at h; subst h; exact (digit_facts _ (Nat.mod_lt _ (by decide))).1

theorem digitsF_ne_nil : ∀ (f n : Nat), n < f → digitsF f n ≠ []
  | 0, _, h => by omega
  | f + 1, n, _ => by
    unfold digitsF
    split
    · simp
    · simp

/-- all-digit prefix: consumed entirely -/
theorem digitsVal_append : ∀ (ds : List UInt8) (acc : Nat) (r : List UInt8), (∀ b ∈ ds, isDigit b = true) →
    digitsVal acc (ds ++ r) = digitsVal (digitsVal acc ds).1 r
  | [], acc, r, _ => by simp [digitsVal]
  | b :: ds, acc, r, h => by
    have hb := h b List.mem_cons_self
    simp only [List.cons_append]
    rw [digitsVal, if_pos hb]
    conv => rhs; rw [digitsVal, if_pos hb]
    exact digitsVal_append ds _ r (fun x hx => h x (List.mem_cons_of_mem _ hx))

theorem digitsVal_stop (acc : Nat) (r : List UInt8) (h : ∀ b r', r = b :: r' → isDigit b = false) :
    digitsVal acc r = (acc, r) := by
  cases r with
  | nil => rfl
  | cons b r' => rw [digitsVal, if_neg (by rw [h b r' rfl]; simp)]

theorem digitsVal_digitsF : ∀ (f n : Nat), n < f → (digitsVal 0 (digitsF f n)).1 = n
  | 0, _, h => by omega
  | f + 1, n, _ => by
    unfold digitsF
    split
    · rename_i hn
      rw [digitsVal, if_pos (digit_facts n hn).1, digitsVal]
      simp only [Nat.mul_zero, Nat.zero_add]
      exact (digit_facts n hn).2
    · rename_i hn
      have hd := digit_facts (n % 10) (Nat.mod_lt _ (by decide))
      rw [digitsVal_append _ _ _ (digitsF_allDigits f _), digitsVal_digitsF f (n / 10) (by omega)]
      rw [digitsVal, if_pos hd.1, digitsVal, hd.2]
      omega

/-- a byte string that does not start with a digit -/
def NoDigitHead (r : List UInt8) : Prop := ∀ b r', r = b :: r' → isDigit b = false

theorem scanfInt_natDigits (n : Nat) (hn : n ≤ 2147483647) (r : List UInt8) (hr : NoDigitHead r) :
    scanfInt (natDigits n ++ r) = some ((n : Int), r) := by
  unfold natDigits
  have hne := digitsF_ne_nil (n + 1) n (Nat.lt_succ_self _)
  have hall := digitsF_allDigits (n + 1) n
  have hval := digitsVal_digitsF (n + 1) n (Nat.lt_succ_self _)
  generalize digitsF (n + 1) n = ds at hne hall hval
  cases ds with
  | nil => exact absurd rfl hne
  | cons b ds' =>
    have hb := hall b List.mem_cons_self
    obtain ⟨hsp, h45, h43, _, _⟩ := digit_not b hb
    unfold scanfInt
    simp only [List.cons_append]
    have e1 : dropSpaceLibc (b :: (ds' ++ r)) = b :: (ds' ++ r) := by
      rw [dropSpaceLibc, if_neg (by rw [hsp]; simp)]
    have e2 : signSplit (b :: (ds' ++ r)) = (false, b :: (ds' ++ r)) := by
      unfold signSplit
      split
      · rename_i heq; injection heq with hh _; exact absurd hh h45
      · rename_i heq; injection heq with hh _; exact absurd hh h43
      · rfl
    rw [e1, e2]
    simp only
    unfold scanDigits
    simp only [hb, if_true]
    have e3 : digitsVal 0 (b :: (ds' ++ r)) = (n, r) := by
      have := digitsVal_append (b :: ds') 0 r hall
      simp only [List.cons_append] at this
      rw [this, hval, digitsVal_stop n r hr]
    rw [e3]
    simp only [Bool.false_eq_true, if_false]
    have : wrap32 (satLong (n : Int)) = (n : Int) := by
      unfold satLong wrap32 longMax longMin
      simp only
      split <;> split <;> omega
    rw [this]

theorem natDigits_length_pos (n : Nat) : 0 < (natDigits n).length :=
  List.length_pos_iff.mpr (digitsF_ne_nil (n + 1) n (Nat.lt_succ_self _))

theorem addRange_one (dims : List Nat) (n : Nat) (h : n ∉ dims) : addRange dims n 1 = some (dims ++ [n]) := by
  unfold addRange
  rw [if_neg (by simpa using h)]
  rfl

/-- the rest after an item: the end of the string, `,` or `/` -/
def ItemRest (r : List UInt8) : Prop := r = [] ∨ (∃ r', r = 44 :: r') ∨ ∃ r', r = 47 :: r'

theorem ItemRest.noDigit {r : List UInt8} (h : ItemRest r) : NoDigitHead r := by
  intro b r' e
  rcases h with h | ⟨x, h⟩ | ⟨x, h⟩
  · rw [h] at e; cases e
  · rw [h] at e; injection e with e _; subst e; decide
  · rw [h] at e; injection e with e _; subst e; decide

theorem svItem_natDigits (dims : List Nat) (n : Nat) (hn : n ≤ 2147483647) (hnot : n ∉ dims)
    (r : List UInt8) (hr : ItemRest r) : svItem dims (natDigits n ++ r) = .ok (dims ++ [n], r) := by
  unfold svItem
  rw [scanfInt_natDigits n hn r hr.noDigit]
  simp only
  have fin : ∀ r2 : List UInt8, (if (n : Int) < 0 ∨ (n : Int) > (n : Int) then (Except.error SvErr.badRange : Except SvErr (List Nat × List UInt8))
      else match addRange dims (n : Int).toNat ((n : Int) - (n : Int) + 1).toNat with
        | none => .error .dup
        | some d => .ok (d, r2)) = .ok (dims ++ [n], r2) := by
    intro r2
    rw [if_neg (by omega)]
    have : ((n : Int) - (n : Int) + 1).toNat = 1 := by omega
    rw [this, Int.toNat_natCast, addRange_one dims n hnot]
  rcases hr with h | ⟨x, h⟩ | ⟨x, h⟩ <;> subst h <;> exact fin _

/-- canonical text of one sub-vector: its dimensions in decimal, separated by `,` -/
def renderVec : List Nat → List UInt8
  | [] => []
  | [d] => natDigits d
  | d :: d' :: ds => natDigits d ++ 44 :: renderVec (d' :: ds)

/-- canonical text of a specification: sub-vectors separated by `/` -/
def renderSv : List (List Nat) → List UInt8
  | [] => []
  | [v] => renderVec v
  | v :: v' :: vs => renderVec v ++ 47 :: renderSv (v' :: vs)

theorem svVecF_render : ∀ (v : List Nat), v ≠ [] → ∀ (fuel : Nat) (dims : List Nat) (r : List UInt8),
    (renderVec v ++ r).length < fuel → (dims ++ v).Nodup → (∀ x ∈ v, x ≤ 2147483647) →
    (r = [] ∨ ∃ r', r = 47 :: r') → svVecF fuel dims (renderVec v ++ r) = .ok (dims ++ v, r)
  | [], h, _, _, _, _, _, _, _ => absurd rfl h
  | [d], _, fuel, dims, r, hf, hnd, hmax, hr => by
    cases fuel with
    | zero => omega
    | succ fuel =>
      unfold svVecF
      simp only [renderVec]
      have hnot : d ∉ dims := by
        intro hm
        rw [List.nodup_append] at hnd
        exact hnd.2.2 d hm d (by simp) rfl
      rw [svItem_natDigits dims d (hmax d (by simp)) hnot r (by rcases hr with h | h; exact .inl h; exact .inr (.inr h))]
      simp only
      rcases hr with h | ⟨r', h⟩ <;> subst h <;> rfl
  | d :: d' :: ds, _, fuel, dims, r, hf, hnd, hmax, hr => by
    cases fuel with
    | zero => omega
    | succ fuel =>
      unfold svVecF
      simp only [renderVec, List.append_assoc, List.cons_append]
      have hnot : d ∉ dims := by
        intro hm
        rw [List.nodup_append] at hnd
        exact hnd.2.2 d hm d (by simp) rfl
      rw [svItem_natDigits dims d (hmax d (by simp)) hnot _ (.inr (.inl ⟨_, rfl⟩))]
      simp only
      have hlen : (renderVec (d' :: ds) ++ r).length < fuel := by
        simp only [renderVec, List.append_assoc, List.cons_append, List.length_append, List.length_cons] at hf
        have := natDigits_length_pos d
        simp only [List.length_append]
        omega
      have := svVecF_render (d' :: ds) (by simp) fuel (dims ++ [d]) r hlen
        (by simpa [List.append_assoc] using hnd) (fun x hx => hmax x (List.mem_cons_of_mem _ hx)) hr
      rw [this]
      simp [List.append_assoc]

theorem svVec_render (v : List Nat) (hv : v ≠ []) (hnd : v.Nodup) (hmax : ∀ x ∈ v, x ≤ 2147483647)
    (r : List UInt8) (hr : r = [] ∨ ∃ r', r = 47 :: r') : svVec (renderVec v ++ r) = .ok (v, r) := by
  unfold svVec
  have := svVecF_render v hv ((renderVec v ++ r).length + 1) [] r (Nat.lt_succ_self _) (by simpa using hnd) hmax hr
  simpa using this

theorem svAllF_render : ∀ (vs : List (List Nat)), vs ≠ [] → ∀ (fuel : Nat) (acc : List (List Nat)),
    (renderSv vs).length < fuel → (∀ v ∈ vs, v ≠ [] ∧ v.Nodup ∧ ∀ x ∈ v, x ≤ 2147483647) →
    svAllF fuel acc (renderSv vs) = .ok (acc ++ vs)
  | [], h, _, _, _, _ => absurd rfl h
  | [v], _, fuel, acc, hf, hwf => by
    cases fuel with
    | zero => omega
    | succ fuel =>
      unfold svAllF
      obtain ⟨h1, h2, h3⟩ := hwf v (by simp)
      have := svVec_render v h1 h2 h3 [] (.inl rfl)
      simp only [List.append_nil] at this
      simp only [renderSv]
      rw [this]
  | v :: v' :: vs, _, fuel, acc, hf, hwf => by
    cases fuel with
    | zero => omega
    | succ fuel =>
      unfold svAllF
      obtain ⟨h1, h2, h3⟩ := hwf v (by simp)
      simp only [renderSv]
      rw [svVec_render v h1 h2 h3 _ (.inr ⟨_, rfl⟩)]
      simp only
      have hlen : (renderSv (v' :: vs)).length < fuel := by
        simp only [renderSv, List.length_append, List.length_cons] at hf
        omega
      rw [svAllF_render (v' :: vs) (by simp) fuel (acc ++ [v]) hlen (fun x hx => hwf x (List.mem_cons_of_mem _ hx))]
      simp [List.append_assoc]

/-- **completeness on canonical texts**: every well-formed specification is the result of parsing
its canonical text — so `SvWF` (soundness: `parseSubvecs_wf`) is exactly the set of results -/
theorem parseSubvecs_render (vs : List (List Nat)) (h : SvWF vs) : parseSubvecs (renderSv vs) = .ok vs := by
  unfold parseSubvecs
  have := svAllF_render vs h.1 ((renderSv vs).length + 1) [] (Nat.lt_succ_self _) h.2
  simpa using this

end SSVerif.TextIn
