import SSVerif.Proofs.LatticePruneOK
/-! the pruned lattice is a DAG on which the traversal / best-path theorems hold; surviving best path;
what is left when every path is cut -/
namespace SSVerif.Lattice
open SSVerif.Nfa
namespace Prune

variable {G : Nfa} {L : Lat} {post : Link → Int} {beam : Int}

local notation "SS" => survivors L post beam
local notation "ord" => keepOrder L post beam
local notation "LP" => prunedLat L post beam
local notation "SL" => L.withLinks (survivors L post beam)

/-- the graph conditions of the traversal / best-path / forward-backward theorems hold on the pruned lattice,
whatever was pruned -/
theorem dagOK (ok : LatticeOK G L) : DagOK (LP) (LP).rank where
  nodup := by
    have := distinct (post := post) (beam := beam) ok
    unfold LinksDistinct at this
    exact this.imp (fun {a b} h hab => h (by subst hab; exact ⟨rfl, rfl⟩))
  rank_lt := by
    intro l' hl'
    obtain ⟨l, hk, rfl⟩ := (mem_links ok).1 hl'
    rw [link_src, link_dst, rank_idx ok hk.2.2.1, rank_idx ok hk.2.2.2]
    exact rank_lt ok hk.1
  no_entry_start := by
    intro l' hl' e
    obtain ⟨l, hk, rfl⟩ := (mem_links ok).1 hl'
    exact (ok.startEnd.1 l hk.1).1 ((idx_eq_start ok hk.2.2.2).1 e)
  no_exit_final := by
    intro l' hl' e
    obtain ⟨l, hk, rfl⟩ := (mem_links ok).1 hl'
    exact (ok.startEnd.1 l hk.1).2 ((idx_eq_final ok hk.2.2.1).1 e)
  has_entry := by
    intro l' hl' hne
    obtain ⟨l, hk, rfl⟩ := (mem_links ok).1 hl'
    have hns : l.src ≠ L.start := fun e => hne ((idx_eq_start ok hk.2.2.1).2 e)
    have hnf := (ok.startEnd.1 l hk.1).2
    rcases ((mem_ord ok).1 hk.2.2.1).2 with h | h | ⟨⟨p, hp⟩, ⟨q, hq⟩⟩
    · exact absurd h hns
    · exact absurd h hnf
    · have hpne : p ≠ [] := by
        rintro rfl
        exact hns hp.eq_of_nil.symm
      obtain ⟨p0, l0, hp0, hm0, hd0⟩ := Path.last hp hpne
      have hk0 : Kept L post beam l0 := kept_of_path_link ok hm0 ⟨p0, hp0⟩ ⟨q, hd0 ▸ hq⟩
      exact ⟨renumLink (ord) l0, (mem_links ok).2 ⟨l0, hk0, rfl⟩, by rw [link_dst, link_src, hd0]⟩
  reach_final := by
    intro l' hl'
    obtain ⟨l, hk, rfl⟩ := (mem_links ok).1 hl'
    rcases ((mem_ord ok).1 hk.2.2.2).2 with h | h | ⟨⟨p, hp⟩, ⟨q, hq⟩⟩
    · exact absurd h (ok.startEnd.1 l hk.1).1
    · exact ⟨[], by rw [link_dst, h]; exact .nil _⟩
    · exact ⟨q.map (renumLink (ord)), path_image ok hq ⟨p, hp⟩ ⟨[], .nil _⟩⟩

/-- at least one start→end path is left -/
def Survives (L : Lat) (post : Link → Int) (beam : Int) : Prop :=
  ∃ p, Path (L.withLinks (survivors L post beam)) L.start p L.final

theorem paths_of_ord (ok : LatticeOK G L) (hP : Survives L post beam) {v : Nat} (hv : v ∈ ord) :
    (∃ p, Path (SL) L.start p v) ∧ (∃ q, Path (SL) v q L.final) := by
  rcases ((mem_ord ok).1 hv).2 with h | h | h
  · subst h; exact ⟨⟨[], .nil _⟩, hP⟩
  · subst h; exact ⟨hP, ⟨[], .nil _⟩⟩
  · exact h

theorem startEnd (ok : LatticeOK G L) (hP : Survives L post beam) : StartEndOK (LP) := by
  have dg := dagOK (post := post) (beam := beam) ok
  refine ⟨fun l hl => ⟨dg.no_entry_start l hl, dg.no_exit_final l hl⟩, ?_, ?_⟩
  · intro i hi hne
    obtain ⟨v, hv, rfl⟩ := exists_of_lt hi
    have hns : v ≠ L.start := fun e => hne ((idx_eq_start ok hv).2 e)
    obtain ⟨⟨p, hp⟩, ⟨q, hq⟩⟩ := paths_of_ord ok hP hv
    have hpne : p ≠ [] := by
      rintro rfl
      exact hns hp.eq_of_nil.symm
    obtain ⟨p0, l0, hp0, hm0, hd0⟩ := Path.last hp hpne
    have hk0 : Kept L post beam l0 := kept_of_path_link ok hm0 ⟨p0, hp0⟩ ⟨q, hd0 ▸ hq⟩
    exact ⟨renumLink (ord) l0, (mem_links ok).2 ⟨l0, hk0, rfl⟩, by rw [link_dst, hd0]⟩
  · intro i hi hne
    obtain ⟨v, hv, rfl⟩ := exists_of_lt hi
    have hnf : v ≠ L.final := fun e => hne ((idx_eq_final ok hv).2 e)
    obtain ⟨⟨p, hp⟩, ⟨q, hq⟩⟩ := paths_of_ord ok hP hv
    cases hq with
    | nil => exact absurd rfl hnf
    | cons hm hs tail =>
      rename_i l ls
      have hk0 : Kept L post beam l := kept_of_path_link ok hm ⟨p, hs ▸ hp⟩ ⟨ls, tail⟩
      exact ⟨renumLink (ord) l, (mem_links ok).2 ⟨l, hk0, rfl⟩, by rw [link_src, hs]⟩

theorem startMark (ok : LatticeOK G L) (hP : Survives L post beam) : StartMarkOK (LP) := by
  intro hr i hi hw
  rw [start_eq, node_idx (start_ord ok)] at hr
  obtain ⟨v, hv, rfl⟩ := exists_of_lt hi
  rw [node_idx hv] at hw
  obtain ⟨⟨p, hp⟩, hq⟩ := paths_of_ord ok hP hv
  have hvs : v ≠ L.start := by
    intro e; rw [e, hr] at hw; exact absurd hw.1 (by decide)
  have hrv : L.rank v = 1 := by
    unfold Lat.rank
    simp [hvs, hw.2]
  have hrs : L.rank L.start = 0 := by
    unfold Lat.rank
    simp [hr]
  cases hp with
  | nil => exact absurd rfl hvs
  | cons hm hs tail =>
    rename_i l ls
    have hmL : l ∈ L.links := surv_sub ok l hm
    have h1 := rank_lt ok hmL
    have h2 := path_rank ok (path_of_S (surv_sub ok) tail)
    rw [hs, hrs] at h1
    rw [hrv] at h2
    have hl0 : ls = [] := List.length_eq_zero_iff.1 (by omega)
    subst hl0
    have hd : l.dst = v := tail.eq_of_nil
    have hk : Kept L post beam l := kept_of_path_link ok hm ⟨[], hs ▸ .nil _⟩ (hd ▸ hq)
    exact ⟨renumLink (ord) l, (mem_links ok).2 ⟨l, hk, rfl⟩, by rw [link_src, hs]; rfl, by rw [link_dst, hd]⟩

/-- every node of the pruned lattice lies on a start→end path of the pruned lattice -/
theorem all_on_path (ok : LatticeOK G L) (hP : Survives L post beam) {i : Nat} (hi : i < (LP).n) :
    ∃ p q, Path (LP) (LP).start p i ∧ Path (LP) i q (LP).final := by
  obtain ⟨v, hv, rfl⟩ := exists_of_lt hi
  obtain ⟨⟨p, hp⟩, ⟨q, hq⟩⟩ := paths_of_ord ok hP hv
  exact ⟨_, _, path_image ok hp ⟨[], .nil _⟩ ⟨q, hq⟩, path_image ok hq ⟨p, hp⟩ ⟨[], .nil _⟩⟩

theorem path_to_S (ok : LatticeOK G L) {u v : Nat} {p : List Link} (hp : Path L u p v)
    (hb : ∀ l ∈ p, beam ≤ post l) : Path (SL) u p v := by
  induction hp with
  | nil u => exact .nil u
  | cons hm hs _ ih =>
    exact .cons ((mem_survivors ok).2 ⟨hm, hb _ List.mem_cons_self⟩) hs
      (ih (fun l hl => hb l (List.mem_cons_of_mem _ hl)))

/-- a best path none of whose links is below the beam is still there, and `lattice_bestpath` on the pruned lattice
returns its score -/
theorem bestpath_after (ok : LatticeOK G L) {p : List Link} (hp : Path L L.start p L.final) (hne : p ≠ [])
    (hb : ∀ l ∈ p, beam ≤ post l) (hmax : ∀ q, Path L L.start q L.final → score q ≤ score p) :
    Path (LP) (LP).start (p.map (renumLink (ord))) (LP).final ∧
    ∃ x c, bestpath (LP) = some (x, score p, c) := by
  have himg : Path (LP) (LP).start (p.map (renumLink (ord))) (LP).final :=
    path_image ok (path_to_S ok hp hb) ⟨[], .nil _⟩ ⟨[], .nil _⟩
  refine ⟨himg, ?_⟩
  have hm := bestpath_is_max (dagOK (post := post) (beam := beam) ok)
  cases hbp : bestpath (LP) with
  | none =>
    rw [hbp] at hm
    have := hm _ himg
    exact absurd (List.map_eq_nil_iff.1 this) hne
  | some r =>
    obtain ⟨x, s, c⟩ := r
    rw [hbp] at hm
    obtain ⟨_, _, ⟨p1, hp1, _, hs1⟩, hle⟩ := hm
    have h1 : score p ≤ s := by
      have := hle _ himg (by simpa using hne)
      rwa [score_map] at this
    obtain ⟨p0, w, hw, ej, ep, hp0, _⟩ := path_preimage ok hp1 L.start (start_ord ok) rfl
    have hwf : w = L.final := (idx_eq_final ok hw).1 ej.symm
    have h2 : s ≤ score p := by
      rw [← hs1, ep, score_map]
      exact hmax p0 (path_of_S (surv_sub ok) (hwf ▸ hp0))
    exact ⟨x, c, by rw [show s = score p by omega]⟩

/-- when no start→end path is left: the start and the end node, no link -/
theorem all_cut (ok : LatticeOK G L) (hno : ¬ Survives L post beam) :
    (LP).links = [] ∧ ord = (List.range L.n).filter (fun v => v == L.start || v == L.final) := by
  have hk : ∀ v, v < L.n → (Keep L (SS) v ↔ (v = L.start ∨ v = L.final)) := by
    intro v _
    constructor
    · rintro (h | h | ⟨⟨p, hp⟩, ⟨q, hq⟩⟩)
      · exact Or.inl h
      · exact Or.inr h
      · exact absurd ⟨p ++ q, hp.append hq⟩ hno
    · rintro (h | h)
      · exact Or.inl h
      · exact Or.inr (Or.inl h)
  constructor
  · apply List.eq_nil_iff_forall_not_mem.2
    intro l' hl'
    obtain ⟨l, hkl, rfl⟩ := (mem_links ok).1 hl'
    have he := ok.endpoints.2.2 l hkl.1
    have h1 := (hk _ he.1).1 ((mem_ord ok).1 hkl.2.2.1).2
    have h2 := (hk _ he.2).1 ((mem_ord ok).1 hkl.2.2.2).2
    have hse := ok.startEnd.1 l hkl.1
    rcases h1 with h1 | h1
    · rcases h2 with h2 | h2
      · exact hse.1 h2
      · exact hno ⟨[l], .cons ((mem_survivors ok).2 ⟨hkl.1, hkl.2.1⟩) h1 (h2 ▸ .nil _)⟩
    · exact hse.2 h1
  · unfold keepOrder
    apply List.filter_congr
    intro v hv
    have hvn := List.mem_range.1 hv
    rw [Bool.eq_iff_iff, keepB_iff ok (surv_sub ok) hvn, hk v hvn]
    simp

end Prune
end SSVerif.Lattice
