import SSVerif.Model.Dict
/-!
# Lemmas about the dictionary model (M14): the well-formedness invariant and its preservation
-/
namespace SSVerif.Dict
open SSVerif.HashTable (Key upper)

/-! ## the growth step changes nothing but the capacity -/

@[simp] theorem grow_words (d : Dict) : (grow d).words = d.words := by unfold grow; split <;> rfl
@[simp] theorem grow_ht (d : Dict) : (grow d).ht = d.ht := by unfold grow; split <;> rfl
@[simp] theorem grow_nocase (d : Dict) : (grow d).nocase = d.nocase := by unfold grow; split <;> rfl
@[simp] theorem grow_wordid (d : Dict) (w : Key) : (grow d).wordid w = d.wordid w := by
  simp [Dict.wordid]
@[simp] theorem grow_fillerStart (d : Dict) : (grow d).fillerStart = d.fillerStart := by unfold grow; split <;> rfl
@[simp] theorem grow_fillerEnd (d : Dict) : (grow d).fillerEnd = d.fillerEnd := by unfold grow; split <;> rfl
@[simp] theorem grow_startwid (d : Dict) : (grow d).startwid = d.startwid := by unfold grow; split <;> rfl
@[simp] theorem grow_finishwid (d : Dict) : (grow d).finishwid = d.finishwid := by unfold grow; split <;> rfl
@[simp] theorem grow_silwid (d : Dict) : (grow d).silwid = d.silwid := by unfold grow; split <;> rfl

theorem grow_eq (d : Dict) : grow d = { d with maxWords := (grow d).maxWords } := by
  unfold grow; split <;> rfl

theorem grow_maxWords (d : Dict) :
    (grow d).maxWords = d.maxWords ∨ (grow d).maxWords = d.maxWords + Generated.s3dictIncSz := by
  unfold grow; split
  · right; rfl
  · left; rfl

theorem grow_room (d : Dict) (h : 0 < Generated.s3dictIncSz) (hinv : d.words.length ≤ d.maxWords) :
    d.words.length < (grow d).maxWords := by
  unfold grow; split
  · simp; omega
  · omega

@[simp] theorem findBase_grow (d : Dict) (w : Key) : findBase (grow d) w = findBase d w := by
  simp [findBase]

/-! ## `linkAndAppend`: what the appended table looks like -/

section link
variable (d : Dict) (word : Key) (pron : List Nat) (bw : Option Nat) (ht' : List (Key × Nat))

@[simp] theorem la_ht : (linkAndAppend d word pron bw ht').ht = ht' := by
  unfold linkAndAppend; split
  · rfl
  · split <;> rfl

@[simp] theorem la_nocase : (linkAndAppend d word pron bw ht').nocase = d.nocase := by
  unfold linkAndAppend; split
  · rfl
  · split <;> rfl

@[simp] theorem la_maxWords : (linkAndAppend d word pron bw ht').maxWords = d.maxWords := by
  unfold linkAndAppend; split
  · rfl
  · split <;> rfl

@[simp] theorem la_fillerStart : (linkAndAppend d word pron bw ht').fillerStart = d.fillerStart := by
  unfold linkAndAppend; split
  · rfl
  · split <;> rfl

@[simp] theorem la_fillerEnd : (linkAndAppend d word pron bw ht').fillerEnd = d.fillerEnd := by
  unfold linkAndAppend; split
  · rfl
  · split <;> rfl

@[simp] theorem la_startwid : (linkAndAppend d word pron bw ht').startwid = d.startwid := by
  unfold linkAndAppend; split
  · rfl
  · split <;> rfl

@[simp] theorem la_finishwid : (linkAndAppend d word pron bw ht').finishwid = d.finishwid := by
  unfold linkAndAppend; split
  · rfl
  · split <;> rfl

@[simp] theorem la_silwid : (linkAndAppend d word pron bw ht').silwid = d.silwid := by
  unfold linkAndAppend; split
  · rfl
  · split <;> rfl

@[simp] theorem la_length : (linkAndAppend d word pron bw ht').words.length = d.words.length + 1 := by
  unfold linkAndAppend; split
  · simp
  · split <;> simp

/-- the new entry -/
theorem la_get_new :
    (linkAndAppend d word pron bw ht').words[d.words.length]? =
      some { word, pron, basewid := bw.getD d.words.length, alt := bw.bind d.altOf } := by
  unfold linkAndAppend; split
  · simp
  · next w =>
    split
    · next hw => simp [Dict.altOf, hw]
    · next b hb =>
      have : d.words.length = (d.words.set w { b with alt := some d.words.length }).length := by simp
      rw [List.getElem?_append_right (by omega)]
      simp [Dict.altOf, hb]

/-- old entries keep word, pronunciation and base id; only the `alt` of the base of the new word changes -/
theorem la_get_old {i : Nat} {e : Entry} (h : d.words[i]? = some e) :
    (linkAndAppend d word pron bw ht').words[i]? =
      some { e with alt := if bw = some i then some d.words.length else e.alt } := by
  have hi : i < d.words.length := by
    rcases List.getElem?_eq_some_iff.1 h with ⟨hh, _⟩; exact hh
  unfold linkAndAppend; split
  · simp [List.getElem?_append_left hi, h]
  · next w =>
    split
    · next hw =>
      have : w ≠ i := by
        intro hwi; subst hwi; rw [h] at hw; cases hw
      simp [List.getElem?_append_left hi, h, this]
    · next b hb =>
      rw [List.getElem?_append_left (by simpa using hi)]
      by_cases hwi : w = i
      · subst hwi
        rw [h] at hb; cases hb
        simp [List.getElem?_set_self hi]
      · rw [List.getElem?_set_ne hwi]
        simp [h, hwi]

end link

/-! ## the invariant -/

/-- follows the `alt` pointers: `l` is exactly the chain hanging off `x` -/
def Linked (alt : Nat → Option Nat) : Nat → List Nat → Prop
  | x, [] => alt x = none
  | x, a :: l => alt x = some a ∧ Linked alt a l

/-- chain structure: `L r` is the alternate chain of the base word `r` -/
structure Chains (d : Dict) (L : Nat → List Nat) : Prop where
  linked : ∀ r, d.isBase r = true → Linked d.altOf r (L r)
  mem : ∀ r, d.isBase r = true → ∀ j ∈ L r, d.isBase j = false ∧
          ∃ e, d.words[j]? = some e ∧ e.basewid ∈ r :: L r
  cover : ∀ j, j < d.words.length → d.isBase j = false → ∃ r, d.isBase r = true ∧ j ∈ L r
  nodup : ∀ r, d.isBase r = true → (L r).Nodup
  disj : ∀ r r' j, d.isBase r = true → d.isBase r' = true → j ∈ L r → j ∈ L r' → r = r'
  len : ∀ r, d.isBase r = true → (L r).length ≤ d.words.length

/-- the invariant of every dictionary reachable by additions from the empty one -/
structure WF (d : Dict) : Prop where
  /-- every word is registered under its spelling -/
  ht_complete : ∀ (i : Nat) (e : Entry), d.words[i]? = some e → d.wordid e.word = some i
  /-- the map contains nothing else -/
  ht_sound : ∀ (k : Key) (i : Nat), d.ht.lookup k = some i → ∃ e : Entry, d.words[i]? = some e ∧ norm d.nocase e.word = k
  word_ne : ∀ (i : Nat) (e : Entry), d.words[i]? = some e → e.word ≠ []
  /-- a word that is not of the form `base(...)` is its own base -/
  base_self : ∀ (i : Nat) (e : Entry), d.words[i]? = some e → word2basestr e.word = none → e.basewid = i
  /-- `base(...)` points at the (earlier) word registered under `base` -/
  base_alt : ∀ (i : Nat) (e : Entry) (b : Key), d.words[i]? = some e → word2basestr e.word = some b →
      d.wordid b = some e.basewid ∧ e.basewid < i
  chains : ∃ L, Chains d L

theorem isBase_lt {d : Dict} {i : Nat} (h : d.isBase i = true) : i < d.words.length := by
  unfold Dict.isBase at h
  split at h
  · next e he => rcases List.getElem?_eq_some_iff.1 he with ⟨hh, _⟩; exact hh
  · cases h

theorem isBase_of_get {d : Dict} {i : Nat} {e : Entry} (h : d.words[i]? = some e) :
    d.isBase i = (word2basestr e.word).isNone := by
  simp [Dict.isBase, h]

theorem wf_empty (nocase : Bool) (cap : Nat) : WF (Dict.empty nocase cap) := by
  refine ⟨?_, ?_, ?_, ?_, ?_, ⟨fun _ => [], ?_, ?_, ?_, ?_, ?_, ?_⟩⟩ <;>
    simp [Dict.empty, Dict.isBase]

/-- WF does not depend on the capacity or the filler bookkeeping -/
theorem wf_congr {d d' : Dict} (h : WF d) (hw : d'.words = d.words) (hh : d'.ht = d.ht)
    (hn : d'.nocase = d.nocase) : WF d' := by
  obtain ⟨h1, h2, h3, h4, h5, L, c1, c2, c3, c4, c5, c6⟩ := h
  have hid : ∀ k, d'.wordid k = d.wordid k := by intro k; simp [Dict.wordid, hh, hn]
  have hib : ∀ i, d'.isBase i = d.isBase i := by intro i; simp [Dict.isBase, hw]
  have hal : d'.altOf = d.altOf := by funext i; simp [Dict.altOf, hw]
  refine ⟨?_, ?_, ?_, ?_, ?_, ⟨L, ?_, ?_, ?_, ?_, ?_, ?_⟩⟩
  · intro i e he; rw [hid]; exact h1 i e (hw ▸ he)
  · intro k i hk; rw [hw, hn]; exact h2 k i (hh ▸ hk)
  · intro i e he; exact h3 i e (hw ▸ he)
  · intro i e he; exact h4 i e (hw ▸ he)
  · intro i e b he hb; rw [hid]; exact h5 i e b (hw ▸ he) hb
  · intro r hr; rw [hal]; exact c1 r (hib r ▸ hr)
  · intro r hr j hj; rw [hib, hw]; exact c2 r (hib r ▸ hr) j hj
  · intro j hj hb; rw [hw] at hj; rw [hib] at hb
    obtain ⟨r, hr, hm⟩ := c3 j hj hb
    exact ⟨r, by rw [hib]; exact hr, hm⟩
  · intro r hr; exact c4 r (hib r ▸ hr)
  · intro r r' j hr hr'; exact c5 r r' j (hib r ▸ hr) (hib r' ▸ hr')
  · intro r hr; rw [hw]; exact c6 r (hib r ▸ hr)

theorem wf_grow {d : Dict} (h : WF d) : WF (grow d) := wf_congr h (by simp) (by simp) (by simp)

/-! ## one successful addition preserves the invariant -/

theorem la_cases (d : Dict) (word : Key) (pron : List Nat) (bw : Option Nat) (ht' : List (Key × Nat))
    {i : Nat} {e' : Entry} (h : (linkAndAppend d word pron bw ht').words[i]? = some e') :
    (∃ e0, d.words[i]? = some e0 ∧
        e' = { e0 with alt := if bw = some i then some d.words.length else e0.alt }) ∨
    (i = d.words.length ∧
        e' = { word, pron, basewid := bw.getD d.words.length, alt := bw.bind d.altOf }) := by
  have hlen := la_length d word pron bw ht'
  have hi : i < d.words.length + 1 := by
    rcases List.getElem?_eq_some_iff.1 h with ⟨hh, _⟩; omega
  by_cases hlt : i < d.words.length
  · left
    have : d.words[i]? = some d.words[i] := by simp [hlt]
    refine ⟨_, this, ?_⟩
    rw [la_get_old d word pron bw ht' this] at h
    exact (Option.some.inj h).symm
  · right
    have hin : i = d.words.length := by omega
    subst hin
    rw [la_get_new] at h
    exact ⟨rfl, (Option.some.inj h).symm⟩

theorem findBase_none {d : Dict} {word : Key} (h : findBase d word = some none) :
    word2basestr word = none := by
  unfold findBase at h
  split at h
  · assumption
  · split at h <;> cases h

theorem findBase_some {d : Dict} {word : Key} {w : Nat} (h : findBase d word = some (some w)) :
    ∃ b, word2basestr word = some b ∧ d.wordid b = some w := by
  unfold findBase at h
  split at h
  · cases h
  · next b hb =>
    split at h
    · cases h
    · next w' hw' => cases h; exact ⟨b, hb, hw'⟩

theorem findBase_fail {d : Dict} {word : Key} (h : findBase d word = none) :
    ∃ b, word2basestr word = some b ∧ d.wordid b = none := by
  unfold findBase at h
  split at h
  · cases h
  · next b hb =>
    split at h
    · next hw' => exact ⟨b, hb, hw'⟩
    · cases h

theorem wordid_congr (d : Dict) {k k' : Key} (h : norm d.nocase k = norm d.nocase k') :
    d.wordid k = d.wordid k' := by simp [Dict.wordid, h]

/-- the dictionary after a successful `dict_add_word` -/
abbrev post (d : Dict) (word : Key) (pron : List Nat) (bw : Option Nat) : Dict :=
  linkAndAppend d word pron bw ((norm d.nocase word, d.words.length) :: d.ht)

theorem post_wordid (d : Dict) (word : Key) (pron : List Nat) (bw : Option Nat) (k : Key) :
    (post d word pron bw).wordid k =
      if norm d.nocase k = norm d.nocase word then some d.words.length else d.wordid k := by
  simp only [Dict.wordid, la_ht, la_nocase, List.lookup_cons]
  by_cases hk : norm d.nocase k = norm d.nocase word
  · simp [hk]
  · have : (norm d.nocase k == norm d.nocase word) = false := by simpa using hk
    simp [hk, this]

section step
variable {d : Dict} {word : Key} {pron : List Nat} {bw : Option Nat}

theorem post_wordid_old (hnew : d.wordid word = none) {k : Key} {i : Nat} (hk : d.wordid k = some i) :
    (post d word pron bw).wordid k = some i := by
  rw [post_wordid]
  split
  · next heq => rw [wordid_congr d heq, hnew] at hk; cases hk
  · exact hk

theorem bw_lt (h : WF d) (hfb : findBase d word = some bw) {w : Nat} (hw : bw = some w) :
    ∃ b, d.words[w]? = some b := by
  subst hw
  obtain ⟨b, _, hb⟩ := findBase_some hfb
  obtain ⟨e, he, _⟩ := h.ht_sound _ _ hb
  exact ⟨e, he⟩

theorem post_core (h : WF d) (hne : word ≠ []) (hnew : d.wordid word = none)
    (hfb : findBase d word = some bw) :
    (∀ (i : Nat) (e : Entry), (post d word pron bw).words[i]? = some e →
        (post d word pron bw).wordid e.word = some i) ∧
    (∀ (k : Key) (i : Nat), (post d word pron bw).ht.lookup k = some i →
        ∃ e : Entry, (post d word pron bw).words[i]? = some e ∧ norm (post d word pron bw).nocase e.word = k) ∧
    (∀ (i : Nat) (e : Entry), (post d word pron bw).words[i]? = some e → e.word ≠ []) ∧
    (∀ (i : Nat) (e : Entry), (post d word pron bw).words[i]? = some e → word2basestr e.word = none →
        e.basewid = i) ∧
    (∀ (i : Nat) (e : Entry) (b : Key), (post d word pron bw).words[i]? = some e →
        word2basestr e.word = some b →
        (post d word pron bw).wordid b = some e.basewid ∧ e.basewid < i) := by
  refine ⟨?_, ?_, ?_, ?_, ?_⟩
  · intro i e he
    rcases la_cases _ _ _ _ _ he with ⟨e0, h0, rfl⟩ | ⟨rfl, rfl⟩
    · exact post_wordid_old hnew (h.ht_complete i e0 h0)
    · simp [post_wordid]
  · intro k i hk
    simp only [la_ht, List.lookup_cons] at hk
    simp only [la_nocase]
    split at hk
    · next heq =>
      cases hk
      refine ⟨_, la_get_new _ _ _ _ _, ?_⟩
      simpa using (beq_iff_eq.1 heq).symm
    · obtain ⟨e0, h0, hn⟩ := h.ht_sound k i hk
      exact ⟨_, la_get_old _ _ _ _ _ h0, hn⟩
  · intro i e he
    rcases la_cases _ _ _ _ _ he with ⟨e0, h0, rfl⟩ | ⟨rfl, rfl⟩
    · exact h.word_ne i e0 h0
    · exact hne
  · intro i e he hb
    rcases la_cases _ _ _ _ _ he with ⟨e0, h0, rfl⟩ | ⟨rfl, rfl⟩
    · exact h.base_self i e0 h0 hb
    · simp only at hb
      cases bw with
      | none => rfl
      | some w =>
        obtain ⟨b, hb', _⟩ := findBase_some hfb
        rw [hb] at hb'; cases hb'
  · intro i e b he hb
    rcases la_cases _ _ _ _ _ he with ⟨e0, h0, rfl⟩ | ⟨rfl, rfl⟩
    · obtain ⟨h1, h2⟩ := h.base_alt i e0 b h0 hb
      exact ⟨post_wordid_old hnew h1, h2⟩
    · simp only at hb
      cases bw with
      | none => rw [findBase_none hfb] at hb; cases hb
      | some w =>
        obtain ⟨b', hb', hw⟩ := findBase_some hfb
        rw [hb] at hb'; cases hb'
        obtain ⟨e, he', _⟩ := h.ht_sound _ _ hw
        have : w < d.words.length := by
          rcases List.getElem?_eq_some_iff.1 he' with ⟨hh, _⟩; exact hh
        exact ⟨post_wordid_old hnew hw, this⟩

end step

/-! ## alternate chains -/

/-- tail of the chain `x :: l` after inserting `n` right behind `w` -/
def ins (w n : Nat) : Nat → List Nat → List Nat
  | x, [] => if x = w then [n] else []
  | x, y :: ys => if x = w then n :: y :: ys else y :: ins w n y ys

theorem mem_ins_sub {w n : Nat} : ∀ {x : Nat} {l : List Nat} {j : Nat}, j ∈ ins w n x l → j = n ∨ j ∈ l
  | x, [], j, h => by
    unfold ins at h; split at h
    · left; simpa using h
    · cases h
  | x, y :: ys, j, h => by
    unfold ins at h; split at h
    · rcases List.mem_cons.1 h with h | h
      · left; exact h
      · right; exact h
    · rcases List.mem_cons.1 h with h | h
      · right; exact List.mem_cons.2 (Or.inl h)
      · rcases mem_ins_sub h with h | h
        · left; exact h
        · right; exact List.mem_cons_of_mem _ h

theorem ins_sub {w n : Nat} : ∀ {x : Nat} {l : List Nat} {j : Nat}, j ∈ l → j ∈ ins w n x l
  | x, [], j, h => by cases h
  | x, y :: ys, j, h => by
    unfold ins; split
    · exact List.mem_cons_of_mem _ h
    · rcases List.mem_cons.1 h with h | h
      · exact List.mem_cons.2 (Or.inl h)
      · exact List.mem_cons_of_mem _ (ins_sub h)

theorem new_mem_ins {w n : Nat} : ∀ {x : Nat} {l : List Nat}, w ∈ x :: l → n ∈ ins w n x l
  | x, [], h => by
    have : x = w := by simp at h; exact h.symm
    unfold ins; simp [this]
  | x, y :: ys, h => by
    unfold ins; split
    · exact List.mem_cons.2 (Or.inl rfl)
    · next hx =>
      have : w ∈ y :: ys := by
        rcases List.mem_cons.1 h with h | h
        · exact absurd h.symm hx
        · exact h
      exact List.mem_cons_of_mem _ (new_mem_ins this)

theorem ins_nodup {w n : Nat} : ∀ {x : Nat} {l : List Nat}, (x :: l).Nodup → n ∉ x :: l → (ins w n x l).Nodup
  | x, [], _, _ => by unfold ins; split <;> simp
  | x, y :: ys, hnd, hn => by
    have hnd' : (y :: ys).Nodup := (List.nodup_cons.1 hnd).2
    have hn' : n ∉ y :: ys := fun h => hn (List.mem_cons_of_mem _ h)
    unfold ins; split
    · exact List.nodup_cons.2 ⟨hn', hnd'⟩
    · refine List.nodup_cons.2 ⟨?_, ins_nodup hnd' hn'⟩
      intro hy
      rcases mem_ins_sub hy with h | h
      · exact hn' (h ▸ List.mem_cons.2 (Or.inl rfl))
      · exact (List.nodup_cons.1 hnd').1 h

theorem ins_length {w n : Nat} : ∀ (x : Nat) (l : List Nat), (ins w n x l).length ≤ l.length + 1
  | x, [] => by unfold ins; split <;> simp
  | x, y :: ys => by
    unfold ins; split
    · simp
    · have := ins_length (w := w) (n := n) y ys
      simp; omega

theorem linked_congr {alt alt' : Nat → Option Nat} : ∀ {x : Nat} {l : List Nat},
    Linked alt x l → (∀ y ∈ x :: l, alt' y = alt y) → Linked alt' x l
  | x, [], h, hc => by
    unfold Linked at *; rw [hc x (List.mem_cons.2 (Or.inl rfl))]; exact h
  | x, a :: l, h, hc => by
    unfold Linked at *
    refine ⟨by rw [hc x (List.mem_cons.2 (Or.inl rfl))]; exact h.1, ?_⟩
    exact linked_congr h.2 (fun y hy => hc y (List.mem_cons_of_mem _ hy))

/-- inserting the new word `n` behind `w`: `alt'[w] = n`, `alt'[n] = alt[w]`, everything else unchanged -/
theorem linked_ins {alt alt' : Nat → Option Nat} {w n : Nat}
    (hw : alt' w = some n) (hn : alt' n = alt w) (ho : ∀ y, y ≠ w → y ≠ n → alt' y = alt y) :
    ∀ {x : Nat} {l : List Nat}, Linked alt x l → (x :: l).Nodup → n ∉ x :: l → w ∈ x :: l →
      Linked alt' x (ins w n x l)
  | x, [], h, _, _, hwm => by
    have hx : x = w := by simp at hwm; exact hwm.symm
    subst hx
    unfold Linked at h
    unfold ins; simp only [if_true]
    unfold Linked; refine ⟨hw, ?_⟩
    unfold Linked; rw [hn]; exact h
  | x, y :: ys, h, hnd, hnm, hwm => by
    unfold Linked at h
    have hnd' : (y :: ys).Nodup := (List.nodup_cons.1 hnd).2
    have hxn : x ≠ n := fun hh => hnm (hh ▸ List.mem_cons.2 (Or.inl rfl))
    unfold ins; split
    · next hx =>
      subst hx
      unfold Linked; refine ⟨hw, ?_⟩
      unfold Linked; refine ⟨by rw [hn]; exact h.1, ?_⟩
      refine linked_congr h.2 (fun z hz => ho z ?_ ?_)
      · intro hzw; subst hzw; exact (List.nodup_cons.1 hnd).1 hz
      · intro hzn; subst hzn; exact hnm (List.mem_cons_of_mem _ hz)
    · next hx =>
      have hwm' : w ∈ y :: ys := by
        rcases List.mem_cons.1 hwm with hh | hh
        · exact absurd hh.symm hx
        · exact hh
      unfold Linked
      refine ⟨by rw [ho x hx hxn]; exact h.1, ?_⟩
      exact linked_ins hw hn ho h.2 hnd' (fun hh => hnm (List.mem_cons_of_mem _ hh)) hwm'

theorem chainFuel_of_linked {alt : Nat → Option Nat} : ∀ {fuel : Nat} {x : Nat} {l : List Nat},
    Linked alt x l → l.length ≤ fuel → chainFuel alt fuel x = l
  | 0, x, [], _, _ => rfl
  | 0, x, a :: l, _, hl => by simp at hl
  | fuel + 1, x, [], h, _ => by unfold Linked at h; simp [chainFuel, h]
  | fuel + 1, x, a :: l, h, hl => by
    unfold Linked at h
    simp only [chainFuel, h.1]
    rw [chainFuel_of_linked h.2 (by simpa using hl)]

section step
variable {d : Dict} {word : Key} {pron : List Nat} {bw : Option Nat}

theorem post_altOf_lt {i : Nat} (hi : i < d.words.length) :
    (post d word pron bw).altOf i = if bw = some i then some d.words.length else d.altOf i := by
  have h0 : d.words[i]? = some d.words[i] := by simp [hi]
  simp only [Dict.altOf, la_get_old d word pron bw _ h0, h0, Option.bind_some]

theorem post_altOf_new :
    (post d word pron bw).altOf d.words.length = bw.bind d.altOf := by
  simp only [Dict.altOf, la_get_new, Option.bind_some]

theorem post_isBase_lt {i : Nat} (hi : i < d.words.length) :
    (post d word pron bw).isBase i = d.isBase i := by
  have h0 : d.words[i]? = some d.words[i] := by simp [hi]
  simp only [Dict.isBase, la_get_old d word pron bw _ h0, h0]

theorem post_isBase_new :
    (post d word pron bw).isBase d.words.length = (word2basestr word).isNone := by
  simp only [Dict.isBase, la_get_new]

theorem post_isBase_cases {r : Nat} (hr : (post d word pron bw).isBase r = true) :
    (r < d.words.length ∧ d.isBase r = true) ∨ (r = d.words.length ∧ word2basestr word = none) := by
  have hlt := isBase_lt hr
  rw [la_length] at hlt
  by_cases h : r < d.words.length
  · left; exact ⟨h, by rw [← post_isBase_lt h]; exact hr⟩
  · right
    have : r = d.words.length := by omega
    subst this
    rw [post_isBase_new] at hr
    exact ⟨rfl, by simpa using hr⟩

theorem chain_mem_lt {L : Nat → List Nat} (c : Chains d L) {r j : Nat} (hr : d.isBase r = true)
    (hj : j ∈ L r) : j < d.words.length := by
  obtain ⟨_, e, he, _⟩ := c.mem r hr j hj
  rcases List.getElem?_eq_some_iff.1 he with ⟨hh, _⟩; exact hh

/-- case "new base word" -/
theorem chains_post_base {L : Nat → List Nat} (c : Chains d L) (hb : word2basestr word = none) :
    Chains (post d word pron none) (fun r => if r = d.words.length then [] else L r) := by
  have hbn : (post d word pron none).isBase d.words.length = true := by
    rw [post_isBase_new, hb]; rfl
  refine ⟨?_, ?_, ?_, ?_, ?_, ?_⟩
  · intro r hr
    rcases post_isBase_cases hr with ⟨hlt, hr0⟩ | ⟨rfl, _⟩
    · have hne : r ≠ d.words.length := by omega
      simp only [hne, if_false]
      refine linked_congr (c.linked r hr0) (fun y hy => ?_)
      have : y < d.words.length := by
        rcases List.mem_cons.1 hy with h | h
        · exact h ▸ hlt
        · exact chain_mem_lt c hr0 h
      rw [post_altOf_lt this]; simp
    · simp only [if_true]
      unfold Linked; rw [post_altOf_new]; rfl
  · intro r hr j hj
    rcases post_isBase_cases hr with ⟨hlt, hr0⟩ | ⟨rfl, _⟩
    · have hne : r ≠ d.words.length := by omega
      simp only [hne, if_false] at hj ⊢
      obtain ⟨h1, e, he, h2⟩ := c.mem r hr0 j hj
      have hjlt := chain_mem_lt c hr0 hj
      exact ⟨by rw [post_isBase_lt hjlt]; exact h1, _, la_get_old _ _ _ _ _ he, h2⟩
    · simp at hj
  · intro j hj hjb
    rw [la_length] at hj
    by_cases hjn : j = d.words.length
    · subst hjn; rw [hbn] at hjb; cases hjb
    · have hjlt : j < d.words.length := by omega
      rw [post_isBase_lt hjlt] at hjb
      obtain ⟨r, hr, hm⟩ := c.cover j hjlt hjb
      have hrlt := isBase_lt hr
      have hne : r ≠ d.words.length := by omega
      exact ⟨r, by rw [post_isBase_lt hrlt]; exact hr, by simp only [hne, if_false]; exact hm⟩
  · intro r hr
    rcases post_isBase_cases hr with ⟨hlt, hr0⟩ | ⟨rfl, _⟩
    · have hne : r ≠ d.words.length := by omega
      simp only [hne, if_false]; exact c.nodup r hr0
    · simp
  · intro r r' j hr hr' hj hj'
    rcases post_isBase_cases hr with ⟨hlt, hr0⟩ | ⟨rfl, _⟩
    · rcases post_isBase_cases hr' with ⟨hlt', hr0'⟩ | ⟨rfl, _⟩
      · have hne : r ≠ d.words.length := by omega
        have hne' : r' ≠ d.words.length := by omega
        simp only [hne, hne', if_false] at hj hj'
        exact c.disj r r' j hr0 hr0' hj hj'
      · simp at hj'
    · simp at hj
  · intro r hr
    rcases post_isBase_cases hr with ⟨hlt, hr0⟩ | ⟨rfl, _⟩
    · have hne : r ≠ d.words.length := by omega
      simp only [hne, if_false, la_length]
      have := c.len r hr0; omega
    · simp

end step

theorem altOf_ge (d : Dict) {y : Nat} (h : d.words.length ≤ y) : d.altOf y = none := by
  simp [Dict.altOf, List.getElem?_eq_none h]

theorem chain_not_base {d : Dict} {L : Nat → List Nat} (c : Chains d L) {r j : Nat}
    (hr : d.isBase r = true) (hj : j ∈ L r) : d.isBase j = false := (c.mem r hr j hj).1

/-- a word lies on (or heads) at most one chain -/
theorem chain_unique {d : Dict} {L : Nat → List Nat} (c : Chains d L) {r r' j : Nat}
    (hr : d.isBase r = true) (hr' : d.isBase r' = true) (hj : j ∈ r :: L r) (hj' : j ∈ r' :: L r') :
    r = r' := by
  rcases List.mem_cons.1 hj with h | h <;> rcases List.mem_cons.1 hj' with h' | h'
  · exact h.symm.trans h'
  · subst h; rw [chain_not_base c hr' h'] at hr; cases hr
  · subst h'; rw [chain_not_base c hr h] at hr'; cases hr'
  · exact c.disj r r' j hr hr' h h'

section step
variable {d : Dict} {word : Key} {pron : List Nat}

/-- case "new alternate of the word `w`" whose chain is headed by `r0` -/
theorem chains_post_alt {L : Nat → List Nat} (c : Chains d L) {w r0 : Nat} {bs : Key}
    (hb : word2basestr word = some bs) (hw : w < d.words.length)
    (hr0 : d.isBase r0 = true) (hwm : w ∈ r0 :: L r0) :
    Chains (post d word pron (some w))
      (fun r => if r = r0 then ins w d.words.length r0 (L r0) else L r) := by
  have hnb : (post d word pron (some w)).isBase d.words.length = false := by
    rw [post_isBase_new, hb]; rfl
  have hr0lt := isBase_lt hr0
  have old : ∀ {r : Nat}, (post d word pron (some w)).isBase r = true → r < d.words.length ∧ d.isBase r = true := by
    intro r hr
    rcases post_isBase_cases hr with h | ⟨_, h⟩
    · exact h
    · rw [hb] at h; cases h
  have hnd0 : (r0 :: L r0).Nodup := by
    refine List.nodup_cons.2 ⟨fun h => ?_, c.nodup r0 hr0⟩
    rw [chain_not_base c hr0 h] at hr0; cases hr0
  have hn0 : d.words.length ∉ r0 :: L r0 := by
    intro h
    rcases List.mem_cons.1 h with h | h
    · omega
    · have := chain_mem_lt c hr0 h; omega
  refine ⟨?_, ?_, ?_, ?_, ?_, ?_⟩
  · intro r hr
    obtain ⟨hlt, hrb⟩ := old hr
    by_cases hrr : r = r0
    · subst hrr
      simp only [if_true]
      refine linked_ins (alt := d.altOf) ?_ ?_ ?_ (c.linked r hrb) hnd0 hn0 hwm
      · rw [post_altOf_lt hw]; simp
      · rw [post_altOf_new]; rfl
      · intro y hyw hyn
        by_cases hy : y < d.words.length
        · rw [post_altOf_lt hy]
          have : ¬ (some w = some y) := by intro h; exact hyw (Option.some.inj h).symm
          simp [this]
        · rw [altOf_ge d (by omega), altOf_ge _ (by rw [la_length]; omega)]
    · simp only [hrr, if_false]
      refine linked_congr (c.linked r hrb) (fun y hy => ?_)
      have hylt : y < d.words.length := by
        rcases List.mem_cons.1 hy with h | h
        · exact h ▸ hlt
        · exact chain_mem_lt c hrb h
      have hyw : ¬ (some w = some y) := by
        intro h
        have : w = y := Option.some.inj h
        subst this
        exact hrr (chain_unique c hrb hr0 hy hwm)
      rw [post_altOf_lt hylt]; simp [hyw]
  · intro r hr j hj
    obtain ⟨hlt, hrb⟩ := old hr
    by_cases hrr : r = r0
    · subst hrr
      simp only [if_true] at hj ⊢
      rcases mem_ins_sub hj with rfl | hj0
      · refine ⟨hnb, _, la_get_new _ _ _ _ _, ?_⟩
        simp only [Option.getD_some]
        rcases List.mem_cons.1 hwm with h | h
        · exact List.mem_cons.2 (Or.inl h)
        · exact List.mem_cons_of_mem _ (ins_sub h)
      · obtain ⟨h1, e, he, h2⟩ := c.mem r hrb j hj0
        have hjlt := chain_mem_lt c hrb hj0
        refine ⟨by rw [post_isBase_lt hjlt]; exact h1, _, la_get_old _ _ _ _ _ he, ?_⟩
        simp only
        rcases List.mem_cons.1 h2 with h | h
        · exact List.mem_cons.2 (Or.inl h)
        · exact List.mem_cons_of_mem _ (ins_sub h)
    · simp only [hrr, if_false] at hj ⊢
      obtain ⟨h1, e, he, h2⟩ := c.mem r hrb j hj
      have hjlt := chain_mem_lt c hrb hj
      exact ⟨by rw [post_isBase_lt hjlt]; exact h1, _, la_get_old _ _ _ _ _ he, h2⟩
  · intro j hj hjb
    rw [la_length] at hj
    by_cases hjn : j = d.words.length
    · subst hjn
      exact ⟨r0, by rw [post_isBase_lt hr0lt]; exact hr0, by simp only [if_true]; exact new_mem_ins hwm⟩
    · have hjlt : j < d.words.length := by omega
      rw [post_isBase_lt hjlt] at hjb
      obtain ⟨r, hr, hm⟩ := c.cover j hjlt hjb
      have hrlt := isBase_lt hr
      refine ⟨r, by rw [post_isBase_lt hrlt]; exact hr, ?_⟩
      by_cases hrr : r = r0
      · subst hrr; simp only [if_true]; exact ins_sub hm
      · simp only [hrr, if_false]; exact hm
  · intro r hr
    obtain ⟨hlt, hrb⟩ := old hr
    by_cases hrr : r = r0
    · subst hrr; simp only [if_true]; exact ins_nodup hnd0 hn0
    · simp only [hrr, if_false]; exact c.nodup r hrb
  · intro r r' j hr hr' hj hj'
    obtain ⟨hlt, hrb⟩ := old hr
    obtain ⟨hlt', hrb'⟩ := old hr'
    by_cases hrr : r = r0 <;> by_cases hrr' : r' = r0
    · exact hrr.trans hrr'.symm
    · subst hrr
      simp only [if_true] at hj
      simp only [hrr', if_false] at hj'
      rcases mem_ins_sub hj with rfl | hj0
      · have := chain_mem_lt c hrb' hj'; omega
      · exact c.disj r r' j hrb hrb' hj0 hj'
    · subst hrr'
      simp only [if_true] at hj'
      simp only [hrr, if_false] at hj
      rcases mem_ins_sub hj' with rfl | hj0
      · have := chain_mem_lt c hrb hj; omega
      · exact c.disj r r' j hrb hrb' hj hj0
    · simp only [hrr, hrr', if_false] at hj hj'
      exact c.disj r r' j hrb hrb' hj hj'
  · intro r hr
    obtain ⟨hlt, hrb⟩ := old hr
    by_cases hrr : r = r0
    · subst hrr
      simp only [if_true, la_length]
      have h1 := ins_length (w := w) (n := d.words.length) r (L r)
      have h2 := c.len r hrb
      omega
    · simp only [hrr, if_false, la_length]
      have := c.len r hrb; omega

/-- **one successful `dict_add_word` preserves the invariant** -/
theorem wf_post {bw : Option Nat} (h : WF d) (hne : word ≠ []) (hnew : d.wordid word = none)
    (hfb : findBase d word = some bw) : WF (post d word pron bw) := by
  obtain ⟨p1, p2, p3, p4, p5⟩ := post_core (pron := pron) h hne hnew hfb
  obtain ⟨L, c⟩ := h.chains
  refine ⟨p1, p2, p3, p4, p5, ?_⟩
  cases bw with
  | none => exact ⟨_, chains_post_base c (findBase_none hfb)⟩
  | some w =>
    obtain ⟨bs, hbs, hwid⟩ := findBase_some hfb
    obtain ⟨e, he, _⟩ := h.ht_sound _ _ hwid
    have hw : w < d.words.length := by
      rcases List.getElem?_eq_some_iff.1 he with ⟨hh, _⟩; exact hh
    by_cases hwb : d.isBase w = true
    · exact ⟨_, chains_post_alt c hbs hw hwb (List.mem_cons.2 (Or.inl rfl))⟩
    · have hwb' : d.isBase w = false := by simpa using hwb
      obtain ⟨r0, hr0, hm⟩ := c.cover w hw hwb'
      exact ⟨_, chains_post_alt c hbs hw hr0 (List.mem_cons_of_mem _ hm)⟩

end step

/-! ## `dict_add_word` as a whole -/

/-- the four outcomes of `dict_add_word` in a well-formed dictionary -/
theorem dictAddWord_spec {d : Dict} (h : WF d) (word : Key) (pron : List Nat) :
    (word = [] ∧ dictAddWord d word pron = (d, none)) ∨
    (word ≠ [] ∧ findBase d word = none ∧ dictAddWord d word pron = (grow d, none)) ∨
    (word ≠ [] ∧ (∃ i, d.wordid word = some i) ∧ dictAddWord d word pron = (grow d, none)) ∨
    (word ≠ [] ∧ d.wordid word = none ∧ ∃ bw, findBase d word = some bw ∧
      dictAddWord d word pron = (post (grow d) word pron bw, some d.words.length)) := by
  by_cases hw : word = []
  · left; exact ⟨hw, by simp [dictAddWord, hw]⟩
  · right
    unfold dictAddWord
    simp only [hw, if_false, findBase_grow, grow_ht, grow_nocase, grow_words]
    cases hfb : findBase d word with
    | none => left; exact ⟨hw, rfl, rfl⟩
    | some bw =>
      right
      cases hl : d.wordid word with
      | some v =>
        left
        have hl' : d.ht.lookup (norm d.nocase word) = some v := hl
        obtain ⟨e, he, _⟩ := h.ht_sound _ _ hl'
        have hv : v < d.words.length := by
          rcases List.getElem?_eq_some_iff.1 he with ⟨hh, _⟩; exact hh
        have : v ≠ d.words.length := by omega
        exact ⟨hw, ⟨v, rfl⟩, by simp [htEnter, hl', this]⟩
      | none =>
        right
        have hl' : d.ht.lookup (norm d.nocase word) = none := hl
        refine ⟨hw, rfl, bw, rfl, ?_⟩
        simp [post, htEnter, hl']

theorem wf_dictAddWord {d : Dict} (h : WF d) (word : Key) (pron : List Nat) :
    WF (dictAddWord d word pron).1 := by
  rcases dictAddWord_spec h word pron with ⟨_, e⟩ | ⟨_, _, e⟩ | ⟨_, _, e⟩ | ⟨hne, hnew, bw, hfb, e⟩
  · rw [e]; exact h
  · rw [e]; exact wf_grow h
  · rw [e]; exact wf_grow h
  · rw [e]
    exact wf_post (wf_grow h) hne (by simpa using hnew) (by simpa using hfb)

theorem wf_decoderAddWord {d : Dict} (h : WF d) (m : Mdef) (word phones : Key) :
    WF (decoderAddWord m d word phones).1 := by
  unfold decoderAddWord
  split
  · exact h
  · split
    · exact h
    · exact wf_dictAddWord h _ _

theorem wf_step {d : Dict} (h : WF d) (m : Mdef) (op : Op) : WF (step m d op).1 := by
  cases op with
  | add w p => exact wf_decoderAddWord h m w p
  | dadd w p => exact wf_dictAddWord h w p
  | lookup w => exact h
  | wid w => exact h

theorem wf_run {d : Dict} (h : WF d) (m : Mdef) (ops : List Op) : WF (run m d ops).1 := by
  induction ops generalizing d with
  | nil => exact h
  | cons op ops ih => exact ih (wf_step h m op)

theorem wf_readLine {d : Dict} (h : WF d) (m : Mdef) (line : Key × Key) : WF (readLine m d line) := by
  unfold readLine
  simp only
  split
  · exact h
  · split
    · exact h
    · exact wf_dictAddWord h _ _

theorem wf_foldl_readLine {d : Dict} (h : WF d) (m : Mdef) (lines : List (Key × Key)) :
    WF (lines.foldl (readLine m) d) := by
  induction lines generalizing d with
  | nil => exact h
  | cons l ls ih => exact ih (wf_readLine h m l)

theorem wf_addIfMissing {d : Dict} (h : WF d) (m : Mdef) (w : Key) : WF (addIfMissing m d w) := by
  unfold addIfMissing; split
  · exact wf_dictAddWord h _ _
  · exact h

theorem wf_dictInit {m : Mdef} {nocase : Bool} {lines flines : List (Key × Key)} {d : Dict}
    (h : dictInit m nocase lines flines = some d) : WF d := by
  unfold dictInit at h
  simp only at h
  split at h
  · cases h
  · split at h
    · cases h
    · split at h
      · cases h
      · split at h
        · cases h
          refine wf_congr (d := addIfMissing m (addIfMissing m (addIfMissing m
            (flines.foldl (readLine m) _) Generated.s3StartWord) Generated.s3FinishWord) Generated.s3SilenceWord)
            ?_ rfl rfl rfl
          refine wf_addIfMissing (wf_addIfMissing (wf_addIfMissing (wf_foldl_readLine ?_ m flines) m _) m _) m _
          exact wf_congr (wf_foldl_readLine (wf_empty nocase _) m lines) rfl rfl rfl
        · cases h

/-! ## what an addition leaves alone -/

theorem dictAddWord_old_entry {d : Dict} (h : WF d) (word : Key) (pron : List Nat) {i : Nat} {e : Entry}
    (he : d.words[i]? = some e) :
    ∃ e', (dictAddWord d word pron).1.words[i]? = some e' ∧ e'.word = e.word ∧ e'.pron = e.pron ∧
      e'.basewid = e.basewid := by
  rcases dictAddWord_spec h word pron with ⟨_, r⟩ | ⟨_, _, r⟩ | ⟨_, _, r⟩ | ⟨_, _, bw, _, r⟩
  · rw [r]; exact ⟨e, he, rfl, rfl, rfl⟩
  · rw [r]; exact ⟨e, by simpa using he, rfl, rfl, rfl⟩
  · rw [r]; exact ⟨e, by simpa using he, rfl, rfl, rfl⟩
  · rw [r]
    exact ⟨_, la_get_old _ _ _ _ _ (by simpa using he), rfl, rfl, rfl⟩

theorem dictAddWord_old_id {d : Dict} (h : WF d) (word : Key) (pron : List Nat) {k : Key} {i : Nat}
    (hk : d.wordid k = some i) : (dictAddWord d word pron).1.wordid k = some i := by
  rcases dictAddWord_spec h word pron with ⟨_, r⟩ | ⟨_, _, r⟩ | ⟨_, _, r⟩ | ⟨_, hnew, bw, _, r⟩
  · rw [r]; exact hk
  · rw [r]; simpa using hk
  · rw [r]; simpa using hk
  · rw [r]
    have := post_wordid_old (d := grow d) (word := word) (pron := pron) (bw := bw) (by simpa using hnew)
      (k := k) (i := i) (by simpa using hk)
    simpa using this

theorem dictAddWord_other_key {d : Dict} (h : WF d) (word : Key) (pron : List Nat) {k : Key}
    (hk : norm d.nocase k ≠ norm d.nocase word) : (dictAddWord d word pron).1.wordid k = d.wordid k := by
  rcases dictAddWord_spec h word pron with ⟨_, r⟩ | ⟨_, _, r⟩ | ⟨_, _, r⟩ | ⟨_, hnew, bw, _, r⟩
  · rw [r]
  · rw [r]; simp
  · rw [r]; simp
  · rw [r, post_wordid]; simp [hk]

theorem dictAddWord_fields (d : Dict) (word : Key) (pron : List Nat) :
    (dictAddWord d word pron).1.nocase = d.nocase ∧
    (dictAddWord d word pron).1.fillerStart = d.fillerStart ∧
    (dictAddWord d word pron).1.fillerEnd = d.fillerEnd ∧
    (dictAddWord d word pron).1.startwid = d.startwid ∧
    (dictAddWord d word pron).1.finishwid = d.finishwid ∧
    (dictAddWord d word pron).1.silwid = d.silwid := by
  unfold dictAddWord
  split
  · simp
  · simp only
    split
    · simp
    · split <;> simp

/-! ## phone strings -/

theorem ciphoneId_name {m : Mdef} {k : Key} {i : Nat} (h : m.ciphoneId k = some i) :
    m.name i = k ∧ i < m.ciphones.length := by
  unfold Mdef.ciphoneId at h
  simp only at h
  split at h
  · next hlt =>
    cases h
    refine ⟨?_, hlt⟩
    unfold Mdef.name
    rw [List.getD_eq_getElem?_getD, List.getElem?_eq_getElem hlt]
    simp [List.getElem_idxOf hlt]
  · cases h

theorem mapIds_names {m : Mdef} : ∀ {toks : List Key} {pron : List Nat},
    mapIds m.ciphoneId toks = some pron →
      pron.map m.name = toks ∧ ∀ i ∈ pron, i < m.ciphones.length
  | [], pron, h => by
    simp only [mapIds] at h; cases h; simp
  | t :: ts, pron, h => by
    simp only [mapIds] at h
    split at h
    · cases h
    · next i hi =>
      cases hr : mapIds m.ciphoneId ts with
      | none => rw [hr] at h; cases h
      | some r =>
        rw [hr] at h
        cases h
        obtain ⟨h1, h2⟩ := mapIds_names hr
        obtain ⟨h3, h4⟩ := ciphoneId_name hi
        refine ⟨by simp [h1, h3], ?_⟩
        intro j hj
        rcases List.mem_cons.1 hj with rfl | hj
        · exact h4
        · exact h2 j hj

theorem mapIds_nil_iff {f : Key → Option Nat} : ∀ {toks : List Key}, mapIds f toks = some [] → toks = []
  | [], _ => rfl
  | t :: ts, h => by
    simp only [mapIds] at h
    split at h
    · cases h
    · cases hr : mapIds f ts with
      | none => rw [hr] at h; cases h
      | some r => rw [hr] at h; cases h

theorem mapIds_none {f : Key → Option Nat} : ∀ {toks : List Key}, mapIds f toks = none → ∃ t ∈ toks, f t = none
  | [], h => by simp [mapIds] at h
  | t :: ts, h => by
    simp only [mapIds] at h
    split at h
    · next ht => exact ⟨t, List.mem_cons.2 (Or.inl rfl), ht⟩
    · cases hr : mapIds f ts with
      | none =>
        obtain ⟨t', h1, h2⟩ := mapIds_none hr
        exact ⟨t', List.mem_cons_of_mem _ h1, h2⟩
      | some r => rw [hr] at h; cases h

/-! ## the capacity is unobservable -/

def Dict.setMax (d : Dict) (m : Nat) : Dict := { d with maxWords := m }

@[simp] theorem setMax_words (d : Dict) (m : Nat) : (d.setMax m).words = d.words := rfl
@[simp] theorem setMax_ht (d : Dict) (m : Nat) : (d.setMax m).ht = d.ht := rfl
@[simp] theorem setMax_nocase (d : Dict) (m : Nat) : (d.setMax m).nocase = d.nocase := rfl
@[simp] theorem setMax_wordid (d : Dict) (m : Nat) (k : Key) : (d.setMax m).wordid k = d.wordid k := rfl
@[simp] theorem setMax_setMax (d : Dict) (m m' : Nat) : (d.setMax m).setMax m' = d.setMax m' := rfl

theorem grow_setMax (d : Dict) (m : Nat) :
    grow (d.setMax m) = (grow d).setMax (grow (d.setMax m)).maxWords := by
  unfold grow
  by_cases h1 : d.words.length ≥ (d.setMax m).maxWords <;> by_cases h2 : d.words.length ≥ d.maxWords <;>
    simp only [setMax_words, h1, h2, if_true, if_false] <;> rfl

theorem findBase_setMax (d : Dict) (m : Nat) (w : Key) : findBase (d.setMax m) w = findBase d w := rfl

theorem la_setMax (d : Dict) (m : Nat) (w : Key) (p : List Nat) (bw : Option Nat) (ht' : List (Key × Nat)) :
    linkAndAppend (d.setMax m) w p bw ht' = (linkAndAppend d w p bw ht').setMax m := by
  unfold linkAndAppend
  simp only [setMax_words]
  split
  · rfl
  · split <;> rfl

theorem dictAddWord_setMax (d : Dict) (m : Nat) (w : Key) (p : List Nat) :
    ∃ m', dictAddWord (d.setMax m) w p = ((dictAddWord d w p).1.setMax m', (dictAddWord d w p).2) := by
  by_cases hw : w = []
  · exact ⟨m, by simp [dictAddWord, hw]⟩
  · obtain ⟨m1, hm1⟩ : ∃ m1, grow (d.setMax m) = (grow d).setMax m1 := ⟨_, grow_setMax d m⟩
    refine ⟨m1, ?_⟩
    unfold dictAddWord
    simp only [hw, if_false]
    rw [hm1]
    show (match findBase (grow d) w with
      | none => ((grow d).setMax m1, none)
      | some bw =>
        if (htEnter (grow d).ht (norm (grow d).nocase w) (grow d).words.length).2 ≠ (grow d).words.length
        then ((grow d).setMax m1, none)
        else (linkAndAppend ((grow d).setMax m1) w p bw
                (htEnter (grow d).ht (norm (grow d).nocase w) (grow d).words.length).1,
              some (grow d).words.length)) = _
    cases findBase (grow d) w with
    | none => rfl
    | some bw =>
      simp only
      split
      · rfl
      · rw [la_setMax]

theorem decoderAddWord_setMax (mdef : Mdef) (d : Dict) (m : Nat) (w ph : Key) :
    ∃ m', decoderAddWord mdef (d.setMax m) w ph =
      ((decoderAddWord mdef d w ph).1.setMax m', (decoderAddWord mdef d w ph).2) := by
  unfold decoderAddWord
  split
  · exact ⟨m, rfl⟩
  · split
    · exact ⟨m, rfl⟩
    · exact dictAddWord_setMax d m w _

theorem step_setMax (mdef : Mdef) (d : Dict) (m : Nat) (op : Op) :
    ∃ m', step mdef (d.setMax m) op = ((step mdef d op).1.setMax m', (step mdef d op).2) := by
  cases op with
  | add w p =>
    obtain ⟨m', h⟩ := decoderAddWord_setMax mdef d m w p
    exact ⟨m', by simp only [step, h]⟩
  | dadd w p =>
    obtain ⟨m', h⟩ := dictAddWord_setMax d m w p
    exact ⟨m', by simp only [step, h]⟩
  | lookup w => exact ⟨m, rfl⟩
  | wid w => exact ⟨m, rfl⟩

theorem run_setMax (mdef : Mdef) (d : Dict) (m : Nat) (ops : List Op) :
    ∃ m', run mdef (d.setMax m) ops = ((run mdef d ops).1.setMax m', (run mdef d ops).2) := by
  induction ops generalizing d m with
  | nil => exact ⟨m, rfl⟩
  | cons op ops ih =>
    obtain ⟨m1, h1⟩ := step_setMax mdef d m op
    obtain ⟨m2, h2⟩ := ih (step mdef d op).1 m1
    refine ⟨m2, ?_⟩
    simp only [run, h1, h2]

/-- there is always room for the entry being written: `n_word < max_words` after the growth step -/
theorem room_dictAddWord {d : Dict} (hcap : d.words.length ≤ d.maxWords) (w : Key) (p : List Nat) :
    d.words.length < (grow d).maxWords ∧
    (dictAddWord d w p).1.words.length ≤ (dictAddWord d w p).1.maxWords := by
  have hroom := grow_room d (by decide) hcap
  refine ⟨hroom, ?_⟩
  unfold dictAddWord
  split
  · exact hcap
  · simp only
    split
    · simp; omega
    · split
      · simp; omega
      · simp; omega

/-! ## histories -/

theorem decoderAddWord_cases (m : Mdef) (d : Dict) (word phones : Key) :
    decoderAddWord m d word phones = (d, none) ∨
    ∃ pron, parsePhones m phones = some pron ∧ pron ≠ [] ∧
      decoderAddWord m d word phones = dictAddWord d word pron := by
  unfold decoderAddWord
  split
  · left; rfl
  · next pron hp =>
    split
    · left; rfl
    · next hne => right; exact ⟨pron, hp, hne, rfl⟩

theorem step_old_entry {d : Dict} (h : WF d) (m : Mdef) (op : Op) {i : Nat} {e : Entry}
    (he : d.words[i]? = some e) :
    ∃ e', (step m d op).1.words[i]? = some e' ∧ e'.word = e.word ∧ e'.pron = e.pron ∧
      e'.basewid = e.basewid := by
  cases op with
  | add w p =>
    simp only [step]
    rcases decoderAddWord_cases m d w p with r | ⟨pron, _, _, r⟩
    · rw [r]; exact ⟨e, he, rfl, rfl, rfl⟩
    · rw [r]; exact dictAddWord_old_entry h w pron he
  | dadd w p => exact dictAddWord_old_entry h w p he
  | lookup w => exact ⟨e, he, rfl, rfl, rfl⟩
  | wid w => exact ⟨e, he, rfl, rfl, rfl⟩

theorem step_old_id {d : Dict} (h : WF d) (m : Mdef) (op : Op) {k : Key} {i : Nat}
    (hk : d.wordid k = some i) : (step m d op).1.wordid k = some i := by
  cases op with
  | add w p =>
    simp only [step]
    rcases decoderAddWord_cases m d w p with r | ⟨pron, _, _, r⟩
    · rw [r]; exact hk
    · rw [r]; exact dictAddWord_old_id h w pron hk
  | dadd w p => exact dictAddWord_old_id h w p hk
  | lookup w => exact hk
  | wid w => exact hk

theorem run_old_entry {d : Dict} (h : WF d) (m : Mdef) (ops : List Op) {i : Nat} {e : Entry}
    (he : d.words[i]? = some e) :
    ∃ e', (run m d ops).1.words[i]? = some e' ∧ e'.word = e.word ∧ e'.pron = e.pron ∧
      e'.basewid = e.basewid := by
  induction ops generalizing d e with
  | nil => exact ⟨e, he, rfl, rfl, rfl⟩
  | cons op ops ih =>
    obtain ⟨e1, h1, a1, a2, a3⟩ := step_old_entry h m op he
    obtain ⟨e2, h2, b1, b2, b3⟩ := ih (wf_step h m op) h1
    exact ⟨e2, h2, b1.trans a1, b2.trans a2, b3.trans a3⟩

theorem run_old_id {d : Dict} (h : WF d) (m : Mdef) (ops : List Op) {k : Key} {i : Nat}
    (hk : d.wordid k = some i) : (run m d ops).1.wordid k = some i := by
  induction ops generalizing d with
  | nil => exact hk
  | cons op ops ih => exact ih (wf_step h m op) (step_old_id h m op hk)

/-! ## alternate chains of a well-formed dictionary -/

theorem altChain_eq {d : Dict} {L : Nat → List Nat} (c : Chains d L) {r : Nat} (hr : d.isBase r = true) :
    d.altChain r = L r := chainFuel_of_linked (c.linked r hr) (c.len r hr)

/-- an alternate, once linked, stays on the chain of its base word -/
theorem dictAddWord_chain_mono {d : Dict} (h : WF d) (word : Key) (pron : List Nat) {r j : Nat}
    (hr : d.isBase r = true) (hj : j ∈ d.altChain r) : j ∈ (dictAddWord d word pron).1.altChain r := by
  have hcong : ∀ d' : Dict, d'.words = d.words → d'.altChain r = d.altChain r := by
    intro d' hw
    have : d'.altOf = d.altOf := by funext i; simp [Dict.altOf, hw]
    simp [Dict.altChain, this, hw]
  rcases dictAddWord_spec h word pron with ⟨_, e⟩ | ⟨_, _, e⟩ | ⟨_, _, e⟩ | ⟨hne, hnew, bw, hfb, e⟩
  · rw [e]; exact hj
  · rw [e, hcong _ (by simp)]; exact hj
  · rw [e, hcong _ (by simp)]; exact hj
  · rw [e]
    have hg := wf_grow h
    obtain ⟨L, c⟩ := hg.chains
    have hrg : (grow d).isBase r = true := by simpa [Dict.isBase] using hr
    have hjg : j ∈ L r := by
      rw [← altChain_eq c hrg, hcong _ (by simp)]; exact hj
    have hrlt := isBase_lt hrg
    have hrp : (post (grow d) word pron bw).isBase r = true := by rw [post_isBase_lt hrlt]; exact hrg
    cases bw with
    | none =>
      have c' := chains_post_base (pron := pron) c (findBase_none (by simpa using hfb))
      rw [altChain_eq c' hrp]
      have : r ≠ (grow d).words.length := by omega
      simp only [this, if_false]; exact hjg
    | some w =>
      obtain ⟨bs, hbs, hwid⟩ := findBase_some (d := grow d) (by simpa using hfb)
      obtain ⟨e0, he0, _⟩ := hg.ht_sound _ _ hwid
      have hw : w < (grow d).words.length := by
        rcases List.getElem?_eq_some_iff.1 he0 with ⟨hh, _⟩; exact hh
      by_cases hwb : (grow d).isBase w = true
      · have c' := chains_post_alt (pron := pron) c hbs hw hwb (List.mem_cons.2 (Or.inl rfl))
        rw [altChain_eq c' hrp]
        by_cases hrw : r = w
        · subst hrw; simp only [if_true]; exact ins_sub hjg
        · simp only [hrw, if_false]; exact hjg
      · have hwb' : (grow d).isBase w = false := by simpa using hwb
        obtain ⟨r0, hr0, hm⟩ := c.cover w hw hwb'
        have c' := chains_post_alt (pron := pron) c hbs hw hr0 (List.mem_cons_of_mem _ hm)
        rw [altChain_eq c' hrp]
        by_cases hrw : r = r0
        · subst hrw; simp only [if_true]; exact ins_sub hjg
        · simp only [hrw, if_false]; exact hjg

/-! ## boundary tables -/

theorem contains_cons_of {α : Type} [BEq α] [LawfulBEq α] {a b : α} {l : List α} (h : l.contains a = true) :
    (b :: l).contains a = true := by
  simp only [List.contains_cons, h, Bool.or_true]

theorem covers_addPron_self (sil : Nat) (t : D2P) (p : List Nat) : (D2P.addPron sil t p).covers p = true := by
  match p with
  | [] => rfl
  | [b] =>
    simp only [D2P.addPron]
    split
    · next h => simpa [D2P.covers] using h
    · simp [D2P.covers]
  | b :: r :: rest =>
    simp only [D2P.addPron, D2P.covers]
    split <;> split <;> simp_all

theorem covers_addPron_mono (sil : Nat) (t : D2P) (q p : List Nat) (h : t.covers p = true) :
    (D2P.addPron sil t q).covers p = true := by
  have key : ∀ t' : D2P, (∀ x, t.ldiph.contains x = true → t'.ldiph.contains x = true) →
      (∀ x, t.rdiph.contains x = true → t'.rdiph.contains x = true) →
      (∀ x, t.single.contains x = true → t'.single.contains x = true) → t'.covers p = true := by
    intro t' h1 h2 h3
    match p, h with
    | [], _ => rfl
    | [b], h => exact h3 b (by simpa [D2P.covers] using h)
    | b :: r :: rest, h =>
      simp only [D2P.covers, Bool.and_eq_true] at h ⊢
      exact ⟨h1 _ h.1, h2 _ h.2⟩
  apply key
  · intro x hx
    match q with
    | [] => exact hx
    | [b] =>
      simp only [D2P.addPron]
      split
      · exact hx
      · exact contains_cons_of hx
    | b :: r :: rest =>
      simp only [D2P.addPron]
      split <;> split <;> first | exact hx | exact contains_cons_of hx
  · intro x hx
    match q with
    | [] => exact hx
    | [b] =>
      simp only [D2P.addPron]
      split <;> exact hx
    | b :: r :: rest =>
      simp only [D2P.addPron]
      split <;> split <;> first | exact hx | exact contains_cons_of hx
  · intro x hx
    match q with
    | [] => exact hx
    | [b] =>
      simp only [D2P.addPron]
      split
      · exact hx
      · exact contains_cons_of hx
    | b :: r :: rest =>
      simp only [D2P.addPron]
      split <;> split <;> exact hx

/-- every word's boundary rows are filled -/
def Cov (t : D2P) (d : Dict) : Prop := ∀ e ∈ d.words, t.covers e.pron = true

theorem cov_build_aux (sil : Nat) : ∀ (ws : List Entry) (t : D2P) (done : List Entry),
    (∀ e ∈ done, t.covers e.pron = true) →
    ∀ e ∈ done ++ ws, (ws.foldl (fun t e => D2P.addPron sil t e.pron) t).covers e.pron = true
  | [], t, done, h => by simpa using h
  | w :: ws, t, done, h => by
    intro e he
    have := cov_build_aux sil ws (D2P.addPron sil t w.pron) (done ++ [w]) (by
      intro e' he'
      rcases List.mem_append.1 he' with h' | h'
      · exact covers_addPron_mono sil t _ _ (h e' h')
      · have : e' = w := by simpa using h'
        subst this; exact covers_addPron_self sil t _)
    exact this e (by simpa using he)

theorem cov_build (sil : Nat) (d : Dict) : Cov (D2P.build sil d) d := by
  intro e he
  exact cov_build_aux sil d.words _ [] (by simp) e (by simpa using he)

theorem mapIds_some_all {f : Key → Option Nat} : ∀ {toks : List Key} {pron : List Nat},
    mapIds f toks = some pron → ∀ t ∈ toks, f t ≠ none
  | [], _, _ => by simp
  | t :: ts, pron, h => by
    simp only [mapIds] at h
    split at h
    · cases h
    · next i hi =>
      cases hr : mapIds f ts with
      | none => rw [hr] at h; cases h
      | some r =>
        intro t' ht'
        rcases List.mem_cons.1 ht' with rfl | ht'
        · rw [hi]; simp
        · exact mapIds_some_all hr t' ht'

theorem findBase_eq_none_iff {d : Dict} {word : Key} :
    findBase d word = none ↔ ∃ b, word2basestr word = some b ∧ d.wordid b = none := by
  constructor
  · exact findBase_fail
  · rintro ⟨b, hb, hw⟩
    simp [findBase, hb, hw]

/-! ## `dict_word2basestr` -/

theorem scanParen_spec (w : Key) : ∀ k : Nat, scanParen w k ≤ k ∧ (0 < scanParen w k → w.getD (scanParen w k) 0 = 40) ∧
    ∀ j, scanParen w k < j → j ≤ k → w.getD j 0 ≠ 40
  | 0 => by
    refine ⟨by simp [scanParen], by simp [scanParen], fun j h1 h2 => ?_⟩
    simp [scanParen] at h1; omega
  | k + 1 => by
    unfold scanParen
    split
    · next h => exact ⟨Nat.le_refl _, fun _ => h, fun j h1 h2 => by omega⟩
    · next h =>
      obtain ⟨h1, h2, h3⟩ := scanParen_spec w k
      refine ⟨by omega, h2, fun j hj hk => ?_⟩
      by_cases hjk : j = k + 1
      · subst hjk; exact h
      · exact h3 j hj (by omega)

/-- shape of the result of `dict_word2basestr` -/
theorem word2basestr_shape {w b : Key} (h : word2basestr w = some b) :
    b ≠ [] ∧ b.length + 2 ≤ w.length ∧ b = w.take b.length ∧ w.getD b.length 0 = 40 ∧
    w.getD (w.length - 1) 0 = 41 ∧ ∀ j, b.length < j → j + 2 ≤ w.length → w.getD j 0 ≠ 40 := by
  unfold word2basestr at h
  split at h
  · cases h
  · next hlen =>
    split at h
    · next hlast =>
      simp only at h
      split at h
      · next hi =>
        cases h
        obtain ⟨h1, h2, h3⟩ := scanParen_spec w (w.length - 2)
        have hlen2 : 2 ≤ w.length := by
          rcases Nat.lt_or_ge w.length 2 with hh | hh
          · have : w.length - 2 = 0 := by omega
            rw [this] at hi; simp [scanParen] at hi
          · exact hh
        have hl : (w.take (scanParen w (w.length - 2))).length = scanParen w (w.length - 2) := by
          rw [List.length_take]; omega
        refine ⟨?_, ?_, ?_, ?_, hlast, ?_⟩
        · intro hn; rw [hn] at hl; simp at hl; omega
        · rw [hl]; omega
        · rw [hl]
        · rw [hl]; exact h2 hi
        · intro j hj hj2; rw [hl] at hj; exact h3 j hj (by omega)
      · cases h
    · cases h
theorem scanParen_eq (w : Key) (n : Nat) (hn : 0 < n) (h40 : w.getD n 0 = 40) :
    ∀ k, n ≤ k → (∀ j, n < j → j ≤ k → w.getD j 0 ≠ 40) → scanParen w k = n
  | 0, hk, _ => by omega
  | k + 1, hk, hno => by
    unfold scanParen
    by_cases hnk : n = k + 1
    · subst hnk; rw [if_pos h40]
    · have : w.getD (k + 1) 0 ≠ 40 := hno (k + 1) (by omega) (Nat.le_refl _)
      simp only [this, if_false]
      exact scanParen_eq w n hn h40 k (by omega) (fun j h1 h2 => hno j h1 (by omega))

theorem word2basestr_of_shape (b s : Key) (hb : b ≠ []) (hs : (40 : UInt8) ∉ s) :
    word2basestr (b ++ 40 :: s ++ [41]) = some b := by
  have hbl : 0 < b.length := List.length_pos_iff.2 hb
  have hlen : (b ++ 40 :: s ++ [41]).length = b.length + s.length + 2 := by simp; omega
  have hget : ∀ j, (b ++ 40 :: s ++ [41]).getD (b.length + j) 0 = (40 :: s ++ [41]).getD j 0 := by
    intro j
    rw [List.getD_eq_getElem?_getD, List.getD_eq_getElem?_getD, List.append_assoc,
      List.getElem?_append_right (by omega)]
    simp
  have h40 : (b ++ 40 :: s ++ [41]).getD b.length 0 = 40 := by
    have := hget 0
    rw [Nat.add_zero] at this
    rw [this]; rfl
  have hlast : (b ++ 40 :: s ++ [41]).getD (b.length + s.length + 1) 0 = 41 := by
    have := hget (s.length + 1)
    rw [show b.length + (s.length + 1) = b.length + s.length + 1 by omega] at this
    rw [this]
    simp [List.getD_eq_getElem?_getD]
  have hmid : ∀ j, b.length < j → j ≤ b.length + s.length → (b ++ 40 :: s ++ [41]).getD j 0 ≠ 40 := by
    intro j h1 h2
    obtain ⟨i, rfl⟩ : ∃ i, j = b.length + (i + 1) := ⟨j - b.length - 1, by omega⟩
    rw [hget]
    have hi : i < s.length := by omega
    simp only [List.cons_append, List.getD_eq_getElem?_getD, List.getElem?_cons_succ]
    rw [List.getElem?_append_left hi, List.getElem?_eq_getElem hi]
    simp only [Option.getD_some]
    intro h; exact hs (h ▸ List.getElem_mem hi)
  unfold word2basestr
  rw [hlen]
  have e1 : b.length + s.length + 2 - 1 = b.length + s.length + 1 := by omega
  have e2 : b.length + s.length + 2 - 2 = b.length + s.length := by omega
  simp only [e1, e2, hlast, if_true]
  rw [scanParen_eq _ b.length hbl h40 _ (by omega) hmid]
  simp [hbl]

theorem word2basestr_decompose {w b : Key} (h : word2basestr w = some b) :
    ∃ s, w = b ++ 40 :: s ++ [41] ∧ b ≠ [] ∧ (40 : UInt8) ∉ s := by
  obtain ⟨hne, hlen, htake, h40, hlast, hmid⟩ := word2basestr_shape h
  have hw : w = b ++ w.drop b.length := by
    conv => lhs; rw [← List.take_append_drop b.length w]
    rw [← htake]
  have hrl : (w.drop b.length).length = w.length - b.length := by simp
  -- the rest starts with '('
  have hget : ∀ j, (w.drop b.length)[j]? = w[b.length + j]? := by intro j; simp
  cases hr : w.drop b.length with
  | nil => rw [hr] at hrl; simp at hrl; omega
  | cons c r' =>
    have hc : c = 40 := by
      have := hget 0
      rw [hr] at this
      simp only [List.getElem?_cons_zero, Nat.add_zero] at this
      rw [List.getD_eq_getElem?_getD, ← this] at h40
      simpa using h40
    subst hc
    have hr'l : r'.length = w.length - b.length - 1 := by
      have : (40 :: r').length = w.length - b.length := by rw [← hr]; exact hrl
      simp at this; omega
    have hr'ne : r' ≠ [] := by
      intro hn; rw [hn] at hr'l; simp at hr'l; omega
    have hr'get : ∀ j, r'[j]? = w[b.length + 1 + j]? := by
      intro j
      have := hget (j + 1)
      rw [hr] at this
      simp only [List.getElem?_cons_succ] at this
      rw [this]; congr 1; omega
    have hl41 : r'.getLast hr'ne = 41 := by
      rw [List.getLast_eq_getElem]
      have hidx : r'.length - 1 < r'.length := by
        have : 0 < r'.length := List.length_pos_iff.2 hr'ne
        omega
      have := hr'get (r'.length - 1)
      rw [List.getElem?_eq_getElem hidx] at this
      have e : b.length + 1 + (r'.length - 1) = w.length - 1 := by omega
      rw [e] at this
      rw [List.getD_eq_getElem?_getD, ← this] at hlast
      simpa using hlast
    refine ⟨r'.dropLast, ?_, hne, ?_⟩
    · have : r' = r'.dropLast ++ [41] := by
        conv => lhs; rw [← List.dropLast_concat_getLast hr'ne]
        rw [hl41]
      rw [hw, hr]
      conv => lhs; rw [this]
      simp
    · intro hm
      obtain ⟨i, hi, hi2⟩ := List.mem_iff_getElem.1 hm
      have hil : i < r'.length - 1 := by simpa using hi
      have hirl : i < r'.length := by omega
      rw [List.getElem_dropLast] at hi2
      have := hr'get i
      rw [List.getElem?_eq_getElem hirl, hi2] at this
      have hno := hmid (b.length + 1 + i) (by omega) (by omega)
      rw [List.getD_eq_getElem?_getD, ← this] at hno
      simp at hno

end SSVerif.Dict
