import SSVerif.Model.TextDict
import SSVerif.Proofs.TextIn
/-! # well-formedness of what the dictionary reader / `decoder_add_word` / alignment-text models accept (C10) -/
namespace SSVerif.TextIn

structure DictInv (nci : Nat) (d : Dict) : Prop where
  pron : ∀ e ∈ d.words, e.pron ≠ [] ∧ ∀ p ∈ e.pron, p < nci
  base : ∀ e ∈ d.words, e.basewid < d.size
  alt : ∀ e ∈ d.words, ∀ a, e.alt = some a → a < d.size
  word : ∀ e ∈ d.words, e.word ≠ []
  nodup : (d.words.map (·.word)).Nodup

theorem DictInv.empty (nci : Nat) : DictInv nci {} :=
  ⟨(by intro e he; cases he), (by intro e he; cases he), (by intro e he; cases he), (by intro e he; cases he), List.nodup_nil⟩

theorem mem_modify {α : Type} (l : List α) (i : Nat) (f : α → α) (x : α) (hx : x ∈ l.modify i f) :
    x ∈ l ∨ ∃ y ∈ l, x = f y := by
  obtain ⟨j, hj, rfl⟩ := List.getElem_of_mem hx
  rw [List.getElem_modify]
  have hj' : j < l.length := by simpa using hj
  split
  · exact .inr ⟨l[j], List.getElem_mem hj', rfl⟩
  · exact .inl (List.getElem_mem hj')

theorem map_modify_eq {α β : Type} (l : List α) (i : Nat) (f : α → α) (g : α → β) (h : ∀ x, g (f x) = g x) :
    (l.modify i f).map g = l.map g := by
  apply List.ext_getElem
  · simp
  · intro j h1 h2
    simp only [List.getElem_map, List.getElem_modify]
    split <;> simp [h]

@[simp] theorem setAlt_length (ws : List DictWord) (i a : Nat) : (setAlt ws i a).length = ws.length := by
  simp [setAlt]

theorem wordId_lt (d : Dict) (w : List UInt8) (i : Nat) (h : d.wordId w = some i) : i < d.size := by
  unfold Dict.wordId at h
  exact (List.findIdx?_eq_some_iff_getElem.mp h).1

theorem wordId_none (d : Dict) (w : List UInt8) (h : (d.wordId w).isSome = false) : ¬ w ∈ d.words.map (·.word) := by
  unfold Dict.wordId at h
  have h' : List.findIdx? (fun x => x.word == w) d.words = none := by
    cases hh : List.findIdx? (fun x => x.word == w) d.words with
    | none => rfl
    | some i => rw [hh] at h; simp at h
  have := List.findIdx?_eq_none_iff.mp h'
  intro hm
  obtain ⟨e, he, rfl⟩ := List.mem_map.mp hm
  have := this e he
  simp at this

/-- `dict_add_word` keeps the invariant; the new word gets the next id -/
theorem dictAdd_inv (nci : Nat) (d d' : Dict) (word : List UInt8) (pron : List Nat) (wid : Nat)
    (hI : DictInv nci d) (hp : pron ≠ []) (hp2 : ∀ p ∈ pron, p < nci)
    (h : dictAdd d word pron = some (d', wid)) :
    DictInv nci d' ∧ wid = d.size ∧ d'.size = d.size + 1 ∧ d'.fillerStart = d.fillerStart ∧
    ∃ e, d'.words[wid]? = some e ∧ e.word = word ∧ e.pron = pron := by
  unfold dictAdd at h
  split at h
  · cases h
  · rename_i hne
    have hword : word ≠ [] := by intro hh; subst hh; simp at hne
    simp only at h
    -- the plain (non-alternate) case as a lemma
    have plain : (if (d.wordId word).isSome = true then none
        else some ({ d with words := d.words ++ [{ word := word, pron := pron, basewid := d.size, alt := none }] }, d.size))
          = some (d', wid) →
        (DictInv nci d' ∧ wid = d.size ∧ d'.size = d.size + 1 ∧ d'.fillerStart = d.fillerStart ∧
          ∃ e, d'.words[wid]? = some e ∧ e.word = word ∧ e.pron = pron) := by
      intro h
      split at h
      · cases h
      · rename_i hdup
        injection h with h
        injection h with h1 h2
        subst h1; subst h2
        have hnot := wordId_none d word (by simpa using hdup)
        refine ⟨⟨?_, ?_, ?_, ?_, ?_⟩, rfl, by simp [Dict.size], rfl, ?_⟩
        · intro e he
          simp only [List.mem_append, List.mem_singleton] at he
          rcases he with he | rfl
          · exact hI.pron e he
          · exact ⟨hp, hp2⟩
        · intro e he
          simp only [List.mem_append, List.mem_singleton] at he
          simp only [Dict.size, List.length_append, List.length_singleton]
          rcases he with he | rfl
          · have := hI.base e he; simp only [Dict.size] at this; omega
          · simp [Dict.size]
        · intro e he a ha
          simp only [List.mem_append, List.mem_singleton] at he
          simp only [Dict.size, List.length_append, List.length_singleton]
          rcases he with he | rfl
          · have := hI.alt e he a ha; simp only [Dict.size] at this; omega
          · cases ha
        · intro e he
          simp only [List.mem_append, List.mem_singleton] at he
          rcases he with he | rfl
          · exact hI.word e he
          · exact hword
        · simp only [List.map_append, List.map_cons, List.map_nil]
          rw [List.nodup_append]
          refine ⟨hI.nodup, by simp, ?_⟩
          intro a ha b hb
          simp at hb; subst hb
          intro hab; subst hab; exact hnot ha
        · exact ⟨{ word := word, pron := pron, basewid := d.size, alt := none }, by simp [Dict.size], rfl, rfl⟩
    split at h
    · rename_i base hbase
      split at h
      · cases h
      · rename_i w hw
        have hwlt := wordId_lt d base w hw
        split at h
        · cases h
        · rename_i hdup
          injection h with h
          injection h with h1 h2
          subst h1; subst h2
          have hnot := wordId_none d word (by simpa using hdup)
          have hold : ∀ a, (match d.words[w]? with | some e => e.alt | none => none) = some a → a < d.size := by
            intro a ha
            split at ha
            · rename_i e he
              exact hI.alt e (List.mem_of_getElem? he) a ha
            · cases ha
          refine ⟨⟨?_, ?_, ?_, ?_, ?_⟩, rfl, by simp [Dict.size, setAlt_length], rfl, ?_⟩
          · intro e he
            simp only [List.mem_append, List.mem_singleton] at he
            rcases he with he | rfl
            · rcases mem_modify _ _ _ _ he with he | ⟨y, hy, rfl⟩
              · exact hI.pron e he
              · exact hI.pron y hy
            · exact ⟨hp, hp2⟩
          · intro e he
            simp only [List.mem_append, List.mem_singleton] at he
            simp only [Dict.size, List.length_append, List.length_singleton, setAlt_length]
            rcases he with he | rfl
            · rcases mem_modify _ _ _ _ he with he | ⟨y, hy, rfl⟩
              · have := hI.base e he; simp only [Dict.size] at this; omega
              · have := hI.base y hy; simp only [Dict.size] at this; simp only; omega
            · simp only [Dict.size] at hwlt; simp only; omega
          · intro e he a ha
            simp only [List.mem_append, List.mem_singleton] at he
            simp only [Dict.size, List.length_append, List.length_singleton, setAlt_length]
            rcases he with he | rfl
            · rcases mem_modify _ _ _ _ he with he | ⟨y, hy, rfl⟩
              · have := hI.alt e he a ha; simp only [Dict.size] at this; omega
              · simp only at ha; injection ha with ha; subst ha; simp [Dict.size]
            · have := hold a ha; simp only [Dict.size] at this; omega
          · intro e he
            simp only [List.mem_append, List.mem_singleton] at he
            rcases he with he | rfl
            · rcases mem_modify _ _ _ _ he with he | ⟨y, hy, rfl⟩
              · exact hI.word e he
              · exact hI.word y hy
            · exact hword
          · simp only [List.map_append, List.map_cons, List.map_nil, setAlt]
            rw [map_modify_eq _ _ _ _ (by intro x; rfl)]
            rw [List.nodup_append]
            refine ⟨hI.nodup, by simp, ?_⟩
            intro a ha b hb
            simp at hb; subst hb
            intro hab; subst hab; exact hnot ha
          · refine ⟨{ word := word, pron := pron, basewid := w, alt := (match d.words[w]? with | some e => e.alt | none => none) }, ?_, rfl, rfl⟩
            rw [List.getElem?_append_right (by simp [Dict.size, setAlt_length])]
            simp [Dict.size, setAlt_length]
            cases d.words[w]? <;> rfl
    · exact plain h

theorem phoneIds_spec (phones : List (List UInt8)) (l : List (List UInt8)) (ids : List Nat)
    (h : phoneIds phones l = some ids) : ids.length = l.length ∧ ∀ p ∈ ids, p < phones.length := by
  induction l generalizing ids with
  | nil => simp [phoneIds] at h; subst h; simp
  | cons p r ih =>
    unfold phoneIds at h
    split at h
    · cases h
    · rename_i i hi
      split at h
      · cases h
      · rename_i is his
        injection h with h; subst h
        obtain ⟨h1, h2⟩ := ih is his
        refine ⟨by simp [h1], ?_⟩
        intro q hq
        simp only [List.mem_cons] at hq
        rcases hq with rfl | hq
        · unfold phoneId List.idxOf? at hi
          exact (List.findIdx?_eq_some_iff_getElem.mp hi).1
        · exact h2 q hq

theorem dictLine_inv (phones : List (List UInt8)) (buf : Buf) (d : Dict) (l : Span buf.size)
    (hI : DictInv phones.length d) :
    DictInv phones.length (dictLine phones buf d l) ∧ d.size ≤ (dictLine phones buf d l).size ∧
    (dictLine phones buf d l).fillerStart = d.fillerStart := by
  unfold dictLine
  split
  · exact ⟨hI, Nat.le_refl _, rfl⟩
  · split
    · exact ⟨hI, Nat.le_refl _, rfl⟩
    · exact ⟨hI, Nat.le_refl _, rfl⟩
    · rename_i w ps hne hlw
      split
      · exact ⟨hI, Nat.le_refl _, rfl⟩
      · rename_i ids hids
        split
        · exact ⟨hI, Nat.le_refl _, rfl⟩
        · rename_i d' wid hadd
          obtain ⟨hl, hlt⟩ := phoneIds_spec _ _ _ hids
          have hnn : ids ≠ [] := by
            intro hh; subst hh
            simp at hl
            exact hne (List.eq_nil_of_length_eq_zero hl.symm)
          obtain ⟨h1, _, h3, h4, _⟩ := dictAdd_inv _ _ _ _ _ _ hI hnn hlt hadd
          exact ⟨h1, by omega, h4⟩

theorem foldl_dictLine_inv (phones : List (List UInt8)) (buf : Buf) (ls : List (Span buf.size)) (d : Dict)
    (hI : DictInv phones.length d) :
    DictInv phones.length (ls.foldl (dictLine phones buf) d) ∧ d.size ≤ (ls.foldl (dictLine phones buf) d).size ∧
    (ls.foldl (dictLine phones buf) d).fillerStart = d.fillerStart := by
  induction ls generalizing d with
  | nil => exact ⟨hI, Nat.le_refl _, rfl⟩
  | cons l r ih =>
    obtain ⟨h1, h2, h3⟩ := dictLine_inv phones buf d l hI
    obtain ⟨i1, i2, i3⟩ := ih (dictLine phones buf d l) h1
    simp only [List.foldl_cons]
    exact ⟨i1, by omega, by rw [i3, h3]⟩

theorem dictReadFile_inv (phones : List (List UInt8)) (buf : Buf) (d : Dict) (hI : DictInv phones.length d) :
    DictInv phones.length (dictReadFile phones buf d) ∧ d.size ≤ (dictReadFile phones buf d).size ∧
    (dictReadFile phones buf d).fillerStart = d.fillerStart :=
  foldl_dictLine_inv phones buf _ d hI

theorem addIfMissing_inv (nci : Nat) (d : Dict) (w : List UInt8) (sil : Nat) (hs : sil < nci) (hI : DictInv nci d) :
    DictInv nci (addIfMissing d w sil) ∧ d.size ≤ (addIfMissing d w sil).size ∧
    (addIfMissing d w sil).fillerStart = d.fillerStart := by
  unfold addIfMissing
  split
  · exact ⟨hI, Nat.le_refl _, rfl⟩
  · split
    · rename_i d' wid hadd
      obtain ⟨h1, _, h3, h4, _⟩ := dictAdd_inv nci _ _ _ _ _ hI (by simp) (by intro p hp; simp at hp; subst hp; exact hs) hadd
      exact ⟨h1, by omega, h4⟩
    · exact ⟨hI, Nat.le_refl _, rfl⟩

/-- what the rest of the models assume of a dictionary: phone ids in range, no empty pronunciation,
base and alternative ids are word ids, no empty or duplicate word, filler range inside the dictionary -/
structure DictWF (nci : Nat) (d : Dict) : Prop extends DictInv nci d where
  filler : d.fillerStart ≤ d.size
  sil : (d.wordId wSil).isSome = true

theorem dictInit_wf (phones : List (List UInt8)) (sil : Nat) (hs : sil < phones.length)
    (main fdict : Option Buf) (d : Dict) (h : dictInit phones sil main fdict = .ok d) :
    DictWF phones.length d := by
  have hI1 : DictInv phones.length (dictMain phones main) := by
    unfold dictMain
    split
    · exact (dictReadFile_inv phones _ _ (DictInv.empty _)).1
    · exact DictInv.empty _
  have hI3 : ∀ d1, DictInv phones.length d1 →
      DictInv phones.length (dictFiller phones fdict d1) ∧ (dictFiller phones fdict d1).fillerStart ≤ (dictFiller phones fdict d1).size := by
    intro d1 h1
    have hI2 : DictInv phones.length { d1 with fillerStart := d1.size } := ⟨h1.pron, h1.base, h1.alt, h1.word, h1.nodup⟩
    unfold dictFiller
    simp only
    split
    · obtain ⟨a, b, c⟩ := dictReadFile_inv phones _ _ hI2
      refine ⟨a, ?_⟩
      rw [c]; exact b
    · exact ⟨hI2, Nat.le_refl _⟩
  unfold dictInit at h
  simp only at h
  split at h
  · cases h
  · split at h
    · cases h
    · split at h
      · cases h
      · obtain ⟨h2, hf2⟩ := hI3 _ hI1
        generalize dictFiller phones fdict (dictMain phones main) = d2 at h h2 hf2
        unfold dictFinish at h
        simp only at h
        obtain ⟨a1, a2, a3⟩ := addIfMissing_inv _ d2 wStart sil hs h2
        obtain ⟨b1, b2, b3⟩ := addIfMissing_inv _ _ wFinish sil hs a1
        obtain ⟨c1, c2, c3⟩ := addIfMissing_inv _ _ wSil sil hs b1
        split at h
        · cases h
        · rename_i hchk
          injection h with h; subst h
          refine ⟨c1, ?_, ?_⟩
          · rw [c3, b3, a3]; omega
          · simp only [Bool.or_eq_true, decide_eq_true_eq, Bool.not_eq_true', not_or, Bool.not_eq_false] at hchk
            have := hchk.2
            unfold silIsFiller at this
            simp only at this
            split at this
            · cases this
            · rename_i sw hsw; simp [hsw]

/-! ## `decoder_add_word` and the alignment text -/

theorem addWord_wf (phones : List (List UInt8)) (d d' : Dict) (word ps : List UInt8) (wid : Nat)
    (hI : DictInv phones.length d) (h : addWord phones d word ps = .ok (d', wid)) :
    DictInv phones.length d' ∧ wid = d.size ∧ d'.size = d.size + 1 ∧
    ∃ e, d'.words[wid]? = some e ∧ e.word = word ∧ e.pron ≠ [] ∧ ∀ p ∈ e.pron, p < phones.length := by
  unfold addWord at h
  split at h
  · cases h
  · cases h
  · rename_i ids hnn hids
    split at h
    · cases h
    · rename_i r hr
      injection h with h; subst h
      obtain ⟨_, hlt⟩ := phoneIds_spec _ _ _ hids
      obtain ⟨h1, h2, h3, _, e, he1, he2, he3⟩ := dictAdd_inv _ _ _ _ _ _ hI hnn hlt hr
      exact ⟨h1, h2, h3, e, he1, he2, by rw [he3]; exact hnn, by rw [he3]; exact hlt⟩

theorem splitOn_go_spec (sep : UInt8 → Bool) (s cur : List UInt8) (acc : List (List UInt8))
    (hc : ∀ b ∈ cur, sep b = false) (ha : ∀ w ∈ acc, w ≠ [] ∧ ∀ b ∈ w, sep b = false) :
    ∀ w ∈ splitOn.go sep cur acc s, w ≠ [] ∧ ∀ b ∈ w, sep b = false := by
  induction s generalizing cur acc with
  | nil =>
    intro w hw
    simp only [splitOn.go, List.mem_reverse] at hw
    split at hw
    · exact ha w hw
    · rename_i hne
      simp only [List.mem_cons] at hw
      rcases hw with rfl | hw
      · refine ⟨by intro hh; apply hne; simpa using hh, ?_⟩
        intro b hb; exact hc b (by simpa using hb)
      · exact ha w hw
  | cons b r ih =>
    intro w hw
    simp only [splitOn.go] at hw
    split at hw
    · refine ih [] _ (by intro b hb; cases hb) ?_ w hw
      intro w' hw'
      split at hw'
      · exact ha w' hw'
      · rename_i hne
        simp only [List.mem_cons] at hw'
        rcases hw' with rfl | hw'
        · refine ⟨by intro hh; apply hne; simpa using hh, ?_⟩
          intro b hb; exact hc b (by simpa using hb)
        · exact ha w' hw'
    · rename_i hsep
      refine ih (b :: cur) acc ?_ ha w hw
      intro x hx
      simp only [List.mem_cons] at hx
      rcases hx with rfl | hx
      · simpa using hsep
      · exact hc x hx

theorem splitOn_spec (sep : UInt8 → Bool) (s : List UInt8) :
    ∀ w ∈ splitOn sep s, w ≠ [] ∧ ∀ b ∈ w, sep b = false :=
  splitOn_go_spec sep s [] [] (by intro b hb; cases hb) (by intro w hw; cases hw)

/-- an accepted alignment text is a sequence of non-empty dictionary words without delimiters -/
theorem alignWords_wf (d : Dict) (text : List UInt8) (ws : List (List UInt8)) (h : alignWords d text = .ok ws) :
    ∀ w ∈ ws, w ≠ [] ∧ (∀ b ∈ w, isAlignDelim b = false) ∧ (d.wordId w).isSome = true := by
  unfold alignWords at h
  simp only at h
  split at h
  · cases h
  · rename_i hfind
    injection h with h; subst h
    intro w hw
    obtain ⟨h1, h2⟩ := splitOn_spec isAlignDelim _ w hw
    refine ⟨h1, h2, ?_⟩
    have := List.find?_eq_none.mp hfind w hw
    cases hh : d.wordId w with
    | none => simp [hh] at this
    | some i => rfl

end SSVerif.TextIn
