import SSVerif.Model.Dbl
import SSVerif.Proofs.Fmt3
/-! # Lemmas about the IEEE model (`Model/Dbl.lean`): the time fields are finite doubles -/
namespace SSVerif.Dbl
open SSVerif.Fmt3

theorem rne_le_div_succ (a d : Nat) : rne a d ≤ a / d + 1 := by
  unfold rne
  dsimp only
  split
  · omega
  · split
    · omega
    · split <;> omega

theorem rne_mul_self (k d : Nat) (hd : 0 < d) : rne (k * d) d = k := by
  unfold rne
  rw [Nat.mul_div_cancel _ hd, Nat.mul_mod_left]
  simp [hd]

theorem two_pow_pos (k : Nat) : 0 < 2 ^ k := Nat.pos_of_ne_zero (by simp)

/-- the mantissa never exceeds `2^53` -/
theorem mantB_le (num den : Nat) : mantB num den ≤ 2 ^ 53 := by
  unfold mantB
  have h1 := rne_le_div_succ (num * 2 ^ 1074) (den * 2 ^ ulpB num den)
  suffices h : num * 2 ^ 1074 / (den * 2 ^ ulpB num den) < 2 ^ 53 by omega
  rw [← Nat.div_div_eq_div_mul, Nat.div_lt_iff_lt_mul (two_pow_pos _)]
  unfold ulpB
  generalize num * 2 ^ 1074 / den = q
  have h2 : q < 2 ^ (q.log2 + 1) := Nat.lt_log2_self
  have h3 : 2 ^ (q.log2 + 1) ≤ 2 ^ (53 + (q.log2 - 52)) := Nat.pow_le_pow_right (by decide) (by omega)
  rw [← Nat.pow_add]
  omega

/-- the ulp exponent is bounded by the magnitude -/
theorem ulpB_le (num den k : Nat) (hd : 0 < den) (h : num * 2 ^ 1074 < 2 ^ (k + 1) * den) : ulpB num den ≤ k - 52 := by
  unfold ulpB
  have hq : num * 2 ^ 1074 / den < 2 ^ (k + 1) := (Nat.div_lt_iff_lt_mul hd).mpr h
  generalize num * 2 ^ 1074 / den = q at hq
  by_cases h0 : q = 0
  · subst h0
    have : Nat.log2 0 = 0 := by decide
    omega
  · have := (Nat.log2_lt h0).mpr hq
    omega

theorem roundPos_le (num den : Nat) : roundPos num den ≤ ulpB num den * 2 ^ 52 + mantB num den := by
  unfold roundPos; exact Nat.min_le_left _ _

/-- a quotient of magnitude at most `2^31` rounds to a pattern at most that of `2^31` -/
theorem roundPos_small (num den : Nat) (hd : 0 < den) (h : num ≤ 2 ^ 31 * den) : roundPos num den ≤ 1054 * 2 ^ 52 := by
  have hN : num * 2 ^ 1074 ≤ 2 ^ 1105 * den := by
    have := Nat.mul_le_mul_right (2 ^ 1074) h
    calc num * 2 ^ 1074 ≤ 2 ^ 31 * den * 2 ^ 1074 := this
      _ = 2 ^ 1105 * den := by
        rw [Nat.mul_right_comm, ← Nat.pow_add]
  have he : ulpB num den ≤ 1053 := by
    have := ulpB_le num den 1105 hd (by
      have : 2 ^ 1105 * den < 2 ^ (1105 + 1) * den := by
        apply Nat.mul_lt_mul_of_pos_right _ hd
        exact Nat.pow_lt_pow_right (by decide) (by decide)
      omega)
    omega
  have hm := mantB_le num den
  have hb := roundPos_le num den
  by_cases h53 : ulpB num den = 1053
  · -- the mantissa is at most 2^52
    have hm2 : mantB num den ≤ 2 ^ 52 := by
      unfold mantB
      rw [h53]
      have hmono := rne_mono_den (d := den * 2 ^ 1053) (Nat.mul_pos hd (two_pow_pos _)) hN
      have : 2 ^ 1105 * den = 2 ^ 52 * (den * 2 ^ 1053) := by
        rw [Nat.mul_comm den, ← Nat.mul_assoc, ← Nat.pow_add]
      rw [this, rne_mul_self _ _ (Nat.mul_pos hd (two_pow_pos _))] at hmono
      exact hmono
    rw [h53] at hb
    omega
  · have : ulpB num den ≤ 1052 := by omega
    have h1 : ulpB num den * 2 ^ 52 ≤ 1052 * 2 ^ 52 := Nat.mul_le_mul_right _ this
    omega


/-! ## bit patterns -/

/-- patterns below infinity are finite, with either sign -/
theorem finite_of_lt (neg : Bool) (b : Nat) (h : b < 2047 * 2 ^ 52) : isFiniteBits (sgn neg + b) = true := by
  unfold isFiniteBits ofBits
  dsimp only
  have : (sgn neg + b) / 2 ^ 52 % 2048 ≠ 2047 := by
    cases neg <;> simp only [sgn, signBit, Bool.false_eq_true, if_false, if_true] <;> omega
  rw [if_neg this]
  split <;> rfl

/-- a pattern at most that of `2^31` decodes to a value at most `2^31` (in units of `2^-1074`: at most `2^1105`) -/
theorem decode_small (neg : Bool) (b : Nat) (hb : b ≤ 1054 * 2 ^ 52) :
    ∃ m e, ofBits (sgn neg + b) = some (neg, m, e) ∧ -1074 ≤ e ∧ m * 2 ^ (e + 1074).toNat ≤ 2 ^ 1105 := by
  have hex : (sgn neg + b) / 2 ^ 52 % 2048 = b / 2 ^ 52 := by
    cases neg <;> simp only [sgn, signBit, Bool.false_eq_true, if_false, if_true] <;> omega
  have hfr : (sgn neg + b) % 2 ^ 52 = b % 2 ^ 52 := by
    cases neg <;> simp only [sgn, signBit, Bool.false_eq_true, if_false, if_true] <;> omega
  have hsg : decide ((sgn neg + b) / 2 ^ 63 % 2 = 1) = neg := by
    cases neg <;> simp only [sgn, signBit, Bool.false_eq_true, if_false, if_true, decide_eq_true_eq, decide_eq_false_iff_not] <;> omega
  have hne : b / 2 ^ 52 ≠ 2047 := by omega
  unfold ofBits
  dsimp only
  rw [hex, hfr, hsg, if_neg hne]
  by_cases h0 : b / 2 ^ 52 = 0
  · rw [if_pos h0]
    refine ⟨_, _, rfl, by omega, ?_⟩
    have h1 : b % 2 ^ 52 ≤ 2 ^ 1105 := by
      have : (2 : Nat) ^ 52 ≤ 2 ^ 1105 := Nat.pow_le_pow_right (by decide) (by decide)
      omega
    simpa using h1
  · rw [if_neg h0]
    refine ⟨_, _, rfl, by omega, ?_⟩
    have het : (((b / 2 ^ 52 : Nat) : Int) - 1075 + 1074).toNat = b / 2 ^ 52 - 1 := by omega
    rw [het]
    by_cases h1 : b / 2 ^ 52 = 1054
    · have hf : b % 2 ^ 52 = 0 := by omega
      rw [hf, h1, Nat.add_zero, ← Nat.pow_add]
      exact Nat.le_refl _
    · have hm : 2 ^ 52 + b % 2 ^ 52 ≤ 2 ^ 53 := by omega
      have hp : 2 ^ (b / 2 ^ 52 - 1) ≤ 2 ^ 1052 := Nat.pow_le_pow_right (by decide) (by omega)
      calc (2 ^ 52 + b % 2 ^ 52) * 2 ^ (b / 2 ^ 52 - 1) ≤ 2 ^ 53 * 2 ^ 1052 := Nat.mul_le_mul hm hp
        _ = 2 ^ 1105 := by rw [← Nat.pow_add]

/-- every finite pattern decodes to `m < 2^53`, `−1074 ≤ e ≤ 971` -/
theorem decode_bounds {a : Nat} {na : Bool} {ma : Nat} {ea : Int} (h : ofBits a = some (na, ma, ea)) :
    -1074 ≤ ea ∧ ea ≤ 971 ∧ ma < 2 ^ 53 := by
  unfold ofBits at h
  dsimp only at h
  split at h
  · cases h
  · split at h
    · simp only [Option.some.injEq, Prod.mk.injEq] at h
      obtain ⟨_, h2, h3⟩ := h
      subst h2; subst h3
      refine ⟨by omega, by omega, by omega⟩
    · simp only [Option.some.injEq, Prod.mk.injEq] at h
      obtain ⟨_, h2, h3⟩ := h
      subst h2; subst h3
      refine ⟨by omega, by omega, by omega⟩


/-! ## addition -/

/-- rounding an integer number of units `2^-1074` -/
theorem roundPos_int (X : Nat) :
    ulpB X (2 ^ 1074) = X.log2 - 52 ∧ mantB X (2 ^ 1074) = rne X (2 ^ (X.log2 - 52)) := by
  have h : X * 2 ^ 1074 / 2 ^ 1074 = X := Nat.mul_div_cancel _ (two_pow_pos _)
  have hu : ulpB X (2 ^ 1074) = X.log2 - 52 := by unfold ulpB; rw [h]
  refine ⟨hu, ?_⟩
  unfold mantB
  rw [hu, Nat.mul_comm (2 ^ 1074) (2 ^ (X.log2 - 52))]
  exact rne_scale X _ _ (two_pow_pos _)

/-- the largest double plus `2^31`, in units of `2^-1074` -/
def sumMax : Nat := (2 ^ 53 - 1) * 2 ^ 2045 + 2 ^ 1105

theorem sumMax_lt : sumMax < 2 ^ 2098 := by decide +kernel
theorem rne_sumMax : rne sumMax (2 ^ 2045) = 2 ^ 53 - 1 := by decide +kernel

/-- a sum of magnitude at most `DBL_MAX + 2^31` does not overflow -/
theorem roundPos_big (X : Nat) (h : X ≤ sumMax) : roundPos X (2 ^ 1074) < 2047 * 2 ^ 52 := by
  obtain ⟨hu, hm⟩ := roundPos_int X
  have hb := roundPos_le X (2 ^ 1074)
  have hm53 := mantB_le X (2 ^ 1074)
  rw [hu] at hb
  have hlog : X.log2 ≤ 2097 := by
    by_cases h0 : X = 0
    · subst h0
      have : Nat.log2 0 = 0 := by decide
      omega
    · have hx : X < 2 ^ 2098 := Nat.lt_of_le_of_lt h sumMax_lt
      have := (Nat.log2_lt h0).mpr hx
      omega
  by_cases he : X.log2 - 52 = 2045
  · rw [hm, he] at hb
    have h1 : rne X (2 ^ 2045) ≤ rne sumMax (2 ^ 2045) := rne_mono_den (two_pow_pos _) h
    rw [rne_sumMax] at h1
    omega
  · have h1 : X.log2 - 52 ≤ 2044 := by omega
    have h2 := Nat.mul_le_mul_right (2 ^ 52) h1
    omega

theorem finite_sgn (neg : Bool) : isFiniteBits (sgn neg) = true := by cases neg <;> decide

/-- **finite + small is finite**: adding a double of magnitude at most `2^31` to any finite double gives a finite double -/
theorem addBits_finite (a b : Nat) (na nb : Bool) (ma mb : Nat) (ea eb : Int)
    (ha : ofBits a = some (na, ma, ea)) (hb : ofBits b = some (nb, mb, eb))
    (hbe : -1074 ≤ eb) (hbv : mb * 2 ^ (eb + 1074).toNat ≤ 2 ^ 1105) : isFiniteBits (addBits a b) = true := by
  obtain ⟨ha1, ha2, ha3⟩ := decode_bounds ha
  unfold addBits
  rw [ha, hb]
  dsimp only
  generalize hA : ma * 2 ^ (ea - min ea eb).toNat = A
  generalize hB : mb * 2 ^ (eb - min ea eb).toNat = B
  generalize hS : ((if na = true then -((A : Nat) : Int) else (A : Int)) + (if nb = true then -((B : Nat) : Int) else (B : Int))) = S
  by_cases h0 : S = 0
  · rw [if_pos h0]; exact finite_sgn _
  · rw [if_neg h0]
    apply finite_of_lt
    apply roundPos_big
    have hs : S.natAbs ≤ A + B := by
      rw [← hS]
      cases na <;> cases nb <;> simp only [Bool.false_eq_true, if_false, if_true] <;> omega
    have hA' : A * 2 ^ (min ea eb + 1074).toNat = ma * 2 ^ (ea + 1074).toNat := by
      rw [← hA, Nat.mul_assoc, ← Nat.pow_add]
      congr 2
      omega
    have hB' : B * 2 ^ (min ea eb + 1074).toNat = mb * 2 ^ (eb + 1074).toNat := by
      rw [← hB, Nat.mul_assoc, ← Nat.pow_add]
      congr 2
      omega
    have hAm : ma * 2 ^ (ea + 1074).toNat ≤ (2 ^ 53 - 1) * 2 ^ 2045 :=
      Nat.mul_le_mul (by omega) (Nat.pow_le_pow_right (by decide) (by omega))
    calc _ ≤ (A + B) * 2 ^ (min ea eb + 1074).toNat := Nat.mul_le_mul_right _ hs
      _ = ma * 2 ^ (ea + 1074).toNat + mb * 2 ^ (eb + 1074).toNat := by rw [Nat.add_mul, hA', hB']
      _ ≤ sumMax := Nat.add_le_add hAm hbv


/-! ## the time fields -/

theorem divInt_small (n fr : Int) (hfr : 1 ≤ fr) (hn : n.natAbs ≤ 2 ^ 31) :
    ∃ neg m e, ofBits (divInt n fr) = some (neg, m, e) ∧ -1074 ≤ e ∧ m * 2 ^ (e + 1074).toNat ≤ 2 ^ 1105 := by
  unfold divInt
  dsimp only
  have h0 : fr ≠ 0 := by omega
  rw [if_neg h0]
  have h1 : 1 ≤ fr.natAbs := by omega
  have hr := roundPos_small n.natAbs fr.natAbs (by omega)
    (Nat.le_trans hn (Nat.le_mul_of_pos_right _ (by omega)))
  obtain ⟨m, e, h1, h2, h3⟩ := decode_small _ _ hr
  exact ⟨_, m, e, h1, h2, h3⟩

/-- `(double)n / frate` is finite for every C `int` `n` and every frame rate `≥ 1` -/
theorem ratioBits_finite (n fr : Int) (hfr : 1 ≤ fr) (hn : n.natAbs ≤ 2 ^ 31) : isFiniteBits (ratioBits n fr) = true := by
  obtain ⟨neg, m, e, h1, _, _⟩ := divInt_small n fr hfr hn
  unfold ratioBits isFiniteBits
  rw [h1]; rfl

/-- `start + (double)f / frate` is finite for every finite `start`, every C `int` `f` and every frame rate `≥ 1` -/
theorem timeBits_finite (start : Nat) (f fr : Int) (hs : isFiniteBits start = true) (hfr : 1 ≤ fr)
    (hf : f.natAbs ≤ 2 ^ 31) : isFiniteBits (timeBits start f fr) = true := by
  obtain ⟨nb, mb, eb, h1, h2, h3⟩ := divInt_small f fr hfr hf
  unfold isFiniteBits at hs
  cases ha : ofBits start with
  | none => rw [ha] at hs; cases hs
  | some x =>
    obtain ⟨na, ma, ea⟩ := x
    exact addBits_finite _ _ _ _ _ _ _ _ ha h1 h2 h3

end SSVerif.Dbl
