import SSVerif.Model.Protocol
/-! helper lemmas for C09: `WF` is an invariant of `step` -/
namespace SSVerif.Protocol

theorem invalidate_valid {p : IterKind → Bool} {l : List Iter} {it : Iter}
    (h : it ∈ invalidate p l) (hv : it.valid = true) : it ∈ l ∧ p it.kind = false := by
  unfold invalidate at h
  obtain ⟨it0, hm, heq⟩ := List.mem_map.mp h
  have heq' : (if p it0.kind = true then ({ it0 with valid := false } : Iter) else it0) = it := heq
  by_cases hp : p it0.kind = true
  · rw [if_pos hp] at heq'; subst heq'; simp at hv
  · rw [if_neg hp] at heq'; subst heq'; exact ⟨hm, by simpa using hp⟩

theorem mem_removeIter {l : List Iter} {id : Nat} {it : Iter} (h : it ∈ removeIter l id) : it ∈ l := by
  unfold removeIter at h
  exact (List.mem_filter.mp h).1

theorem findIter_mem {l : List Iter} {id : Nat} {it : Iter} (h : findIter l id = some it) : it ∈ l := by
  unfold findIter at h
  exact List.mem_of_find?_eq_some h

/-- a state that differs only in `iters`, every valid new iterator being an old valid one -/
theorem WF.of_iters_sub {s : ApiState} (h : WF s) (l : List Iter)
    (hsub : ∀ it ∈ l, it.valid = true → it ∈ s.iters) : WF { s with iters := l } :=
  { dead := h.dead, noSearch := h.noSearch, activeIff := h.activeIff, inUtt := h.inUtt,
    dagFresh := h.dagFresh, alFresh := h.alFresh,
    iters := fun it hm hv => by
      have := h.iters it (hsub it hm hv) hv
      cases hk : it.kind <;> simp only [hk, live] at this ⊢ <;> exact this }

theorem WF.remove {s : ApiState} (h : WF s) (id : Nat) : WF { s with iters := removeIter s.iters id } :=
  h.of_iters_sub _ fun _ hm _ => mem_removeIter hm

theorem WF.cons {s : ApiState} (h : WF s) (it : Iter) (hl : live s it.kind) :
    WF { s with iters := it :: s.iters } :=
  { dead := h.dead, noSearch := h.noSearch, activeIff := h.activeIff, inUtt := h.inUtt,
    dagFresh := h.dagFresh, alFresh := h.alFresh,
    iters := fun it' hm hv => by
      rcases List.mem_cons.mp hm with rfl | hm
      · cases hk : it'.kind <;> simp only [hk, live] at hl ⊢ <;> exact hl
      · have := h.iters it' hm hv
        cases hk : it'.kind <;> simp only [hk, live] at this ⊢ <;> exact this }

/-! ### lattice sub-step -/

theorem latticeStep_wf {s : ApiState} (h : WF s) (e : Bool) : WF (latticeStep s e).1 := by
  unfold latticeStep
  split
  · exact h
  · split
    · exact h
    · rename_i hs hd
      refine { dead := ?_, noSearch := ?_, activeIff := h.activeIff, inUtt := h.inUtt, dagFresh := ?_,
               alFresh := h.alFresh, iters := ?_ }
      · exact h.dead
      · intro hn; exact absurd hn hs
      · intro hf; exact hf
      · intro it hm hv
        obtain ⟨hm', hp⟩ := invalidate_valid hm hv
        have := h.iters it hm' hv
        cases hk : it.kind <;> simp only [hk, live, isDagKind] at this hp ⊢ <;> first | exact this | cases hp

theorem latticeStep_ok {s : ApiState} (e : Bool) (hr : (latticeStep s e).2 = true) :
    (latticeStep s e).1.dag = true := by
  unfold latticeStep at hr ⊢
  by_cases hs : s.search = .none
  · simp [hs] at hr
  · by_cases hd : (s.dag && s.dagFresh) = true
    · simp only [hs, hd, if_true, if_false] at hr ⊢
      simp at hd; exact hd.1
    · simp only [hs, hd, if_false] at hr ⊢
      exact hr

theorem latticeStep_same (s : ApiState) (e : Bool) :
    (latticeStep s e).1.refs = s.refs ∧ (latticeStep s e).1.lats = s.lats ∧ (latticeStep s e).1.alns = s.alns
    ∧ (latticeStep s e).1.search = s.search ∧ (latticeStep s e).1.utt = s.utt := by
  unfold latticeStep
  split
  · simp
  · split <;> simp

/-! ### alignment sub-step -/

theorem alignStep_wf {s : ApiState} (h : WF s) (ru r a : Bool) : WF (alignStep s ru r a).1 := by
  unfold alignStep
  split
  · exact h
  · split
    · exact h
    · rename_i hd hs
      have hs' : s.search = .used := by simpa using hs
      refine { dead := ?_, noSearch := h.noSearch, activeIff := h.activeIff, inUtt := h.inUtt,
               dagFresh := h.dagFresh, alFresh := ?_, iters := ?_ }
      · intro h0
        have := (h.dead h0).1
        rw [hs'] at this; cases this
      · intro hf; exact hf
      · intro it hm hv
        obtain ⟨hm', hp⟩ := invalidate_valid hm hv
        have := h.iters it hm' hv
        cases hk : it.kind <;> simp only [hk, live, isAliD] at this hp ⊢ <;> first | exact this | cases hp

theorem alignStep_ok {s : ApiState} (ru r a : Bool) (hr : (alignStep s ru r a).2 = true) :
    (alignStep s ru r a).1.align = true := by
  unfold alignStep at hr ⊢
  by_cases hd : (s.align && s.alFresh && ru) = true
  · simp only [hd, if_true] at hr ⊢
    simp at hd; exact hd.1.1
  · by_cases hs : s.search = .used
    · simp [hd, hs] at hr ⊢
      simp [hr]
    · simp [hd, hs] at hr

theorem alignStep_same (s : ApiState) (ru r a : Bool) :
    (alignStep s ru r a).1.refs = s.refs ∧ (alignStep s ru r a).1.lats = s.lats ∧ (alignStep s ru r a).1.alns = s.alns
    ∧ (alignStep s ru r a).1.search = s.search ∧ (alignStep s ru r a).1.utt = s.utt := by
  unfold alignStep
  split
  · simp
  · split <;> simp

/-! ### per-call preservation of `WF` -/


theorem iters_of_invalidate {s s' : ApiState} (h : WF s) {p : IterKind → Bool}
    (hit : s'.iters = invalidate p s.iters)
    (hpres : ∀ k, p k = false → live s k → live s' k) :
    ∀ it ∈ s'.iters, it.valid = true → live s' it.kind := by
  intro it hm hv
  rw [hit] at hm
  obtain ⟨hm', hp⟩ := invalidate_valid hm hv
  exact hpres _ hp (h.iters it hm' hv)

/-- a state that differs from a well-formed one only in fields `WF` does not mention -/
theorem WF.congr {s s' : ApiState} (h : WF s)
    (e1 : s'.refs = s.refs) (e2 : s'.utt = s.utt) (e3 : s'.search = s.search) (e4 : s'.cfgJsgf = s.cfgJsgf)
    (e5 : s'.cfgFsg = s.cfgFsg) (e6 : s'.dag = s.dag) (e7 : s'.dagFresh = s.dagFresh) (e8 : s'.align = s.align)
    (e9 : s'.alFresh = s.alFresh) (e10 : s'.json = s.json) (e11 : s'.active = s.active)
    (e12 : s'.iters = s.iters) (e13 : ∀ k, k ∈ s.alns → k ∈ s'.alns) : WF s' :=
  { dead := by rw [e1, e2, e3, e4, e5, e8, e10]; exact h.dead
    noSearch := by rw [e2, e3, e6]; exact h.noSearch
    activeIff := by rw [e2, e11]; exact h.activeIff
    inUtt := by rw [e2, e3]; exact h.inUtt
    dagFresh := by rw [e6, e7]; exact h.dagFresh
    alFresh := by rw [e8, e9]; exact h.alFresh
    iters := by
      rw [e12]; intro it hm hv
      have := h.iters it hm hv
      cases hk : it.kind <;> simp only [hk, live, e3, e6, e8] at this ⊢ <;> first | exact this | exact e13 _ this }

theorem wf_simple (s : ApiState) (h : WF s) (c : Call)
    (hc : c = .freeNull ∨ (∃ k, c = .cfgOther k) ∨ (∃ e, c = .hyp e) ∨ c = .prob ∨ c = .nframes ∨ c = .times
          ∨ c = .getCmn ∨ c = .setCmn ∨ (∃ f, c = .lookup f) ∨ (∃ k, c = .latWalk k)) : WF (step s c).1 := by
  rcases hc with rfl | ⟨k, rfl⟩ | ⟨e, rfl⟩ | rfl | rfl | rfl | rfl | rfl | ⟨f, rfl⟩ | ⟨k, rfl⟩ <;>
    simp only [step] <;> (repeat' split) <;> exact h

theorem wf_removers (s : ApiState) (h : WF s) (c : Call)
    (hc : (∃ i, c = .segFree i) ∨ (∃ i, c = .hypFree i) ∨ (∃ i, c = .aliFree i) ∨ (∃ i l, c = .segNext i l)
          ∨ (∃ i l, c = .hypNext i l) ∨ (∃ i l, c = .aliNext i l) ∨ (∃ i g, c = .aliGoto i g)) :
    WF (step s c).1 := by
  rcases hc with ⟨i, rfl⟩ | ⟨i, rfl⟩ | ⟨i, rfl⟩ | ⟨i, l, rfl⟩ | ⟨i, l, rfl⟩ | ⟨i, l, rfl⟩ | ⟨i, l, rfl⟩ <;>
    simp only [step] <;> (repeat' split) <;> first | exact h | exact h.remove _



theorem wf_start (s : ApiState) (h : WF s) : WF (step s .start).1 := by
  simp only [step]
  split
  · exact h
  · split
    · exact h
    · split
      · exact h
      · rename_i h0 hu hs
        refine { dead := ?_, noSearch := ?_, activeIff := ?_, inUtt := ?_, dagFresh := ?_, alFresh := ?_, iters := ?_ }
        · intro hr; exact absurd hr h0
        · intro hn; cases hn
        · simp
        · intro _; rfl
        · intro hf; cases hf
        · intro hf; cases hf
        · refine iters_of_invalidate h (p := fun k => isResultKind k || isAliD k) rfl ?_
          intro k hp hl
          cases k <;> simp_all [live, isResultKind, isAliD]

theorem wf_free (s : ApiState) (h : WF s) : WF (step s .free).1 := by
  simp only [step]
  split
  · exact h
  · split
    · refine { dead := ?_, noSearch := ?_, activeIff := ?_, inUtt := ?_, dagFresh := ?_, alFresh := ?_, iters := ?_ }
      all_goals try (simp [dropDecoderOwned]; done)
      refine iters_of_invalidate h (p := isDecoderKind) rfl ?_
      intro k hp hl
      cases k <;> simp_all [live, isDecoderKind, dropDecoderOwned]
    · rename_i h0 h1
      exact { dead := fun hr => by simp at hr; omega, noSearch := h.noSearch, activeIff := h.activeIff, inUtt := h.inUtt,
              dagFresh := h.dagFresh, alFresh := h.alFresh, iters := h.iters }

theorem wf_hypSeg (s : ApiState) (h : WF s) (d i : Nat) (e : Bool) : WF (step s (.hypSeg d i e)).1 := by
  simp only [step]
  split
  · rename_i it hf _
    split
    · split
      · rename_i hc he
        refine h.cons _ ?_
        have hm := findIter_mem hf
        obtain ⟨hk1, hv⟩ : isHyp it.kind = true ∧ it.valid = true := by simpa using hc
        have := h.iters it hm hv
        cases hk : it.kind <;> simp_all [live, isHyp]
      · exact h
    · exact h
  · exact h

theorem wf_aliChild (s : ApiState) (h : WF s) (d i : Nat) (e : Bool) : WF (step s (.aliChild d i e)).1 := by
  simp only [step]
  split
  · rename_i it hf _
    split
    · split
      · rename_i hc he
        refine h.cons _ ?_
        have hm := findIter_mem hf
        obtain ⟨hk1, hv⟩ : isAli it.kind = true ∧ it.valid = true := by simpa using hc
        exact h.iters it hm hv
      · exact h
    · exact h
  · exact h

theorem wf_latFree (s : ApiState) (h : WF s) (k : Nat) : WF (step s (.latFree k)).1 := by
  simp only [step]
  split
  · exact h.congr rfl rfl rfl rfl rfl rfl rfl rfl rfl rfl rfl rfl (fun _ hk => hk)
  · exact h

theorem wf_alFree (s : ApiState) (h : WF s) (k : Nat) : WF (step s (.alFree k)).1 := by
  simp only [step]
  split
  · refine { dead := h.dead, noSearch := h.noSearch, activeIff := h.activeIff, inUtt := h.inUtt,
             dagFresh := h.dagFresh, alFresh := h.alFresh, iters := ?_ }
    refine iters_of_invalidate h (p := isAliU k) rfl ?_
    intro j hp hl
    cases j <;> simp_all [live, isAliU]
  · exact h

theorem wf_alIterUser (s : ApiState) (h : WF s) (id k : Nat) (ru r a e : Bool) :
    WF (step s (.alIter id (.user k) ru r a e)).1 := by
  simp only [step]
  split
  · rename_i hc
    split
    · exact h.cons _ hc.1
    · exact h
  · exact h

theorem wf_retain (s : ApiState) (h : WF s) : WF (step s .retain).1 := by
  simp only [step]
  split
  · exact h
  · exact { dead := fun hr => by simp at hr, noSearch := h.noSearch, activeIff := h.activeIff, inUtt := h.inUtt,
            dagFresh := h.dagFresh, alFresh := h.alFresh, iters := h.iters }

theorem wf_cfgGram (s : ApiState) (h : WF s) (j : Bool) (g : Gram) : WF (step s (.cfgGram j g)).1 := by
  simp only [step]
  split
  · exact h
  · rename_i h0
    unfold setCfg
    split <;>
    exact { dead := fun hr => absurd hr h0, noSearch := h.noSearch, activeIff := h.activeIff, inUtt := h.inUtt,
            dagFresh := h.dagFresh, alFresh := h.alFresh, iters := h.iters }

theorem wf_proc (s : ApiState) (h : WF s) (f a : Bool) : WF (step s (.proc f a)).1 := by
  simp only [step]
  (repeat' split) <;> first
    | exact h
    | exact { dead := h.dead, noSearch := h.noSearch, activeIff := h.activeIff, inUtt := h.inUtt,
              dagFresh := fun hf => h.dagFresh (by simp at hf; exact hf.1),
              alFresh := fun hf => h.alFresh (by simp at hf; exact hf.1), iters := h.iters }

theorem wf_endUtt (s : ApiState) (h : WF s) (a : Bool) : WF (step s (.endUtt a)).1 := by
  simp only [step]
  (repeat' split) <;> first
    | exact h
    | (rename_i h0 hs hu
       exact { dead := fun hr => absurd hr h0, noSearch := fun hn => absurd hn hs,
               activeIff := by simp, inUtt := fun hx => (by cases hx),
               dagFresh := fun hf => h.dagFresh (by simp at hf; exact hf.1),
               alFresh := fun hf => h.alFresh (by simp at hf; exact hf.1), iters := h.iters })

theorem wf_seg (s : ApiState) (h : WF s) (i : Nat) (e : Bool) : WF (step s (.seg i e)).1 := by
  simp only [step]
  (repeat' split) <;> first
    | exact h
    | (rename_i hc; exact h.cons _ (by simp at hc; exact hc.1))


theorem wf_lattice (s : ApiState) (h : WF s) (e : Bool) : WF (step s (.lattice e)).1 := by
  simp only [step]
  split
  · exact h
  · exact latticeStep_wf h e

theorem wf_latBest (s : ApiState) (h : WF s) (e b : Bool) : WF (step s (.latBest e b)).1 := by
  simp only [step]
  split
  · exact h
  · exact latticeStep_wf h e

theorem wf_latRetain (s : ApiState) (h : WF s) (k : Nat) (e : Bool) : WF (step s (.latRetain k e)).1 := by
  simp only [step]
  (repeat' split) <;> first
    | exact h
    | exact latticeStep_wf h e
    | exact (latticeStep_wf h e).congr rfl rfl rfl rfl rfl rfl rfl rfl rfl rfl rfl rfl (fun _ hk => hk)

theorem wf_nbest (s : ApiState) (h : WF s) (i : Nat) (e b : Bool) : WF (step s (.nbest i e b)).1 := by
  simp only [step]
  (repeat' split) <;> first
    | exact h
    | exact latticeStep_wf h e
    | (rename_i hc
       refine (latticeStep_wf h e).cons _ ?_
       have : (latticeStep s e).2 = true := by simp at hc; exact hc.1
       exact latticeStep_ok e this)

theorem wf_align (s : ApiState) (h : WF s) (ru r a : Bool) : WF (step s (.align ru r a)).1 := by
  simp only [step]
  split
  · exact h
  · exact alignStep_wf h ru r a

theorem wf_alRetain (s : ApiState) (h : WF s) (k : Nat) (ru r a : Bool) : WF (step s (.alRetain k ru r a)).1 := by
  simp only [step]
  (repeat' split) <;> first
    | exact h
    | exact alignStep_wf h ru r a
    | exact (alignStep_wf h ru r a).congr rfl rfl rfl rfl rfl rfl rfl rfl rfl rfl rfl rfl
        (fun _ hk => List.mem_cons_of_mem _ hk)

theorem wf_alIterDec (s : ApiState) (h : WF s) (i : Nat) (ru r a e : Bool) :
    WF (step s (.alIter i .dec ru r a e)).1 := by
  simp only [step]
  (repeat' split) <;> first
    | exact h
    | exact alignStep_wf h ru r a
    | (rename_i hc
       refine (alignStep_wf h ru r a).cons _ ?_
       have : (alignStep s ru r a).2 = true := by simp at hc; exact hc.1
       exact alignStep_ok ru r a this)

theorem WF.setJson {s : ApiState} (h : WF s) (h0 : s.refs ≠ 0) : WF { s with json := true } :=
  { dead := fun hr => absurd hr h0, noSearch := h.noSearch, activeIff := h.activeIff, inUtt := h.inUtt,
    dagFresh := h.dagFresh, alFresh := h.alFresh, iters := h.iters }

theorem wf_json (s : ApiState) (h : WF s) (l : Nat) (ru r a : Bool) : WF (step s (.json l ru r a)).1 := by
  simp only [step]
  (repeat' split) <;> first
    | exact h
    | exact alignStep_wf h ru r a
    | (rename_i h0 _; exact h.setJson h0)
    | (rename_i h0 _ _
       exact (alignStep_wf h ru r a).setJson (by rw [(alignStep_same s ru r a).1]; exact h0))

theorem wf_addWord (s : ApiState) (h : WF s) (u o : Bool) : WF (step s (.addWord u o)).1 := by
  simp only [step]
  (repeat' split) <;> first
    | exact h
    | (rename_i h0 hnu _ hc
       refine { dead := fun hr => absurd hr h0, noSearch := fun hn => (by cases hn), activeIff := h.activeIff,
                inUtt := fun hx => absurd ⟨hc.1, hx⟩ hnu, dagFresh := h.dagFresh, alFresh := h.alFresh, iters := ?_ }
       refine iters_of_invalidate h (p := isSegS) rfl ?_
       intro k hp hl
       cases k <;> simp_all [live, isSegS])

theorem wf_setGrammar (s : ApiState) (h : WF s) (g : Bool) : WF (step s (.setGrammar g)).1 := by
  simp only [step]
  (repeat' split) <;> first
    | exact h
    | (rename_i h0 hu _
       refine { dead := fun hr => absurd hr h0, noSearch := fun hn => (by cases hn),
                activeIff := ⟨fun hx => (by cases hx), fun hx => absurd hx hu⟩,
                inUtt := fun hx => absurd hx hu, dagFresh := fun hx => (by cases hx), alFresh := h.alFresh, iters := ?_ }
       refine iters_of_invalidate h (p := isResultKind) rfl ?_
       intro k hp hl
       cases k <;> simp_all [live, isResultKind])


theorem wf_drop {s : ApiState} (h : WF s) : WF (dropDecoderOwned s) := by
  refine { dead := ?_, noSearch := ?_, activeIff := ?_, inUtt := ?_, dagFresh := ?_, alFresh := ?_, iters := ?_ }
  · intro hr
    have := h.dead hr
    simp [dropDecoderOwned, this]
  · simp [dropDecoderOwned]
  · simp [dropDecoderOwned]
  · simp [dropDecoderOwned]
  · simp [dropDecoderOwned]
  · simp [dropDecoderOwned]
  · refine iters_of_invalidate h (p := isDecoderKind) rfl ?_
    intro k hp hl
    cases k <;> simp_all [live, isDecoderKind, dropDecoderOwned]

theorem drop_facts (s : ApiState) : (dropDecoderOwned s).search = .none ∧ (dropDecoderOwned s).utt = .idle
    ∧ (dropDecoderOwned s).refs = s.refs := by simp [dropDecoderOwned]

/-- changing the grammar keys of the configuration of a live decoder -/
theorem wf_cfg {s : ApiState} (h : WF s) (h0 : s.refs ≠ 0) (j f : Gram) : WF { s with cfgJsgf := j, cfgFsg := f } :=
  { dead := fun hr => absurd hr h0, noSearch := h.noSearch, activeIff := h.activeIff, inUtt := h.inUtt,
    dagFresh := h.dagFresh, alFresh := h.alFresh, iters := h.iters }

theorem wf_setCfg {s : ApiState} (h : WF s) (h0 : s.refs ≠ 0) (j : Bool) (g : Gram) : WF (setCfg s j g) := by
  unfold setCfg
  split
  · exact wf_cfg h h0 g s.cfgFsg
  · exact wf_cfg h h0 s.cfgJsgf g

theorem setCfg_facts (s : ApiState) (j : Bool) (g : Gram) : (setCfg s j g).search = s.search ∧ (setCfg s j g).utt = s.utt
    ∧ (setCfg s j g).refs = s.refs := by
  unfold setCfg; split <;> simp

theorem wf_loadGrammar {s : ApiState} (h : WF s) (h0 : s.refs ≠ 0) (hs : s.search = .none) (hu : s.utt = .idle) :
    WF (loadGrammar s).1 := by
  unfold loadGrammar
  split
  · exact h
  · refine { dead := fun hr => absurd hr h0, noSearch := fun hn => (by cases hn), activeIff := h.activeIff,
             inUtt := fun hx => (by rw [hu] at hx; cases hx), dagFresh := h.dagFresh, alFresh := h.alFresh, iters := ?_ }
    intro it hm hv
    have := h.iters it hm hv
    cases hk : it.kind <;> simp_all [live]
  · exact h

theorem wf_reinit (s : ApiState) (h : WF s) (c : Option (Bool × Gram)) : WF (step s (.reinit c)).1 := by
  simp only [step]
  split
  · exact h
  · rename_i h0
    split
    · exact h
    · have hd := wf_drop h
      obtain ⟨d1, d2, d3⟩ := drop_facts s
      have hd0 : (dropDecoderOwned s).refs ≠ 0 := by rw [d3]; exact h0
      cases c with
      | none => exact wf_loadGrammar hd hd0 d1 d2
      | some jg =>
        obtain ⟨j, g⟩ := jg
        have h1 := wf_cfg hd hd0 .none .none
        have h2 := wf_setCfg h1 hd0 j g
        obtain ⟨f1, f2, f3⟩ := setCfg_facts { dropDecoderOwned s with cfgJsgf := .none, cfgFsg := .none } j g
        exact wf_loadGrammar h2 (by rw [f3]; exact hd0) (by rw [f1]; exact d1) (by rw [f2]; exact d2)

theorem wf_init (s : ApiState) (h : WF s) (j : Bool) (g : Gram) (f : Bool) : WF (step s (.init j g f)).1 := by
  simp only [step]
  split
  · exact h
  · rename_i h0
    have h0' : s.refs = 0 := by simpa using h0
    split
    · exact h
    · have hs0 : WF ({ iters := s.iters, lats := s.lats, alns := s.alns, refs := 1 } : ApiState) := by
        refine { dead := fun hr => (by cases hr), noSearch := fun _ => ⟨rfl, by simp⟩, activeIff := by simp,
                 inUtt := fun hx => (by cases hx), dagFresh := fun hx => (by cases hx),
                 alFresh := fun hx => (by cases hx), iters := ?_ }
        intro it hm hv
        have hl := h.iters it hm hv
        have hd := h.dead h0'
        have hn := h.noSearch hd.1
        cases hk : it.kind <;> simp_all [live]
      have h1 := wf_setCfg hs0 (by simp) j g
      obtain ⟨f1, f2, f3⟩ := setCfg_facts ({ iters := s.iters, lats := s.lats, alns := s.alns, refs := 1 } : ApiState) j g
      have h2 := wf_loadGrammar h1 (by rw [f3]; simp) (by rw [f1]) (by rw [f2])
      split
      · rename_i s2 heq
        have : (loadGrammar (setCfg { iters := s.iters, lats := s.lats, alns := s.alns, refs := 1 } j g)).1 = s2 := by
          rw [heq]
        rw [← this]; exact h2
      · exact h


/-- **`WF` is an invariant of the automaton**, for every call in every state -/
theorem wf_step (s : ApiState) (c : Call) (h : WF s) : WF (step s c).1 := by
  cases c with
  | init j g f => exact wf_init s h j g f
  | reinit n => exact wf_reinit s h n
  | retain => exact wf_retain s h
  | free => exact wf_free s h
  | freeNull => exact wf_simple s h _ (.inl rfl)
  | cfgGram j g => exact wf_cfgGram s h j g
  | cfgOther k => exact wf_simple s h _ (.inr (.inl ⟨k, rfl⟩))
  | start => exact wf_start s h
  | proc f a => exact wf_proc s h f a
  | endUtt a => exact wf_endUtt s h a
  | hyp e => exact wf_simple s h _ (.inr (.inr (.inl ⟨e, rfl⟩)))
  | prob => exact wf_simple s h _ (.inr (.inr (.inr (.inl rfl))))
  | nframes => exact wf_simple s h _ (.inr (.inr (.inr (.inr (.inl rfl)))))
  | times => exact wf_simple s h _ (.inr (.inr (.inr (.inr (.inr (.inl rfl))))))
  | getCmn => exact wf_simple s h _ (.inr (.inr (.inr (.inr (.inr (.inr (.inl rfl)))))))
  | setCmn => exact wf_simple s h _ (.inr (.inr (.inr (.inr (.inr (.inr (.inr (.inl rfl))))))))
  | lookup f => exact wf_simple s h _ (.inr (.inr (.inr (.inr (.inr (.inr (.inr (.inr (.inl ⟨f, rfl⟩)))))))))
  | latWalk k => exact wf_simple s h _ (.inr (.inr (.inr (.inr (.inr (.inr (.inr (.inr (.inr ⟨k, rfl⟩)))))))))
  | seg i e => exact wf_seg s h i e
  | segNext i l => exact wf_removers s h _ (.inr (.inr (.inr (.inl ⟨i, l, rfl⟩))))
  | segFree i => exact wf_removers s h _ (.inl ⟨i, rfl⟩)
  | nbest i e b => exact wf_nbest s h i e b
  | hypNext i l => exact wf_removers s h _ (.inr (.inr (.inr (.inr (.inl ⟨i, l, rfl⟩)))))
  | hypFree i => exact wf_removers s h _ (.inr (.inl ⟨i, rfl⟩))
  | hypSeg d i e => exact wf_hypSeg s h d i e
  | lattice e => exact wf_lattice s h e
  | latBest e b => exact wf_latBest s h e b
  | latRetain k e => exact wf_latRetain s h k e
  | latFree k => exact wf_latFree s h k
  | align ru r a => exact wf_align s h ru r a
  | alRetain k ru r a => exact wf_alRetain s h k ru r a
  | alFree k => exact wf_alFree s h k
  | alIter i src ru r a e =>
    cases src with
    | dec => exact wf_alIterDec s h i ru r a e
    | user k => exact wf_alIterUser s h i k ru r a e
  | aliNext i l => exact wf_removers s h _ (.inr (.inr (.inr (.inr (.inr (.inl ⟨i, l, rfl⟩))))))
  | aliChild d i e => exact wf_aliChild s h d i e
  | aliGoto i g => exact wf_removers s h _ (.inr (.inr (.inr (.inr (.inr (.inr ⟨i, g, rfl⟩))))))
  | aliFree i => exact wf_removers s h _ (.inr (.inr (.inl ⟨i, rfl⟩)))
  | json l ru r a => exact wf_json s h l ru r a
  | addWord u o => exact wf_addWord s h u o
  | setGrammar g => exact wf_setGrammar s h g

theorem wf_init0 : WF init0 := by
  refine { dead := fun _ => ⟨rfl, rfl, rfl, rfl, rfl, rfl⟩, noSearch := fun _ => ⟨rfl, by simp [init0]⟩,
           activeIff := by simp [init0], inUtt := fun hx => (by cases hx), dagFresh := fun hx => (by cases hx),
           alFresh := fun hx => (by cases hx), iters := fun it hm => (by cases hm) }

theorem wf_run (s : ApiState) (h : WF s) (cs : List Call) : WF (run s cs) := by
  induction cs generalizing s with
  | nil => exact h
  | cons c cs ih => exact ih _ (wf_step s c h)

end SSVerif.Protocol
