import SSVerif.Model.Protocol
import SSVerif.Proofs.AlignVec
/-! helper lemmas for C09: `WF` is an invariant of `step` -/
namespace SSVerif.Protocol

theorem invalidate_valid {p : IterKind → Bool} {l : List Iter} {it : Iter}
    (h : it ∈ invalidate p l) (hv : it.valid = true) : it ∈ l ∧ p it.kind = false := by
  unfold invalidate at h
  obtain ⟨it0, hm, heq⟩ := List.mem_map.mp h
  have heq' : (if p it0.kind = true then ({ it0 with valid := false } : Iter) else it0) = it := heq
  by_cases hp : p it0.kind = true
  · rw [if_pos hp] at heq'; subst heq'; simp at hv
  · rw [if_neg hp] at heq'; subst heq'; exact ⟨hm, by simpa using hp⟩

theorem mem_removeIter {l : List Iter} {id : Nat} {it : Iter} (h : it ∈ removeIter l id) : it ∈ l := by
  unfold removeIter at h
  exact (List.mem_filter.mp h).1

theorem findIter_mem {l : List Iter} {id : Nat} {it : Iter} (h : findIter l id = some it) : it ∈ l := by
  unfold findIter at h
  exact List.mem_of_find?_eq_some h

/-- liveness of an iterator kind depends on these fields only -/
theorem live_congr {s s' : ApiState} (k : IterKind) (e3 : s'.search = s.search) (e6 : s'.dag = s.dag)
    (e8 : s'.align = s.align) (e14 : s'.dagId = s.dagId) (e13 : ∀ j, j ∈ s.alns → j ∈ s'.alns)
    (e15 : ∀ o, holds s.lats o = true → holds s'.lats o = true) (hl : live s k) : live s' k := by
  cases k <;> simp only [live, e3, e6, e8, e14] at hl ⊢
  · exact hl
  · exact hl
  · exact hl
  · exact hl
  · exact e13 _ hl
  · rcases hl with h1 | h1
    · exact .inl h1
    · exact .inr (e15 _ h1)
  · rcases hl with h1 | h1
    · exact .inl h1
    · exact .inr (e15 _ h1)

/-- a state that differs only in `iters`, every valid new iterator being an old valid one -/
theorem WF.of_iters_sub {s : ApiState} (h : WF s) (l : List Iter)
    (hsub : ∀ it ∈ l, it.valid = true → it ∈ s.iters) : WF { s with iters := l } :=
  { dead := h.dead, noSearch := h.noSearch, activeIff := h.activeIff, inUtt := h.inUtt,
    dagFresh := h.dagFresh, alFresh := h.alFresh,
    iters := fun it hm hv =>
      live_congr it.kind rfl rfl rfl rfl (fun _ x => x) (fun _ x => x) (h.iters it (hsub it hm hv) hv) }

theorem WF.remove {s : ApiState} (h : WF s) (id : Nat) : WF { s with iters := removeIter s.iters id } :=
  h.of_iters_sub _ fun _ hm _ => mem_removeIter hm

theorem WF.cons {s : ApiState} (h : WF s) (it : Iter) (hl : live s it.kind) :
    WF { s with iters := it :: s.iters } :=
  { dead := h.dead, noSearch := h.noSearch, activeIff := h.activeIff, inUtt := h.inUtt,
    dagFresh := h.dagFresh, alFresh := h.alFresh,
    iters := fun it' hm hv => by
      rcases List.mem_cons.mp hm with rfl | hm
      · exact live_congr it'.kind rfl rfl rfl rfl (fun _ x => x) (fun _ x => x) hl
      · exact live_congr it'.kind rfl rfl rfl rfl (fun _ x => x) (fun _ x => x) (h.iters it' hm hv) }

theorem iters_of_invalidate {s s' : ApiState} (h : WF s) {p : IterKind → Bool}
    (hit : s'.iters = invalidate p s.iters)
    (hpres : ∀ k, p k = false → live s k → live s' k) :
    ∀ it ∈ s'.iters, it.valid = true → live s' it.kind := by
  intro it hm hv
  rw [hit] at hm
  obtain ⟨hm', hp⟩ := invalidate_valid hm hv
  exact hpres _ hp (h.iters it hm' hv)

/-- a state that differs from a well-formed one only in fields `WF` does not mention -/
theorem WF.congr {s s' : ApiState} (h : WF s)
    (e1 : s'.refs = s.refs) (e2 : s'.utt = s.utt) (e3 : s'.search = s.search) (e4 : s'.mllr = s.mllr)
    (e5 : s'.logfh = s.logfh) (e6 : s'.dag = s.dag) (e7 : s'.dagFresh = s.dagFresh) (e8 : s'.align = s.align)
    (e9 : s'.alFresh = s.alFresh) (e10 : s'.json = s.json) (e11 : s'.active = s.active)
    (e12 : s'.iters = s.iters) (e13 : ∀ k, k ∈ s.alns → k ∈ s'.alns) (e14 : s'.dagId = s.dagId)
    (e15 : ∀ o, holds s.lats o = true → holds s'.lats o = true) : WF s' :=
  { dead := by rw [e1, e2, e3, e4, e5, e8, e10]; exact h.dead
    noSearch := by rw [e2, e3, e6]; exact h.noSearch
    activeIff := by rw [e2, e11]; exact h.activeIff
    inUtt := by rw [e2, e3]; exact h.inUtt
    dagFresh := by rw [e6, e7]; exact h.dagFresh
    alFresh := by rw [e8, e9]; exact h.alFresh
    iters := by
      rw [e12]; intro it hm hv
      exact live_congr it.kind e3 e6 e8 e14 e13 e15 (h.iters it hm hv) }

/-! ### lattice sub-step -/

theorem latticeStep_wf {s : ApiState} (h : WF s) (e : Bool) : WF (latticeStep s e).1 := by
  unfold latticeStep
  split
  · exact h
  · split
    · exact h
    · rename_i hs hd
      refine { dead := ?_, noSearch := ?_, activeIff := h.activeIff, inUtt := h.inUtt, dagFresh := ?_,
               alFresh := h.alFresh, iters := ?_ }
      · exact h.dead
      · intro hn; exact absurd hn hs
      · intro hf; exact hf
      · refine iters_of_invalidate h (p := dagDrop s.dagId s.lats) rfl ?_
        intro k hp hl
        cases k <;> simp_all [live, dagDrop]
        all_goals
          rcases hl with ⟨_, h2⟩ | h2
          · subst h2; first | exact hp rfl | exact .inr (hp rfl)
          · first | exact h2 | exact .inr h2

theorem latticeStep_ok {s : ApiState} (e : Bool) (hr : (latticeStep s e).2 = true) :
    (latticeStep s e).1.dag = true := by
  unfold latticeStep at hr ⊢
  by_cases hs : s.search = .none
  · simp [hs] at hr
  · by_cases hd : (s.dag && s.dagFresh) = true
    · simp only [hs, hd, if_true, if_false] at hr ⊢
      simp at hd; exact hd.1
    · simp only [hs, hd, if_false] at hr ⊢
      exact hr

theorem latticeStep_same (s : ApiState) (e : Bool) :
    (latticeStep s e).1.refs = s.refs ∧ (latticeStep s e).1.lats = s.lats ∧ (latticeStep s e).1.alns = s.alns
    ∧ (latticeStep s e).1.search = s.search ∧ (latticeStep s e).1.utt = s.utt := by
  unfold latticeStep
  split
  · simp
  · split <;> simp

/-- the lattice a `lattice_*` call works on -/
theorem latOf_wf {s : ApiState} (h : WF s) (src : LatSrc) (e : Bool) : WF (latOf s src e).1 := by
  cases src with
  | dec => exact latticeStep_wf h e
  | user k => exact h

theorem holds_of_latObj {lats : List (Nat × Nat)} {k o : Nat} (h : latObj lats k = some o) : holds lats o = true := by
  simp only [latObj, Option.map_eq_some_iff] at h
  obtain ⟨p, hp, hpo⟩ := h
  simp only [holds, List.any_eq_true]
  exact ⟨p, List.mem_of_find?_eq_some hp, by simp [hpo]⟩

/-- the object a `lattice_*` call got is alive in the state after the call -/
theorem latOf_live {s : ApiState} (src : LatSrc) (e : Bool) {o : Nat} (ho : (latOf s src e).2 = some o) :
    live (latOf s src e).1 (.latN o) := by
  cases src with
  | dec =>
    simp only [latOf] at ho ⊢
    by_cases hr : (latticeStep s e).2 = true
    · simp only [hr, if_true, Option.some.injEq] at ho
      exact .inl ⟨latticeStep_ok e hr, ho⟩
    · simp [hr] at ho
  | user k =>
    simp only [latOf] at ho ⊢
    exact .inr (holds_of_latObj ho)

/-! ### alignment sub-step -/

theorem alignStep_wf {s : ApiState} (h : WF s) (ru r a : Bool) : WF (alignStep s ru r a).1 := by
  unfold alignStep
  split
  · exact h
  · split
    · exact h
    · rename_i hd hs
      have hs' : s.search = .used := by simpa using hs
      refine { dead := ?_, noSearch := h.noSearch, activeIff := h.activeIff, inUtt := h.inUtt,
               dagFresh := h.dagFresh, alFresh := ?_, iters := ?_ }
      · intro h0
        have := (h.dead h0).1
        rw [hs'] at this; cases this
      · intro hf; exact hf
      · refine iters_of_invalidate h (p := isAliD) rfl ?_
        intro k hp hl
        cases k <;> simp_all [live, isAliD]

theorem alignStep_ok {s : ApiState} (ru r a : Bool) (hr : (alignStep s ru r a).2 = true) :
    (alignStep s ru r a).1.align = true := by
  unfold alignStep at hr ⊢
  by_cases hd : (s.align && s.alFresh && ru) = true
  · simp only [hd, if_true] at hr ⊢
    simp at hd; exact hd.1.1
  · by_cases hs : s.search = .used
    · simp [hd, hs] at hr ⊢
      simp [hr]
    · simp [hd, hs] at hr

theorem alignStep_same (s : ApiState) (ru r a : Bool) :
    (alignStep s ru r a).1.refs = s.refs ∧ (alignStep s ru r a).1.lats = s.lats ∧ (alignStep s ru r a).1.alns = s.alns
    ∧ (alignStep s ru r a).1.search = s.search ∧ (alignStep s ru r a).1.utt = s.utt := by
  unfold alignStep
  split
  · simp
  · split <;> simp

/-! ### per-call preservation of `WF` -/

theorem wf_simple (s : ApiState) (h : WF s) (c : Call)
    (hc : c = .freeNull ∨ c = .touch ∨ (∃ e, c = .hyp e) ∨ c = .prob ∨ c = .nframes ∨ c = .times
          ∨ c = .getCmn ∨ c = .setCmn ∨ (∃ f, c = .lookup f) ∨ (∃ k, c = .latWalk k) ∨ c = .reinitFeat) :
    WF (step s c).1 := by
  rcases hc with rfl | rfl | ⟨e, rfl⟩ | rfl | rfl | rfl | rfl | rfl | ⟨f, rfl⟩ | ⟨k, rfl⟩ | rfl <;>
    simp only [step] <;> (repeat' split) <;> exact h

theorem wf_removers (s : ApiState) (h : WF s) (c : Call)
    (hc : (∃ i, c = .segFree i) ∨ (∃ i, c = .hypFree i) ∨ (∃ i, c = .aliFree i) ∨ (∃ i l, c = .segNext i l)
          ∨ (∃ i l, c = .hypNext i l) ∨ (∃ i l, c = .aliNext i l) ∨ (∃ i g, c = .aliGoto i g)
          ∨ (∃ i, c = .lnodeFree i) ∨ (∃ i, c = .llinkFree i) ∨ (∃ i l, c = .lnodeNext i l)
          ∨ (∃ i l, c = .llinkNext i l)) :
    WF (step s c).1 := by
  rcases hc with ⟨i, rfl⟩ | ⟨i, rfl⟩ | ⟨i, rfl⟩ | ⟨i, l, rfl⟩ | ⟨i, l, rfl⟩ | ⟨i, l, rfl⟩ | ⟨i, l, rfl⟩
      | ⟨i, rfl⟩ | ⟨i, rfl⟩ | ⟨i, l, rfl⟩ | ⟨i, l, rfl⟩ <;>
    simp only [step] <;> (repeat' split) <;> first | exact h | exact h.remove _

theorem wf_start (s : ApiState) (h : WF s) : WF (step s .start).1 := by
  simp only [step]
  split
  · exact h
  · split
    · exact h
    · split
      · exact h
      · rename_i h0 hu hs
        refine { dead := ?_, noSearch := ?_, activeIff := ?_, inUtt := ?_, dagFresh := ?_, alFresh := ?_, iters := ?_ }
        · intro hr; exact absurd hr h0
        · intro hn; cases hn
        · simp
        · intro _; rfl
        · intro hf; cases hf
        · intro hf; cases hf
        · refine iters_of_invalidate h (p := fun k => resultDrop s.dagId s.lats k || isAliD k) rfl ?_
          intro k hp hl
          cases k <;> simp_all [live, resultDrop, dagDrop, isSegS, isAliD]
          all_goals
            rcases hl with ⟨_, h2⟩ | h2
            · subst h2; first | exact hp rfl | exact .inr (hp rfl)
            · first | exact h2 | exact .inr h2

theorem wf_free (s : ApiState) (h : WF s) : WF (step s .free).1 := by
  simp only [step]
  split
  · exact h
  · split
    · refine { dead := ?_, noSearch := ?_, activeIff := ?_, inUtt := ?_, dagFresh := ?_, alFresh := ?_, iters := ?_ }
      all_goals try (simp [dropDecoderOwned]; done)
      refine iters_of_invalidate h (p := decoderDrop s.dagId s.lats) rfl ?_
      intro k hp hl
      cases k <;> simp_all [live, decoderDrop, dagDrop, dropDecoderOwned]
      all_goals
        rcases hl with ⟨_, h2⟩ | h2
        · subst h2; first | exact hp rfl | exact .inr (hp rfl)
        · first | exact h2 | exact .inr h2
    · rename_i h0 h1
      exact { dead := fun hr => by simp at hr; omega, noSearch := h.noSearch, activeIff := h.activeIff, inUtt := h.inUtt,
              dagFresh := h.dagFresh, alFresh := h.alFresh, iters := h.iters }

theorem wf_hypSeg (s : ApiState) (h : WF s) (d i : Nat) (e : Bool) : WF (step s (.hypSeg d i e)).1 := by
  simp only [step]
  split
  · rename_i it hf _
    split
    · split
      · rename_i hc he
        refine h.cons _ ?_
        have hm := findIter_mem hf
        obtain ⟨hk1, hv⟩ : isHyp it.kind = true ∧ it.valid = true := by simpa using hc
        have := h.iters it hm hv
        cases hk : it.kind <;> simp_all [live, isHyp]
      · exact h
    · exact h
  · exact h

theorem wf_aliChild (s : ApiState) (h : WF s) (d i : Nat) (e : Bool) : WF (step s (.aliChild d i e)).1 := by
  simp only [step]
  split
  · rename_i it hf _
    split
    · split
      · rename_i hc he
        refine h.cons _ ?_
        have hm := findIter_mem hf
        obtain ⟨hk1, hv⟩ : isAli it.kind = true ∧ it.valid = true := by simpa using hc
        exact h.iters it hm hv
      · exact h
    · exact h
  · exact h

theorem wf_llink (s : ApiState) (h : WF s) (d i : Nat) (e : Bool) : WF (step s (.llink d i e)).1 := by
  simp only [step]
  split
  · rename_i it hf _
    split
    · rename_i o hk
      split
      · rename_i hv
        split
        · refine h.cons _ ?_
          have := h.iters it (findIter_mem hf) hv
          rw [hk] at this
          exact this
        · exact h
      · exact h
    · exact h
  · exact h

theorem wf_latFree (s : ApiState) (h : WF s) (k : Nat) : WF (step s (.latFree k)).1 := by
  simp only [step]
  split
  · refine { dead := h.dead, noSearch := h.noSearch, activeIff := h.activeIff, inUtt := h.inUtt,
             dagFresh := h.dagFresh, alFresh := h.alFresh, iters := ?_ }
    refine iters_of_invalidate h (p := unheld s.dag s.dagId (s.lats.filter (·.1 != k))) rfl ?_
    intro j hp hl
    cases j <;> simp_all [live, unheld]
    all_goals
      rename_i o
      by_cases hc : s.dag = true ∧ s.dagId = o
      · exact .inl hc
      · refine .inr (hp ?_)
        by_cases hd : s.dag = true
        · exact .inr fun he => hc ⟨hd, he⟩
        · exact .inl (by simpa using hd)
  · exact h

theorem wf_alFree (s : ApiState) (h : WF s) (k : Nat) : WF (step s (.alFree k)).1 := by
  simp only [step]
  split
  · refine { dead := h.dead, noSearch := h.noSearch, activeIff := h.activeIff, inUtt := h.inUtt,
             dagFresh := h.dagFresh, alFresh := h.alFresh, iters := ?_ }
    refine iters_of_invalidate h (p := isAliU k) rfl ?_
    intro j hp hl
    cases j <;> simp_all [live, isAliU]
  · exact h

theorem wf_alAdd (s : ApiState) (h : WF s) (k n plen : Nat) : WF (step s (.alAdd k n plen)).1 := by
  simp only [step]
  split
  · refine { dead := h.dead, noSearch := h.noSearch, activeIff := h.activeIff, inUtt := h.inUtt,
             dagFresh := h.dagFresh, alFresh := h.alFresh, iters := ?_ }
    refine iters_of_invalidate h (p := isAliU k) rfl ?_
    intro j hp hl
    cases j <;> simp_all [live, isAliU]
  · exact h

theorem wf_alPop (s : ApiState) (h : WF s) (k e : Nat) : WF (step s (.alPop k e)).1 := by
  simp only [step]
  split
  · refine { dead := h.dead, noSearch := h.noSearch, activeIff := h.activeIff, inUtt := h.inUtt,
             dagFresh := h.dagFresh, alFresh := h.alFresh, iters := ?_ }
    refine iters_of_invalidate h (p := isAliU k) rfl ?_
    intro j hp hl
    cases j <;> simp_all [live, isAliU]
  · exact h

theorem wf_alBuild (s : ApiState) (h : WF s) (k : Nat) : WF (step s (.alBuild k)).1 := by
  simp only [step]
  (repeat' split) <;> first
    | exact h
    | exact h.congr rfl rfl rfl rfl rfl rfl rfl rfl rfl rfl rfl rfl
        (fun _ hk => List.mem_cons_of_mem _ hk) rfl (fun _ x => x)

theorem wf_alIterUser (s : ApiState) (h : WF s) (id k : Nat) (ru r a e : Bool) :
    WF (step s (.alIter id (.user k) ru r a e)).1 := by
  simp only [step]
  split
  · rename_i hc
    split
    · exact h.cons _ hc.1
    · exact h
  · exact h

theorem wf_retain (s : ApiState) (h : WF s) : WF (step s .retain).1 := by
  simp only [step]
  split
  · exact h
  · exact { dead := fun hr => by simp at hr, noSearch := h.noSearch, activeIff := h.activeIff, inUtt := h.inUtt,
            dagFresh := h.dagFresh, alFresh := h.alFresh, iters := h.iters }

/-- changing `mllr` / `logfh` / `json` of a live decoder -/
theorem WF.setFlags {s : ApiState} (h : WF s) (h0 : s.refs ≠ 0) (m l j : Bool) :
    WF { s with mllr := m, logfh := l, json := j } :=
  { dead := fun hr => absurd hr h0, noSearch := h.noSearch, activeIff := h.activeIff, inUtt := h.inUtt,
    dagFresh := h.dagFresh, alFresh := h.alFresh,
    iters := fun it hm hv => live_congr it.kind rfl rfl rfl rfl (fun _ x => x) (fun _ x => x) (h.iters it hm hv) }

theorem wf_logfile (s : ApiState) (h : WF s) (a : LogArg) : WF (step s (.logfile a)).1 := by
  simp only [step]
  split
  · exact h
  · rename_i h0
    cases a
    · exact h.setFlags h0 s.mllr false s.json
    · exact h.setFlags h0 s.mllr true s.json
    · exact h

theorem wf_mllrApply (s : ApiState) (h : WF s) (g : Bool) : WF (step s (.mllrApply g)).1 := by
  simp only [step]
  (repeat' split) <;> first
    | exact h
    | (rename_i h0 _ _; exact h.setFlags h0 true s.logfh s.json)

theorem wf_proc (s : ApiState) (h : WF s) (f a : Bool) : WF (step s (.proc f a)).1 := by
  simp only [step]
  (repeat' split) <;> first
    | exact h
    | exact { dead := h.dead, noSearch := h.noSearch, activeIff := h.activeIff, inUtt := h.inUtt,
              dagFresh := fun hf => h.dagFresh (by simp at hf; exact hf.1),
              alFresh := fun hf => h.alFresh (by simp at hf; exact hf.1),
              iters := fun it hm hv =>
                live_congr it.kind rfl rfl rfl rfl (fun _ x => x) (fun _ x => x) (h.iters it hm hv) }

theorem wf_endUtt (s : ApiState) (h : WF s) (a : Bool) : WF (step s (.endUtt a)).1 := by
  simp only [step]
  (repeat' split) <;> first
    | exact h
    | (rename_i h0 hs hu
       refine { dead := fun hr => absurd hr h0, noSearch := fun hn => absurd hn hs,
                activeIff := by simp, inUtt := fun hx => (by cases hx),
                dagFresh := fun hf => h.dagFresh (by simp at hf; exact hf.1),
                alFresh := fun hf => (by cases hf), iters := ?_ }
       refine iters_of_invalidate h (p := isAliD) rfl ?_
       intro k hp hl
       cases k <;> simp_all [live, isAliD])

theorem wf_seg (s : ApiState) (h : WF s) (i : Nat) (e : Bool) : WF (step s (.seg i e)).1 := by
  simp only [step]
  (repeat' split) <;> first
    | exact h
    | (rename_i hc; exact h.cons _ (by simp at hc; exact hc.1))

theorem wf_lattice (s : ApiState) (h : WF s) (e : Bool) : WF (step s (.lattice e)).1 := by
  simp only [step]
  split
  · exact h
  · exact latticeStep_wf h e

theorem wf_latBest (s : ApiState) (h : WF s) (src : LatSrc) (e b : Bool) : WF (step s (.latBest src e b)).1 := by
  simp only [step]
  split
  · exact h
  · exact latOf_wf h src e

theorem wf_latTrav (s : ApiState) (h : WF s) (src : LatSrc) (e : Bool) : WF (step s (.latTrav src e)).1 := by
  simp only [step]
  split
  · exact h
  · exact latOf_wf h src e

theorem wf_latPrune (s : ApiState) (h : WF s) (src : LatSrc) (e b : Bool) : WF (step s (.latPrune src e b)).1 := by
  simp only [step]
  split
  · exact h
  · have hw := latOf_wf h src e
    split
    · rename_i o ho
      split
      · refine { dead := hw.dead, noSearch := hw.noSearch, activeIff := hw.activeIff, inUtt := hw.inUtt,
                 dagFresh := hw.dagFresh, alFresh := hw.alFresh, iters := ?_ }
        refine iters_of_invalidate hw
          (p := pruneDrop ((latOf s src e).1.dag && (latOf s src e).1.dagId == o) o) rfl ?_
        intro k hp hl
        exact live_congr k rfl rfl rfl rfl (fun _ x => x) (fun _ x => x) hl
      · exact hw
    · exact hw

theorem wf_lnode (s : ApiState) (h : WF s) (i : Nat) (src : LatSrc) (e ei : Bool) :
    WF (step s (.lnode i src e ei)).1 := by
  simp only [step]
  split
  · exact h
  · have hw := latOf_wf h src e
    split
    · rename_i o ho
      split
      · exact hw.cons _ (latOf_live src e ho)
      · exact hw
    · exact hw

theorem wf_latRetain (s : ApiState) (h : WF s) (k : Nat) (e : Bool) : WF (step s (.latRetain k e)).1 := by
  simp only [step]
  (repeat' split) <;> first
    | exact h
    | exact latticeStep_wf h e
    | exact (latticeStep_wf h e).congr rfl rfl rfl rfl rfl rfl rfl rfl rfl rfl rfl rfl (fun _ hk => hk) rfl
        (fun o ho => by
          simp only [holds, List.any_cons, Bool.or_eq_true] at ho ⊢
          exact .inr ho)

theorem wf_nbest (s : ApiState) (h : WF s) (i : Nat) (e b : Bool) : WF (step s (.nbest i e b)).1 := by
  simp only [step]
  (repeat' split) <;> first
    | exact h
    | exact latticeStep_wf h e
    | (rename_i hc
       refine (latticeStep_wf h e).cons _ ?_
       have : (latticeStep s e).2 = true := by simp at hc; exact hc.1
       exact latticeStep_ok e this)

theorem wf_align (s : ApiState) (h : WF s) (ru r a : Bool) : WF (step s (.align ru r a)).1 := by
  simp only [step]
  split
  · exact h
  · exact alignStep_wf h ru r a

theorem wf_alRetain (s : ApiState) (h : WF s) (k : Nat) (ru r a : Bool) : WF (step s (.alRetain k ru r a)).1 := by
  simp only [step]
  (repeat' split) <;> first
    | exact h
    | exact alignStep_wf h ru r a
    | exact (alignStep_wf h ru r a).congr rfl rfl rfl rfl rfl rfl rfl rfl rfl rfl rfl rfl
        (fun _ hk => List.mem_cons_of_mem _ hk) rfl (fun _ x => x)

theorem wf_alIterDec (s : ApiState) (h : WF s) (i : Nat) (ru r a e : Bool) :
    WF (step s (.alIter i .dec ru r a e)).1 := by
  simp only [step]
  (repeat' split) <;> first
    | exact h
    | exact alignStep_wf h ru r a
    | (rename_i hc
       refine (alignStep_wf h ru r a).cons _ ?_
       have : (alignStep s ru r a).2 = true := by simp at hc; exact hc.1
       exact alignStep_ok ru r a this)

theorem wf_json (s : ApiState) (h : WF s) (l : Nat) (ru r a : Bool) : WF (step s (.json l ru r a)).1 := by
  simp only [step]
  (repeat' split) <;> first
    | exact h
    | exact alignStep_wf h ru r a
    | (rename_i h0 _; exact h.setFlags h0 s.mllr s.logfh true)
    | (rename_i h0 _ _
       exact (alignStep_wf h ru r a).setFlags (by rw [(alignStep_same s ru r a).1]; exact h0) _ _ true)

theorem wf_addWord (s : ApiState) (h : WF s) (u o : Bool) : WF (step s (.addWord u o)).1 := by
  simp only [step]
  (repeat' split) <;> first
    | exact h
    | (rename_i h0 hnu _ hc
       refine { dead := fun hr => absurd hr h0, noSearch := fun hn => (by cases hn), activeIff := h.activeIff,
                inUtt := fun hx => absurd ⟨hc.1, hx⟩ hnu, dagFresh := h.dagFresh,
                alFresh := fun hf => (by cases hf), iters := ?_ }
       refine iters_of_invalidate h (p := fun k => isSegS k || isAliD k) rfl ?_
       intro k hp hl
       cases k <;> simp_all [live, isSegS, isAliD])

theorem wf_setGrammar (s : ApiState) (h : WF s) (g : Bool) : WF (step s (.setGrammar g)).1 := by
  simp only [step]
  (repeat' split) <;> first
    | exact h
    | (rename_i h0 hu _
       refine { dead := fun hr => absurd hr h0, noSearch := fun hn => (by cases hn),
                activeIff := ⟨fun hx => (by cases hx), fun hx => absurd hx hu⟩,
                inUtt := fun hx => absurd hx hu, dagFresh := fun hx => (by cases hx),
                alFresh := fun hf => (by cases hf), iters := ?_ }
       refine iters_of_invalidate h (p := fun k => resultDrop s.dagId s.lats k || isAliD k) rfl ?_
       intro k hp hl
       cases k <;> simp_all [live, resultDrop, dagDrop, isSegS, isAliD]
       all_goals
         rcases hl with ⟨_, h2⟩ | h2
         · subst h2; first | exact hp rfl | exact .inr (hp rfl)
         · first | exact h2 | exact .inr h2)

theorem wf_drop {s : ApiState} (h : WF s) : WF (dropDecoderOwned s) := by
  refine { dead := ?_, noSearch := ?_, activeIff := ?_, inUtt := ?_, dagFresh := ?_, alFresh := ?_, iters := ?_ }
  · intro hr
    have := h.dead hr
    simp [dropDecoderOwned, this]
  · simp [dropDecoderOwned]
  · simp [dropDecoderOwned]
  · simp [dropDecoderOwned]
  · simp [dropDecoderOwned]
  · simp [dropDecoderOwned]
  · refine iters_of_invalidate h (p := decoderDrop s.dagId s.lats) rfl ?_
    intro k hp hl
    cases k <;> simp_all [live, decoderDrop, dagDrop, dropDecoderOwned]
    all_goals
      rcases hl with ⟨_, h2⟩ | h2
      · subst h2; first | exact hp rfl | exact .inr (hp rfl)
      · first | exact h2 | exact .inr h2

theorem drop_facts (s : ApiState) : (dropDecoderOwned s).search = .none ∧ (dropDecoderOwned s).utt = .idle
    ∧ (dropDecoderOwned s).refs = s.refs := by simp [dropDecoderOwned]

theorem wf_loadGrammar {s : ApiState} (h : WF s) (h0 : s.refs ≠ 0) (hs : s.search = .none) (hu : s.utt = .idle)
    (g : Gram) : WF (loadGrammar s g).1 := by
  unfold loadGrammar
  split
  · exact h
  · refine { dead := fun hr => absurd hr h0, noSearch := fun hn => (by cases hn), activeIff := h.activeIff,
             inUtt := fun hx => (by rw [hu] at hx; cases hx), dagFresh := h.dagFresh, alFresh := h.alFresh, iters := ?_ }
    intro it hm hv
    have := h.iters it hm hv
    cases hk : it.kind <;> simp_all [live]
  · exact h

theorem wf_reinit (s : ApiState) (h : WF s) (g : Gram) : WF (step s (.reinit g)).1 := by
  simp only [step]
  split
  · exact h
  · rename_i h0
    split
    · exact h
    · have hd := wf_drop h
      obtain ⟨d1, d2, d3⟩ := drop_facts s
      exact wf_loadGrammar hd (by rw [d3]; exact h0) d1 d2 g

theorem wf_init (s : ApiState) (h : WF s) (g : Gram) (f : Bool) : WF (step s (.init g f)).1 := by
  simp only [step]
  split
  · exact h
  · rename_i h0
    have h0' : s.refs = 0 := by simpa using h0
    split
    · exact h
    · have hs0 : WF ({ iters := s.iters, lats := s.lats, alns := s.alns, built := s.built, refs := 1, nextObj := s.nextObj } : ApiState) := by
        refine { dead := fun hr => (by cases hr), noSearch := fun _ => ⟨rfl, by simp⟩, activeIff := by simp,
                 inUtt := fun hx => (by cases hx), dagFresh := fun hx => (by cases hx),
                 alFresh := fun hx => (by cases hx), iters := ?_ }
        intro it hm hv
        have hl := h.iters it hm hv
        have hd := h.dead h0'
        have hn := h.noSearch hd.1
        cases hk : it.kind <;> simp_all [live]
      have h2 := wf_loadGrammar hs0 (by simp) rfl rfl g
      split
      · rename_i s2 heq
        have : (loadGrammar { iters := s.iters, lats := s.lats, alns := s.alns, built := s.built, refs := 1, nextObj := s.nextObj } g).1 = s2 := by
          rw [heq]
        rw [← this]; exact h2
      · exact h

/-- **`WF` is an invariant of the automaton**, for every call in every state -/
theorem wf_step (s : ApiState) (c : Call) (h : WF s) : WF (step s c).1 := by
  cases c with
  | init g f => exact wf_init s h g f
  | reinit g => exact wf_reinit s h g
  | reinitFeat => exact wf_simple s h _ (.inr (.inr (.inr (.inr (.inr (.inr (.inr (.inr (.inr (.inr rfl))))))))))
  | retain => exact wf_retain s h
  | free => exact wf_free s h
  | logfile a => exact wf_logfile s h a
  | mllrApply g => exact wf_mllrApply s h g
  | touch => exact wf_simple s h _ (.inr (.inl rfl))
  | freeNull => exact wf_simple s h _ (.inl rfl)
  | start => exact wf_start s h
  | proc f a => exact wf_proc s h f a
  | endUtt a => exact wf_endUtt s h a
  | hyp e => exact wf_simple s h _ (.inr (.inr (.inl ⟨e, rfl⟩)))
  | prob => exact wf_simple s h _ (.inr (.inr (.inr (.inl rfl))))
  | nframes => exact wf_simple s h _ (.inr (.inr (.inr (.inr (.inl rfl)))))
  | times => exact wf_simple s h _ (.inr (.inr (.inr (.inr (.inr (.inl rfl))))))
  | getCmn => exact wf_simple s h _ (.inr (.inr (.inr (.inr (.inr (.inr (.inl rfl)))))))
  | setCmn => exact wf_simple s h _ (.inr (.inr (.inr (.inr (.inr (.inr (.inr (.inl rfl))))))))
  | lookup f => exact wf_simple s h _ (.inr (.inr (.inr (.inr (.inr (.inr (.inr (.inr (.inl ⟨f, rfl⟩)))))))))
  | latWalk k => exact wf_simple s h _ (.inr (.inr (.inr (.inr (.inr (.inr (.inr (.inr (.inr (.inl ⟨k, rfl⟩))))))))))
  | seg i e => exact wf_seg s h i e
  | segNext i l => exact wf_removers s h _ (.inr (.inr (.inr (.inl ⟨i, l, rfl⟩))))
  | segFree i => exact wf_removers s h _ (.inl ⟨i, rfl⟩)
  | nbest i e b => exact wf_nbest s h i e b
  | hypNext i l => exact wf_removers s h _ (.inr (.inr (.inr (.inr (.inl ⟨i, l, rfl⟩)))))
  | hypFree i => exact wf_removers s h _ (.inr (.inl ⟨i, rfl⟩))
  | hypSeg d i e => exact wf_hypSeg s h d i e
  | lattice e => exact wf_lattice s h e
  | latBest src e b => exact wf_latBest s h src e b
  | latPrune src e b => exact wf_latPrune s h src e b
  | latTrav src e => exact wf_latTrav s h src e
  | latRetain k e => exact wf_latRetain s h k e
  | latFree k => exact wf_latFree s h k
  | lnode i src e ei => exact wf_lnode s h i src e ei
  | lnodeNext i l => exact wf_removers s h _ (.inr (.inr (.inr (.inr (.inr (.inr (.inr (.inr (.inr (.inl ⟨i, l, rfl⟩))))))))))
  | lnodeFree i => exact wf_removers s h _ (.inr (.inr (.inr (.inr (.inr (.inr (.inr (.inl ⟨i, rfl⟩))))))))
  | llink d i e => exact wf_llink s h d i e
  | llinkNext i l => exact wf_removers s h _ (.inr (.inr (.inr (.inr (.inr (.inr (.inr (.inr (.inr (.inr ⟨i, l, rfl⟩))))))))))
  | llinkFree i => exact wf_removers s h _ (.inr (.inr (.inr (.inr (.inr (.inr (.inr (.inr (.inl ⟨i, rfl⟩)))))))))
  | align ru r a => exact wf_align s h ru r a
  | alRetain k ru r a => exact wf_alRetain s h k ru r a
  | alFree k => exact wf_alFree s h k
  | alBuild k => exact wf_alBuild s h k
  | alAdd k n p => exact wf_alAdd s h k n p
  | alPop k e => exact wf_alPop s h k e
  | alIter i src ru r a e =>
    cases src with
    | dec => exact wf_alIterDec s h i ru r a e
    | user k => exact wf_alIterUser s h i k ru r a e
  | aliNext i l => exact wf_removers s h _ (.inr (.inr (.inr (.inr (.inr (.inl ⟨i, l, rfl⟩))))))
  | aliChild d i e => exact wf_aliChild s h d i e
  | aliGoto i g => exact wf_removers s h _ (.inr (.inr (.inr (.inr (.inr (.inr (.inl ⟨i, g, rfl⟩)))))))
  | aliFree i => exact wf_removers s h _ (.inr (.inr (.inl ⟨i, rfl⟩)))
  | json l ru r a => exact wf_json s h l ru r a
  | addWord u o => exact wf_addWord s h u o
  | setGrammar g => exact wf_setGrammar s h g

theorem wf_init0 : WF init0 := by
  refine { dead := fun _ => ⟨rfl, rfl, rfl, rfl, rfl, rfl⟩, noSearch := fun _ => ⟨rfl, by simp [init0]⟩,
           activeIff := by simp [init0], inUtt := fun hx => (by cases hx), dagFresh := fun hx => (by cases hx),
           alFresh := fun hx => (by cases hx), iters := fun it hm => (by cases hm) }

theorem wf_run (s : ApiState) (h : WF s) (cs : List Call) : WF (run s cs) := by
  induction cs generalizing s with
  | nil => exact h
  | cons c cs ih => exact ih _ (wf_step s c h)

/-! ### user-built alignments keep their counters in bounds -/

/-- every user-built alignment has all three levels inside their allocation and the 16-bit limit -/
def BuiltOk (s : ApiState) : Prop := ∀ p ∈ s.built, AlignVec.UAlign.Ok p.2

@[simp] theorem built_latticeStep (s : ApiState) (e : Bool) : (latticeStep s e).1.built = s.built := by
  unfold latticeStep; (repeat' split) <;> rfl
@[simp] theorem built_alignStep (s : ApiState) (ru r a : Bool) : (alignStep s ru r a).1.built = s.built := by
  unfold alignStep; (repeat' split) <;> rfl
@[simp] theorem built_latOf (s : ApiState) (src : LatSrc) (e : Bool) : (latOf s src e).1.built = s.built := by
  cases src <;> simp [latOf]
@[simp] theorem built_drop (s : ApiState) : (dropDecoderOwned s).built = s.built := rfl
@[simp] theorem built_loadGrammar (s : ApiState) (g : Gram) : (loadGrammar s g).1.built = s.built := by
  unfold loadGrammar; split <;> rfl

theorem builtOf_mem {l : List (Nat × AlignVec.UAlign)} {k : Nat} {u : AlignVec.UAlign} (h : builtOf l k = some u) :
    ∃ p ∈ l, p.2 = u := by
  simp only [builtOf, Option.map_eq_some_iff] at h
  obtain ⟨p, hp, hu⟩ := h
  exact ⟨p, List.mem_of_find?_eq_some hp, hu⟩

theorem setBuilt_ok {l : List (Nat × AlignVec.UAlign)} (hl : ∀ p ∈ l, AlignVec.UAlign.Ok p.2) (k : Nat)
    {u : AlignVec.UAlign} (hu : u.Ok) : ∀ p ∈ setBuilt l k u, AlignVec.UAlign.Ok p.2 := by
  intro p hp
  simp only [setBuilt, List.mem_cons, List.mem_filter] at hp
  rcases hp with rfl | ⟨hm, _⟩
  · exact hu
  · exact hl p hm

/-- a state that keeps the table of built alignments -/
theorem BuiltOk.of_eq {s s' : ApiState} (h : BuiltOk s) (e : s'.built = s.built) : BuiltOk s' := by
  unfold BuiltOk; rw [e]; exact h

theorem builtOk_step (s : ApiState) (c : Call) (h : BuiltOk s) : BuiltOk (step s c).1 := by
  cases c with
  | alBuild k =>
    simp only [step]
    (repeat' split) <;> first | exact h | exact setBuilt_ok h k AlignVec.ualign0_ok
  | alAdd k n plen =>
    simp only [step]
    split
    · rename_i u hu
      obtain ⟨p, hp, rfl⟩ := builtOf_mem hu
      exact setBuilt_ok h k (AlignVec.addWords_ok (h p hp) n plen)
    · exact h
  | alPop k e =>
    simp only [step]
    split
    · rename_i u hu
      obtain ⟨p, hp, rfl⟩ := builtOf_mem hu
      exact setBuilt_ok h k (AlignVec.populate_ok (h p hp) e)
    · exact h
  | alFree k =>
    simp only [step]
    split
    · intro p hp
      exact h p (List.mem_filter.mp hp).1
    · exact h
  | init g f =>
    simp only [step]
    (repeat' split) <;> first
      | exact h
      | (rename_i s2 heq
         have : s2.built = s.built := by
           have := built_loadGrammar ({ iters := s.iters, lats := s.lats, alns := s.alns, built := s.built, refs := 1,
                                        nextObj := s.nextObj } : ApiState) g
           rw [heq] at this; exact this
         exact h.of_eq this)
  | alIter i src ru r a e =>
    cases src <;> simp only [step] <;> (repeat' split) <;> first
      | exact h
      | exact h.of_eq (by simp)
      | exact h.of_eq rfl
  | _ =>
    simp only [step]
    (repeat' split) <;> first
      | exact h
      | exact h.of_eq (by simp)
      | exact h.of_eq rfl

theorem builtOk_init0 : BuiltOk init0 := by intro p hp; cases hp

theorem builtOk_run (s : ApiState) (h : BuiltOk s) (cs : List Call) : BuiltOk (run s cs) := by
  induction cs generalizing s with
  | nil => exact h
  | cons c cs ih => exact ih _ (builtOk_step s c h)

end SSVerif.Protocol
