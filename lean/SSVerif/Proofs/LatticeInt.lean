import SSVerif.Proofs.LatticeBest
/-! integer forward pass (`lattice_bestpath`, alpha part): with a log-add that never returns less than
the larger argument, every alpha dominates the scaled score of every path ending in its link, and the
normaliser dominates the joint score of every start→end path: the best-path posterior is at most one,
exactly, whatever the table rounding -/
namespace SSVerif.Lattice

variable {L : Lat} {P : IntParams}

theorem jointInt_snoc (p : List Link) (x : Link) : jointInt P (p ++ [x]) = jointInt P p + P.sc x := by
  simp [jointInt, List.sum_append]

theorem Walk.cases_last {q : List Link} {l : Link} (h : Walk L q l) :
    (q = [l] ∧ l.src = L.start) ∨ (∃ p l', q = p ++ [l] ∧ Walk L p l' ∧ l.src = l'.dst) := by
  cases h with
  | single _ hs => exact Or.inl ⟨rfl, hs⟩
  | snoc hw _ hs => exact Or.inr ⟨_, _, rfl, hw, hs⟩

/-- every link lies on a walk from the start node -/
theorem exists_walk {rank : Nat → Nat} (ok : DagOK L rank) : ∀ (r : Nat) (l : Link), l ∈ L.links → rank l.src = r →
    ∃ p, Walk L p l := by
  intro r
  induction r using Nat.strongRecOn with
  | _ r ih =>
    intro l hl hr
    by_cases hs : l.src = L.start
    · exact ⟨[l], .single hl hs⟩
    · obtain ⟨l', hl', hd⟩ := ok.has_entry l hl hs
      have := ok.rank_lt l' hl'
      rw [hd, hr] at this
      obtain ⟨p, hp⟩ := ih _ this l' hl' rfl
      exact ⟨p ++ [l], .snoc hp hl hd.symm⟩

/-- the fold over the exits in `alphaVisit`: every listed link is updated once -/
theorem visit_fold (a : Int) : ∀ (xs : List Link), xs.Nodup → ∀ (al0 : Link → Int) (y : Link),
    (y ∈ xs → (xs.foldl (fun al x => upd al x (P.ladd (al x) a)) al0) y = P.ladd (al0 y) a) ∧
    (y ∉ xs → (xs.foldl (fun al x => upd al x (P.ladd (al x) a)) al0) y = al0 y) := by
  intro xs
  induction xs with
  | nil =>
    intro _ al0 y
    constructor
    · intro h; cases h
    · intro _; rfl
  | cons x xs ih =>
    intro hnd al0 y
    rw [List.nodup_cons] at hnd
    simp only [List.foldl_cons]
    have := ih hnd.2 (upd al0 x (P.ladd (al0 x) a)) y
    constructor
    · intro hy
      rcases List.mem_cons.1 hy with rfl | hy
      · rw [this.2 hnd.1]; simp [upd]
      · rw [this.1 hy]
        have : y ≠ x := fun h => hnd.1 (h ▸ hy)
        simp [upd, this]
    · intro hy
      have h1 : y ≠ x := fun h => hy (h ▸ List.mem_cons_self)
      have h2 : y ∉ xs := fun h => hy (List.mem_cons_of_mem _ h)
      rw [this.2 h2]; simp [upd, h1]

/-- invariant of the forward pass after the links `pre` have been visited -/
structure AInv (L : Lat) (P : IntParams) (pre : List Link) (al : Link → Int) : Prop where
  lb : ∀ y ∈ L.links, P.lz ≤ al y
  done : ∀ y ∈ pre, ∀ p, Walk L p y → jointInt P p ≤ al y
  startv : ∀ y ∈ L.links, y ∉ pre → y.src = L.start → 0 ≤ al y
  pend : ∀ y ∈ L.links, y ∉ pre → ∀ p l', Walk L p l' → l' ∈ pre → y.src = l'.dst → jointInt P p ≤ al y

theorem ainv_step {rank : Nat → Nat} (ok : DagOK L rank)
    (hge : ∀ x y, P.lz ≤ x → P.lz ≤ y → max x y ≤ P.ladd x y)
    (hnu : ∀ p x, Walk L p x → P.lz ≤ jointInt P p)
    {pre : List Link} {l : Link} {post : List Link}
    (hnd : (pre ++ l :: post).Nodup) (hsub : ∀ y ∈ pre ++ l :: post, y ∈ L.links)
    (htopo : Topo L (pre ++ l :: post)) {al : Link → Int} (inv : AInv L P pre al) :
    AInv L P (pre ++ [l]) (alphaVisit P L al l) := by
  have hl : l ∈ L.links := hsub l (by simp)
  have hlpre : l ∉ pre := fun h => (List.nodup_append.1 hnd).2.2 l h l (by simp) rfl
  have hself : l ∉ exits L l.dst := by
    intro h
    have := ok.rank_lt l hl
    rw [(mem_exits.1 h).2] at this
    omega
  -- the value of l after adding its own score dominates every walk ending with l
  have hval : ∀ q, Walk L q l → jointInt P q ≤ al l + P.sc l := by
    intro q hq
    rcases hq.cases_last with ⟨rfl, hs⟩ | ⟨p, l', rfl, hp, hs⟩
    · have := inv.startv l hl hlpre hs
      simp only [jointInt, List.map_cons, List.map_nil, List.sum_cons, List.sum_nil]
      omega
    · have hl'pre : l' ∈ pre := htopo pre l post rfl l' hp.mem hs.symm
      have := inv.pend l hl hlpre p l' hp hl'pre hs
      rw [jointInt_snoc]; omega
  obtain ⟨q0, hq0⟩ := exists_walk ok _ l hl rfl
  have ha_lb : P.lz ≤ al l + P.sc l := Int.le_trans (hnu q0 l hq0) (hval q0 hq0)
  -- values after the visit
  have hfold := visit_fold (P := P) (al l + P.sc l) (exits L l.dst) (exits_nodup ok _) (upd al l (al l + P.sc l))
  have hv_l : alphaVisit P L al l l = al l + P.sc l := by
    unfold alphaVisit
    rw [(hfold l).2 hself]; simp [upd]
  have hv_exit : ∀ y, y ∈ exits L l.dst → alphaVisit P L al l y = P.ladd (al y) (al l + P.sc l) := by
    intro y hy
    unfold alphaVisit
    rw [(hfold y).1 hy]
    have : y ≠ l := fun h => hself (h ▸ hy)
    simp [upd, this]
  have hv_other : ∀ y, y ≠ l → y ∉ exits L l.dst → alphaVisit P L al l y = al y := by
    intro y h1 h2
    unfold alphaVisit
    rw [(hfold y).2 h2]; simp [upd, h1]
  have hexit_ge : ∀ y ∈ L.links, y ∈ exits L l.dst →
      al y ≤ alphaVisit P L al l y ∧ al l + P.sc l ≤ alphaVisit P L al l y := by
    intro y hy hye
    rw [hv_exit y hye]
    have := hge (al y) (al l + P.sc l) (inv.lb y hy) ha_lb
    omega
  constructor
  · intro y hy
    by_cases h1 : y = l
    · subst h1; rw [hv_l]; exact ha_lb
    · by_cases h2 : y ∈ exits L l.dst
      · have := (hexit_ge y hy h2).1
        have := inv.lb y hy
        omega
      · rw [hv_other y h1 h2]; exact inv.lb y hy
  · intro y hy p hp
    rcases List.mem_append.1 hy with hy | hy
    · -- an earlier visited link is no exit of l's target (it would have to come after l)
      have hne : y ≠ l := fun h => hlpre (h ▸ hy)
      have hnex : y ∉ exits L l.dst := by
        intro h
        have hyl : y ∈ pre ++ l :: post := List.mem_append_left _ hy
        obtain ⟨pre', post', hsplit⟩ := List.append_of_mem hy
        -- y = pre' ++ y :: post' inside pre: l (a link into y's source) must come before y
        have : l ∈ pre' := htopo pre' y (post' ++ l :: post) (by rw [hsplit]; simp) l hl (mem_exits.1 h).2.symm
        exact hlpre (by rw [hsplit]; exact List.mem_append_left _ this)
      rw [hv_other y hne hnex]
      exact inv.done y hy p hp
    · simp at hy; subst hy
      rw [hv_l]; exact hval p hp
  · intro y hy hyn hs
    have hy1 : y ∉ pre := fun h => hyn (List.mem_append_left _ h)
    have hy2 : y ≠ l := fun h => hyn (by rw [h]; simp)
    have := inv.startv y hy hy1 hs
    by_cases h2 : y ∈ exits L l.dst
    · have := (hexit_ge y hy h2).1; omega
    · rw [hv_other y hy2 h2]; exact this
  · intro y hy hyn p l' hp hl' hs
    have hy1 : y ∉ pre := fun h => hyn (List.mem_append_left _ h)
    have hy2 : y ≠ l := fun h => hyn (by rw [h]; simp)
    rcases List.mem_append.1 hl' with hl' | hl'
    · have := inv.pend y hy hy1 p l' hp hl' hs
      by_cases h2 : y ∈ exits L l.dst
      · have := (hexit_ge y hy h2).1; omega
      · rw [hv_other y hy2 h2]; exact this
    · simp at hl'; subst hl'
      have h2 : y ∈ exits L l'.dst := mem_exits.2 ⟨hy, hs⟩
      have := (hexit_ge y hy h2).2
      have := hval p hp
      omega

theorem ainv_fold {rank : Nat → Nat} (ok : DagOK L rank)
    (hge : ∀ x y, P.lz ≤ x → P.lz ≤ y → max x y ≤ P.ladd x y)
    (hnu : ∀ p x, Walk L p x → P.lz ≤ jointInt P p) :
    ∀ (post pre : List Link) (al : Link → Int), (pre ++ post).Nodup → (∀ y ∈ pre ++ post, y ∈ L.links) →
      Topo L (pre ++ post) → AInv L P pre al → AInv L P (pre ++ post) (post.foldl (alphaVisit P L) al) := by
  intro post
  induction post with
  | nil => intro pre al _ _ _ inv; simpa using inv
  | cons l post ih =>
    intro pre al hnd hsub htopo inv
    simp only [List.foldl_cons]
    have h1 := ainv_step ok hge hnu hnd hsub htopo inv
    have := ih (pre ++ [l]) _ (by simpa using hnd) (by simpa using hsub) (by simpa using htopo) h1
    simpa using this

theorem ainv_init (hlz : P.lz ≤ 0) : AInv L P [] (alphaInit P L) where
  lb := by
    intro y _
    unfold alphaInit
    split <;> omega
  done := fun y hy => by cases hy
  startv := by
    intro y hy _ hs
    unfold alphaInit
    rw [if_pos ⟨hy, hs⟩]
    exact Int.le_refl _
  pend := fun _ _ _ _ _ _ h => by cases h

/-- every alpha dominates the scaled score of every path from the start that ends with its link -/
theorem alphaInt_ge {rank : Nat → Nat} (ok : DagOK L rank) (hlz : P.lz ≤ 0)
    (hge : ∀ x y, P.lz ≤ x → P.lz ≤ y → max x y ≤ P.ladd x y)
    (hnu : ∀ p x, Walk L p x → P.lz ≤ jointInt P p) :
    (∀ p x, Walk L p x → jointInt P p ≤ alphaInt P L x) ∧ (∀ y ∈ L.links, P.lz ≤ alphaInt P L y) := by
  obtain ⟨hperm, htopo⟩ := traverse_topological ok
  have hnd : (traverseEdges L).Nodup := (hperm.nodup_iff).2 ok.nodup
  have inv := ainv_fold ok hge hnu (traverseEdges L) [] (alphaInit P L) (by simpa using hnd)
    (by intro y hy; exact hperm.mem_iff.1 (by simpa using hy)) (by simpa using htopo) (ainv_init hlz)
  simp only [List.nil_append] at inv
  exact ⟨fun p x hw => inv.done x (hperm.mem_iff.2 hw.mem) p hw, inv.lb⟩

/-- the normaliser dominates every alpha it sums -/
theorem normInt_ge (hge : ∀ x y, P.lz ≤ x → P.lz ≤ y → max x y ≤ P.ladd x y) (al : Link → Int) :
    ∀ (ents : List Link) (n : Int), P.lz ≤ n → (∀ x ∈ ents, P.lz ≤ al x) →
      n ≤ ents.foldl (fun n x => P.ladd n (al x)) n ∧ ∀ x ∈ ents, al x ≤ ents.foldl (fun n x => P.ladd n (al x)) n := by
  intro ents
  induction ents with
  | nil => intro n _ _; exact ⟨Int.le_refl _, fun x hx => by cases hx⟩
  | cons e ents ih =>
    intro n hn hl
    simp only [List.foldl_cons]
    have h1 := hge n (al e) hn (hl e List.mem_cons_self)
    obtain ⟨i1, i2⟩ := ih (P.ladd n (al e)) (by omega) (fun x hx => hl x (List.mem_cons_of_mem _ hx))
    refine ⟨by omega, fun x hx => ?_⟩
    rcases List.mem_cons.1 hx with rfl | hx
    · omega
    · exact i2 x hx

/-! ### the association-list passes compute the same functions -/

theorem look_cons (d : Link → Int) (x : Link) (v : Int) (m : ATab) :
    look d ((x, v) :: m) = upd (look d m) x v := by
  funext y; simp [look, upd]

theorem alphaVisitT_eq (m : ATab) (l : Link) :
    look (alphaInit P L) (alphaVisitT P L m l) = alphaVisit P L (look (alphaInit P L) m) l := by
  unfold alphaVisitT alphaVisit
  simp only
  rw [← look_cons]
  generalize ((l, look (alphaInit P L) m l + P.sc l) :: m) = m0
  generalize look (alphaInit P L) m l + P.sc l = a
  induction (exits L l.dst) generalizing m0 with
  | nil => rfl
  | cons x xs ih =>
    simp only [List.foldl_cons]
    rw [ih, look_cons]

theorem alphaIntT_eq : look (alphaInit P L) (alphaIntT P L) = alphaInt P L := by
  unfold alphaIntT alphaInt
  have : ∀ (ord : List Link) (m : ATab),
      look (alphaInit P L) (ord.foldl (alphaVisitT P L) m) = ord.foldl (alphaVisit P L) (look (alphaInit P L) m) := by
    intro ord
    induction ord with
    | nil => intro m; rfl
    | cons l ord ih => intro m; simp only [List.foldl_cons]; rw [ih, alphaVisitT_eq]
  exact this _ []

theorem betaVisitT_eq (m : ATab) (l : Link) :
    look (fun _ => P.lz) (betaVisitT P L m l) = betaVisit P L (look (fun _ => P.lz) m) l := by
  unfold betaVisitT betaVisit
  split <;> rw [look_cons]

theorem betaIntT_eq : look (fun _ => P.lz) (betaIntT P L) = betaInt P L := by
  unfold betaIntT betaInt
  have : ∀ (ord : List Link) (m : ATab),
      look (fun _ => P.lz) (ord.foldl (betaVisitT P L) m) = ord.foldl (betaVisit P L) (look (fun _ => P.lz) m) := by
    intro ord
    induction ord with
    | nil => intro m; rfl
    | cons l ord ih => intro m; simp only [List.foldl_cons]; rw [ih, betaVisitT_eq]
  exact this _ []

end SSVerif.Lattice
