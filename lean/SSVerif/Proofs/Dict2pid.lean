import SSVerif.Model.Dict2pid
import SSVerif.Proofs.Dict
/-!
# Lemmas about the table model (M14b): `compress_table` is lossless, every stored row is the direct lookup,
every word's rows are stored
-/
namespace SSVerif.Dict2pid
open SSVerif.Dict
open SSVerif.HashTable (Key)

/-! ## association lists -/

theorem lookup_mem {α β : Type} [BEq α] [LawfulBEq α] {k : α} {v : β} :
    ∀ {l : List (α × β)}, l.lookup k = some v → (k, v) ∈ l
  | [], h => by simp at h
  | (k', v') :: l, h => by
    rw [List.lookup_cons] at h
    split at h
    · next hk =>
      cases h
      have : k = k' := by simpa using hk
      subst this; exact List.mem_cons_self
    · exact List.mem_cons_of_mem _ (lookup_mem h)

theorem lookup_isSome_cons {α β : Type} [BEq α] [LawfulBEq α] {k : α} (x : α × β) {l : List (α × β)}
    (h : (l.lookup k).isSome = true) : ((x :: l).lookup k).isSome = true := by
  obtain ⟨k', v'⟩ := x
  rw [List.lookup_cons]
  split
  · rfl
  · exact h

theorem lookup_cons_self {α β : Type} [BEq α] [LawfulBEq α] (k : α) (v : β) (l : List (α × β)) :
    ((k, v) :: l).lookup k = some v := by
  rw [List.lookup_cons]; simp

theorem lookup_map_val {α β γ : Type} [BEq α] (f : β → γ) (k : α) :
    ∀ l : List (α × β), (l.map fun kv => (kv.1, f kv.2)).lookup k = (l.lookup k).map f
  | [] => rfl
  | (k', v') :: l => by
    simp only [List.map_cons, List.lookup_cons]
    split
    · rfl
    · exact lookup_map_val f k l

/-! ## `compress_table` is lossless -/

/-- after the cells `pre`: one map entry per cell, and every non-BAD cell is found again through the map -/
def Good (s : List Nat × List Nat) (pre : List Nat) : Prop :=
  s.2.length = pre.length ∧
  ∀ (i x : Nat), pre[i]? = some x → x ≠ bad → ∃ j, s.2[i]? = some j ∧ s.1[j]? = some x

theorem good_step {s : List Nat × List Nat} {pre : List Nat} (h : Good s pre) (x : Nat) :
    Good (compressStep s x) (pre ++ [x]) := by
  obtain ⟨hl, hg⟩ := h
  unfold compressStep
  by_cases hx : x = bad
  · simp only [hx, if_true]
    refine ⟨by simp [hl], ?_⟩
    intro i y hi hy
    by_cases hip : i < pre.length
    · rw [List.getElem?_append_left hip] at hi
      obtain ⟨j, h1, h2⟩ := hg i y hi hy
      exact ⟨j, by rw [List.getElem?_append_left (by omega)]; exact h1, h2⟩
    · have : i = pre.length := by
        have : i < (pre ++ [bad]).length := by
          rcases List.getElem?_eq_some_iff.1 hi with ⟨hh, _⟩; exact hh
        simp at this; omega
      subst this
      simp at hi
      exact absurd hi.symm hy
  · simp only [hx, if_false]
    by_cases hf : List.idxOf x s.1 < s.1.length
    · simp only [hf, if_true]
      refine ⟨by simp [hl], ?_⟩
      intro i y hi hy
      by_cases hip : i < pre.length
      · rw [List.getElem?_append_left hip] at hi
        obtain ⟨j, h1, h2⟩ := hg i y hi hy
        exact ⟨j, by rw [List.getElem?_append_left (by omega)]; exact h1, h2⟩
      · have : i = pre.length := by
          have : i < (pre ++ [x]).length := by
            rcases List.getElem?_eq_some_iff.1 hi with ⟨hh, _⟩; exact hh
          simp at this; omega
        subst this
        simp at hi
        subst hi
        refine ⟨List.idxOf x s.1, by rw [← hl]; simp, ?_⟩
        rw [List.getElem?_eq_getElem hf, List.getElem_idxOf hf]
    · simp only [hf, if_false]
      refine ⟨by simp [hl], ?_⟩
      intro i y hi hy
      by_cases hip : i < pre.length
      · rw [List.getElem?_append_left hip] at hi
        obtain ⟨j, h1, h2⟩ := hg i y hi hy
        have hj : j < s.1.length := by
          rcases List.getElem?_eq_some_iff.1 h2 with ⟨hh, _⟩; exact hh
        exact ⟨j, by rw [List.getElem?_append_left (by omega)]; exact h1,
               by rw [List.getElem?_append_left hj]; exact h2⟩
      · have : i = pre.length := by
          have : i < (pre ++ [x]).length := by
            rcases List.getElem?_eq_some_iff.1 hi with ⟨hh, _⟩; exact hh
          simp at this; omega
        subst this
        simp at hi
        subst hi
        exact ⟨s.1.length, by rw [← hl]; simp, by simp⟩

theorem good_foldl : ∀ (row : List Nat) {s : List Nat × List Nat} {pre : List Nat}, Good s pre →
    Good (row.foldl compressStep s) (pre ++ row)
  | [], s, pre, h => by simpa using h
  | x :: row, s, pre, h => by
    have := good_foldl row (good_step h x)
    simpa using this

theorem good_compress (row : List Nat) : Good ((row.foldl compressStep ([], [])).1, (row.foldl compressStep ([], [])).2) row := by
  have := good_foldl row (s := ([], [])) (pre := []) ⟨rfl, by simp⟩
  simpa using this

/-- **`ssid[cimap[rc]]` is the uncompressed cell** -/
theorem compress_get {row : List Nat} {rc x : Nat} (h : row[rc]? = some x) (hx : x ≠ bad) :
    (compressTable row).get rc = x := by
  obtain ⟨_, hg⟩ := good_compress row
  obtain ⟨j, h1, h2⟩ := hg rc x h hx
  simp only [Xwd.get, compressTable, List.getD_eq_getElem?_getD]
  simp only at h1 h2
  rw [h1]
  simp only [Option.getD_some]
  rw [h2]; rfl

/-- the arrays have the sizes the C code allocates: one map entry per context, at most that many ids, and every
map entry of a non-BAD cell is a valid index -/
theorem compress_sizes (row : List Nat) :
    (compressTable row).cimap.length = row.length ∧
    ∀ (rc x : Nat), row[rc]? = some x → x ≠ bad →
      (compressTable row).cimap.getD rc (compressTable row).ssid.length < (compressTable row).ssid.length := by
  obtain ⟨hl, hg⟩ := good_compress row
  refine ⟨hl, ?_⟩
  intro rc x h hx
  obtain ⟨j, h1, h2⟩ := hg rc x h hx
  simp only [compressTable, List.getD_eq_getElem?_getD]
  simp only at h1 h2
  rw [h1]
  simp only [Option.getD_some]
  rcases List.getElem?_eq_some_iff.1 h2 with ⟨hh, _⟩; exact hh

/-- a non-BAD cell makes the compressed row non-empty (`n_ssid > 0`) -/
theorem compress_nonempty {row : List Nat} {rc x : Nat} (h : row[rc]? = some x) (hx : x ≠ bad) :
    (compressTable row).ssid.length ≠ 0 := by
  have := (compress_sizes row).2 rc x h hx
  omega

/-! ## rows -/

theorem rowBegin_get (m : BinMdef) (b r l : Nat) (hl : l < m.nCi) :
    (rowBegin m b r)[l]? = some (m.ssidOf b l r posBegin) := by
  simp [rowBegin, hl]

theorem rowEnd_get (m : BinMdef) (b l r : Nat) (hr : r < m.nCi) :
    (rowEnd m b l)[r]? = some (m.ssidOf b l r posEnd) := by
  simp [rowEnd, hr]

theorem blockSingle_get (m : BinMdef) (b l r : Nat) (hl : l < m.nCi) (hr : r < m.nCi) :
    ((blockSingle m b).getD l []).getD r bad = m.ssidOf b l r posSingle := by
  simp [blockSingle, List.getD_eq_getElem?_getD, hl, hr]

/-! ## validity of stored rows -/

def ValidL (m : BinMdef) (kv : (Nat × Nat) × List Nat) : Prop :=
  kv.2 = rowBegin m kv.1.1 kv.1.2 ∨ (silRowsL m = true ∧ kv.1.2 = m.sil.toNat ∧ kv.2 = rowSingleL m kv.1.1)

def ValidS (m : BinMdef) (kv : Nat × List (List Nat)) : Prop := kv.2 = blockSingle m kv.1

def ValidRrow (m : BinMdef) (kv : (Nat × Nat) × List Nat) : Prop :=
  kv.2 = rowEnd m kv.1.1 kv.1.2 ∨ (silRowsR m = true ∧ kv.1.2 = m.sil.toNat ∧ kv.2 = rowSingleR m kv.1.1)

def ValidR (m : BinMdef) (kv : (Nat × Nat) × Xwd) : Prop :=
  kv.2 = compressTable (rowEnd m kv.1.1 kv.1.2) ∨
  (silRowsR m = true ∧ kv.1.2 = m.sil.toNat ∧ kv.2 = compressTable (rowSingleR m kv.1.1))

/-- every stored row is what the direct lookup gives -/
structure TabsOK (m : BinMdef) (t : Tabs) : Prop where
  l : ∀ kv ∈ t.ldiph, ValidL m kv
  s : ∀ kv ∈ t.lrdiph, ValidS m kv
  r : ∀ kv ∈ t.rssid, ValidR m kv

/-- the rows a search reads for a word with pronunciation `p` are stored -/
def CovT (t : Tabs) (p : List Nat) : Prop :=
  match p with
  | [] => True
  | [b] => (t.lrdiph.lookup b).isSome = true
  | b :: r :: _ =>
    (t.ldiph.lookup (b, r)).isSome = true ∧
    (t.rssid.lookup (p.getD (p.length - 1) 0, p.getD (p.length - 2) 0)).isSome = true

theorem tabsOK_empty (m : BinMdef) : TabsOK m Tabs.empty := ⟨by simp [Tabs.empty], by simp [Tabs.empty], by simp [Tabs.empty]⟩

/-! ## `dict2pid_add_word` -/

/-- rows are never removed -/
structure Grows (t t' : Tabs) : Prop where
  l : ∀ k, (t.ldiph.lookup k).isSome = true → (t'.ldiph.lookup k).isSome = true
  s : ∀ k, (t.lrdiph.lookup k).isSome = true → (t'.lrdiph.lookup k).isSome = true
  r : ∀ k, (t.rssid.lookup k).isSome = true → (t'.rssid.lookup k).isSome = true

theorem Grows.refl (t : Tabs) : Grows t t := ⟨fun _ h => h, fun _ h => h, fun _ h => h⟩
theorem Grows.trans {a b c : Tabs} (h1 : Grows a b) (h2 : Grows b c) : Grows a c :=
  ⟨fun k h => h2.l k (h1.l k h), fun k h => h2.s k (h1.s k h), fun k h => h2.r k (h1.r k h)⟩

theorem covT_grows {t t' : Tabs} (g : Grows t t') {p : List Nat} (h : CovT t p) : CovT t' p := by
  match p, h with
  | [], _ => trivial
  | [b], h => exact g.s b h
  | b :: r :: rest, h => exact ⟨g.l _ h.1, g.r _ h.2⟩

theorem ldiphLc_ne_bad_isSome {t : Tabs} {b r l : Nat} (h : t.ldiphLc b r l ≠ bad) :
    (t.ldiph.lookup (b, r)).isSome = true := by
  unfold Tabs.ldiphLc at h
  split at h
  · next hh => rw [hh]; rfl
  · exact absurd rfl h

theorem lrdiphRc_ne_bad_isSome {t : Tabs} {b l r : Nat} (h : t.lrdiphRc b l r ≠ bad) :
    (t.lrdiph.lookup b).isSome = true := by
  unfold Tabs.lrdiphRc at h
  split at h
  · next hh => rw [hh]; rfl
  · exact absurd rfl h

theorem rssidAt_nonempty_isSome {t : Tabs} {b l : Nat} (h : (t.rssidAt b l).ssid.length ≠ 0) :
    (t.rssid.lookup (b, l)).isSome = true := by
  unfold Tabs.rssidAt at h
  split at h
  · next hh => rw [hh]; rfl
  · simp at h

theorem addL_spec {m : BinMdef} {t : Tabs} (h : TabsOK m t) (b r : Nat) :
    TabsOK m (addL m t b r) ∧ Grows t (addL m t b r) ∧ ((addL m t b r).ldiph.lookup (b, r)).isSome = true := by
  unfold addL
  split
  · refine ⟨⟨?_, h.s, h.r⟩, ⟨fun k hk => lookup_isSome_cons _ hk, fun _ hk => hk, fun _ hk => hk⟩, by simp [lookup_cons_self]⟩
    intro kv hkv
    rcases List.mem_cons.1 hkv with rfl | hkv
    · exact Or.inl rfl
    · exact h.l kv hkv
  · next hne => exact ⟨h, Grows.refl t, ldiphLc_ne_bad_isSome hne⟩

theorem addR_spec {m : BinMdef} {t : Tabs} (h : TabsOK m t) (e l : Nat) :
    TabsOK m (addR m t e l) ∧ Grows t (addR m t e l) ∧ ((addR m t e l).rssid.lookup (e, l)).isSome = true := by
  unfold addR
  split
  · refine ⟨⟨h.l, h.s, ?_⟩, ⟨fun _ hk => hk, fun _ hk => hk, fun k hk => lookup_isSome_cons _ hk⟩, by simp [lookup_cons_self]⟩
    intro kv hkv
    rcases List.mem_cons.1 hkv with rfl | hkv
    · exact Or.inl rfl
    · exact h.r kv hkv
  · next hne => exact ⟨h, Grows.refl t, rssidAt_nonempty_isSome hne⟩

theorem addS_spec {m : BinMdef} {t : Tabs} (h : TabsOK m t) (b : Nat) :
    TabsOK m (addS m t b) ∧ Grows t (addS m t b) ∧ ((addS m t b).lrdiph.lookup b).isSome = true := by
  unfold addS
  split
  · have hs : ∀ kv ∈ (b, blockSingle m b) :: t.lrdiph, ValidS m kv := by
      intro kv hkv
      rcases List.mem_cons.1 hkv with rfl | hkv
      · rfl
      · exact h.s kv hkv
    simp only
    split
    · next hf =>
      refine ⟨⟨?_, hs, h.r⟩, ⟨fun k hk => lookup_isSome_cons _ hk, fun k hk => lookup_isSome_cons _ hk, fun _ hk => hk⟩,
        by simp [lookup_cons_self]⟩
      intro kv hkv
      rcases List.mem_cons.1 hkv with rfl | hkv
      · exact Or.inr ⟨hf, rfl, rfl⟩
      · exact h.l kv hkv
    · exact ⟨⟨h.l, hs, h.r⟩, ⟨fun _ hk => hk, fun k hk => lookup_isSome_cons _ hk, fun _ hk => hk⟩, by simp [lookup_cons_self]⟩
  · next hne => exact ⟨h, Grows.refl t, lrdiphRc_ne_bad_isSome hne⟩

/-- `dict2pid_add_word`: stored rows stay valid, none is removed, and the rows of the new word are stored
(whatever the tables held before) -/
theorem addWord_spec {m : BinMdef} {t : Tabs} (h : TabsOK m t) (p : List Nat) :
    TabsOK m (addWord m t p) ∧ Grows t (addWord m t p) ∧ CovT (addWord m t p) p := by
  match p with
  | [] => exact ⟨h, Grows.refl t, trivial⟩
  | [b] => exact addS_spec h b
  | b :: r :: rest =>
    simp only [addWord, CovT]
    obtain ⟨a1, a2, a3⟩ := addL_spec h b r
    obtain ⟨b1, b2, b3⟩ := addR_spec a1 ((b :: r :: rest).getD ((b :: r :: rest).length - 1) 0)
      ((b :: r :: rest).getD ((b :: r :: rest).length - 2) 0)
    exact ⟨b1, a2.trans b2, b2.l _ a3, b3⟩

/-! ## `dict2pid_build` -/

structure BuildOK (m : BinMdef) (s : Build) : Prop where
  vl : ∀ kv ∈ s.ldiph, ValidL m kv
  vs : ∀ kv ∈ s.lrdiph, ValidS m kv
  vr : ∀ kv ∈ s.rdiph, ValidRrow m kv
  okL : ∀ k ∈ s.seenL, (s.ldiph.lookup k).isSome = true
  okR : ∀ k ∈ s.seenR, (s.rdiph.lookup k).isSome = true
  okS : ∀ b ∈ s.seenS, (s.lrdiph.lookup b).isSome = true

/-- the bits of a word with pronunciation `p` are set -/
def CovB (s : Build) (p : List Nat) : Prop :=
  match p with
  | [] => True
  | [b] => b ∈ s.seenS
  | b :: r :: _ => (b, r) ∈ s.seenL ∧ (p.getD (p.length - 1) 0, p.getD (p.length - 2) 0) ∈ s.seenR

structure GrowsB (s s' : Build) : Prop where
  l : ∀ k ∈ s.seenL, k ∈ s'.seenL
  r : ∀ k ∈ s.seenR, k ∈ s'.seenR
  s : ∀ k ∈ s.seenS, k ∈ s'.seenS

theorem GrowsB.refl (s : Build) : GrowsB s s := ⟨fun _ h => h, fun _ h => h, fun _ h => h⟩
theorem GrowsB.trans {a b c : Build} (h1 : GrowsB a b) (h2 : GrowsB b c) : GrowsB a c :=
  ⟨fun k h => h2.l k (h1.l k h), fun k h => h2.r k (h1.r k h), fun k h => h2.s k (h1.s k h)⟩

theorem covB_grows {s s' : Build} (g : GrowsB s s') {p : List Nat} (h : CovB s p) : CovB s' p := by
  match p, h with
  | [], _ => trivial
  | [b], h => exact g.s b h
  | b :: r :: rest, h => exact ⟨g.l _ h.1, g.r _ h.2⟩

theorem buildOK_init (m : BinMdef) : BuildOK m {} := ⟨by simp, by simp, by simp, by simp, by simp, by simp⟩

theorem markL_spec {m : BinMdef} {s : Build} (h : BuildOK m s) (b r : Nat) :
    BuildOK m (Build.markL m s b r) ∧ GrowsB s (Build.markL m s b r) ∧ (b, r) ∈ (Build.markL m s b r).seenL := by
  unfold Build.markL
  split
  · next hc => exact ⟨h, GrowsB.refl s, by simpa using hc⟩
  · refine ⟨⟨?_, h.vs, h.vr, ?_, h.okR, h.okS⟩, ⟨fun k hk => List.mem_cons_of_mem _ hk, fun _ hk => hk, fun _ hk => hk⟩,
      List.mem_cons_self⟩
    · intro kv hkv
      rcases List.mem_cons.1 hkv with rfl | hkv
      · exact Or.inl rfl
      · exact h.vl kv hkv
    · intro k hk
      rcases List.mem_cons.1 hk with rfl | hk
      · simp [lookup_cons_self]
      · exact lookup_isSome_cons _ (h.okL k hk)

theorem markR_spec {m : BinMdef} {s : Build} (h : BuildOK m s) (e l : Nat) :
    BuildOK m (Build.markR m s e l) ∧ GrowsB s (Build.markR m s e l) ∧ (e, l) ∈ (Build.markR m s e l).seenR := by
  unfold Build.markR
  split
  · next hc => exact ⟨h, GrowsB.refl s, by simpa using hc⟩
  · refine ⟨⟨h.vl, h.vs, ?_, h.okL, ?_, h.okS⟩, ⟨fun _ hk => hk, fun k hk => List.mem_cons_of_mem _ hk, fun _ hk => hk⟩,
      List.mem_cons_self⟩
    · intro kv hkv
      rcases List.mem_cons.1 hkv with rfl | hkv
      · exact Or.inl rfl
      · exact h.vr kv hkv
    · intro k hk
      rcases List.mem_cons.1 hk with rfl | hk
      · simp [lookup_cons_self]
      · exact lookup_isSome_cons _ (h.okR k hk)

theorem populate_spec {m : BinMdef} {s : Build} (h : BuildOK m s) (b : Nat) :
    BuildOK m (Build.populate m s b) ∧ (Build.populate m s b).seenL = s.seenL ∧
    (Build.populate m s b).seenR = s.seenR ∧ (Build.populate m s b).seenS = s.seenS ∧
    ((Build.populate m s b).lrdiph.lookup b).isSome = true := by
  unfold Build.populate
  simp only
  have h1 : BuildOK m { s with lrdiph := (b, blockSingle m b) :: s.lrdiph } := by
    refine ⟨h.vl, ?_, h.vr, h.okL, h.okR, ?_⟩
    · intro kv hkv
      rcases List.mem_cons.1 hkv with rfl | hkv
      · rfl
      · exact h.vs kv hkv
    · intro k hk; exact lookup_isSome_cons _ (h.okS k hk)
  have h2 : ∀ s1 : Build, BuildOK m s1 →
      BuildOK m (if silRowsL m = true then { s1 with ldiph := ((b, m.sil.toNat), rowSingleL m b) :: s1.ldiph } else s1) := by
    intro s1 hs1
    split
    · next hf =>
      refine ⟨?_, hs1.vs, hs1.vr, ?_, hs1.okR, hs1.okS⟩
      · intro kv hkv
        rcases List.mem_cons.1 hkv with rfl | hkv
        · exact Or.inr ⟨hf, rfl, rfl⟩
        · exact hs1.vl kv hkv
      · intro k hk; exact lookup_isSome_cons _ (hs1.okL k hk)
    · exact hs1
  have h3 : ∀ s2 : Build, BuildOK m s2 →
      BuildOK m (if silRowsR m = true then { s2 with rdiph := ((b, m.sil.toNat), rowSingleR m b) :: s2.rdiph } else s2) := by
    intro s2 hs2
    split
    · next hf =>
      refine ⟨hs2.vl, hs2.vs, ?_, hs2.okL, ?_, hs2.okS⟩
      · intro kv hkv
        rcases List.mem_cons.1 hkv with rfl | hkv
        · exact Or.inr ⟨hf, rfl, rfl⟩
        · exact hs2.vr kv hkv
      · intro k hk; exact lookup_isSome_cons _ (hs2.okR k hk)
    · exact hs2
  refine ⟨h3 _ (h2 _ h1), ?_, ?_, ?_, ?_⟩
  · split <;> split <;> rfl
  · split <;> split <;> rfl
  · split <;> split <;> rfl
  · split <;> split <;> simp [lookup_cons_self]

theorem markS_spec {m : BinMdef} {s : Build} (h : BuildOK m s) (b : Nat) :
    BuildOK m (Build.markS m s b) ∧ GrowsB s (Build.markS m s b) ∧ b ∈ (Build.markS m s b).seenS := by
  unfold Build.markS
  split
  · next hc => exact ⟨h, GrowsB.refl s, by simpa using hc⟩
  · obtain ⟨p1, p2, p3, p4, p5⟩ := populate_spec h b
    refine ⟨⟨p1.vl, p1.vs, p1.vr, p1.okL, p1.okR, ?_⟩, ⟨?_, ?_, ?_⟩, List.mem_cons_self⟩
    · intro k hk
      rcases List.mem_cons.1 hk with rfl | hk
      · exact p5
      · exact p1.okS k (p4 ▸ hk)
    · intro k hk; show k ∈ (Build.populate m s b).seenL; rw [p2]; exact hk
    · intro k hk; show k ∈ (Build.populate m s b).seenR; rw [p3]; exact hk
    · intro k hk; exact List.mem_cons_of_mem _ hk

theorem word_spec {m : BinMdef} {s : Build} (h : BuildOK m s) (p : List Nat) :
    BuildOK m (Build.word m s p) ∧ GrowsB s (Build.word m s p) ∧ CovB (Build.word m s p) p := by
  match p with
  | [] => exact ⟨h, GrowsB.refl s, trivial⟩
  | [b] => exact markS_spec h b
  | b :: r :: rest =>
    simp only [Build.word, CovB]
    obtain ⟨a1, a2, a3⟩ := markL_spec h b r
    obtain ⟨b1, b2, b3⟩ := markR_spec a1 ((b :: r :: rest).getD ((b :: r :: rest).length - 1) 0)
      ((b :: r :: rest).getD ((b :: r :: rest).length - 2) 0)
    exact ⟨b1, a2.trans b2, b2.l _ a3, b3⟩

theorem build_loop {m : BinMdef} : ∀ (ws : List Entry) (s : Build) (done : List Entry), BuildOK m s →
    (∀ e ∈ done, CovB s e.pron) →
    BuildOK m (ws.foldl (fun s e => Build.word m s e.pron) s) ∧
    ∀ e ∈ done ++ ws, CovB (ws.foldl (fun s e => Build.word m s e.pron) s) e.pron
  | [], s, done, h, hc => ⟨h, by simpa using hc⟩
  | w :: ws, s, done, h, hc => by
    obtain ⟨a1, a2, a3⟩ := word_spec h w.pron
    have := build_loop ws (Build.word m s w.pron) (done ++ [w]) a1 (by
      intro e he
      rcases List.mem_append.1 he with he | he
      · exact covB_grows a2 (hc e he)
      · have : e = w := by simpa using he
        subst this; exact a3)
    refine ⟨this.1, fun e he => this.2 e (by simpa using he)⟩

theorem finish_ok {m : BinMdef} {s : Build} (h : BuildOK m s) : TabsOK m s.finish := by
  refine ⟨h.vl, h.vs, ?_⟩
  intro kv hkv
  simp only [Build.finish] at hkv
  obtain ⟨kv0, h0, rfl⟩ := List.mem_map.1 hkv
  rcases h.vr kv0 h0 with e | ⟨f, e1, e2⟩
  · left; simp only [e]
  · right; exact ⟨f, e1, by simp only [e2]⟩

theorem finish_cov {m : BinMdef} {s : Build} (h : BuildOK m s) {p : List Nat} (hc : CovB s p) : CovT s.finish p := by
  match p, hc with
  | [], _ => trivial
  | [b], hc => exact h.okS b hc
  | b :: r :: rest, hc =>
    refine ⟨h.okL _ hc.1, ?_⟩
    simp only [Build.finish]
    rw [lookup_map_val]
    have := h.okR _ hc.2
    cases hh : List.lookup ((b :: r :: rest).getD ((b :: r :: rest).length - 1) 0,
        (b :: r :: rest).getD ((b :: r :: rest).length - 2) 0) s.rdiph with
    | none => rw [hh] at this; cases this
    | some v => rfl

/-- `dict2pid_build`: every stored row is the direct lookup and every word's rows are stored -/
theorem build_spec (m : BinMdef) (d : Dict) : TabsOK m (build m d) ∧ ∀ e ∈ d.words, CovT (build m d) e.pron := by
  obtain ⟨h1, h2⟩ := build_loop (m := m) d.words {} [] (buildOK_init m) (by simp)
  exact ⟨finish_ok h1, fun e he => finish_cov h1 (h2 e (by simpa using he))⟩

/-! ## what a search reads -/

/-- the entries a search reads for a word with pronunciation `p` through `dict2pid_lrdiph_rc`, `dict2pid_ldiph_lc`
and `dict2pid_rssid` are the direct `phone_id_nearest` + `pid2ssid` lookups for the same base phone, contexts and
word position.  While `populate_lrdiph` still stores into the silence rows (D61) the statement excludes a word whose
second (resp. second-last) phone is the silence phone. -/
def ReadsExact (m : BinMdef) (t : Tabs) (p : List Nat) : Prop :=
  match p with
  | [] => True
  | [b] => ∀ l r, l < m.nCi → r < m.nCi → t.lrdiphRc b l r = m.ssidOf b l r posSingle
  | b :: r :: _ =>
    ((silRowsL m = true → r ≠ m.sil.toNat) →
      ∀ l, l < m.nCi → t.ldiphLc b r l = m.ssidOf b l r posBegin) ∧
    ((silRowsR m = true → p.getD (p.length - 2) 0 ≠ m.sil.toNat) →
      ∀ rc, rc < m.nCi → m.ssidOf (p.getD (p.length - 1) 0) (p.getD (p.length - 2) 0) rc posEnd ≠ bad →
        (t.rssidAt (p.getD (p.length - 1) 0) (p.getD (p.length - 2) 0)).get rc =
          m.ssidOf (p.getD (p.length - 1) 0) (p.getD (p.length - 2) 0) rc posEnd)

/-- without the exclusion: a silence row holds either the word-position ids or the single-phone-word ids -/
def ReadsShape (m : BinMdef) (t : Tabs) (p : List Nat) : Prop :=
  match p with
  | [] => True
  | [_] => True
  | b :: r :: _ =>
    (∀ l, l < m.nCi → t.ldiphLc b r l = m.ssidOf b l r posBegin ∨
      (silRowsL m = true ∧ r = m.sil.toNat ∧ t.ldiphLc b r l = m.ssidOf b l r posSingle)) ∧
    (∀ rc, rc < m.nCi →
      let e := p.getD (p.length - 1) 0
      let l2 := p.getD (p.length - 2) 0
      (m.ssidOf e l2 rc posEnd ≠ bad → (t.rssidAt e l2).get rc = m.ssidOf e l2 rc posEnd) ∨
      (silRowsR m = true ∧ l2 = m.sil.toNat ∧
        (m.ssidOf e l2 rc posSingle ≠ bad → (t.rssidAt e l2).get rc = m.ssidOf e l2 rc posSingle)))

theorem rowSingleL_get (m : BinMdef) (b l : Nat) (hl : l < m.nCi) :
    (rowSingleL m b)[l]? = some (m.ssidOf b l m.sil.toNat posSingle) := by
  simp [rowSingleL, hl]

theorem rowSingleR_get (m : BinMdef) (b r : Nat) (hr : r < m.nCi) :
    (rowSingleR m b)[r]? = some (m.ssidOf b m.sil.toNat r posSingle) := by
  simp [rowSingleR, hr]

theorem ldiph_read {m : BinMdef} {t : Tabs} (h : TabsOK m t) {b r : Nat}
    (hc : (t.ldiph.lookup (b, r)).isSome = true) {l : Nat} (hl : l < m.nCi) :
    t.ldiphLc b r l = m.ssidOf b l r posBegin ∨
    (silRowsL m = true ∧ r = m.sil.toNat ∧ t.ldiphLc b r l = m.ssidOf b l r posSingle) := by
  cases hh : t.ldiph.lookup (b, r) with
  | none => rw [hh] at hc; cases hc
  | some row =>
    rcases h.l _ (lookup_mem hh) with e | ⟨f, e1, e2⟩
    · left
      simp only at e
      simp [Tabs.ldiphLc, hh, e, List.getD_eq_getElem?_getD, rowBegin_get m b r l hl]
    · right
      simp only at e1 e2
      refine ⟨f, e1, ?_⟩
      subst e1
      simp [Tabs.ldiphLc, hh, e2, List.getD_eq_getElem?_getD, rowSingleL_get m b l hl]

theorem rssid_read {m : BinMdef} {t : Tabs} (h : TabsOK m t) {e l2 : Nat}
    (hc : (t.rssid.lookup (e, l2)).isSome = true) {rc : Nat} (hr : rc < m.nCi) :
    (m.ssidOf e l2 rc posEnd ≠ bad → (t.rssidAt e l2).get rc = m.ssidOf e l2 rc posEnd) ∨
    (silRowsR m = true ∧ l2 = m.sil.toNat ∧
      (m.ssidOf e l2 rc posSingle ≠ bad → (t.rssidAt e l2).get rc = m.ssidOf e l2 rc posSingle)) := by
  cases hh : t.rssid.lookup (e, l2) with
  | none => rw [hh] at hc; cases hc
  | some x =>
    rcases h.r _ (lookup_mem hh) with e0 | ⟨f, e1, e2⟩
    · left
      intro hnb
      simp only at e0
      simp only [Tabs.rssidAt, hh, e0]
      exact compress_get (rowEnd_get m e l2 rc hr) hnb
    · right
      simp only at e1 e2
      refine ⟨f, e1, ?_⟩
      intro hnb
      simp only [Tabs.rssidAt, hh, e2]
      have := rowSingleR_get m e rc hr
      rw [← e1] at this
      exact compress_get this hnb

theorem reads_shape {m : BinMdef} {t : Tabs} (h : TabsOK m t) {p : List Nat} (hc : CovT t p) : ReadsShape m t p := by
  match p, hc with
  | [], _ => trivial
  | [b], _ => trivial
  | b :: r :: rest, hc =>
    exact ⟨fun l hl => ldiph_read h hc.1 hl, fun rc hr => rssid_read h hc.2 hr⟩

theorem reads_exact {m : BinMdef} {t : Tabs} (h : TabsOK m t) {p : List Nat} (hc : CovT t p) : ReadsExact m t p := by
  match p, hc with
  | [], _ => trivial
  | [b], hc =>
    intro l r hl hr
    cases hh : t.lrdiph.lookup b with
    | none => simp only [CovT] at hc; rw [hh] at hc; cases hc
    | some blk =>
      have e : blk = blockSingle m b := h.s _ (lookup_mem hh)
      simp only [Tabs.lrdiphRc, hh, e]
      exact blockSingle_get m b l r hl hr
  | b :: r :: rest, hc =>
    refine ⟨fun hx l hl => ?_, fun hx rc hr hnb => ?_⟩
    · rcases ldiph_read h hc.1 hl with e | ⟨f, e1, _⟩
      · exact e
      · exact absurd e1 (hx f)
    · rcases rssid_read h hc.2 hr with e | ⟨f, e1, _⟩
      · exact e hnb
      · exact absurd e1 (hx f)

end SSVerif.Dict2pid
