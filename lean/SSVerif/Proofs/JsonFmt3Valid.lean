import SSVerif.Model.JsonFmt3
import SSVerif.Proofs.JsonExact
set_option linter.unusedSimpArgs false
/-! C14 helper lemmas: validity of the line from a hypothesis about the `%.3f` arguments that actually occur in the
result (instead of `NumOK`, which speaks about every conceivable argument) -/
namespace SSVerif.Json
open SSVerif.Fmt3

theorem wf_entryFields_local (fmt : Fmt) (st dur prob : Num) (text : Option Bytes) (extra : List (Bytes × JV))
    (h1 : isJsonNumber (fmt.num st) = true) (h2 : isJsonNumber (fmt.num dur) = true)
    (h3 : isJsonNumber (fmt.num prob) = true)
    (he : wfM extra = true) : wfM (entryFields fmt st dur prob text ++ extra) = true := by
  simp [entryFields, wfM, wfV, h1, h2, h3, he]

theorem wfL_map_mem {α : Type} (f : α → JV) (l : List α) (h : ∀ a ∈ l, wfV (f a) = true) : wfL (l.map f) = true := by
  induction l with
  | nil => rfl
  | cons a t ih =>
    simp only [List.map_cons, wfL, Bool.and_eq_true]
    exact ⟨h a (by simp), ih (fun b hb => h b (by simp [hb]))⟩

theorem wf_aent (fmt : Fmt) (fr : Int) (e : AEnt) (extra : List (Bytes × JV)) (he : wfM extra = true)
    (h : ∀ a ∈ aentArgs fr e, isJsonNumber (fmt.num a) = true) : wfM (aentFields fmt fr e ++ extra) = true :=
  wf_entryFields_local fmt _ _ _ _ extra (h _ (by simp [aentArgs])) (h _ (by simp [aentArgs])) (h _ (by simp [aentArgs])) he

/-- the prescribed tree is well-formed as soon as the renderings of the arguments that occur are JSON numbers -/
theorem wf_tree_local (fmt : Fmt) (r : Result) (level : Int)
    (h : ∀ a ∈ args r level, isJsonNumber (fmt.num a) = true) : wfV (tree fmt r level) = true := by
  have hstate : ∀ e, (∀ a ∈ aentArgs r.frate e, isJsonNumber (fmt.num a) = true) → wfV (stateTree fmt r.frate e) = true := by
    intro e he
    have := wf_aent fmt r.frate e [] rfl he
    simpa [stateTree, wfV] using this
  have hphone : ∀ sa p, (∀ a ∈ phoneArgs r.frate sa p, isJsonNumber (fmt.num a) = true) →
      wfV (phoneTree fmt r.frate sa p) = true := by
    intro sa p hp
    rw [phoneTree, wfV]
    apply wf_aent fmt r.frate p.e
    · cases sa with
      | true =>
        simp only [if_true, wfM, wfV, Bool.and_true]
        apply wfL_map_mem
        intro e he
        apply hstate
        intro a ha
        apply hp
        simp only [phoneArgs, if_true, List.mem_append, List.mem_flatMap]
        exact Or.inr ⟨e, he, ha⟩
      | false => rfl
    · intro a ha; apply hp; simp only [phoneArgs, List.mem_append]; exact Or.inl ha
  have hword : ∀ sa w, (∀ a ∈ wordArgs r.frate sa w, isJsonNumber (fmt.num a) = true) →
      wfV (wordTree fmt r.frate sa w) = true := by
    intro sa w hw
    rw [wordTree, wfV]
    apply wf_aent fmt r.frate w.e
    · simp only [wfM, wfV, Bool.and_true]
      apply wfL_map_mem
      intro p hp
      apply hphone
      intro a ha
      apply hw
      simp only [wordArgs, List.mem_append, List.mem_flatMap]
      exact Or.inr ⟨p, hp, ha⟩
    · intro a ha; apply hw; simp only [wordArgs, List.mem_append]; exact Or.inl ha
  have hseg : ∀ s, (∀ a ∈ segArgs r.frate s, isJsonNumber (fmt.num a) = true) → wfV (segTree fmt r.frate s) = true := by
    intro s hs
    have := wf_entryFields_local fmt (.time s.sf r.frate) (.ratio (s.ef + 1 - s.sf) r.frate) (.prob s.prob) s.word [] 
      (hs _ (by simp [segArgs])) (hs _ (by simp [segArgs])) (hs _ (by simp [segArgs])) rfl
    simpa [segTree, wfV] using this
  rw [tree, wfV]
  apply wf_entryFields_local fmt
  · exact h _ (by simp [args])
  · exact h _ (by simp [args])
  · exact h _ (by simp [args])
  simp only [wfM, wfV, Bool.and_true]
  unfold items
  by_cases hl : level ≠ 0
  · simp only [if_pos hl]
    apply wfL_map_mem
    intro w hw
    apply hword
    intro a ha
    apply h
    simp only [args, if_pos hl, List.mem_append, List.mem_flatMap]
    exact Or.inr ⟨w, hw, ha⟩
  · simp only [if_neg hl]
    apply wfL_map_mem
    intro s hs
    apply hseg
    intro a ha
    apply h
    simp only [args, if_neg hl, List.mem_append, List.mem_flatMap]
    exact Or.inr ⟨s, hs, ha⟩

/-- validity and exact fit from well-formedness of the prescribed tree alone -/
theorem json_valid_of_wf (fmt : Fmt) (r : Result) (level : Int) (hwf : wfV (tree fmt r level) = true) (o : Out)
    (ho : resultJson fmt r level = some o) :
    o.dryOk = true ∧ o.mem.ok = true ∧ (o.mem.bytes.length : Int) = o.alloc ∧
    ((cstr o.mem.bytes).length : Int) + 1 = o.alloc ∧
    cstr o.mem.bytes = printV (tree fmt r level) ++ [10] ∧
    parseLine (cstr o.mem.bytes) = some (tree fmt r level) := by
  rw [resultJson_exact] at ho
  by_cases h : level ≠ 0 ∧ r.align = none
  · rw [if_pos h] at ho; cases ho
  · rw [if_neg h] at ho
    simp only [Option.some.injEq] at ho
    subst ho
    have hz : NZ (printV (tree fmt r level) ++ [10]) :=
      NZ.append (noNulV _ hwf) (NZ.cons (by decide) NZ.nil)
    have hc : cstr (printV (tree fmt r level) ++ [10, 0]) = printV (tree fmt r level) ++ [10] := by
      have := takeWhile_nz _ hz
      rw [List.append_assoc] at this
      exact this
    dsimp only
    rw [hc]
    refine ⟨rfl, rfl, by simp, by simp; omega, rfl, ?_⟩
    have hwf' := hwf
    rw [tree] at hwf' ⊢
    exact parseLine_print _ hwf'

end SSVerif.Json
