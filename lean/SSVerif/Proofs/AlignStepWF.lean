import SSVerif.Proofs.AlignStep
/-!
`alignStep_WFTokens`: the token stack the constrained Viterbi (`Step.run`) produces satisfies `wfTokens` whenever
the final out-score is alive.  Part 1: list lemmas, the evaluation of one HMM.
-/
namespace SSVerif.Align.Step

/-- activity window of state `k` (three states per phone) -/
def win (sf ef : Array Int) (k : Nat) : Int × Int := (sf.getD (k / 3) 0, ef.getD (k / 3) 0)

/-! ### `wfWalk` -/

theorem wfWalk_succ_iff (tokens : List (List Tok)) (w : Nat → Int × Int) (f k : Nat) :
    wfWalk tokens w (f + 1) k = true ↔
      ((w k).1 ≤ (f : Int) + 1 ∧ (f : Int) + 1 < (w k).2) ∧
      ∃ t, tokAt tokens f k = some t ∧ 0 ≤ t.id ∧ (t.id.toNat = k ∨ t.id.toNat + 1 = k) ∧
        wfWalk tokens w f t.id.toNat = true := by
  simp only [wfWalk, Bool.and_eq_true, decide_eq_true_eq]
  cases h : tokAt tokens f k with
  | none => simp
  | some t => simp [Bool.and_eq_true, Bool.or_eq_true, and_assoc]

theorem wfWalk_zero_iff (tokens : List (List Tok)) (w : Nat → Int × Int) (k : Nat) :
    wfWalk tokens w 0 k = true ↔ k = 0 ∧ ((w 0).1 ≤ 0 ∧ 0 < (w 0).2) := by
  simp [wfWalk]

theorem tokAt_append_left (rows more : List (List Tok)) (f k : Nat) (h : f < rows.length) :
    tokAt (rows ++ more) f k = tokAt rows f k := by
  simp [tokAt, List.getElem?_append_left h]

theorem wfWalk_append (rows more : List (List Tok)) (w : Nat → Int × Int) :
    ∀ (f k : Nat), f ≤ rows.length → wfWalk (rows ++ more) w f k = wfWalk rows w f k
  | 0, k, _ => by simp [wfWalk]
  | f + 1, k, h => by
    simp only [wfWalk]
    rw [tokAt_append_left rows more f k (by omega)]
    cases tokAt rows f k with
    | none => rfl
    | some t => simp only; rw [wfWalk_append rows more w f t.id.toNat (by omega)]

/-! ### indexing a row -/

theorem flatMap3_get {α β : Type} (g : α → List β) (hg : ∀ x, (g x).length = 3) :
    ∀ (l : List α) (i j : Nat), j < 3 → (l.flatMap g)[3 * i + j]? = (l[i]?).bind (fun x => (g x)[j]?)
  | [], i, j, _ => by simp
  | x :: l, 0, j, hj => by
    simp only [List.flatMap_cons, Nat.mul_zero, Nat.zero_add, List.getElem?_cons_zero, Option.bind_some]
    rw [List.getElem?_append_left (by rw [hg]; exact hj)]
  | x :: l, i + 1, j, hj => by
    simp only [List.flatMap_cons, List.getElem?_cons_succ]
    have e : 3 * (i + 1) + j = (g x).length + (3 * i + j) := by rw [hg]; omega
    rw [e, List.getElem?_append_right (by omega)]
    simp only [Nat.add_sub_cancel_left]
    exact flatMap3_get g hg l i j hj

theorem rowOf_length (f : Int) (h : Hmm) : (rowOf f h).length = 3 := by
  unfold rowOf; split <;> rfl

/-- the token of state `3i+j` in the row pushed for frame `f` -/
theorem row_get (f : Int) (hm : List Hmm) (i j : Nat) (hj : j < 3) :
    (hm.flatMap (rowOf f))[3 * i + j]? = (hm[i]?).bind (fun h => (rowOf f h)[j]?) :=
  flatMap3_get (rowOf f) (rowOf_length f) hm i j hj

theorem tokAt_last (rows : List (List Tok)) (row : List Tok) (k : Nat) :
    tokAt (rows ++ [row]) rows.length k = row[k]? := by
  simp [tokAt]

/-! ### one evaluation: where an alive score comes from -/

theorem le_maxI_left (x y : Int) : x ≤ maxI x y := by unfold maxI; split <;> omega
theorem le_maxI_right (x y : Int) : y ≤ maxI x y := by unfold maxI; split <;> omega

/-- closed forms of the fields `hmm_vit_eval_3st_lr` writes, without skip transitions -/
theorem eval3_fields (tp : Array Int) (a b c : Int) (h : Hmm) (hr : InRange tp a b c h) (hn : NoSkip3 tp)
    (h' : Hmm) (bb : Int) (he : eval3 tp a b c h = (h', bb)) :
    h'.s0 = clampW (h.s0 - a - tpAt tp 0 0) ∧
    h'.s1 = clampW (if h.s1 - b - tpAt tp 1 1 > h.s0 - a - tpAt tp 0 1 then h.s1 - b - tpAt tp 1 1 else h.s0 - a - tpAt tp 0 1) ∧
    h'.h1 = (if h.s1 - b - tpAt tp 1 1 > h.s0 - a - tpAt tp 0 1 then h.h1 else h.h0) ∧
    h'.s2 = clampW (if h.s2 - c - tpAt tp 2 2 > h.s1 - b - tpAt tp 1 2 then h.s2 - c - tpAt tp 2 2 else h.s1 - b - tpAt tp 1 2) ∧
    h'.h2 = (if h.s2 - c - tpAt tp 2 2 > h.s1 - b - tpAt tp 1 2 then h.h2 else h.h1) ∧
    h'.out = (if h.s1 - b > worst then clampW (h.s2 - c - tpAt tp 2 3) else h.out) ∧
    h'.outH = (if h.s1 - b > worst then h.h2 else h.outH) ∧
    h'.h0 = h.h0 ∧ h'.frame = h.frame ∧
    h'.s0 ≤ bb ∧ h'.s1 ≤ bb ∧ h'.s2 ≤ bb ∧ (h.s1 - b > worst → h'.out ≤ bb) := by
  obtain ⟨n02, n13⟩ := hn
  have t22 := hr.tp 2 2; have t12 := hr.tp 1 2; have t23 := hr.tp 2 3
  have hs1 := hr.s1; have hs2 := hr.s2
  have hb := hr.e1; have hc := hr.e2
  have hw : worst = -536870912 := rfl
  have hm : intMin = -2147483648 := rfl
  have f0 : ¬ (intMin > h.s2 - c - tpAt tp 2 2) := by omega
  have f1 : ¬ (intMin > h.s1 - b - tpAt tp 1 2) := by omega
  have f3 : h.s2 - c - tpAt tp 2 3 > intMin := by omega
  unfold eval3 at he
  simp only [n02, n13, Int.lt_irrefl, if_false] at he
  by_cases hA : h.s1 - b > worst
  · simp only [hA, if_true, f3, f0, f1, if_false] at he
    obtain ⟨e1, e2⟩ := Prod.mk.inj he
    subst e1; subst e2
    simp only [hA, if_true]
    refine ⟨trivial, ?_, ?_, ?_, ?_, trivial, trivial, trivial, trivial, ?_, ?_, ?_, ?_⟩
    · split <;> rfl
    · split <;> rfl
    · split <;> rfl
    · split <;> rfl
    · exact le_maxI_left _ _
    · exact Int.le_trans (le_maxI_left _ _) (le_maxI_right _ _)
    · exact Int.le_trans (le_maxI_left _ _) (Int.le_trans (le_maxI_right _ _) (le_maxI_right _ _))
    · intro _
      exact Int.le_trans (le_maxI_right _ _) (Int.le_trans (le_maxI_right _ _) (le_maxI_right _ _))
  · simp only [hA, if_false, f0, f1] at he
    obtain ⟨e1, e2⟩ := Prod.mk.inj he
    subst e1; subst e2
    simp only [hA, if_false]
    refine ⟨trivial, ?_, ?_, ?_, ?_, trivial, trivial, trivial, trivial, ?_, ?_, ?_, ?_⟩
    · split <;> rfl
    · split <;> rfl
    · split <;> rfl
    · split <;> rfl
    · exact le_maxI_left _ _
    · exact Int.le_trans (le_maxI_left _ _) (le_maxI_right _ _)
    · exact Int.le_trans (le_maxI_left _ _) (Int.le_trans (le_maxI_right _ _) (le_maxI_right _ _))
    · intro hc'; exact hc'.elim

/-! ### the invariant -/

/-- never entered: every score is `WORST_SCORE` -/
def Fresh (h : Hmm) : Prop := h.s0 = worst ∧ h.s1 = worst ∧ h.s2 = worst ∧ h.out = worst

/-- state `k` can be reached at frame `f`: `k = 0` at frame 0, otherwise its token in row `f-1` points to a state
(the same or the previous one) from which the walk down to frame 0 is well formed -/
def Reach (rows : List (List Tok)) (w : Nat → Int × Int) : Nat → Nat → Prop
  | 0, k => k = 0
  | f + 1, k => ∃ t, tokAt rows f k = some t ∧ 0 ≤ t.id ∧ (t.id.toNat = k ∨ t.id.toNat + 1 = k) ∧
      wfWalk rows w f t.id.toNat = true

theorem wfWalk_iff_reach (rows : List (List Tok)) (w : Nat → Int × Int) (f k : Nat) :
    wfWalk rows w f k = true ↔ ((w k).1 ≤ (f : Int) ∧ (f : Int) < (w k).2) ∧ Reach rows w f k := by
  cases f with
  | zero =>
    rw [wfWalk_zero_iff]
    simp only [Reach]
    constructor
    · rintro ⟨rfl, h⟩; exact ⟨by simpa using h, rfl⟩
    · rintro ⟨h, rfl⟩; exact ⟨rfl, by simpa using h⟩
  | succ f =>
    rw [wfWalk_succ_iff]
    simp only [Reach]
    push_cast
    exact Iff.rfl

/-- invariant of HMM `i` at the start of frame `f`: `rows` = the `f` token rows pushed so far, `best` = best score of
the previous frame.  An HMM is active (`frame = f`), fresh (never entered) or expired (`ef < f`). -/
structure K (sf ef : Array Int) (rows : List (List Tok)) (f : Nat) (best : Int) (i : Nat) (h : Hmm) : Prop where
  frameLe : h.frame ≤ (f : Int)
  inact : h.frame < (f : Int) → Fresh h ∨ ef.getD i 0 < (f : Int)
  lo : h.frame = (f : Int) → worst ≤ h.s0 ∧ worst ≤ h.s1 ∧ worst ≤ h.s2 ∧ worst ≤ h.out ∧ sf.getD i 0 ≤ (f : Int)
  a0 : h.frame = (f : Int) → h.s0 > worst →
    h.h0 = ((3 * i : Nat) : Int) ∧ Reach rows (win sf ef) f (3 * i) ∧ h.s0 ≥ -((f : Int) * 33022) ∧ h.s0 ≤ best
  a1 : h.frame = (f : Int) → h.s1 > worst →
    h.h1 = ((3 * i + 1 : Nat) : Int) ∧ Reach rows (win sf ef) f (3 * i + 1) ∧ h.s1 ≥ -((f : Int) * 33022) ∧ h.s1 ≤ best
  a2 : h.frame = (f : Int) → h.s2 > worst →
    h.h2 = ((3 * i + 2 : Nat) : Int) ∧ Reach rows (win sf ef) f (3 * i + 2) ∧ h.s2 ≥ -((f : Int) * 33022) ∧ h.s2 ≤ best
  ao : h.frame = (f : Int) → h.out > worst →
    h.s1 > worst ∧ h.out ≥ -((f : Int) * 33022) ∧ h.out ≤ best ∧
    ∃ f', f = f' + 1 ∧ h.outH = ((3 * i + 2 : Nat) : Int) ∧ wfWalk rows (win sf ef) f' (3 * i + 2) = true

/-- what holds for HMM `i` during frame `f` after evaluation and pruning, and still after the phone transitions:
`bst` bounds the best scores of this frame's evaluations -/
structure M (sf ef : Array Int) (rows : List (List Tok)) (f : Nat) (bst : Int) (i : Nat) (h : Hmm) : Prop where
  frameLe : h.frame ≤ (f : Int) + 1
  inact : h.frame < (f : Int) → Fresh h ∨ ef.getD i 0 < (f : Int)
  exp : h.frame = (f : Int) → ef.getD i 0 < (f : Int) + 1
  lo : h.frame = (f : Int) + 1 → worst ≤ h.s0 ∧ worst ≤ h.s1 ∧ worst ≤ h.s2 ∧ worst ≤ h.out ∧
    (f : Int) + 1 ≤ ef.getD i 0 ∧ sf.getD i 0 ≤ (f : Int) + 1
  a0 : h.frame = (f : Int) + 1 → h.s0 > worst →
    0 ≤ h.h0 ∧ (h.h0.toNat = 3 * i ∨ h.h0.toNat + 1 = 3 * i) ∧ wfWalk rows (win sf ef) f h.h0.toNat = true ∧
    h.s0 ≥ -(((f : Int) + 1) * 33022) ∧ h.s0 ≤ bst
  a1 : h.frame = (f : Int) + 1 → h.s1 > worst →
    0 ≤ h.h1 ∧ (h.h1.toNat = 3 * i + 1 ∨ h.h1.toNat + 1 = 3 * i + 1) ∧ wfWalk rows (win sf ef) f h.h1.toNat = true ∧
    h.s1 ≥ -(((f : Int) + 1) * 33022) ∧ h.s1 ≤ bst
  a2 : h.frame = (f : Int) + 1 → h.s2 > worst →
    0 ≤ h.h2 ∧ (h.h2.toNat = 3 * i + 2 ∨ h.h2.toNat + 1 = 3 * i + 2) ∧ wfWalk rows (win sf ef) f h.h2.toNat = true ∧
    h.s2 ≥ -(((f : Int) + 1) * 33022) ∧ h.s2 ≤ bst
  ao : h.frame = (f : Int) + 1 → h.out > worst →
    h.s1 > worst ∧ h.out ≥ -(((f : Int) + 1) * 33022) ∧ h.out ≤ bst ∧
    h.outH = ((3 * i + 2 : Nat) : Int) ∧ wfWalk rows (win sf ef) f (3 * i + 2) = true

/-- evaluation of HMM `i` in frame `F` (element function of `evalPhase`) -/
def ev (tps : Array (Array Int)) (sen : Array Int) (F : Int) (i : Nat) (h : Hmm) : Hmm × Int :=
  if h.frame < F then (h, worst)
  else eval3 (tps.getD i #[]) (sen.getD (3 * i) 0) (sen.getD (3 * i + 1) 0) (sen.getD (3 * i + 2) 0) h

/-- element function of `prunePhase` -/
def pr (ef : Array Int) (F : Int) (i : Nat) (h : Hmm) : Hmm :=
  if h.frame < F then h else if F + 1 > ef.getD i 0 then h else { h with frame := F + 1 }

theorem clampW_ge (x : Int) : x ≤ clampW x ∧ worst ≤ clampW x := by
  unfold clampW; split <;> omega

theorem clampW_alive (x : Int) (h : clampW x > worst) : clampW x = x ∧ x > worst := by
  unfold clampW at h ⊢
  by_cases hx : x < worst
  · simp only [hx, if_true] at h; omega
  · simp only [hx, if_false] at h ⊢; exact ⟨trivial, h⟩

/-- from the invariant at the start of frame `f` to the facts after evaluation and pruning -/
theorem m_of_k (tps : Array (Array Int)) (sf ef : Array Int) (sen : Array Int) (rows : List (List Tok)) (f : Nat)
    (best bst : Int) (i : Nat) (h : Hmm) (hK : K sf ef rows f best i h) (hok : FrameOK tps sen)
    (hB : ((f : Int) + 1) * 33022 ≤ 533000000)
    (hbst : ¬ h.frame < (f : Int) → (ev tps sen f i h).2 ≤ bst) :
    M sf ef rows f bst i (pr ef f i (ev tps sen f i h).1) := by
  have hw : worst = -536870912 := rfl
  by_cases hf : h.frame < (f : Int)
  · -- inactive: untouched
    have e1 : (ev tps sen f i h).1 = h := by unfold ev; rw [if_pos hf]
    have e2 : pr ef f i h = h := by unfold pr; rw [if_pos hf]
    rw [e1, e2]
    exact ⟨by omega, hK.inact, fun h1 => by omega, fun h1 => by omega, fun h1 => by omega, fun h1 => by omega,
      fun h1 => by omega, fun h1 => by omega⟩
  · have hfe : h.frame = (f : Int) := by have := hK.frameLe; omega
    obtain ⟨l0, l1, l2, lo', lsf⟩ := hK.lo hfe
    have hr : InRange (tps.getD i #[]) (sen.getD (3 * i) 0) (sen.getD (3 * i + 1) 0) (sen.getD (3 * i + 2) 0) h :=
      ⟨l0, l1, l2, lo', hok.sen _, hok.sen _, hok.sen _, hok.tp i⟩
    cases hev : eval3 (tps.getD i #[]) (sen.getD (3 * i) 0) (sen.getD (3 * i + 1) 0) (sen.getD (3 * i + 2) 0) h with
    | mk h' bb =>
    obtain ⟨es0, es1, eh1, es2, eh2, eout, eoutH, eh0, efr, b0, b1, b2, bo⟩ :=
      eval3_fields _ _ _ _ h hr (hok.noskip i) h' bb hev
    have e1 : ev tps sen f i h = (h', bb) := by unfold ev; rw [if_neg hf]; exact hev
    have hbb : bb ≤ bst := by have := hbst hf; rw [e1] at this; exact this
    rw [e1]
    have ha := hok.sen (3 * i); have hb := hok.sen (3 * i + 1); have hc := hok.sen (3 * i + 2)
    have t00 := hok.tp i 0 0; have t01 := hok.tp i 0 1; have t11 := hok.tp i 1 1
    have t12 := hok.tp i 1 2; have t22 := hok.tp i 2 2; have t23 := hok.tp i 2 3
    by_cases hp : (f : Int) + 1 > ef.getD i 0
    · -- not kept for the next frame
      have hf' : ¬ h'.frame < (f : Int) := by rw [efr]; exact hf
      have e2 : pr ef f i h' = h' := by unfold pr; rw [if_neg hf', if_pos hp]
      rw [e2]
      exact ⟨by omega, fun h1 => by omega, fun _ => hp, fun h1 => by omega, fun h1 => by omega, fun h1 => by omega,
        fun h1 => by omega, fun h1 => by omega⟩
    · have hf' : ¬ h'.frame < (f : Int) := by rw [efr]; exact hf
      have e2 : pr ef f i h' = { h' with frame := (f : Int) + 1 } := by unfold pr; rw [if_neg hf', if_neg hp]
      rw [e2]
      have hwin : ∀ j, j < 3 → ((win sf ef (3 * i + j)).1 ≤ (f : Int) ∧ (f : Int) < (win sf ef (3 * i + j)).2) := by
        intro j hj
        have : (3 * i + j) / 3 = i := by omega
        simp only [win, this]
        omega
      have c0 := clampW_ge (h.s0 - sen.getD (3 * i) 0 - tpAt (tps.getD i #[]) 0 0)
      refine ⟨by simp, fun h1 => by simp at h1; omega, fun h1 => by simp at h1; omega, fun _ => ?_, fun _ hal => ?_,
        fun _ hal => ?_, fun _ hal => ?_, fun _ hal => ?_⟩
      · -- lower bounds
        refine ⟨?_, ?_, ?_, ?_, by omega, by omega⟩
        · show worst ≤ h'.s0; rw [es0]; exact (clampW_ge _).2
        · show worst ≤ h'.s1; rw [es1]; exact (clampW_ge _).2
        · show worst ≤ h'.s2; rw [es2]; exact (clampW_ge _).2
        · show worst ≤ h'.out; rw [eout]; split
          · exact (clampW_ge _).2
          · exact lo'
      · -- state 0
        have hal' : h'.s0 > worst := hal
        rw [es0] at hal'
        obtain ⟨q1, q2⟩ := clampW_alive _ hal'
        obtain ⟨k1, k2, k3, k4⟩ := hK.a0 hfe (by omega)
        show 0 ≤ h'.h0 ∧ (h'.h0.toNat = 3 * i ∨ h'.h0.toNat + 1 = 3 * i) ∧ wfWalk rows (win sf ef) f h'.h0.toNat = true ∧
          h'.s0 ≥ -(((f : Int) + 1) * 33022) ∧ h'.s0 ≤ bst
        rw [eh0, k1]
        refine ⟨by omega, Or.inl (by omega), ?_, ?_, by omega⟩
        · rw [Int.toNat_natCast, wfWalk_iff_reach]; exact ⟨by simpa using hwin 0 (by omega), k2⟩
        · rw [es0, q1]; omega
      · -- state 1
        have hal' : h'.s1 > worst := hal
        rw [es1] at hal'
        obtain ⟨q1, q2⟩ := clampW_alive _ hal'
        show 0 ≤ h'.h1 ∧ (h'.h1.toNat = 3 * i + 1 ∨ h'.h1.toNat + 1 = 3 * i + 1) ∧
          wfWalk rows (win sf ef) f h'.h1.toNat = true ∧ h'.s1 ≥ -(((f : Int) + 1) * 33022) ∧ h'.s1 ≤ bst
        rw [eh1, es1, q1]
        split at q2
        · rename_i hA
          obtain ⟨k1, k2, k3, k4⟩ := hK.a1 hfe (by omega)
          simp only [hA, if_true]
          rw [k1]
          refine ⟨by omega, Or.inl (by omega), ?_, by omega, ?_⟩
          · rw [Int.toNat_natCast, wfWalk_iff_reach]; exact ⟨hwin 1 (by omega), k2⟩
          · have := b1; rw [es1, q1] at this; simp only [hA, if_true] at this; omega
        · rename_i hA
          obtain ⟨k1, k2, k3, k4⟩ := hK.a0 hfe (by omega)
          simp only [hA, if_false]
          rw [k1]
          refine ⟨by omega, Or.inr (by omega), ?_, by omega, ?_⟩
          · rw [Int.toNat_natCast, wfWalk_iff_reach]; exact ⟨by simpa using hwin 0 (by omega), k2⟩
          · have := b1; rw [es1, q1] at this; simp only [hA, if_false] at this; omega
      · -- state 2
        have hal' : h'.s2 > worst := hal
        rw [es2] at hal'
        obtain ⟨q1, q2⟩ := clampW_alive _ hal'
        show 0 ≤ h'.h2 ∧ (h'.h2.toNat = 3 * i + 2 ∨ h'.h2.toNat + 1 = 3 * i + 2) ∧
          wfWalk rows (win sf ef) f h'.h2.toNat = true ∧ h'.s2 ≥ -(((f : Int) + 1) * 33022) ∧ h'.s2 ≤ bst
        rw [eh2, es2, q1]
        split at q2
        · rename_i hA
          obtain ⟨k1, k2, k3, k4⟩ := hK.a2 hfe (by omega)
          simp only [hA, if_true]
          rw [k1]
          refine ⟨by omega, Or.inl (by omega), ?_, by omega, ?_⟩
          · rw [Int.toNat_natCast, wfWalk_iff_reach]; exact ⟨hwin 2 (by omega), k2⟩
          · have := b2; rw [es2, q1] at this; simp only [hA, if_true] at this; omega
        · rename_i hA
          obtain ⟨k1, k2, k3, k4⟩ := hK.a1 hfe (by omega)
          simp only [hA, if_false]
          rw [k1]
          refine ⟨by omega, Or.inr (by omega), ?_, by omega, ?_⟩
          · rw [Int.toNat_natCast, wfWalk_iff_reach]; exact ⟨hwin 1 (by omega), k2⟩
          · have := b2; rw [es2, q1] at this; simp only [hA, if_false] at this; omega
      · -- exit
        have hal' : h'.out > worst := hal
        show h'.s1 > worst ∧ h'.out ≥ -(((f : Int) + 1) * 33022) ∧ h'.out ≤ bst ∧
          h'.outH = ((3 * i + 2 : Nat) : Int) ∧ wfWalk rows (win sf ef) f (3 * i + 2) = true
        by_cases hU : h.s1 - sen.getD (3 * i + 1) 0 > worst
        · rw [eout] at hal'
          simp only [hU, if_true] at hal'
          obtain ⟨q1, q2⟩ := clampW_alive _ hal'
          obtain ⟨k1, k2, k3, k4⟩ := hK.a2 hfe (by omega)
          obtain ⟨j1, j2, j3, j4⟩ := hK.a1 hfe (by omega)
          have hbo := bo hU
          rw [eout] at hbo ⊢
          rw [eoutH]
          simp only [hU, if_true] at hbo ⊢
          rw [q1] at hbo ⊢
          refine ⟨?_, by omega, by omega, k1, ?_⟩
          · rw [es1]
            have := (clampW_ge (if h.s1 - sen.getD (3 * i + 1) 0 - tpAt (tps.getD i #[]) 1 1 >
                h.s0 - sen.getD (3 * i) 0 - tpAt (tps.getD i #[]) 0 1
              then h.s1 - sen.getD (3 * i + 1) 0 - tpAt (tps.getD i #[]) 1 1
              else h.s0 - sen.getD (3 * i) 0 - tpAt (tps.getD i #[]) 0 1)).1
            have hge : (if h.s1 - sen.getD (3 * i + 1) 0 - tpAt (tps.getD i #[]) 1 1 >
                h.s0 - sen.getD (3 * i) 0 - tpAt (tps.getD i #[]) 0 1
              then h.s1 - sen.getD (3 * i + 1) 0 - tpAt (tps.getD i #[]) 1 1
              else h.s0 - sen.getD (3 * i) 0 - tpAt (tps.getD i #[]) 0 1) ≥
                h.s1 - sen.getD (3 * i + 1) 0 - tpAt (tps.getD i #[]) 1 1 := by split <;> omega
            omega
          · rw [wfWalk_iff_reach]; exact ⟨hwin 2 (by omega), k2⟩
        · -- the exit score was not recomputed: it was alive before, hence state 1 was, hence it is recomputed
          exfalso
          rw [eout] at hal'
          simp only [hU, if_false] at hal'
          obtain ⟨k1, _, _, _⟩ := hK.ao hfe hal'
          obtain ⟨_, _, j3, _⟩ := hK.a1 hfe k1
          omega

/-! ### phone transitions -/

/-- `hmm_enter` from an active predecessor keeps the facts: the entered state 0 gets the exit history of the
predecessor, whose state 2 emitted frame `f` inside its window -/
theorem m_enter (sf ef : Array Int) (rows : List (List Tok)) (f : Nat) (bst : Int) (i : Nat) (nh p : Hmm)
    (hi : 1 ≤ i) (hmono : ef.getD (i - 1) 0 ≤ ef.getD i 0)
    (hn : M sf ef rows f bst i nh) (hp : M sf ef rows f bst (i - 1) p)
    (c1 : p.frame = (f : Int) + 1) (c2 : ¬ ((f : Int) + 1 < sf.getD i 0)) :
    M sf ef rows f bst i { nh with s0 := p.out, h0 := p.outH, frame := (f : Int) + 1 } := by
  have hw : worst = -536870912 := rfl
  obtain ⟨p0, p1, p2, po, pef, psf⟩ := hp.lo c1
  have hef : (f : Int) + 1 ≤ ef.getD i 0 := by omega
  -- the entered HMM is fresh or already active for the next frame
  have hcase : Fresh nh ∨ nh.frame = (f : Int) + 1 := by
    have h1 := hn.frameLe
    by_cases a : nh.frame < (f : Int)
    · rcases hn.inact a with h2 | h2
      · exact Or.inl h2
      · omega
    · by_cases b : nh.frame = (f : Int)
      · have := hn.exp b; omega
      · right; omega
  refine ⟨by simp, fun h1 => by simp at h1; omega, fun h1 => by simp at h1; omega, fun _ => ?_, fun _ hal => ?_,
    fun _ hal => ?_, fun _ hal => ?_, fun _ hal => ?_⟩
  · show worst ≤ p.out ∧ worst ≤ nh.s1 ∧ worst ≤ nh.s2 ∧ worst ≤ nh.out ∧ (f : Int) + 1 ≤ ef.getD i 0 ∧
      sf.getD i 0 ≤ (f : Int) + 1
    rcases hcase with ⟨_, f1, f2, fo⟩ | hfr
    · exact ⟨po, by omega, by omega, by omega, hef, by omega⟩
    · obtain ⟨_, n1, n2, no, _, _⟩ := hn.lo hfr
      exact ⟨po, n1, n2, no, hef, by omega⟩
  · have hal' : p.out > worst := hal
    obtain ⟨_, q2, q3, q4, q5⟩ := hp.ao c1 hal'
    show 0 ≤ p.outH ∧ (p.outH.toNat = 3 * i ∨ p.outH.toNat + 1 = 3 * i) ∧
      wfWalk rows (win sf ef) f p.outH.toNat = true ∧ p.out ≥ -(((f : Int) + 1) * 33022) ∧ p.out ≤ bst
    rw [q4]
    refine ⟨by omega, Or.inr (by omega), ?_, q2, q3⟩
    rw [Int.toNat_natCast]; exact q5
  · have hal' : nh.s1 > worst := hal
    rcases hcase with ⟨_, f1, _, _⟩ | hfr
    · omega
    · exact hn.a1 hfr hal'
  · have hal' : nh.s2 > worst := hal
    rcases hcase with ⟨_, _, f2, _⟩ | hfr
    · omega
    · exact hn.a2 hfr hal'
  · have hal' : nh.out > worst := hal
    rcases hcase with ⟨_, _, _, fo⟩ | hfr
    · omega
    · exact hn.ao hfr hal'

theorem m_trans (sf ef : Array Int) (rows : List (List Tok)) (f : Nat) (bst : Int) (N : Nat)
    (hmono : ∀ i, i + 1 < N → ef.getD i 0 ≤ ef.getD (i + 1) 0) :
    ∀ (l : List Hmm) (i : Nat) (prev : Option Hmm), i + l.length ≤ N →
    (∀ j h, l[j]? = some h → M sf ef rows f bst (i + j) h) →
    (∀ p, prev = some p → 1 ≤ i ∧ M sf ef rows f bst (i - 1) p) →
    ∀ j h', (transPhase sf f i prev l)[j]? = some h' → M sf ef rows f bst (i + j) h'
  | [], _, _, _, _, _, j, h', he => by simp [transPhase] at he
  | h :: rest, i, none, hN, hl, _, j, h', he => by
    simp only [transPhase] at he
    have hq0 := hl 0 h (by simp)
    cases j with
    | zero => simp at he; rw [← he]; exact hq0
    | succ j =>
      simp only [List.getElem?_cons_succ] at he
      have := m_trans sf ef rows f bst N hmono rest (i + 1) (some h) (by simp at hN; omega)
        (fun k x hx => by
          have := hl (k + 1) x (by simpa using hx)
          have e : i + (k + 1) = i + 1 + k := by omega
          rw [e] at this; exact this)
        (fun p hp => by cases hp; exact ⟨by omega, by simpa using hq0⟩) j h' he
      have e : i + (j + 1) = i + 1 + j := by omega
      rw [e]; exact this
  | nh :: rest, i, some p, hN, hl, hp, j, h', he => by
    obtain ⟨hi1, hpM⟩ := hp p rfl
    have hq0 : M sf ef rows f bst i nh := by simpa using hl 0 nh (by simp)
    have hmi : ef.getD (i - 1) 0 ≤ ef.getD i 0 := by
      have := hmono (i - 1) (by simp at hN; omega)
      have e : i - 1 + 1 = i := by omega
      rw [e] at this; exact this
    have hq0' : M sf ef rows f bst i (if p.frame ≠ (f : Int) + 1 then nh else if (f : Int) + 1 < sf.getD i 0 then nh
        else if nh.frame < (f : Int) ∨ p.out > nh.s0 then { nh with s0 := p.out, h0 := p.outH, frame := (f : Int) + 1 }
        else nh) := by
      split
      · exact hq0
      · rename_i c1
        split
        · exact hq0
        · rename_i c2
          split
          · exact m_enter sf ef rows f bst i nh p hi1 hmi hq0 hpM (by omega) c2
          · exact hq0
    simp only [transPhase] at he
    cases j with
    | zero => simp at he; rw [← he]; simpa using hq0'
    | succ j =>
      simp only [List.getElem?_cons_succ] at he
      have := m_trans sf ef rows f bst N hmono rest (i + 1) _ (by simp at hN; omega)
        (fun k x hx => by
          have := hl (k + 1) x (by simpa using hx)
          have e : i + (k + 1) = i + 1 + k := by omega
          rw [e] at this; exact this)
        (fun q hq => by cases hq; exact ⟨by omega, by simpa using hq0'⟩) j h' he
      have e : i + (j + 1) = i + 1 + j := by omega
      rw [e]; exact this

/-! ### renormalisation, record_transitions, one whole frame -/

theorem normalize_frame (b : Int) (h : Hmm) : (normalize b h).frame = h.frame := rfl

theorem normalize_dead (b : Int) (h : Hmm) (h0 : ¬ h.s0 > worst) (h1 : ¬ h.s1 > worst) (h2 : ¬ h.s2 > worst)
    (ho : ¬ h.out > worst) : normalize b h = h := by
  cases h
  simp only [normalize] at *
  simp [h0, h1, h2, ho]

/-- while anything is alive in an active HMM the renormalisation test cannot fire (utterances shorter than 16 140
frames); when it fires it only touches expired HMMs -/
theorem k_normalize (sf ef : Array Int) (rows : List (List Tok)) (f : Nat) (best : Int) (i : Nat) (h : Hmm)
    (hK : K sf ef rows f best i h) (hfire : best - 0x300000 < worst) (hB : ((f : Int) + 1) * 33022 ≤ 533000000) :
    K sf ef rows f best i (normalize best h) := by
  have hw : worst = -536870912 := rfl
  by_cases hf : h.frame < (f : Int)
  · rcases hK.inact hf with ⟨f0, f1, f2, fo⟩ | hexp
    · rw [normalize_dead best h (by omega) (by omega) (by omega) (by omega)]; exact hK
    · exact ⟨by rw [normalize_frame]; exact hK.frameLe, fun _ => Or.inr hexp,
        fun h1 => by rw [normalize_frame] at h1; omega, fun h1 => by rw [normalize_frame] at h1; omega,
        fun h1 => by rw [normalize_frame] at h1; omega, fun h1 => by rw [normalize_frame] at h1; omega,
        fun h1 => by rw [normalize_frame] at h1; omega⟩
  · have hfe : h.frame = (f : Int) := by have := hK.frameLe; omega
    have d0 : ¬ h.s0 > worst := fun a => by obtain ⟨_, _, k3, k4⟩ := hK.a0 hfe a; omega
    have d1 : ¬ h.s1 > worst := fun a => by obtain ⟨_, _, k3, k4⟩ := hK.a1 hfe a; omega
    have d2 : ¬ h.s2 > worst := fun a => by obtain ⟨_, _, k3, k4⟩ := hK.a2 hfe a; omega
    have dout : ¬ h.out > worst := fun a => by obtain ⟨_, k3, k4, _⟩ := hK.ao hfe a; omega
    rw [normalize_dead best h d0 d1 d2 dout]; exact hK

/-- element function of `relabel` -/
def relabelElem (F : Int) (i : Nat) (h : Hmm) : Hmm :=
  if h.frame < F then h else { h with h0 := (3 * i : Nat), h1 := (3 * i + 1 : Nat), h2 := (3 * i + 2 : Nat) }

/-- from the facts after the phases of frame `f` to the invariant at the start of frame `f+1`, with the row that
`record_transitions` pushed -/
theorem k_of_m (sf ef : Array Int) (rows : List (List Tok)) (row : List Tok) (f : Nat) (bst : Int) (i : Nat) (h : Hmm)
    (hM : M sf ef rows f bst i h) (hlen : rows.length = f)
    (hrow : ∀ j, j < 3 → tokAt (rows ++ [row]) f (3 * i + j) = (rowOf (f : Int) h)[j]?) :
    K sf ef (rows ++ [row]) (f + 1) bst i (relabelElem (f : Int) i h) := by
  have hle := hM.frameLe
  by_cases c1 : h.frame < (f : Int)
  · have e : relabelElem (f : Int) i h = h := by unfold relabelElem; rw [if_pos c1]
    rw [e]
    refine ⟨by push_cast; omega, fun _ => ?_, fun h1 => by push_cast at h1; omega, fun h1 => by push_cast at h1; omega,
      fun h1 => by push_cast at h1; omega, fun h1 => by push_cast at h1; omega, fun h1 => by push_cast at h1; omega⟩
    rcases hM.inact c1 with a | a
    · exact Or.inl a
    · right; push_cast; omega
  · have e : relabelElem (f : Int) i h =
        { h with h0 := (3 * i : Nat), h1 := (3 * i + 1 : Nat), h2 := (3 * i + 2 : Nat) } := by
      unfold relabelElem; rw [if_neg c1]
    rw [e]
    by_cases c2 : h.frame = (f : Int)
    · refine ⟨by push_cast; (try simp only); omega, fun _ => ?_, fun h1 => by push_cast at h1; (try simp only at h1); omega,
        fun h1 => by push_cast at h1; (try simp only at h1); omega, fun h1 => by push_cast at h1; (try simp only at h1); omega,
        fun h1 => by push_cast at h1; (try simp only at h1); omega, fun h1 => by push_cast at h1; (try simp only at h1); omega⟩
      right; have := hM.exp c2; push_cast; omega
    · have c3 : h.frame = (f : Int) + 1 := by omega
      obtain ⟨l0, l1, l2, lo', _, lsf⟩ := hM.lo c3
      have hr : rowOf (f : Int) h = [⟨h.h0, h.s0⟩, ⟨h.h1, h.s1⟩, ⟨h.h2, h.s2⟩] := by
        unfold rowOf; rw [if_neg c1]
      have happ : ∀ k, wfWalk (rows ++ [row]) (win sf ef) f k = wfWalk rows (win sf ef) f k :=
        fun k => wfWalk_append rows [row] (win sf ef) f k (by omega)
      refine ⟨by push_cast; (try simp only); omega, fun h1 => by push_cast at h1; (try simp only at h1); omega,
        fun _ => ⟨l0, l1, l2, lo', by push_cast; omega⟩, fun _ hal => ?_, fun _ hal => ?_, fun _ hal => ?_,
        fun _ hal => ?_⟩
      · obtain ⟨q1, q2, q3, q4, q5⟩ := hM.a0 c3 hal
        refine ⟨rfl, ?_, by push_cast; omega, q5⟩
        refine ⟨⟨h.h0, h.s0⟩, ?_, q1, by simpa using q2, by rw [happ]; exact q3⟩
        have := hrow 0 (by omega); rw [hr] at this; simpa using this
      · obtain ⟨q1, q2, q3, q4, q5⟩ := hM.a1 c3 hal
        refine ⟨rfl, ?_, by push_cast; omega, q5⟩
        refine ⟨⟨h.h1, h.s1⟩, ?_, q1, q2, by rw [happ]; exact q3⟩
        have := hrow 1 (by omega); rw [hr] at this; simpa using this
      · obtain ⟨q1, q2, q3, q4, q5⟩ := hM.a2 c3 hal
        refine ⟨rfl, ?_, by push_cast; omega, q5⟩
        refine ⟨⟨h.h2, h.s2⟩, ?_, q1, q2, by rw [happ]; exact q3⟩
        have := hrow 2 (by omega); rw [hr] at this; simpa using this
      · obtain ⟨q1, q2, q3, q4, q5⟩ := hM.ao c3 hal
        exact ⟨q1, by push_cast; omega, q3, f, rfl, q4, by rw [happ]; exact q5⟩

theorem transPhase_length (sf : Array Int) (F : Int) : ∀ (l : List Hmm) (i : Nat) (prev : Option Hmm),
    (transPhase sf F i prev l).length = l.length
  | [], _, _ => rfl
  | _ :: rest, i, none => by simp [transPhase, transPhase_length sf F rest]
  | _ :: rest, i, some _ => by simp [transPhase, transPhase_length sf F rest]

theorem foldl_max_ge : ∀ (l : List Int) (b0 : Int),
    b0 ≤ l.foldl (fun b x => if x > b then x else b) b0 ∧
    ∀ x ∈ l, x ≤ l.foldl (fun b x => if x > b then x else b) b0
  | [], b0 => ⟨Int.le_refl _, fun x hx => by simp at hx⟩
  | y :: l, b0 => by
    simp only [List.foldl_cons]
    obtain ⟨h1, h2⟩ := foldl_max_ge l (if y > b0 then y else b0)
    refine ⟨?_, ?_⟩
    · have : b0 ≤ (if y > b0 then y else b0) := by split <;> omega
      omega
    · intro x hx
      rcases List.mem_cons.1 hx with rfl | hx
      · have : x ≤ (if x > b0 then x else b0) := by split <;> omega
        omega
      · exact h2 x hx

/-- **one frame preserves the invariant** -/
theorem step_K (tps : Array (Array Int)) (sf ef : Array Int) (sen : Array Int) (rows : List (List Tok)) (f : Nat)
    (s : Search) (N : Nat) (hN : s.hmms.length ≤ N) (hmono : ∀ i, i + 1 < N → ef.getD i 0 ≤ ef.getD (i + 1) 0)
    (hlen : rows.length = f) (hok : FrameOK tps sen) (hB : ((f : Int) + 1) * 33022 ≤ 533000000)
    (hK : ∀ i h, s.hmms[i]? = some h → K sf ef rows f s.best i h) :
    (∀ i h, (step tps sf ef sen (f : Int) s).1.hmms[i]? = some h →
      K sf ef (rows ++ [(step tps sf ef sen (f : Int) s).2]) (f + 1) (step tps sf ef sen (f : Int) s).1.best i h) ∧
    (step tps sf ef sen (f : Int) s).1.hmms.length = s.hmms.length := by
  -- renormalisation
  let hm0 := if renormDue s.best then s.hmms.map (normalize s.best) else s.hmms
  have hK0 : ∀ i h, hm0[i]? = some h → K sf ef rows f s.best i h := by
    intro i h he
    by_cases hfire : renormDue s.best
    · have e : hm0 = s.hmms.map (normalize s.best) := by simp only [hm0, hfire, if_true]
      rw [e, List.getElem?_map] at he
      cases hl : s.hmms[i]? with
      | none => rw [hl] at he; simp at he
      | some a =>
        rw [hl] at he
        simp only [Option.map_some, Option.some.injEq] at he
        rw [← he]; exact k_normalize sf ef rows f s.best i a (hK i a hl) hfire.2 hB
    · have e : hm0 = s.hmms := by simp only [hm0, hfire, if_false]
      rw [e] at he; exact hK i h he
  have hlen0 : hm0.length = s.hmms.length := by
    simp only [hm0]; split <;> simp
  let bst := ((evalPhase tps sen (f : Int) hm0).map (·.2)).foldl (fun b x => if x > b then x else b) worst
  let hm1 := advance tps sf ef sen (f : Int) hm0
  have hstep : step tps sf ef sen (f : Int) s = ({ hmms := relabel (f : Int) hm1, best := bst }, hm1.flatMap (rowOf (f : Int))) := rfl
  -- evaluation and pruning, pointwise
  have hL : ∀ i h', (prunePhase ef (f : Int) ((evalPhase tps sen (f : Int) hm0).map (·.1)))[i]? = some h' →
      M sf ef rows f bst i h' := by
    intro i h' he
    unfold prunePhase at he
    rw [List.getElem?_mapIdx, List.getElem?_map] at he
    unfold evalPhase at he
    rw [List.getElem?_mapIdx] at he
    cases hl : hm0[i]? with
    | none => rw [hl] at he; simp at he
    | some a =>
      rw [hl] at he
      simp only [Option.map_some, Option.some.injEq] at he
      rw [← he]
      have hb : ¬ a.frame < (f : Int) → (ev tps sen f i a).2 ≤ bst := by
        intro _
        apply (foldl_max_ge _ worst).2
        apply List.mem_map.2
        refine ⟨ev tps sen f i a, ?_, rfl⟩
        unfold evalPhase
        apply List.mem_iff_getElem?.2
        refine ⟨i, ?_⟩
        rw [List.getElem?_mapIdx, hl]
        rfl
      exact m_of_k tps sf ef sen rows f s.best bst i a (hK0 i a hl) hok hB hb
  -- phone transitions
  have hA : ∀ i h', hm1[i]? = some h' → M sf ef rows f bst i h' := by
    intro i h' he
    have := m_trans sf ef rows f bst N hmono _ 0 none
      (by simp [prunePhase, evalPhase]; omega)
      (fun j h hj => by simpa using hL j h hj) (fun p hp => by cases hp) i h' he
    simpa using this
  have hlen1 : hm1.length = s.hmms.length := by
    simp only [hm1, advance, transPhase_length, prunePhase, evalPhase, List.length_mapIdx, List.length_map]
    exact hlen0
  rw [hstep]
  refine ⟨?_, by simp [relabel, hlen1]⟩
  intro i h he
  simp only at he ⊢
  unfold relabel at he
  rw [List.getElem?_mapIdx] at he
  cases hl : hm1[i]? with
  | none => rw [hl] at he; simp at he
  | some a =>
    rw [hl] at he
    simp only [Option.map_some, Option.some.injEq] at he
    rw [← he]
    apply k_of_m sf ef rows _ f bst i a (hA i a hl) hlen
    intro j hj
    rw [← hlen, tokAt_last, row_get _ _ _ _ hj, hl]
    rfl

/-! ### the whole second pass -/

theorem runAux_K (tps : Array (Array Int)) (sf ef : Array Int) (N : Nat)
    (hmono : ∀ i, i + 1 < N → ef.getD i 0 ≤ ef.getD (i + 1) 0) (frames : List (Array Int)) :
    ∀ (s : Search) (f : Nat) (rows : List (List Tok)) (rn : Bool),
    s.hmms.length ≤ N → rows.length = f → (∀ sen ∈ frames, FrameOK tps sen) →
    ((f + frames.length : Nat) : Int) * 33022 ≤ 533000000 →
    (∀ i h, s.hmms[i]? = some h → K sf ef rows f s.best i h) →
    (∀ i h, (runAux tps sf ef frames s f rows rn).1.hmms[i]? = some h →
      K sf ef (runAux tps sf ef frames s f rows rn).2.1 (f + frames.length)
        (runAux tps sf ef frames s f rows rn).1.best i h) ∧
    (runAux tps sf ef frames s f rows rn).2.1.length = f + frames.length ∧
    (runAux tps sf ef frames s f rows rn).1.hmms.length = s.hmms.length := by
  induction frames with
  | nil =>
    intro s f rows rn _ hl _ _ hK
    exact ⟨hK, hl, rfl⟩
  | cons sen rest ih =>
    intro s f rows rn hN hl hok hB hK
    have hB1 : ((f : Int) + 1) * 33022 ≤ 533000000 := by
      simp only [List.length_cons] at hB; push_cast at hB; omega
    obtain ⟨k1, k2⟩ := step_K tps sf ef sen rows f s N hN hmono hl (hok sen (List.mem_cons_self ..)) hB1 hK
    have e : f + (sen :: rest).length = f + 1 + rest.length := by simp only [List.length_cons]; omega
    have h := ih (step tps sf ef sen (f : Int) s).1 (f + 1)
      (rows ++ [(step tps sf ef sen (f : Int) s).2]) (rn || decide (renormDue s.best))
      (by rw [k2]; exact hN) (by simp [hl]) (fun x hx => hok x (List.mem_cons_of_mem _ hx))
      (by rw [← e]; exact hB) k1
    rw [e]
    show (∀ i h, (runAux tps sf ef rest (step tps sf ef sen (f : Int) s).1 (f + 1)
        (rows ++ [(step tps sf ef sen (f : Int) s).2]) (rn || decide (renormDue s.best))).1.hmms[i]? = some h → _) ∧ _ ∧ _
    exact ⟨h.1, h.2.1, h.2.2.trans k2⟩

theorem k_start (sf ef : Array Int) (n : Nat) (hsf : sf.getD 0 0 ≤ 0) :
    ∀ i h, (start n).hmms[i]? = some h → K sf ef [] 0 (start n).best i h := by
  intro i h he
  have hw : worst = -536870912 := rfl
  unfold start at he
  simp only [List.getElem?_map] at he
  cases hr : (List.range n)[i]? with
  | none => rw [hr] at he; simp at he
  | some k =>
    rw [hr] at he
    have hk : k = i := by
      by_cases hin : i < n
      · rw [List.getElem?_range hin] at hr; simpa using hr.symm
      · rw [List.getElem?_eq_none (by simpa using hin)] at hr; simp at hr
    subst hk
    simp only [Option.map_some, Option.some.injEq] at he
    rw [← he]
    have hb : (start n).best = 0 := rfl
    rw [hb]
    by_cases h0 : k = 0
    · subst h0
      simp only [if_true]
      refine ⟨by simp, fun h1 => by simp at h1, fun _ => ?_, fun _ _ => ?_, fun _ hal => ?_, fun _ hal => ?_,
        fun _ hal => ?_⟩
      · refine ⟨?_, ?_, ?_, ?_, by simpa using hsf⟩ <;> simp [hw]
      · exact ⟨rfl, rfl, by simp, by simp⟩
      · simp at hal
      · simp at hal
      · simp at hal
    · simp only [h0, if_false]
      refine ⟨by simp, fun _ => Or.inl ⟨rfl, rfl, rfl, rfl⟩, fun h1 => by simp at h1, fun h1 => by simp at h1,
        fun h1 => by simp at h1, fun h1 => by simp at h1, fun h1 => by simp at h1⟩

/-- **`alignStep_WFTokens`.**  The token stack produced by the constrained Viterbi satisfies `wfTokens` whenever the
final out-score is alive. -/
theorem run_wfTokens (tps : Array (Array Int)) (sf ef : Array Int) (frames : List (Array Int))
    (hok : ∀ sen ∈ frames, FrameOK tps sen) (hsf : sf.getD 0 0 ≤ 0)
    (hmono : ∀ i, i + 1 < sf.size → ef.getD i 0 ≤ ef.getD (i + 1) 0)
    (hT : (frames.length : Int) * 33022 ≤ 533000000)
    (hend : (frames.length : Int) ≤ ef.getD (sf.size - 1) 0)
    (halive : (run tps sf ef frames).2.1.score > worst) :
    wfTokens (run tps sf ef frames).1 (win sf ef) frames.length (3 * sf.size) (run tps sf ef frames).2.1 = true := by
  have hw : worst = -536870912 := rfl
  have hlenS : (start sf.size).hmms.length = sf.size := by simp [start]
  obtain ⟨k1, k2, k3⟩ := runAux_K tps sf ef sf.size hmono frames (start sf.size) 0 [] false (by rw [hlenS]; exact Nat.le_refl _) rfl hok
    (by simpa using hT) (k_start sf ef sf.size hsf)
  simp only [Nat.zero_add] at k1 k2
  have hrun : run tps sf ef frames =
      ((runAux tps sf ef frames (start sf.size) 0 [] false).2.1,
       ⟨((runAux tps sf ef frames (start sf.size) 0 [] false).1.hmms.getD (sf.size - 1) {}).outH,
        ((runAux tps sf ef frames (start sf.size) 0 [] false).1.hmms.getD (sf.size - 1) {}).out⟩,
       (runAux tps sf ef frames (start sf.size) 0 [] false).2.2) := rfl
  rw [hrun] at halive ⊢
  simp only at halive ⊢
  generalize hR : runAux tps sf ef frames (start sf.size) 0 [] false = R at *
  have hlen : R.1.hmms.length = sf.size := by rw [k3, hlenS]
  by_cases hn : sf.size = 0
  · have : R.1.hmms.getD (sf.size - 1) {} = ({} : Hmm) := by
      rw [List.getD_eq_getElem?_getD, List.getElem?_eq_none (by omega)]; rfl
    rw [this] at halive
    simp [hw] at halive
  · have hidx : sf.size - 1 < R.1.hmms.length := by omega
    have hget : R.1.hmms[sf.size - 1]? = some (R.1.hmms.getD (sf.size - 1) {}) := by
      rw [List.getD_eq_getElem?_getD, List.getElem?_eq_getElem hidx]; rfl
    generalize R.1.hmms.getD (sf.size - 1) {} = last at *
    have hK := k1 (sf.size - 1) last hget
    have hfr : last.frame = (frames.length : Int) := by
      have h1 := hK.frameLe
      by_cases a : last.frame < (frames.length : Int)
      · rcases hK.inact a with ⟨_, _, _, fo⟩ | hexp
        · omega
        · omega
      · omega
    obtain ⟨_, _, _, f', hf', hoH, hwalk⟩ := hK.ao hfr halive
    simp only [wfTokens, Bool.and_eq_true, decide_eq_true_eq]
    refine ⟨⟨⟨by omega, by omega⟩, ?_⟩, ?_⟩
    · show last.outH = ((3 * sf.size : Nat) : Int) - 1
      rw [hoH]; push_cast; omega
    · have e1 : frames.length - 1 = f' := by omega
      have e2 : 3 * sf.size - 1 = 3 * (sf.size - 1) + 2 := by omega
      rw [e1, e2]; exact hwalk

end SSVerif.Align.Step
