import SSVerif.Proofs.LatticeBuildDefs
/-! `mark_reachable` (model `markReachable`) computes the least set that contains the end node and is closed
under link predecessors; the fuel `n_nodes + 1` is enough because every node is queued at most once. -/
namespace SSVerif.Lattice
open SSVerif.Nfa
namespace BuildReach

/-- one step of the inner loop over the entry list -/
def addNew (seen : List Nat) (acc : List Nat) (p : Nat) : List Nat :=
  if seen.contains p || acc.contains p then acc else acc ++ [p]

theorem fold_spec (seen : List Nat) : ∀ (preds acc : List Nat), acc.Nodup → (∀ x ∈ acc, x ∉ seen) →
    (preds.foldl (addNew seen) acc).Nodup ∧ (∀ x ∈ preds.foldl (addNew seen) acc, x ∉ seen) ∧
    (∀ x ∈ preds.foldl (addNew seen) acc, x ∈ acc ∨ x ∈ preds) ∧
    (∀ x ∈ acc, x ∈ preds.foldl (addNew seen) acc) ∧
    (∀ p ∈ preds, p ∈ seen ∨ p ∈ preds.foldl (addNew seen) acc) := by
  intro preds
  induction preds with
  | nil => intro acc h1 h2; simp [h1]; exact h2
  | cons p ps ih =>
    intro acc h1 h2
    simp only [List.foldl_cons]
    by_cases hc : (seen.contains p || acc.contains p) = true
    · have : addNew seen acc p = acc := by unfold addNew; rw [if_pos hc]
      rw [this]
      obtain ⟨a, b, c, d, e⟩ := ih acc h1 h2
      refine ⟨a, b, ?_, d, ?_⟩
      · intro x hx; rcases c x hx with h | h
        · exact Or.inl h
        · exact Or.inr (List.mem_cons_of_mem _ h)
      · intro q hq
        rcases List.mem_cons.1 hq with rfl | hq
        · simp only [Bool.or_eq_true, List.contains_iff_mem] at hc
          rcases hc with hc | hc
          · exact Or.inl hc
          · exact Or.inr (d _ hc)
        · exact e q hq
    · have hn : addNew seen acc p = acc ++ [p] := by unfold addNew; rw [if_neg hc]
      rw [hn]
      simp only [Bool.or_eq_true, List.contains_iff_mem, not_or] at hc
      have h1' : (acc ++ [p]).Nodup := by
        rw [List.nodup_append]
        refine ⟨h1, by simp, ?_⟩
        intro a ha b hb
        simp only [List.mem_singleton] at hb
        subst hb
        intro hab; subst hab; exact hc.2 ha
      have h2' : ∀ x ∈ acc ++ [p], x ∉ seen := by
        intro x hx
        rcases List.mem_append.1 hx with h | h
        · exact h2 x h
        · simp only [List.mem_singleton] at h; subst h; exact hc.1
      obtain ⟨a, b, c, d, e⟩ := ih (acc ++ [p]) h1' h2'
      refine ⟨a, b, ?_, ?_, ?_⟩
      · intro x hx; rcases c x hx with h | h
        · rcases List.mem_append.1 h with h | h
          · exact Or.inl h
          · simp only [List.mem_singleton] at h; subst h; exact Or.inr (List.mem_cons_self)
        · exact Or.inr (List.mem_cons_of_mem _ h)
      · intro x hx; exact d x (List.mem_append_left _ hx)
      · intro q hq
        rcases List.mem_cons.1 hq with rfl | hq
        · exact Or.inr (d _ (List.mem_append_right _ (by simp)))
        · exact e q hq

/-- the predecessors of `v` -/
def preds (b : Build) (v : Nat) : List Nat := (b.links.toList.filter fun l => l.dst = v).map (·.src)

theorem mem_preds {b : Build} {v p : Nat} : p ∈ preds b v ↔ ∃ l ∈ b.links.toList, l.dst = v ∧ l.src = p := by
  unfold preds
  simp only [List.mem_map, List.mem_filter, decide_eq_true_eq]
  constructor
  · rintro ⟨l, ⟨h1, h2⟩, h3⟩; exact ⟨l, h1, h2, h3⟩
  · rintro ⟨l, h1, h2, h3⟩; exact ⟨l, ⟨h1, h2⟩, h3⟩

theorem go_succ_cons (b : Build) (fuel : Nat) (seen q : List Nat) (v : Nat) :
    markReachable.go b (fuel + 1) seen (v :: q) =
      markReachable.go b fuel (seen ++ (preds b v).foldl (addNew seen) [])
        (q ++ (preds b v).foldl (addNew seen) []) := by
  rw [markReachable.go]
  rfl

/-- soundness: everything marked satisfies any predicate that holds of the end node and is inherited by
predecessors -/
theorem go_sound (b : Build) (P : Nat → Prop) (hP : ∀ l ∈ b.links.toList, P l.dst → P l.src) :
    ∀ (fuel : Nat) (seen queue : List Nat), (∀ v ∈ queue, v ∈ seen) → (∀ v ∈ seen, P v) →
      ∀ v ∈ markReachable.go b fuel seen queue, P v := by
  intro fuel
  induction fuel with
  | zero => intro seen queue _ h2; rw [markReachable.go]; exact h2
  | succ fuel ih =>
    intro seen queue h1 h2
    cases queue with
    | nil => rw [markReachable.go]; exact h2
    | cons v q =>
      rw [go_succ_cons]
      obtain ⟨_, _, c, _, _⟩ := fold_spec seen (preds b v) [] (by simp) (by simp)
      apply ih
      · intro x hx
        rcases List.mem_append.1 hx with h | h
        · exact List.mem_append_left _ (h1 x (List.mem_cons_of_mem _ h))
        · exact List.mem_append_right _ h
      · intro x hx
        rcases List.mem_append.1 hx with h | h
        · exact h2 x h
        · rcases c x h with h | h
          · cases h
          · obtain ⟨l, hl, hd, hs⟩ := mem_preds.1 h
            have := hP l hl (by rw [hd]; exact h2 v (h1 v List.mem_cons_self))
            rw [hs] at this; exact this

/-- completeness with the fuel bound -/
theorem go_closed (b : Build) (f : Nat) (hl : ∀ l ∈ b.links.toList, l.src < b.nodes.size) :
    ∀ (fuel : Nat) (seen queue : List Nat), seen.Nodup → (∀ v ∈ seen, v < b.nodes.size) →
      (∀ v ∈ queue, v ∈ seen) → f ∈ seen →
      (∀ l ∈ b.links.toList, l.dst ∈ seen → l.dst ∉ queue → l.src ∈ seen) →
      (b.nodes.size - seen.length) + queue.length + 1 ≤ fuel →
      f ∈ markReachable.go b fuel seen queue ∧
      ∀ l ∈ b.links.toList, l.dst ∈ markReachable.go b fuel seen queue → l.src ∈ markReachable.go b fuel seen queue := by
  intro fuel
  induction fuel with
  | zero => intro seen queue _ _ _ _ _ h; omega
  | succ fuel ih =>
    intro seen queue hnd hlt hq hf hcl hfuel
    cases queue with
    | nil =>
      rw [markReachable.go]
      exact ⟨hf, fun l hl' hd => hcl l hl' hd (by simp)⟩
    | cons v q =>
      rw [go_succ_cons]
      obtain ⟨a, bb, c, _, e⟩ := fold_spec seen (preds b v) [] (by simp) (by simp)
      have hnew_lt : ∀ x ∈ (preds b v).foldl (addNew seen) [], x < b.nodes.size := by
        intro x hx
        rcases c x hx with h | h
        · cases h
        · obtain ⟨l, hl', _, hs⟩ := mem_preds.1 h
          rw [← hs]; exact hl l hl'
      have hnd' : (seen ++ (preds b v).foldl (addNew seen) []).Nodup := by
        rw [List.nodup_append]
        refine ⟨hnd, a, ?_⟩
        intro x hx y hy hxy
        subst hxy
        exact bb x hy hx
      have hlt' : ∀ x ∈ seen ++ (preds b v).foldl (addNew seen) [], x < b.nodes.size := by
        intro x hx
        rcases List.mem_append.1 hx with h | h
        · exact hlt x h
        · exact hnew_lt x h
      have hlen : (seen ++ (preds b v).foldl (addNew seen) []).length ≤ b.nodes.size := by
        have := List.Nodup.length_le_of_subset hnd' (l₂ := List.range b.nodes.size)
          (fun x hx => List.mem_range.2 (hlt' x hx))
        simpa using this
      apply ih _ _ hnd' hlt'
      · intro x hx
        rcases List.mem_append.1 hx with h | h
        · exact List.mem_append_left _ (hq x (List.mem_cons_of_mem _ h))
        · exact List.mem_append_right _ h
      · exact List.mem_append_left _ hf
      · intro l hl' hd hnq
        have hnq1 : l.dst ∉ q := fun h => hnq (List.mem_append_left _ h)
        have hnq2 : l.dst ∉ (preds b v).foldl (addNew seen) [] := fun h => hnq (List.mem_append_right _ h)
        rcases List.mem_append.1 hd with h | h
        · by_cases hv : l.dst = v
          · have : l.src ∈ preds b v := mem_preds.2 ⟨l, hl', hv, rfl⟩
            rcases e _ this with h' | h'
            · exact List.mem_append_left _ h'
            · exact List.mem_append_right _ h'
          · apply List.mem_append_left
            apply hcl l hl' h
            intro hm
            rcases List.mem_cons.1 hm with h' | h'
            · exact hv h'
            · exact hnq1 h'
        · exact absurd h hnq2
      · simp only [List.length_append, List.length_cons] at hlen hfuel ⊢
        omega

end BuildReach

/-- `mark_reachable` computes the least set containing the end node and closed under link predecessors
(the fuel `n_nodes + 1` suffices: every node is queued at most once) -/
theorem markReachable_spec (b : Build) (f : Nat) (hf : f < b.nodes.size)
    (hl : ∀ l ∈ b.links.toList, l.src < b.nodes.size) : KeepSpec b f (markReachable b f) := by
  unfold markReachable
  have h := BuildReach.go_closed b f hl (b.nodes.size + 1) [f] [f] (by simp)
    (by intro v hv; simp at hv; subst hv; exact hf) (by simp) (by simp)
    (by intro l _ h1 h2; exact absurd h1 h2) (by simp; omega)
  refine ⟨h.1, h.2, ?_⟩
  intro P hPf hP v hv
  exact BuildReach.go_sound b P hP _ [f] [f] (by simp) (by intro x hx; simp at hx; subst hx; exact hPf) v hv

end SSVerif.Lattice
