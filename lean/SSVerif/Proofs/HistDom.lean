import SSVerif.Model.HistDom
import SSVerif.Proofs.Viterbi
/-! The domination rule of `fsg_history_entry_add` is lossless. Core Lean only. -/
namespace SSVerif.HistDom
open SSVerif.Viterbi

theorem omax_assoc (a b c : Option Int) : omax (omax a b) c = omax a (omax b c) := by
  cases a <;> cases b <;> cases c <;> simp [omax, Int.max_assoc]

theorem omax_comm (a b : Option Int) : omax a b = omax b a := by
  cases a <;> cases b <;> simp [omax, Int.max_comm]

theorem omax_absorb {a b : Option Int} (h : ole b a) : omax a b = a := by
  cases a <;> cases b <;> simp_all [omax, ole] <;> omega

theorem foldl_omax_acc (l : List (Option Int)) : ∀ a, l.foldl omax a = omax a (l.foldl omax none) := by
  induction l with
  | nil => intro a; simp
  | cons x xs ih =>
    intro a
    rw [List.foldl_cons, List.foldl_cons, ih (omax a x), ih (omax none x), omax_none_left, omax_assoc]

theorem best_cons (x : Option Int) (xs : List (Option Int)) : best (x :: xs) = omax x (best xs) := by
  unfold best
  rw [List.foldl_cons, foldl_omax_acc, omax_none_left]

theorem bestFor_nil (r : Nat) : bestFor r [] = none := rfl

theorem bestFor_cons (r : Nat) (e : Entry) (es : List Entry) :
    bestFor r (e :: es) = omax (cand r e) (bestFor r es) := by
  unfold bestFor; rw [List.map_cons, best_cons]

theorem mem_ctxtSub {r : Nat} {a b : List Nat} : r ∈ ctxtSub a b ↔ r ∈ a ∧ r ∉ b := by
  unfold ctxtSub; simp [List.mem_filter]

/-- every score in `l` is below `s` -/
def Below (s : Int) (l : List Entry) : Prop := ∀ e ∈ l, e.score < s

theorem bestFor_below {s : Int} {l : List Entry} (h : Below s l) (r : Nat) :
    omax (bestFor r l) (some s) = some s := by
  induction l with
  | nil => rfl
  | cons e es ih =>
    have he : e.score < s := h e List.mem_cons_self
    have ih' := ih (fun x hx => h x (List.mem_cons_of_mem _ hx))
    rw [bestFor_cons, omax_assoc, ih']
    unfold cand
    split
    · simp only [omax]; congr 1; omega
    · rfl

theorem bestFor_prune (rc : List Nat) (r : Nat) : ∀ l : List Entry,
    bestFor r (prune rc l) = if r ∈ rc then none else bestFor r l := by
  intro l
  induction l with
  | nil => simp [prune, bestFor_nil]
  | cons e es ih =>
    have key : cand r { e with rc := ctxtSub e.rc rc } = if r ∈ rc then none else cand r e := by
      unfold cand
      simp only [mem_ctxtSub]
      by_cases h1 : r ∈ rc <;> by_cases h2 : r ∈ e.rc <;> simp [h1, h2]
    simp only [prune]
    split
    · rename_i hemp
      have hnil : ctxtSub e.rc rc = [] := by simpa using hemp
      rw [ih, bestFor_cons]
      have : cand r e = if r ∈ rc then cand r e else none := by
        by_cases h1 : r ∈ rc
        · simp [h1]
        · simp only [h1, if_false]
          unfold cand
          split
          · rename_i h2
            have : r ∈ ctxtSub e.rc rc := mem_ctxtSub.mpr ⟨h2, h1⟩
            rw [hnil] at this; cases this
          · rfl
      by_cases h1 : r ∈ rc
      · simp [h1]
      · simp only [h1, if_false] at this ⊢
        rw [this, omax_none_left]
    · rw [bestFor_cons, key, ih, bestFor_cons]
      by_cases h1 : r ∈ rc <;> simp [h1]

theorem sorted_below {e : Entry} {es : List Entry} (hs : Sorted (e :: es)) {s : Int} (h : s > e.score) :
    Below s (e :: es) := by
  intro x hx
  rcases List.mem_cons.mp hx with hx | hx
  · subst hx; omega
  · have := (List.pairwise_cons.mp hs).1 x hx
    omega

/-- the core invariant of the insertion, for every right-context phone -/
theorem addGo_spec : ∀ (l : List Entry) (new : Entry), Sorted l →
    match addGo new l with
    | none => ∀ r, r ∈ new.rc → ole (some new.score) (bestFor r l)
    | some l' => ∀ r, bestFor r l' = omax (bestFor r l) (cand r new) := by
  intro l
  induction l with
  | nil =>
    intro new _
    simp only [addGo]
    intro r
    simp [bestFor_cons, bestFor_nil]
  | cons e es ih =>
    intro new hs
    by_cases hgt : new.score > e.score
    · -- strictly better than e: insert here, prune the rest
      simp only [addGo, hgt, if_true]
      intro r
      have hb := sorted_below hs hgt
      rw [bestFor_cons, bestFor_prune]
      unfold cand
      by_cases hr : r ∈ new.rc
      · simp only [hr, if_true, omax_none_right]
        exact (bestFor_below hb r).symm
      · simp only [hr, if_false, omax_none_left, omax_none_right]
    · have hle' : new.score ≤ e.score := by omega
      have hs' : Sorted es := (List.pairwise_cons.mp hs).2
      by_cases hemp : (ctxtSub new.rc e.rc).isEmpty = true
      · -- the whole set is covered by e and the better ones: dropped
        simp only [addGo, hgt, if_false, hemp, if_true]
        have hnil : ctxtSub new.rc e.rc = [] := by simpa using hemp
        intro r hr
        have hre : r ∈ e.rc := by
          by_cases h : r ∈ e.rc
          · exact h
          · have : r ∈ ctxtSub new.rc e.rc := mem_ctxtSub.mpr ⟨hr, h⟩
            rw [hnil] at this; cases this
        rw [bestFor_cons]
        refine ole_trans ?_ (ole_omax_left _ _)
        unfold cand; simp [hre, ole]; exact hle'
      · have IH := ih { new with rc := ctxtSub new.rc e.rc } hs'
        simp only [addGo, hgt, if_false, hemp]
        cases hrec : addGo { new with rc := ctxtSub new.rc e.rc } es with
        | none =>
          rw [hrec] at IH
          simp only [Option.map_none]
          intro r hr
          rw [bestFor_cons]
          by_cases h : r ∈ e.rc
          · refine ole_trans ?_ (ole_omax_left _ _)
            unfold cand; simp [h, ole]; exact hle'
          · exact ole_trans (IH r (mem_ctxtSub.mpr ⟨hr, h⟩)) (ole_omax_right _ _)
        | some l' =>
          rw [hrec] at IH
          simp only [Option.map_some]
          intro r
          rw [bestFor_cons, IH r, bestFor_cons]
          by_cases h : r ∈ e.rc
          · have c1 : cand r { new with rc := ctxtSub new.rc e.rc } = none := by
              unfold cand; simp [mem_ctxtSub, h]
            have c2 : cand r e = some e.score := by unfold cand; simp [h]
            rw [c1, omax_none_right]
            have : ole (cand r new) (omax (cand r e) (bestFor r es)) := by
              refine ole_trans ?_ (ole_omax_left _ _)
              rw [c2]; unfold cand; split
              · simp [ole]; exact hle'
              · simp [ole]
            rw [omax_absorb this]
          · have c1 : cand r { new with rc := ctxtSub new.rc e.rc } = cand r new := by
              unfold cand; simp [mem_ctxtSub, h]
            rw [c1, omax_assoc]

theorem prune_sorted (rc : List Nat) : ∀ l : List Entry, Sorted l → Sorted (prune rc l) ∧
    (∀ x ∈ prune rc l, ∃ y ∈ l, x.score = y.score ∧ x.tag = y.tag ∧ ∀ r ∈ x.rc, r ∈ y.rc) := by
  intro l
  induction l with
  | nil => intro _; exact ⟨List.Pairwise.nil, by intro x hx; cases hx⟩
  | cons e es ih =>
    intro hs
    obtain ⟨h1, h2⟩ := List.pairwise_cons.mp hs
    obtain ⟨i1, i2⟩ := ih h2
    simp only [prune]
    split
    · exact ⟨i1, fun x hx => by
        obtain ⟨y, hy, h⟩ := i2 x hx
        exact ⟨y, List.mem_cons_of_mem _ hy, h⟩⟩
    · refine ⟨List.pairwise_cons.mpr ⟨?_, i1⟩, ?_⟩
      · intro x hx
        obtain ⟨y, hy, hsc, _⟩ := i2 x hx
        have := h1 y hy
        show e.score ≥ x.score
        omega
      · intro x hx
        rcases List.mem_cons.mp hx with hx | hx
        · subst hx
          exact ⟨e, List.mem_cons_self, rfl, rfl, fun r hr => (mem_ctxtSub.mp hr).1⟩
        · obtain ⟨y, hy, h⟩ := i2 x hx
          exact ⟨y, List.mem_cons_of_mem _ hy, h⟩

/-- the list stays sorted, and every entry of the result is an old entry or the new one with a
possibly smaller right-context set (nothing is invented) -/
theorem addGo_sorted : ∀ (l : List Entry) (new : Entry), Sorted l → ∀ l', addGo new l = some l' →
    Sorted l' ∧ ∀ x ∈ l', ∃ y ∈ new :: l, x.score = y.score ∧ x.tag = y.tag ∧ ∀ r ∈ x.rc, r ∈ y.rc := by
  intro l
  induction l with
  | nil =>
    intro new _ l' h
    simp only [addGo, Option.some.injEq] at h
    subst h
    exact ⟨List.pairwise_singleton _ _, fun x hx => ⟨new, List.mem_cons_self, by
      rcases List.mem_singleton.mp hx with rfl; exact ⟨rfl, rfl, fun r hr => hr⟩⟩⟩
  | cons e es ih =>
    intro new hs l' h
    simp only [addGo] at h
    split at h
    · rename_i hgt
      simp only [Option.some.injEq] at h
      subst h
      obtain ⟨p1, p2⟩ := prune_sorted new.rc (e :: es) hs
      have hb := sorted_below hs hgt
      refine ⟨List.pairwise_cons.mpr ⟨?_, p1⟩, ?_⟩
      · intro x hx
        obtain ⟨y, hy, hsc, _⟩ := p2 x hx
        have := hb y hy
        show new.score ≥ x.score
        omega
      · intro x hx
        rcases List.mem_cons.mp hx with hx | hx
        · subst hx; exact ⟨x, List.mem_cons_self, rfl, rfl, fun r hr => hr⟩
        · obtain ⟨y, hy, h⟩ := p2 x hx
          exact ⟨y, List.mem_cons_of_mem _ hy, h⟩
    · rename_i hle
      split at h
      · cases h
      · obtain ⟨h1, h2⟩ := List.pairwise_cons.mp hs
        cases hrec : addGo { new with rc := ctxtSub new.rc e.rc } es with
        | none => rw [hrec] at h; cases h
        | some l'' =>
          rw [hrec] at h
          simp only [Option.map_some, Option.some.injEq] at h
          subst h
          obtain ⟨i1, i2⟩ := ih _ h2 l'' hrec
          refine ⟨List.pairwise_cons.mpr ⟨?_, i1⟩, ?_⟩
          · intro x hx
            obtain ⟨y, hy, hsc, _⟩ := i2 x hx
            rcases List.mem_cons.mp hy with hy | hy
            · subst hy; show e.score ≥ x.score; simp only at hsc; omega
            · have := h1 y hy; show e.score ≥ x.score; omega
          · intro x hx
            rcases List.mem_cons.mp hx with hx | hx
            · subst hx; exact ⟨x, List.mem_cons_of_mem _ List.mem_cons_self, rfl, rfl, fun r hr => hr⟩
            · obtain ⟨y, hy, hsc, htag, hrc⟩ := i2 x hx
              rcases List.mem_cons.mp hy with hy | hy
              · subst hy
                exact ⟨new, List.mem_cons_self, hsc, htag, fun r hr => (mem_ctxtSub.mp (hrc r hr)).1⟩
              · exact ⟨y, List.mem_cons_of_mem _ (List.mem_cons_of_mem _ hy), hsc, htag, hrc⟩

end SSVerif.HistDom
