import SSVerif.Proofs.AlignStepWF
/-!
Viterbi optimality of the constrained search of the aligner (`Step.run`): the final out-score is the best score of
a monotone state path inside the activity windows.  Part 1: paths, the phone-transition phase pointwise, one
evaluation.
-/
namespace SSVerif.Align.Step

/-! ### admissible paths and their scores -/

/-- frame `f` lies in the activity window of the phone of state `k` -/
def InWin (sf ef : Array Int) (f k : Nat) : Prop := sf.getD (k / 3) 0 ≤ (f : Int) ∧ (f : Int) < ef.getD (k / 3) 0

/-- transition cost (a non-negative `uint8`) from state `a` to state `b` of the phone of state `k` -/
def tpOf (tps : Array (Array Int)) (k a b : Nat) : Int := tpAt (tps.getD (k / 3) #[]) a b

/-- senone score of state `k` in frame `f` -/
def senAt (sens : Nat → Array Int) (f k : Nat) : Int := (sens f).getD k 0

/-- `PathTo f k sc`: a state path that occupies frames `0 .. f-1`, every frame inside the window of the phone that
occupies it, moving by at most one state per frame, entering a phone not before its `sf`, and is ready to occupy
state `k` in frame `f`; `sc` = sum of `-senone score` of the occupied states and `-transition cost` of the moves
(the exit transition `2→3` when the phone changes). `n` = number of phones. -/
inductive PathTo (tps : Array (Array Int)) (sf ef : Array Int) (sens : Nat → Array Int) (n : Nat) : Nat → Nat → Int → Prop
  | start : PathTo tps sf ef sens n 0 0 0
  | self {f k sc} : PathTo tps sf ef sens n f k sc → InWin sf ef f k →
      PathTo tps sf ef sens n (f + 1) k (sc - senAt sens f k - tpOf tps k (k % 3) (k % 3))
  | next {f k sc} : PathTo tps sf ef sens n f k sc → InWin sf ef f k → k % 3 < 2 →
      PathTo tps sf ef sens n (f + 1) (k + 1) (sc - senAt sens f k - tpOf tps k (k % 3) (k % 3 + 1))
  | cross {f k sc} : PathTo tps sf ef sens n f k sc → InWin sf ef f k → k % 3 = 2 → (k + 1) / 3 < n →
      sf.getD ((k + 1) / 3) 0 ≤ (f : Int) + 1 →
      PathTo tps sf ef sens n (f + 1) (k + 1) (sc - senAt sens f k - tpOf tps k 2 3)

/-- a complete path over `T` frames that leaves the last state after frame `T-1` -/
def FullPath (tps : Array (Array Int)) (sf ef : Array Int) (sens : Nat → Array Int) (n T : Nat) (sc : Int) : Prop :=
  ∃ f sc0, T = f + 1 ∧ 1 ≤ n ∧ PathTo tps sf ef sens n f (3 * (n - 1) + 2) sc0 ∧ InWin sf ef f (3 * (n - 1) + 2) ∧
    sc = sc0 - senAt sens f (3 * (n - 1) + 2) - tpOf tps (3 * (n - 1) + 2) 2 3

/-- data ranges for all frames -/
def AllOK (tps : Array (Array Int)) (sens : Nat → Array Int) : Prop := ∀ f, FrameOK tps (sens f)

theorem path_bound (tps : Array (Array Int)) (sf ef : Array Int) (sens : Nat → Array Int) (n : Nat)
    (hok : AllOK tps sens) : ∀ f k sc, PathTo tps sf ef sens n f k sc → sc ≥ -((f : Int) * 33022) := by
  intro f k sc h
  induction h with
  | start => simp
  | @self f k sc hp hw ih =>
    have a := (hok f).sen k
    have b := (hok f).tp (k / 3) (k % 3) (k % 3)
    simp only [senAt, tpOf]; push_cast; omega
  | @next f k sc hp hw hj ih =>
    have a := (hok f).sen k
    have b := (hok f).tp (k / 3) (k % 3) (k % 3 + 1)
    simp only [senAt, tpOf]; push_cast; omega
  | @cross f k sc hp hw hj hn hs ih =>
    have a := (hok f).sen k
    have b := (hok f).tp (k / 3) 2 3
    simp only [senAt, tpOf]; push_cast; omega

theorem path_state_lt (tps : Array (Array Int)) (sf ef : Array Int) (sens : Nat → Array Int) (n : Nat) (hn : 1 ≤ n) :
    ∀ f k sc, PathTo tps sf ef sens n f k sc → k < 3 * n := by
  intro f k sc h
  induction h with
  | start => omega
  | self _ _ ih => exact ih
  | next _ _ hj ih => omega
  | cross _ _ _ hlt _ _ => omega

/-! ### the phone-transition phase, pointwise -/

/-- `phone_transition` for one HMM given its (already updated) predecessor -/
def tr (sf : Array Int) (F : Int) (i : Nat) (prev : Option Hmm) (nh : Hmm) : Hmm :=
  match prev with
  | none => nh
  | some p =>
    if p.frame ≠ F + 1 then nh
    else if F + 1 < sf.getD i 0 then nh
    else if nh.frame < F ∨ p.out > nh.s0 then { nh with s0 := p.out, h0 := p.outH, frame := F + 1 }
    else nh

theorem transPhase_cons (sf : Array Int) (F : Int) (i : Nat) (prev : Option Hmm) (nh : Hmm) (rest : List Hmm) :
    transPhase sf F i prev (nh :: rest) =
      tr sf F i prev nh :: transPhase sf F (i + 1) (some (tr sf F i prev nh)) rest := by
  cases prev <;> rfl

/-- element `j` of the result is `tr` of element `j` of the input and element `j-1` of the result -/
theorem trans_get (sf : Array Int) (F : Int) : ∀ (l : List Hmm) (i : Nat) (prev : Option Hmm) (j : Nat) (nh : Hmm),
    l[j]? = some nh →
    ∃ pv, (j = 0 → pv = prev) ∧ (∀ j', j = j' + 1 → pv = (transPhase sf F i prev l)[j']?) ∧
      (transPhase sf F i prev l)[j]? = some (tr sf F (i + j) pv nh)
  | [], _, _, j, nh, h => by simp at h
  | x :: rest, i, prev, 0, nh, h => by
    simp only [List.getElem?_cons_zero, Option.some.injEq] at h
    subst h
    exact ⟨prev, fun _ => rfl, fun j' hj => by omega, by rw [transPhase_cons]; simp⟩
  | x :: rest, i, prev, j + 1, nh, h => by
    simp only [List.getElem?_cons_succ] at h
    obtain ⟨pv, h0, h1, h2⟩ := trans_get sf F rest (i + 1) (some (tr sf F i prev x)) j nh h
    refine ⟨pv, fun hj => by omega, ?_, ?_⟩
    · intro j' hj
      have : j' = j := by omega
      subst this
      rw [transPhase_cons]
      cases j' with
      | zero => simp [h0 rfl]
      | succ j'' => simp only [List.getElem?_cons_succ]; exact h1 j'' rfl
    · rw [transPhase_cons, List.getElem?_cons_succ, h2]
      have : i + 1 + j = i + (j + 1) := by omega
      rw [this]

/-! ### one evaluation, scores only -/

theorem clampW_le (x : Int) : x ≤ clampW x := (clampW_ge x).1

theorem ite_gt_ge (x y : Int) : (if x > y then x else y) ≥ x ∧ (if x > y then x else y) ≥ y := by
  split <;> omega

/-- lower bounds and exact decompositions of the scores `hmm_vit_eval_3st_lr` writes -/
theorem eval3_scores (tp : Array Int) (a b c : Int) (h : Hmm) (hr : InRange tp a b c h) (hn : NoSkip3 tp)
    (h' : Hmm) (bb : Int) (he : eval3 tp a b c h = (h', bb)) :
    h'.frame = h.frame ∧
    h'.s0 ≥ h.s0 - a - tpAt tp 0 0 ∧
    h'.s1 ≥ h.s1 - b - tpAt tp 1 1 ∧ h'.s1 ≥ h.s0 - a - tpAt tp 0 1 ∧
    h'.s2 ≥ h.s2 - c - tpAt tp 2 2 ∧ h'.s2 ≥ h.s1 - b - tpAt tp 1 2 ∧
    (h.s1 - b > worst → h'.out ≥ h.s2 - c - tpAt tp 2 3) ∧
    (h'.s0 > worst → h'.s0 = h.s0 - a - tpAt tp 0 0) ∧
    (h'.s1 > worst → h'.s1 = h.s1 - b - tpAt tp 1 1 ∨ h'.s1 = h.s0 - a - tpAt tp 0 1) ∧
    (h'.s2 > worst → h'.s2 = h.s2 - c - tpAt tp 2 2 ∨ h'.s2 = h.s1 - b - tpAt tp 1 2) ∧
    (h'.out > worst → (h.s1 - b > worst ∧ h'.out = h.s2 - c - tpAt tp 2 3) ∨ (¬ h.s1 - b > worst ∧ h'.out = h.out)) := by
  obtain ⟨es0, es1, _, es2, _, eout, _, _, efr, _, _, _, _⟩ := eval3_fields tp a b c h hr hn h' bb he
  refine ⟨efr, ?_, ?_, ?_, ?_, ?_, ?_, ?_, ?_, ?_, ?_⟩
  · rw [es0]; exact clampW_le _
  · rw [es1]; have := clampW_le (if h.s1 - b - tpAt tp 1 1 > h.s0 - a - tpAt tp 0 1 then h.s1 - b - tpAt tp 1 1 else h.s0 - a - tpAt tp 0 1)
    have m := ite_gt_ge (h.s1 - b - tpAt tp 1 1) (h.s0 - a - tpAt tp 0 1)
    omega
  · rw [es1]; have := clampW_le (if h.s1 - b - tpAt tp 1 1 > h.s0 - a - tpAt tp 0 1 then h.s1 - b - tpAt tp 1 1 else h.s0 - a - tpAt tp 0 1)
    have m := ite_gt_ge (h.s1 - b - tpAt tp 1 1) (h.s0 - a - tpAt tp 0 1)
    omega
  · rw [es2]; have := clampW_le (if h.s2 - c - tpAt tp 2 2 > h.s1 - b - tpAt tp 1 2 then h.s2 - c - tpAt tp 2 2 else h.s1 - b - tpAt tp 1 2)
    have m := ite_gt_ge (h.s2 - c - tpAt tp 2 2) (h.s1 - b - tpAt tp 1 2)
    omega
  · rw [es2]; have := clampW_le (if h.s2 - c - tpAt tp 2 2 > h.s1 - b - tpAt tp 1 2 then h.s2 - c - tpAt tp 2 2 else h.s1 - b - tpAt tp 1 2)
    have m := ite_gt_ge (h.s2 - c - tpAt tp 2 2) (h.s1 - b - tpAt tp 1 2)
    omega
  · intro hg; rw [eout]; simp only [hg, if_true]; exact clampW_le _
  · intro hal; rw [es0] at hal ⊢; exact (clampW_alive _ hal).1
  · intro hal; rw [es1] at hal ⊢
    rw [(clampW_alive _ hal).1]
    split
    · exact Or.inl rfl
    · exact Or.inr rfl
  · intro hal; rw [es2] at hal ⊢
    rw [(clampW_alive _ hal).1]
    split
    · exact Or.inl rfl
    · exact Or.inr rfl
  · intro hal
    by_cases hg : h.s1 - b > worst
    · left; rw [eout] at hal ⊢; simp only [hg, if_true] at hal ⊢; exact ⟨trivial, (clampW_alive _ hal).1⟩
    · right; rw [eout]; simp only [hg, if_false]; exact ⟨not_false, trivial⟩

/-! ### the value invariant -/

/-- score of state `j` of an HMM -/
def sel (h : Hmm) : Nat → Int
  | 0 => h.s0
  | 1 => h.s1
  | _ => h.s2

/-- the scores of the active HMMs at the start of frame `f` are exactly the best path scores: every alive score is
the score of an admissible path (`sound`), every admissible path arrives in an active HMM whose score is at least the
path's (`complete`); the same for the exit scores computed in the previous frame. -/
structure V (tps : Array (Array Int)) (sf ef : Array Int) (sens : Nat → Array Int) (n f : Nat) (hm : List Hmm) : Prop where
  sound : ∀ (i : Nat) (h : Hmm), hm[i]? = some h → h.frame = (f : Int) → ∀ j, j < 3 → sel h j > worst →
    PathTo tps sf ef sens n f (3 * i + j) (sel h j)
  mono : ∀ (i : Nat) (h : Hmm), hm[i]? = some h → h.frame = (f : Int) → h.s2 > worst → h.s1 > worst
  complete : ∀ k sc, PathTo tps sf ef sens n f k sc →
    ∃ h, hm[k / 3]? = some h ∧ h.frame = (f : Int) ∧ sc ≤ sel h (k % 3)
  outS : ∀ (i : Nat) (h : Hmm), hm[i]? = some h → h.frame = (f : Int) → h.out > worst →
    ∃ f' sc, f = f' + 1 ∧ PathTo tps sf ef sens n f' (3 * i + 2) sc ∧ InWin sf ef f' (3 * i + 2) ∧
      h.out = sc - senAt sens f' (3 * i + 2) - tpOf tps (3 * i + 2) 2 3
  outC : ∀ (i : Nat) (h : Hmm) (f' : Nat) (sc : Int), hm[i]? = some h → h.frame = (f : Int) → f = f' + 1 →
    PathTo tps sf ef sens n f' (3 * i + 2) sc → InWin sf ef f' (3 * i + 2) →
    sc - senAt sens f' (3 * i + 2) - tpOf tps (3 * i + 2) 2 3 ≤ h.out

theorem adv_get (tps : Array (Array Int)) (sf ef : Array Int) (sen : Array Int) (F : Int) (hm0 : List Hmm)
    (i : Nat) (h0 : Hmm) (h : hm0[i]? = some h0) :
    ∃ pv, (i = 0 → pv = none) ∧ (∀ i', i = i' + 1 → pv = (advance tps sf ef sen F hm0)[i']?) ∧
      (advance tps sf ef sen F hm0)[i]? = some (tr sf F i pv (pr ef F i (ev tps sen F i h0).1)) := by
  have hL : (prunePhase ef F ((evalPhase tps sen F hm0).map (·.1)))[i]? = some (pr ef F i (ev tps sen F i h0).1) := by
    unfold prunePhase
    rw [List.getElem?_mapIdx, List.getElem?_map]
    unfold evalPhase
    rw [List.getElem?_mapIdx, h]
    rfl
  obtain ⟨pv, a, b, c⟩ := trans_get sf F _ 0 none i _ hL
  refine ⟨pv, a, b, ?_⟩
  simpa [advance] using c

theorem tr_cases (sf : Array Int) (F : Int) (i : Nat) (pv : Option Hmm) (nh : Hmm) :
    tr sf F i pv nh = nh ∨
    ∃ p, pv = some p ∧ p.frame = F + 1 ∧ ¬ (F + 1 < sf.getD i 0) ∧ (nh.frame < F ∨ p.out > nh.s0) ∧
      tr sf F i pv nh = { nh with s0 := p.out, h0 := p.outH, frame := F + 1 } := by
  cases pv with
  | none => left; rfl
  | some p =>
    simp only [tr]
    by_cases c1 : p.frame ≠ F + 1
    · left; rw [if_pos c1]
    · rw [if_neg c1]
      by_cases c2 : F + 1 < sf.getD i 0
      · left; rw [if_pos c2]
      · rw [if_neg c2]
        by_cases c3 : nh.frame < F ∨ p.out > nh.s0
        · right; rw [if_pos c3]; exact ⟨p, rfl, by omega, c2, c3, rfl⟩
        · left; rw [if_neg c3]

theorem tr_out (sf : Array Int) (F : Int) (i : Nat) (pv : Option Hmm) (nh : Hmm) :
    (tr sf F i pv nh).out = nh.out ∧ (tr sf F i pv nh).s1 = nh.s1 ∧ (tr sf F i pv nh).s2 = nh.s2 := by
  rcases tr_cases sf F i pv nh with h | ⟨p, _, _, _, _, h⟩ <;> rw [h] <;> exact ⟨rfl, rfl, rfl⟩

theorem tr_some (sf : Array Int) (F : Int) (i : Nat) (p nh : Hmm) (hp : p.frame = F + 1)
    (hs : ¬ (F + 1 < sf.getD i 0)) :
    tr sf F i (some p) nh =
      if nh.frame < F ∨ p.out > nh.s0 then { nh with s0 := p.out, h0 := p.outH, frame := F + 1 } else nh := by
  show (if p.frame ≠ F + 1 then nh else if F + 1 < sf.getD i 0 then nh
    else if nh.frame < F ∨ p.out > nh.s0 then { nh with s0 := p.out, h0 := p.outH, frame := F + 1 } else nh) = _
  rw [if_neg (by omega), if_neg hs]

theorem relabel_same (F : Int) (i : Nat) (h : Hmm) :
    (relabelElem F i h).frame = h.frame ∧ (relabelElem F i h).s0 = h.s0 ∧ (relabelElem F i h).s1 = h.s1 ∧
    (relabelElem F i h).s2 = h.s2 ∧ (relabelElem F i h).out = h.out := by
  unfold relabelElem; split <;> exact ⟨rfl, rfl, rfl, rfl, rfl⟩

theorem sel_relabel (F : Int) (i : Nat) (h : Hmm) (j : Nat) : sel (relabelElem F i h) j = sel h j := by
  obtain ⟨_, a, b, c, _⟩ := relabel_same F i h
  match j with
  | 0 => exact a
  | 1 => exact b
  | _ + 2 => exact c

theorem pr_same (ef : Array Int) (F : Int) (i : Nat) (h : Hmm) :
    (pr ef F i h).s0 = h.s0 ∧ (pr ef F i h).s1 = h.s1 ∧ (pr ef F i h).s2 = h.s2 ∧ (pr ef F i h).out = h.out ∧
    ((pr ef F i h).frame = h.frame ∨ (¬ h.frame < F ∧ ¬ F + 1 > ef.getD i 0 ∧ (pr ef F i h).frame = F + 1)) := by
  unfold pr
  by_cases c1 : h.frame < F
  · rw [if_pos c1]; exact ⟨rfl, rfl, rfl, rfl, Or.inl rfl⟩
  · rw [if_neg c1]
    by_cases c2 : F + 1 > ef.getD i 0
    · rw [if_pos c2]; exact ⟨rfl, rfl, rfl, rfl, Or.inl rfl⟩
    · rw [if_neg c2]; exact ⟨rfl, rfl, rfl, rfl, Or.inr ⟨c1, c2, rfl⟩⟩

/-! ### one frame, decomposed -/

/-- the HMMs after the renormalisation test -/
def hm0Of (s : Search) : List Hmm :=
  if renormDue s.best then s.hmms.map (normalize s.best) else s.hmms

theorem step_hmms (tps : Array (Array Int)) (sf ef : Array Int) (sen : Array Int) (F : Int) (s : Search) :
    (step tps sf ef sen F s).1.hmms = relabel F (advance tps sf ef sen F (hm0Of s)) := rfl

theorem normalize_active_id (sf ef : Array Int) (rows : List (List Tok)) (f : Nat) (best : Int) (i : Nat) (h : Hmm)
    (hK : K sf ef rows f best i h) (hfire : best - 0x300000 < worst) (hB : ((f : Int) + 1) * 33022 ≤ 533000000)
    (hfe : h.frame = (f : Int)) : normalize best h = h := by
  have hw : worst = -536870912 := rfl
  have d0 : ¬ h.s0 > worst := fun a => by obtain ⟨_, _, k3, k4⟩ := hK.a0 hfe a; omega
  have d1 : ¬ h.s1 > worst := fun a => by obtain ⟨_, _, k3, k4⟩ := hK.a1 hfe a; omega
  have d2 : ¬ h.s2 > worst := fun a => by obtain ⟨_, _, k3, k4⟩ := hK.a2 hfe a; omega
  have dout : ¬ h.out > worst := fun a => by obtain ⟨_, k3, k4, _⟩ := hK.ao hfe a; omega
  exact normalize_dead best h d0 d1 d2 dout

theorem hm0_get (sf ef : Array Int) (rows : List (List Tok)) (f : Nat) (s : Search)
    (hK : ∀ i h, s.hmms[i]? = some h → K sf ef rows f s.best i h) (hB : ((f : Int) + 1) * 33022 ≤ 533000000) :
    (hm0Of s).length = s.hmms.length ∧
    (∀ i h0, (hm0Of s)[i]? = some h0 → K sf ef rows f s.best i h0 ∧
      ∃ h, s.hmms[i]? = some h ∧ h0.frame = h.frame ∧ (h.frame = (f : Int) → h0 = h)) ∧
    (∀ (i : Nat) (h : Hmm), s.hmms[i]? = some h → h.frame = (f : Int) → (hm0Of s)[i]? = some h) := by
  by_cases hfire : renormDue s.best
  · have e : hm0Of s = s.hmms.map (normalize s.best) := by simp only [hm0Of, hfire, if_true]
    rw [e]
    refine ⟨by simp, ?_, ?_⟩
    · intro i h0 he
      rw [List.getElem?_map] at he
      cases hl : s.hmms[i]? with
      | none => rw [hl] at he; simp at he
      | some a =>
        rw [hl] at he
        simp only [Option.map_some, Option.some.injEq] at he
        rw [← he]
        exact ⟨k_normalize sf ef rows f s.best i a (hK i a hl) hfire.2 hB, a, rfl, normalize_frame _ _,
          fun hfe => normalize_active_id sf ef rows f s.best i a (hK i a hl) hfire.2 hB hfe⟩
    · intro i h hl hfe
      rw [List.getElem?_map, hl]
      simp only [Option.map_some, Option.some.injEq]
      exact normalize_active_id sf ef rows f s.best i h (hK i h hl) hfire.2 hB hfe
  · have e : hm0Of s = s.hmms := by simp only [hm0Of, hfire, if_false]
    rw [e]
    exact ⟨rfl, fun i h0 he => ⟨hK i h0 he, h0, he, rfl, fun _ => rfl⟩, fun i h hl _ => hl⟩

/-- the facts `M` for every HMM after the three phases of frame `f` -/
theorem adv_M (tps : Array (Array Int)) (sf ef : Array Int) (sen : Array Int) (rows : List (List Tok)) (f : Nat)
    (s : Search) (N : Nat) (hN : s.hmms.length ≤ N) (hmono : ∀ i, i + 1 < N → ef.getD i 0 ≤ ef.getD (i + 1) 0)
    (hok : FrameOK tps sen) (hB : ((f : Int) + 1) * 33022 ≤ 533000000)
    (hK : ∀ i h, s.hmms[i]? = some h → K sf ef rows f s.best i h) :
    ∃ bst, ∀ i h', (advance tps sf ef sen (f : Int) (hm0Of s))[i]? = some h' → M sf ef rows f bst i h' := by
  obtain ⟨hlen0, hK0, _⟩ := hm0_get sf ef rows f s hK hB
  refine ⟨((evalPhase tps sen (f : Int) (hm0Of s)).map (·.2)).foldl (fun b x => if x > b then x else b) worst, ?_⟩
  have hL : ∀ i h', (prunePhase ef (f : Int) ((evalPhase tps sen (f : Int) (hm0Of s)).map (·.1)))[i]? = some h' →
      M sf ef rows f (((evalPhase tps sen (f : Int) (hm0Of s)).map (·.2)).foldl (fun b x => if x > b then x else b) worst) i h' := by
    intro i h' he
    unfold prunePhase at he
    rw [List.getElem?_mapIdx, List.getElem?_map] at he
    unfold evalPhase at he
    rw [List.getElem?_mapIdx] at he
    cases hl : (hm0Of s)[i]? with
    | none => rw [hl] at he; simp at he
    | some a =>
      rw [hl] at he
      simp only [Option.map_some, Option.some.injEq] at he
      rw [← he]
      have hb : ¬ a.frame < (f : Int) → (ev tps sen f i a).2 ≤
          ((evalPhase tps sen (f : Int) (hm0Of s)).map (·.2)).foldl (fun b x => if x > b then x else b) worst := by
        intro _
        apply (foldl_max_ge _ worst).2
        apply List.mem_map.2
        refine ⟨ev tps sen f i a, ?_, rfl⟩
        unfold evalPhase
        apply List.mem_iff_getElem?.2
        refine ⟨i, ?_⟩
        rw [List.getElem?_mapIdx, hl]
        rfl
      exact m_of_k tps sf ef sen rows f s.best _ i a (hK0 i a hl).1 hok hB hb
  intro i h' he
  have := m_trans sf ef rows f _ N hmono _ 0 none
    (by simp [prunePhase, evalPhase]; omega)
    (fun j h hj => by simpa using hL j h hj) (fun p hp => by cases hp) i h' he
  simpa using this

theorem advance_length (tps : Array (Array Int)) (sf ef : Array Int) (sen : Array Int) (F : Int) (hm : List Hmm) :
    (advance tps sf ef sen F hm).length = hm.length := by
  simp [advance, transPhase_length, prunePhase, evalPhase]

theorem tpOf_eq (tps : Array (Array Int)) (i j a b : Nat) (hj : j < 3) :
    tpOf tps (3 * i + j) a b = tpAt (tps.getD i #[]) a b := by
  have : (3 * i + j) / 3 = i := by omega
  simp [tpOf, this]

/-- evaluation of an active HMM, in the vocabulary of paths -/
theorem ev_active (tps : Array (Array Int)) (sf ef : Array Int) (sens : Nat → Array Int) (rows : List (List Tok))
    (f : Nat) (best : Int) (i : Nat) (h0 : Hmm) (hK : K sf ef rows f best i h0) (hfe : h0.frame = (f : Int))
    (hok : FrameOK tps (sens f)) :
    ∃ e, (ev tps (sens f) f i h0).1 = e ∧ e.frame = (f : Int) ∧
    e.s0 ≥ h0.s0 - senAt sens f (3 * i) - tpOf tps (3 * i) 0 0 ∧
    e.s1 ≥ h0.s1 - senAt sens f (3 * i + 1) - tpOf tps (3 * i + 1) 1 1 ∧
    e.s1 ≥ h0.s0 - senAt sens f (3 * i) - tpOf tps (3 * i) 0 1 ∧
    e.s2 ≥ h0.s2 - senAt sens f (3 * i + 2) - tpOf tps (3 * i + 2) 2 2 ∧
    e.s2 ≥ h0.s1 - senAt sens f (3 * i + 1) - tpOf tps (3 * i + 1) 1 2 ∧
    (h0.s1 - senAt sens f (3 * i + 1) > worst → e.out ≥ h0.s2 - senAt sens f (3 * i + 2) - tpOf tps (3 * i + 2) 2 3) ∧
    (e.s0 > worst → e.s0 = h0.s0 - senAt sens f (3 * i) - tpOf tps (3 * i) 0 0) ∧
    (e.s1 > worst → e.s1 = h0.s1 - senAt sens f (3 * i + 1) - tpOf tps (3 * i + 1) 1 1 ∨
                    e.s1 = h0.s0 - senAt sens f (3 * i) - tpOf tps (3 * i) 0 1) ∧
    (e.s2 > worst → e.s2 = h0.s2 - senAt sens f (3 * i + 2) - tpOf tps (3 * i + 2) 2 2 ∨
                    e.s2 = h0.s1 - senAt sens f (3 * i + 1) - tpOf tps (3 * i + 1) 1 2) ∧
    (e.out > worst → (h0.s1 - senAt sens f (3 * i + 1) > worst ∧
                      e.out = h0.s2 - senAt sens f (3 * i + 2) - tpOf tps (3 * i + 2) 2 3) ∨
                     (¬ h0.s1 - senAt sens f (3 * i + 1) > worst ∧ e.out = h0.out)) := by
  obtain ⟨l0, l1, l2, lo', _⟩ := hK.lo hfe
  have hr : InRange (tps.getD i #[]) ((sens f).getD (3 * i) 0) ((sens f).getD (3 * i + 1) 0) ((sens f).getD (3 * i + 2) 0) h0 :=
    ⟨l0, l1, l2, lo', hok.sen _, hok.sen _, hok.sen _, hok.tp i⟩
  have hf : ¬ h0.frame < (f : Int) := by omega
  cases hev : eval3 (tps.getD i #[]) ((sens f).getD (3 * i) 0) ((sens f).getD (3 * i + 1) 0) ((sens f).getD (3 * i + 2) 0) h0 with
  | mk h' bb =>
  have e1 : (ev tps (sens f) f i h0).1 = h' := by unfold ev; rw [if_neg hf, hev]
  have t0 : tpOf tps (3 * i) = tpAt (tps.getD i #[]) := by
    funext a b; have := tpOf_eq tps i 0 a b (by omega); simpa using this
  have t1 : tpOf tps (3 * i + 1) = tpAt (tps.getD i #[]) := by funext a b; exact tpOf_eq tps i 1 a b (by omega)
  have t2 : tpOf tps (3 * i + 2) = tpAt (tps.getD i #[]) := by funext a b; exact tpOf_eq tps i 2 a b (by omega)
  obtain ⟨q0, q1, q2, q3, q4, q5, q6, q7, q8, q9, q10⟩ := eval3_scores _ _ _ _ h0 hr (hok.noskip i) h' bb hev
  refine ⟨h', e1, by rw [q0]; exact hfe, ?_⟩
  simp only [senAt, t0, t1, t2]
  exact ⟨q1, q2, q3, q4, q5, q6, q7, q8, q9, q10⟩

/-- an HMM that is active in frame `f` and stays active: after the three phases it is active in frame `f+1`, its
scores are at least the evaluated ones, its exit score is the evaluated one -/
theorem post_of_active (sf ef : Array Int) (f : Nat) (i : Nat) (pv : Option Hmm) (e : Hmm)
    (hfe : e.frame = (f : Int)) (hkeep : ¬ (f : Int) + 1 > ef.getD i 0) :
    (tr sf f i pv (pr ef f i e)).frame = (f : Int) + 1 ∧
    (∀ j, sel (tr sf f i pv (pr ef f i e)) j ≥ sel e j) ∧
    (tr sf f i pv (pr ef f i e)).out = e.out ∧ (tr sf f i pv (pr ef f i e)).s1 = e.s1 ∧
    (tr sf f i pv (pr ef f i e)).s2 = e.s2 ∧
    ((tr sf f i pv (pr ef f i e)).s0 = e.s0 ∨
      ∃ p, pv = some p ∧ p.frame = (f : Int) + 1 ∧ ¬ ((f : Int) + 1 < sf.getD i 0) ∧ (tr sf f i pv (pr ef f i e)).s0 = p.out) := by
  obtain ⟨p0, p1, p2, po, pfr⟩ := pr_same ef f i e
  have hfr : (pr ef f i e).frame = (f : Int) + 1 := by
    rcases pfr with h | ⟨_, _, h⟩
    · -- not the case: the HMM is kept
      unfold pr at h ⊢
      rw [if_neg (by omega), if_neg hkeep]
    · exact h
  obtain ⟨t1, t2, t3⟩ := tr_out sf f i pv (pr ef f i e)
  rcases tr_cases sf f i pv (pr ef f i e) with h | ⟨p, hp, hpf, hsf, hc, h⟩
  · rw [h]
    refine ⟨hfr, ?_, po, p1, p2, Or.inl p0⟩
    intro j
    match j with
    | 0 => show (pr ef f i e).s0 ≥ e.s0; omega
    | 1 => show (pr ef f i e).s1 ≥ e.s1; omega
    | _ + 2 => show (pr ef f i e).s2 ≥ e.s2; omega
  · have hgt : p.out > (pr ef f i e).s0 := by
      rcases hc with hc | hc
      · omega
      · exact hc
    rw [h]
    refine ⟨rfl, ?_, po, p1, p2, Or.inr ⟨p, hp, hpf, hsf, rfl⟩⟩
    intro j
    match j with
    | 0 => show p.out ≥ e.s0; omega
    | 1 => show (pr ef f i e).s1 ≥ e.s1; omega
    | _ + 2 => show (pr ef f i e).s2 ≥ e.s2; omega

/-- **one frame preserves the value invariant** -/
theorem step_V (tps : Array (Array Int)) (sf ef : Array Int) (sens : Nat → Array Int) (rows : List (List Tok)) (f : Nat)
    (s : Search) (n : Nat) (hn : s.hmms.length = n) (hmono : ∀ i, i + 1 < n → ef.getD i 0 ≤ ef.getD (i + 1) 0)
    (hok : AllOK tps sens) (hB : ((f : Int) + 1) * 33022 ≤ 533000000)
    (hK : ∀ i h, s.hmms[i]? = some h → K sf ef rows f s.best i h)
    (hV : V tps sf ef sens n f s.hmms) :
    V tps sf ef sens n (f + 1) (step tps sf ef (sens f) (f : Int) s).1.hmms := by
  have hw : worst = -536870912 := rfl
  obtain ⟨hlen0, hK0, hact⟩ := hm0_get sf ef rows f s hK hB
  obtain ⟨bst, hA⟩ := adv_M tps sf ef (sens f) rows f s n (by omega) hmono (hok f) hB hK
  have hlen1 := advance_length tps sf ef (sens f) (f : Int) (hm0Of s)
  rw [step_hmms]
  -- every final HMM decomposes
  have DEC : ∀ i h2, (relabel (f : Int) (advance tps sf ef (sens f) (f : Int) (hm0Of s)))[i]? = some h2 →
      ∃ h0 pv, (hm0Of s)[i]? = some h0 ∧ (i = 0 → pv = none) ∧
        (∀ i', i = i' + 1 → pv = (advance tps sf ef (sens f) (f : Int) (hm0Of s))[i']?) ∧
        (advance tps sf ef (sens f) (f : Int) (hm0Of s))[i]? =
          some (tr sf f i pv (pr ef f i (ev tps (sens f) f i h0).1)) ∧
        h2 = relabelElem f i (tr sf f i pv (pr ef f i (ev tps (sens f) f i h0).1)) := by
    intro i h2 he
    unfold relabel at he
    rw [List.getElem?_mapIdx] at he
    cases hl : (advance tps sf ef (sens f) (f : Int) (hm0Of s))[i]? with
    | none => rw [hl] at he; simp at he
    | some h1 =>
      rw [hl] at he
      simp only [Option.map_some, Option.some.injEq] at he
      have hi : i < (hm0Of s).length := by
        rw [← hlen1]; exact (List.getElem?_eq_some_iff.1 hl).1
      obtain ⟨pv, a, b, c⟩ := adv_get tps sf ef (sens f) (f : Int) (hm0Of s) i _ (List.getElem?_eq_getElem hi)
      rw [hl] at c
      have e1 : h1 = tr sf f i pv (pr ef f i (ev tps (sens f) f i (hm0Of s)[i]).1) := Option.some.inj c
      exact ⟨_, pv, List.getElem?_eq_getElem hi, a, b, by rw [← e1], by rw [← he, e1]; rfl⟩
  -- and every input HMM has its final HMM
  have EX : ∀ i h0, (hm0Of s)[i]? = some h0 →
      ∃ pv, (i = 0 → pv = none) ∧ (∀ i', i = i' + 1 → pv = (advance tps sf ef (sens f) (f : Int) (hm0Of s))[i']?) ∧
        (advance tps sf ef (sens f) (f : Int) (hm0Of s))[i]? = some (tr sf f i pv (pr ef f i (ev tps (sens f) f i h0).1)) ∧
        (relabel (f : Int) (advance tps sf ef (sens f) (f : Int) (hm0Of s)))[i]? =
          some (relabelElem f i (tr sf f i pv (pr ef f i (ev tps (sens f) f i h0).1))) := by
    intro i h0 h
    obtain ⟨pv, a, b, c⟩ := adv_get tps sf ef (sens f) (f : Int) (hm0Of s) i h0 h
    refine ⟨pv, a, b, c, ?_⟩
    unfold relabel
    rw [List.getElem?_mapIdx, c]; rfl
  -- an active source HMM: K, V and the evaluation facts
  have ACT : ∀ (i : Nat) (h0 : Hmm), (hm0Of s)[i]? = some h0 → h0.frame = (f : Int) → s.hmms[i]? = some h0 := by
    intro i h0 h hfe
    obtain ⟨_, h', g1, g2, g3⟩ := hK0 i h0 h
    have : h'.frame = (f : Int) := by omega
    rw [g3 this]; exact g1
  -- exit scores of the HMMs that are active in the next frame
  have OUT1 : ∀ i' p, (advance tps sf ef (sens f) (f : Int) (hm0Of s))[i']? = some p → p.frame = (f : Int) + 1 →
      p.out > worst → ∃ sc, PathTo tps sf ef sens n f (3 * i' + 2) sc ∧ InWin sf ef f (3 * i' + 2) ∧
        p.out = sc - senAt sens f (3 * i' + 2) - tpOf tps (3 * i' + 2) 2 3 := by
    intro i' p hp hpf hal
    have hi : i' < (hm0Of s).length := by rw [← hlen1]; exact (List.getElem?_eq_some_iff.1 hp).1
    obtain ⟨pv, _, _, c⟩ := adv_get tps sf ef (sens f) (f : Int) (hm0Of s) i' _ (List.getElem?_eq_getElem hi)
    rw [hp] at c
    have e1 := Option.some.inj c
    obtain ⟨mlo⟩ := (hA i' p hp).lo hpf
    obtain ⟨_, _, _, _, mef, _⟩ := (hA i' p hp).lo hpf
    obtain ⟨kK, _⟩ := hK0 i' _ (List.getElem?_eq_getElem hi)
    obtain ⟨o1, _, _⟩ := tr_out sf f i' pv (pr ef f i' (ev tps (sens f) f i' (hm0Of s)[i']).1)
    obtain ⟨_, _, _, o2, _⟩ := pr_same ef f i' (ev tps (sens f) f i' (hm0Of s)[i']).1
    have hout : p.out = (ev tps (sens f) f i' (hm0Of s)[i']).1.out := by rw [e1, o1, o2]
    by_cases hf : (hm0Of s)[i'].frame < (f : Int)
    · -- inactive: fresh (exit score dead) or expired (cannot be active next)
      have : (ev tps (sens f) f i' (hm0Of s)[i']).1 = (hm0Of s)[i'] := by unfold ev; rw [if_pos hf]
      rw [this] at hout
      rcases kK.inact hf with ⟨_, _, _, fo⟩ | hexp
      · omega
      · omega
    · have hfe : (hm0Of s)[i'].frame = (f : Int) := by have := kK.frameLe; omega
      obtain ⟨e, ee, _, _, _, _, _, _, _, _, _, _, eo⟩ :=
        ev_active tps sf ef sens rows f s.best i' _ kK hfe (hok f)
      rw [ee] at hout
      rcases eo (by omega) with ⟨hg, hval⟩ | ⟨hg, hval⟩
      · have hs2 : (hm0Of s)[i'].s2 > worst := by
          have a := (hok f).sen (3 * i' + 2); have b := (hok f).tp i' 2 3
          rw [tpOf_eq tps i' 2 2 3 (by omega)] at hval
          simp only [senAt] at hval; omega
        have hsrc := hV.sound i' _ (ACT i' _ (List.getElem?_eq_getElem hi) hfe) hfe 2 (by omega) hs2
        refine ⟨_, hsrc, ?_, by rw [hout, hval]; rfl⟩
        have : (3 * i' + 2) / 3 = i' := by omega
        simp only [InWin, this]
        have := (kK.lo hfe).2.2.2.2
        omega
      · exfalso
        have hal' : (hm0Of s)[i'].out > worst := by omega
        obtain ⟨k1, _, _, _⟩ := kK.ao hfe hal'
        obtain ⟨_, _, j3, _⟩ := kK.a1 hfe k1
        have b := (hok f).sen (3 * i' + 1)
        simp only [senAt] at hg; omega
  refine ⟨?_, ?_, ?_, ?_, ?_⟩
  · -- sound
    intro i h2 he hfr j hj hal
    obtain ⟨h0, pv, g0, gp0, gp1, g1, g2⟩ := DEC i h2 he
    rw [g2, sel_relabel] at hal ⊢
    have hfr1 : (tr sf f i pv (pr ef f i (ev tps (sens f) f i h0).1)).frame = (f : Int) + 1 := by
      rw [g2, (relabel_same _ _ _).1] at hfr; push_cast at hfr; exact hfr
    obtain ⟨kK, _⟩ := hK0 i h0 g0
    have hM := hA i _ g1
    obtain ⟨_, _, _, _, mef, msf⟩ := hM.lo hfr1
    -- the entered state 0
    have ENT : ∀ p, pv = some p → p.frame = (f : Int) + 1 → ¬ ((f : Int) + 1 < sf.getD i 0) → p.out > worst →
        PathTo tps sf ef sens n (f + 1) (3 * i) p.out := by
      intro p hp hpf hsf hpal
      cases i with
      | zero => have := gp0 rfl; rw [this] at hp; cases hp
      | succ i' =>
        have hpv := gp1 i' rfl
        rw [hp] at hpv
        obtain ⟨sc, h1, h2', h3⟩ := OUT1 i' p hpv.symm hpf hpal
        have hlt : i' + 1 < n := by
          have := (List.getElem?_eq_some_iff.1 g0).1; omega
        have e3 : (3 * i' + 2 + 1) / 3 = i' + 1 := by omega
        have hc1 : (3 * i' + 2 + 1) / 3 < n := by rw [e3]; exact hlt
        have hc2 : sf.getD ((3 * i' + 2 + 1) / 3) 0 ≤ (f : Int) + 1 := by rw [e3]; omega
        have := PathTo.cross h1 h2' (by omega) hc1 hc2
        have e : 3 * i' + 2 + 1 = 3 * (i' + 1) := by omega
        rw [e, ← h3] at this; exact this
    by_cases hf : h0.frame < (f : Int)
    · -- entered fresh HMM: only state 0 can be alive
      have e0 : (ev tps (sens f) f i h0).1 = h0 := by unfold ev; rw [if_pos hf]
      have e1 : pr ef f i h0 = h0 := by unfold pr; rw [if_pos hf]
      rw [e0, e1] at hal hfr1 ⊢
      have hfresh : Fresh h0 := by
        rcases kK.inact hf with a | a
        · exact a
        · omega
      obtain ⟨_, f1, f2, _⟩ := hfresh
      obtain ⟨_, t1, t2⟩ := tr_out sf f i pv h0
      rcases tr_cases sf f i pv h0 with h | ⟨p, hp, hpf, hsf, _, h⟩
      · rw [h] at hfr1; omega
      · match j with
        | 0 =>
          have : sel (tr sf f i pv h0) 0 = p.out := by rw [h]; rfl
          rw [this] at hal ⊢
          simpa using ENT p hp hpf hsf hal
        | 1 => have : sel (tr sf f i pv h0) 1 = h0.s1 := t1
               rw [this] at hal; omega
        | 2 => have : sel (tr sf f i pv h0) 2 = h0.s2 := t2
               rw [this] at hal; omega
    · have hfe : h0.frame = (f : Int) := by have := kK.frameLe; omega
      have hsrc := ACT i h0 g0 hfe
      obtain ⟨e, ee, efr, _, _, _, _, _, _, d0, d1, d2, _⟩ := ev_active tps sf ef sens rows f s.best i h0 kK hfe (hok f)
      rw [ee] at hal hfr1 ⊢
      have hkeep : ¬ (f : Int) + 1 > ef.getD i 0 := by omega
      obtain ⟨_, _, _, q1, q2, q0⟩ := post_of_active sf ef f i pv e efr hkeep
      have hwin : ∀ jj, jj < 3 → InWin sf ef f (3 * i + jj) := by
        intro jj hjj
        have : (3 * i + jj) / 3 = i := by omega
        simp only [InWin, this]
        have := (kK.lo hfe).2.2.2.2
        omega
      have S0 : h0.s0 > worst → PathTo tps sf ef sens n f (3 * i) h0.s0 := by
        have := hV.sound i h0 hsrc hfe 0 (by omega); simpa [sel] using this
      have S1 : h0.s1 > worst → PathTo tps sf ef sens n f (3 * i + 1) h0.s1 := hV.sound i h0 hsrc hfe 1 (by omega)
      have S2 : h0.s2 > worst → PathTo tps sf ef sens n f (3 * i + 2) h0.s2 := hV.sound i h0 hsrc hfe 2 (by omega)
      have a0 : 0 ≤ senAt sens f (3 * i) ∧ senAt sens f (3 * i) ≤ 32767 := (hok f).sen (3 * i)
      have a1 : 0 ≤ senAt sens f (3 * i + 1) ∧ senAt sens f (3 * i + 1) ≤ 32767 := (hok f).sen (3 * i + 1)
      have a2 : 0 ≤ senAt sens f (3 * i + 2) ∧ senAt sens f (3 * i + 2) ≤ 32767 := (hok f).sen (3 * i + 2)
      have tpr : ∀ k a b, 0 ≤ tpOf tps k a b ∧ tpOf tps k a b ≤ 255 := fun k a b => (hok f).tp (k / 3) a b
      have b00 := tpr (3 * i) 0 0; have b01 := tpr (3 * i) 0 1; have b11 := tpr (3 * i + 1) 1 1
      have b12 := tpr (3 * i + 1) 1 2; have b22 := tpr (3 * i + 2) 2 2
      have w0 : InWin sf ef f (3 * i) := by simpa using hwin 0 (by omega)
      have m0 : (3 * i) % 3 = 0 := by omega
      have m1 : (3 * i + 1) % 3 = 1 := by omega
      have m2 : (3 * i + 2) % 3 = 2 := by omega
      match j with
      | 0 =>
        have hs : sel (tr sf f i pv (pr ef f i e)) 0 = (tr sf f i pv (pr ef f i e)).s0 := rfl
        rw [hs] at hal ⊢
        rcases q0 with q | ⟨p, hp, hpf, hsf, q⟩
        · rw [q] at hal ⊢
          have hv := d0 hal
          have hs0 : h0.s0 > worst := by omega
          have := PathTo.self (S0 hs0) w0
          rw [m0] at this
          rw [hv]; simpa using this
        · rw [q] at hal ⊢
          simpa using ENT p hp hpf hsf hal
      | 1 =>
        have hs : sel (tr sf f i pv (pr ef f i e)) 1 = e.s1 := q1
        rw [hs] at hal ⊢
        rcases d1 hal with hv | hv
        · have hs1 : h0.s1 > worst := by omega
          have := PathTo.self (S1 hs1) (hwin 1 (by omega))
          rw [m1] at this
          rw [hv]; exact this
        · have hs0 : h0.s0 > worst := by omega
          have := PathTo.next (S0 hs0) w0 (by omega)
          rw [m0] at this
          rw [hv]; exact this
      | 2 =>
        have hs : sel (tr sf f i pv (pr ef f i e)) 2 = e.s2 := q2
        rw [hs] at hal ⊢
        rcases d2 hal with hv | hv
        · have hs2 : h0.s2 > worst := by omega
          have := PathTo.self (S2 hs2) (hwin 2 (by omega))
          rw [m2] at this
          rw [hv]; exact this
        · have hs1 : h0.s1 > worst := by omega
          have := PathTo.next (S1 hs1) (hwin 1 (by omega)) (by omega)
          rw [m1] at this
          rw [hv]; exact this
  · -- mono
    intro i h2 he hfr hal
    obtain ⟨h0, pv, g0, _, _, g1, g2⟩ := DEC i h2 he
    obtain ⟨rf, _, r1, r2, _⟩ := relabel_same (f : Int) i (tr sf f i pv (pr ef f i (ev tps (sens f) f i h0).1))
    obtain ⟨_, t1, t2⟩ := tr_out sf f i pv (pr ef f i (ev tps (sens f) f i h0).1)
    obtain ⟨_, p1, p2, _, _⟩ := pr_same ef f i (ev tps (sens f) f i h0).1
    rw [g2, r2, t2, p2] at hal
    rw [g2, r1, t1, p1]
    have hfr1 : (tr sf f i pv (pr ef f i (ev tps (sens f) f i h0).1)).frame = (f : Int) + 1 := by
      rw [g2, rf] at hfr; push_cast at hfr; exact hfr
    obtain ⟨kK, _⟩ := hK0 i h0 g0
    obtain ⟨_, _, _, _, mef, _⟩ := (hA i _ g1).lo hfr1
    by_cases hf : h0.frame < (f : Int)
    · have e0 : (ev tps (sens f) f i h0).1 = h0 := by unfold ev; rw [if_pos hf]
      rw [e0] at hal
      rcases kK.inact hf with ⟨_, _, f2, _⟩ | a
      · omega
      · omega
    · have hfe : h0.frame = (f : Int) := by have := kK.frameLe; omega
      obtain ⟨e, ee, _, _, e11, _, _, _, _, _, _, d2, _⟩ := ev_active tps sf ef sens rows f s.best i h0 kK hfe (hok f)
      rw [ee] at hal ⊢
      have a1 : 0 ≤ senAt sens f (3 * i + 1) ∧ senAt sens f (3 * i + 1) ≤ 32767 := (hok f).sen (3 * i + 1)
      have a2 : 0 ≤ senAt sens f (3 * i + 2) ∧ senAt sens f (3 * i + 2) ≤ 32767 := (hok f).sen (3 * i + 2)
      have b11 : 0 ≤ tpOf tps (3 * i + 1) 1 1 ∧ tpOf tps (3 * i + 1) 1 1 ≤ 255 := (hok f).tp _ 1 1
      have b12 : 0 ≤ tpOf tps (3 * i + 1) 1 2 ∧ tpOf tps (3 * i + 1) 1 2 ≤ 255 := (hok f).tp _ 1 2
      have b22 : 0 ≤ tpOf tps (3 * i + 2) 2 2 ∧ tpOf tps (3 * i + 2) 2 2 ≤ 255 := (hok f).tp _ 2 2
      have hs1 : h0.s1 > worst := by
        rcases d2 hal with hv | hv
        · exact hV.mono i h0 (ACT i h0 g0 hfe) hfe (by omega)
        · omega
      obtain ⟨_, _, j3, _⟩ := kK.a1 hfe hs1
      omega
  · -- complete
    intro k' sc' hp
    -- the facts about an active source HMM and its final HMM
    have SRC : ∀ i h, s.hmms[i]? = some h → h.frame = (f : Int) → (f : Int) < ef.getD i 0 →
        ∃ e pv, (ev tps (sens f) f i h).1 = e ∧
          (relabel (f : Int) (advance tps sf ef (sens f) (f : Int) (hm0Of s)))[i]? =
            some (relabelElem f i (tr sf f i pv (pr ef f i e))) ∧
          (advance tps sf ef (sens f) (f : Int) (hm0Of s))[i]? = some (tr sf f i pv (pr ef f i e)) ∧
          (relabelElem f i (tr sf f i pv (pr ef f i e))).frame = ((f + 1 : Nat) : Int) ∧
          (∀ j, sel (relabelElem f i (tr sf f i pv (pr ef f i e))) j ≥ sel e j) ∧
          (tr sf f i pv (pr ef f i e)).frame = (f : Int) + 1 ∧ (tr sf f i pv (pr ef f i e)).out = e.out := by
      intro i h hl hfe hef
      have h0' := hact i h hl hfe
      obtain ⟨pv, _, _, c1, c2⟩ := EX i h h0'
      obtain ⟨e, ee, efr, _⟩ := ev_active tps sf ef sens rows f s.best i h (hK i h hl) hfe (hok f)
      rw [ee] at c1 c2
      obtain ⟨q1, q2, q3, _⟩ := post_of_active sf ef f i pv e efr (by omega)
      refine ⟨e, pv, ee, c2, c1, ?_, ?_, q1, q3⟩
      · rw [(relabel_same _ _ _).1, q1]; push_cast; rfl
      · intro j; rw [sel_relabel]; exact q2 j
    have tpr : ∀ k a b, 0 ≤ tpOf tps k a b ∧ tpOf tps k a b ≤ 255 := fun k a b => (hok f).tp (k / 3) a b
    have snr : ∀ k, 0 ≤ senAt sens f k ∧ senAt sens f k ≤ 32767 := fun k => (hok f).sen k
    cases hp with
    | self hp0 hwin =>
      rename_i sc
      obtain ⟨h, hl, hfe, hle⟩ := hV.complete k' sc hp0
      obtain ⟨e, pv, ee, c2, _, cf, cs, _, _⟩ := SRC (k' / 3) h hl hfe hwin.2
      refine ⟨_, c2, cf, ?_⟩
      have hcs := cs (k' % 3)
      obtain ⟨e', ee', _, e0, e11, _, e22, _, _⟩ := ev_active tps sf ef sens rows f s.best (k' / 3) h (hK _ h hl) hfe (hok f)
      rw [ee] at ee'; subst ee'
      have hk : k' = 3 * (k' / 3) + k' % 3 := by omega
      have hj : k' % 3 < 3 := by omega
      generalize k' / 3 = i at *
      generalize k' % 3 = j at *
      subst hk
      match j, hj with
      | 0, _ => simp only [sel, Nat.add_zero] at hle hcs ⊢; omega
      | 1, _ => simp only [sel] at hle hcs ⊢; omega
      | 2, _ => simp only [sel] at hle hcs ⊢; omega
    | @next _ k sc hp0 hwin hjlt =>
      obtain ⟨h, hl, hfe, hle⟩ := hV.complete k sc hp0
      obtain ⟨e, pv, ee, c2, _, cf, cs, _, _⟩ := SRC (k / 3) h hl hfe hwin.2
      obtain ⟨e', ee', _, _, _, e01, _, e12, _⟩ := ev_active tps sf ef sens rows f s.best (k / 3) h (hK _ h hl) hfe (hok f)
      rw [ee] at ee'; subst ee'
      have hd : (k + 1) / 3 = k / 3 := by omega
      have hm : (k + 1) % 3 = k % 3 + 1 := by omega
      rw [hd, hm]
      refine ⟨_, c2, cf, ?_⟩
      have hcs := cs (k % 3 + 1)
      have hk : k = 3 * (k / 3) + k % 3 := by omega
      generalize k / 3 = i at *
      generalize k % 3 = j at *
      subst hk
      match j, hjlt with
      | 0, _ => simp only [sel, Nat.add_zero, Nat.zero_add] at hle hcs ⊢; omega
      | 1, _ => simp only [sel, Nat.reduceAdd] at hle hcs ⊢; omega
    | @cross _ k sc hp0 hwin hj2 hlt hsf =>
      obtain ⟨h, hl, hfe, hle⟩ := hV.complete k sc hp0
      obtain ⟨e, pv, ee, _, c1, _, _, pf, po⟩ := SRC (k / 3) h hl hfe hwin.2
      obtain ⟨e', ee', _, _, _, _, _, _, eo, _⟩ := ev_active tps sf ef sens rows f s.best (k / 3) h (hK _ h hl) hfe (hok f)
      rw [ee] at ee'; subst ee'
      have hk : k = 3 * (k / 3) + 2 := by omega
      have hd : (k + 1) / 3 = k / 3 + 1 := by omega
      have hm : (k + 1) % 3 = 0 := by omega
      rw [hd, hm]
      rw [hd] at hlt hsf
      -- the source's exit score
      have hb := path_bound tps sf ef sens n hok f k sc hp0
      rw [hj2] at hle
      have hs2 : h.s2 > worst := by simp only [sel] at hle; omega
      have hs1 : h.s1 > worst := hV.mono _ h hl hfe hs2
      obtain ⟨_, _, j3, _⟩ := (hK _ h hl).a1 hfe hs1
      generalize k / 3 = i at *
      subst hk
      have hout : e.out ≥ sc - senAt sens f (3 * i + 2) - tpOf tps (3 * i + 2) 2 3 := by
        have := eo (by have := snr (3 * i + 1); omega)
        simp only [sel] at hle; omega
      -- the destination HMM
      have hi1 : i + 1 < (hm0Of s).length := by rw [hlen0, hn]; exact hlt
      obtain ⟨pv', _, gp1, d1, d2⟩ := EX (i + 1) _ (List.getElem?_eq_getElem hi1)
      have hpv : pv' = some (tr sf f i pv (pr ef f i e)) := by rw [gp1 i rfl, c1]
      have hMd := hA (i + 1) _ d1
      refine ⟨_, d2, ?_, ?_⟩
      · -- active in the next frame
        rw [(relabel_same _ _ _).1]
        push_cast
        rw [hpv, tr_some sf f (i + 1) _ _ pf (by omega)]
        by_cases c3 : (pr ef f (i + 1) (ev tps (sens f) f (i + 1) (hm0Of s)[i + 1]).1).frame < (f : Int) ∨
            (tr sf f i pv (pr ef f i e)).out > (pr ef f (i + 1) (ev tps (sens f) f (i + 1) (hm0Of s)[i + 1]).1).s0
        · rw [if_pos c3]
        · rw [if_neg c3]
          rw [hpv, tr_some sf f (i + 1) _ _ pf (by omega), if_neg c3] at hMd
          have hle' := hMd.frameLe
          have hmo := hmono i (by omega)
          by_cases c4 : (pr ef f (i + 1) (ev tps (sens f) f (i + 1) (hm0Of s)[i + 1]).1).frame = (f : Int)
          · have h1 := hMd.exp c4
            have h2 := hwin.2
            have hdd : (3 * i + 2) / 3 = i := by omega
            rw [hdd] at h2
            omega
          · omega
      · -- its state 0 is at least the path's score
        rw [sel_relabel]
        show (tr sf f (i + 1) pv' (pr ef f (i + 1) (ev tps (sens f) f (i + 1) (hm0Of s)[i + 1]).1)).s0 ≥ _
        rw [hpv, tr_some sf f (i + 1) _ _ pf (by omega)]
        by_cases c3 : (pr ef f (i + 1) (ev tps (sens f) f (i + 1) (hm0Of s)[i + 1]).1).frame < (f : Int) ∨
            (tr sf f i pv (pr ef f i e)).out > (pr ef f (i + 1) (ev tps (sens f) f (i + 1) (hm0Of s)[i + 1]).1).s0
        · rw [if_pos c3]; show (tr sf f i pv (pr ef f i e)).out ≥ _; omega
        · rw [if_neg c3]; omega
  · -- outS
    intro i h2 he hfr hal
    obtain ⟨h0, pv, g0, _, _, g1, g2⟩ := DEC i h2 he
    obtain ⟨rf, _, _, _, ro⟩ := relabel_same (f : Int) i (tr sf f i pv (pr ef f i (ev tps (sens f) f i h0).1))
    rw [g2, ro] at hal ⊢
    have hfr1 : (tr sf f i pv (pr ef f i (ev tps (sens f) f i h0).1)).frame = (f : Int) + 1 := by
      rw [g2, rf] at hfr; push_cast at hfr; exact hfr
    obtain ⟨sc, q1, q2, q3⟩ := OUT1 i _ g1 hfr1 hal
    exact ⟨f, sc, rfl, q1, q2, q3⟩
  · -- outC
    intro i h2 f' sc he hfr hff hp hwin
    have : f' = f := by omega
    subst this
    obtain ⟨h, hl, hfe, hle⟩ := hV.complete _ sc hp
    have hdd : (3 * i + 2) / 3 = i := by omega
    have hmm : (3 * i + 2) % 3 = 2 := by omega
    rw [hdd] at hl
    rw [hmm] at hle
    obtain ⟨h0, pv, g0, _, _, g1, g2⟩ := DEC i h2 he
    have h0eq : h0 = h := by
      have := hact i h hl hfe
      rw [this] at g0; exact (Option.some.inj g0).symm
    subst h0eq
    obtain ⟨_, _, _, _, ro⟩ := relabel_same (f' : Int) i (tr sf f' i pv (pr ef f' i (ev tps (sens f') f' i h0).1))
    obtain ⟨to, _, _⟩ := tr_out sf f' i pv (pr ef f' i (ev tps (sens f') f' i h0).1)
    obtain ⟨_, _, _, po, _⟩ := pr_same ef f' i (ev tps (sens f') f' i h0).1
    rw [g2, ro, to, po]
    obtain ⟨e, ee, _, _, _, _, _, _, eo, _⟩ := ev_active tps sf ef sens rows f' s.best i h0 (hK i h0 hl) hfe (hok f')
    rw [ee]
    have hb := path_bound tps sf ef sens n hok f' _ sc hp
    have hs2 : h0.s2 > worst := by simp only [sel] at hle; omega
    have hs1 : h0.s1 > worst := hV.mono i h0 hl hfe hs2
    obtain ⟨_, _, j3, _⟩ := (hK i h0 hl).a1 hfe hs1
    have a1 : 0 ≤ senAt sens f' (3 * i + 1) ∧ senAt sens f' (3 * i + 1) ≤ 32767 := (hok f').sen (3 * i + 1)
    have := eo (by omega)
    simp only [sel] at hle
    omega

/-! ### the whole second pass -/

theorem v_start (tps : Array (Array Int)) (sf ef : Array Int) (sens : Nat → Array Int) (n : Nat) (hn : 1 ≤ n) :
    V tps sf ef sens n 0 (start n).hmms := by
  have hw : worst = -536870912 := rfl
  have hget : ∀ i h, (start n).hmms[i]? = some h →
      h = (if i = 0 then ({ s0 := 0, h0 := 0, frame := 0 } : Hmm) else {}) := by
    intro i h he
    unfold start at he
    simp only [List.getElem?_map] at he
    cases hr : (List.range n)[i]? with
    | none => rw [hr] at he; simp at he
    | some k =>
      rw [hr] at he
      have hk : k = i := by
        by_cases hin : i < n
        · rw [List.getElem?_range hin] at hr; simpa using hr.symm
        · rw [List.getElem?_eq_none (by simpa using hin)] at hr; simp at hr
      subst hk
      simp only [Option.map_some, Option.some.injEq] at he
      exact he.symm
  have h0 : (start n).hmms[0]? = some ({ s0 := 0, h0 := 0, frame := 0 } : Hmm) := by
    unfold start
    rw [List.getElem?_map, List.getElem?_range (by omega)]
    rfl
  refine ⟨?_, ?_, ?_, ?_, ?_⟩
  · intro i h he hfr j hj hal
    have := hget i h he
    by_cases hi : i = 0
    · subst hi
      simp only [if_true] at this
      subst this
      match j, hj with
      | 0, _ => exact PathTo.start
      | 1, _ => simp [sel, hw] at hal
      | 2, _ => simp [sel, hw] at hal
    · simp only [hi, if_false] at this
      subst this
      simp at hfr
  · intro i h he hfr hal
    have := hget i h he
    by_cases hi : i = 0
    · subst hi; simp only [if_true] at this; subst this; simp [hw] at hal
    · simp only [hi, if_false] at this; subst this; simp at hfr
  · intro k sc hp
    cases hp
    exact ⟨_, h0, rfl, by simp [sel]⟩
  · intro i h he hfr hal
    have := hget i h he
    by_cases hi : i = 0
    · subst hi; simp only [if_true] at this; subst this; simp [hw] at hal
    · simp only [hi, if_false] at this; subst this; simp at hfr
  · intro i h f' sc _ _ hff
    omega

theorem runAux_V (tps : Array (Array Int)) (sf ef : Array Int) (sens : Nat → Array Int) (n : Nat)
    (hmono : ∀ i, i + 1 < n → ef.getD i 0 ≤ ef.getD (i + 1) 0) (hok : AllOK tps sens) (frames : List (Array Int)) :
    ∀ (s : Search) (f : Nat) (rows : List (List Tok)) (rn : Bool),
    s.hmms.length = n → rows.length = f → (∀ j (hj : j < frames.length), sens (f + j) = frames[j]) →
    ((f + frames.length : Nat) : Int) * 33022 ≤ 533000000 →
    (∀ i h, s.hmms[i]? = some h → K sf ef rows f s.best i h) →
    V tps sf ef sens n f s.hmms →
    V tps sf ef sens n (f + frames.length) (runAux tps sf ef frames s f rows rn).1.hmms := by
  induction frames with
  | nil => intro s f rows rn _ _ _ _ _ hV; exact hV
  | cons sen rest ih =>
    intro s f rows rn hn hl hs hB hK hV
    have hB1 : ((f : Int) + 1) * 33022 ≤ 533000000 := by
      simp only [List.length_cons] at hB; push_cast at hB; omega
    have hsen : sens f = sen := by have := hs 0 (by simp); simpa using this
    have hokf : FrameOK tps sen := by rw [← hsen]; exact hok f
    obtain ⟨k1, k2⟩ := step_K tps sf ef sen rows f s n (by omega) hmono hl hokf hB1 hK
    have v1 := step_V tps sf ef sens rows f s n hn hmono hok hB1 hK hV
    rw [hsen] at v1
    have e : f + (sen :: rest).length = f + 1 + rest.length := by simp only [List.length_cons]; omega
    rw [e]
    exact ih (step tps sf ef sen (f : Int) s).1 (f + 1) (rows ++ [(step tps sf ef sen (f : Int) s).2])
      (rn || decide (renormDue s.best)) (by rw [k2]; exact hn) (by simp [hl])
      (fun j hj => by
        have := hs (j + 1) (by simp; omega)
        have e2 : f + (j + 1) = f + 1 + j := by omega
        rw [e2] at this; simpa using this)
      (by rw [← e]; exact hB) k1 v1

/-- **Viterbi optimality of the aligner's search.**  Under the hypotheses of `run_wfTokens`: the final out-score is
an upper bound of the score of every admissible complete path, and when it is alive it is the score of one. -/
theorem run_optimal (tps : Array (Array Int)) (sf ef : Array Int) (frames : List (Array Int))
    (hok : ∀ sen ∈ frames, FrameOK tps sen) (hsf : sf.getD 0 0 ≤ 0)
    (hmono : ∀ i, i + 1 < sf.size → ef.getD i 0 ≤ ef.getD (i + 1) 0)
    (hT : (frames.length : Int) * 33022 ≤ 533000000)
    (hend : (frames.length : Int) ≤ ef.getD (sf.size - 1) 0) :
    (∀ sc, FullPath tps sf ef (fun g => frames.getD g #[]) sf.size frames.length sc →
      sc ≤ (run tps sf ef frames).2.1.score) ∧
    ((run tps sf ef frames).2.1.score > worst →
      FullPath tps sf ef (fun g => frames.getD g #[]) sf.size frames.length (run tps sf ef frames).2.1.score) := by
  have hw : worst = -536870912 := rfl
  by_cases hn : sf.size = 0
  · -- no phone: no complete path, dead final score
    refine ⟨?_, ?_⟩
    · rintro sc ⟨f, sc0, _, h1, _⟩; omega
    · intro hal
      exfalso
      have : (run tps sf ef frames).2.1.score = ((runAux tps sf ef frames (start sf.size) 0 [] false).1.hmms.getD (sf.size - 1) {}).out := rfl
      rw [this] at hal
      have hl := (runAux_K tps sf ef sf.size hmono frames (start sf.size) 0 [] false (by simp [start]) rfl hok
        (by simpa using hT) (k_start sf ef sf.size hsf)).2.2
      have hlen : (runAux tps sf ef frames (start sf.size) 0 [] false).1.hmms.length = 0 := by
        rw [hl]; simp [start, hn]
      rw [List.getD_eq_getElem?_getD, List.getElem?_eq_none (by omega)] at hal
      simp [hw] at hal
  · by_cases hT0 : frames.length = 0
    · -- no frame
      refine ⟨?_, ?_⟩
      · rintro sc ⟨f, sc0, h0, _⟩; omega
      · intro hal
        exfalso
        have hf : frames = [] := List.length_eq_zero_iff.1 hT0
        subst hf
        have : (run tps sf ef []).2.1.score = ((start sf.size).hmms.getD (sf.size - 1) {}).out := rfl
        rw [this] at hal
        unfold start at hal
        rw [List.getD_eq_getElem?_getD, List.getElem?_map, List.getElem?_range (by omega)] at hal
        simp only [Option.map_some, Option.getD_some] at hal
        split at hal <;> simp [hw] at hal
    · -- the data of every frame index are in range
      obtain ⟨sen0, hsen0⟩ : ∃ x, x ∈ frames := by
        cases frames with
        | nil => simp at hT0
        | cons x _ => exact ⟨x, List.mem_cons_self ..⟩
      have hall : AllOK tps (fun g => frames.getD g #[]) := by
        intro g
        by_cases hg : g < frames.length
        · have : frames.getD g #[] = frames[g] := by simp [List.getD_eq_getElem?_getD, hg]
          simp only [this]
          exact hok _ (List.getElem_mem hg)
        · have : frames.getD g #[] = #[] := by
            rw [List.getD_eq_getElem?_getD, List.getElem?_eq_none (by omega)]; rfl
          simp only [this]
          exact ⟨(hok sen0 hsen0).noskip, (hok sen0 hsen0).tp, fun k => by simp⟩
      have hlenS : (start sf.size).hmms.length = sf.size := by simp [start]
      obtain ⟨k1, k2, k3⟩ := runAux_K tps sf ef sf.size hmono frames (start sf.size) 0 [] false
        (by rw [hlenS]; exact Nat.le_refl _) rfl hok (by simpa using hT) (k_start sf ef sf.size hsf)
      have hV := runAux_V tps sf ef (fun g => frames.getD g #[]) sf.size hmono hall frames (start sf.size) 0 [] false
        hlenS rfl (fun j hj => by simp [List.getD_eq_getElem?_getD, hj]) (by simpa using hT) (k_start sf ef sf.size hsf)
        (v_start tps sf ef _ sf.size (by omega))
      simp only [Nat.zero_add] at k1 k2 hV
      have hrun : (run tps sf ef frames).2.1.score =
          ((runAux tps sf ef frames (start sf.size) 0 [] false).1.hmms.getD (sf.size - 1) {}).out := rfl
      rw [hrun]
      generalize runAux tps sf ef frames (start sf.size) 0 [] false = R at *
      have hlen : R.1.hmms.length = sf.size := by rw [k3, hlenS]
      have hidx : sf.size - 1 < R.1.hmms.length := by omega
      have hget : R.1.hmms[sf.size - 1]? = some (R.1.hmms.getD (sf.size - 1) {}) := by
        rw [List.getD_eq_getElem?_getD, List.getElem?_eq_getElem hidx]; rfl
      generalize R.1.hmms.getD (sf.size - 1) {} = last at *
      have hK := k1 (sf.size - 1) last hget
      refine ⟨?_, ?_⟩
      · rintro sc ⟨f, sc0, hTf, _, hp, hwin, rfl⟩
        -- the path can be extended by one frame, so the last HMM is active at the end
        have hext := PathTo.self hp hwin
        rw [← hTf] at hext
        obtain ⟨h, hl, hfe, _⟩ := hV.complete _ _ hext
        have hdd : (3 * (sf.size - 1) + 2) / 3 = sf.size - 1 := by omega
        rw [hdd, hget] at hl
        have : h = last := (Option.some.inj hl).symm
        subst this
        exact hV.outC (sf.size - 1) h f sc0 hget hfe hTf hp hwin
      · intro hal
        have hfr : last.frame = (frames.length : Int) := by
          have h1 := hK.frameLe
          by_cases a : last.frame < (frames.length : Int)
          · rcases hK.inact a with ⟨_, _, _, fo⟩ | hexp
            · omega
            · omega
          · omega
        obtain ⟨f', sc, h1, h2, h3, h4⟩ := hV.outS (sf.size - 1) last hget hfr hal
        exact ⟨f', sc, h1, by omega, h2, h3, h4⟩

end SSVerif.Align.Step
