import SSVerif.Proofs.LatticeSemiring
import SSVerif.Model.LatticeRound
/-!
# The generic passes: association-list form = function form (helper lemmas for C12; core Lean only)
-/
namespace SSVerif.Lattice

variable {R : Type} {L : Lat} {Q : GenParams R}

theorem lookG_cons (d : Link → R) (x : Link) (v : R) (m : GTab R) :
    lookG d ((x, v) :: m) = upd (lookG d m) x v := by
  funext y; simp [lookG, upd]

theorem alphaGenVisitT_eq (m : GTab R) (l : Link) :
    lookG (alphaGenInit Q L) (alphaGenVisitT Q L m l) = alphaGenVisit Q L (lookG (alphaGenInit Q L) m) l := by
  unfold alphaGenVisitT alphaGenVisit
  simp only
  rw [← lookG_cons]
  generalize ((l, Q.mul (lookG (alphaGenInit Q L) m l) (Q.w l)) :: m) = m0
  generalize Q.mul (lookG (alphaGenInit Q L) m l) (Q.w l) = a
  induction (exits L l.dst) generalizing m0 with
  | nil => rfl
  | cons x xs ih =>
    simp only [List.foldl_cons]
    rw [ih, lookG_cons]

/-- the association-list forward pass the driver executes computes `alphaGen` -/
theorem alphaGenT_eq : lookG (alphaGenInit Q L) (alphaGenT Q L) = alphaGen Q L := by
  unfold alphaGenT alphaGen
  have : ∀ (ord : List Link) (m : GTab R),
      lookG (alphaGenInit Q L) (ord.foldl (alphaGenVisitT Q L) m) = ord.foldl (alphaGenVisit Q L) (lookG (alphaGenInit Q L) m) := by
    intro ord
    induction ord with
    | nil => intro m; rfl
    | cons l ord ih => intro m; simp only [List.foldl_cons]; rw [ih, alphaGenVisitT_eq]
  exact this _ []

theorem betaGenVisitT_eq (m : GTab R) (l : Link) :
    lookG (fun _ => Q.zero) (betaGenVisitT Q L m l) = betaGenVisit Q L (lookG (fun _ => Q.zero) m) l := by
  unfold betaGenVisitT betaGenVisit
  split <;> rw [lookG_cons]

/-- the association-list backward pass the driver executes computes `betaGen` -/
theorem betaGenT_eq : lookG (fun _ => Q.zero) (betaGenT Q L) = betaGen Q L := by
  unfold betaGenT betaGen
  have : ∀ (ord : List Link) (m : GTab R),
      lookG (fun _ => Q.zero) (ord.foldl (betaGenVisitT Q L) m) = ord.foldl (betaGenVisit Q L) (lookG (fun _ => Q.zero) m) := by
    intro ord
    induction ord with
    | nil => intro m; rfl
    | cons l ord ih => intro m; simp only [List.foldl_cons]; rw [ih, betaGenVisitT_eq]
  exact this _ []

end SSVerif.Lattice
