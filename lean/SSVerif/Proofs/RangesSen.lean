import SSVerif.Proofs.Ranges
/-!
Helper lemmas for Props/C18, senone-score side: `fast_logmath_add`, the per-stream log-sum, the
normaliser of `ptm_mgau_codebook_norm`, the evaluation loop of `ptm_mgau_senone_eval` and its `int16`
stores.
-/
namespace SSVerif.Ranges
open SSVerif.Generated.Ranges

/-! ## fast_logmath_add -/

theorem fastLogAdd_le (tab : Nat → Nat) (x y : Int) : fastLogAdd tab x y ≤ x ∧ fastLogAdd tab x y ≤ y := by
  unfold fastLogAdd; split <;> omega

theorem fastLogAdd_ge {tab : Nat → Nat} (htab : ∀ d, tab d ≤ 255) {a x y : Int} (hx : a ≤ x) (hy : a ≤ y) :
    a - 255 ≤ fastLogAdd tab x y := by
  unfold fastLogAdd
  split
  · have := htab (x - y).toNat; omega
  · have := htab (y - x).toNat; omega

theorem foldl_fla_bounds {tab : Nat → Nat} (htab : ∀ d, tab d ≤ 255) (a : Int) :
    ∀ (ws : List Int) (acc : Int) (k : Nat), a - 255 * k ≤ acc → (∀ y ∈ ws, a ≤ y) →
      a - 255 * ((k + ws.length : Nat) : Int) ≤ ws.foldl (fastLogAdd tab) acc ∧
      ws.foldl (fastLogAdd tab) acc ≤ acc
  | [], acc, k, h, _ => by simp only [List.foldl_nil, List.length_nil, Nat.add_zero]; omega
  | y :: ys, acc, k, h, hy => by
    have hy0 := hy y (by simp)
    have h1 : a - 255 * ((k + 1 : Nat) : Int) ≤ fastLogAdd tab acc y := by
      have := fastLogAdd_ge htab (a := a - 255 * k) (x := acc) (y := y) h (by omega)
      omega
    have ih := foldl_fla_bounds htab a ys (fastLogAdd tab acc y) (k + 1) h1 (fun z hz => hy z (by simp [hz]))
    have := (fastLogAdd_le tab acc y).1
    simp only [List.foldl_cons, List.length_cons]
    refine ⟨?_, by omega⟩
    have e : k + (ys.length + 1) = k + 1 + ys.length := by omega
    rw [e]; exact ih.1

/-- the log-sum of a stream lies between `a - 255·(K-1)` and its first term -/
theorem fden_bounds {tab : Nat → Nat} (htab : ∀ d, tab d ≤ 255) {a b : Int} {K : Nat} {ws : List Int}
    (h : ∀ y ∈ ws, a ≤ y ∧ y ≤ b) (ha : a ≤ 0) (hb : 0 ≤ b) (hK : ws.length ≤ K) (hK1 : 1 ≤ K) :
    a - 255 * ((K : Int) - 1) ≤ fden tab ws ∧ fden tab ws ≤ b := by
  cases ws with
  | nil => simp only [fden]; omega
  | cons w rest =>
    have hw := h w (by simp)
    have := foldl_fla_bounds htab a rest w 0 (by omega) (fun y hy => (h y (by simp [hy])).1)
    simp only [fden]
    simp only [List.length_cons] at hK
    omega

/-! ## sums -/

theorem foldl_add_bounds (lo hi : Int) : ∀ (l : List Int) (acc : Int), (∀ x ∈ l, lo ≤ x ∧ x ≤ hi) →
    acc + lo * l.length ≤ l.foldl (· + ·) acc ∧ l.foldl (· + ·) acc ≤ acc + hi * l.length
  | [], acc, _ => by simp
  | x :: xs, acc, h => by
    have hx := h x (by simp)
    have ih := foldl_add_bounds lo hi xs (acc + x) (fun y hy => h y (by simp [hy]))
    simp only [List.foldl_cons, List.length_cons]
    have e1 : lo * ((xs.length + 1 : Nat) : Int) = lo * xs.length + lo := by
      push_cast; rw [Int.mul_add]; omega
    have e2 : hi * ((xs.length + 1 : Nat) : Int) = hi * xs.length + hi := by
      push_cast; rw [Int.mul_add]; omega
    rw [e1, e2]; omega

/-! ## shapes -/

/-- a codebook's top-N lists: at most `F` streams of at most `K` entries -/
def Shape (F K : Nat) (cbt : List (List TopN)) : Prop := cbt.length ≤ F ∧ ∀ l ∈ cbt, l.length ≤ K
/-- every top-N score is a normalised one: in `[0, MAX_NEG_ASCR]` -/
def Scores01 (cbt : List (List TopN)) : Prop := ∀ l ∈ cbt, ∀ e ∈ l, 0 ≤ e.score ∧ e.score ≤ maxNegAscr

theorem shape_knock {F K : Nat} {cbt : List (List TopN)} (h : Shape F K cbt) : Shape F K (knock cbt) := by
  unfold knock Shape at *
  refine ⟨by simpa using h.1, ?_⟩
  intro l hl
  obtain ⟨l0, hl0, rfl⟩ := List.mem_map.1 hl
  simpa using h.2 l0 hl0

theorem scores01_knock (cbt : List (List TopN)) : Scores01 (knock cbt) := by
  unfold knock Scores01
  intro l hl e he
  obtain ⟨l0, _, rfl⟩ := List.mem_map.1 hl
  obtain ⟨e0, _, rfl⟩ := List.mem_map.1 he
  have := const_facts.2.2.2.2.2.2.2.2.1
  exact ⟨this, Int.le_refl _⟩

theorem shape_nil (F K : Nat) : Shape F K [] := ⟨Nat.zero_le _, by intro l hl; cases hl⟩
theorem scores01_nil : Scores01 [] := by intro l hl; cases hl

/-- bounds of one senone's `ascore` -/
theorem ascore_bounds {tab : Nat → Nat} (htab : ∀ d, tab d ≤ 255) {m : Mixw} {M : Int} {F K : Nat} {sen : Nat}
    (hm : ∀ f cw s, 0 ≤ m.get true f cw s ∧ m.get true f cw s ≤ M) (hK1 : 1 ≤ K)
    {cbt : List (List TopN)} (hs : Shape F K cbt) (h01 : Scores01 cbt) :
    (-(255 * ((K : Int) - 1))) * F ≤ ascoreOf tab m sen cbt ∧ ascoreOf tab m sen cbt ≤ (M + maxNegAscr) * F := by
  have hA := const_facts.2.2.2.2.2.2.2.2.1
  have hM : 0 ≤ M := Int.le_trans (hm 0 0 0).1 (hm 0 0 0).2
  unfold ascoreOf
  have hb := foldl_add_bounds (-(255 * ((K : Int) - 1))) (M + maxNegAscr)
    (cbt.mapIdx fun f l => fden tab (l.map fun e => m.get true f e.cw sen + e.score)) 0 (by
      intro x hx
      obtain ⟨i, hi, rfl⟩ := List.mem_mapIdx.1 hx
      have hl : cbt[i] ∈ cbt := List.getElem_mem hi
      have := fden_bounds htab (a := 0) (b := M + maxNegAscr) (K := K)
        (ws := cbt[i].map fun e => m.get true i e.cw sen + e.score) (by
          intro y hy
          obtain ⟨e, he, rfl⟩ := List.mem_map.1 hy
          have h1 := hm i e.cw sen
          have h2 := h01 _ hl e he
          omega) (Int.le_refl _) (by omega) (by simpa using hs.2 _ hl) hK1
      omega)
  rw [List.length_mapIdx] at hb
  have hlen : ((cbt.length : Nat) : Int) ≤ (F : Int) := by exact_mod_cast hs.1
  have h1 : (-(255 * ((K : Int) - 1))) * F ≤ (-(255 * ((K : Int) - 1))) * cbt.length :=
    Int.mul_le_mul_of_nonpos_left (by omega) hlen
  have h2 : (M + maxNegAscr) * cbt.length ≤ (M + maxNegAscr) * F :=
    Int.mul_le_mul_of_nonneg_left hlen (by omega)
  omega

/-! ## the evaluation loop -/

theorem getD_set_list {α : Type} (l : List α) (i j : Nat) (a d : α) :
    (l.set i a).getD j d = if i = j ∧ i < l.length then a else l.getD j d := by
  simp only [List.getD_eq_getElem?_getD, List.getElem?_set]
  by_cases h : i = j
  · subst h
    by_cases h2 : i < l.length
    · simp [h2]
    · simp [h2]
  · simp [h]

/-- loop invariant of `evalSeq`: every codebook has the right shape, active ones hold normalised scores -/
def Inv (F K : Nat) (active : List Bool) (t : TopTab) : Prop :=
  ∀ cb, Shape F K (t.getD cb []) ∧ (active.getD cb false = true → Scores01 (t.getD cb []))

theorem evalSeq_spec {tab : Nat → Nat} (htab : ∀ d, tab d ≤ 255) {m : Mixw} {M : Int} {F K : Nat}
    (hm : ∀ f cw s, 0 ≤ m.get true f cw s ∧ m.get true f cw s ≤ M) (hK1 : 1 ≤ K)
    (sen2cb : List Nat) (active : List Bool) :
    ∀ (sens : List Nat) (t : TopTab), Inv F K active t →
      (evalSeq tab m sen2cb active t sens).2.map Prod.fst = sens ∧
      (∀ p ∈ (evalSeq tab m sen2cb active t sens).2,
        (-(255 * ((K : Int) - 1))) * F ≤ p.2 ∧ p.2 ≤ (M + maxNegAscr) * F) ∧
      Inv F K active (evalSeq tab m sen2cb active t sens).1
  | [], t, hI => by simp [evalSeq, hI]
  | sen :: rest, t, hI => by
    simp only [evalSeq]
    generalize hcb : sen2cb.getD sen 0 = cb
    by_cases hact : active.getD cb false = true
    · simp only [hact, if_true]
      have ih := evalSeq_spec htab hm hK1 sen2cb active rest t hI
      refine ⟨by simp [ih.1], ?_, ih.2.2⟩
      intro p hp
      rcases List.mem_cons.1 hp with rfl | hp
      · exact ascore_bounds htab hm hK1 (hI cb).1 ((hI cb).2 hact)
      · exact ih.2.1 p hp
    · simp only [hact]
      have hI' : Inv F K active (t.set cb (knock (t.getD cb []))) := by
        intro cb'
        rw [getD_set_list]
        by_cases h : cb = cb' ∧ cb < t.length
        · rw [if_pos h]
          exact ⟨shape_knock (hI cb).1, fun _ => scores01_knock _⟩
        · rw [if_neg h]; exact hI cb'
      have hcur : Shape F K ((t.set cb (knock (t.getD cb []))).getD cb []) ∧
          Scores01 ((t.set cb (knock (t.getD cb []))).getD cb []) := by
        rw [getD_set_list]
        by_cases h : cb < t.length
        · rw [if_pos ⟨rfl, h⟩]; exact ⟨shape_knock (hI cb).1, scores01_knock _⟩
        · rw [if_neg (by intro hh; exact h hh.2)]
          have : t.getD cb [] = [] := by
            simp [List.getD_eq_getElem?_getD, List.getElem?_eq_none (Nat.le_of_not_lt h)]
          rw [this]; exact ⟨shape_nil F K, scores01_nil⟩
      have ih := evalSeq_spec htab hm hK1 sen2cb active rest _ hI'
      simp only [Bool.false_eq_true, if_false]
      refine ⟨by simp only [List.map_cons]; rw [ih.1], ?_, ih.2.2⟩
      intro p hp
      rcases List.mem_cons.1 hp with rfl | hp
      · exact ascore_bounds htab hm hK1 hcur.1 hcur.2
      · exact ih.2.1 p hp

/-! ## the int16 stores -/

theorem wrap16_id {x : Int} (h : -32768 ≤ x ∧ x ≤ 32767) : wrap16 x = x := by
  unfold wrap16; omega

theorem writeAll_length : ∀ (ps : List (Nat × Int)) (sc : List Int) (b : Int),
    (writeAll sc b ps).1.length = sc.length
  | [], sc, b => rfl
  | (sen, a) :: r, sc, b => by
    simp only [writeAll]; rw [writeAll_length r]; simp

theorem writeAll_untouched : ∀ (ps : List (Nat × Int)) (sc : List Int) (b : Int) (i : Nat),
    i ∉ ps.map Prod.fst → (writeAll sc b ps).1[i]? = sc[i]?
  | [], sc, b, i, _ => rfl
  | (sen, a) :: r, sc, b, i, h => by
    simp only [List.map_cons, List.mem_cons, not_or] at h
    simp only [writeAll]
    rw [writeAll_untouched r _ _ i h.2, List.getElem?_set_ne (fun e => h.1 e.symm)]

/-- what the loop leaves behind: the running minimum and, for every evaluated senone, its `ascore` -/
theorem writeAll_spec {lo hi : Int} (hlo : -32768 ≤ lo) (hhi : hi ≤ 32767) :
    ∀ (ps : List (Nat × Int)) (sc : List Int) (b : Int),
      (ps.map Prod.fst).Nodup → (∀ p ∈ ps, p.1 < sc.length) → (∀ p ∈ ps, lo ≤ p.2 ∧ p.2 ≤ hi) →
      (∀ p ∈ ps, (writeAll sc b ps).1[p.1]? = some p.2) ∧
      (writeAll sc b ps).2 ≤ b ∧ (∀ p ∈ ps, (writeAll sc b ps).2 ≤ p.2) ∧
      ((writeAll sc b ps).2 = b ∨ ∃ p ∈ ps, p.2 = (writeAll sc b ps).2)
  | [], sc, b, _, _, _ => by simp [writeAll]
  | (sen, a) :: r, sc, b, hnd, hlt, hr => by
    simp only [List.map_cons, List.nodup_cons] at hnd
    have ha := hr (sen, a) (by simp)
    have hsen := hlt (sen, a) (by simp)
    have ih := writeAll_spec hlo hhi r (sc.set sen (wrap16 a)) (if a < b then a else b) hnd.2
      (fun p hp => by rw [List.length_set]; exact hlt p (by simp [hp]))
      (fun p hp => hr p (by simp [hp]))
    simp only [writeAll]
    refine ⟨?_, ?_, ?_, ?_⟩
    · intro p hp
      rcases List.mem_cons.1 hp with rfl | hp
      · simp only
        rw [writeAll_untouched r _ _ sen hnd.1, List.getElem?_set_self hsen, wrap16_id (by omega)]
      · exact ih.1 p hp
    · have := ih.2.1; split at this <;> omega
    · intro p hp
      rcases List.mem_cons.1 hp with rfl | hp
      · have := ih.2.1; simp only; split at this <;> omega
      · exact ih.2.2.1 p hp
    · rcases ih.2.2.2 with h | ⟨p, hp, h⟩
      · by_cases hab : a < b
        · right; exact ⟨(sen, a), by simp, by rw [h]; simp [hab]⟩
        · left; rw [h]; simp [hab]
      · right; exact ⟨p, by simp [hp], h⟩

/-! ## the normaliser of `ptm_mgau_codebook_norm` -/

theorem foldl_norm_ge (g : Bool × List (List TopN) → Int) :
    ∀ (l : List (Bool × List (List TopN))) (init : Int),
      init ≤ l.foldl (fun n p => if p.1 then (let x := g p; if n < x then x else n) else n) init ∧
      ∀ p ∈ l, p.1 = true → g p ≤ l.foldl (fun n p => if p.1 then (let x := g p; if n < x then x else n) else n) init
  | [], init => by simp
  | q :: qs, init => by
    simp only [List.foldl_cons]
    have ih := foldl_norm_ge g qs (if q.1 then (let x := g q; if init < x then x else init) else init)
    have h0 : init ≤ (if q.1 then (let x := g q; if init < x then x else init) else init) := by
      split
      · simp only; split <;> omega
      · omega
    refine ⟨Int.le_trans h0 ih.1, ?_⟩
    intro p hp hp1
    rcases List.mem_cons.1 hp with rfl | hp
    · refine Int.le_trans ?_ ih.1
      simp only [hp1, if_true]; split <;> omega
    · exact ih.2 p hp hp1

/-- the normaliser of feature `j` is at least the (shifted) best density of every active codebook, and
at least `WORST_SCORE` -/
theorem ptmNormOf_ge (active : List Bool) (t : TopTab) (j : Nat) :
    WORST ≤ ptmNormOf active t j ∧
    ∀ p ∈ active.zip t, p.1 = true → shr (headScore (p.2.getD j [])) ≤ ptmNormOf active t j := by
  unfold ptmNormOf
  exact foldl_norm_ge (fun p => shr (headScore (p.2.getD j []))) (active.zip t) WORST

theorem foldl_norm_mem (g : Bool × List (List TopN) → Int) :
    ∀ (l : List (Bool × List (List TopN))) (init : Int),
      l.foldl (fun n p => if p.1 then (let x := g p; if n < x then x else n) else n) init = init ∨
      ∃ p ∈ l, p.1 = true ∧ g p = l.foldl (fun n p => if p.1 then (let x := g p; if n < x then x else n) else n) init
  | [], init => by simp
  | q :: qs, init => by
    simp only [List.foldl_cons]
    rcases foldl_norm_mem g qs (if q.1 then (let x := g q; if init < x then x else init) else init) with h | ⟨p, hp, h1, h2⟩
    · rw [h]
      by_cases hq : q.1 = true
      · simp only [hq, if_true]
        by_cases hlt : init < g q
        · right; exact ⟨q, by simp, hq, by simp [hlt]⟩
        · left; simp [hlt]
      · left; simp [hq]
    · right; exact ⟨p, by simp [hp], h1, h2⟩

theorem normScore_range {norm s : Int} (h : shr s ≤ norm) :
    0 ≤ normScore norm s ∧ normScore norm s ≤ maxNegAscr := by
  have hA := const_facts.2.2.2.2.2.2.2.2.1
  unfold normScore
  simp only
  split <;> omega

theorem normScore_zero {norm s : Int} (h : shr s = norm) : normScore norm s = 0 := by
  have hA := const_facts.2.2.2.2.2.2.2.2.1
  unfold normScore
  simp only
  split <;> omega

/-- no int32 overflow inside `score >>= SHIFT; score -= norm; score = -score` -/
theorem normScore_no_wrap {norm s : Int} (hs : I32 s) (hn : WORST ≤ norm ∧ norm ≤ 2097151) :
    I32 (shr s) ∧ I32 (shr s - norm) ∧ I32 (-(shr s - norm)) := by
  have hW := worst_room2
  have hW0 := worst_le_zero
  simp only [i32_iff, shr_eq] at *
  omega


/-! ## the top-N lists stay sorted (`insertion_sort_topn`, `insertion_sort_cb`) -/

/-- sorted best-first: every entry scores at least as much as every later one -/
def SortedDesc (l : List TopN) : Prop := l.Pairwise (fun a b => a.score ≥ b.score)
/-- the same list seen from its end (as the C loops scan it) -/
def SortedAsc (l : List TopN) : Prop := l.Pairwise (fun a b => a.score ≤ b.score)

theorem sortedDesc_iff_rev (l : List TopN) : SortedDesc l ↔ SortedAsc l.reverse := by
  unfold SortedDesc SortedAsc
  rw [List.pairwise_reverse]

theorem beats_le {strict : Bool} {e x : TopN} (h : beats strict e x = true) : x.score ≤ e.score := by
  unfold beats at h
  cases strict <;> simp at h <;> omega

theorem not_beats_le {strict : Bool} {e x : TopN} (h : ¬ beats strict e x = true) : e.score ≤ x.score := by
  unfold beats at h
  cases strict <;> simp at h <;> omega

theorem mem_insRev (strict : Bool) (e : TopN) : ∀ (l : List TopN) (x : TopN),
    x ∈ insRev strict e l ↔ x = e ∨ x ∈ l
  | [], x => by simp [insRev]
  | y :: ys, x => by
    unfold insRev
    by_cases hb : beats strict e y = true
    · rw [if_pos hb]
      simp only [List.mem_cons, mem_insRev strict e ys x]
      constructor
      · rintro (h | h | h)
        · exact Or.inr (Or.inl h)
        · exact Or.inl h
        · exact Or.inr (Or.inr h)
      · rintro (h | h | h)
        · exact Or.inr (Or.inl h)
        · exact Or.inl h
        · exact Or.inr (Or.inr h)
    · rw [if_neg hb]
      simp only [List.mem_cons]

/-- one right-to-left insertion scan keeps an ascending (reversed) list ascending — for either comparison -/
theorem insRev_sorted (strict : Bool) (e : TopN) : ∀ (l : List TopN), SortedAsc l → SortedAsc (insRev strict e l)
  | [], _ => by simp [insRev, SortedAsc]
  | y :: ys, h => by
    unfold SortedAsc at h ⊢
    obtain ⟨hy, hys⟩ := List.pairwise_cons.1 h
    unfold insRev
    by_cases hb : beats strict e y = true
    · rw [if_pos hb]
      refine List.pairwise_cons.2 ⟨?_, insRev_sorted strict e ys hys⟩
      intro a ha
      rcases (mem_insRev strict e ys a).1 ha with rfl | ha
      · exact beats_le hb
      · exact hy a ha
    · rw [if_neg hb]
      refine List.pairwise_cons.2 ⟨?_, h⟩
      intro a ha
      have hey := not_beats_le hb
      rcases List.mem_cons.1 ha with rfl | ha
      · exact hey
      · exact Int.le_trans hey (hy a ha)

theorem insertTopn_sorted (e : TopN) {pre : List TopN} (h : SortedDesc pre) : SortedDesc (insertTopn e pre) := by
  unfold insertTopn
  rw [sortedDesc_iff_rev, List.reverse_reverse]
  exact insRev_sorted true e _ ((sortedDesc_iff_rev pre).1 h)

theorem insertCb_sorted (e : TopN) {l : List TopN} (h : SortedDesc l) : SortedDesc (insertCb e l) := by
  unfold insertCb
  rw [sortedDesc_iff_rev, List.reverse_reverse]
  apply insRev_sorted
  exact List.Pairwise.sublist (List.drop_sublist 1 _) ((sortedDesc_iff_rev l).1 h)

theorem foldl_insertTopn_sorted (score : Nat → Int) : ∀ (l pre : List TopN), SortedDesc pre →
    SortedDesc (l.foldl (fun pre x => insertTopn { x with score := score x.cw } pre) pre)
  | [], pre, h => h
  | x :: xs, pre, h => by
    simp only [List.foldl_cons]
    exact foldl_insertTopn_sorted score xs _ (insertTopn_sorted _ h)

theorem evalTopn_sorted (score : Nat → Int) (l : List TopN) : SortedDesc (evalTopn score l) :=
  foldl_insertTopn_sorted score l [] List.Pairwise.nil

theorem evalCb_sorted (dens : Nat → Int) (nden : Nat) {l : List TopN} (h : SortedDesc l) :
    SortedDesc (evalCb dens nden l) := by
  unfold evalCb
  generalize List.range nden = cws
  induction cws generalizing l with
  | nil => exact h
  | cons cw rest ih =>
    simp only [List.foldl_cons]
    apply ih
    split
    · exact h
    · split
      · exact h
      · exact insertCb_sorted _ h

/-- in a sorted list the first entry is the best one -/
theorem head_is_max {l : List TopN} (h : SortedDesc l) : ∀ e ∈ l, e.score ≤ headScore l := by
  cases l with
  | nil => intro e he; cases he
  | cons x xs =>
    intro e he
    unfold SortedDesc at h
    obtain ⟨hx, _⟩ := List.pairwise_cons.1 h
    simp only [headScore, List.headD_cons]
    rcases List.mem_cons.1 he with rfl | he
    · exact Int.le_refl _
    · exact hx e he

end SSVerif.Ranges
