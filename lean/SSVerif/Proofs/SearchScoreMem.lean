import SSVerif.Proofs.SearchScoreHmm
import SSVerif.Proofs.SearchScoreHist
/-! Membership characterisations of the lists the scoring model and the lextree network are made of. Core Lean only. -/
namespace SSVerif.SearchScore
open SSVerif.Viterbi SSVerif.Hmm SSVerif.Search SSVerif.Hist
open SSVerif.FlatNet (hmmEdges hmmExits st shiftS)

/-- destination FSG state of the word arc of leaf `p` -/
def dstOf (E : Env) (p : Nat) : Nat := (E.g.link (E.node p).link).dst

theorem mem_reach {g : Fsg} {s d : Nat} {hop : Int} :
    (d, hop) ∈ reach g s ↔ (d = s ∧ hop = 0) ∨ ∃ lid l, (lid, l) ∈ nullFrom g s ∧ d = l.dst ∧ hop = shiftS l.logp := by
  unfold reach
  simp only [List.mem_cons, Prod.mk.injEq, List.mem_map, Prod.exists]
  constructor
  · rintro (h | ⟨lid, l, hm, h1, h2⟩)
    · exact Or.inl h
    · exact Or.inr ⟨lid, l, hm, h1.symm, h2.symm⟩
  · rintro (h | ⟨lid, l, hm, h1, h2⟩)
    · exact Or.inl h
    · exact Or.inr ⟨lid, l, hm, h1.symm, h2.symm⟩

theorem mem_exitCands {E : Env} {out : Nat → Option Int} {x : Cand} :
    x ∈ exitCands E out ↔ ∃ p, p < E.n ∧ (E.node p).leaf = true ∧ ∃ v, out p = some v ∧
      x = (dstOf E p, (E.node p).ciExt, ⟨v, rcOf E p, (E.node p).link⟩) := by
  unfold exitCands dstOf
  simp only [List.mem_filterMap, List.mem_range]
  constructor
  · rintro ⟨p, hp, h⟩
    cases hl : (E.node p).leaf with
    | false => simp [hl] at h
    | true =>
      simp only [hl, if_true] at h
      cases ho : out p with
      | none => simp [ho] at h
      | some v =>
        simp only [ho, Option.map_some, Option.some.injEq] at h
        exact ⟨p, hp, hl, v, ho, h.symm⟩
  · rintro ⟨p, hp, hl, v, ho, rfl⟩
    exact ⟨p, hp, by simp [hl, ho]⟩

theorem mem_nullCands {E : Env} {toks : List Tok} {x : Cand} :
    x ∈ nullCands E toks ↔ ∃ tk ∈ toks, ∃ lid l, (lid, l) ∈ nullFrom E.g tk.dst ∧
      x = (l.dst, tk.lc, ⟨tk.score + shiftS l.logp, tk.rc, lid⟩) := by
  unfold nullCands
  simp only [List.mem_flatMap, List.mem_map, Prod.exists]
  constructor
  · rintro ⟨tk, htk, lid, l, hm, rfl⟩
    exact ⟨tk, htk, lid, l, hm, rfl⟩
  · rintro ⟨tk, htk, lid, l, hm, rfl⟩
    exact ⟨tk, htk, lid, l, hm, rfl⟩

theorem mem_phoneRelax {E : Env} {out : Nat → Option Int} {c : Nat} {v : Int} :
    (c, v) ∈ phoneRelax E out ↔ ∃ q, q < E.n ∧ (E.node q).leaf = false ∧ ∃ w, out q = some w ∧
      c ∈ E.lt.children q ∧ v = w + (E.node c).logs2prob := by
  unfold phoneRelax
  simp only [List.mem_flatMap, List.mem_range]
  constructor
  · rintro ⟨q, hq, h⟩
    cases hl : (E.node q).leaf with
    | true => simp [hl] at h
    | false =>
      cases ho : out q with
      | none => simp [hl, ho] at h
      | some w =>
        simp only [hl, ho, Bool.false_eq_true, if_false, List.mem_map, Prod.mk.injEq] at h
        obtain ⟨c', hc', rfl, rfl⟩ := h
        exact ⟨q, hq, hl, w, ho, hc', rfl⟩
  · rintro ⟨q, hq, hl, w, ho, hc, rfl⟩
    refine ⟨q, hq, ?_⟩
    simp only [hl, ho, Bool.false_eq_true, if_false, List.mem_map, Prod.mk.injEq]
    exact ⟨c, hc, rfl, rfl⟩

theorem mem_wordRelax {E : Env} {toks : List Tok} {r : Nat} {v : Int} :
    (r, v) ∈ wordRelax E toks ↔ ∃ tk ∈ toks, r ∈ E.lt.roots tk.dst ∧ admits E tk.lc tk.rc r = true ∧
      v = tk.score + (E.node r).logs2prob := by
  unfold wordRelax
  simp only [List.mem_flatMap, List.mem_filterMap]
  constructor
  · rintro ⟨tk, htk, r', hr', h⟩
    cases ha : admits E tk.lc tk.rc r' with
    | false => simp [ha] at h
    | true =>
      simp only [ha, if_true, Option.some.injEq, Prod.mk.injEq] at h
      obtain ⟨rfl, rfl⟩ := h
      exact ⟨tk, htk, hr', ha, rfl⟩
  · rintro ⟨tk, htk, hr, ha, rfl⟩
    exact ⟨tk, htk, r, hr, by simp [ha]⟩

/-! ### the lextree network -/

theorem mem_edges {E : Env} {i j : Nat} {c : Int} :
    (i, j, c) ∈ (treeNet E).edges ↔
      (∃ q, q < E.n ∧ (i, j, c) ∈ hmmEdges (E.tp q) q) ∨
      (∃ q, q < E.n ∧ (E.node q).leaf = false ∧ ∃ ch, ch ∈ E.lt.children q ∧ ∃ k cx, (k, cx) ∈ hmmExits (E.tp q) ∧
        i = st q k ∧ j = st ch 0 ∧ c = cx + (E.node ch).logs2prob) ∨
      (∃ q, q < E.n ∧ (E.node q).leaf = true ∧ ∃ d hop, (d, hop) ∈ reach E.g (dstOf E q) ∧ ∃ r, r ∈ E.lt.roots d ∧
        admits E (E.node q).ciExt (rcOf E q) r = true ∧ ∃ k cx, (k, cx) ∈ hmmExits (E.tp q) ∧
        i = st q k ∧ j = st r 0 ∧ c = cx + hop + (E.node r).logs2prob) := by
  unfold treeNet dstOf
  simp only [List.mem_append, List.mem_flatMap, List.mem_range]
  constructor
  · rintro ((⟨q, hq, h⟩ | ⟨q, hq, h⟩) | ⟨q, hq, h⟩)
    · exact Or.inl ⟨q, hq, h⟩
    · right; left
      cases hl : (E.node q).leaf with
      | true => simp [hl] at h
      | false =>
        simp only [hl, Bool.false_eq_true, if_false, List.mem_flatMap, List.mem_map, Prod.mk.injEq, Prod.exists] at h
        obtain ⟨ch, hch, k, cx, hm, rfl, rfl, rfl⟩ := h
        exact ⟨q, hq, hl, ch, hch, k, cx, hm, rfl, rfl, rfl⟩
    · right; right
      cases hl : (E.node q).leaf with
      | false => simp [hl] at h
      | true =>
        simp only [hl, Bool.not_true, Bool.false_eq_true, if_false, List.mem_flatMap, Prod.exists] at h
        obtain ⟨d, hop, hr, r, hrr, h⟩ := h
        cases ha : admits E (E.node q).ciExt (rcOf E q) r with
        | false => simp [ha] at h
        | true =>
          simp only [ha, if_true, List.mem_map, Prod.mk.injEq, Prod.exists] at h
          obtain ⟨k, cx, hm, rfl, rfl, rfl⟩ := h
          exact ⟨q, hq, hl, d, hop, hr, r, hrr, ha, k, cx, hm, rfl, rfl, rfl⟩
  · rintro (⟨q, hq, h⟩ | ⟨q, hq, hl, ch, hch, k, cx, hm, rfl, rfl, rfl⟩ |
      ⟨q, hq, hl, d, hop, hr, r, hrr, ha, k, cx, hm, rfl, rfl, rfl⟩)
    · exact Or.inl (Or.inl ⟨q, hq, h⟩)
    · left; right
      refine ⟨q, hq, ?_⟩
      simp only [hl, Bool.false_eq_true, if_false, List.mem_flatMap, List.mem_map, Prod.mk.injEq, Prod.exists]
      exact ⟨ch, hch, k, cx, hm, rfl, rfl, rfl⟩
    · right
      refine ⟨q, hq, ?_⟩
      simp only [hl, Bool.not_true, Bool.false_eq_true, if_false, List.mem_flatMap, Prod.exists]
      refine ⟨d, hop, hr, r, hrr, ?_⟩
      simp only [ha, if_true, List.mem_map, Prod.exists]
      exact ⟨k, cx, hm, rfl⟩

theorem mem_init {E : Env} {j : Nat} {x : Int} :
    (j, x) ∈ (treeNet E).init ↔ ∃ d hop, (d, hop) ∈ reach E.g E.g.start ∧ ∃ r, r ∈ E.lt.roots d ∧
      admits E E.sil allCtx r = true ∧ j = st r 0 ∧ x = hop + (E.node r).logs2prob := by
  unfold treeNet
  simp only [List.mem_flatMap, List.mem_filterMap, Prod.exists]
  constructor
  · rintro ⟨d, hop, hr, r, hrr, h⟩
    cases ha : admits E E.sil allCtx r with
    | false => simp [ha] at h
    | true =>
      simp only [ha, if_true, Option.some.injEq, Prod.mk.injEq] at h
      exact ⟨d, hop, hr, r, hrr, ha, h.1.symm, h.2.symm⟩
  · rintro ⟨d, hop, hr, r, hrr, ha, rfl, rfl⟩
    exact ⟨d, hop, hr, r, hrr, by simp [ha]⟩

theorem mem_exits {E : Env} {i : Nat} {c : Int} :
    (i, c) ∈ (treeNet E).exits ↔ ∃ q, q < E.n ∧ (E.node q).leaf = true ∧ ∃ hop, (E.g.final, hop) ∈ reach E.g (dstOf E q) ∧
      ∃ k cx, (k, cx) ∈ hmmExits (E.tp q) ∧ i = st q k ∧ c = cx + hop := by
  unfold treeNet dstOf
  simp only [List.mem_flatMap, List.mem_range, Prod.exists]
  constructor
  · rintro ⟨q, hq, h⟩
    cases hl : (E.node q).leaf with
    | false => simp [hl] at h
    | true =>
      simp only [hl, Bool.not_true, Bool.false_eq_true, if_false, List.mem_flatMap, Prod.exists] at h
      obtain ⟨d, hop, hr, h⟩ := h
      by_cases hd : d = E.g.final
      · subst hd
        simp only [if_true, List.mem_map, Prod.mk.injEq, Prod.exists] at h
        obtain ⟨k, cx, hm, rfl, rfl⟩ := h
        exact ⟨q, hq, hl, hop, hr, k, cx, hm, rfl, rfl⟩
      · simp [hd] at h
  · rintro ⟨q, hq, hl, hop, hr, k, cx, hm, rfl, rfl⟩
    refine ⟨q, hq, ?_⟩
    simp only [hl, Bool.not_true, Bool.false_eq_true, if_false, List.mem_flatMap, Prod.exists]
    refine ⟨E.g.final, hop, hr, ?_⟩
    simp only [if_true, List.mem_map, Prod.mk.injEq, Prod.exists]
    exact ⟨k, cx, hm, rfl, rfl⟩

end SSVerif.SearchScore
