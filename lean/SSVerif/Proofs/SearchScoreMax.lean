import SSVerif.Model.SearchScore
import SSVerif.Proofs.Viterbi
/-! `IsMax P x`: the `Option Int` value `x` is the maximum of the set of integers `P` (`none` = empty set).
All score identities of the search proof are stated in this form: every quantity of the model and every DP
cell is the maximum of an explicitly described set of candidates, and two quantities are equal when their
candidate sets are equal (or cofinal in each other). Core Lean only. -/
namespace SSVerif.SearchScore
open SSVerif.Viterbi SSVerif.Hmm

def IsMax (P : Int → Prop) (x : Option Int) : Prop :=
  (∀ v, x = some v → P v) ∧ (∀ v, P v → ole (some v) x)

theorem ole_some_some {a b : Int} : ole (some a) (some b) ↔ a ≤ b := by simp [ole]
theorem ole_some_none {a : Int} : ¬ ole (some a) none := by simp [ole]

theorem ole_some_elim' {a : Int} {x : Option Int} (h : ole (some a) x) : ∃ w, x = some w ∧ a ≤ w := by
  cases x with
  | none => exact absurd h ole_some_none
  | some w => exact ⟨w, rfl, ole_some_some.mp h⟩

theorem ole_antisymm' {a b : Option Int} (h1 : ole a b) (h2 : ole b a) : a = b := by
  cases a <;> cases b <;> simp_all [ole]; omega

theorem IsMax.unique {P : Int → Prop} {x y : Option Int} (hx : IsMax P x) (hy : IsMax P y) : x = y := by
  apply ole_antisymm'
  · cases x with
    | none => trivial
    | some v => exact hy.2 v (hx.1 v rfl)
  · cases y with
    | none => trivial
    | some v => exact hx.2 v (hy.1 v rfl)

theorem IsMax.congr {P Q : Int → Prop} {x : Option Int} (hx : IsMax P x) (h : ∀ v, P v ↔ Q v) : IsMax Q x :=
  ⟨fun v hv => (h v).mp (hx.1 v hv), fun v hv => hx.2 v ((h v).mpr hv)⟩

/-- `P ⊆ Q` and `P` is cofinal in `Q`: same maximum -/
theorem IsMax.cofinal {P Q : Int → Prop} {x : Option Int} (hx : IsMax P x) (hsub : ∀ v, P v → Q v)
    (hcof : ∀ v, Q v → ∃ w, P w ∧ v ≤ w) : IsMax Q x := by
  refine ⟨fun v hv => hsub v (hx.1 v hv), fun v hv => ?_⟩
  obtain ⟨w, hw, hle⟩ := hcof v hv
  exact ole_trans (ole_some_some.mpr hle) (hx.2 w hw)

/-- two sets cofinal in each other have the same maximum -/
theorem IsMax.eq_of_cofinal {P Q : Int → Prop} {x y : Option Int} (hx : IsMax P x) (hy : IsMax Q y)
    (h1 : ∀ v, P v → ∃ w, Q w ∧ v ≤ w) (h2 : ∀ v, Q v → ∃ w, P w ∧ v ≤ w) : x = y := by
  apply ole_antisymm'
  · cases x with
    | none => trivial
    | some v =>
      obtain ⟨w, hw, hle⟩ := h1 v (hx.1 v rfl)
      exact ole_trans (ole_some_some.mpr hle) (hy.2 w hw)
  · cases y with
    | none => trivial
    | some v =>
      obtain ⟨w, hw, hle⟩ := h2 v (hy.1 v rfl)
      exact ole_trans (ole_some_some.mpr hle) (hx.2 w hw)

theorem isMax_none : IsMax (fun _ => False) none := by
  constructor
  · intro v h; cases h
  · intro v h; exact False.elim h

theorem IsMax.none_iff {P : Int → Prop} {x : Option Int} (hx : IsMax P x) : x = none ↔ ∀ v, ¬ P v := by
  constructor
  · intro h v hv
    have := hx.2 v hv
    rw [h] at this
    exact ole_some_none this
  · intro h
    cases x with
    | none => rfl
    | some v => exact absurd (hx.1 v rfl) (h v)

theorem isMax_some (c : Int) : IsMax (fun v => v = c) (some c) :=
  ⟨fun v h => by cases h; rfl, fun v h => by subst h; exact ole_refl _⟩

theorem isMax_best (l : List (Option Int)) : IsMax (fun v => some v ∈ l) (best l) := by
  refine ⟨fun v hv => ?_, fun v hv => best_ge hv⟩
  rcases best_mem l with h | h
  · rw [h] at hv; cases hv
  · rw [hv] at h; exact h

theorem IsMax.omax {P Q : Int → Prop} {a b : Option Int} (ha : IsMax P a) (hb : IsMax Q b) :
    IsMax (fun v => P v ∨ Q v) (omax a b) := by
  refine ⟨fun v hv => ?_, fun v hv => ?_⟩
  · rcases omax_cases a b with h | h
    · left; exact ha.1 v (h ▸ hv)
    · right; exact hb.1 v (h ▸ hv)
  · rcases hv with h | h
    · exact ole_trans (ha.2 v h) (ole_omax_left a b)
    · exact ole_trans (hb.2 v h) (ole_omax_right a b)

theorem IsMax.oadd {P : Int → Prop} {a : Option Int} (ha : IsMax P a) (c : Int) :
    IsMax (fun v => ∃ u, P u ∧ v = u + c) (oadd a c) := by
  unfold Hmm.oadd
  refine ⟨fun v hv => ?_, fun v hv => ?_⟩
  · cases a with
    | none => cases hv
    | some u =>
      simp only [Option.map_some, Option.some.injEq] at hv
      exact ⟨u, ha.1 u rfl, hv.symm⟩
  · obtain ⟨u, hu, rfl⟩ := hv
    have := ha.2 u hu
    cases a with
    | none => exact absurd this ole_some_none
    | some w =>
      simp only [Option.map_some]
      rw [ole_some_some] at this ⊢
      omega

/-- maximum of maxima -/
theorem isMax_bestMap {ι : Type} (l : List ι) (f : ι → Option Int) (P : ι → Int → Prop)
    (h : ∀ i ∈ l, IsMax (P i) (f i)) : IsMax (fun v => ∃ i ∈ l, P i v) (best (l.map f)) := by
  refine ⟨fun v hv => ?_, fun v hv => ?_⟩
  · have := (isMax_best (l.map f)).1 v hv
    obtain ⟨i, hi, hfi⟩ := List.mem_map.mp this
    exact ⟨i, hi, (h i hi).1 v hfi⟩
  · obtain ⟨i, hi, hp⟩ := hv
    exact ole_trans ((h i hi).2 v hp) (best_ge (List.mem_map.mpr ⟨i, hi, rfl⟩))

/-! ### the DP cells as maxima -/

theorem isMax_v0 (N : Net) (j : Nat) : IsMax (fun x => (j, x) ∈ N.init) (v0 N j) := by
  unfold v0
  refine (isMax_best _).congr fun v => ?_
  simp only [List.mem_map]
  constructor
  · rintro ⟨⟨s, c⟩, hm, he⟩
    simp only at he
    split at he
    · rename_i hs
      cases he
      subst hs
      exact hm
    · cases he
  · intro h
    exact ⟨(j, v), h, by simp⟩

theorem isMax_stepV (N : Net) (em : Nat → Int) (v : Nat → Option Int) (j : Nat) :
    IsMax (fun x => ∃ i c u, (i, j, c) ∈ N.edges ∧ v i = some u ∧ x = u + em i + c) (stepV N em v j) := by
  unfold stepV
  refine (isMax_best _).congr fun x => ?_
  simp only [List.mem_map]
  constructor
  · rintro ⟨⟨i, j', c⟩, hm, he⟩
    simp only at he
    split at he
    · rename_i hs
      subst hs
      cases hv : v i with
      | none => rw [hv] at he; cases he
      | some u =>
        rw [hv] at he
        simp only [Option.map_some, Option.some.injEq] at he
        exact ⟨i, c, u, hm, hv, he.symm⟩
    · cases he
  · rintro ⟨i, c, u, hm, hv, rfl⟩
    exact ⟨(i, j, c), hm, by simp [hv]⟩

theorem isMax_viterbi (N : Net) (em : Nat → Nat → Int) (T : Nat) :
    IsMax (fun x => ∃ i c u, (i, c) ∈ N.exits ∧ vAt N em (T-1) i = some u ∧ x = u + em (T-1) i + c)
      (viterbi N em T) := by
  unfold viterbi
  refine (isMax_best _).congr fun x => ?_
  simp only [List.mem_map]
  constructor
  · rintro ⟨⟨i, c⟩, hm, he⟩
    simp only at he
    cases hv : vAt N em (T-1) i with
    | none => rw [hv] at he; cases he
    | some u =>
      rw [hv] at he
      simp only [Option.map_some, Option.some.injEq] at he
      exact ⟨i, c, u, hm, hv, he.symm⟩
  · rintro ⟨i, c, u, hm, hv, rfl⟩
    exact ⟨(i, c), hm, by simp [hv]⟩

end SSVerif.SearchScore
