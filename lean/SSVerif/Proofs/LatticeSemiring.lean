import SSVerif.Proofs.LatticeTraverse
/-! exact forward/backward on the lattice (weights in ℕ): forward total = backward total = sum over
all paths; `alpha · beta ≤ total` for every link; every path weight `≤ total` -/
namespace SSVerif.Lattice

variable {L : Lat}

/-! ### finite sums over lists -/

/-- `S xs f = Σ_{x ∈ xs} f x` -/
def S {α : Type} (xs : List α) (f : α → Nat) : Nat := (xs.map f).sum

theorem S_nil {α : Type} (f : α → Nat) : S [] f = 0 := rfl

theorem S_cons {α : Type} (x : α) (xs : List α) (f : α → Nat) : S (x :: xs) f = f x + S xs f := by
  simp [S]

theorem S_append {α : Type} (xs ys : List α) (f : α → Nat) : S (xs ++ ys) f = S xs f + S ys f := by
  simp [S, List.sum_append]

theorem S_congr {α : Type} {xs : List α} {f g : α → Nat} (h : ∀ x ∈ xs, f x = g x) : S xs f = S xs g := by
  induction xs with
  | nil => rfl
  | cons x xs ih =>
    rw [S_cons, S_cons, h x List.mem_cons_self, ih (fun y hy => h y (List.mem_cons_of_mem _ hy))]

theorem S_zero {α : Type} (xs : List α) : S xs (fun _ => 0) = 0 := by
  induction xs with
  | nil => rfl
  | cons x xs ih => rw [S_cons, ih]

theorem S_eq_zero {α : Type} {xs : List α} {f : α → Nat} (h : ∀ x ∈ xs, f x = 0) : S xs f = 0 := by
  rw [S_congr h, S_zero]

theorem S_add {α : Type} (xs : List α) (f g : α → Nat) : S xs (fun x => f x + g x) = S xs f + S xs g := by
  induction xs with
  | nil => rfl
  | cons x xs ih => rw [S_cons, S_cons, S_cons, ih]; omega

theorem S_mul_left {α : Type} (xs : List α) (c : Nat) (f : α → Nat) : S xs (fun x => c * f x) = c * S xs f := by
  induction xs with
  | nil => simp [S_nil]
  | cons x xs ih => rw [S_cons, S_cons, ih, Nat.mul_add]

theorem S_mul_right {α : Type} (xs : List α) (c : Nat) (f : α → Nat) : S xs (fun x => f x * c) = S xs f * c := by
  induction xs with
  | nil => simp [S_nil]
  | cons x xs ih => rw [S_cons, S_cons, ih, Nat.add_mul]

theorem S_comm {α β : Type} (xs : List α) (ys : List β) (f : α → β → Nat) :
    S xs (fun x => S ys (fun y => f x y)) = S ys (fun y => S xs (fun x => f x y)) := by
  induction xs with
  | nil => simp [S_nil, S_zero]
  | cons x xs ih =>
    rw [S_cons, ih]
    have : S ys (fun y => S (x :: xs) (fun x => f x y)) = S ys (fun y => f x y + S xs (fun x => f x y)) :=
      S_congr (fun y _ => S_cons x xs _)
    rw [this, S_add]

theorem S_le_of_mem {α : Type} {xs : List α} {x : α} (hx : x ∈ xs) (f : α → Nat) : f x ≤ S xs f := by
  induction xs with
  | nil => cases hx
  | cons y ys ih =>
    rw [S_cons]
    rcases List.mem_cons.1 hx with rfl | h
    · omega
    · have := ih h; omega

/-- `Σ_{v < n} [d = v] g v = g d` for `d < n` -/
theorem S_range_pick (n d : Nat) (hd : d < n) (g : Nat → Nat) :
    S (List.range n) (fun v => if d = v then g v else 0) = g d := by
  induction n with
  | zero => omega
  | succ n ih =>
    rw [List.range_succ, S_append, S_cons, S_nil]
    by_cases h : d = n
    · subst h
      have : S (List.range d) (fun v => if d = v then g v else 0) = 0 := by
        apply S_eq_zero
        intro v hv
        have : v < d := List.mem_range.1 hv
        rw [if_neg (by omega)]
      rw [this, if_pos rfl]; omega
    · rw [ih (by omega), if_neg h]; omega

theorem S_range_pick' (n d : Nat) (hd : d < n) (g : Nat → Nat) :
    S (List.range n) (fun v => if v = d then g v else 0) = g d := by
  rw [← S_range_pick n d hd g]
  apply S_congr; intro v _
  by_cases h : v = d
  · rw [if_pos h, if_pos h.symm]
  · rw [if_neg h, if_neg (fun h' => h h'.symm)]

/-- sum over a filtered list = sum with an indicator -/
theorem S_filter {α : Type} (xs : List α) (p : α → Bool) (f : α → Nat) :
    S (xs.filter p) f = S xs (fun x => if p x then f x else 0) := by
  induction xs with
  | nil => rfl
  | cons x xs ih =>
    rw [List.filter_cons, S_cons]
    cases hp : p x
    · simp only [Bool.false_eq_true, if_false]; rw [ih]; omega
    · simp only [if_true]; rw [S_cons, ih]

theorem S_entries (v : Nat) (f : Link → Nat) :
    S (entries L v) f = S L.links (fun l => if l.dst = v then f l else 0) := by
  unfold entries
  rw [S_filter]
  apply S_congr; intro l _
  by_cases h : l.dst = v <;> simp [h]

theorem S_exits (v : Nat) (f : Link → Nat) :
    S (exits L v) f = S L.links (fun l => if l.src = v then f l else 0) := by
  unfold exits
  rw [S_filter]
  apply S_congr; intro l _
  by_cases h : l.src = v <;> simp [h]

/-! ### flows on a ranked graph -/

/-- forward/backward equations of link weights `A`, `B` for link weights `w` -/
structure FwdBwd (L : Lat) (w A B : Link → Nat) : Prop where
  fwd : ∀ l ∈ L.links, A l = w l * ((if l.src = L.start then 1 else 0) + S (entries L l.src) A)
  bwd : ∀ l ∈ L.links, B l = (if l.dst = L.final then 1 else 0) + S (exits L l.dst) (fun x => w x * B x)

/-- forward total: `Σ_{x into end} A x`; backward total: `Σ_{x out of start} w x · B x` -/
def Zf (L : Lat) (A : Link → Nat) : Nat := S (entries L L.final) A
def Zb (L : Lat) (w B : Link → Nat) : Nat := S (exits L L.start) (fun x => w x * B x)

section flow
variable {w A B : Link → Nat} (rank : Nat → Nat)

def cut (L : Lat) (A B : Link → Nat) (rank : Nat → Nat) (r : Nat) : Nat :=
  S L.links (fun l => if rank l.src < r ∧ r ≤ rank l.dst then A l * B l else 0)

/-- flow into / out of a node -/
def inflow (L : Lat) (A B : Link → Nat) (v : Nat) : Nat := S L.links (fun l => if l.dst = v then A l * B l else 0)
def outflow (L : Lat) (A B : Link → Nat) (v : Nat) : Nat := S L.links (fun l => if l.src = v then A l * B l else 0)

/-- conservation at every node, with the totals as source and sink terms -/
theorem node_balance (h : FwdBwd L w A B) (v : Nat) :
    inflow L A B v + (if v = L.start then Zb L w B else 0) = outflow L A B v + (if v = L.final then Zf L A else 0) := by
  -- a = Σ_{into v} A, b = Σ_{out of v} w·B
  have hin : inflow L A B v = S (entries L v) A * ((if v = L.final then 1 else 0) + S (exits L v) (fun x => w x * B x)) := by
    unfold inflow
    rw [← S_mul_right, S_entries]
    apply S_congr
    intro l hl
    by_cases hd : l.dst = v
    · rw [if_pos hd, if_pos hd, h.bwd l hl, hd]
    · rw [if_neg hd, if_neg hd]
  have hout : outflow L A B v = ((if v = L.start then 1 else 0) + S (entries L v) A) * S (exits L v) (fun x => w x * B x) := by
    unfold outflow
    rw [← S_mul_left, S_exits]
    apply S_congr
    intro l hl
    by_cases hs : l.src = v
    · rw [if_pos hs, if_pos hs, h.fwd l hl, hs]
      simp only [Nat.mul_assoc, Nat.mul_comm, Nat.mul_left_comm]
    · rw [if_neg hs, if_neg hs]
  rw [hin, hout]
  by_cases hs : v = L.start <;> by_cases hf : v = L.final
  · subst hs
    simp only [if_true, hf, Zb, Zf]
    rw [← hf]
    generalize S (entries L L.start) A = a
    generalize S (exits L L.start) (fun x => w x * B x) = b
    simp only [Nat.mul_add, Nat.add_mul, Nat.mul_one, Nat.one_mul]; omega
  · subst hs
    simp only [if_true, if_neg hf, Zb]
    generalize S (entries L L.start) A = a
    generalize S (exits L L.start) (fun x => w x * B x) = b
    simp only [Nat.add_mul, Nat.one_mul, Nat.zero_add, Nat.add_zero]; omega
  · subst hf
    simp only [if_true, if_neg hs, Zf]
    generalize S (entries L L.final) A = a
    generalize S (exits L L.final) (fun x => w x * B x) = b
    simp only [Nat.mul_add, Nat.mul_one, Nat.zero_add, Nat.add_zero]; omega
  · simp only [if_neg hs, if_neg hf, Nat.zero_add, Nat.add_zero]

/-- flow entering / leaving the nodes of one rank -/
def levelIn (L : Lat) (A B : Link → Nat) (rank : Nat → Nat) (r : Nat) : Nat :=
  S L.links (fun l => if rank l.dst = r then A l * B l else 0)
def levelOut (L : Lat) (A B : Link → Nat) (rank : Nat → Nat) (r : Nat) : Nat :=
  S L.links (fun l => if rank l.src = r then A l * B l else 0)

theorem levelIn_eq (hv : ∀ l ∈ L.links, l.dst < L.n) (r : Nat) :
    levelIn L A B rank r = S (List.range L.n) (fun v => if rank v = r then inflow L A B v else 0) := by
  unfold levelIn inflow
  have : S (List.range L.n) (fun v => if rank v = r then S L.links (fun l => if l.dst = v then A l * B l else 0) else 0)
      = S (List.range L.n) (fun v => S L.links (fun l => if l.dst = v then (if rank v = r then A l * B l else 0) else 0)) := by
    apply S_congr; intro v _
    by_cases h : rank v = r
    · rw [if_pos h]; apply S_congr; intro l _; simp [h]
    · rw [if_neg h]; symm; apply S_eq_zero; intro l _; simp [h]
  rw [this, S_comm]
  apply S_congr
  intro l hl
  exact (S_range_pick L.n l.dst (hv l hl) (fun v => if rank v = r then A l * B l else 0)).symm

theorem levelOut_eq (hv : ∀ l ∈ L.links, l.src < L.n) (r : Nat) :
    levelOut L A B rank r = S (List.range L.n) (fun v => if rank v = r then outflow L A B v else 0) := by
  unfold levelOut outflow
  have : S (List.range L.n) (fun v => if rank v = r then S L.links (fun l => if l.src = v then A l * B l else 0) else 0)
      = S (List.range L.n) (fun v => S L.links (fun l => if l.src = v then (if rank v = r then A l * B l else 0) else 0)) := by
    apply S_congr; intro v _
    by_cases h : rank v = r
    · rw [if_pos h]; apply S_congr; intro l _; simp [h]
    · rw [if_neg h]; symm; apply S_eq_zero; intro l _; simp [h]
  rw [this, S_comm]
  apply S_congr
  intro l hl
  exact (S_range_pick L.n l.src (hv l hl) (fun v => if rank v = r then A l * B l else 0)).symm

/-- conservation per rank level -/
theorem level_balance (h : FwdBwd L w A B) (hsrc : ∀ l ∈ L.links, l.src < L.n) (hdst : ∀ l ∈ L.links, l.dst < L.n)
    (hs : L.start < L.n) (hf : L.final < L.n) (r : Nat) :
    levelIn L A B rank r + (if rank L.start = r then Zb L w B else 0)
      = levelOut L A B rank r + (if rank L.final = r then Zf L A else 0) := by
  rw [levelIn_eq rank hdst, levelOut_eq rank hsrc]
  have e1 : (if rank L.start = r then Zb L w B else 0)
      = S (List.range L.n) (fun v => if v = L.start then (if rank v = r then Zb L w B else 0) else 0) :=
    (S_range_pick' L.n L.start hs (fun v => if rank v = r then Zb L w B else 0)).symm
  have e2 : (if rank L.final = r then Zf L A else 0)
      = S (List.range L.n) (fun v => if v = L.final then (if rank v = r then Zf L A else 0) else 0) :=
    (S_range_pick' L.n L.final hf (fun v => if rank v = r then Zf L A else 0)).symm
  rw [e1, e2, ← S_add, ← S_add]
  apply S_congr
  intro v _
  have := node_balance h v
  by_cases hr : rank v = r
  · simp only [if_pos hr]
    exact this
  · simp [hr]

/-- moving the cut by one rank level -/
theorem cut_succ (hrank : ∀ l ∈ L.links, rank l.src < rank l.dst) (r : Nat) :
    cut L A B rank (r + 1) + levelIn L A B rank r = cut L A B rank r + levelOut L A B rank r := by
  unfold cut levelIn levelOut
  rw [← S_add, ← S_add]
  apply S_congr
  intro l hl
  have := hrank l hl
  generalize A l * B l = c
  by_cases h1 : rank l.dst = r
  · rw [if_neg (by omega), if_pos h1, if_pos (by omega), if_neg (by omega)]; omega
  · by_cases h2 : rank l.src = r
    · rw [if_pos (by omega), if_neg h1, if_neg (by omega), if_pos h2]; omega
    · rw [if_neg h1, if_neg h2]
      by_cases h3 : rank l.src < r ∧ r ≤ rank l.dst
      · rw [if_pos (by omega), if_pos h3]
      · rw [if_neg (by omega), if_neg h3]

theorem ite_lt_succ (x r c : Nat) :
    (if x < r + 1 then c else 0) = (if x < r then c else 0) + (if x = r then c else 0) := by
  by_cases h1 : x < r
  · rw [if_pos (by omega), if_pos h1, if_neg (by omega)]; omega
  · by_cases h2 : x = r
    · rw [if_pos (by omega), if_neg h1, if_pos h2]; omega
    · rw [if_neg (by omega), if_neg h1, if_neg h2]

/-- the cut identity -/
theorem cut_identity (h : FwdBwd L w A B) (hrank : ∀ l ∈ L.links, rank l.src < rank l.dst)
    (hsrc : ∀ l ∈ L.links, l.src < L.n) (hdst : ∀ l ∈ L.links, l.dst < L.n)
    (hs : L.start < L.n) (hf : L.final < L.n) :
    ∀ r, cut L A B rank r + (if rank L.final < r then Zf L A else 0) = (if rank L.start < r then Zb L w B else 0) := by
  intro r
  induction r with
  | zero =>
    have : cut L A B rank 0 = 0 := by
      unfold cut
      apply S_eq_zero; intro l _; rw [if_neg (by omega)]
    simp [this]
  | succ r ih =>
    have h1 := cut_succ (A := A) (B := B) rank hrank r
    have h2 := level_balance rank h hsrc hdst hs hf r
    rw [ite_lt_succ, ite_lt_succ]
    generalize (if rank L.final < r then Zf L A else 0) = a1 at ih ⊢
    generalize (if rank L.final = r then Zf L A else 0) = a2 at h2 ⊢
    generalize (if rank L.start < r then Zb L w B else 0) = b1 at ih ⊢
    generalize (if rank L.start = r then Zb L w B else 0) = b2 at h2 ⊢
    omega

/-- **forward total = backward total** -/
theorem fwd_eq_bwd (h : FwdBwd L w A B) (hrank : ∀ l ∈ L.links, rank l.src < rank l.dst)
    (hsrc : ∀ l ∈ L.links, l.src < L.n) (hdst : ∀ l ∈ L.links, l.dst < L.n)
    (hs : L.start < L.n) (hf : L.final < L.n) : Zf L A = Zb L w B := by
  -- a rank above everything: the cut is empty
  let M := S L.links (fun l => rank l.dst) + rank L.start + rank L.final + 1
  have hM : ∀ l ∈ L.links, rank l.dst < M := by
    intro l hl
    have := S_le_of_mem hl (fun l => rank l.dst)
    show rank l.dst < S L.links (fun l => rank l.dst) + rank L.start + rank L.final + 1
    omega
  have hcut : cut L A B rank M = 0 := by
    unfold cut
    apply S_eq_zero; intro l hl
    have := hM l hl
    rw [if_neg (by omega)]
  have := cut_identity rank h hrank hsrc hdst hs hf M
  rw [hcut, if_pos (by show rank L.final < S L.links (fun l => rank l.dst) + rank L.start + rank L.final + 1; omega),
    if_pos (by show rank L.start < S L.links (fun l => rank l.dst) + rank L.start + rank L.final + 1; omega)] at this
  omega

/-- **`alpha · beta ≤ total` for every link** (link posterior at most one) -/
theorem link_flow_le (h : FwdBwd L w A B) (hrank : ∀ l ∈ L.links, rank l.src < rank l.dst)
    (hsrc : ∀ l ∈ L.links, l.src < L.n) (hdst : ∀ l ∈ L.links, l.dst < L.n)
    (hs : L.start < L.n) (hf : L.final < L.n) {l : Link} (hl : l ∈ L.links) : A l * B l ≤ Zb L w B := by
  have := cut_identity rank h hrank hsrc hdst hs hf (rank l.dst)
  have hmem : A l * B l ≤ cut L A B rank (rank l.dst) := by
    unfold cut
    have := S_le_of_mem hl (fun l' => if rank l'.src < rank l.dst ∧ rank l.dst ≤ rank l'.dst then A l' * B l' else 0)
    rw [if_pos ⟨hrank l hl, Nat.le_refl _⟩] at this
    exact this
  have hle : (if rank L.start < rank l.dst then Zb L w B else 0) ≤ Zb L w B := by
    split <;> omega
  omega

end flow

/-! ### the model's forward/backward weights solve the equations -/

section model
variable {w : Link → Nat} {rank : Nat → Nat}

theorem sum_eq_S {α : Type} (xs : List α) (f : α → Nat) : (xs.map f).sum = S xs f := rfl

theorem betaNode_succ (f v : Nat) :
    betaNode L w (f + 1) v = (if v = L.final then 1 else 0) + S (exits L v) (fun l => w l * betaNode L w f l.dst) := rfl

theorem alphaNode_succ (f v : Nat) :
    alphaNode L w (f + 1) v = (if v = L.start then 1 else 0) + S (entries L v) (fun l => alphaNode L w f l.src * w l) := rfl

theorem betaNode_stable (hrank : ∀ l ∈ L.links, rank l.src < rank l.dst) (M : Nat)
    (hM : ∀ l ∈ L.links, rank l.src < M) :
    ∀ (f v : Nat), M ≤ f + rank v → betaNode L w (f + 1) v = betaNode L w f v := by
  intro f
  induction f with
  | zero =>
    intro v hv
    rw [betaNode_succ]
    have hex : exits L v = [] := by
      rw [List.eq_nil_iff_forall_not_mem]
      intro x hx
      have := hM x (mem_exits.1 hx).1
      rw [(mem_exits.1 hx).2] at this
      omega
    rw [hex, S_nil]; rfl
  | succ f ih =>
    intro v hv
    rw [betaNode_succ, betaNode_succ]
    congr 1
    apply S_congr
    intro x hx
    have := hrank x (mem_exits.1 hx).1
    rw [(mem_exits.1 hx).2] at this
    rw [ih x.dst (by omega)]

theorem alphaNode_stable (hrank : ∀ l ∈ L.links, rank l.src < rank l.dst) :
    ∀ (f v : Nat), rank v ≤ f → alphaNode L w (f + 1) v = alphaNode L w f v := by
  intro f
  induction f with
  | zero =>
    intro v hv
    rw [alphaNode_succ]
    have hen : entries L v = [] := by
      rw [List.eq_nil_iff_forall_not_mem]
      intro x hx
      have := hrank x (mem_entries.1 hx).1
      rw [(mem_entries.1 hx).2] at this
      omega
    rw [hen, S_nil]; rfl
  | succ f ih =>
    intro v hv
    rw [alphaNode_succ, alphaNode_succ]
    congr 1
    apply S_congr
    intro x hx
    have := hrank x (mem_entries.1 hx).1
    rw [(mem_entries.1 hx).2] at this
    rw [ih x.src (by omega)]

/-- the forward/backward weights of the model satisfy the equations -/
theorem model_fwdBwd (hrank : ∀ l ∈ L.links, rank l.src < rank l.dst)
    (hM : ∀ l ∈ L.links, rank l.dst ≤ L.nframes + 1) :
    FwdBwd L w (alphaLink L w) (betaLink L w) where
  fwd := by
    intro l hl
    have h1 := hrank l hl
    have h2 := hM l hl
    unfold alphaLink
    rw [← alphaNode_stable (w := w) hrank (L.nframes + 2) l.src (by omega), alphaNode_succ, Nat.mul_comm]
  bwd := by
    intro l hl
    unfold betaLink
    rw [← betaNode_stable (w := w) hrank (L.nframes + 2) (fun x hx => by have := hrank x hx; have := hM x hx; omega)
      (L.nframes + 2) l.dst (by omega), betaNode_succ]

theorem forwardTotal_eq : forwardTotal L w = Zf L (alphaLink L w) := rfl
theorem backwardTotal_eq : backwardTotal L w = Zb L w (betaLink L w) := rfl

/-! ### sums over the enumerated paths -/

theorem S_map {α β : Type} (xs : List α) (g : α → β) (f : β → Nat) : S (xs.map g) f = S xs (fun x => f (g x)) := by
  simp [S, List.map_map, Function.comp_def]

theorem S_flatMap {α β : Type} (xs : List α) (g : α → List β) (f : β → Nat) :
    S (xs.flatMap g) f = S xs (fun x => S (g x) f) := by
  induction xs with
  | nil => rfl
  | cons x xs ih => rw [List.flatMap_cons, S_append, S_cons, ih]

theorem pathWeight_cons (l : Link) (p : List Link) : pathWeight w (l :: p) = w l * pathWeight w p := rfl

/-- the sum of the weights of the enumerated paths is the backward weight of the node -/
theorem pathSum_eq : ∀ (f v : Nat), S (pathsFrom L f v) (pathWeight w) = betaNode L w f v := by
  intro f
  induction f with
  | zero =>
    intro v
    simp only [pathsFrom, betaNode]
    split
    · simp [S, pathWeight]
    · rfl
  | succ f ih =>
    intro v
    rw [betaNode_succ]
    simp only [pathsFrom]
    rw [S_append, S_flatMap]
    congr 1
    · split
      · simp [S, pathWeight]
      · rfl
    · apply S_congr
      intro l _
      rw [S_map]
      have : S (pathsFrom L f l.dst) (fun p => pathWeight w (l :: p)) = S (pathsFrom L f l.dst) (fun p => w l * pathWeight w p) :=
        S_congr (fun p _ => pathWeight_cons l p)
      rw [this, S_mul_left, ih]

/-- the enumeration lists exactly the paths to the end node with at most `f` links -/
theorem mem_pathsFrom : ∀ (f v : Nat) (p : List Link), p ∈ pathsFrom L f v ↔ Path L v p L.final ∧ p.length ≤ f := by
  intro f
  induction f with
  | zero =>
    intro v p
    simp only [pathsFrom]
    constructor
    · intro h
      split at h
      · rename_i hv
        simp at h; subst h; subst hv
        exact ⟨.nil _, Nat.le_refl _⟩
      · cases h
    · rintro ⟨hp, hl⟩
      have : p = [] := List.length_eq_zero_iff.1 (by omega)
      subst this
      rw [if_pos hp.eq_of_nil]; simp
  | succ f ih =>
    intro v p
    simp only [pathsFrom, List.mem_append, List.mem_flatMap, List.mem_map]
    constructor
    · rintro (h | ⟨l, hl, q, hq, rfl⟩)
      · split at h
        · rename_i hv
          simp at h; subst h; subst hv
          exact ⟨.nil _, by simp⟩
        · cases h
      · obtain ⟨h1, h2⟩ := (ih l.dst q).1 hq
        have hm := mem_exits.1 hl
        exact ⟨.cons hm.1 hm.2 h1, by simp; omega⟩
    · rintro ⟨hp, hl⟩
      cases hp with
      | nil => left; simp
      | @cons _ l ls _ hm hs hrest =>
        right
        refine ⟨l, mem_exits.2 ⟨hm, hs⟩, ls, (ih l.dst ls).2 ⟨hrest, by simp at hl; omega⟩, rfl⟩

/-- the enumeration has no duplicates -/
theorem nodup_pathsFrom (hnd : L.links.Nodup) : ∀ (f v : Nat), (pathsFrom L f v).Nodup := by
  intro f
  induction f with
  | zero => intro v; simp only [pathsFrom]; split <;> simp
  | succ f ih =>
    intro v
    simp only [pathsFrom]
    apply List.nodup_append.2
    refine ⟨by split <;> simp, ?_, ?_⟩
    · unfold List.Nodup
      rw [List.pairwise_flatMap]
      constructor
      · intro l _
        rw [List.pairwise_map]
        exact (ih l.dst).imp (fun {a b} h hab => h (by simpa using hab))
      · have hex : (exits L v).Nodup := hnd.sublist List.filter_sublist
        exact hex.imp (fun {a b} hab x hx y hy hxy => by
          simp only [List.mem_map] at hx hy
          obtain ⟨q1, _, rfl⟩ := hx
          obtain ⟨q2, _, h2⟩ := hy
          rw [← h2] at hxy
          exact hab (List.cons.inj hxy).1)
    · intro a ha b hb hab
      subst hab
      split at ha
      · simp at ha; subst ha
        simp only [List.mem_flatMap, List.mem_map] at hb
        obtain ⟨l, _, q, _, h⟩ := hb
        cases h
      · cases ha

/-- **sum over all start→end paths = backward total = forward total** (for `start ≠ end`; for the
one-node lattice the only path is the empty one and both totals are 0) -/
theorem path_sum_eq_totals (hrank : ∀ l ∈ L.links, rank l.src < rank l.dst)
    (hM : ∀ l ∈ L.links, rank l.dst ≤ L.nframes + 1)
    (hsrc : ∀ l ∈ L.links, l.src < L.n) (hdst : ∀ l ∈ L.links, l.dst < L.n)
    (hs : L.start < L.n) (hf : L.final < L.n) :
    S (pathsFrom L (L.nframes + 3) L.start) (pathWeight w) = (if L.start = L.final then 1 else 0) + backwardTotal L w ∧
    forwardTotal L w = backwardTotal L w := by
  constructor
  · rw [pathSum_eq, betaNode_succ]
    rfl
  · rw [forwardTotal_eq, backwardTotal_eq]
    exact fwd_eq_bwd rank (model_fwdBwd hrank hM) hrank hsrc hdst hs hf

end model


end SSVerif.Lattice
