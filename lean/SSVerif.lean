import SSVerif.Model.HashTable
import SSVerif.Proofs.HashTable
import SSVerif.Proofs.HashTableOps
import SSVerif.Proofs.HashTableModes
import SSVerif.Props.C20
import SSVerif.Model.Nfa
import SSVerif.Proofs.Nfa
