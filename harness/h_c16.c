/* C16 harness: replays a dictionary op file on the real dict.c / dict2pid.c / decoder_add_word.
 * One output line per input line, same format as `ssdriver c16`.
 *
 *   usage: h_c16 <scratch dir> <model dir (…/model/en-us)> <raw audio>   < ops
 *          h_c16 phones <model dir>            prints the CI phone table (hex names) and exits
 *          h_c16 mdefdump <model dir> <file>   writes cd_tree / filler flags / ssid table for the driver
 *
 * ops (strings in hex, "-" = empty):
 *   mdef <sil> <name>...                check that the CI phone table is what the op file assumes    -> mdef ok|mdef MISMATCH
 *   begin dec|dict <nocase>         start a new object; dictionary lines follow                  -> ok
 *   load <word> <phones>            line of the main dictionary file                              -> ok
 *   fload <word> <phones>           line of the filler dictionary file                            -> ok
 *   initfull                        decoder_init with the model directory's own dict.txt / noisedict.txt
 *   init                            dict_init / decoder_init on the files written so far          -> init n= max= fs= fe= s= f= sil= | init fail
 *   add <word> <phones> <update>    decoder_add_word                                              -> r <wid>
 *   dadd <word> <np> <id>...        dict_add_word (np = 0: NULL pronunciation)                    -> r <wid>
 *   lookup <word>                   decoder_lookup_word                                           -> p <phones hex>|p none
 *   wid <word>                      dict_wordid (+ dict_filler_word, dict_real_word)              -> w <wid> <filler> <real>
 *   chain <word>                    alt chain from the word by dict_nextalt, dict_basestr         -> c <id,..> b=<hex> | c none
 *   base <word>                     dict_word2basestr on a copy                                   -> b <ret> <hex>
 *   dump                            whole dictionary                                              -> d n= max= fs= fe= | i:word:pron:basewid:alt ...
 *   mdeffile <path>                 (driver: load the `mdefdump` file)                            -> mdef2 ok
 *   nearrow <b> <pos>               bin_mdef_phone_id_nearest(b, l, r, pos) for all l, r          -> n <pid>...
 *   near <b> <l> <r> <pos>          one lookup and its pid2ssid                                   -> n <pid> <ssid>
 *   tabs                            every written ldiph_lc / lrdiph_rc / rssid row                -> t L<b>,<r>:… S<b>:… R<b>,<l>:ssid/cimap
 *   mgood                           every phone has a senone-sequence id (the model's mdefGood)   -> mg 1
 *   intern <word>                   dict2pid_internal for the word-internal positions             -> i <ssid>...
 *   d2p                             boundary tables of every word vs bin_mdef_phone_id_nearest    -> d2p ok <n> | d2p bad ...
 *   fsg <word>...                   linear grammar over the words, decoder_set_fsg                -> g <rc>
 *   alts <word>                     fsg with the word; number of alternates fsg_search added      -> g <rc> <nalt>
 *   align <text>                    decoder_set_align_text                                        -> g <rc>
 *   jsgf <text>                     decoder_set_jsgf_string                                       -> g <rc>
 *   decode <align>                  one utterance over the audio file (+ decoder_alignment)       -> h <hyp hex> <aligned 0/1>
 */
#include "common.h"
#include <unistd.h>
#include <soundswallower/bin_mdef.h>
#include <soundswallower/ckd_alloc.h>
#include <soundswallower/configuration.h>
#include <soundswallower/decoder.h>
#include <soundswallower/dict.h>
#include <soundswallower/dict2pid.h>
#include <soundswallower/err.h>
#include <soundswallower/fsg_model.h>
#include <soundswallower/fsg_search.h>
#include <soundswallower/alignment.h>
#include <soundswallower/bitvec.h>

static decoder_t *dec;
static dict_t *sdict; /* standalone dictionary (dict mode) */
static bin_mdef_t *smdef; /* mdef for dict mode */
static int nocase, mode_dec, tol_l, tol_r;
static char dictpath[1024], fdictpath[1024];
static const char *modeldir, *rawpath;
static FILE *dictfh, *fdictfh;

static dict_t *cur_dict(void) { return dec ? dec->dict : sdict; }

static void close_all(void)
{
    if (dec) { decoder_free(dec); dec = NULL; }
    if (sdict) { dict_free(sdict); sdict = NULL; }
    if (dictfh) { fclose(dictfh); dictfh = NULL; }
    if (fdictfh) { fclose(fdictfh); fdictfh = NULL; }
}

static void print_init(dict_t *d)
{
    if (!d) { printf("init fail\n"); return; }
    printf("init n=%d max=%d fs=%d fe=%d s=%d f=%d sil=%d\n", d->n_word, d->max_words, d->filler_start,
           d->filler_end, d->startwid, d->finishwid, d->silwid);
}

static void dump(dict_t *d)
{
    int i, j;
    printf("d n=%d max=%d fs=%d fe=%d |", d->n_word, d->max_words, d->filler_start, d->filler_end);
    for (i = 0; i < d->n_word; i++) {
        dictword_t *w = d->word + i;
        printf(" %d:", i);
        if (w->word) vf_print_hex(stdout, (const unsigned char *)w->word, strlen(w->word)); else printf("NULL");
        printf(":");
        if (w->pronlen == 0) printf("-");
        for (j = 0; j < w->pronlen; j++) printf("%s%d", j ? "." : "", (int)w->ciphone[j]);
        printf(":%d:%d", w->basewid, w->alt);
    }
    printf("\n");
}

/* every boundary table entry a search would read for word w must be the nearest triphone */
static int d2p_word(dict2pid_t *d2p, dict_t *d, bin_mdef_t *m, int w, char *why, size_t whylen)
{
    int n_ci = bin_mdef_n_ciphone(m), len = dict_pronlen(d, w), l, r, sil = bin_mdef_silphone(m);
    if (len <= 0) { snprintf(why, whylen, "w%d pronlen %d", w, len); return -1; }
    if (len == 1) {
        int b = dict_first_phone(d, w);
        for (l = 0; l < n_ci; l++)
            for (r = 0; r < n_ci; r++) {
                int p = bin_mdef_phone_id_nearest(m, b, l, r, WORD_POSN_SINGLE);
                if (d2p->lrdiph_rc[b][l][r] != bin_mdef_pid2ssid(m, p)) {
                    snprintf(why, whylen, "w%d lrdiph_rc[%d][%d][%d]=%d want %d", w, b, l, r,
                             d2p->lrdiph_rc[b][l][r], bin_mdef_pid2ssid(m, p));
                    return -1;
                }
            }
    } else {
        int b = dict_first_phone(d, w), r2 = dict_second_phone(d, w);
        int e = dict_last_phone(d, w), lc = dict_second_last_phone(d, w);
        xwdssid_t *rs = dict2pid_rssid(d2p, e, lc);
        for (l = 0; l < n_ci; l++) {
            int p = bin_mdef_phone_id_nearest(m, b, l, r2, WORD_POSN_BEGIN);
            int got = d2p->ldiph_lc[b][r2][l];
            if (got != bin_mdef_pid2ssid(m, p)) {
                /* D61: populate_lrdiph() of the pinned tree also wrote ldiph_lc[b][SIL][*] with the single-phone-word
                   triphones; tolerated only while the current source still does (C16_D2P_TOL, from gen_consts) */
                int p1 = bin_mdef_phone_id_nearest(m, b, l, r2, WORD_POSN_SINGLE);
                if (!(tol_l && r2 == sil && got == bin_mdef_pid2ssid(m, p1))) {
                    snprintf(why, whylen, "w%d ldiph_lc[%d][%d][%d]=%d want %d", w, b, r2, l, got, bin_mdef_pid2ssid(m, p));
                    return -1;
                }
            }
        }
        if (rs->n_ssid <= 0 || !rs->ssid || !rs->cimap) {
            snprintf(why, whylen, "w%d rssid[%d][%d] empty", w, e, lc);
            return -1;
        }
        for (r = 0; r < n_ci; r++) {
            int p = bin_mdef_phone_id_nearest(m, e, lc, r, WORD_POSN_END);
            int j = rs->cimap[r];
            if (j < 0 || j >= rs->n_ssid || rs->ssid[j] != bin_mdef_pid2ssid(m, p)) {
                int p1 = bin_mdef_phone_id_nearest(m, e, lc, r, WORD_POSN_SINGLE);
                /* same remark: dict2pid_build seeds rdiph_rc[b][SIL][*] from single-phone words */
                if (!(tol_r && lc == sil && j >= 0 && j < rs->n_ssid && rs->ssid[j] == bin_mdef_pid2ssid(m, p1))) {
                    snprintf(why, whylen, "w%d rssid[%d][%d] rc %d -> %d want %d", w, e, lc, r,
                             (j >= 0 && j < rs->n_ssid) ? rs->ssid[j] : -1, bin_mdef_pid2ssid(m, p));
                    return -1;
                }
            }
        }
        for (l = 1; l < len - 1; l++)
            if (dict2pid_internal(d2p, w, l) == BAD_S3SSID) { snprintf(why, whylen, "w%d internal %d", w, l); return -1; }
    }
    return 0;
}

static int cmpstr(const void *a, const void *b) { return strcmp(*(char *const *)a, *(char *const *)b); }

/* linear grammar over the words; with `alts`, prints the non-filler alternates fsg_search_init added */
static void set_linear_fsg(char **w, int n, int alts)
{
    fsg_model_t *fsg = fsg_model_init("c16", dec->lmath, 1.0, n + 1);
    int i, rc;
    for (i = 0; i < n; i++) {
        size_t len;
        unsigned char *s = vf_parse_hex(w[i], &len);
        int wid = fsg_model_word_add(fsg, (const char *)s);
        fsg_model_trans_add(fsg, i, i + 1, 0, wid);
        free(s);
    }
    fsg->start_state = 0;
    fsg->final_state = n;
    rc = decoder_set_fsg(dec, fsg); /* consumes fsg, also on failure (fsg_search_free) */
    printf("%d", rc);
    if (alts) {
        if (rc < 0) printf(" -");
        else {
            fsg_model_t *f = ((fsg_search_t *)dec->search)->fsg;
            int nw = fsg_model_n_word(f), k = 0;
            char **names = (char **)malloc(sizeof(char *) * (nw + 1));
            for (i = 0; i < nw; i++)
                if (f->altwords && bitvec_is_set(f->altwords, i) && !(f->silwords && bitvec_is_set(f->silwords, i)))
                    names[k++] = f->vocab[i];
            /* hex strings sort like the driver's: compare after conversion */
            {
                char **hx = (char **)malloc(sizeof(char *) * (k + 1));
                for (i = 0; i < k; i++) {
                    size_t L = strlen(names[i]), j;
                    hx[i] = (char *)malloc(2 * L + 2);
                    if (L == 0) strcpy(hx[i], "-");
                    for (j = 0; j < L; j++) sprintf(hx[i] + 2 * j, "%02x", (unsigned char)names[i][j]);
                }
                qsort(hx, k, sizeof(char *), cmpstr);
                printf(" ");
                if (k == 0) printf("-");
                for (i = 0; i < k; i++) { printf("%s%s", i ? "," : "", hx[i]); free(hx[i]); }
                free(hx);
            }
            free(names);
        }
    }
    printf("\n");
}

int main(int argc, char **argv)
{
    static char line[1 << 20];
    char *w[4096];
    size_t len, len2;
    if (argc >= 3 && !strcmp(argv[1], "phones")) {
        char path[1024];
        int i;
        err_set_loglevel(ERR_FATAL);
        snprintf(path, sizeof(path), "%s/mdef", argv[2]);
        smdef = bin_mdef_read(NULL, path);
        if (!smdef) return 3;
        for (i = 0; i < bin_mdef_n_ciphone(smdef); i++) {
            const char *s = bin_mdef_ciphone_str(smdef, i);
            if (i) printf(" ");
            vf_print_hex(stdout, (const unsigned char *)s, strlen(s));
        }
        printf("\nsil %d\n", bin_mdef_silphone(smdef));
        bin_mdef_free(smdef);
        return 0;
    }
    if (argc >= 4 && !strcmp(argv[1], "mdefdump")) {
        /* what bin_mdef_phone_id / pid2ssid read of the model: raw cd_tree, filler flags, silence phone, ssid per phone */
        char path[1024];
        FILE *fh;
        int i, ok = 1;
        err_set_loglevel(ERR_FATAL);
        snprintf(path, sizeof(path), "%s/mdef", argv[2]);
        smdef = bin_mdef_read(NULL, path);
        if (!smdef || !(fh = fopen(argv[3], "w"))) return 3;
        fprintf(fh, "hdr %d %d %d %d\n", smdef->n_ciphone, smdef->sil, smdef->n_phone, smdef->n_cd_tree);
        fprintf(fh, "filler");
        for (i = 0; i < smdef->n_ciphone; i++) fprintf(fh, " %d", smdef->phone[i].info.ci.filler ? 1 : 0);
        fprintf(fh, "\ntree");
        for (i = 0; i < smdef->n_cd_tree; i++) {
            cd_tree_t *nd = smdef->cd_tree + i;
            fprintf(fh, " %d,%d,%d", nd->ctx, nd->n_down, nd->c.pid);
            /* a leaf names a phone of the table (or -1); an inner node points inside the tree */
            if (nd->n_down == 0 ? (nd->c.pid < -1 || nd->c.pid >= smdef->n_phone)
                                : (nd->c.down < 0 || nd->c.down + nd->n_down > smdef->n_cd_tree || nd->n_down < 0))
                ok = 0;
        }
        fprintf(fh, "\nssid");
        for (i = 0; i < smdef->n_phone; i++) fprintf(fh, " %d", smdef->phone[i].ssid);
        fprintf(fh, "\n");
        fclose(fh);
        printf("mdefdump %s n_ci=%d sil=%d n_phone=%d n_cd_tree=%d\n", ok ? "ok" : "INVALID-TREE", smdef->n_ciphone, smdef->sil,
               smdef->n_phone, smdef->n_cd_tree);
        bin_mdef_free(smdef);
        return ok ? 0 : 4;
    }
    if (argc < 4) { fprintf(stderr, "usage: h_c16 <scratch> <modeldir> <raw>\n"); return 2; }
    snprintf(dictpath, sizeof(dictpath), "%s/c16-%d.dict", argv[1], (int)getpid());
    snprintf(fdictpath, sizeof(fdictpath), "%s/c16-%d.fdict", argv[1], (int)getpid());
    modeldir = argv[2];
    rawpath = argv[3];
    tol_l = getenv("C16_D2P_TOL") && strchr(getenv("C16_D2P_TOL"), 'L');
    tol_r = getenv("C16_D2P_TOL") && strchr(getenv("C16_D2P_TOL"), 'R');
    err_set_loglevel(ERR_FATAL);
    {
        char path[1024];
        snprintf(path, sizeof(path), "%s/mdef", modeldir);
        smdef = bin_mdef_read(NULL, path);
        if (!smdef) { fprintf(stderr, "cannot read %s\n", path); return 3; }
    }
    while (fgets(line, sizeof(line), stdin)) {
        int n = vf_words(line, w, 4096);
        if (n == 0) { printf("bad-op\n"); fflush(stdout); continue; }
        if ((!strcmp(w[0], "mdef") || !strcmp(w[0], "mdefx")) && n >= 2) {
            /* `mdefx`: without the case-insensitive lookup (the binary search of bin_mdef_ciphone_id_nocase over the
             * case-sensitively sorted table does not find fr-fr's "SIL"; the d2p family writes phones in their exact case) */
            int exact_only = !strcmp(w[0], "mdefx");
            int i, ok = (n - 2 == bin_mdef_n_ciphone(smdef)) && atoi(w[1]) == bin_mdef_silphone(smdef);
            for (i = 0; ok && i < n - 2; i++) {
                unsigned char *s = vf_parse_hex(w[i + 2], &len);
                /* the table is what the op file says and bin_mdef_ciphone_id inverts it */
                ok = !strcmp((char *)s, bin_mdef_ciphone_str(smdef, i)) && bin_mdef_ciphone_id(smdef, (char *)s) == i
                     && (exact_only || bin_mdef_ciphone_id_nocase(smdef, (char *)s) == i);
                free(s);
            }
            printf(ok ? "mdef ok\n" : "mdef MISMATCH\n");
        } else if (n == 2 && !strcmp(w[0], "mdeffile")) {
            printf("mdef2 ok\n"); /* the file was written by `h_c16 mdefdump` from the same model; the driver loads it */
        } else if (n == 3 && !strcmp(w[0], "nearrow")) {
            /* bin_mdef_phone_id_nearest(b, l, r, pos) for all l, r */
            int b = atoi(w[1]), pos = atoi(w[2]), l, r, nci = bin_mdef_n_ciphone(smdef);
            printf("n");
            for (l = 0; l < nci; l++)
                for (r = 0; r < nci; r++)
                    printf(" %d", bin_mdef_phone_id_nearest(smdef, b, l, r, (word_posn_t)pos));
            printf("\n");
        } else if (n == 1 && !strcmp(w[0], "mgood")) {
            /* every phone of the table has a senone-sequence id, and the CI phones are phones of the table
             * (the leaves of cd_tree are checked by `mdefdump`): the model's `mdefGood` */
            int p, ok = bin_mdef_n_ciphone(smdef) <= bin_mdef_n_phone(smdef);
            for (p = 0; ok && p < bin_mdef_n_phone(smdef); p++)
                ok = bin_mdef_pid2ssid(smdef, p) != BAD_S3SSID && bin_mdef_pid2ssid(smdef, p) < bin_mdef_n_sseq(smdef);
            printf("mg %d\n", ok);
        } else if (n == 5 && !strcmp(w[0], "near")) {
            int p = bin_mdef_phone_id_nearest(smdef, atoi(w[1]), atoi(w[2]), atoi(w[3]), (word_posn_t)atoi(w[4]));
            printf("n %d %d\n", p, bin_mdef_pid2ssid(smdef, p));
        } else if (n == 3 && !strcmp(w[0], "begin")) {
            close_all();
            nocase = atoi(w[2]);
            dictfh = fopen(dictpath, "wb");
            fdictfh = fopen(fdictpath, "wb");
            if (!dictfh || !fdictfh) { fprintf(stderr, "cannot write %s\n", dictpath); return 3; }
            /* a comment line (skipped and not counted by dict_init_s3file) so that the files are never empty */
            fputs(";; c16\n", dictfh);
            fputs(";; c16\n", fdictfh);
            mode_dec = !strcmp(w[1], "dec");
            printf("ok\n");
        } else if (n == 3 && (!strcmp(w[0], "load") || !strcmp(w[0], "fload"))) {
            FILE *fh = w[0][0] == 'l' ? dictfh : fdictfh;
            unsigned char *a = vf_parse_hex(w[1], &len), *b = vf_parse_hex(w[2], &len2);
            if (!fh) { printf("bad-op\n"); }
            else {
                fwrite(a, 1, len, fh);
                if (len2) { fputc(' ', fh); fwrite(b, 1, len2, fh); }
                fputc('\n', fh);
                printf("ok\n");
            }
            free(a); free(b);
        } else if (n == 1 && (!strcmp(w[0], "init") || !strcmp(w[0], "initfull"))) {
            config_t *config = config_init(NULL);
            int full = !strcmp(w[0], "initfull"); /* the shipped dictionary of the model directory */
            if (dictfh) { fclose(dictfh); dictfh = NULL; }
            if (fdictfh) { fclose(fdictfh); fdictfh = NULL; }
            if (!full) {
                config_set_str(config, "dict", dictpath);
                config_set_str(config, "fdict", fdictpath);
            }
            config_set_bool(config, "dictcase", nocase);
            config_set_str(config, "loglevel", "FATAL");
            if (mode_dec) {
                config_set_str(config, "hmm", modeldir);
                config_set_str(config, "input_endian", "little");
                config_set_str(config, "samprate", "16000");
                config_set_str(config, "bestpath", "no");
                config_expand(config);
                fflush(stdout);
                dec = decoder_init(config); /* consumes config */
                err_set_loglevel(ERR_FATAL);
                print_init(dec ? dec->dict : NULL);
            } else {
                fflush(stdout);
                sdict = dict_init(config, smdef);
                config_free(config);
                print_init(sdict);
            }
            remove(dictpath);
            remove(fdictpath);
        } else if (!cur_dict()) {
            printf("bad-op\n");
        } else if (n == 4 && !strcmp(w[0], "add") && dec) {
            unsigned char *a = vf_parse_hex(w[1], &len), *b = vf_parse_hex(w[2], &len2);
            /* exact-size heap copies so that ASan sees any overrun of the caller's strings */
            char *wa = (char *)malloc(len + 1), *pb = (char *)malloc(len2 + 1);
            int rv;
            memcpy(wa, a, len + 1); memcpy(pb, b, len2 + 1);
            printf("r "); fflush(stdout);
            rv = decoder_add_word(dec, wa, pb, atoi(w[3]));
            printf("%d\n", rv);
            free(a); free(b); free(wa); free(pb);
        } else if (n >= 3 && !strcmp(w[0], "dadd") && !dec) {
            unsigned char *a = vf_parse_hex(w[1], &len);
            int np = atoi(w[2]), i, rv;
            s3cipid_t *p = np > 0 ? (s3cipid_t *)malloc(np * sizeof(*p)) : NULL;
            char *wa = (char *)malloc(len + 1);
            memcpy(wa, a, len + 1);
            for (i = 0; i < np && i + 3 < n; i++) p[i] = (s3cipid_t)atoi(w[i + 3]);
            printf("r "); fflush(stdout);
            rv = dict_add_word(sdict, wa, p, np);
            printf("%d\n", rv);
            free(a); free(p); free(wa);
        } else if (n == 2 && !strcmp(w[0], "lookup") && dec) {
            unsigned char *a = vf_parse_hex(w[1], &len);
            char *ph;
            printf("p "); fflush(stdout);
            ph = decoder_lookup_word(dec, (char *)a);
            if (ph) { vf_print_hex(stdout, (unsigned char *)ph, strlen(ph)); ckd_free(ph); } else printf("none");
            printf("\n");
            free(a);
        } else if (n == 2 && !strcmp(w[0], "wid")) {
            unsigned char *a = vf_parse_hex(w[1], &len);
            dict_t *d = cur_dict();
            int id = dict_wordid(d, (char *)a);
            if (id >= 0 && id < d->n_word) printf("w %d %d %d\n", id, dict_filler_word(d, id) ? 1 : 0, dict_real_word(d, id) ? 1 : 0);
            else printf("w %d 0 0\n", id);
            free(a);
        } else if (n == 2 && !strcmp(w[0], "chain")) {
            unsigned char *a = vf_parse_hex(w[1], &len);
            dict_t *d = cur_dict();
            int id = dict_wordid(d, (char *)a), steps = 0, first = 1, start = id;
            if (id < 0 || id >= d->n_word) printf("c none\n");
            else {
                printf("c ");
                while ((id = dict_nextalt(d, id)) != BAD_S3WID) {
                    if (id < 0 || id >= d->n_word) { printf("%s!oob%d", first ? "" : ",", id); first = 0; break; }
                    if (++steps > d->n_word + 1) { printf("%s!cycle", first ? "" : ","); first = 0; break; }
                    printf("%s%d", first ? "" : ",", id);
                    first = 0;
                }
                if (first) printf("-");
                printf(" b=");
                {
                    int bw = dict_basewid(d, start);
                    if (bw >= 0 && bw < d->n_word && d->word[bw].word)
                        vf_print_hex(stdout, (unsigned char *)dict_basestr(d, start), strlen(dict_basestr(d, start)));
                    else printf("!bad%d", bw);
                }
                printf("\n");
            }
            free(a);
        } else if (n == 2 && !strcmp(w[0], "base")) {
            unsigned char *a = vf_parse_hex(w[1], &len);
            char *wa = (char *)malloc(len + 1);
            int rv;
            memcpy(wa, a, len + 1);
            printf("b "); fflush(stdout);
            rv = dict_word2basestr(wa);
            printf("%d ", rv);
            vf_print_hex(stdout, (unsigned char *)wa, strlen(wa));
            printf("\n");
            free(a); free(wa);
        } else if (n == 1 && !strcmp(w[0], "dump")) {
            dump(cur_dict());
        } else if (n == 1 && !strcmp(w[0], "d2p") && dec) {
            char why[256];
            int i, bad = 0;
            dict_t *d = dec->dict;
            for (i = 0; i < d->n_word && !bad; i++)
                if (d2p_word(dec->d2p, d, dec->acmod->mdef, i, why, sizeof(why)) < 0) bad = 1;
            if (bad) printf("d2p bad %s\n", why); else printf("d2p ok\n");
        } else if (n == 1 && !strcmp(w[0], "tabs") && dec) {
            /* every written row of the tables the searches read, in key order */
            dict2pid_t *t = dec->d2p;
            int nci = bin_mdef_n_ciphone(dec->acmod->mdef), b, l, r, k;
            printf("t");
            for (b = 0; b < nci; b++)
                for (r = 0; r < nci; r++) {
                    int any = 0;
                    for (l = 0; l < nci; l++) if (t->ldiph_lc[b][r][l] != BAD_S3SSID) any = 1;
                    if (!any) continue;
                    printf(" L%d,%d:", b, r);
                    for (l = 0; l < nci; l++) printf("%s%d", l ? "." : "", t->ldiph_lc[b][r][l]);
                }
            for (b = 0; b < nci; b++) {
                int any = 0;
                for (l = 0; l < nci; l++) for (r = 0; r < nci; r++) if (t->lrdiph_rc[b][l][r] != BAD_S3SSID) any = 1;
                if (!any) continue;
                printf(" S%d:", b);
                for (l = 0; l < nci; l++) for (r = 0; r < nci; r++) printf("%s%d", (l || r) ? "." : "", t->lrdiph_rc[b][l][r]);
            }
            for (b = 0; b < nci; b++)
                for (l = 0; l < nci; l++) {
                    xwdssid_t *x = &t->rssid[b][l];
                    if (x->n_ssid == 0) continue;
                    printf(" R%d,%d:", b, l);
                    for (k = 0; k < x->n_ssid; k++) printf("%s%d", k ? "." : "", x->ssid[k]);
                    printf("/");
                    for (k = 0; k < nci; k++) printf("%s%d", k ? "." : "", x->cimap[k]);
                }
            printf("\n");
        } else if (n == 2 && !strcmp(w[0], "intern") && dec) {
            unsigned char *a = vf_parse_hex(w[1], &len);
            int id = dict_wordid(dec->dict, (char *)a), k;
            printf("i");
            if (id >= 0)
                for (k = 1; k + 1 < dict_pronlen(dec->dict, id); k++) printf(" %d", dict2pid_internal(dec->d2p, id, k));
            printf("\n");
            free(a);
        } else if (n >= 2 && !strcmp(w[0], "fsg") && dec) {
            printf("g "); fflush(stdout);
            set_linear_fsg(w + 1, n - 1, 0);
        } else if (n == 2 && !strcmp(w[0], "alts") && dec) {
            printf("g "); fflush(stdout);
            set_linear_fsg(w + 1, 1, 1);
        } else if (((n == 2 && !strcmp(w[0], "align")) || (n >= 2 && !strcmp(w[0], "jsgf"))) && dec) {
            unsigned char *a = vf_parse_hex(w[1], &len);
            printf("g "); fflush(stdout);
            printf("%d\n", w[0][0] == 'a' ? decoder_set_align_text(dec, (char *)a) : decoder_set_jsgf_string(dec, (char *)a));
            free(a);
        } else if (n == 2 && !strcmp(w[0], "decode") && dec) {
            FILE *fh = fopen(rawpath, "rb");
            int16 buf[2048];
            size_t nread;
            const char *hyp;
            int32 score;
            int aligned = 0;
            printf("h "); fflush(stdout);
            if (!fh || !dec->search) { printf("!nosearch 0\n"); if (fh) fclose(fh); fflush(stdout); continue; }
            decoder_start_utt(dec);
            while ((nread = fread(buf, sizeof(*buf), 2048, fh)) > 0)
                decoder_process_int16(dec, buf, nread, 0, 0);
            fclose(fh);
            decoder_end_utt(dec);
            hyp = decoder_hyp(dec, &score);
            if (hyp) vf_print_hex(stdout, (const unsigned char *)hyp, strlen(hyp)); else printf("none");
            if (atoi(w[1]) && hyp) {
                alignment_t *al = decoder_alignment(dec);
                aligned = al != NULL;
            }
            printf(" %d\n", aligned);
        } else {
            printf("bad-op\n");
        }
        fflush(stdout);
    }
    close_all();
    bin_mdef_free(smdef);
    return 0;
}
