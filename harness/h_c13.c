/* C13 harness: replays FSG construction / transformation / write / read ops on the real
 * fsg_model.c (and the static helpers of fsg_search.c:83-169).  One output line per input line,
 * same format as `ssdriver c13` (arc lists in iteration order; the checker sorts them). */
#include "common.h"
#include <math.h>
#include <soundswallower/bin_mdef.h>
#include <soundswallower/bitvec.h>
#include <soundswallower/configuration.h>
#include <soundswallower/dict.h>
#include <soundswallower/err.h>
#include <soundswallower/fsg_model.h>
#include <soundswallower/logmath.h>
#include <soundswallower/s3file.h>
/* static fsg_search_add_silences / fsg_search_add_altpron live here; all non-static symbols of
 * fsg_search.o are then defined by this object, so the archive member is not pulled in */
#include "fsg_search.c"

static logmath_t *lmath;
static fsg_model_t *fsg;
static char *wtext; /* last text written */
static size_t wlen;
static dict_t *dict;
static config_t *config;
static bin_mdef_t *mdef;
static const char *mdef_path;

static char *unhex(const char *s)
{
    size_t len;
    if (!strcmp(s, "-")) { char *e = (char *)malloc(1); e[0] = 0; return e; }
    return (char *)vf_parse_hex(s, &len);
}

static void print_hex_str(const char *s)
{
    vf_print_hex(stdout, (const unsigned char *)s, strlen(s));
}

static void print_link(fsg_link_t *l, int first)
{
    printf("%s%d:%d:%d:%d", first ? "" : ",", l->from_state, l->to_state, l->logs2prob, l->wid < 0 ? -1 : l->wid);
}

static void print_arcs(void)
{
    int i, n = 0;
    for (i = 0; i < fsg->n_state; i++) {
        fsg_arciter_t *it;
        for (it = fsg_model_arcs(fsg, i); it; it = fsg_arciter_next(it))
            print_link(fsg_arciter_get(it), n++ == 0);
    }
    if (n == 0) printf("-");
}

static void dump(void)
{
    int i, n;
    printf("fsg %d %d %d | arcs ", fsg->n_state, fsg->start_state, fsg->final_state);
    print_arcs();
    printf(" | vocab ");
    for (i = 0; i < fsg->n_word; i++) { if (i) printf(","); print_hex_str(fsg->vocab[i]); }
    if (fsg->n_word == 0) printf("-");
    printf(" | sil ");
    for (i = n = 0; i < fsg->n_word; i++)
        if (fsg_model_is_filler(fsg, i)) printf("%s%d", n++ ? "," : "", i);
    if (n == 0) printf("-");
    printf(" | alt ");
    for (i = n = 0; i < fsg->n_word; i++)
        if (fsg_model_is_alt(fsg, i)) printf("%s%d", n++ ? "," : "", i);
    if (n == 0) printf("-");
    printf("\n");
}

/* the expression of the reader (fsg_model.c:623-630) on one token */
static int parsep(const char *tok, float32 lw, int32 *out)
{
    float32 p = (float32)atof(tok);
    if ((p <= 0.0) || (p > 1.0)) return -1;
    *out = (int32)(logmath_log(lmath, p) * lw);
    return 0;
}

/* the text is copied into an exactly sized heap block (no NUL behind it) so that ASan sees any
 * read past the end of the file */
static void do_read(const char *text, size_t len, float32 lw)
{
    char *exact = (char *)malloc(len ? len : 1);
    s3file_t *s;
    fsg_model_t *g2;
    memcpy(exact, text, len);
    s = s3file_init(exact, len);
    fflush(stdout);
    g2 = fsg_model_read_s3file(s, lmath, lw);
    s3file_free(s);
    free(exact);
    if (g2) {
        if (fsg) fsg_model_free(fsg);
        fsg = g2;
        printf("ok\n");
    } else
        printf("err\n");
}

int main(int argc, char **argv)
{
    static char line[1 << 22];
    char *w[16];
    err_set_loglevel(ERR_FATAL);
    mdef_path = argc > 1 ? argv[1] : "/repo/model/en-us/mdef";
    lmath = logmath_init(1.0001, 0, 0);
    while (fgets(line, sizeof(line), stdin)) {
        int n = vf_words(line, w, 16);
        if (n == 0) { printf("bad-op\n"); fflush(stdout); continue; }
        if (n == 6 && !strcmp(w[0], "new")) {
            char *name = strcmp(w[4], "-") ? unhex(w[4]) : NULL;
            if (fsg) fsg_model_free(fsg);
            fsg = fsg_model_init(name, lmath, (float32)atof(w[5]), atoi(w[1]));
            fsg->start_state = atoi(w[2]);
            fsg->final_state = atoi(w[3]);
            free(name);
            printf("ok %d\n", logmath_get_zero(lmath));
        } else if (n == 2 && !strcmp(w[0], "word")) {
            char *s = unhex(w[1]);
            printf("v %d\n", fsg_model_word_add(fsg, s));
            free(s);
        } else if (n == 5 && !strcmp(w[0], "trans")) {
            fsg_model_trans_add(fsg, atoi(w[1]), atoi(w[2]), atoi(w[3]), atoi(w[4]));
            printf("ok\n");
        } else if (n == 4 && !strcmp(w[0], "null")) {
            printf("v %d\n", fsg_model_null_trans_add(fsg, atoi(w[1]), atoi(w[2]), atoi(w[3])));
        } else if (n == 1 && !strcmp(w[0], "closure")) {
            glist_t nulls = fsg_model_null_trans_closure(fsg, NULL);
            printf("v %d 1\n", glist_count(nulls));
            glist_free(nulls);
        } else if (n == 4 && !strcmp(w[0], "silence")) {
            char *s = unhex(w[1]);
            float32 silprob = (float32)atof(w[3]);
            int32 lp = (int32)(logmath_log(fsg->lmath, silprob) * fsg->lw);
            int r = fsg_model_add_silence(fsg, s, atoi(w[2]), silprob);
            printf("v %d %d\n", r, lp);
            free(s);
        } else if (n == 3 && !strcmp(w[0], "alt")) {
            char *b = unhex(w[1]), *a = unhex(w[2]);
            printf("v %d\n", fsg_model_add_alt(fsg, b, a));
            free(b); free(a);
        } else if (n == 1 && !strcmp(w[0], "dump")) {
            dump();
        } else if (n == 1 && !strcmp(w[0], "write")) {
            FILE *fp;
            free(wtext); wtext = NULL; wlen = 0;
            fp = open_memstream(&wtext, &wlen);
            fsg_model_write(fsg, fp);
            fclose(fp);
            printf("wtext ");
            vf_print_hex(stdout, (const unsigned char *)wtext, wlen);
            printf(" | ");
            print_arcs();
            printf("\n");
        } else if (n == 3 && !strcmp(w[0], "read")) {
            /* read <hex text> <lw> */
            size_t len;
            unsigned char *buf = vf_parse_hex(w[1], &len);
            do_read((const char *)buf, len, (float32)atof(w[2]));
            free(buf);
        } else if (n == 2 && !strcmp(w[0], "reread")) {
            /* reread <lw>: read back the text of the last `write` */
            do_read(wtext ? wtext : "", wlen, (float32)atof(w[1]));
        } else if (n == 3 && !strcmp(w[0], "parsep")) {
            char *t = unhex(w[1]);
            int32 v;
            if (parsep(t, (float32)atof(w[2]), &v) == 0) printf("v %d\n", v);
            else printf("err\n");
            free(t);
        } else if (n == 3 && !strcmp(w[0], "dict")) {
            /* dict <hex main dictionary text> <hex filler dictionary text>: a real dict_t built by
             * dict_init_s3file with the phone set of the mdef given as argv[1] */
            size_t l1, l2;
            unsigned char *b1 = vf_parse_hex(w[1], &l1), *b2 = vf_parse_hex(w[2], &l2);
            s3file_t *s1 = s3file_init(b1, l1), *s2 = s3file_init(b2, l2);
            if (dict) dict_free(dict);
            if (mdef == NULL) mdef = bin_mdef_read(NULL, mdef_path);
            dict = mdef ? dict_init_s3file(NULL, mdef, s1, s2) : NULL;
            s3file_free(s1); s3file_free(s2);
            free(b1); free(b2);
            if (dict) {
                int i;
                printf("v %d %d %d ", dict->n_word, dict->filler_start, dict->filler_end);
                for (i = 0; i < dict->n_word; i++) { if (i) printf(","); print_hex_str(dict_wordstr(dict, i)); }
                printf("\n");
            } else
                printf("err\n");
        } else if (n == 3 && !strcmp(w[0], "addsilences")) {
            fsg_search_t fs;
            int r;
            memset(&fs, 0, sizeof(fs));
            if (config == NULL) config = config_init(NULL);
            config_set_float(config, "silprob", atof(w[1]));
            config_set_float(config, "fillprob", atof(w[2]));
            fs.base.dict = dict;
            fs.base.config = config;
            r = fsg_search_add_silences(&fs, fsg);
            printf("v %d %d %d\n", r,
                   (int32)(logmath_log(fsg->lmath, (float32)config_float(config, "silprob")) * fsg->lw),
                   (int32)(logmath_log(fsg->lmath, (float32)config_float(config, "fillprob")) * fsg->lw));
        } else if (n == 1 && !strcmp(w[0], "addaltpron")) {
            fsg_search_t fs;
            memset(&fs, 0, sizeof(fs));
            fs.base.dict = dict;
            printf("v %d\n", fsg_search_add_altpron(&fs, fsg));
        } else
            printf("bad-op\n");
        fflush(stdout);
    }
    /* release everything: under LSan (leak tier of the check) whatever fsg_model_free, the reader's
     * error paths or the closure's glist handling left behind is reported */
    if (fsg) fsg_model_free(fsg);
    if (dict) dict_free(dict);
    if (mdef) bin_mdef_free(mdef);
    if (config) config_free(config);
    free(wtext);
    logmath_free(lmath);
    return 0;
}
