/* C01/C03 harness: decodes audio through the public API against a loaded grammar and dumps
 *   - the grammar as it was loaded (before fsg_search_init added filler loops / alternates),
 *   - the search FSG (fsg_model_arcs on ((fsg_search_t*)d->search)->fsg),
 *   - for every word of the search FSG whether the DICTIONARY calls it a filler (SD; C03), dictionary facts (SR),
 *   - the whole history table (fsg_history_entry_get),
 *   - what decoder_hyp / decoder_seg_iter (+ seg_iter_word/_frames/_prob) returned,
 *   - the return value of every decoder_process_* call, decoder_n_frames, decoder_end_utt.
 * Commands on stdin, one per line (strings in hex); every output line is flushed.
 *
 *   newdec k=v ...          free the decoder, make a new one (hmm=<argv[1]> unless given)
 *   addlike <hexnew> <hexold>   decoder_add_word(new, pronunciation of old)
 *   jsgffile <path>         decoder_set_jsgf_file
 *   setcfg <key> <hex|->    config_set_str on the live decoder's configuration (toprule)
 *   jsgf <hex>              decoder_set_jsgf_string (+ separate compile of the same text = loaded grammar)
 *   fsgfile <path>          fsg_model_readfile, dump, decoder_set_fsg
 *   align <hex>             decoder_set_align_text (loaded grammar = the word chain, built here)
 *   audio <path>            raw int16 mono samples
 *   start | end             decoder_start_utt / decoder_end_utt
 *   proc <n> <nosearch> <full> <f32>   feed the next n samples
 *   poll <align|json0|json1|json2|lattice|hyp|seg>   decoder_alignment / decoder_result_json / decoder_lattice / …
 *   dump <tag>              everything listed above
 */
#include "common.h"
#include <soundswallower/decoder.h>
#include <soundswallower/configuration.h>
#include <soundswallower/err.h>
#include <soundswallower/fsg_history.h>
#include <soundswallower/fsg_model.h>
#include <soundswallower/fsg_search.h>
#include <soundswallower/jsgf.h>
#include <soundswallower/search_module.h>
#include <soundswallower/dict.h>
#include <soundswallower/fe.h>
#include <soundswallower/ckd_alloc.h>
/* c01hyp: allocation size of the returned hypothesis string (only in the ASan flavour) */
#if defined(__has_feature)
#  if __has_feature(address_sanitizer)
#    define VF_C01_HAVE_ASAN 1
#  endif
#endif
#if !defined(VF_C01_HAVE_ASAN) && defined(__SANITIZE_ADDRESS__)
#  define VF_C01_HAVE_ASAN 1
#endif
#ifndef VF_C01_HAVE_ASAN
#  define VF_C01_HAVE_ASAN 0
#endif
#if VF_C01_HAVE_ASAN
#  include <sanitizer/allocator_interface.h>
#endif

static decoder_t *dec;
static const char *hmmdir;
static char *orig_block;      /* text of the "G ..." block of the grammar as loaded */
static int16 *audio;
static size_t n_audio, audio_pos;

static void hexs(FILE *f, const char *s)
{
    if (s == NULL) { fputs("null", f); return; }
    vf_print_hex(f, (const unsigned char *)s, strlen(s));
}

/* append formatted text to a growing string */
typedef struct { char *p; size_t n, cap; } sbuf_t;
static void sb_put(sbuf_t *b, const char *s)
{
    size_t l = strlen(s);
    if (b->n + l + 1 > b->cap) { b->cap = (b->n + l + 1) * 2; b->p = (char *)realloc(b->p, b->cap); }
    memcpy(b->p + b->n, s, l + 1);
    b->n += l;
}
static void sb_hex(sbuf_t *b, const char *s)
{
    char t[4];
    if (*s == 0) { sb_put(b, "-"); return; }
    for (; *s; s++) { sprintf(t, "%02x", (unsigned char)*s); sb_put(b, t); }
}

static const char *base_of(const char *word)
{
    int32 w = dict_wordid(dec->dict, word);
    if (w == BAD_S3WID) return NULL;
    return dict_basestr(dec->dict, w);
}

/* every arc of an FSG through the public arc iterator; `tag` prefixes the lines */
static void fsg_to_sb(sbuf_t *b, fsg_model_t *fsg, const char *tag, fsg_link_t ***out_links, int *out_n)
{
    char t[256];
    int i, n = 0, cap = 64;
    fsg_link_t **links = (fsg_link_t **)malloc(sizeof(*links) * cap);
    sprintf(t, "%sF %d %d %d %d\n", tag, fsg_model_start_state(fsg), fsg_model_final_state(fsg),
            fsg_model_n_state(fsg), fsg_model_n_word(fsg));
    sb_put(b, t);
    for (i = 0; i < fsg_model_n_word(fsg); i++) {
        const char *w = fsg_model_word_str(fsg, i), *bs = base_of(w);
        sprintf(t, "%sW %d ", tag, i); sb_put(b, t);
        sb_hex(b, w);
        sprintf(t, " %d %d ", fsg_model_is_filler(fsg, i) ? 1 : 0, fsg_model_is_alt(fsg, i) ? 1 : 0); sb_put(b, t);
        if (bs) sb_hex(b, bs); else sb_put(b, "null");
        sb_put(b, "\n");
    }
    for (i = 0; i < fsg_model_n_state(fsg); i++) {
        fsg_arciter_t *it;
        for (it = fsg_model_arcs(fsg, i); it; it = fsg_arciter_next(it)) {
            fsg_link_t *l = fsg_arciter_get(it);
            if (n == cap) { cap *= 2; links = (fsg_link_t **)realloc(links, sizeof(*links) * cap); }
            links[n] = l;
            sprintf(t, "%sA %d %d %d %d %d\n", tag, n, fsg_link_from_state(l), fsg_link_to_state(l),
                    fsg_link_logs2prob(l), fsg_link_wid(l));
            sb_put(b, t);
            n++;
        }
    }
    if (out_links) { *out_links = links; *out_n = n; } else free(links);
}

static void set_orig_from_fsg(fsg_model_t *fsg)
{
    sbuf_t b = { NULL, 0, 0 };
    sb_put(&b, "");
    fsg_to_sb(&b, fsg, "G", NULL, NULL);
    free(orig_block);
    orig_block = b.p;
}

static char *jsgf_reference_block(jsgf_t *j);

static void cmd_newdec(char **w, int n)
{
    config_t *cfg;
    int i, have_hmm = 0;
    if (dec) { decoder_free(dec); dec = NULL; }
    free(orig_block); orig_block = NULL;
    cfg = config_init(NULL);
    for (i = 1; i < n; i++) {
        char *eq = strchr(w[i], '=');
        if (!eq) continue;
        *eq = 0;
        if (!strcmp(w[i], "hmm")) have_hmm = 1;
        if (config_set_str(cfg, w[i], eq + 1) == NULL) { printf("newdec badconfig %s\n", w[i]); }
    }
    if (!have_hmm) config_set_str(cfg, "hmm", hmmdir);
    dec = decoder_init(cfg);
    if (dec && dec->search) {
        /* a grammar installed by decoder_init from the configuration (jsgf= / fsg=) */
        const char *jp = config_str(dec->config, "jsgf"), *fp = config_str(dec->config, "fsg");
        if (jp) {
            jsgf_t *j = jsgf_parse_file(jp, NULL);
            orig_block = jsgf_reference_block(j);
            if (j) jsgf_grammar_free(j);
        } else if (fp) {
            fsg_model_t *fsg = fsg_model_readfile(fp, dec->lmath, (float32)config_float(dec->config, "lw"));
            if (fsg) { set_orig_from_fsg(fsg); fsg_model_free(fsg); }
        }
    }
    printf("newdec %s %d\n", dec ? "ok" : "fail", dec && dec->search ? 1 : 0);
}

/* decoder_add_word(new, pronunciation of an existing word): case variants and homophones */
static void cmd_addlike(const char *hexnew, const char *hexold)
{
    size_t l1, l2;
    char *nw = (char *)vf_parse_hex(hexnew, &l1), *ow = (char *)vf_parse_hex(hexold, &l2);
    char *phones = decoder_lookup_word(dec, ow);
    int rv = -99;
    if (phones) {
        rv = decoder_add_word(dec, nw, phones, 1);
        ckd_free(phones);
    }
    printf("addlike %d\n", rv);
    free(nw); free(ow);
}

/* The grammar as loaded, for a JSGF text: the same text compiled separately, start rule = the rule the
 * CONFIGURATION names (toprule, looked up with jsgf_get_rule) or else the first public rule — never whatever
 * the decoder activated.  Returns the malloc'ed "G…" block or NULL (parse error / no such rule). */
static char *jsgf_reference_block(jsgf_t *j)
{
    const char *toprule = config_str(dec->config, "toprule");
    jsgf_rule_t *r;
    fsg_model_t *fsg;
    sbuf_t b = { NULL, 0, 0 };
    if (j == NULL) return NULL;
    r = toprule ? jsgf_get_rule(j, toprule) : jsgf_get_public_rule(j);
    if (r == NULL) return NULL;
    fsg = jsgf_build_fsg(j, r, dec->lmath, (float32)config_float(dec->config, "lw"));
    if (fsg == NULL) return NULL;
    sb_put(&b, "");
    fsg_to_sb(&b, fsg, "G", NULL, NULL);
    fsg_model_free(fsg);
    return b.p;
}

static void cmd_jsgf(const char *hex)
{
    size_t len;
    char *s = (char *)vf_parse_hex(hex, &len), *blk;
    jsgf_t *j = jsgf_parse_string(s, NULL);
    int rv;
    blk = jsgf_reference_block(j);
    if (j) jsgf_grammar_free(j);
    rv = decoder_set_jsgf_string(dec, s);
    if (rv == 0) { free(orig_block); orig_block = blk; } else free(blk);
    printf("jsgf %d\n", rv);
    free(s);
}

static void cmd_jsgffile(const char *path)
{
    char *blk;
    jsgf_t *j = jsgf_parse_file(path, NULL);
    int rv;
    blk = jsgf_reference_block(j);
    if (j) jsgf_grammar_free(j);
    rv = decoder_set_jsgf_file(dec, path);
    if (rv == 0) { free(orig_block); orig_block = blk; } else free(blk);
    printf("jsgffile %d\n", rv);
}

/* config_set_str on the live decoder's configuration ("-" = NULL): e.g. toprule between grammar loads */
static void cmd_setcfg(const char *key, const char *hexval)
{
    size_t len;
    char *v = strcmp(hexval, "-") ? (char *)vf_parse_hex(hexval, &len) : NULL;
    const void *r = config_set_str(dec->config, key, v);
    printf("setcfg %d\n", r ? 0 : -1);
    free(v);
}

static void cmd_fsgfile(const char *path)
{
    fsg_model_t *fsg = fsg_model_readfile(path, dec->lmath, (float32)config_float(dec->config, "lw"));
    int rv;
    if (fsg == NULL) { printf("fsgfile -2\n"); return; }
    {
        sbuf_t b = { NULL, 0, 0 };
        sb_put(&b, "");
        fsg_to_sb(&b, fsg, "G", NULL, NULL);
        rv = decoder_set_fsg(dec, fsg);   /* consumes fsg (also on failure, D17) */
        if (rv == 0) { free(orig_block); orig_block = b.p; } else free(b.p);
    }
    printf("fsgfile %d\n", rv);
}

static void cmd_align(const char *hex)
{
    size_t len;
    char *s = (char *)vf_parse_hex(hex, &len), *copy, *tok, *save;
    sbuf_t b = { NULL, 0, 0 }, wl = { NULL, 0, 0 }, al = { NULL, 0, 0 };
    char t[128];
    int rv, nw = 0, nv = 0, i;
    char *vocab[4096];
    sb_put(&b, ""); sb_put(&wl, ""); sb_put(&al, "");
    /* the loaded grammar of an alignment text is the chain of its words */
    copy = strdup(s);
    for (tok = strtok_r(copy, " \t\n\r", &save); tok && nv < 4096; tok = strtok_r(NULL, " \t\n\r", &save)) {
        const char *bs;
        int wid = -1;
        for (i = 0; i < nv; i++) if (!strcmp(vocab[i], tok)) wid = i;
        if (wid < 0) {
            wid = nv; vocab[nv++] = tok;
            bs = base_of(tok);
            sprintf(t, "GW %d ", wid); sb_put(&wl, t); sb_hex(&wl, tok); sb_put(&wl, " 0 0 ");
            if (bs) sb_hex(&wl, bs); else sb_put(&wl, "null");
            sb_put(&wl, "\n");
        }
        sprintf(t, "GA %d %d %d 0 %d\n", nw, nw, nw + 1, wid); sb_put(&al, t);
        nw++;
    }
    sprintf(t, "GF 0 %d %d %d\n", nw, nw + 1, nv); sb_put(&b, t);
    sb_put(&b, wl.p); sb_put(&b, al.p);
    free(wl.p); free(al.p);
    rv = decoder_set_align_text(dec, s);
    if (rv == 0) { free(orig_block); orig_block = b.p; } else free(b.p);
    printf("align %d\n", rv);
    free(copy); free(s);
}

static void cmd_audio(const char *path)
{
    FILE *f = fopen(path, "rb");
    long sz;
    free(audio); audio = NULL; n_audio = audio_pos = 0;
    if (!f) { printf("audio fail\n"); return; }
    fseek(f, 0, SEEK_END); sz = ftell(f); fseek(f, 0, SEEK_SET);
    audio = (int16 *)malloc(sz + 2);
    n_audio = fread(audio, 2, sz / 2, f);
    fclose(f);
    printf("audio %zu\n", n_audio);
}

/* number of cepstral frames a fresh front end with the decoder's configuration produces for the
 * whole audio given at once (reference for the frame accounting) */
static int fe_reference_frames(void)
{
    fe_t *fe = fe_init(dec->config);
    int16 *p = audio;
    size_t n = audio_pos, nfed = audio_pos;   /* samples supplied in this utterance */
    int nfr, tot = 0, nout;
    mfcc_t **buf;
    if (!fe) return -1;
    fe_start(fe);
    nfr = fe_process_int16(fe, NULL, &n, NULL, 0);
    if (nfr < 0) { fe_free(fe); return -1; }
    nout = nfr + 2;
    buf = (mfcc_t **)ckd_calloc_2d(nout, fe_get_output_size(fe), sizeof(mfcc_t));
    n = nfed;
    if (n > 0) {
        nfr = fe_process_int16(fe, &p, &n, buf, nout);
        if (nfr > 0) tot += nfr;
    }
    nfr = fe_end(fe, buf + tot, nout - tot);
    if (nfr > 0) tot += nfr;
    ckd_free_2d(buf);
    fe_free(fe);
    return tot;
}

static void cmd_proc(int n, int nosearch, int full, int f32)
{
    int rv;
    size_t k = (size_t)n;
    fsg_search_t *fs = (fsg_search_t *)dec->search;
    if (audio_pos + k > n_audio) k = n_audio - audio_pos;
    if (f32) {
        float32 *fb = (float32 *)malloc(sizeof(float32) * (k + 1));
        size_t i;
        for (i = 0; i < k; i++) fb[i] = (float32)audio[audio_pos + i] / 32768.0f;
        rv = decoder_process_float32(dec, fb, k, nosearch, full);
        free(fb);
    } else {
        /* private copy so that an overrun is seen by ASan */
        int16 *ib = (int16 *)malloc(sizeof(int16) * (k + 1));
        memcpy(ib, audio + audio_pos, sizeof(int16) * k);
        rv = decoder_process_int16(dec, ib, k, nosearch, full);
        free(ib);
    }
    audio_pos += k;
    printf("proc %d %zu %d %d\n", rv, k, decoder_n_frames(dec), fs ? fs->frame : -99);
}

/* result accessors a client may call between processing calls (and after the end): none of them may
 * disturb the frame counters */
static void cmd_poll(const char *what)
{
    fsg_search_t *fs = (fsg_search_t *)dec->search;
    int rv = 0;
    if (!strcmp(what, "align")) rv = decoder_alignment(dec) != NULL;
    else if (!strcmp(what, "json0")) rv = decoder_result_json(dec, 0.0, 0) != NULL;
    else if (!strcmp(what, "json1")) rv = decoder_result_json(dec, 0.0, 1) != NULL;
    else if (!strcmp(what, "json2")) rv = decoder_result_json(dec, 0.0, 2) != NULL;
    else if (!strcmp(what, "lattice")) rv = decoder_lattice(dec) != NULL;
    else if (!strcmp(what, "hyp")) { int32 sc; rv = decoder_hyp(dec, &sc) != NULL; }
    else if (!strcmp(what, "seg")) { seg_iter_t *it = decoder_seg_iter(dec); rv = it != NULL; if (it) seg_iter_free(it); }
    else rv = -9;
    printf("poll %s %d %d %d\n", what, rv, decoder_n_frames(dec), fs ? fs->frame : -99);
}

static void cmd_dump(const char *tag)
{
    fsg_search_t *fs = (fsg_search_t *)dec->search;
    fsg_link_t **links = NULL;
    int nl = 0, i, n, nseg = 0;
    sbuf_t b = { NULL, 0, 0 };
    const char *hyp;
    int32 score = 0;
    seg_iter_t *seg;
    if (!fs) { printf("D none\n"); return; }
    printf("D begin %s %d %d %d %d\n", tag, fs->final ? 1 : 0, fs->frame, decoder_n_frames(dec),
           fsg_history_n_entries(fs->history));
    if (orig_block) fputs(orig_block, stdout);
    sb_put(&b, "");
    fsg_to_sb(&b, fs->fsg, "S", &links, &nl);
    fputs(b.p, stdout);
    free(b.p);
    /* SD <i> <0|1>: word i of the search FSG is a filler word BY THE DICTIONARY (dict_filler_word), whatever the
     * grammar's own filler marks (flag of the SW lines = fsg_model_is_filler) say */
    for (i = 0; i < fsg_model_n_word(fs->fsg); i++) {
        int32 dw = dict_wordid(dec->dict, fsg_model_word_str(fs->fsg, i));
        printf("SD %d %d\n", i, dw != BAD_S3WID && dict_filler_word(dec->dict, dw) ? 1 : 0);
    }
    /* SR <nloop> <badrange> <silfiller> <badalt>: the hypotheses of Props/C03Fillers.lean on the decoder's dictionary as it
     * is now: words the loop of fsg_search_add_silences visits / of them not dict_filler_word; <sil> is one; words whose
     * next alternate has another base word */
    {
        dict_t *dd = dec->dict;
        int32 w;
        int nloop = 0, badrange = 0, badalt = 0;
        for (w = dict_filler_start(dd); w < dict_filler_end(dd); ++w) {
            if (w == dict_startwid(dd) || w == dict_finishwid(dd)) continue;
            nloop++;
            if (!dict_filler_word(dd, w)) badrange++;
        }
        for (w = 0; w < dict_size(dd); ++w) {
            int32 a = dict_nextalt(dd, w);
            if (a != BAD_S3WID && dict_basewid(dd, a) != dict_basewid(dd, w)) badalt++;
        }
        printf("SR %d %d %d %d\n", nloop, badrange, dict_filler_word(dd, dict_silwid(dd)) ? 1 : 0, badalt);
    }
    n = fsg_history_n_entries(fs->history);
    for (i = 0; i < n; i++) {
        fsg_hist_entry_t *e = fsg_history_entry_get(fs->history, i);
        int li = -1, k, j;
        if (e == NULL) { printf("E %d missing\n", i); continue; }
        if (e->fsglink) {
            li = -2;
            for (k = 0; k < nl; k++) if (links[k] == e->fsglink) { li = k; break; }
        }
        printf("E %d %d %d %d %d %d ", i, li, e->frame, e->score, e->pred, e->lc);
        for (j = 0; j < FSG_PNODE_CTXT_BVSZ; j++) printf("%08x", e->rc.bv[j]);
        printf("\n");
    }
    free(links);
    hyp = decoder_hyp(dec, &score);
    printf("H ");
    if (hyp) { if (*hyp) hexs(stdout, hyp); else printf("-"); }
    else printf("null");
    printf(" %d\n", score);   /* `score` was initialised to 0: untouched when there is no exit */
    /* HB <allocated size> <strlen> <hex of the WHOLE allocated block> (c01hyp): the block fsg_search_hyp allocated for the
     * string — exact requested size by ASan's allocator interface, `-` in a flavour built without ASan, 0 when the pointer
     * is not the start of a live heap block.  tools/props/c01.py compares with Model/HypBuf.lean: len, len-1, every byte. */
    if (!hyp) printf("HB null\n");
    else {
        size_t sl = strlen(hyp);
#if VF_C01_HAVE_ASAN
        size_t al = __sanitizer_get_allocated_size(hyp);
        printf("HB %zu %zu ", al, sl);
        if (al) vf_print_hex(stdout, (const unsigned char *)hyp, al); else printf("-");
        {   /* self-test of the observer: it must report the requested size exactly */
            void *t = calloc(1, 37);
            printf(" st37=%zu\n", __sanitizer_get_allocated_size(t));
            free(t);
        }
#else
        printf("HB - %zu -\n", sl);
#endif
    }
    for (seg = decoder_seg_iter(dec); seg; seg = seg_iter_next(seg)) {
        int sf, ef;
        int32 ascr, lscr, prob;
        const char *w = seg_iter_word(seg);
        seg_iter_frames(seg, &sf, &ef);
        prob = seg_iter_prob(seg, &ascr, &lscr);
        printf("X %d ", nseg);
        if (w && *w) hexs(stdout, w); else printf("%s", w ? "-" : "null");
        printf(" %d %d %d %d %d\n", sf, ef, ascr, lscr, prob);
        nseg++;
    }
    printf("D end %d\n", nseg);
}

int main(int argc, char **argv)
{
    static char line[1 << 20];
    char *w[64];
    hmmdir = argc > 1 ? argv[1] : "/repo/model/en-us";
    err_set_loglevel(ERR_FATAL);
    setvbuf(stdout, NULL, _IOLBF, 0);
    while (fgets(line, sizeof(line), stdin)) {
        int n = vf_words(line, w, 64);
        if (n == 0) continue;
        /* echo the command first so that a crash is attributed to it */
        printf("> %s\n", w[0]);
        fflush(stdout);
        if (!strcmp(w[0], "newdec")) cmd_newdec(w, n);
        else if (!dec) printf("nodec\n");
        else if (!strcmp(w[0], "addlike") && n == 3) cmd_addlike(w[1], w[2]);
        else if (!strcmp(w[0], "jsgf") && n == 2) cmd_jsgf(w[1]);
        else if (!strcmp(w[0], "jsgffile") && n == 2) cmd_jsgffile(w[1]);
        else if (!strcmp(w[0], "setcfg") && n == 3) cmd_setcfg(w[1], w[2]);
        else if (!strcmp(w[0], "fsgfile") && n == 2) cmd_fsgfile(w[1]);
        else if (!strcmp(w[0], "align") && n == 2) cmd_align(w[1]);
        else if (!strcmp(w[0], "audio") && n == 2) cmd_audio(w[1]);
        else if (!strcmp(w[0], "start")) { audio_pos = 0; printf("start %d\n", decoder_start_utt(dec)); }
        else if (!strcmp(w[0], "proc") && n == 5) cmd_proc(atoi(w[1]), atoi(w[2]), atoi(w[3]), atoi(w[4]));
        else if (!strcmp(w[0], "end")) {
            fsg_search_t *fs = (fsg_search_t *)dec->search;
            int before = fs ? fs->frame : 0, rv = decoder_end_utt(dec);
            printf("end %d %d %d %d\n", rv, fs ? fs->frame - before : 0, decoder_n_frames(dec), fe_reference_frames());
        }
        else if (!strcmp(w[0], "poll") && n == 2) cmd_poll(w[1]);
        else if (!strcmp(w[0], "dump") && n == 2) cmd_dump(w[1]);
        else printf("bad-op\n");
        fflush(stdout);
    }
    if (dec) decoder_free(dec);
    free(orig_block); free(audio);
    return 0;
}
