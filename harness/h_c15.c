/* C15 harness: drives the real ps_endpointer.c (included, because struct endpointer_s is
 * private) with a VAD whose decision is a bit carried in the frame itself.
 *
 * The real ps_vad.c is included too, so sample-rate / frame-length validation, frame_size and
 * frame_length are the library's own; only vad_classify() is replaced (renamed away by a macro)
 * by a stub that reads the decision from sample 0 of the frame.  Every frame also carries its
 * id and a pseudo-random payload derived from the id, so every returned frame is recognised and
 * checked byte for byte.
 *
 * ops (stdin)                                  output (one line per op, flushed)
 *   init <window> <ratio> <mode> <sr> <fl>     init ok maxlen=M start=S end=E fs=F sr=R | init fail
 *   p <0|1>                                    p ret=<id|none|corrupt> insp=B start=T end=T q=T ts=T n=N err=K | pos=P
 *   e <nsamp>                                  e ret=<null|->|id,id,..[,T<nsamp>]> out=<n|untouched> insp=.. (same tail)
 * Times T are printed in samples: llround(seconds * sample_rate).
 * stdout is line buffered and every op prints exactly one line, so when the library dies (sanitizer
 * report, assert) the number of complete output lines identifies the operation that did it. */
#include "common.h"
#include <math.h>

#define vad_classify vad_classify_real
#include "ps_vad.c"
#undef vad_classify
vad_class_t vad_classify(vad_t *vad, const int16 *frame);
#include "ps_endpointer.c"

static long n_classify;
vad_class_t vad_classify(vad_t *vad, const int16 *frame)
{
    (void)vad;
    ++n_classify;
    return frame[0] ? VAD_SPEECH : VAD_NOT_SPEECH;
}

static int n_err;
static void err_cb(void *u, err_lvl_t lvl, const char *msg)
{
    (void)u; (void)msg;
    if (lvl >= ERR_ERROR) ++n_err;
}

#define KIND_FRAME 0
#define KIND_TRAIL 1
static void fill(int16 *f, size_t fs, int decision, long id, int kind)
{
    uint64_t s = (uint64_t)id * 2654435761u + (uint64_t)kind * 977 + 12345;
    size_t i;
    for (i = 0; i < fs; i++) f[i] = (int16)(vf_rand(&s) & 0xffff);
    f[0] = (int16)decision;
    if (fs > 1) f[1] = (int16)(id & 0x7fff);
    if (fs > 2) f[2] = (int16)((id >> 15) & 0x7fff);
    if (fs > 3) f[3] = (int16)kind;
}

static endpointer_t *ep;
static size_t fs;
static int sr;
static long next_id, next_trail;
static signed char *decisions;   /* decision given with frame id */
static size_t dec_cap;

static long long samples_of(double t) { return llround(t * (double)sr); }

static void tail(void)
{
    printf(" insp=%d start=%lld end=%lld q=%lld ts=%lld n=%d err=%d | pos=%d\n",
           endpointer_in_speech(ep) ? 1 : 0, samples_of(endpointer_speech_start(ep)),
           samples_of(endpointer_speech_end(ep)), samples_of(ep->qstart_time), samples_of(ep->timestamp),
           ep->n, n_err, ep->pos);
}

/* identify a whole frame handed back by the library; -1 if it is not a byte-identical copy */
static long identify(const int16 *p, int16 *scratch)
{
    long id = (long)(uint16_t)p[1] | ((long)(uint16_t)p[2] << 15);
    if (p[3] != KIND_FRAME || id < 0 || id >= next_id) return -1;
    fill(scratch, fs, decisions[id], id, KIND_FRAME);
    return memcmp(scratch, p, fs * sizeof(int16)) == 0 ? id : -1;
}

int main(void)
{
    char line[4096], *w[8];
    int16 *frame = NULL, *scratch = NULL;
    err_set_callback(err_cb, NULL);
    setvbuf(stdout, NULL, _IOLBF, 0);
    while (fgets(line, sizeof(line), stdin)) {
        int n;
        n = vf_words(line, w, 8);
        if (n == 6 && !strcmp(w[0], "init")) {
            if (ep) { endpointer_free(ep); ep = NULL; }
            free(frame); free(scratch); frame = scratch = NULL;
            n_err = 0; next_id = 0; next_trail = 0;
            ep = endpointer_init(strtod(w[1], NULL), strtod(w[2], NULL), (vad_mode_t)atoi(w[3]),
                                 atoi(w[4]), strtod(w[5], NULL));
            if (ep == NULL) { printf("init fail\n"); continue; }
            fs = endpointer_frame_size(ep);
            sr = endpointer_sample_rate(ep);
            frame = (int16 *)malloc(fs * sizeof(int16));      /* exactly one frame: over-reads are caught */
            scratch = (int16 *)malloc(fs * sizeof(int16));
            n_err = 0;
            printf("init ok maxlen=%d start=%d end=%d fs=%zu sr=%d\n", ep->maxlen, ep->start_frames,
                   ep->end_frames, fs, sr);
        } else if (ep == NULL) {
            printf("noep\n");
        } else if (n == 2 && !strcmp(w[0], "p")) {
            int d = atoi(w[1]) ? 1 : 0;
            const int16 *r;
            long id = next_id++;
            if ((size_t)id >= dec_cap) {
                dec_cap = dec_cap ? dec_cap * 2 : 1024;
                decisions = (signed char *)realloc(decisions, dec_cap);
            }
            decisions[id] = (signed char)d;
            fill(frame, fs, d, id, KIND_FRAME);
            n_err = 0;
            r = endpointer_process(ep, frame);
            memset(frame, 0x5a, fs * sizeof(int16));          /* the library must have copied it */
            if (r == NULL) printf("p ret=none");
            else {
                long got = identify(r, scratch);
                if (got < 0) printf("p ret=corrupt"); else printf("p ret=%ld", got);
            }
            tail();
        } else if (n == 2 && !strcmp(w[0], "e")) {
            size_t nsamp = (size_t)atol(w[1]), out = (size_t)-7, off = 0;
            int16 *tr = (int16 *)malloc((nsamp ? nsamp : 1) * sizeof(int16));   /* exactly nsamp samples */
            int16 *trfull = (int16 *)malloc(((nsamp > fs ? nsamp : fs) + 1) * sizeof(int16));
            const int16 *r;
            long tid = next_trail++;
            int first = 1;
            fill(trfull, nsamp > fs ? nsamp : fs, 1, tid, KIND_TRAIL);
            memcpy(tr, trfull, nsamp * sizeof(int16));
            n_err = 0;
            r = endpointer_end_stream(ep, tr, nsamp, &out);
            memset(tr, 0x5a, nsamp * sizeof(int16));
            printf("e ret=");
            if (r == NULL) printf("null");
            else if (out == (size_t)-7 || out == 0) printf("-");
            else {
                while (off < out) {
                    size_t left = out - off;
                    if (!first) printf(",");
                    first = 0;
                    if (left >= fs && identify(r + off, scratch) >= 0) {
                        printf("%ld", identify(r + off, scratch));
                        off += fs;
                    } else if (left == nsamp && memcmp(r + off, trfull, nsamp * sizeof(int16)) == 0) {
                        printf("T%zu", nsamp);
                        off += nsamp;
                    } else { printf("corrupt@%zu", off); break; }
                }
            }
            if (out == (size_t)-7) printf(" out=untouched"); else printf(" out=%zu", out);
            tail();
            free(tr); free(trfull);
        } else
            printf("bad-op\n");
    }
    if (ep) endpointer_free(ep);
    free(frame); free(scratch); free(decisions);
    return 0;
}
