/* C06 harness: runs call schedules on the real fe_process_int16 / fe_process_float32 / fe_end.
 * Same line protocol as `ssdriver c06` (see lean/Driver/C06.lean); lines starting with '#' are
 * implementation-side oracle detail (bitwise comparisons) that the model does not print.
 *
 *   cfg <id> <size> <shift> [key=value ...]   build a front end; prints the REAL frame size/shift
 *   sig <N> <seed> <kind>                     synthesise N int16 samples (+ the float32 equivalent)
 *                                             and compute the three references
 *   run <enc> <endroom> <len>:<l,l,..|-> ...  enc i|f; one fe_process call per limit on what is
 *                                             left of the chunk, then one with the dry-run count
 *   rt                                        exhaustive int16 -> float32 -> int16 round trip
 *
 * Every call gets its samples in a fresh exact-size heap block, so ASan sees any access outside
 * the buffer of *this* call (backward read of create_overflow_frame, re-read from orig_spch). */
#include "common.h"
#include <math.h>
#include <stdarg.h>
#include <soundswallower/config_defs.h>
#include <soundswallower/configuration.h>
#include <soundswallower/err.h>
#include <soundswallower/fe.h>

static const config_param_t fe_args[] = { FE_OPTIONS, { NULL, 0, NULL, NULL } };

static config_t *config;
static fe_t *fe;
static int fsize, fshift, ncep;
static int16 *sig16;
static float32 *sigf;
static size_t N;
static mfcc_t *ref;     /* single-call int16 reference, nref rows */
static int nref;

static int canon_count(size_t n)
{
    size_t K = n < (size_t)fsize ? 0 : 1 + (n - fsize) / fshift;
    return (int)(K + (K * fshift < n ? 1 : 0));
}

static mfcc_t **rows(mfcc_t *flat, int n)
{
    mfcc_t **r = (mfcc_t **)malloc(sizeof(*r) * (n + 1));
    int i;
    for (i = 0; i < n; i++) r[i] = flat + (size_t)i * ncep;
    return r;
}

/* frames differ? returns -1 when bitwise equal, else the first differing frame */
static int first_diff(const mfcc_t *a, const mfcc_t *b, int n)
{
    int i;
    for (i = 0; i < n; i++)
        if (memcmp(a + (size_t)i * ncep, b + (size_t)i * ncep, sizeof(mfcc_t) * ncep) != 0)
            return i;
    return -1;
}

/* single call with the room the dry run asks for, then fe_end */
static int single_call(int enc, mfcc_t *out, int room)
{
    size_t n = N;
    int nfr, got;
    mfcc_t **r = rows(out, room);
    void *blk;
    fe_start(fe);
    if (enc == 'i') {
        int16 *p;
        blk = malloc(N * sizeof(int16) + 1);
        memcpy(blk, sig16, N * sizeof(int16));
        p = (int16 *)blk;
        nfr = fe_process_int16(fe, NULL, &n, NULL, 0);
        if (nfr > room) { printf("# dry run %d exceeds room %d\n", nfr, room); nfr = room; }
        got = fe_process_int16(fe, &p, &n, r, nfr);
    } else {
        float32 *p;
        blk = malloc(N * sizeof(float32) + 1);
        memcpy(blk, sigf, N * sizeof(float32));
        p = (float32 *)blk;
        nfr = fe_process_float32(fe, NULL, &n, NULL, 0);
        if (nfr > room) { printf("# dry run %d exceeds room %d\n", nfr, room); nfr = room; }
        got = fe_process_float32(fe, &p, &n, r, nfr);
    }
    if (n != 0) printf("# single call left %zu samples\n", n);
    got += fe_end(fe, r + got, nfr - got);
    free(blk);
    free(r);
    return got;
}

/* the canonical windows [k*shift, min(k*shift+size, N)) read directly, bypassing fe_process */
static int canon_windows(int enc, mfcc_t *out)
{
    int k, cnt = canon_count(N);
    fe_start(fe);
    for (k = 0; k < cnt; k++) {
        size_t a = (size_t)k * fshift;
        int len = (N - a < (size_t)fsize) ? (int)(N - a) : fsize;
        if (enc == 'i') {
            int16 *blk = (int16 *)malloc(len * sizeof(int16) + 1);
            memcpy(blk, sig16 + a, len * sizeof(int16));
            fe_read_frame_int16(fe, blk, len);
            free(blk);
        } else {
            float32 *blk = (float32 *)malloc(len * sizeof(float32) + 1);
            memcpy(blk, sigf + a, len * sizeof(float32));
            fe_read_frame_float32(fe, blk, len);
            free(blk);
        }
        fe_write_frame(fe, out + (size_t)k * ncep);
    }
    return cnt;
}

static void do_cfg(int n, char **w)
{
    int i;
    if (fe) { fe_free(fe); fe = NULL; }
    if (config) { config_free(config); config = NULL; }
    config = config_init(fe_args);
    config_set_str(config, "input_endian", "little");
    for (i = 4; i < n; i++) {
        char *eq = strchr(w[i], '=');
        if (!eq) continue;
        *eq = 0;
        if (!config_set_str(config, w[i], eq + 1)) { printf("cfg %s bad-key %s\n", w[1], w[i]); return; }
    }
    fe = fe_init(config);
    if (!fe) { printf("cfg %s init-failed\n", w[1]); return; }
    fe_get_input_size(fe, &fshift, &fsize);
    ncep = fe_get_output_size(fe);
    printf("cfg %s size %d shift %d\n", w[1], fsize, fshift);
    printf("# ncep %d expect-size %s expect-shift %s\n", ncep, w[2], w[3]);
}

static void do_sig(char **w)
{
    size_t i;
    uint64_t st = strtoull(w[2], NULL, 10) * 0x9E3779B97F4A7C15ULL + 77;
    int kind = atoi(w[3]);
    int room, n1, n2, n3, n4;
    mfcc_t *a, *b, *c4;
    N = strtoull(w[1], NULL, 10);
    free(sig16); free(sigf); free(ref);
    sig16 = (int16 *)malloc(N * sizeof(int16) + 1);
    sigf = (float32 *)malloc(N * sizeof(float32) + 1);
    for (i = 0; i < N; i++) {
        uint64_t r = vf_rand(&st);
        int v;
        switch (kind) {
        case 0: v = (int)(r & 0xffff) - 32768; break;                        /* full-range noise */
        case 1: v = (int)(9000.0 * sin(i * 0.071) + 3000.0 * sin(i * 0.53) + (double)(r % 400) - 200.0); break;
        case 2: v = (r & 7) == 0 ? ((r & 8) ? 32767 : -32768) : (int)((r >> 8) % 2001) - 1000; break; /* extremes */
        default: v = (int)(r % 64) - 32 + ((i / 700) % 2 ? (int)((r >> 20) % 20000) - 10000 : 0); break; /* bursts */
        }
        if (v > 32767) v = 32767;
        if (v < -32768) v = -32768;
        sig16[i] = (int16)v;
        sigf[i] = (float32)sig16[i] / FLOAT32_SCALE;
    }
    printf("sig %zu\n", N);
    if (!fe) return;
    room = canon_count(N) + 4;
    ref = (mfcc_t *)calloc((size_t)room * ncep + 1, sizeof(mfcc_t));
    a = (mfcc_t *)calloc((size_t)room * ncep + 1, sizeof(mfcc_t));
    b = (mfcc_t *)calloc((size_t)room * ncep + 1, sizeof(mfcc_t));
    c4 = (mfcc_t *)calloc((size_t)room * ncep + 1, sizeof(mfcc_t));
    n1 = single_call('i', ref, room);
    nref = n1;
    n2 = single_call('f', a, room);
    n3 = canon_windows('i', b);
    n4 = canon_windows('f', c4);
    {
        /* how discriminating the bitwise comparison is: adjacent reference frames that differ */
        int k, distinct = 0, finite = 1;
        size_t j;
        for (k = 0; k + 1 < n1; k++)
            if (memcmp(ref + (size_t)k * ncep, ref + (size_t)(k + 1) * ncep, sizeof(mfcc_t) * ncep) != 0)
                distinct++;
        for (j = 0; j < (size_t)n1 * ncep; j++)
            if (!isfinite(ref[j])) finite = 0;
        /* # refs <single-call count> <formula count> f32=<-1 equal|first differing frame> canon-i16=.. canon-f32=.. */
        printf("# refs %d %d f32=%d canoni=%d canonf=%d distinct=%d finite=%d\n", n1, canon_count(N),
               n2 == n1 ? first_diff(ref, a, n1) : -2,
               n3 == n1 ? first_diff(ref, b, n1) : -2,
               n4 == n1 ? first_diff(ref, c4, n1) : -2, distinct, finite);
    }
    free(a); free(b); free(c4);
}

static void do_run(int n, char **w)
{
    int enc = w[1][0], endroom = atoi(w[2]);
    int room = canon_count(N) + 8 + endroom, total = 0, i, nend;
    size_t pos = 0, left_total = 0;
    mfcc_t *out = (mfcc_t *)calloc((size_t)room * ncep + 1, sizeof(mfcc_t));
    mfcc_t **r = rows(out, room);
    int overrun = 0;
    fe_start(fe);
    printf("run");
    for (i = 3; i < n; i++) {
        char *colon = strchr(w[i], ':');
        size_t len = strtoull(w[i], NULL, 10), rem = len;
        char *lp = colon ? colon + 1 : (char *)"-";
        int final = 0;
        if (pos + len > N) { printf(" bad-partition\n"); goto done; }
        for (;;) {
            int limit, dry, got;
            size_t before = rem, nn = rem;
            void *blk;
            if (*lp == '-' || *lp == 0) {
                if (rem == 0) break;
                final = 1;
            }
            /* fresh exact-size block holding what is left of the chunk */
            if (enc == 'i') {
                blk = malloc(rem * sizeof(int16));
                memcpy(blk, sig16 + pos, rem * sizeof(int16));
                dry = fe_process_int16(fe, NULL, &nn, NULL, 0);
            } else {
                blk = malloc(rem * sizeof(float32));
                memcpy(blk, sigf + pos, rem * sizeof(float32));
                dry = fe_process_float32(fe, NULL, &nn, NULL, 0);
            }
            if (final) limit = dry;
            else {
                limit = (int)strtol(lp, &lp, 10);
                if (*lp == ',') lp++;
            }
            /* the rows really needed: at most the dry-run count; a larger limit is passed through as is */
            if (total + (limit < dry ? limit : dry) > room) { overrun = 1; free(blk); break; }
            if (enc == 'i') {
                int16 *p = (int16 *)blk;
                got = fe_process_int16(fe, &p, &nn, r + total, limit);
                if ((size_t)(p - (int16 *)blk) != before - nn) printf(" ptr-mismatch");
            } else {
                float32 *p = (float32 *)blk;
                got = fe_process_float32(fe, &p, &nn, r + total, limit);
                if ((size_t)(p - (float32 *)blk) != before - nn) printf(" ptr-mismatch");
            }
            free(blk);
            printf(" c=%d/%d/%zu/%d/%d", dry, limit, before - nn, got, fe->num_overflow_samps);
            if (got > limit) printf(" wrote-more-than-limit");
            total += got > 0 ? got : 0;
            pos += before - nn;
            rem = nn;
            if (final) break;
        }
        if (overrun) break;
        left_total += rem;
        pos += rem; /* samples the front end refused are skipped, as a caller that gives up would */
    }
    if (overrun) { printf(" output-room-exhausted\n"); goto done; }
    nend = fe_end(fe, r + total, endroom);
    total += nend;
    {
        /* the property on the implementation: bitwise equal to the single-call reference */
        int same = (total == nref) ? first_diff(ref, out, total) : -2;
        printf(" end=%d/%d/%zu canon=%d\n", nend, total, left_total, same == -1 ? 1 : 0);
        printf("# cmp frames %d ref %d firstdiff %d novf-after-end %d\n", total, nref, same, fe->num_overflow_samps);
    }
done:
    free(r);
    free(out);
}

static void do_rt(void)
{
    int s, bad = 0;
    for (s = -32768; s <= 32767; s++) {
        volatile float32 f = (float32)(int16)s / FLOAT32_SCALE;   /* what the overflow buffer stores */
        volatile float32 g = f * FLOAT32_SCALE;                   /* what fe_read_frame_float32 computes */
        volatile float32 d = (float32)(int16)s;                   /* what fe_read_frame_int16 stores */
        volatile float32 h = (int16)s / FLOAT32_SCALE;            /* append_overflow_frame's spelling */
        if (memcmp((const void *)&g, (const void *)&d, sizeof(float32)) != 0 || (int)g != s
            || memcmp((const void *)&f, (const void *)&h, sizeof(float32)) != 0)
            bad++;
    }
    printf("rt 65536 bad %d\n", bad);
}

/* ---------------------------------------------------------------------------------------------
 * Byte-order family (C06Swap).  NEW ops only; nothing above is changed.
 *
 *   swcfg <id> <dither 0|1> <seed> [key=value ...]
 *        builds TWO front ends with the same parameters: A with input_endian = host order,
 *        B with input_endian = the other order; prints
 *        "swcfg <id> size S shift H host=<little|big> swapA=<fe->swap> swapB=<fe->swap> dither=D seed=X"
 *   swp <enc i|f> <endroom> <len>:<l,l,..|-> ...
 *        same call protocol as `run` (fresh exact-size heap block per call, limits, dry-run final call,
 *        fe_end with endroom) on A with the raw signal of the last `sig` and on B with the signal whose
 *        every sample is byte-reversed; s3_rand_seed(seed) is called before EACH of the two runs (fe_init
 *        seeds the one global generator only once), so both runs draw the same dither sequence.
 *        Prints one line:
 *        "swp <enc> ok=<0|1> fail=<first failing item|-> frames=T nend=E left=L hash=<FNV-1a of A's frames> ref=<1|0|-> calls=dry/limit/consumed/got/novfBefore/novfAfter/PQ,..."
 *        P: d direct read, r read_overflow_frame, o overflow_append on empty carry, O overflow_append onto a
 *        non-empty carry, z nothing consumed;  Q: c create_overflow_frame, p append_overflow_frame, - none.
 *        enc x / y: MIXED run, chunk j (0-based position in the spec list) goes through fe_process_int16 when j is
 *        even (x) resp. odd (y) and through fe_process_float32 otherwise, all calls of a chunk alike; the call records
 *        then carry a third letter i|f.  Output for enc i / f is unchanged.
 *        Items checked: tags of fe->overflow_samps after every call (cell i holds float32(sample/32768) of source
 *        sample pos-novf+i, bytes reversed iff fe->swap), fe->spch host-order after every call that produced a
 *        frame and after fe_end, B's per-call log == A's, B's frames bitwise == A's, and with dither off
 *        B's frames bitwise == a single-call reference computed on A. */
#include <soundswallower/genrand.h>

static config_t *swconfA, *swconfB;
static fe_t *swA, *swB;
static int sw_dither, sw_seed;

#if defined(__BYTE_ORDER__) && __BYTE_ORDER__ == __ORDER_BIG_ENDIAN__
#define SW_HOST "big"
#define SW_OTHER "little"
#else
#define SW_HOST "little"
#define SW_OTHER "big"
#endif

typedef struct { int dry, limit, got, nb, na; size_t cons; char p, q, e; } swcall_t;
typedef struct {
    mfcc_t *out;
    int total, nend, ncalls, bad;
    size_t left;
    swcall_t calls[4096];
    char fail[400];
} swres_t;

static void sw_fail(swres_t *R, const char *fmt, ...)
{
    va_list ap;
    if (R->bad) return;
    R->bad = 1;
    va_start(ap, fmt);
    vsnprintf(R->fail, sizeof(R->fail), fmt, ap);
    va_end(ap);
}

static void sw_rev(void *p, int n)
{
    unsigned char *b = (unsigned char *)p, t;
    int i;
    for (i = 0; i < n / 2; i++) { t = b[i]; b[i] = b[n - 1 - i]; b[n - 1 - i] = t; }
}

/* cells [0, num_overflow_samps) hold float32(sample/32768) of source samples pos-novf.., input byte order */
static void sw_tags(fe_t *f, const char *who, int enc, size_t pos, int ci, swres_t *R)
{
    int nv = f->num_overflow_samps, i;
    if (nv < 0 || nv > f->frame_size || (size_t)nv > pos) {
        sw_fail(R, "%s-novf-range:call=%d,novf=%d,pos=%zu", who, ci, nv, pos);
        return;
    }
    for (i = 0; i < nv; i++) {
        size_t src = pos - nv + i;
        float32 v = enc == 'i' ? (float32)sig16[src] / FLOAT32_SCALE : sigf[src];
        unsigned char e[4], g[4];
        memcpy(e, &v, 4);
        if (f->swap) sw_rev(e, 4);
        memcpy(g, f->overflow_samps + i, 4);
        if (memcmp(e, g, 4) != 0) {
            sw_fail(R, "%s-ovf-tag:call=%d,cell=%d,novf=%d,src=%zu,want=%02x%02x%02x%02x,got=%02x%02x%02x%02x",
                    who, ci, i, nv, src, e[0], e[1], e[2], e[3], g[0], g[1], g[2], g[3]);
            return;
        }
    }
}

/* fe->spch[0,len) holds the window starting at `start` as host-order values (up to the dither increment) */
static void sw_spch(fe_t *f, const char *who, int enc, size_t start, int len, int ci, swres_t *R)
{
    int i;
    if (start + len > N) { sw_fail(R, "%s-spch-range:call=%d,start=%zu,len=%d", who, ci, start, len); return; }
    for (i = 0; i < len; i++) {
        float32 v = (float32)sig16[start + i], s = f->spch[i];
        int ok;
        if (!f->dither) ok = memcmp(&v, &s, 4) == 0;
        else ok = s == v || s == v + 1.0f || (enc == 'i' && sig16[start + i] == 32767 && s == -32768.0f);
        if (!ok) {
            sw_fail(R, "%s-spch-host-order:call=%d,i=%d,src=%zu,want=%.9g,got=%.9g", who, ci, i, start + i,
                    (double)v, (double)s);
            return;
        }
    }
}

static void sw_run(fe_t *f, const char *who, int enc, const int16 *s16, const float32 *sf,
                   int endroom, int n, char **w, swres_t *R)
{
    int room = canon_count(N) + 8 + endroom, total = 0, i;
    size_t pos = 0;
    mfcc_t **r;
    int size = f->frame_size, shift = f->frame_shift;
    R->out = (mfcc_t *)calloc((size_t)room * ncep + 1, sizeof(mfcc_t));
    R->ncalls = 0; R->bad = 0; R->left = 0; R->fail[0] = 0; R->nend = 0; R->total = 0;
    r = rows(R->out, room);
    s3_rand_seed(sw_seed);
    fe_start(f);
    for (i = 3; i < n && !R->bad; i++) {
        char *colon = strchr(w[i], ':');
        size_t len = strtoull(w[i], NULL, 10), rem = len;
        char *lp = colon ? colon + 1 : (char *)"-";
        int final = 0;
        /* mixed runs: x = chunk j (position in the spec list) int16 when j is even, float32 when odd; y = opposite */
        int cenc = (enc == 'x' || enc == 'y') ? ((((i - 3) % 2 == 0) == (enc == 'x')) ? 'i' : 'f') : enc;
        if (pos + len > N) { sw_fail(R, "bad-partition"); break; }
        for (;;) {
            int limit, dry, got, nb = f->num_overflow_samps;
            size_t before = rem, nn = rem;
            void *blk;
            swcall_t *C;
            if (*lp == '-' || *lp == 0) {
                if (rem == 0) break;
                final = 1;
            }
            if (R->ncalls >= 4096) { sw_fail(R, "too-many-calls"); break; }
            if (cenc == 'i') {
                blk = malloc(rem * sizeof(int16));
                memcpy(blk, s16 + pos, rem * sizeof(int16));
                dry = fe_process_int16(f, NULL, &nn, NULL, 0);
            } else {
                blk = malloc(rem * sizeof(float32));
                memcpy(blk, sf + pos, rem * sizeof(float32));
                dry = fe_process_float32(f, NULL, &nn, NULL, 0);
            }
            if (final) limit = dry;
            else {
                limit = (int)strtol(lp, &lp, 10);
                if (*lp == ',') lp++;
            }
            if (total + (limit < dry ? limit : dry) > room) { sw_fail(R, "output-room-exhausted"); free(blk); break; }
            if (cenc == 'i') {
                int16 *p = (int16 *)blk;
                got = fe_process_int16(f, &p, &nn, r + total, limit);
                if ((size_t)(p - (int16 *)blk) != before - nn) sw_fail(R, "%s-ptr-mismatch:call=%d", who, R->ncalls);
            } else {
                float32 *p = (float32 *)blk;
                got = fe_process_float32(f, &p, &nn, r + total, limit);
                if ((size_t)(p - (float32 *)blk) != before - nn) sw_fail(R, "%s-ptr-mismatch:call=%d", who, R->ncalls);
            }
            free(blk);
            C = &R->calls[R->ncalls];
            C->dry = dry; C->limit = limit; C->got = got; C->nb = nb; C->na = f->num_overflow_samps; C->cons = before - nn; C->e = (char)cenc;
            if (got <= 0) { C->p = C->cons > 0 ? (nb > 0 ? 'O' : 'o') : 'z'; C->q = '-'; }
            else {
                int k, m = nb > 0 ? nb - shift : 0;
                C->p = nb > 0 ? 'r' : 'd';
                for (k = 1; k < got; k++) if (m > 0) m -= shift;
                C->q = m <= 0 ? 'c' : 'p';
            }
            if (got > limit) sw_fail(R, "%s-wrote-more-than-limit:call=%d", who, R->ncalls);
            total += got > 0 ? got : 0;
            pos += before - nn;
            rem = nn;
            sw_tags(f, who, cenc, pos, R->ncalls, R);
            if (got >= 1) sw_spch(f, who, cenc, (size_t)(total - 1) * shift, size, R->ncalls, R);
            R->ncalls++;
            if (final || R->bad) break;
        }
        if (rem) { R->left += rem; sw_fail(R, "%s-samples-left:chunk=%d,left=%zu", who, i - 3, rem); }
    }
    if (!R->bad) {
        int nv = f->num_overflow_samps;
        R->nend = fe_end(f, r + total, endroom);
        if (R->nend == 1) sw_spch(f, who, (enc == 'x' || enc == 'y') ? 'f' : enc, (size_t)total * shift, nv, -1, R);
        total += R->nend;
    }
    R->total = total;
    free(r);
}

static void do_swcfg(int n, char **w)
{
    int i, k;
    if (swA) { fe_free(swA); swA = NULL; }
    if (swB) { fe_free(swB); swB = NULL; }
    if (swconfA) { config_free(swconfA); swconfA = NULL; }
    if (swconfB) { config_free(swconfB); swconfB = NULL; }
    sw_dither = atoi(w[2]);
    sw_seed = atoi(w[3]);
    for (k = 0; k < 2; k++) {
        config_t *cf = config_init(fe_args);
        config_set_str(cf, "input_endian", k == 0 ? SW_HOST : SW_OTHER);
        config_set_str(cf, "dither", sw_dither ? "yes" : "no");
        config_set_str(cf, "seed", w[3]);
        for (i = 4; i < n; i++) {
            char *eq = strchr(w[i], '=');
            if (!eq) continue;
            *eq = 0;
            if (!config_set_str(cf, w[i], eq + 1)) { printf("swcfg %s bad-key %s\n", w[1], w[i]); return; }
            *eq = '=';
        }
        if (k == 0) { swconfA = cf; swA = fe_init(cf); } else { swconfB = cf; swB = fe_init(cf); }
    }
    if (!swA || !swB) { printf("swcfg %s init-failed\n", w[1]); return; }
    printf("swcfg %s size %d shift %d host=%s swapA=%d swapB=%d dither=%d/%d seed=%d\n", w[1], swA->frame_size,
           swA->frame_shift, SW_HOST, swA->swap, swB->swap, swA->dither, swB->dither, sw_seed);
}

static void do_swp(int n, char **w)
{
    int enc = w[1][0], endroom = atoi(w[2]);
    static swres_t RA, RB;
    fe_t *save_fe = fe;
    int save_size = fsize, save_shift = fshift, save_ncep = ncep;
    int16 *s16 = (int16 *)malloc(N * sizeof(int16) + 1);
    float32 *sf = (float32 *)malloc(N * sizeof(float32) + 1);
    size_t j;
    int i, refeq = -1;
    char item[500];
    item[0] = 0;
    memcpy(s16, sig16, N * sizeof(int16));
    memcpy(sf, sigf, N * sizeof(float32));
    for (j = 0; j < N; j++) { sw_rev(s16 + j, 2); sw_rev(sf + j, 4); }
    fsize = swA->frame_size; fshift = swA->frame_shift; ncep = fe_get_output_size(swA);
    sw_run(swA, "A", enc, sig16, sigf, endroom, n, w, &RA);
    sw_run(swB, "B", enc, s16, sf, endroom, n, w, &RB);
    if (swA->swap != 0 || swB->swap == 0) snprintf(item, sizeof(item), "swap-flags:A=%d,B=%d", swA->swap, swB->swap);
    else if (RA.bad) snprintf(item, sizeof(item), "%s", RA.fail);
    else if (RB.bad) snprintf(item, sizeof(item), "%s", RB.fail);
    else if (RA.ncalls != RB.ncalls) snprintf(item, sizeof(item), "call-count:A=%d,B=%d", RA.ncalls, RB.ncalls);
    else {
        for (i = 0; i < RA.ncalls && !item[0]; i++) {
            swcall_t *a = &RA.calls[i], *b = &RB.calls[i];
            if (a->dry != b->dry || a->limit != b->limit || a->got != b->got || a->nb != b->nb || a->na != b->na
                || a->cons != b->cons)
                snprintf(item, sizeof(item), "call-log:call=%d,A=%d/%d/%zu/%d/%d/%d,B=%d/%d/%zu/%d/%d/%d", i, a->dry,
                         a->limit, a->cons, a->got, a->nb, a->na, b->dry, b->limit, b->cons, b->got, b->nb, b->na);
        }
        if (!item[0] && (RA.total != RB.total || RA.nend != RB.nend))
            snprintf(item, sizeof(item), "frame-count:A=%d(end %d),B=%d(end %d)", RA.total, RA.nend, RB.total, RB.nend);
        if (!item[0]) {
            int d = first_diff(RA.out, RB.out, RA.total);
            if (d != -1) snprintf(item, sizeof(item), "frames-B-vs-A:first-differing-frame=%d,of=%d", d, RA.total);
        }
        if (!item[0] && !sw_dither) {
            /* single-call reference on A (host order, no dither) */
            int room = canon_count(N) + 4, nr;
            mfcc_t *rf = (mfcc_t *)calloc((size_t)room * ncep + 1, sizeof(mfcc_t));
            fe = swA;
            nr = single_call('i', rf, room);
            fe = save_fe;
            refeq = (nr == RB.total && first_diff(rf, RB.out, nr) == -1) ? 1 : 0;
            if (!refeq) snprintf(item, sizeof(item), "frames-B-vs-single-call-reference:ref=%d,B=%d,firstdiff=%d", nr,
                                 RB.total, nr == RB.total ? first_diff(rf, RB.out, nr) : -2);
            free(rf);
        }
    }
    {
        /* FNV-1a of A's frames: lets the caller see whether two schedules gave the same cepstra (dither probe) */
        uint64_t hsh = 1469598103934665603ULL;
        const unsigned char *pb = (const unsigned char *)RA.out;
        size_t nb = (size_t)(RA.total > 0 ? RA.total : 0) * ncep * sizeof(mfcc_t), q;
        for (q = 0; q < nb; q++) { hsh ^= pb[q]; hsh *= 1099511628211ULL; }
        printf("swp %c ok=%d fail=%s frames=%d nend=%d left=%zu hash=%016llx ref=", enc, item[0] ? 0 : 1,
               item[0] ? item : "-", RA.total, RA.nend, RA.left, (unsigned long long)hsh);
    }
    if (refeq < 0) printf("-"); else printf("%d", refeq);
    printf(" calls=");
    for (i = 0; i < RA.ncalls; i++) {
        swcall_t *a = &RA.calls[i];
        printf("%s%d/%d/%zu/%d/%d/%d/%c%c", i ? "," : "", a->dry, a->limit, a->cons, a->got, a->nb, a->na, a->p, a->q);
        if (enc == 'x' || enc == 'y') printf("%c", a->e);   /* mixed runs: the entry point used for this call */
    }
    printf("\n");
    free(RA.out); free(RB.out); RA.out = RB.out = NULL;
    free(s16); free(sf);
    fe = save_fe; fsize = save_size; fshift = save_shift; ncep = save_ncep;
}

int main(void)
{
    char *line = NULL;
    size_t cap = 0;
    char **w = (char **)malloc(sizeof(char *) * (1 << 20));
    err_set_loglevel(ERR_FATAL);
    while (getline(&line, &cap, stdin) > 0) {
        int n = vf_words(line, w, 1 << 20);
        if (n == 0) continue;
        if (!strcmp(w[0], "cfg") && n >= 4) do_cfg(n, w);
        else if (!strcmp(w[0], "sig") && n == 4) do_sig(w);
        else if (!strcmp(w[0], "run") && n >= 3 && fe && sig16) do_run(n, w);
        else if (!strcmp(w[0], "rt")) do_rt();
        else if (!strcmp(w[0], "swcfg") && n >= 4) do_swcfg(n, w);
        else if (!strcmp(w[0], "swp") && n >= 3 && swA && swB && sig16) do_swp(n, w);
        else printf("bad-op\n");
        fflush(stdout);
    }
    if (fe) fe_free(fe);
    if (config) config_free(config);
    if (swA) fe_free(swA);
    if (swB) fe_free(swB);
    if (swconfA) config_free(swconfA);
    if (swconfB) config_free(swconfB);
    free(sig16); free(sigf); free(ref); free(line); free(w);
    return 0;
}
