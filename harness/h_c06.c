/* C06 harness: runs call schedules on the real fe_process_int16 / fe_process_float32 / fe_end.
 * Same line protocol as `ssdriver c06` (see lean/Driver/C06.lean); lines starting with '#' are
 * implementation-side oracle detail (bitwise comparisons) that the model does not print.
 *
 *   cfg <id> <size> <shift> [key=value ...]   build a front end; prints the REAL frame size/shift
 *   sig <N> <seed> <kind>                     synthesise N int16 samples (+ the float32 equivalent)
 *                                             and compute the three references
 *   run <enc> <endroom> <len>:<l,l,..|-> ...  enc i|f; one fe_process call per limit on what is
 *                                             left of the chunk, then one with the dry-run count
 *   rt                                        exhaustive int16 -> float32 -> int16 round trip
 *
 * Every call gets its samples in a fresh exact-size heap block, so ASan sees any access outside
 * the buffer of *this* call (backward read of create_overflow_frame, re-read from orig_spch). */
#include "common.h"
#include <math.h>
#include <soundswallower/config_defs.h>
#include <soundswallower/configuration.h>
#include <soundswallower/err.h>
#include <soundswallower/fe.h>

static const config_param_t fe_args[] = { FE_OPTIONS, { NULL, 0, NULL, NULL } };

static config_t *config;
static fe_t *fe;
static int fsize, fshift, ncep;
static int16 *sig16;
static float32 *sigf;
static size_t N;
static mfcc_t *ref;     /* single-call int16 reference, nref rows */
static int nref;

static int canon_count(size_t n)
{
    size_t K = n < (size_t)fsize ? 0 : 1 + (n - fsize) / fshift;
    return (int)(K + (K * fshift < n ? 1 : 0));
}

static mfcc_t **rows(mfcc_t *flat, int n)
{
    mfcc_t **r = (mfcc_t **)malloc(sizeof(*r) * (n + 1));
    int i;
    for (i = 0; i < n; i++) r[i] = flat + (size_t)i * ncep;
    return r;
}

/* frames differ? returns -1 when bitwise equal, else the first differing frame */
static int first_diff(const mfcc_t *a, const mfcc_t *b, int n)
{
    int i;
    for (i = 0; i < n; i++)
        if (memcmp(a + (size_t)i * ncep, b + (size_t)i * ncep, sizeof(mfcc_t) * ncep) != 0)
            return i;
    return -1;
}

/* single call with the room the dry run asks for, then fe_end */
static int single_call(int enc, mfcc_t *out, int room)
{
    size_t n = N;
    int nfr, got;
    mfcc_t **r = rows(out, room);
    void *blk;
    fe_start(fe);
    if (enc == 'i') {
        int16 *p;
        blk = malloc(N * sizeof(int16) + 1);
        memcpy(blk, sig16, N * sizeof(int16));
        p = (int16 *)blk;
        nfr = fe_process_int16(fe, NULL, &n, NULL, 0);
        if (nfr > room) { printf("# dry run %d exceeds room %d\n", nfr, room); nfr = room; }
        got = fe_process_int16(fe, &p, &n, r, nfr);
    } else {
        float32 *p;
        blk = malloc(N * sizeof(float32) + 1);
        memcpy(blk, sigf, N * sizeof(float32));
        p = (float32 *)blk;
        nfr = fe_process_float32(fe, NULL, &n, NULL, 0);
        if (nfr > room) { printf("# dry run %d exceeds room %d\n", nfr, room); nfr = room; }
        got = fe_process_float32(fe, &p, &n, r, nfr);
    }
    if (n != 0) printf("# single call left %zu samples\n", n);
    got += fe_end(fe, r + got, nfr - got);
    free(blk);
    free(r);
    return got;
}

/* the canonical windows [k*shift, min(k*shift+size, N)) read directly, bypassing fe_process */
static int canon_windows(int enc, mfcc_t *out)
{
    int k, cnt = canon_count(N);
    fe_start(fe);
    for (k = 0; k < cnt; k++) {
        size_t a = (size_t)k * fshift;
        int len = (N - a < (size_t)fsize) ? (int)(N - a) : fsize;
        if (enc == 'i') {
            int16 *blk = (int16 *)malloc(len * sizeof(int16) + 1);
            memcpy(blk, sig16 + a, len * sizeof(int16));
            fe_read_frame_int16(fe, blk, len);
            free(blk);
        } else {
            float32 *blk = (float32 *)malloc(len * sizeof(float32) + 1);
            memcpy(blk, sigf + a, len * sizeof(float32));
            fe_read_frame_float32(fe, blk, len);
            free(blk);
        }
        fe_write_frame(fe, out + (size_t)k * ncep);
    }
    return cnt;
}

static void do_cfg(int n, char **w)
{
    int i;
    if (fe) { fe_free(fe); fe = NULL; }
    if (config) { config_free(config); config = NULL; }
    config = config_init(fe_args);
    config_set_str(config, "input_endian", "little");
    for (i = 4; i < n; i++) {
        char *eq = strchr(w[i], '=');
        if (!eq) continue;
        *eq = 0;
        if (!config_set_str(config, w[i], eq + 1)) { printf("cfg %s bad-key %s\n", w[1], w[i]); return; }
    }
    fe = fe_init(config);
    if (!fe) { printf("cfg %s init-failed\n", w[1]); return; }
    fe_get_input_size(fe, &fshift, &fsize);
    ncep = fe_get_output_size(fe);
    printf("cfg %s size %d shift %d\n", w[1], fsize, fshift);
    printf("# ncep %d expect-size %s expect-shift %s\n", ncep, w[2], w[3]);
}

static void do_sig(char **w)
{
    size_t i;
    uint64_t st = strtoull(w[2], NULL, 10) * 0x9E3779B97F4A7C15ULL + 77;
    int kind = atoi(w[3]);
    int room, n1, n2, n3, n4;
    mfcc_t *a, *b, *c4;
    N = strtoull(w[1], NULL, 10);
    free(sig16); free(sigf); free(ref);
    sig16 = (int16 *)malloc(N * sizeof(int16) + 1);
    sigf = (float32 *)malloc(N * sizeof(float32) + 1);
    for (i = 0; i < N; i++) {
        uint64_t r = vf_rand(&st);
        int v;
        switch (kind) {
        case 0: v = (int)(r & 0xffff) - 32768; break;                        /* full-range noise */
        case 1: v = (int)(9000.0 * sin(i * 0.071) + 3000.0 * sin(i * 0.53) + (double)(r % 400) - 200.0); break;
        case 2: v = (r & 7) == 0 ? ((r & 8) ? 32767 : -32768) : (int)((r >> 8) % 2001) - 1000; break; /* extremes */
        default: v = (int)(r % 64) - 32 + ((i / 700) % 2 ? (int)((r >> 20) % 20000) - 10000 : 0); break; /* bursts */
        }
        if (v > 32767) v = 32767;
        if (v < -32768) v = -32768;
        sig16[i] = (int16)v;
        sigf[i] = (float32)sig16[i] / FLOAT32_SCALE;
    }
    printf("sig %zu\n", N);
    if (!fe) return;
    room = canon_count(N) + 4;
    ref = (mfcc_t *)calloc((size_t)room * ncep + 1, sizeof(mfcc_t));
    a = (mfcc_t *)calloc((size_t)room * ncep + 1, sizeof(mfcc_t));
    b = (mfcc_t *)calloc((size_t)room * ncep + 1, sizeof(mfcc_t));
    c4 = (mfcc_t *)calloc((size_t)room * ncep + 1, sizeof(mfcc_t));
    n1 = single_call('i', ref, room);
    nref = n1;
    n2 = single_call('f', a, room);
    n3 = canon_windows('i', b);
    n4 = canon_windows('f', c4);
    {
        /* how discriminating the bitwise comparison is: adjacent reference frames that differ */
        int k, distinct = 0, finite = 1;
        size_t j;
        for (k = 0; k + 1 < n1; k++)
            if (memcmp(ref + (size_t)k * ncep, ref + (size_t)(k + 1) * ncep, sizeof(mfcc_t) * ncep) != 0)
                distinct++;
        for (j = 0; j < (size_t)n1 * ncep; j++)
            if (!isfinite(ref[j])) finite = 0;
        /* # refs <single-call count> <formula count> f32=<-1 equal|first differing frame> canon-i16=.. canon-f32=.. */
        printf("# refs %d %d f32=%d canoni=%d canonf=%d distinct=%d finite=%d\n", n1, canon_count(N),
               n2 == n1 ? first_diff(ref, a, n1) : -2,
               n3 == n1 ? first_diff(ref, b, n1) : -2,
               n4 == n1 ? first_diff(ref, c4, n1) : -2, distinct, finite);
    }
    free(a); free(b); free(c4);
}

static void do_run(int n, char **w)
{
    int enc = w[1][0], endroom = atoi(w[2]);
    int room = canon_count(N) + 8 + endroom, total = 0, i, nend;
    size_t pos = 0, left_total = 0;
    mfcc_t *out = (mfcc_t *)calloc((size_t)room * ncep + 1, sizeof(mfcc_t));
    mfcc_t **r = rows(out, room);
    int overrun = 0;
    fe_start(fe);
    printf("run");
    for (i = 3; i < n; i++) {
        char *colon = strchr(w[i], ':');
        size_t len = strtoull(w[i], NULL, 10), rem = len;
        char *lp = colon ? colon + 1 : (char *)"-";
        int final = 0;
        if (pos + len > N) { printf(" bad-partition\n"); goto done; }
        for (;;) {
            int limit, dry, got;
            size_t before = rem, nn = rem;
            void *blk;
            if (*lp == '-' || *lp == 0) {
                if (rem == 0) break;
                final = 1;
            }
            /* fresh exact-size block holding what is left of the chunk */
            if (enc == 'i') {
                blk = malloc(rem * sizeof(int16));
                memcpy(blk, sig16 + pos, rem * sizeof(int16));
                dry = fe_process_int16(fe, NULL, &nn, NULL, 0);
            } else {
                blk = malloc(rem * sizeof(float32));
                memcpy(blk, sigf + pos, rem * sizeof(float32));
                dry = fe_process_float32(fe, NULL, &nn, NULL, 0);
            }
            if (final) limit = dry;
            else {
                limit = (int)strtol(lp, &lp, 10);
                if (*lp == ',') lp++;
            }
            /* the rows really needed: at most the dry-run count; a larger limit is passed through as is */
            if (total + (limit < dry ? limit : dry) > room) { overrun = 1; free(blk); break; }
            if (enc == 'i') {
                int16 *p = (int16 *)blk;
                got = fe_process_int16(fe, &p, &nn, r + total, limit);
                if ((size_t)(p - (int16 *)blk) != before - nn) printf(" ptr-mismatch");
            } else {
                float32 *p = (float32 *)blk;
                got = fe_process_float32(fe, &p, &nn, r + total, limit);
                if ((size_t)(p - (float32 *)blk) != before - nn) printf(" ptr-mismatch");
            }
            free(blk);
            printf(" c=%d/%d/%zu/%d/%d", dry, limit, before - nn, got, fe->num_overflow_samps);
            if (got > limit) printf(" wrote-more-than-limit");
            total += got > 0 ? got : 0;
            pos += before - nn;
            rem = nn;
            if (final) break;
        }
        if (overrun) break;
        left_total += rem;
        pos += rem; /* samples the front end refused are skipped, as a caller that gives up would */
    }
    if (overrun) { printf(" output-room-exhausted\n"); goto done; }
    nend = fe_end(fe, r + total, endroom);
    total += nend;
    {
        /* the property on the implementation: bitwise equal to the single-call reference */
        int same = (total == nref) ? first_diff(ref, out, total) : -2;
        printf(" end=%d/%d/%zu canon=%d\n", nend, total, left_total, same == -1 ? 1 : 0);
        printf("# cmp frames %d ref %d firstdiff %d novf-after-end %d\n", total, nref, same, fe->num_overflow_samps);
    }
done:
    free(r);
    free(out);
}

static void do_rt(void)
{
    int s, bad = 0;
    for (s = -32768; s <= 32767; s++) {
        volatile float32 f = (float32)(int16)s / FLOAT32_SCALE;   /* what the overflow buffer stores */
        volatile float32 g = f * FLOAT32_SCALE;                   /* what fe_read_frame_float32 computes */
        volatile float32 d = (float32)(int16)s;                   /* what fe_read_frame_int16 stores */
        volatile float32 h = (int16)s / FLOAT32_SCALE;            /* append_overflow_frame's spelling */
        if (memcmp((const void *)&g, (const void *)&d, sizeof(float32)) != 0 || (int)g != s
            || memcmp((const void *)&f, (const void *)&h, sizeof(float32)) != 0)
            bad++;
    }
    printf("rt 65536 bad %d\n", bad);
}

int main(void)
{
    char *line = NULL;
    size_t cap = 0;
    char **w = (char **)malloc(sizeof(char *) * (1 << 20));
    err_set_loglevel(ERR_FATAL);
    while (getline(&line, &cap, stdin) > 0) {
        int n = vf_words(line, w, 1 << 20);
        if (n == 0) continue;
        if (!strcmp(w[0], "cfg") && n >= 4) do_cfg(n, w);
        else if (!strcmp(w[0], "sig") && n == 4) do_sig(w);
        else if (!strcmp(w[0], "run") && n >= 3 && fe && sig16) do_run(n, w);
        else if (!strcmp(w[0], "rt")) do_rt();
        else printf("bad-op\n");
        fflush(stdout);
    }
    if (fe) fe_free(fe);
    if (config) config_free(config);
    free(sig16); free(sigf); free(ref); free(line); free(w);
    return 0;
}
