/* C05 harness: JSGF text -> real scanner/parser -> rule table dump -> real expansion -> FSG dumps.
 *
 * stdin, one case per line:   case <id> <hex of JSGF text> <top>[,<top>...]|-
 *   <top> = hex of a full rule name as stored in jsgf->rules (e.g. "<g.a>")
 * stdout (flushed line by line):
 *   case <id>
 *   parse ok <hex grammar name> | parse fail
 *   rules <tag> <n>                        tag = parsed | built   (built: weights after in-place normalisation)
 *   rule <hex name> <public> <alt>|<alt>|...      alt = atom,atom,...  atom = <hex name>:<weight %.9g>:<ntags>
 *   top <hex name> missing
 *   fsg <hex top> raw|closed null
 *   fsg <hex top> raw|closed <nstate> <start> <final> <narcs> <from>:<to>:<logp>:<hex word|-> ...
 *   why <hex top> raw|closed <U> <R> <W>   after a refused build: which E_ERROR messages jsgf.c printed during it
 *                                          (U "Undefined rule in RHS", R "Only right-recursion is permitted", W "Weight ...")
 *   stack <hex top> <depth of jsgf->rulestack after the build>
 *   read null | read <hex fsg name> <nstate> <start> <final> <narcs> arcs...     (jsgf_read_string, whole pipeline)
 *   end <id>
 * The FSG is dumped through the real arc iterator (fsg_model_arcs / fsg_arciter_*), words through
 * fsg_model_word_str.
 */
#include "common.h"
#include <soundswallower/err.h>
#include <soundswallower/fsg_model.h>
#include <soundswallower/glist.h>
#include <soundswallower/hash_table.h>
#include <soundswallower/jsgf.h>
#include <soundswallower/logmath.h>

static void hexs(const char *s)
{
    if (s == NULL || !*s) { fputc('-', stdout); return; }
    vf_print_hex(stdout, (const unsigned char *)s, strlen(s));
}

static int cmpstr(const void *a, const void *b) { return strcmp(*(char *const *)a, *(char *const *)b); }

static void dump_rules(jsgf_t *jsgf, const char *tag)
{
    hash_iter_t *it;
    printf("rules %s %d\n", tag, hash_table_inuse(jsgf->rules));
    for (it = hash_table_iter(jsgf->rules); it; it = hash_table_iter_next(it)) {
        jsgf_rule_t *r = (jsgf_rule_t *)hash_entry_val(it->ent);
        jsgf_rhs_t *rhs;
        printf("rule ");
        hexs(r->name);
        printf(" %d ", r->is_public ? 1 : 0);
        if (r->rhs == NULL) printf("-");
        for (rhs = r->rhs; rhs; rhs = rhs->alt) {
            gnode_t *gn;
            if (rhs != r->rhs) printf("|");
            if (rhs->atoms == NULL) printf("-");
            for (gn = rhs->atoms; gn; gn = gnode_next(gn)) {
                jsgf_atom_t *a = (jsgf_atom_t *)gnode_ptr(gn);
                if (gn != rhs->atoms) printf(",");
                hexs(a->name);
                printf(":%.9g:%d", (double)a->weight, (int)glist_count(a->tags));
            }
        }
        printf("\n");
    }
    fflush(stdout);
}

static void dump_fsg_body(fsg_model_t *fsg)
{
    int i, n = 0;
    for (i = 0; i < fsg_model_n_state(fsg); i++) {
        fsg_arciter_t *ai;
        for (ai = fsg_model_arcs(fsg, i); ai; ai = fsg_arciter_next(ai)) n++;
    }
    printf("%d %d %d %d", fsg_model_n_state(fsg), fsg_model_start_state(fsg), fsg_model_final_state(fsg), n);
    for (i = 0; i < fsg_model_n_state(fsg); i++) {
        fsg_arciter_t *ai;
        for (ai = fsg_model_arcs(fsg, i); ai; ai = fsg_arciter_next(ai)) {
            fsg_link_t *l = fsg_arciter_get(ai);
            printf(" %d:%d:%d:", fsg_link_from_state(l), fsg_link_to_state(l), fsg_link_logs2prob(l));
            if (fsg_link_wid(l) < 0) printf("-");
            else hexs(fsg_model_word_str(fsg, fsg_link_wid(l)));
        }
    }
    printf("\n");
    fflush(stdout);
}

/* the refusal messages of jsgf.c seen since the last reset (the library's own err callback interface) */
static int why_undef, why_rec, why_weight;
static void err_cb(void *user_data, err_lvl_t lvl, const char *msg)
{
    (void)user_data;
    if (lvl < ERR_ERROR || msg == NULL) return;
    if (strstr(msg, "Undefined rule in RHS")) why_undef = 1;
    if (strstr(msg, "Only right-recursion is permitted")) why_rec = 1;
    if (strstr(msg, "Weight ")) why_weight = 1;
    if (getenv("H_C05_LOG") != NULL) fputs(msg, stderr);
}

static void build(jsgf_t *jsgf, jsgf_rule_t *rule, const char *tophex, logmath_t *lm, int closed)
{
    fsg_model_t *fsg;
    printf("fsg %s %s ", tophex, closed ? "closed" : "raw");
    fflush(stdout);
    why_undef = why_rec = why_weight = 0;
    fsg = closed ? jsgf_build_fsg(jsgf, rule, lm, 1.0f) : jsgf_build_fsg_raw(jsgf, rule, lm, 1.0f);
    if (fsg == NULL) {
        printf("null\n");
        printf("why %s %s %d %d %d\n", tophex, closed ? "closed" : "raw", why_undef, why_rec, why_weight);
        fflush(stdout);
    }
    else { dump_fsg_body(fsg); fsg_model_free(fsg); }
    printf("stack %s %d\n", tophex, (int)glist_count(jsgf->rulestack));
    fflush(stdout);
}

int main(void)
{
    size_t cap = 1 << 22;
    char *line = (char *)malloc(cap), *w[8];
    logmath_t *lm;
    err_set_loglevel(ERR_ERROR);
    err_set_callback(err_cb, NULL);
    lm = logmath_init(1.0001, 0, 0);
    while (fgets(line, (int)cap, stdin)) {
        int n = vf_words(line, w, 8);
        size_t len;
        char *text;
        jsgf_t *jsgf;
        fsg_model_t *fsg;
        if (n == 4 && !strcmp(w[0], "bigfile")) {
            /* bigfile <id> <path of a JSGF text> <hex top rule name>: a grammar too big for a hex line (close-c05c18,
             * big-grammar family).  Prints  bigfsg <id> raw|closed null | <nstate> <start> <final> <narcs> arcs...  */
            FILE *fh = fopen(w[2], "rb");
            long sz; char *txt; void *val; char *name; size_t l2; int closed;
            if (!fh) { printf("bigfsg %s nofile\n", w[1]); fflush(stdout); continue; }
            fseek(fh, 0, SEEK_END); sz = ftell(fh); fseek(fh, 0, SEEK_SET);
            txt = (char *)malloc((size_t)sz + 1);
            if (fread(txt, 1, (size_t)sz, fh) != (size_t)sz) { printf("bigfsg %s nofile\n", w[1]); fflush(stdout); fclose(fh); free(txt); continue; }
            txt[sz] = 0; fclose(fh);
            jsgf = jsgf_parse_string(txt, NULL);
            name = (char *)vf_parse_hex(w[3], &l2);
            if (jsgf == NULL || hash_table_lookup(jsgf->rules, name, &val) < 0) {
                printf("bigfsg %s %s\n", w[1], jsgf ? "notop" : "parsefail"); fflush(stdout);
            } else {
                for (closed = 0; closed < 2; closed++) {
                    fsg_model_t *f2 = closed ? jsgf_build_fsg(jsgf, (jsgf_rule_t *)val, lm, 1.0f)
                                             : jsgf_build_fsg_raw(jsgf, (jsgf_rule_t *)val, lm, 1.0f);
                    printf("bigfsg %s %s ", w[1], closed ? "closed" : "raw");
                    if (f2 == NULL) printf("null\n");
                    else { dump_fsg_body(f2); fsg_model_free(f2); }
                    fflush(stdout);
                }
            }
            if (jsgf) jsgf_grammar_free(jsgf);
            free(name); free(txt);
            printf("end %s\n", w[1]); fflush(stdout);
            continue;
        }
        if (n != 4 || strcmp(w[0], "case")) continue;
        printf("case %s\n", w[1]);
        fflush(stdout);
        text = (char *)vf_parse_hex(w[2], &len);
        jsgf = jsgf_parse_string(text, NULL);
        if (jsgf == NULL) {
            printf("parse fail\n");
        } else {
            char *tops = w[3];
            printf("parse ok ");
            hexs(jsgf->name);
            printf("\n");
            dump_rules(jsgf, "parsed");
            if (!strcmp(tops, "*")) {
                /* every user rule (not <grammar.gNNNNN>) of the table, sorted by name, at most 6 */
                char *names[4096];
                int nn = 0, i;
                hash_iter_t *it;
                for (it = hash_table_iter(jsgf->rules); it; it = hash_table_iter_next(it)) {
                    jsgf_rule_t *r = (jsgf_rule_t *)hash_entry_val(it->ent);
                    size_t l = strlen(r->name);
                    int internal = l >= 9 && r->name[l - 1] == '>' && r->name[l - 7] == 'g' && r->name[l - 8] == '.';
                    for (i = 2; internal && i <= 6; i++)
                        if (r->name[l - i] < '0' || r->name[l - i] > '9') internal = 0;
                    if (!internal && nn < 4096) names[nn++] = strdup(r->name);
                }
                qsort(names, nn, sizeof(char *), cmpstr);
                for (i = 0; i < nn; i++) {
                    void *val;
                    if (i < 6 && hash_table_lookup(jsgf->rules, names[i], &val) == 0) {
                        char *hx = (char *)malloc(strlen(names[i]) * 2 + 2);
                        size_t k;
                        for (k = 0; names[i][k]; k++) sprintf(hx + 2 * k, "%02x", (unsigned char)names[i][k]);
                        build(jsgf, (jsgf_rule_t *)val, hx, lm, 0);
                        build(jsgf, (jsgf_rule_t *)val, hx, lm, 1);
                        free(hx);
                    }
                    free(names[i]);
                }
                tops = NULL;
            }
            while (tops && *tops && strcmp(tops, "-")) {
                char *comma = strchr(tops, ',');
                char *name;
                void *val;
                size_t l2;
                if (comma) *comma = 0;
                name = (char *)vf_parse_hex(tops, &l2);
                if (hash_table_lookup(jsgf->rules, name, &val) < 0) {
                    printf("top %s missing\n", tops);
                } else {
                    build(jsgf, (jsgf_rule_t *)val, tops, lm, 0);
                    build(jsgf, (jsgf_rule_t *)val, tops, lm, 1);
                }
                free(name);
                tops = comma ? comma + 1 : NULL;
            }
            dump_rules(jsgf, "built");
            /* the harness owns the (possibly stale) rule stack nodes only through the grammar */
            jsgf_grammar_free(jsgf);
        }
        printf("read ");
        fflush(stdout);
        fsg = jsgf_read_string(text, lm, 1.0f);
        if (fsg == NULL) printf("null\n");
        else {
            hexs(fsg_model_name(fsg));
            printf(" ");
            dump_fsg_body(fsg);
            fsg_model_free(fsg);
        }
        printf("end %s\n", w[1]);
        fflush(stdout);
        free(text);
    }
    logmath_free(lm);
    free(line);
    return 0;
}
