/* C01 (growth stage, model M10) harness: steps the FSG search of the real decoder frame by frame and dumps,
 * for the correspondence with lean/SSVerif/Model/Search.lean,
 *   - the search FSG (arcs in fsg_model_arcs order = link ids, as in h_c01.c),
 *   - the lextree once per utterance: every pnode of every alloc_head[s] list (id = position in that
 *     enumeration, owner = s), leaf / fsglink / succ / sibling / ci_ext, and root[s],
 *   - the search state before fsg_search_start, after it, after every fsg_search_step and after
 *     fsg_search_finish: fsgs->frame, pnode_active (ids, list order), pnode_active_next (must be NULL),
 *     the HMM (frame, scores, history indices, exit score/history) of every pnode that is NOT in the
 *     cleared state (all pnodes are scanned; an unlisted pnode is cleared), the history entries added
 *     since the previous dump, and whether a per-(state, lc) frame list of the history module is non-empty,
 *   - per step, for every pnode that was on the active list when the step began: the emission scores
 *     hmm_senscr(hmm, k) of the frame and the transition-matrix id (for the exact model of hmm_vit_eval),
 *   - the whole history table at the end (must equal the accumulated per-frame entries).
 * The frame loop is that of search_module_forward (decoder.c): search_module_step + acmod_advance.
 *
 *   newdec k=v ...      free the decoder, make a new one (hmm=<argv[1]> unless given)
 *   jsgf <hex>          decoder_set_jsgf_string
 *   fsgfile <path>      fsg_model_readfile + decoder_set_fsg
 *   audio <path>        raw int16 mono samples
 *   utt <tag> <nsamp>   one utterance over the first nsamp samples, dumped as described
 */
#include "common.h"
#include <soundswallower/decoder.h>
#include <soundswallower/configuration.h>
#include <soundswallower/err.h>
#include <soundswallower/acmod.h>
#include <soundswallower/fsg_history.h>
#include <soundswallower/fsg_lextree.h>
#include <soundswallower/fsg_model.h>
#include <soundswallower/fsg_search.h>
#include <soundswallower/search_module.h>
#include <soundswallower/hmm.h>
#include <soundswallower/tmat.h>
#include <soundswallower/glist.h>
#include <soundswallower/dict.h>
#include <soundswallower/dict2pid.h>
#include <soundswallower/bin_mdef.h>

static decoder_t *dec;
static const char *hmmdir;
static int16 *audio;
static size_t n_audio;

/* pnode table: pointer -> id */
typedef struct { fsg_pnode_t *p; int id; } pent_t;
static fsg_pnode_t **pn_by_id;
static pent_t *pn_sorted;
static int n_pn;
static fsg_link_t **links;
static int n_links;

static int cmp_pent(const void *a, const void *b)
{
    const pent_t *x = (const pent_t *)a, *y = (const pent_t *)b;
    return x->p < y->p ? -1 : x->p > y->p ? 1 : 0;
}

static int pn_id(fsg_pnode_t *p)
{
    int lo = 0, hi = n_pn - 1;
    if (p == NULL) return -1;
    while (lo <= hi) {
        int mid = (lo + hi) / 2;
        if (pn_sorted[mid].p == p) return pn_sorted[mid].id;
        if (pn_sorted[mid].p < p) lo = mid + 1; else hi = mid - 1;
    }
    return -2;      /* a pointer that is not a pnode of this lextree */
}

static int link_id(fsg_link_t *l)
{
    int k;
    if (l == NULL) return -1;
    for (k = 0; k < n_links; k++) if (links[k] == l) return k;
    return -2;
}

static void cmd_newdec(char **w, int n)
{
    config_t *cfg;
    int i, have_hmm = 0;
    if (dec) { decoder_free(dec); dec = NULL; }
    cfg = config_init(NULL);
    for (i = 1; i < n; i++) {
        char *eq = strchr(w[i], '=');
        if (!eq) continue;
        *eq = 0;
        if (!strcmp(w[i], "hmm")) have_hmm = 1;
        if (config_set_str(cfg, w[i], eq + 1) == NULL) { printf("newdec badconfig %s\n", w[i]); }
    }
    if (!have_hmm) config_set_str(cfg, "hmm", hmmdir);
    dec = decoder_init(cfg);
    printf("newdec %s\n", dec ? "ok" : "fail");
}

static void cmd_audio(const char *path)
{
    FILE *f = fopen(path, "rb");
    long sz;
    free(audio); audio = NULL; n_audio = 0;
    if (!f) { printf("audio fail\n"); return; }
    fseek(f, 0, SEEK_END); sz = ftell(f); fseek(f, 0, SEEK_SET);
    audio = (int16 *)malloc(sz + 2);
    n_audio = fread(audio, 2, sz / 2, f);
    fclose(f);
    printf("audio %zu\n", n_audio);
}

static void collect(fsg_search_t *fs)
{
    fsg_lextree_t *lt = fs->lextree;
    fsg_model_t *fsg = fs->fsg;
    int s, cap = 64, i;
    fsg_pnode_t *pn;
    free(pn_by_id); free(pn_sorted); free(links);
    n_pn = 0;
    for (s = 0; s < fsg_model_n_state(fsg); s++)
        for (pn = lt->alloc_head[s]; pn; pn = pn->alloc_next) n_pn++;
    pn_by_id = (fsg_pnode_t **)malloc(sizeof(*pn_by_id) * (n_pn + 1));
    pn_sorted = (pent_t *)malloc(sizeof(*pn_sorted) * (n_pn + 1));
    /* ids in ALLOCATION order, state by state: alloc_head[s] is threaded newest first */
    i = 0;
    for (s = 0; s < fsg_model_n_state(fsg); s++) {
        int k = 0, j = 0;
        for (pn = lt->alloc_head[s]; pn; pn = pn->alloc_next) k++;
        for (pn = lt->alloc_head[s]; pn; pn = pn->alloc_next, j++) pn_by_id[i + k - 1 - j] = pn;
        i += k;
    }
    for (i = 0; i < n_pn; i++) { pn_sorted[i].p = pn_by_id[i]; pn_sorted[i].id = i; }
    qsort(pn_sorted, n_pn, sizeof(*pn_sorted), cmp_pent);
    links = (fsg_link_t **)malloc(sizeof(*links) * cap);
    n_links = 0;
    for (s = 0; s < fsg_model_n_state(fsg); s++) {
        fsg_arciter_t *it;
        for (it = fsg_model_arcs(fsg, s); it; it = fsg_arciter_next(it)) {
            if (n_links == cap) { cap *= 2; links = (fsg_link_t **)realloc(links, sizeof(*links) * cap); }
            links[n_links++] = fsg_arciter_get(it);
        }
    }
}

/* the DIRECT model-definition lookup of a triphone's senone sequence, as harness/h_c02.c takes it for the flat network of C02:
 * bin_mdef_phone_id_nearest + bin_mdef_pid2ssid, NOT the dict2pid tables */
static int direct_ssid(bin_mdef_t *m, int ci, int lc, int rc, int wpos)
{
    int pid = bin_mdef_phone_id_nearest(m, ci, lc, rc, (word_posn_t)wpos);
    return (int)bin_mdef_pid2ssid(m, pid);
}

/* what psubtree_add_trans / fsg_lextree_lc_rc read: the words of the FSG (pronunciation, filler flags), and the
 * senone-sequence lookups through the very macros/functions the lextree code uses */
static void dump_build_inputs(fsg_search_t *fs)
{
    fsg_lextree_t *lt = fs->lextree;
    fsg_model_t *fsg = fs->fsg;
    dict_t *dict = lt->dict;
    dict2pid_t *d2p = lt->d2p;
    bin_mdef_t *m = lt->mdef;
    int nci = bin_mdef_n_ciphone(m), sil = bin_mdef_silphone(m), w, k, c;
    unsigned char *seen_lr = (unsigned char *)calloc(nci, 1);
    unsigned char *seen_ld = (unsigned char *)calloc((size_t)nci * nci, 1);
    unsigned char *seen_rs = (unsigned char *)calloc((size_t)nci * nci, 1);
    printf("LI %d %d %d %d %d %d\n", nci, sil, lt->wip, lt->pip, fsg_model_n_state(fsg), fsg_model_n_word(fsg));
    for (c = 0; c < nci; c++) printf("LC %d %d %d\n", c, (int)bin_mdef_pid2ssid(m, c), (int)bin_mdef_pid2tmatid(m, c));
    for (w = 0; w < fsg_model_n_word(fsg); w++) {
        int dw = dict_wordid(dict, fsg_model_word_str(fsg, w)), n;
        if (dw < 0) { printf("LW %d -1 %d 0 0\n", w, fsg_model_is_filler(fsg, w) ? 1 : 0); continue; }
        n = dict_pronlen(dict, dw);
        printf("LW %d %d %d %d %d", w, dw, fsg_model_is_filler(fsg, w) ? 1 : 0, dict_filler_word(dict, dw) ? 1 : 0, n);
        for (k = 0; k < n; k++) printf(" %d", (int)dict_pron(dict, dw, k));
        printf("\n");
        if (n == 1) {
            int ci = dict_first_phone(dict, dw);
            if (!seen_lr[ci]) {
                seen_lr[ci] = 1;
                printf("LR %d", ci);
                for (c = 0; c < nci; c++) printf(" %d", (int)dict2pid_lrdiph_rc(d2p, ci, c, sil));
                printf("\n");
                printf("DR %d", ci);
                for (c = 0; c < nci; c++) printf(" %d", direct_ssid(m, ci, c, sil, WORD_POSN_SINGLE));
                printf("\n");
            }
        } else if (n > 1) {
            int ci = dict_pron(dict, dw, 0), rc = dict_pron(dict, dw, 1);
            int fci = dict_pron(dict, dw, n - 1), flc = dict_pron(dict, dw, n - 2);
            if (!seen_ld[ci * nci + rc]) {
                seen_ld[ci * nci + rc] = 1;
                printf("LD %d %d", ci, rc);
                for (c = 0; c < nci; c++) printf(" %d", (int)dict2pid_ldiph_lc(d2p, ci, rc, c));
                printf("\n");
                printf("DD %d %d", ci, rc);
                for (c = 0; c < nci; c++) printf(" %d", direct_ssid(m, ci, c, rc, WORD_POSN_BEGIN));
                printf("\n");
            }
            for (k = 1; k < n - 1; k++) printf("LN %d %d %d\n", dw, k, (int)dict2pid_internal(d2p, dw, k));
            for (k = 1; k < n - 1; k++)
                printf("DN %d %d %d %d\n", (int)dict_pron(dict, dw, k), (int)dict_pron(dict, dw, k - 1), (int)dict_pron(dict, dw, k + 1),
                       direct_ssid(m, dict_pron(dict, dw, k), dict_pron(dict, dw, k - 1), dict_pron(dict, dw, k + 1), WORD_POSN_INTERNAL));
            if (!seen_rs[fci * nci + flc]) {
                xwdssid_t *rs = dict2pid_rssid(d2p, fci, flc);
                seen_rs[fci * nci + flc] = 1;
                printf("LS %d %d %d", fci, flc, rs->cimap ? rs->n_ssid : -1);
                if (rs->cimap) {
                    for (c = 0; c < nci; c++) printf(" %d", (int)rs->cimap[c]);
                    for (c = 0; c < rs->n_ssid; c++) printf(" %d", (int)rs->ssid[c]);
                }
                printf("\n");
                printf("DS %d %d", fci, flc);
                for (c = 0; c < nci; c++) printf(" %d", direct_ssid(m, fci, flc, c, WORD_POSN_END));
                printf("\n");
            }
        }
    }
    free(seen_lr); free(seen_ld); free(seen_rs);
}

static void dump_static(fsg_search_t *fs)
{
    fsg_lextree_t *lt = fs->lextree;
    fsg_model_t *fsg = fs->fsg;
    tmat_t *tm = dec->acmod->tmat;
    int s, i, k, nst = fs->hmmctx->n_emit_state;
    unsigned char *seen = (unsigned char *)calloc(tm->n_tmat + 1, 1);
    printf("K %d %d %d %d\n", nst, (int)WORST_SCORE, (int)SENSCR_SHIFT, (int)TMAT_WORST_SCORE);
    printf("SF %d %d %d\n", fsg_model_start_state(fsg), fsg_model_final_state(fsg), fsg_model_n_state(fsg));
    for (k = 0; k < n_links; k++)
        printf("SA %d %d %d %d %d\n", k, fsg_link_from_state(links[k]), fsg_link_to_state(links[k]),
               fsg_link_logs2prob(links[k]), fsg_link_wid(links[k]));
    printf("LT %d %d %d\n", n_pn, fsg_model_n_state(fsg), lt->n_pnode);
    i = 0;
    for (s = 0; s < fsg_model_n_state(fsg); s++) {
        fsg_pnode_t *pn;
        int k = 0, q;
        for (pn = lt->alloc_head[s]; pn; pn = pn->alloc_next) k++;
        for (q = 0; q < k; q++, i++) {
            int j;
            pn = pn_by_id[i];
            /* the context set with the most significant word first, so that the whole is one hex number */
            printf("P %d %d %d %d %d %d %d %d %d ", i, s, pn->leaf ? 1 : 0, pn->leaf ? link_id(pn->next.fsglink) : -1,
                   pn->leaf ? -1 : pn_id(pn->next.succ), pn_id(pn->sibling), (int)pn->ci_ext, (int)pn->ppos,
                   (int)pn->hmm.tmatid);
            for (j = FSG_PNODE_CTXT_BVSZ - 1; j >= 0; j--) printf("%08x", pn->ctxt.bv[j]);
            printf(" %d %d %d %d\n", (int)pn->hmm.mpx, (int)pn->hmm.n_emit_state, (int)hmm_nonmpx_ssid(&pn->hmm), pn->logs2prob);
            if (pn->hmm.tmatid >= 0 && pn->hmm.tmatid < tm->n_tmat) seen[pn->hmm.tmatid] = 1;
        }
        if (lt->root[s]) printf("R %d %d\n", s, pn_id(lt->root[s]));
    }
    dump_build_inputs(fs);
    for (i = 0; i < tm->n_tmat; i++) {
        int a, b;
        if (!seen[i]) continue;
        printf("T %d", i);
        for (a = 0; a < tm->n_state; a++) for (b = 0; b <= tm->n_state; b++) printf(" %d", (int)tm->tp[i][a][b]);
        printf("\n");
    }
    free(seen);
}

static int hmm_is_cleared(hmm_t *h)
{
    int i;
    if (h->frame != -1 || h->out_score != WORST_SCORE || h->out_history != -1) return 0;
    for (i = 0; i < hmm_n_emit_state(h); i++)
        if (h->score[i] != WORST_SCORE || h->history[i] != -1) return 0;
    return 1;
}

static int n_dumped_entries;

/* `entries`: dump the table entries added since the previous dump */
static void dump_state(fsg_search_t *fs, const char *what, int entries)
{
    gnode_t *gn;
    int i, n, pending = 0;
    fsg_history_t *h = fs->history;
    if (h->frame_entries && h->fsg) {
        int s, lc;
        for (s = 0; s < fsg_model_n_state(h->fsg); s++)
            for (lc = 0; lc < h->n_ciphone; lc++)
                if (h->frame_entries[s][lc]) pending++;
    }
    printf("S %s %d %d %d %d\n", what, fs->frame, fsg_history_n_entries(fs->history),
           fs->pnode_active_next ? 1 : 0, pending);
    /* the scores the pruning of the last frame used (fsg_search_hmm_prune_prop): best score of the frame and the
     * effective beams; judged by the driver after a step only (score guard of a word exit, Props/C01Later.lean) */
    printf("B %d %d %d %d\n", (int)fs->bestscore, (int)fs->beam, (int)fs->pbeam, (int)fs->wbeam);
    printf("A");
    for (gn = fs->pnode_active; gn; gn = gnode_next(gn)) printf(" %d", pn_id((fsg_pnode_t *)gnode_ptr(gn)));
    printf("\n");
    for (i = 0; i < n_pn; i++) {
        hmm_t *hm = &pn_by_id[i]->hmm;
        int k;
        if (hmm_is_cleared(hm)) continue;
        printf("M %d %d %d", i, hm->frame, hmm_n_emit_state(hm));
        for (k = 0; k < hmm_n_emit_state(hm); k++) printf(" %d", hm->score[k]);
        printf(" %d", hm->out_score);
        for (k = 0; k < hmm_n_emit_state(hm); k++) printf(" %d", hm->history[k]);
        printf(" %d\n", hm->out_history);
    }
    if (entries) {
        n = fsg_history_n_entries(fs->history);
        if (n < n_dumped_entries) n_dumped_entries = 0;
        for (i = n_dumped_entries; i < n; i++) {
            fsg_hist_entry_t *e = fsg_history_entry_get(fs->history, i);
            int j;
            if (e == NULL) { printf("E %d missing\n", i); continue; }
            printf("E %d %d %d %d %d %d ", i, link_id(e->fsglink), e->frame, e->score, e->pred, e->lc);
            for (j = 0; j < FSG_PNODE_CTXT_BVSZ; j++) printf("%08x", e->rc.bv[j]);
            printf("\n");
        }
        n_dumped_entries = n;
    }
    printf("S end\n");
}

static void cmd_utt(const char *tag, long nsamp)
{
    fsg_search_t *fs = (fsg_search_t *)dec->search;
    acmod_t *acmod = dec->acmod;
    int T = 0, i, n, rv;
    int *before = NULL, nbefore;
    int16 *ib;
    if (!fs) { printf("utt nosearch\n"); return; }
    if ((size_t)nsamp > n_audio) nsamp = (long)n_audio;
    collect(fs);
    printf("U begin %s\n", tag);
    dump_static(fs);
    dump_state(fs, "pre", 0);
    rv = decoder_start_utt(dec);
    if (rv < 0) { printf("U fail start %d\nU end %s\n", rv, tag); return; }
    n_dumped_entries = 0;
    dump_state(fs, "start", 1);
    /* private copy so that an overrun is seen by ASan */
    ib = (int16 *)malloc(sizeof(int16) * (nsamp + 1));
    memcpy(ib, audio, sizeof(int16) * nsamp);
    rv = decoder_process_int16(dec, ib, (size_t)nsamp, /*no_search*/ 1, /*full_utt*/ 0);
    free(ib);
    acmod_end_utt(acmod);
    before = (int *)malloc(sizeof(int) * (n_pn + 1));
    /* the loop of search_module_forward (decoder.c) */
    while (acmod->n_feat_frame > 0) {
        gnode_t *gn;
        int k;
        nbefore = 0;
        for (gn = fs->pnode_active; gn && nbefore < n_pn; gn = gnode_next(gn))
            before[nbefore++] = pn_id((fsg_pnode_t *)gnode_ptr(gn));
        if ((k = search_module_step(dec->search, acmod->output_frame)) < 0) { printf("U fail step %d\n", k); break; }
        /* emission scores the evaluation of this frame used (the senone score array of the frame is
         * still in place) */
        for (i = 0; i < nbefore; i++) {
            hmm_t *hm;
            int j;
            if (before[i] < 0) continue;
            hm = &pn_by_id[before[i]]->hmm;
            printf("V %d %d", before[i], (int)hm->tmatid);
            for (j = 0; j < hmm_n_emit_state(hm); j++) printf(" %d", (int)hmm_senscr(hm, j));
            printf("\n");
        }
        acmod_advance(acmod);
        ++dec->n_frame;
        T++;
        dump_state(fs, "step", 1);
    }
    free(before);
    search_module_finish(dec->search);
    dump_state(fs, "finish", 1);
    n = fsg_history_n_entries(fs->history);
    for (i = 0; i < n; i++) {
        fsg_hist_entry_t *e = fsg_history_entry_get(fs->history, i);
        int j;
        if (e == NULL) { printf("X %d missing\n", i); continue; }
        printf("X %d %d %d %d %d %d ", i, link_id(e->fsglink), e->frame, e->score, e->pred, e->lc);
        for (j = 0; j < FSG_PNODE_CTXT_BVSZ; j++) printf("%08x", e->rc.bv[j]);
        printf("\n");
    }
    printf("U end %s %d %d\n", tag, T, n);
}

int main(int argc, char **argv)
{
    static char line[1 << 20];
    char *w[64];
    hmmdir = argc > 1 ? argv[1] : "/repo/model/en-us";
    err_set_loglevel(ERR_FATAL);
    setvbuf(stdout, NULL, _IOFBF, 1 << 16);
    while (fgets(line, sizeof(line), stdin)) {
        int n = vf_words(line, w, 64);
        if (n == 0) continue;
        printf("> %s\n", w[0]);
        fflush(stdout);
        if (!strcmp(w[0], "newdec")) cmd_newdec(w, n);
        else if (!dec) printf("nodec\n");
        else if (!strcmp(w[0], "jsgf") && n == 2) {
            size_t len;
            char *s = (char *)vf_parse_hex(w[1], &len);
            printf("jsgf %d\n", decoder_set_jsgf_string(dec, s));
            free(s);
        }
        else if (!strcmp(w[0], "fsgfile") && n == 2) {
            fsg_model_t *fsg = fsg_model_readfile(w[1], dec->lmath, (float32)config_float(dec->config, "lw"));
            if (fsg == NULL) printf("fsgfile -2\n");
            else printf("fsgfile %d\n", decoder_set_fsg(dec, fsg));
        }
        else if (!strcmp(w[0], "audio") && n == 2) cmd_audio(w[1]);
        else if (!strcmp(w[0], "utt") && n == 3) cmd_utt(w[1], atol(w[2]));
        else printf("bad-op\n");
        fflush(stdout);
    }
    if (dec) decoder_free(dec);
    free(audio); free(pn_by_id); free(pn_sorted); free(links);
    return 0;
}
