/* C12, pruned lattices: lattice_posterior_prune() (public API, lattice.h) against the model `pruneLat`
 * (lean/SSVerif/Model/LatticePrune.lean), and lattice_bestpath() after it.
 * One line per request on stdin:   <grammar as hex> <audio file> <beam>[,<beam>...] [config key=value ...]
 * For each request one decoder; for each beam: decode the whole file (fresh lattice), lattice_bestpath,
 * lattice_posterior, dump the lattice, lattice_posterior_prune(beam), dump, lattice_bestpath again and an independent
 * maximum over the remaining start->end paths (memoised DFS over the exit lists), lattice_posterior_prune(beam) a second
 * time with the alpha/beta/norm fields of the first pass restored, dump.  Output per beam:
 *
 *   PB <beam> <n_frames> <start> <end> <n_nodes> <n_links> <lattice_posterior return>     lattice BEFORE pruning
 *   Pp <min of alpha+beta-norm over the best path> <its number of links> <its path_scr>
 *   Pn <word> <sf> <fef> <lef> <node_id>            nodes in dag->nodes order (word = index in a table of strings)
 *   Pl <src> <dst> <ef> <ascr> <alpha+beta-norm>    links: exit lists in node order; src/dst = node positions
 *   Pg <fsg start state>    Pa <from> <word|-1> <to>      the search FSG (format of the c11 driver)
 *   P1 ret=<r> nodes=<n> links=<m> start=<id> end=<id> idmis=<k> listmis=<k>      after the first prune
 *   Q1n <old position> <id field>                   surviving nodes in list order
 *   Q1l <old src> <old dst> <src id> <dst id> <ef> <ascr>      exit lists in new node order
 *   Pbest <score|none> <want|none>
 *   P2 ... / Q2n / Q2l                              after the second prune (same format)
 *   PE
 *   prune beam=<b> links_before=<n> pruned=<n> nodes=<n> orphans=<n> best=<score|none> want=<score|none> post=<p>
 * idmis = nodes whose id field is not their list position; listmis = exit-list elements whose link is not (exactly once)
 * in the entry list of its target or has a wrong `from`, plus the same for entry lists, plus links to nodes outside the
 * node list.  orphans = nodes other than the start node without entries after pruning.
 * Pointers of freed nodes are only compared, never dereferenced. */
#include <stdio.h>
#include <stdlib.h>
#include <string.h>
#include <soundswallower/decoder.h>
#include <soundswallower/lattice.h>
#include <soundswallower/fsg_search.h>
#include <soundswallower/fsg_model.h>
#include <soundswallower/err.h>
#include "common.h"

#define NONE (-2000000000)

static int32
best_from(lattice_t *dag, latnode_t *n, int32 *memo, char *known)
{
    latlink_list_t *x;
    int32 best = NONE;
    if (n == dag->end) return 0;
    if (known[n->id]) return memo[n->id];
    for (x = n->exits; x; x = x->next) {
        int32 r = best_from(dag, x->link->to, memo, known);
        if (r != NONE && r + x->link->ascr > best) best = r + x->link->ascr;
    }
    known[n->id] = 1;
    memo[n->id] = best;
    return best;
}

/* table of word strings (lattice node words and FSG words are compared as strings, as the c11 check does) */
static char *wtab[4096];
static int n_wtab;
static int intern(const char *s)
{
    int i;
    if (s == NULL) s = "(null)";
    for (i = 0; i < n_wtab; i++) if (strcmp(wtab[i], s) == 0) return i;
    if (n_wtab == 4096) return 4095;
    wtab[n_wtab] = strdup(s);
    return n_wtab++;
}

static latnode_t **old_nodes;
static int n_old;
static int old_pos(latnode_t *p)
{
    int i;
    for (i = 0; i < n_old; i++) if (old_nodes[i] == p) return i;
    return -2;
}

static int cur_id(lattice_t *dag, latnode_t *p)
{
    latnode_t *t;
    for (t = dag->nodes; t; t = t->next) if (t == p) return t->id;
    return -1;
}

static int count_in(latlink_list_t *lst, latlink_t *l)
{
    int k = 0;
    for (; lst; lst = lst->next) if (lst->link == l) k++;
    return k;
}

static void dump_after(lattice_t *dag, const char *tag, int32 ret)
{
    latnode_t *nd;
    latlink_list_t *x;
    int nn = 0, nl = 0, idmis = 0, listmis = 0;
    for (nd = dag->nodes; nd; nd = nd->next) {
        if (nd->id != nn) ++idmis;
        ++nn;
    }
    for (nd = dag->nodes; nd; nd = nd->next) {
        for (x = nd->exits; x; x = x->next) {
            latlink_t *l = x->link;
            latnode_t *t;
            int in_list = 0;
            ++nl;
            if (l->from != nd || l->to == NULL) { ++listmis; continue; }
            for (t = dag->nodes; t; t = t->next) if (t == l->to) in_list = 1;
            if (!in_list) { ++listmis; continue; }
            if (count_in(l->to->entries, l) != 1 || count_in(nd->exits, l) != 1) ++listmis;
        }
        for (x = nd->entries; x; x = x->next) {
            latlink_t *l = x->link;
            latnode_t *t;
            int in_list = 0;
            if (l->to != nd || l->from == NULL) { ++listmis; continue; }
            for (t = dag->nodes; t; t = t->next) if (t == l->from) in_list = 1;
            if (!in_list) { ++listmis; continue; }
            if (count_in(l->from->exits, l) != 1 || count_in(nd->entries, l) != 1) ++listmis;
        }
    }
    printf("P%s ret=%d nodes=%d links=%d start=%d end=%d idmis=%d listmis=%d\n", tag, ret, nn, nl,
           dag->start ? dag->start->id : -1, dag->end ? dag->end->id : -1, idmis, listmis);
    for (nd = dag->nodes; nd; nd = nd->next)
        printf("Q%sn %d %d\n", tag, old_pos(nd), nd->id);
    for (nd = dag->nodes; nd; nd = nd->next)
        for (x = nd->exits; x; x = x->next) {
            latlink_t *l = x->link;
            printf("Q%sl %d %d %d %d %d %d\n", tag, old_pos(l->from), old_pos(l->to),
                   cur_id(dag, l->from), cur_id(dag, l->to), (int)l->ef, l->ascr);
        }
    fflush(stdout);
}

static void one_beam(decoder_t *d, int16 *buf, size_t ns, int32 beam)
{
    lattice_t *dag;
    latlink_t *b0, *b1;
    latnode_t *nd;
    latlink_list_t *x;
    int32 post, np, np2, want, *memo, norm0;
    int nn = 0, orphans = 0, nlinks = 0, i, k;
    char *known;
    latlink_t **lk;
    int32 *sa, *sb;
    fsg_search_t *fs;

    decoder_start_utt(d);
    decoder_process_int16(d, buf, ns, FALSE, TRUE);
    decoder_end_utt(d);
    dag = decoder_lattice(d);
    if (!dag) { printf("prune nolattice\n"); return; }
    n_old = 0;
    for (nd = dag->nodes; nd; nd = nd->next) {
        ++n_old;
        for (x = nd->exits; x; x = x->next) ++nlinks;
    }
    old_nodes = malloc(sizeof(*old_nodes) * (n_old + 1));
    for (i = 0, nd = dag->nodes; nd; nd = nd->next) old_nodes[i++] = nd;
    b0 = lattice_bestpath(dag, 0.05f);
    post = b0 ? lattice_posterior(dag, 0.05f) : 0;
    if (b0) {
        printf("PB %d %d %d %d %d %d %d\n", beam, (int)dag->n_frames, old_pos(dag->start), old_pos(dag->end), n_old, nlinks, post);
        {
            /* the best path as lattice_bestpath left it (best_prev chain of the returned link): smallest value of
             * alpha + beta - norm on it, its length, its score */
            latlink_t *q;
            int32 mn = 2000000000, len = 0;
            for (q = b0; q && len <= nlinks; q = q->best_prev) {
                int32 v = q->alpha + q->beta - dag->norm;
                if (v < mn) mn = v;
                ++len;
            }
            printf("Pp %d %d %d\n", mn, len, b0->path_scr);
        }
        for (nd = dag->nodes; nd; nd = nd->next)
            printf("Pn %d %d %d %d %d\n", intern(ps_latnode_word(dag, nd)), (int)nd->sf, nd->fef, nd->lef, nd->node_id);
        for (nd = dag->nodes; nd; nd = nd->next)
            for (x = nd->exits; x; x = x->next)
                printf("Pl %d %d %d %d %d\n", old_pos(x->link->from), old_pos(x->link->to), (int)x->link->ef, x->link->ascr,
                       x->link->alpha + x->link->beta - dag->norm);
        fs = (fsg_search_t *)d->search;
        if (fs && fs->fsg) {
            fsg_model_t *fsg = fs->fsg;
            printf("Pg %d\n", fsg_model_start_state(fsg));
            for (i = 0; i < fsg_model_n_state(fsg); i++) {
                fsg_arciter_t *it;
                for (it = fsg_model_arcs(fsg, i); it; it = fsg_arciter_next(it)) {
                    fsg_link_t *l = fsg_arciter_get(it);
                    int w = fsg_link_wid(l);
                    printf("Pa %d %d %d\n", fsg_link_from_state(l), w >= 0 ? intern(fsg_model_word_str(fsg, w)) : -1, fsg_link_to_state(l));
                }
            }
        }
        fflush(stdout);
    }
    np = b0 ? lattice_posterior_prune(dag, beam) : 0;
    if (b0) dump_after(dag, "1", np);
    /* remember alpha/beta/norm of what is left: lattice_bestpath recomputes the alphas */
    k = 0;
    for (nd = dag->nodes; nd; nd = nd->next) {
        ++nn;
        if (nd != dag->start && nd->entries == NULL) ++orphans;
        for (x = nd->exits; x; x = x->next) ++k;
    }
    lk = malloc(sizeof(*lk) * (k + 1));
    sa = malloc(sizeof(*sa) * (k + 1));
    sb = malloc(sizeof(*sb) * (k + 1));
    k = 0;
    for (nd = dag->nodes; nd; nd = nd->next)
        for (x = nd->exits; x; x = x->next) { lk[k] = x->link; sa[k] = x->link->alpha; sb[k] = x->link->beta; ++k; }
    norm0 = dag->norm;
    memo = calloc(nn + 1, sizeof(*memo));
    known = calloc(nn + 1, 1);
    want = best_from(dag, dag->start, memo, known);
    b1 = lattice_bestpath(dag, 0.05f);
    if (b0) {
        printf("Pbest ");
        if (b1) printf("%d", b1->path_scr); else printf("none");
        if (want != NONE) printf(" %d\n", want); else printf(" none\n");
        fflush(stdout);
    }
    {
        int32 best_scr = b1 ? b1->path_scr : 0;
        int have_best = b1 != NULL;
        if (b0) {
            for (i = 0; i < k; i++) { lk[i]->alpha = sa[i]; lk[i]->beta = sb[i]; }
            dag->norm = norm0;
            np2 = lattice_posterior_prune(dag, beam);
            dump_after(dag, "2", np2);
            printf("PE\n");
        }
        printf("prune beam=%d links_before=%d pruned=%d nodes=%d orphans=%d best=", beam, nlinks, np, nn, orphans);
        if (have_best) printf("%d", best_scr); else printf("none");
    }
    if (want != NONE) printf(" want=%d", want); else printf(" want=none");
    printf(" post=%d\n", post);
    fflush(stdout);
    free(memo); free(known); free(lk); free(sa); free(sb); free(old_nodes);
    old_nodes = NULL; n_old = 0;
}

int main(int argc, char **argv)
{
    static char line[1 << 16];
    char *w[64];
    const char *hmmdir = argc > 1 ? argv[1] : "/repo/model/en-us";
    err_set_loglevel(ERR_FATAL);
    setvbuf(stdout, NULL, _IOLBF, 0);
    while (fgets(line, sizeof(line), stdin)) {
        int n = vf_words(line, w, 64), i;
        size_t len, ns;
        char *gram, *bp;
        config_t *cfg;
        decoder_t *d;
        FILE *fh;
        int16 *buf;
        if (n < 3) continue;
        gram = (char *)vf_parse_hex(w[0], &len);
        cfg = config_init(NULL);
        config_set_str(cfg, "hmm", hmmdir);
        config_set_str(cfg, "loglevel", "FATAL");
        config_set_str(cfg, "samprate", "16000");
        for (i = 3; i < n; ++i) {
            char *eq = strchr(w[i], '=');
            if (eq) { *eq = 0; config_set_str(cfg, w[i], eq + 1); }
        }
        d = decoder_init(cfg);
        if (!d || decoder_set_jsgf_string(d, gram) < 0) { printf("setup-failed\n"); free(gram); continue; }
        fh = fopen(w[1], "rb");
        if (!fh) { printf("setup-failed\n"); free(gram); decoder_free(d); continue; }
        fseek(fh, 0, SEEK_END); ns = ftell(fh) / 2; fseek(fh, 0, SEEK_SET);
        buf = malloc(ns * 2 + 2);
        ns = fread(buf, 2, ns, fh);
        fclose(fh);
        for (bp = strtok(w[2], ","); bp; bp = strtok(NULL, ","))
            one_beam(d, buf, ns, atoi(bp));
        free(buf); free(gram);
        decoder_free(d);
    }
    for (; n_wtab > 0; --n_wtab) free(wtab[n_wtab - 1]);
    return 0;
}
