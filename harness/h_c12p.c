/* C12, pruned lattices: lattice_bestpath() after lattice_posterior_prune() (public API, lattice.h).
 * One line per request on stdin:   <grammar as hex> <audio file> <beam> [config key=value ...]
 * For each: decode the whole file, lattice_bestpath, lattice_posterior, lattice_posterior_prune(beam),
 * lattice_bestpath again, and an independent maximum over the remaining start->end paths (memoised DFS over
 * the exit lists).  Output:
 *   prune beam=<b> links_before=<n> pruned=<n> nodes=<n> orphans=<n> best=<score|none> want=<score|none> post=<p>
 * orphans = nodes other than the start node without entries after pruning. */
#include <stdio.h>
#include <stdlib.h>
#include <string.h>
#include <soundswallower/decoder.h>
#include <soundswallower/lattice.h>
#include <soundswallower/err.h>
#include "common.h"

#define NONE (-2000000000)

static int32
best_from(lattice_t *dag, latnode_t *n, int32 *memo, char *known)
{
    latlink_list_t *x;
    int32 best = NONE;
    if (n == dag->end) return 0;
    if (known[n->id]) return memo[n->id];
    for (x = n->exits; x; x = x->next) {
        int32 r = best_from(dag, x->link->to, memo, known);
        if (r != NONE && r + x->link->ascr > best) best = r + x->link->ascr;
    }
    known[n->id] = 1;
    memo[n->id] = best;
    return best;
}

int main(int argc, char **argv)
{
    static char line[1 << 16];
    char *w[64];
    const char *hmmdir = argc > 1 ? argv[1] : "/repo/model/en-us";
    err_set_loglevel(ERR_FATAL);
    setvbuf(stdout, NULL, _IOLBF, 0);
    while (fgets(line, sizeof(line), stdin)) {
        int n = vf_words(line, w, 64), i;
        size_t len, ns;
        char *gram;
        config_t *cfg;
        decoder_t *d;
        lattice_t *dag;
        latlink_t *b0, *b1;
        latnode_t *nd;
        latlink_list_t *x;
        FILE *fh;
        int16 *buf;
        int32 beam, post, np, want, *memo;
        int nn = 0, orphans = 0, nlinks = 0;
        char *known;
        if (n < 3) continue;
        gram = (char *)vf_parse_hex(w[0], &len);
        beam = atoi(w[2]);
        cfg = config_init(NULL);
        config_set_str(cfg, "hmm", hmmdir);
        config_set_str(cfg, "loglevel", "FATAL");
        config_set_str(cfg, "samprate", "16000");
        for (i = 3; i < n; ++i) {
            char *eq = strchr(w[i], '=');
            if (eq) { *eq = 0; config_set_str(cfg, w[i], eq + 1); }
        }
        d = decoder_init(cfg);
        if (!d || decoder_set_jsgf_string(d, gram) < 0) { printf("setup-failed\n"); free(gram); continue; }
        fh = fopen(w[1], "rb");
        if (!fh) { printf("setup-failed\n"); free(gram); decoder_free(d); continue; }
        fseek(fh, 0, SEEK_END); ns = ftell(fh) / 2; fseek(fh, 0, SEEK_SET);
        buf = malloc(ns * 2 + 2);
        ns = fread(buf, 2, ns, fh);
        fclose(fh);
        decoder_start_utt(d);
        decoder_process_int16(d, buf, ns, FALSE, TRUE);
        decoder_end_utt(d);
        dag = decoder_lattice(d);
        if (!dag) { printf("prune nolattice\n"); free(buf); free(gram); decoder_free(d); continue; }
        for (nd = dag->nodes; nd; nd = nd->next)
            for (x = nd->exits; x; x = x->next) ++nlinks;
        b0 = lattice_bestpath(dag, 0.05f);
        post = b0 ? lattice_posterior(dag, 0.05f) : 0;
        np = b0 ? lattice_posterior_prune(dag, beam) : 0;
        for (nd = dag->nodes; nd; nd = nd->next) {
            ++nn;
            if (nd != dag->start && nd->entries == NULL) ++orphans;
        }
        memo = calloc(nn + 1, sizeof(*memo));
        known = calloc(nn + 1, 1);
        want = best_from(dag, dag->start, memo, known);
        b1 = lattice_bestpath(dag, 0.05f);
        printf("prune beam=%d links_before=%d pruned=%d nodes=%d orphans=%d best=", beam, nlinks, np, nn, orphans);
        if (b1) printf("%d", b1->path_scr); else printf("none");
        if (want != NONE) printf(" want=%d", want); else printf(" want=none");
        printf(" post=%d\n", post);
        free(memo); free(known); free(buf); free(gram);
        decoder_free(d);
    }
    return 0;
}
