/* C14 harness: drives the real decoder, calls decoder_result_json(d, start, level) and dumps, on one
 * line per `json` op, (a) what the JSON function returned -- the bytes, their length and the size the
 * allocator was asked for -- and (b) what the hypothesis / segmentation / alignment interfaces report
 * for the same result.  Everything else (parsing the JSON, comparing) is done outside.
 *
 * ops (one per line, one answer line each, flushed; the op is echoed to stderr before the call):
 *   init k=v ...                     config keys (hmm defaults to $VERIF_REPO/model/en-us)
 *   addword <hexword> <PH,PH,...>    decoder_add_word(word, "PH PH ...", update=0)
 *   jsgf <hex>  | align <hex>        decoder_set_jsgf_string / decoder_set_align_text
 *   fsg <nstates> <final> <from>:<to>:<hexword|-> ...   built with the fsg_model API, decoder_set_fsg
 *   start | end                      decoder_start_utt / decoder_end_utt
 *   raw <path> <from> <n> <chunk>    decoder_process_int16 over samples [from, from+n) in chunks
 *   noise <seed> <n> <amp> <chunk>   same over generated noise
 *   frate <n>                        config_set_int(decoder_config(d), "frate", n)
 *   barealign <hexword>:<s>:<d> ...  installs an alignment whose words have no phones (no alignment_populate)
 *   emptyalign                       installs an alignment with zero words as the decoder's current
 *                                    alignment (what decoder_alignment would hand back for a result
 *                                    without dictionary words), through the public structs
 *   json <start> <level>             the dump line (see dump_json); <start> is strtod text or `x<16 hex digits>`
 *                                    (a bit pattern); after `end` the line carries ` B <key>=<bits> ...`: the bit
 *                                    patterns of every double handed to %.3f (S = start, T:<f>:<frate> =
 *                                    start + (double)f / frate, R:<n>:<frate> = (double)n / frate,
 *                                    P:<logp> = logmath_exp(lmath, logp)), recomputed here from the iterator values
 *   arith <16 hex digits> <f> <frate>  `arith d=<bits of (double)f / frate> t=<bits of start + (double)f / frate>`: the
 *                                    machine's double arithmetic for the expressions of format_seg (no decoder needed)
 *   fmt <16 hex digits>              `fmt n0=<snprintf(NULL, 0, "%.3f", x)> n=<snprintf(buf, size, ...)> text=<hex>`
 *                                    for the double with that bit pattern (libc alone, no decoder needed)
 *   free
 */
#include "common.h"
#include <sanitizer/allocator_interface.h>
#include <soundswallower/alignment.h>
#include <soundswallower/ckd_alloc.h>
#include <soundswallower/configuration.h>
#include <soundswallower/decoder.h>
#include <soundswallower/dict.h>
#include <soundswallower/err.h>
#include <soundswallower/fsg_model.h>
#include <soundswallower/logmath.h>
#include <soundswallower/search_module.h>
#include <soundswallower/state_align_search.h>

static decoder_t *d;

static void hexs(const char *s)
{
    if (s == NULL) { printf("null"); return; }
    vf_print_hex(stdout, (const unsigned char *)s, strlen(s));
}

static uint64_t dbits(double x)
{
    uint64_t u;
    memcpy(&u, &x, 8);
    return u;
}

static double bits2d(const char *hex)
{
    uint64_t u = strtoull(hex, NULL, 16);
    double x;
    memcpy(&x, &u, 8);
    return x;
}

/* the three doubles format_seg / format_align_iter / format_hyp hand to %.3f for one record */
static void bits_rec(double utt_start, int f, int n, int frate, int logp, logmath_t *lm, int top)
{
    if (top)
        printf(" S=%016llx", (unsigned long long)dbits(utt_start));
    else
        printf(" T:%d:%d=%016llx", f, frate, (unsigned long long)dbits(utt_start + (double)f / frate));
    printf(" R:%d:%d=%016llx", n, frate, (unsigned long long)dbits((double)n / frate));
    printf(" P:%d=%016llx", logp, (unsigned long long)dbits(logmath_exp(lm, logp)));
}

static void bits_aent(alignment_iter_t *it, double utt_start, int frate, logmath_t *lm)
{
    int st = 0, du = 0, sc;
    sc = alignment_iter_seg(it, &st, &du);
    bits_rec(utt_start, st, du, frate, sc, lm, 0);
}

static void dump_aent(const char *tag, alignment_iter_t *it, logmath_t *lm)
{
    int st = 0, du = 0, sc;
    const char *nm;
    sc = alignment_iter_seg(it, &st, &du);
    nm = alignment_iter_name(it);
    printf(" %s ", tag);
    hexs(nm);
    printf(" %d %d %d %.17g", st, du, sc, logmath_exp(lm, sc));
}

static void dump_json(double start, int level)
{
    const char *js, *hyp;
    char *copy = NULL;
    size_t alloc = 0, n = 0;
    logmath_t *lm = decoder_logmath(d);
    seg_iter_t *seg;
    int32 prob;
    int nseg = 0;
    int frate = config_int(decoder_config(d), "frate");
    alignment_t *al = NULL;

    js = decoder_result_json(d, start, level);
    if (js) {
        alloc = __sanitizer_get_allocated_size(js);
        n = strlen(js);
        copy = (char *)malloc(n + 1);
        memcpy(copy, js, n + 1);
    }
    printf("json ret=%s alloc=%zu len=%zu text=", js ? "ok" : "null", alloc, n);
    if (js) vf_print_hex(stdout, (unsigned char *)copy, n); else printf("null");
    free(copy);
    printf(" start=%.17g level=%d frate=%ld nfr=%d", start, level,
           config_int(decoder_config(d), "frate"), decoder_n_frames(d));
    hyp = decoder_hyp(d, NULL);
    printf(" hyp=");
    hexs(hyp);
    prob = decoder_prob(d);
    printf(" prob=%d probf=%.17g segs", prob, logmath_exp(lm, prob));
    for (seg = decoder_seg_iter(d); seg; seg = seg_iter_next(seg)) {
        int sf, ef, p;
        seg_iter_frames(seg, &sf, &ef);
        p = seg_iter_prob(seg, NULL, NULL);
        printf(" s ");
        hexs(seg_iter_word(seg));
        printf(" %d %d %d %.17g", sf, ef, p, logmath_exp(lm, p));
        nseg++;
    }
    printf(" endsegs");
    if (level) {
        /* what the PUBLIC alignment interface reports for the same result, asked right after the
         * JSON call: the property compares the line with this one.  On the code as it is, the JSON call went
         * through decoder_alignment() itself, so this second request takes the reuse shortcut and hands back
         * the very object the line was rendered from; a line rendered from an aligner left behind by an
         * earlier request (before more audio came in) differs from it and is judged by the oracle.  When the
         * call returned NULL this asks whether the interface has anything to report. */
        al = decoder_alignment(d);
        if (al == NULL)
            printf(" al=null");
        else {
            alignment_iter_t *w, *p, *s;
            printf(" al=%d", alignment_n_words(al));
            for (w = alignment_words(al); w; w = alignment_iter_next(w)) {
                dump_aent("aw", w, lm);
                for (p = alignment_iter_children(w); p; p = alignment_iter_next(p)) {
                    dump_aent("ap", p, lm);
                    for (s = alignment_iter_children(p); s; s = alignment_iter_next(s))
                        dump_aent("as", s, lm);
                }
            }
        }
    } else
        printf(" al=none");
    printf(" end B");
    bits_rec(start, 0, decoder_n_frames(d), frate, prob, lm, 1);
    for (seg = decoder_seg_iter(d); seg; seg = seg_iter_next(seg)) {
        int sf, ef;
        seg_iter_frames(seg, &sf, &ef);
        bits_rec(start, sf, ef + 1 - sf, frate, seg_iter_prob(seg, NULL, NULL), lm, 0);
    }
    if (al) {
        alignment_iter_t *w, *p, *s;
        for (w = alignment_words(al); w; w = alignment_iter_next(w)) {
            bits_aent(w, start, frate, lm);
            for (p = alignment_iter_children(w); p; p = alignment_iter_next(p)) {
                bits_aent(p, start, frate, lm);
                for (s = alignment_iter_children(p); s; s = alignment_iter_next(s))
                    bits_aent(s, start, frate, lm);
            }
        }
    }
    printf("\n");
}

static int feed(const int16_t *buf, long n, long chunk)
{
    long i;
    int tot = 0;
    if (chunk <= 0) chunk = n ? n : 1;
    for (i = 0; i < n; i += chunk) {
        long m = (n - i < chunk) ? n - i : chunk;
        int r = decoder_process_int16(d, (int16 *)(buf + i), m, 0, 0);
        if (r < 0) return r;
        tot += r;
    }
    return tot;
}

int main(void)
{
    static char line[1 << 20];
    char *w[4096];
    const char *repo = getenv("VERIF_REPO");
    if (!repo) repo = "/repo";
    err_set_loglevel(ERR_FATAL);
    {   /* self-test of the allocation-size observer: it must report the requested size exactly */
        void *p = calloc(37, 1), *q = malloc(4097);
        printf("selftest %zu %zu\n", __sanitizer_get_allocated_size(p), __sanitizer_get_allocated_size(q));
        free(p); free(q);
        fflush(stdout);
    }
    while (fgets(line, sizeof(line), stdin)) {
        int n, i;
        fprintf(stderr, "op: %.300s", line);
        n = vf_words(line, w, 4096);
        if (n == 0) { printf("empty\n"); fflush(stdout); continue; }
        if (!strcmp(w[0], "arith") && n == 4) {
            volatile double utt_start = bits2d(w[1]);
            volatile int f = atoi(w[2]), frate = atoi(w[3]);
            double dur = (double)f / frate;
            double st = utt_start + (double)f / frate;
            printf("arith d=%016llx t=%016llx\n", (unsigned long long)dbits(dur), (unsigned long long)dbits(st));
            fflush(stdout);
            continue;
        }
        if (!strcmp(w[0], "fmt") && n == 2) {
            static char buf[512];
            double x = bits2d(w[1]);
            int n0 = snprintf(NULL, 0, "%.3f", x);
            int n1 = snprintf(buf, sizeof buf, "%.3f", x);
            printf("fmt n0=%d n=%d text=", n0, n1);
            vf_print_hex(stdout, (unsigned char *)buf, strlen(buf));
            printf("\n");
            fflush(stdout);
            continue;
        }
        if (!strcmp(w[0], "init")) {
            config_t *c = config_init(NULL);
            char hmm[1024];
            if (d) { decoder_free(d); d = NULL; }
            snprintf(hmm, sizeof hmm, "%s/model/en-us", repo);
            config_set_str(c, "hmm", hmm);
            config_set_str(c, "loglevel", "FATAL");
            for (i = 1; i < n; i++) {
                char *eq = strchr(w[i], '=');
                if (!eq) continue;
                *eq = 0;
                config_set_str(c, w[i], eq + 1);
            }
            d = decoder_init(c);
            printf("init %s\n", d ? "ok" : "fail");
        } else if (!d) {
            printf("no-decoder\n");
        } else if (!strcmp(w[0], "addword") && n == 3) {
            size_t len;
            unsigned char *k = vf_parse_hex(w[1], &len);
            char *p;
            for (p = w[2]; *p; p++) if (*p == ',') *p = ' ';
            printf("addword %d\n", decoder_add_word(d, (char *)k, w[2], 0) >= 0);
            free(k);
        } else if ((!strcmp(w[0], "jsgf") || !strcmp(w[0], "align")) && n == 2) {
            size_t len;
            unsigned char *k = vf_parse_hex(w[1], &len);
            int rc = w[0][0] == 'j' ? decoder_set_jsgf_string(d, (char *)k) : decoder_set_align_text(d, (char *)k);
            printf("%s %d\n", w[0], rc);
            free(k);
        } else if (!strcmp(w[0], "fsg") && n >= 3) {
            int ns = atoi(w[1]), fin = atoi(w[2]), rc;
            fsg_model_t *f = fsg_model_init("h_c14", decoder_logmath(d),
                                            config_float(decoder_config(d), "lw"), ns);
            for (i = 3; i < n; i++) {
                int from, to, off = 0;
                if (sscanf(w[i], "%d:%d:%n", &from, &to, &off) < 2 || off == 0) continue;
                if (!strcmp(w[i] + off, "-"))
                    fsg_model_null_trans_add(f, from, to, 0);
                else {
                    size_t len;
                    unsigned char *k = vf_parse_hex(w[i] + off, &len);
                    fsg_model_trans_add(f, from, to, 0, fsg_model_word_add(f, (char *)k));
                    free(k);
                }
            }
            f->start_state = 0;
            f->final_state = fin;
            rc = decoder_set_fsg(d, f);     /* consumes f, also when it fails (fsg_search_free) */
            printf("fsg %d\n", rc);
        } else if (!strcmp(w[0], "start")) {
            printf("start %d\n", decoder_start_utt(d));
        } else if (!strcmp(w[0], "end")) {
            printf("end %d\n", decoder_end_utt(d));
        } else if (!strcmp(w[0], "raw") && n == 5) {
            long from = atol(w[2]), cnt = atol(w[3]), got;
            int16_t *buf = (int16_t *)calloc(cnt + 1, 2);
            FILE *f = fopen(w[1], "rb");
            if (!f) { printf("raw nofile\n"); free(buf); fflush(stdout); continue; }
            fseek(f, from * 2, SEEK_SET);
            got = (long)fread(buf, 2, cnt, f);
            fclose(f);
            printf("raw %d\n", feed(buf, got, atol(w[4])) >= 0);
            free(buf);
        } else if (!strcmp(w[0], "noise") && n == 5) {
            uint64_t s = strtoull(w[1], NULL, 10);
            long cnt = atol(w[2]), amp = atol(w[3]), j;
            int16_t *buf = (int16_t *)calloc(cnt + 1, 2);
            for (j = 0; j < cnt; j++)
                buf[j] = amp ? (int16_t)((long)(vf_rand(&s) % (2 * amp + 1)) - amp) : 0;
            printf("noise %d\n", feed(buf, cnt, atol(w[4])) >= 0);
            free(buf);
        } else if (!strcmp(w[0], "frate") && n == 2) {
            config_set_int(decoder_config(d), "frate", atol(w[1]));
            printf("frate %ld\n", config_int(decoder_config(d), "frate"));
        } else if (!strcmp(w[0], "emptyalign")) {
            alignment_t *al = alignment_init(d->d2p);
            int rc = alignment_populate(al);
            if (d->align) search_module_free(d->align);
            d->align = state_align_search_init("_state_align", d->config, d->acmod, al);
            if (d->align)
                ((state_align_search_t *)d->align)->frame = d->acmod->output_frame;
            printf("emptyalign %d %d\n", rc, d->align != NULL);
        } else if (!strcmp(w[0], "barealign") && n >= 2) {
            /* an alignment whose words have no phone entries (alignment_add_word without alignment_populate),
             * installed like `emptyalign`: barealign <hexword>:<start>:<dur> ... */
            alignment_t *al = alignment_init(d->d2p);
            int added = 0;
            for (i = 1; i < n; i++) {
                char *c1 = strchr(w[i], ':'), *c2 = c1 ? strchr(c1 + 1, ':') : NULL;
                size_t len;
                unsigned char *k;
                int32 wid;
                if (!c2) continue;
                *c1 = 0;
                k = vf_parse_hex(w[i], &len);
                wid = dict_wordid(d->dict, (char *)k);
                free(k);
                if (wid < 0) continue;
                alignment_add_word(al, wid, atoi(c1 + 1), atoi(c2 + 1));
                added++;
            }
            if (d->align) search_module_free(d->align);
            d->align = state_align_search_init("_state_align", d->config, d->acmod, al);
            if (d->align)
                ((state_align_search_t *)d->align)->frame = d->acmod->output_frame;
            printf("barealign %d %d\n", added, d->align != NULL);
        } else if (!strcmp(w[0], "json") && n == 3) {
            dump_json(w[1][0] == 'x' ? bits2d(w[1] + 1) : strtod(w[1], NULL), atoi(w[2]));
        } else if (!strcmp(w[0], "free")) {
            decoder_free(d);
            d = NULL;
            printf("free\n");
        } else
            printf("bad-op\n");
        fflush(stdout);
    }
    if (d) decoder_free(d);
    return 0;
}
