/* fixed configuration used by the /verif builds; mirrors what cmake generates in /repo/_build */
#define HAVE_UNISTD_H
#define HAVE_STDINT_H
#define HAVE_SYS_TYPES_H
#define HAVE_SYS_STAT_H
#define HAVE_SNPRINTF
#define HAVE_POPEN
#define HAVE_GETRUSAGE
#define WORDS_BIGENDIAN 0
