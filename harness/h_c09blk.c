/* C09 (block-crossing class): drives the real blkarray_list (src/blkarray_list.c) - the block-wise growing table of
 * the FSG search history - with op lines and prints counters and row pointers after every op, in the format of the
 * model driver `c09blk` (lean/Driver/C09Blk.lean).  ASan/UBSan/LSan, asserts on: elements are heap blocks, so an
 * element or row that a reset does not release is reported by LeakSanitizer at exit.
 *   new <maxblks> <blksize>     _blkarray_list_init (an existing table is freed first)
 *   app <n>                     n x blkarray_list_append(bl, malloc'd element); prints the last return value
 *   reset                       blkarray_list_reset
 *   free                        blkarray_list_free
 * Only installed headers are used. */
#include "common.h"
#include <soundswallower/blkarray_list.h>
#include <soundswallower/ckd_alloc.h>

static blkarray_list_t *B;
static long live;

static void show(void)
{
    int i, ra = 0, n = B->maxblks < 48 ? B->maxblks : 48;
    for (i = 0; i < B->maxblks; i++) ra += B->ptr[i] != NULL;
    printf("nv=%d cr=%d cf=%d ra=%d live=%ld rows=", (int)B->n_valid, (int)B->cur_row, (int)B->cur_row_free, ra, live);
    for (i = 0; i < n; i++) putchar(B->ptr[i] ? '1' : '0');
    putchar('\n');
}

int main(void)
{
    char line[256], *w[8];
    while (fgets(line, sizeof(line), stdin)) {
        int n = vf_words(line, w, 8);
        if (n == 0) continue;
        if (!strcmp(w[0], "new") && n == 3 && atoi(w[1]) > 0 && atoi(w[2]) > 0) {
            if (B) blkarray_list_free(B);
            B = _blkarray_list_init(atoi(w[1]), atoi(w[2]));
            live = 0;
            printf("ok "); show();
        } else if (B && !strcmp(w[0], "app") && n == 2) {
            long k, cnt = atol(w[1]); int r = 0, any = 0;
            for (k = 0; k < cnt; k++) {
                void *e = ckd_malloc(24);
                r = blkarray_list_append(B, e); any = 1;
                if (r < 0) ckd_free(e); else live++;   /* a refused element stays the caller's */
            }
            if (any) printf("ret=%d ", r); else printf("ret=none ");
            show();
        } else if (B && !strcmp(w[0], "reset") && n == 1) {
            blkarray_list_reset(B); live = 0;
            printf("ok "); show();
        } else if (B && !strcmp(w[0], "free") && n == 1) {
            blkarray_list_free(B); B = NULL;
            printf("ok -\n");
        } else
            printf("bad-op\n");
        fflush(stdout);
    }
    if (B) blkarray_list_free(B);
    return 0;
}
