/* C07 ring harness: the index arithmetic of feat_s2mfc2feat_live (feat.c) on the real code at a chosen position
 * of the live feature ring.  A feat_t of the default configuration (1s_c_d_dd, window 3, live CMN with the mean
 * forced to zero so that cepstral values pass unchanged); before every op each ring slot i holds the marker of
 * id 1000 + i in all coefficients, input frame k holds the marker of id k.  After the call the harness prints
 * which id every CHANGED slot holds, the positions, and coefficient 0 / delta 0 / delta-delta 0 of every feature
 * vector computed (a function of all 2*win+1 window entries).  `ssdriver c07 ` prints the same from the model
 * function `featLive` (Model/AcmodBuf.lean); tools/props/c07.py diffs the two at EVERY ring position.
 *
 * stdin:  ring <curpos> <pending> <ncep> <beginutt> <endutt>       (bufpos = curpos + pending around the ring)
 * stdout: ring rv=<features> used=<*inout_ncep> bp=<bufpos> cp=<curpos> w=<slot>:<id>,.. f=<c>:<d>:<dd>,..
 */
#include "common.h"
#include <soundswallower/cmn.h>
#include <soundswallower/configuration.h>
#include <soundswallower/err.h>
#include <soundswallower/feat.h>

#define MAXIN 300

static int marker(int id)
{
    return (int)(((long)id * id * 7 + (long)id * 13 + 5) % 100003);
}

int main(void)
{
    static char line[4096];
    char *w[16];
    config_t *config;
    feat_t *fcb;
    mfcc_t **in;
    mfcc_t ***out;
    int cepsize, i, j;

    err_set_loglevel(ERR_FATAL);
    config = config_init(NULL);
    config_set_str(config, "loglevel", "FATAL");
    config_set_str(config, "cmn", "live");
    fcb = feat_init(config);
    if (fcb == NULL) { printf("init fail\n"); return 1; }
    cepsize = feat_cepsize(fcb);
    in = (mfcc_t **)calloc(MAXIN, sizeof(*in));
    for (i = 0; i < MAXIN; i++) in[i] = (mfcc_t *)calloc(cepsize, sizeof(mfcc_t));
    out = feat_array_alloc(fcb, MAXIN + 8);
    printf("ring ok win=%d livebuf=%d cepsize=%d dim=%d\n", feat_window_size(fcb), LIVEBUFBLOCKSIZE, cepsize,
           feat_dimension2(fcb, 0));
    fflush(stdout);
    while (fgets(line, sizeof(line), stdin)) {
        int n = vf_words(line, w, 16), cp, nb, ncep, b, e, rv, first = 1;
        int32 nc;
        if (n != 6 || strcmp(w[0], "ring")) { printf("bad-op\n"); fflush(stdout); continue; }
        cp = atoi(w[1]); nb = atoi(w[2]); ncep = atoi(w[3]); b = atoi(w[4]); e = atoi(w[5]);
        if (cp < 0 || cp >= LIVEBUFBLOCKSIZE || nb < 0 || nb >= LIVEBUFBLOCKSIZE || ncep < 0 || ncep > MAXIN) {
            printf("bad-op\n"); fflush(stdout); continue;
        }
        for (i = 0; i < LIVEBUFBLOCKSIZE; i++)
            for (j = 0; j < cepsize; j++) fcb->cepbuf[i][j] = (mfcc_t)marker(1000 + i);
        for (i = 0; i < MAXIN; i++)
            for (j = 0; j < cepsize; j++) in[i][j] = (mfcc_t)marker(i);
        for (j = 0; j < cepsize; j++) { fcb->cmn_struct->cmn_mean[j] = 0; fcb->cmn_struct->sum[j] = 0; }
        fcb->cmn_struct->nframe = 0;
        fcb->curpos = cp;
        fcb->bufpos = (cp + nb) % LIVEBUFBLOCKSIZE;
        nc = ncep;
        rv = feat_s2mfc2feat_live(fcb, in, &nc, b, e, out);
        printf("ring rv=%d used=%d bp=%d cp=%d w=", rv, (int)nc, fcb->bufpos, fcb->curpos);
        for (i = 0; i < LIVEBUFBLOCKSIZE; i++) {
            int v = (int)fcb->cepbuf[i][0], id = -1, k;
            if (v == marker(1000 + i)) continue;
            for (k = 0; k < MAXIN && id < 0; k++) if (marker(k) == v) id = k;
            for (k = 0; k < LIVEBUFBLOCKSIZE && id < 0; k++) if (marker(1000 + k) == v) id = 1000 + k;
            printf("%s%d:%d", first ? "" : ",", i, id);
            first = 0;
        }
        if (first) printf("-");
        printf(" f=");
        for (i = 0; i < rv; i++)
            printf("%s%ld:%ld:%ld", i ? "," : "", (long)out[i][0][0], (long)out[i][0][cepsize], (long)out[i][0][2 * cepsize]);
        if (rv <= 0) printf("-");
        printf("\n");
        fflush(stdout);
    }
    feat_array_free(out);
    for (i = 0; i < MAXIN; i++) free(in[i]);
    free(in);
    feat_free(fcb);
    config_free(config);
    return 0;
}
