/* C20 harness: replays a hash-table op file on the real hash_table.c.
 * One output line per input line, same format as `ssdriver c20`. */
#include "common.h"
#include <soundswallower/glist.h>
#include <soundswallower/hash_table.h>

typedef struct keep_s { struct keep_s *next; unsigned char *k; } keep_t;
static keep_t *kept;
static unsigned char *keep(unsigned char *k)
{
    keep_t *n = (keep_t *)malloc(sizeof(*n));
    n->k = k; n->next = kept; kept = n;
    return k;
}
/* Binary keys: when an earlier kept key buffer starts with the bytes of this key, hand the table the SAME
 * address with the shorter length (prefix-related keys sharing one buffer, as a caller slicing one record
 * would do); returns NULL when no kept buffer has this prefix. */
typedef struct { unsigned char *k; size_t len; } klen_t;
static klen_t klens[65536];
static int nklens;
static unsigned char *shared_prefix(const unsigned char *k, size_t len)
{
    int i;
    if (len == 0) return NULL;
    for (i = 0; i < nklens; i++)
        if (klens[i].len >= len && memcmp(klens[i].k, k, len) == 0)
            return klens[i].k;
    return NULL;
}
static void remember(unsigned char *k, size_t len)
{
    if (nklens < 65536) { klens[nklens].k = k; klens[nklens].len = len; nklens++; }
}

static void drop_all(void)
{
    while (kept) { keep_t *n = kept->next; free(kept->k); free(kept); kept = n; }
    nklens = 0;
}

typedef struct { char *s; } ent_t;
static int cmpstr(const void *a, const void *b) { return strcmp(*(char *const *)a, *(char *const *)b); }

static void show_entries(hash_entry_t **es, int n)
{
    char **raw = (char **)malloc(sizeof(char *) * (n + 1)), **sorted = (char **)malloc(sizeof(char *) * (n + 1));
    int i;
    for (i = 0; i < n; i++) {
        size_t len = hash_entry_len(es[i]), j, o = 0;
        const unsigned char *k = (const unsigned char *)hash_entry_key(es[i]);
        char *s = (char *)malloc(len * 2 + 32);
        if (len == 0) s[o++] = '-';
        for (j = 0; j < len; j++) o += sprintf(s + o, "%02x", k[j]);
        sprintf(s + o, ":%ld", (long)(size_t)hash_entry_val(es[i]));
        raw[i] = sorted[i] = s;
    }
    qsort(sorted, n, sizeof(char *), cmpstr);
    printf("it ");
    for (i = 0; i < n; i++) printf("%s%s", i ? "," : "", sorted[i]);
    printf(" | ");
    for (i = 0; i < n; i++) printf("%s%s", i ? "," : "", raw[i]);
    printf("\n");
    for (i = 0; i < n; i++) free(raw[i]);
    free(raw); free(sorted);
}

int main(void)
{
    char line[1 << 16], *w[8];
    hash_table_t *h = NULL;
    int bin = 0;
    while (fgets(line, sizeof(line), stdin)) {
        int n = vf_words(line, w, 8);
        size_t len;
        if (n == 4 && !strcmp(w[0], "new")) {
            if (h) { hash_table_free(h); drop_all(); }
            h = hash_table_new(atoi(w[1]), atoi(w[2]) ? HASH_CASE_NO : HASH_CASE_YES);
            bin = atoi(w[3]);
            printf("size %d\n", h->size);
        } else if (n == 3 && (!strcmp(w[0], "enter") || !strcmp(w[0], "replace"))) {
            unsigned char *k = vf_parse_hex(w[1], &len), *sh = bin ? shared_prefix(k, len) : NULL;
            long v = atol(w[2]);
            if (sh) { free(k); k = sh; } else { keep(k); remember(k, len); }
            void *r;
            if (w[0][0] == 'e')
                r = bin ? hash_table_enter_bkey(h, (char *)k, len, (void *)(size_t)v)
                        : hash_table_enter(h, (char *)k, (void *)(size_t)v);
            else
                r = bin ? hash_table_replace_bkey(h, (char *)k, len, (void *)(size_t)v)
                        : hash_table_replace(h, (char *)k, (void *)(size_t)v);
            printf("v %ld\n", (long)(size_t)r);
        } else if (n == 2 && !strcmp(w[0], "delete")) {
            unsigned char *k = vf_parse_hex(w[1], &len), *sh = bin ? shared_prefix(k, len) : NULL;
            void *r = bin ? hash_table_delete_bkey(h, (char *)(sh ? sh : k), len) : hash_table_delete(h, (char *)k);
            if (r) printf("o %ld\n", (long)(size_t)r); else printf("o none\n");
            free(k);
        } else if (n == 2 && !strcmp(w[0], "lookup")) {
            unsigned char *k = vf_parse_hex(w[1], &len), *sh = bin ? shared_prefix(k, len) : NULL;
            void *val = NULL;
            int rv = bin ? hash_table_lookup_bkey(h, (char *)(sh ? sh : k), len, &val) : hash_table_lookup(h, (char *)k, &val);
            if (rv == 0) printf("o %ld\n", (long)(size_t)val); else printf("o none\n");
            free(k);
        } else if (n == 1 && !strcmp(w[0], "empty")) {
            hash_table_empty(h);
            printf("ok\n");
        } else if (n == 1 && !strcmp(w[0], "inuse")) {
            printf("v %d\n", hash_table_inuse(h));
        } else if (n == 1 && !strcmp(w[0], "iter")) {
            hash_iter_t *it;
            int cap = hash_table_inuse(h) + 64, m = 0;
            hash_entry_t **es = (hash_entry_t **)malloc(sizeof(*es) * cap);
            for (it = hash_table_iter(h); it; it = hash_table_iter_next(it)) {
                if (m == cap) { cap *= 2; es = (hash_entry_t **)realloc(es, sizeof(*es) * cap); }
                es[m++] = it->ent;
            }
            show_entries(es, m);
            free(es);
        } else if (n == 1 && !strcmp(w[0], "tolist")) {
            int32 cnt = 0, m = 0;
            glist_t g = hash_table_tolist(h, &cnt), gn;
            hash_entry_t **es = (hash_entry_t **)malloc(sizeof(*es) * (cnt + 1));
            for (gn = g; gn; gn = gnode_next(gn)) es[m++] = (hash_entry_t *)gnode_ptr(gn);
            if (m != cnt) printf("count-mismatch %d %d ", m, cnt);
            show_entries(es, m);
            glist_free(g);
            free(es);
        } else {
            printf("bad-op\n");
        }
        fflush(stdout);
    }
    if (h) hash_table_free(h);
    drop_all();
    return 0;
}
