/* C07 harness: decodes clips of a recording under scripted calling patterns on the real decoder
 * (ASan/UBSan build of the working tree, asserts on) and logs, per API call,
 *   - every front-end call made underneath (fe_process_int16/float32, fe_end: output limit,
 *     frames yielded, samples left) -- observed through linker --wrap, no source hook,
 *   - every acmod_score call (= one search step: requested frame, the feat_buf index it reads,
 *     a hash of the feature vector it reads, first pass or alignment pass),
 *   - the acmod / feat counters after the call,
 * and, after decoder_end_utt, the full result record (hyp, path score, segmentation, alignment,
 * decoder_n_frames, hash of every buffered feature vector).
 *
 * stdin (one op per line)                     stdout (one line per op, flushed)
 *   dec <hmmdir> <key=val>...                  dec ok win=.. nmfc=.. nfeat=.. grow=.. livebuf=.. fsize=.. fshift=.. cmnwin=.. cmnhwm=..
 *   audio <path.raw>                           audio <nsamples>
 *   utt <off> <len> <cmn|->                    utt rv=<r> cmnframes=<n> | <st>
 *   p <i|f> <n> <nosearch> [full]              p rv=<r> fe=<lim>:<nvec>:<left>,.. sc=<pass><frame>:<idx>:<hash>,.. | <st>
 *                                              ([full]: full_utt = 1; the frame-count query fe_process(.., NULL, ..) is logged as e<count>)
 *   q <hyp|seg|align|ralign>                   q <digest> fe=.. sc=.. | <st>   (ralign: decoder_alignment even without a hypothesis)
 *   end                                        end rv=<r> ovf=<overflow samples before fe_end> fsz=<frame_size> fe=.. sc=.. | <st>
 *   res                                        res ... (full record, see print_result)
 *   probe-d9                                   (child process) feeds one 40000-sample call to the front end
 * <st> = st=<state> nmfc=<n_mfc_frame> mfco=<mfc_outidx> nfeat=<n_feat_frame> fo=<feat_outidx> of=<output_frame>
 *        alloc=<n_feat_alloc> grow=<grow_feat> bp=<bufpos> cp=<curpos> nfrm=<decoder n_frame>
 */
#include "common.h"
#include <soundswallower/acmod.h>
#include <soundswallower/alignment.h>
#include <soundswallower/cmn.h>
#include <soundswallower/configuration.h>
#include <soundswallower/decoder.h>
#include <soundswallower/dict.h>
#include <soundswallower/err.h>
#include <soundswallower/fe.h>
#include <soundswallower/feat.h>
#include <soundswallower/search_module.h>
#include <sys/wait.h>
#include <unistd.h>

/* ---------------------------------------------------------------- observation through --wrap */
#define LOGMAX (1 << 20)
static char felog[1 << 16], sclog[LOGMAX];
static size_t felen, sclen;
static int in_align; /* set while a decoder_alignment call is running */

static void log_reset(void)
{
    felen = sclen = 0;
    felog[0] = sclog[0] = 0;
}

int __real_fe_process_int16(fe_t *fe, int16 **s, size_t *n, mfcc_t **buf, int nframes);
int __real_fe_process_float32(fe_t *fe, float32 **s, size_t *n, mfcc_t **buf, int nframes);
int __real_fe_end(fe_t *fe, mfcc_t **buf, int nframes);
int16 const *__real_acmod_score(acmod_t *acmod, int *inout_frame_idx);

static int ovf_before_end = -1;
static uint64_t utt_sen_hash;

static void fe_note(int lim, int nvec, size_t left)
{
    if (felen + 64 < sizeof(felog))
        felen += sprintf(felog + felen, "%s%d:%d:%zu", felen ? "," : "", lim, nvec, left);
}

static void fe_note_est(int r)
{
    if (felen + 32 < sizeof(felog))
        felen += sprintf(felog + felen, "%se%d", felen ? "," : "", r);
}

int __wrap_fe_process_int16(fe_t *fe, int16 **s, size_t *n, mfcc_t **buf, int nframes)
{
    int r = __real_fe_process_int16(fe, s, n, buf, nframes);
    if (buf)
        fe_note(nframes, r, *n);
    else
        fe_note_est(r);
    return r;
}

int __wrap_fe_process_float32(fe_t *fe, float32 **s, size_t *n, mfcc_t **buf, int nframes)
{
    int r = __real_fe_process_float32(fe, s, n, buf, nframes);
    if (buf)
        fe_note(nframes, r, *n);
    else
        fe_note_est(r);
    return r;
}

int __wrap_fe_end(fe_t *fe, mfcc_t **buf, int nframes)
{
    int r;
    ovf_before_end = fe->num_overflow_samps;
    r = __real_fe_end(fe, buf, nframes);
    fe_note(nframes, r, 0);
    return r;
}

static uint64_t hash_feat(acmod_t *acmod, int idx)
{
    feat_t *fcb = acmod->fcb;
    uint64_t h = 1469598103934665603ULL;
    int i, n1 = feat_dimension1(fcb);
    for (i = 0; i < n1; i++) {
        int len = feat_dimension2(fcb, i), j;
        const unsigned char *p = (const unsigned char *)acmod->feat_buf[idx][i];
        for (j = 0; j < (int)(len * sizeof(mfcc_t)); j++) {
            h ^= p[j];
            h *= 1099511628211ULL;
        }
    }
    return h;
}

int16 const *__wrap_acmod_score(acmod_t *acmod, int *inout_frame_idx)
{
    /* the arithmetic of calc_frame_idx / calc_feat_idx, to name the vector that is about to be read */
    int frame_idx = inout_frame_idx == NULL ? acmod->output_frame
        : (*inout_frame_idx < 0 ? acmod->output_frame + 1 + *inout_frame_idx : *inout_frame_idx);
    int idx = -1;
    uint64_t h = 0;
    if (acmod->n_feat_alloc > 0) {
        idx = (acmod->feat_outidx + frame_idx - acmod->output_frame) % acmod->n_feat_alloc;
        if (idx < 0)
            idx += acmod->n_feat_alloc;
        h = hash_feat(acmod, idx);
    }
    if (sclen + 64 < sizeof(sclog))
        sclen += sprintf(sclog + sclen, "%s%c%d:%d:%016llx", sclen ? "," : "", in_align ? 'a' : 's',
                         frame_idx, idx, (unsigned long long)h);
    {
        /* digest of the senone scores every first-pass step receives (active senones only): the scorer must give the
         * first pass the same scores whatever else has been asked of it in between */
        int16 const *scr = __real_acmod_score(acmod, inout_frame_idx);
        if (!in_align && scr) {
            uint64_t sh = 1469598103934665603ULL;
            int i, sen = 0;
            for (i = 0; i < acmod->n_senone_active; i++) {
                sen += acmod->senone_active[i];
                sh ^= (uint64_t)(uint16_t)scr[sen] + ((uint64_t)sen << 16);
                sh *= 1099511628211ULL;
            }
            utt_sen_hash ^= sh + (uint64_t)frame_idx;
            utt_sen_hash *= 1099511628211ULL;
        }
        return scr;
    }
}

/* ---------------------------------------------------------------- state */
static decoder_t *dec;
static int16 *audio16;
static float32 *audio32;
static size_t naudio, clip_off, clip_len, clip_pos;

static void print_st(void)
{
    acmod_t *a = dec->acmod;
    printf(" | st=%d nmfc=%d mfco=%d nfeat=%d fo=%d of=%d alloc=%d grow=%d bp=%d cp=%d malloc=%d nfrm=%d\n",
           (int)a->state, a->n_mfc_frame, a->mfc_outidx, a->n_feat_frame, a->feat_outidx,
           (int)a->output_frame, a->n_feat_alloc, (int)a->grow_feat, a->fcb->bufpos, a->fcb->curpos,
           a->n_mfc_alloc, (int)dec->n_frame);
    fflush(stdout);
}

static void print_logs(void)
{
    printf(" fe=%s sc=%s", felen ? felog : "-", sclen ? sclog : "-");
}

static void hexs(const char *s)
{
    if (s == NULL) { printf("~"); return; }
    if (!*s) { printf("-"); return; }
    vf_print_hex(stdout, (const unsigned char *)s, strlen(s));
}

/* does the current (partial or final) segmentation contain a dictionary word?  decoder_alignment
 * on a result without one is D27 (C09/C14), not part of this property */
static int has_word(void)
{
    seg_iter_t *seg;
    int found = 0;
    for (seg = decoder_seg_iter(dec); seg; seg = seg_iter_next(seg))
        if (dict_wordid(dec->dict, seg_iter_word(seg)) != BAD_S3WID)
            found = 1;
    return found;
}

static void print_segs(void)
{
    seg_iter_t *seg;
    int first = 1;
    printf(" segs=");
    for (seg = decoder_seg_iter(dec); seg; seg = seg_iter_next(seg)) {
        int sf, ef;
        int32 post, ascr, lscr;
        seg_iter_frames(seg, &sf, &ef);
        post = seg_iter_prob(seg, &ascr, &lscr);
        if (!first) printf(",");
        first = 0;
        hexs(seg_iter_word(seg));
        printf(":%d:%d:%d:%d:%d", sf, ef, (int)post, (int)ascr, (int)lscr);
    }
    if (first) printf("-");
}

static void print_align(alignment_t *al)
{
    int lvl;
    if (al == NULL) { printf(" align=null"); return; }
    printf(" align=%d/%d/%d", alignment_n_words(al), alignment_n_phones(al), alignment_n_states(al));
    for (lvl = 0; lvl < 3; lvl++) {
        alignment_iter_t *it = lvl == 0 ? alignment_words(al) : lvl == 1 ? alignment_phones(al) : alignment_states(al);
        printf(";");
        for (; it; it = alignment_iter_next(it)) {
            alignment_entry_t *e = alignment_iter_get(it);
            int start, dur, score;
            score = alignment_iter_seg(it, &start, &dur);
            printf("%s:%d:%d:%d:%d,", alignment_iter_name(it), start, dur, score, (int)e->score);
        }
    }
}

static void print_result(void)
{
    int32 score = 0;
    const char *hyp;
    acmod_t *a = dec->acmod;
    uint64_t fh = 1469598103934665603ULL;
    int i, nbuf;
    log_reset();
    hyp = decoder_hyp(dec, &score);
    printf("res hyp=");
    hexs(hyp);
    printf(" score=%d nfr=%d", hyp ? (int)score : 0, decoder_n_frames(dec));
    print_segs();
    if (hyp && has_word()) {
        in_align = 1;
        print_align(decoder_alignment(dec));
        in_align = 0;
    } else
        printf(" align=none");
    /* every feature vector of the utterance is still in feat_buf when it never wrapped */
    nbuf = a->output_frame + a->n_feat_frame;
    if (a->feat_outidx == a->output_frame && nbuf <= a->n_feat_alloc) {
        for (i = 0; i < nbuf; i++) {
            fh ^= hash_feat(a, i);
            fh *= 1099511628211ULL;
        }
        printf(" feats=%d:%016llx", nbuf, (unsigned long long)fh);
    } else
        printf(" feats=wrapped");
    printf(" cmnframes=%d senscr=%016llx", (int)a->fcb->cmn_struct->nframe, (unsigned long long)utt_sen_hash);
    printf(" alsc=%s", sclen ? sclog : "-");
    print_st();
}

static int probe_d9(void)
{
    /* does a single front-end call longer than 32767 samples abort (stale assert, D9 / C06)? */
    pid_t pid = fork();
    int status = 0;
    if (pid == 0) {
        config_t *config = config_init(NULL);
        fe_t *fe;
        size_t n = 40000;
        int16 *buf = (int16 *)calloc(n, sizeof(int16)), *p = buf;
        mfcc_t **cep;
        int i;
        fclose(stderr);
        fe = fe_init(config);
        cep = (mfcc_t **)calloc(300, sizeof(*cep));
        for (i = 0; i < 300; i++) cep[i] = (mfcc_t *)calloc(64, sizeof(mfcc_t));
        fe_start(fe);
        __real_fe_process_int16(fe, &p, &n, cep, 10);
        _exit(0);
    }
    waitpid(pid, &status, 0);
    return !(WIFEXITED(status) && WEXITSTATUS(status) == 0);
}

int main(void)
{
    static char line[1 << 16];
    char *w[64];
    err_set_loglevel(ERR_FATAL);
    while (fgets(line, sizeof(line), stdin)) {
        int n = vf_words(line, w, 64);
        if (n == 0)
            continue;
        if (!strcmp(w[0], "probe-d9")) {
            printf("probe-d9 %d\n", probe_d9());
            fflush(stdout);
        } else if (!strcmp(w[0], "dec") && n >= 2) {
            config_t *config = config_init(NULL);
            int i;
            if (dec) { decoder_free(dec); dec = NULL; }
            config_set_str(config, "loglevel", "FATAL");
            config_set_str(config, "hmm", w[1]);
            for (i = 2; i < n; i++) {
                char *eq = strchr(w[i], '=');
                if (eq) { *eq = 0; config_set_str(config, w[i], eq + 1); }
            }
            dec = decoder_init(config);
            if (dec == NULL) { printf("dec fail\n"); fflush(stdout); continue; }
            printf("dec ok win=%d nmfc=%d nfeat=%d grow=%d livebuf=%d fsize=%d fshift=%d cmnwin=%d cmnhwm=%d\n",
                   feat_window_size(dec->acmod->fcb), dec->acmod->n_mfc_alloc, dec->acmod->n_feat_alloc,
                   (int)dec->acmod->grow_feat, LIVEBUFBLOCKSIZE, (int)dec->acmod->fe->frame_size,
                   (int)dec->acmod->fe->frame_shift, CMN_WIN, CMN_WIN_HWM);
            fflush(stdout);
        } else if (!strcmp(w[0], "audio") && n == 2) {
            FILE *f = fopen(w[1], "rb");
            size_t i;
            if (!f) { printf("audio fail\n"); fflush(stdout); continue; }
            fseek(f, 0, SEEK_END);
            naudio = ftell(f) / 2;
            fseek(f, 0, SEEK_SET);
            free(audio16); free(audio32);
            audio16 = (int16 *)malloc(naudio * 2 + 2);
            audio32 = (float32 *)malloc(naudio * 4 + 4);
            if (fread(audio16, 2, naudio, f) != naudio) { printf("audio short\n"); }
            fclose(f);
            for (i = 0; i < naudio; i++) audio32[i] = (float32)audio16[i] / 32768.0f;
            printf("audio %zu\n", naudio);
            fflush(stdout);
        } else if (!strcmp(w[0], "utt") && n == 4) {
            int rv;
            clip_off = strtoul(w[1], NULL, 10);
            clip_len = strtoul(w[2], NULL, 10);
            if (clip_off > naudio) clip_off = naudio;
            if (clip_off + clip_len > naudio) clip_len = naudio - clip_off;
            clip_pos = 0;
            log_reset();
            if (strcmp(w[3], "-"))
                decoder_set_cmn(dec, w[3]);
            utt_sen_hash = 1469598103934665603ULL;
            rv = decoder_start_utt(dec);
            printf("utt rv=%d cmnframes=%d", rv, (int)dec->acmod->fcb->cmn_struct->nframe);
            print_st();
        } else if (!strcmp(w[0], "p") && (n == 4 || n == 5)) {
            size_t k = strtoul(w[2], NULL, 10);
            int nosearch = atoi(w[3]), rv, full = (n == 5 && !strcmp(w[4], "full"));
            if (clip_pos + k > clip_len) k = clip_len - clip_pos;
            log_reset();
            /* a private copy of exactly the samples passed, so that ASan sees any read beyond them
             * and so that in-place modification of the input cannot leak into later chunks */
            if (w[1][0] == 'f') {
                float32 *b = (float32 *)malloc(k * 4 + 4);
                memcpy(b, audio32 + clip_off + clip_pos, k * 4);
                rv = decoder_process_float32(dec, b, k, nosearch, full);
                free(b);
            } else {
                int16 *b = (int16 *)malloc(k * 2 + 2);
                memcpy(b, audio16 + clip_off + clip_pos, k * 2);
                rv = decoder_process_int16(dec, b, k, nosearch, full);
                free(b);
            }
            clip_pos += k;
            printf("p rv=%d", rv);
            print_logs();
            print_st();
        } else if (!strcmp(w[0], "q") && n == 2) {
            log_reset();
            printf("q");
            if (!strcmp(w[1], "hyp")) {
                int32 score = 0;
                const char *hyp = decoder_hyp(dec, &score);
                printf(" hyp=");
                hexs(hyp);
                printf(":%d", hyp ? (int)score : 0);
            } else if (!strcmp(w[1], "seg")) {
                print_segs();
            } else if (!strcmp(w[1], "align")) {
                if (has_word()) {
                    alignment_t *al;
                    in_align = 1;
                    al = decoder_alignment(dec);
                    in_align = 0;
                    printf(" al=%d", al ? alignment_n_words(al) : -1);
                } else
                    printf(" al=skip");
            } else if (!strcmp(w[1], "ralign")) {
                /* decoder_alignment whatever the state of the search: when there is no hypothesis yet (or only null
                 * transitions) the request is REFUSED (NULL) -- a refused query is a query all the same, it must
                 * leave the utterance as it was (al=-1 = refused) */
                alignment_t *al;
                in_align = 1;
                al = decoder_alignment(dec);
                in_align = 0;
                printf(" al=%d", al ? alignment_n_words(al) : -1);
            }
            print_logs();
            print_st();
        } else if (!strcmp(w[0], "end")) {
            int rv;
            log_reset();
            ovf_before_end = -1;
            rv = decoder_end_utt(dec);
            printf("end rv=%d ovf=%d fsz=%d", rv, ovf_before_end, (int)dec->acmod->fe->frame_size);
            print_logs();
            print_st();
        } else if (!strcmp(w[0], "res")) {
            print_result();
        } else {
            printf("bad-op\n");
            fflush(stdout);
        }
    }
    if (dec) decoder_free(dec);
    free(audio16); free(audio32);
    return 0;
}
