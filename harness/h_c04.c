/* C04 harness: forced alignment (decoder_alignment) on the real code.
 *
 * usage: h_c04 <hmmdir>            cases on stdin, one directive per line:
 *   case <id>
 *   cfg <key> <value>              decoder configuration (decoder is re-created when the set changes)
 *   text <hex>                     decoder_set_align_text(<text>)
 *   jsgf <hex>                     decoder_set_jsgf_string(<grammar>)
 *   audio <path> <skip_bytes> <start_sample> <n_samples>      (int16 mono)
 *   mode stream|full|nosearch|nogrow
 *   chunk <n_samples>
 *   chunkseq <SIZE>x<COUNT> ...    runs of chunk sizes used first (COUNT calls of SIZE samples each), then `chunk`
 *   utt <path> <skip_bytes> <start_sample> <n_samples>   a further utterance decoded on the SAME decoder after the
 *                                  first one WITHOUT setting the text/grammar again; alignment requested (tag u<k>final)
 *   partial <k> ...                request an alignment after chunk k (0-based) of the streaming modes
 *   early 1                        also request an alignment right after decoder_start_utt
 *   preend 1                       also request an alignment after the last audio and before decoder_end_utt (tag preend;
 *                                  u<k>preend in the further utterances)
 *   json <level>:<start> ...       after every alignment request also call decoder_result_json(d, start, level) for each
 *                                  pair (start = C99 hex float, passed to the library bit for bit)
 *   regram <kind> <hex> [<hex2>]   (D130) after the final request of the last utterance call a grammar-setting function /
 *                                  add_word(update) WITHOUT decoder_start_utt and request again (see do_regram)
 *   run
 *
 * At start the harness prints the acoustic-model tables the Lean model needs (MODEL .. ENDMODEL).
 * For every alignment request it prints one block `REQ <case> <tag> ... ENDREQ`:
 *   FP   first-pass segmentation (decoder_seg_iter) incl. non-dictionary segments
 *   D/LD/LR/IN/RS   dictionary pronunciations and the dict2pid context tables of the words involved
 *   A    result of decoder_alignment (null | ok), REUSE = result of calling it a second time
 *   OFA  acmod->output_frame right after that first decoder_alignment call
 *   X    per phone: the senones it must have in its context by DIRECT model-definition lookup
 *        (bin_mdef_phone_id_nearest + pid2ssid + sseq; not through dict2pid) = input expSen of alignOKB
 *   W/P/S   the alignment through the flat iterators (alignment_words/phones/states + iter_seg + iter_name)
 *   CW/CP   the alignment through alignment_iter_children (index lists)
 *   SF/EF   the window arrays of the search, FINAL and TOK = the token stack (state_align_search.h)
 *   J    <level> <start %a> <mantissa> <exponent> <frate> <hex of the returned line | null>: what
 *        decoder_result_json(d, start, level) returned; start = mantissa * 2^exponent exactly
 *   SEN  (when `cfg` has senscr=1 .. not a decoder option, see `dumpsen`) per-frame senone scores of a hand-stepped
 *        second pass (same calls as decoder_alignment's loop) and MFINAL/MTOK = its token stack
 *   ROFF/RSEN/RFINAL/RTOK  (directive `renormprobe <score>`) the same hand-stepped pass started with the entry score
 *        <score> (close to the renormalisation threshold) instead of 0: exercises renormalize_hmms
 *   DCUT/DSEN/DFINAL/DTOK/DFIN  (directive `deadprobe <k>`) the same hand-stepped pass stopped after
 *        Td = sf[last phone] + k frames (k = 1: exit state never evaluated, 2: evaluated but dead, 3..: usually alive),
 *        its token stack, and the return value of state_align_search_finish on it: the dead-final-state theorem
 *        (C04_dead_final_no_alignment) on the real search
 */
#include "common.h"
#include <math.h>
#include <soundswallower/acmod.h>
#include <soundswallower/alignment.h>
#include <soundswallower/bin_mdef.h>
#include <soundswallower/configuration.h>
#include <soundswallower/decoder.h>
#include <soundswallower/dict.h>
#include <soundswallower/dict2pid.h>
#include <soundswallower/err.h>
#include <soundswallower/fsg_search.h>
#include <soundswallower/hmm.h>
#include <soundswallower/search_module.h>
#include <soundswallower/state_align_search.h>
#include <soundswallower/tmat.h>

#define MAXCFG 32
static const char *hmmdir;
static decoder_t *d;
static char cfgk[MAXCFG][64], cfgv[MAXCFG][128];
static int ncfg;
static char curcfg[4096] = "\x01";
static char caseid[64] = "?";
static int16 *audio;
static size_t naudio;
static char *gtext;
static int gkind; /* 0 none 1 text 2 jsgf */
static char mode[32] = "stream";
static long chunk = 4096;
static long chunkseq[64][2]; /* (size, count) runs; after the last run `chunk` is used */
static int nchunkseq;
static struct { char path[512]; long skip, start, n; } utts[8];
static int nutts;
static int partials[256], npartial, early, dumpsen, tmatskip, preend;
static char addw[16][2][256];
static int naddw;
static int jlev[32], njson;
static long renormprobe;
static int deadprobe;
static double jstart[32];
static uint8 *tp_saved;

static void out_flush(void) { fflush(stdout); }

static int load_audio(const char *path, long skip, long start, long n)
{
    FILE *f = fopen(path, "rb");
    long got;
    if (!f) return -1;
    free(audio);
    audio = (int16 *)calloc((size_t)n + 1, sizeof(int16));
    fseek(f, skip + start * 2, SEEK_SET);
    got = (long)fread(audio, 2, (size_t)n, f);
    fclose(f);
    naudio = got < 0 ? 0 : (size_t)got;
    return 0;
}

static void make_noise(uint64_t seed, long n, int amp)
{
    long i;
    free(audio);
    audio = (int16 *)calloc((size_t)n + 1, sizeof(int16));
    for (i = 0; i < n; i++) {
        int64_t v = 0;
        int k;
        for (k = 0; k < 4; k++) v += (int64_t)(vf_rand(&seed) % (uint64_t)(2 * amp + 1)) - amp;
        audio[i] = (int16)(v / 2);
    }
    naudio = (size_t)n;
}

/* probe outside the NoSkip hypothesis: give every transition matrix skip transitions 0->2 and 1->exit */
static void tmat_skip(int on)
{
    tmat_t *t = d->acmod->tmat;
    int i, n = t->n_state, sz = t->n_tmat * n * (n + 1);
    uint8 *flat = &t->tp[0][0][0];
    if (n < 3) return;
    if (on) {
        if (!tp_saved) { tp_saved = (uint8 *)malloc((size_t)sz); memcpy(tp_saved, flat, (size_t)sz); }
        for (i = 0; i < t->n_tmat; i++) { t->tp[i][0][2] = (uint8)on; t->tp[i][1][3] = (uint8)on; }
    } else if (tp_saved) {
        memcpy(flat, tp_saved, (size_t)sz);
        free(tp_saved);
        tp_saved = NULL;
    }
}

static void print_tpx(void)
{
    tmat_t *t = d->acmod->tmat;
    int i, j, k;
    for (i = 0; i < t->n_tmat; i++) {
        printf("TPX %d", i);
        for (j = 0; j < t->n_state; j++)
            for (k = 0; k <= t->n_state; k++) printf(" %d", t->tp[i][j][k]);
        printf("\n");
    }
}

static void print_model(void)
{
    bin_mdef_t *m = d->acmod->mdef;
    tmat_t *t = d->acmod->tmat;
    int i, j, k, n = bin_mdef_n_emit_state(m);
    printf("MODEL %d %d %d %d %d %d\n", bin_mdef_n_ciphone(m), n, bin_mdef_n_sseq(m), bin_mdef_n_sen(m),
           t->n_tmat, bin_mdef_silphone(m));
    for (i = 0; i < bin_mdef_n_ciphone(m); i++)
        printf("CI %d %s %d\n", i, bin_mdef_ciphone_str(m, i), bin_mdef_pid2tmatid(m, i));
    for (i = 0; i < bin_mdef_n_sseq(m); i++) {
        printf("SQ %d", i);
        for (j = 0; j < n; j++) printf(" %d", bin_mdef_sseq2sen(m, i, j));
        printf("\n");
    }
    printf("SC");
    for (i = 0; i < bin_mdef_n_sen(m); i++) printf(" %d", bin_mdef_sen2cimap(m, i));
    printf("\n");
    for (i = 0; i < t->n_tmat; i++) {
        printf("TP %d", i);
        for (j = 0; j < t->n_state; j++)
            for (k = 0; k <= t->n_state; k++) printf(" %d", t->tp[i][j][k]);
        printf("\n");
    }
    printf("ENDMODEL\n");
    out_flush();
}

static int ensure_decoder(void)
{
    char key[4096];
    size_t o = 0;
    int i;
    config_t *c;
    key[0] = 0;
    for (i = 0; i < ncfg; i++) o += (size_t)snprintf(key + o, sizeof(key) - o, "%s=%s;", cfgk[i], cfgv[i]);
    if (d && !strcmp(key, curcfg)) return 0;
    if (d) { decoder_free(d); d = NULL; }
    c = config_init(NULL);
    config_set_str(c, "hmm", hmmdir);
    config_set_str(c, "loglevel", "FATAL");
    for (i = 0; i < ncfg; i++)
        if (config_set_str(c, cfgk[i], cfgv[i]) == NULL) { printf("error bad-config %s\n", cfgk[i]); return -1; }
    d = decoder_init(c);
    if (!d) { printf("error decoder-init\n"); return -1; }
    strcpy(curcfg, key);
    return 0;
}

/* distinct word ids */
static int32 wids[4096];
static int nwids;
static void add_wid(int32 w)
{
    int i;
    if (w < 0) return;
    for (i = 0; i < nwids; i++) if (wids[i] == w) return;
    if (nwids < 4096) wids[nwids++] = w;
}

static void print_dict_tables(void)
{
    dict_t *dict = d->dict;
    dict2pid_t *d2p = d->d2p;
    bin_mdef_t *m = d->acmod->mdef;
    int nci = bin_mdef_n_ciphone(m), i, j, l, r;
    for (i = 0; i < nwids; i++) {
        int32 w = wids[i];
        int len = dict_pronlen(dict, w);
        printf("D %d %s %d %d %d", w, dict_wordstr(dict, w), dict_basewid(dict, w), dict_filler_word(dict, w) ? 1 : 0, len);
        for (j = 0; j < len; j++) printf(" %d", dict_pron(dict, w, j));
        printf("\n");
        if (len == 1) {
            int b = dict_first_phone(dict, w);
            printf("LR %d", w);
            for (l = 0; l < nci; l++)
                for (r = 0; r < nci; r++) printf(" %d", (int)dict2pid_lrdiph_rc(d2p, b, l, r));
            printf("\n");
        } else if (len >= 2) {
            int b = dict_first_phone(dict, w), s = dict_second_phone(dict, w);
            xwdssid_t *rs = dict2pid_rssid(d2p, dict_last_phone(dict, w), dict_second_last_phone(dict, w));
            printf("LD %d", w);
            for (l = 0; l < nci; l++) printf(" %d", (int)dict2pid_ldiph_lc(d2p, b, s, l));
            printf("\n");
            printf("IN %d", w);
            for (j = 1; j < len - 1; j++) printf(" %d", (int)dict2pid_internal(d2p, w, j));
            printf("\n");
            printf("RS %d", w);
            for (r = 0; r < nci; r++)
                printf(" %d", (rs->ssid && rs->cimap) ? (int)rs->ssid[rs->cimap[r]] : -1);
            printf("\n");
        }
    }
}

static void print_level(alignment_t *al, char tag, alignment_iter_t *it, alignment_vector_t *vec)
{
    int n = 0;
    for (; it; it = alignment_iter_next(it), n++) {
        alignment_entry_t *e = alignment_iter_get(it);
        int start = -7, dur = -7, score;
        const char *nm = alignment_iter_name(it);
        long idx = (long)(e - vec->seq);
        score = alignment_iter_seg(it, &start, &dur);
        if (tag == 'W')
            printf("W %ld %d %s %d %d %d %d %d\n", idx, e->id.wid, nm ? nm : "(null)", start, dur, score, e->parent, e->child);
        else if (tag == 'P')
            printf("P %ld %d %s %d %d %d %d %d %d %d\n", idx, e->id.pid.cipid, nm ? nm : "(null)", start, dur, score,
                   e->parent, e->child, (int)e->id.pid.ssid, e->id.pid.tmatid);
        else
            printf("S %ld %d %s %d %d %d %d\n", idx, (int)e->id.senid, nm ? nm : "(null)", start, dur, score, e->parent);
    }
    (void)al;
}

/* the emitting states every phone must have in its context, looked up directly in the model definition
 * (bin_mdef_phone_id_nearest + pid2ssid + sseq), NOT through the dict2pid tables the library used:
 * left context = previous phone of the utterance (SIL at the start), right context = next phone (SIL at the end),
 * word position from the phone's place in its word */
static void print_expected_states(alignment_t *al)
{
    bin_mdef_t *m = d->acmod->mdef;
    int np = alignment_n_phones(al), i, j, sil = bin_mdef_silphone(m), n = bin_mdef_n_emit_state(m);
    for (i = 0; i < np; i++) {
        alignment_entry_t *e = al->sseq.seq + i;
        int ci = e->id.pid.cipid;
        int lc = i > 0 ? al->sseq.seq[i - 1].id.pid.cipid : sil;
        int rc = i + 1 < np ? al->sseq.seq[i + 1].id.pid.cipid : sil;
        int first = (i == 0) || al->sseq.seq[i - 1].parent != e->parent;
        int last = (i + 1 == np) || al->sseq.seq[i + 1].parent != e->parent;
        word_posn_t pos = first && last ? WORD_POSN_SINGLE : first ? WORD_POSN_BEGIN : last ? WORD_POSN_END : WORD_POSN_INTERNAL;
        int pid = bin_mdef_phone_id_nearest(m, ci, lc, rc, pos);
        int ssid = pid >= 0 ? bin_mdef_pid2ssid(m, pid) : -1;
        printf("X %d %d %d %d %d %d", i, ci, lc, rc, (int)pos, ssid);
        for (j = 0; j < n; j++) printf(" %d", ssid >= 0 ? (int)bin_mdef_sseq2sen(m, ssid, j) : -1);
        printf("\n");
    }
}

static void print_children(alignment_t *al)
{
    alignment_iter_t *w, *p, *s;
    for (w = alignment_words(al); w; w = alignment_iter_next(w)) {
        long wi = (long)(alignment_iter_get(w) - al->word.seq);
        printf("CW %ld", wi);
        for (p = alignment_iter_children(w); p; p = alignment_iter_next(p))
            printf(" %ld", (long)(alignment_iter_get(p) - al->sseq.seq));
        printf("\n");
        for (p = alignment_iter_children(w); p; p = alignment_iter_next(p)) {
            long pi = (long)(alignment_iter_get(p) - al->sseq.seq);
            printf("CP %ld", pi);
            for (s = alignment_iter_children(p); s; s = alignment_iter_next(s))
                printf(" %ld", (long)(alignment_iter_get(s) - al->state.seq));
            printf("\n");
        }
    }
}

static void print_tokens(const char *tag, state_align_search_t *sas)
{
    int f, k;
    hmm_t *fin = sas->hmms + sas->n_phones - 1;
    printf("%sFINAL %d %d %d\n", tag, hmm_out_history(fin), hmm_out_score(fin), (int)sas->frame);
    for (f = 0; f < sas->frame && f < sas->n_fr_alloc; f++) {
        state_align_hist_t *row = sas->tokens + (size_t)f * sas->n_emit_state;
        printf("%sTOK %d", tag, f);
        for (k = 0; k < sas->n_emit_state; k++)
            if (row[k].id != -1 || row[k].score != -1) printf(" %d:%d:%d", k, row[k].id, row[k].score);
        printf("\n");
    }
}

/* hand-stepped second pass: the same calls as the loop of decoder_alignment, on a fresh alignment built from
 * the same first-pass words, recording the senone scores every state saw */
static void manual_second_pass(alignment_t *ref, const char *pfx, int32 in_score, int cut)
{
    alignment_t *al = alignment_init(d->d2p);
    alignment_iter_t *it;
    search_module_t *sm;
    state_align_search_t *sas;
    frame_idx_t outfr = d->acmod->output_frame;
    int i, k, ok = 1;
    /* the first-pass boundaries were overwritten in `ref` by propagate; take them from the search windows */
    state_align_search_t *rs = (state_align_search_t *)d->align;
    for (it = alignment_words(ref); it; it = alignment_iter_next(it)) {
        alignment_entry_t *e = alignment_iter_get(it);
        int ph = e->child;
        int sf = rs->sf[ph], ef = rs->ef[ph];
        alignment_add_word(al, e->id.wid, sf, ef - sf);
    }
    if (alignment_populate(al) < 0) { printf("%sSEN error populate\n", pfx[0] == 'M' ? "" : pfx); alignment_free(al); return; }
    sm = state_align_search_init("_verif_align", d->config, d->acmod, al);
    if (!sm) { printf("%sSEN error init\n", pfx[0] == 'M' ? "" : pfx); alignment_free(al); return; }
    sas = (state_align_search_t *)sm;
    if (acmod_rewind(d->acmod) < 0) { printf("%sSEN error rewind\n", pfx[0] == 'M' ? "" : pfx); search_module_free(sm); return; }
    search_module_start(sm);
    /* renormalisation probe: the same pass started from a score close to the renormalisation threshold
     * (best_score - 0x300000 WORSE_THAN WORST_SCORE), so that renormalize_hmms runs after a few dozen frames */
    if (in_score != 0) { hmm_in_score(&sas->hmms[0]) = in_score; printf("%sOFF %d\n", pfx, (int)in_score); }
    while (d->acmod->output_frame < outfr) {
        int fr = d->acmod->output_frame;
        int16 const *sen;
        unsigned char *act;
        if (fr >= rs->frame || (cut >= 0 && fr >= cut)) { acmod_advance(d->acmod); continue; } /* as many frames as decoder_alignment stepped */
        /* which HMMs the step evaluates: only their senones are requested from the scorer (the step clears the
         * active set first), the entries of all other senones are leftovers the search never reads: dumped as 0 */
        act = (unsigned char *)calloc((size_t)sas->n_phones + 1, 1);
        for (i = 0; i < sas->n_phones; i++) act[i] = hmm_frame(&sas->hmms[i]) >= fr;
        if (search_module_step(sm, fr) < 0) { ok = 0; free(act); break; }
        sen = d->acmod->senone_scores;
        printf("%sSEN %d", pfx[0] == 'M' ? "" : pfx, fr);
        for (i = 0; i < sas->n_phones; i++)
            for (k = 0; k < sas->hmmctx->n_emit_state; k++)
                printf(" %d", act[i] ? (int)sen[sas->hmms[i].senid[k]] : 0);
        printf("\n");
        free(act);
        acmod_advance(d->acmod);
    }
    printf("%sSENEND %d\n", pfx[0] == 'M' ? "" : pfx, ok);
    print_tokens(pfx, sas);
    if (cut >= 0) printf("DFIN %d %d\n", cut, search_module_finish(sm) < 0 ? -1 : 0);
    search_module_free(sm);
}


/* synthetic backtrace: populate an alignment for the given words, write a generated token stack into a fresh
 * state_align_search_t and call its finish function (state_align_search_finish + alignment_propagate).
 * kind: 0 monotone path without skips, 1 path with skipped states, 2 arbitrary in-range ids, 3 a dead (-1) token on
 * the path, 4 final id -1.  Ids are always in range or -1 (an id outside the array is an out-of-bounds read in the
 * C code, excluded from the quantifier). */
static void synth(const char *id, uint64_t seed, int kind, int T, int nw, char **wspec)
{
    alignment_t *al;
    search_module_t *sm;
    state_align_search_t *sas;
    hmm_t *fin;
    int i, f, S, start = 0, rv, *path;
    if (ensure_decoder() < 0) return;
    al = alignment_init(d->d2p);
    nwids = 0;
    printf("REQ %s synth %d %d %d\n", id, T, kind, nw);
    for (i = 0; i < nw; i++) {
        char *colon = strchr(wspec[i], ':');
        size_t len;
        int dur, wid;
        char *w;
        if (!colon) continue;
        *colon = 0;
        dur = atoi(colon + 1);
        w = (char *)vf_parse_hex(wspec[i], &len);
        wid = dict_wordid(d->dict, w);
        if (wid < 0) { printf("error unknown-word %s\nENDREQ\n", w); free(w); alignment_free(al); return; }
        alignment_add_word(al, wid, start, dur);
        printf("FP %d %s %d %d 0 0\n", wid, w, start, start + dur - 1);
        add_wid(wid);
        start += dur;
        free(w);
    }
    print_dict_tables();
    if (alignment_populate(al) < 0) { printf("A null\nENDREQ\n"); alignment_free(al); return; }
    sm = state_align_search_init("_synth", d->config, d->acmod, al);
    sas = (state_align_search_t *)sm;
    S = sas->n_emit_state;
    sas->n_fr_alloc = T + 1;
    sas->tokens = ckd_realloc(sas->tokens, (size_t)S * sas->n_fr_alloc * sizeof(*sas->tokens));
    memset(sas->tokens, 0xff, (size_t)S * sas->n_fr_alloc * sizeof(*sas->tokens));
    sas->frame = T;
    /* state path q[0..T-1] */
    path = (int *)calloc((size_t)T + 2, sizeof(int));
    if (kind == 2) {
        for (f = 0; f < T; f++) path[f] = (int)(vf_rand(&seed) % (uint64_t)S);
    } else {
        /* spread S states (or fewer, with skips) over T frames */
        int k = 0;
        for (f = 0; f < T; f++) {
            int left_f = T - 1 - f, left_s = S - 1 - k;
            path[f] = k;
            if (left_s > 0) {
                int must = left_s >= left_f;            /* must advance to reach S-1 in time */
                int adv = must || (vf_rand(&seed) % (uint64_t)(left_f + 1)) < (uint64_t)left_s;
                if (adv) {
                    k += 1;
                    if (kind == 1 && left_s > 1 && vf_rand(&seed) % 3 == 0) k += 1;
                    if (must && left_s > left_f && k < S - 1 - (left_f - 1)) k = S - 1 - (left_f - 1);
                }
            }
        }
        if (T > 0 && vf_rand(&seed) % 8 != 0) path[T - 1] = S - 1;
    }
    {
        int32 cum = 0;
        int dead = (kind == 3 && T > 1) ? (int)(vf_rand(&seed) % (uint64_t)(T - 1)) : -1;
        for (f = 0; f + 1 < T; f++) {
            state_align_hist_t *row = sas->tokens + (size_t)f * S;
            int k;
            cum -= (int32)(vf_rand(&seed) % 400);
            /* off-path tokens: some garbage in range */
            for (k = 0; k < S; k++)
                if (vf_rand(&seed) % 4 == 0) {
                    row[k].id = (int32)(vf_rand(&seed) % (uint64_t)S);
                    row[k].score = cum - (int32)(vf_rand(&seed) % 1000);
                }
            row[path[f + 1]].id = (f == dead) ? -1 : path[f];
            row[path[f + 1]].score = cum;
        }
        fin = sas->hmms + sas->n_phones - 1;
        cum -= (int32)(vf_rand(&seed) % 400);
        hmm_out_history(fin) = (kind == 4 || T == 0) ? -1 : path[T - 1];
        hmm_out_score(fin) = cum;
    }
    free(path);
    rv = search_module_finish(sm);
    if (rv < 0) {
        printf("A null\n");
    } else {
        printf("A ok %d %d %d\n", alignment_n_words(al), alignment_n_phones(al), alignment_n_states(al));
        print_level(al, 'W', alignment_words(al), &al->word);
        print_level(al, 'P', alignment_phones(al), &al->sseq);
        print_level(al, 'S', alignment_states(al), &al->state);
    }
    printf("NSTATES %d\n", S);
    printf("SF");
    for (i = 0; i < sas->n_phones; i++) printf(" %d", sas->sf[i]);
    printf("\nEF");
    for (i = 0; i < sas->n_phones; i++) printf(" %d", sas->ef[i]);
    printf("\n");
    print_tokens("", sas);
    printf("ENDREQ\n");
    out_flush();
    search_module_free(sm);
}

/* the JSON observation point of the hierarchy: decoder_result_json(d, start, level) for every requested pair.
 * Called last in a request: decoder_result_json calls decoder_alignment itself, which may rebuild (and free) the
 * alignment object dumped above. */
/* D130 family (directive `regram <kind> <hex> [<hex2>]`, up to 8): after the final request of the last utterance, WITHOUT a
 * decoder_start_utt, call decoder_set_align_text (kind text) / decoder_set_jsgf_string (jsgf) / decoder_set_fsg on a
 * linear word graph built here (fsg) / decoder_add_word(word, phones, update = 1) (addword); then request an alignment
 * again: tag [u<k>]r<i>swapped when the call was accepted (the search was replaced or re-initialised), [u<k>]r<i>refused
 * when it returned an error (nothing may have changed).  The block gets a line
 *   RG <kind> <rv> <hyp 0/1> <seg 0/1>     return value, decoder_hyp != NULL, decoder_seg_iter != NULL after the call */
static struct { char kind[16]; char *arg, *arg2; } regram[8];
static int nregram;
static char rgline[128];

static int do_regram(int k)
{
    int rv = -1;
    if (!strcmp(regram[k].kind, "text")) rv = decoder_set_align_text(d, regram[k].arg);
    else if (!strcmp(regram[k].kind, "jsgf")) rv = decoder_set_jsgf_string(d, regram[k].arg);
    else if (!strcmp(regram[k].kind, "addword"))
        rv = decoder_add_word(d, regram[k].arg, regram[k].arg2 ? regram[k].arg2 : "", 1) >= 0 ? 0 : -1;
    else if (!strcmp(regram[k].kind, "fsg")) {
        char *buf = strdup(regram[k].arg), *tok, *save = NULL, *ws[64];
        int nw = 0, i;
        fsg_model_t *fsg;
        for (tok = strtok_r(buf, " ", &save); tok && nw < 64; tok = strtok_r(NULL, " ", &save)) ws[nw++] = tok;
        fsg = fsg_model_init("regram", d->lmath, config_float(d->config, "lw"), nw + 1);
        for (i = 0; i < nw; i++) fsg_model_trans_add(fsg, i, i + 1, 0, fsg_model_word_add(fsg, ws[i]));
        fsg->start_state = 0;
        fsg->final_state = nw;
        rv = decoder_set_fsg(d, fsg); /* consumes fsg, also when it fails */
        free(buf);
    }
    return rv;
}

static void json_calls(void)
{
    int i;
    int frate = config_int(decoder_config(d), "frate");
    for (i = 0; i < njson; i++) {
        int e = 0;
        double m = frexp(jstart[i], &e);
        long long mi = (long long)ldexp(m, 53);
        const char *js = decoder_result_json(d, jstart[i], jlev[i]);
        printf("J %d %a %lld %d %d ", jlev[i], jstart[i], mi, e - 53, frate);
        if (js == NULL) printf("null\n");
        else {
            const unsigned char *c;
            for (c = (const unsigned char *)js; *c; ++c) printf("%02x", *c);
            printf("\n");
        }
        out_flush();
    }
}

static void request(const char *tag)
{
    seg_iter_t *seg;
    alignment_t *al, *al2;
    state_align_search_t *sas;
    int i;
    printf("REQ %s %s %d %d %d\n", caseid, tag, (int)d->acmod->output_frame, (int)d->acmod->n_feat_alloc,
           (int)d->acmod->grow_feat);
    if (tmatskip) print_tpx();
    if (rgline[0]) { printf("%s\n", rgline); rgline[0] = 0; }
    out_flush();
    nwids = 0;
    for (seg = decoder_seg_iter(d); seg; seg = seg_iter_next(seg)) {
        int sf, ef;
        int32 ascr = 0, lscr = 0;
        const char *w = seg_iter_word(seg);
        int32 wid = w ? dict_wordid(d->dict, w) : -1;
        seg_iter_frames(seg, &sf, &ef);
        seg_iter_prob(seg, &ascr, &lscr);
        printf("FP %d %s %d %d %d %d\n", wid, w ? w : "(nullptr)", sf, ef, ascr, lscr);
        add_wid(wid);
    }
    if (d->search && !strcmp(search_module_type(d->search), PS_SEARCH_TYPE_FSG)) {
        fsg_search_t *fs = (fsg_search_t *)d->search;
        printf("SRCH %d %d %d %d\n", fs->wip, fs->pip, (int)fs->bestpath, (int)fs->final);
    }
    out_flush();
    al = decoder_alignment(d);
    /* where the request left the acoustic front end: a request — answered or refused — hands the first pass back at the
     * frame it was made at (wrapper model: Dec.outFrame after Wrap.request; C04_wrapper_refused_request_is_noop) */
    printf("OFA %d\n", (int)d->acmod->output_frame);
    if (al)
        for (i = 0; i < al->word.n_ent; i++) add_wid(al->word.seq[i].id.wid);
    print_dict_tables();
    if (al == NULL) {
        printf("A null\n");
        out_flush();
        al2 = decoder_alignment(d);
        printf("REUSE %s\n", al2 == NULL ? "null" : "nonnull-after-null");
        if (al2 == NULL) { json_calls(); printf("ENDREQ\n"); out_flush(); return; }
        /* a second call handed out an alignment although the first one failed: dump it */
        al = al2;
    } else {
        printf("A ok %d %d %d\n", alignment_n_words(al), alignment_n_phones(al), alignment_n_states(al));
        out_flush();
        al2 = decoder_alignment(d);
        printf("REUSE %s\n", al2 == al ? "same" : (al2 ? "different" : "null"));
        if (al2 && al2 != al) al = al2;
    }
    print_level(al, 'W', alignment_words(al), &al->word);
    print_level(al, 'P', alignment_phones(al), &al->sseq);
    print_expected_states(al);
    print_level(al, 'S', alignment_states(al), &al->state);
    print_children(al);
    sas = (state_align_search_t *)d->align;
    if (sas && sas->al == al) {
        printf("NSTATES %d\n", sas->n_emit_state);
        printf("SF");
        for (i = 0; i < sas->n_phones; i++) printf(" %d", sas->sf[i]);
        printf("\nEF");
        for (i = 0; i < sas->n_phones; i++) printf(" %d", sas->ef[i]);
        printf("\n");
        print_tokens("", sas);
        if (dumpsen) manual_second_pass(al, "M", 0, -1);
        if (dumpsen && renormprobe) manual_second_pass(al, "R", (int32)renormprobe, -1);
        if (dumpsen && deadprobe) {
            int cut = sas->sf[sas->n_phones - 1] + deadprobe;
            if (cut > sas->frame) cut = sas->frame;
            if (cut < 0) cut = 0;
            printf("DCUT %d\n", cut);
            manual_second_pass(al, "D", 0, cut);
        }
    }
    json_calls();
    printf("ENDREQ\n");
    out_flush();
}

static void run_case(void)
{
    int i, rv;
    if (ensure_decoder() < 0) { printf("ENDCASE %s\n", caseid); out_flush(); return; }
    for (i = 0; i < naddw; i++)
        if (dict_wordid(d->dict, addw[i][0]) < 0 && decoder_add_word(d, addw[i][0], addw[i][1], 1) < 0)
            printf("error add-word %s\n", addw[i][0]);
    if (tmatskip) tmat_skip(tmatskip);
    if (gkind == 1) rv = decoder_set_align_text(d, gtext);
    else if (gkind == 2) rv = decoder_set_jsgf_string(d, gtext);
    else rv = -1;
    printf("CASE %s grammar=%d mode=%s nsamp=%ld\n", caseid, rv, mode, (long)naudio);
    out_flush();
    if (rv < 0) { if (tmatskip) tmat_skip(0); printf("ENDCASE %s\n", caseid); out_flush(); return; }
    acmod_set_grow(d->acmod, strcmp(mode, "nogrow") != 0);
    {
        int u;
        for (u = 0; u <= nutts; u++) {
            char tag[32];
            size_t upos = 0;
            int uk = 0, run = 0;
            long left = nchunkseq ? chunkseq[0][1] : 0;
            if (u > 0) {
                /* a further utterance on the same decoder WITHOUT setting the text/grammar again */
                if (load_audio(utts[u - 1].path, utts[u - 1].skip, utts[u - 1].start, utts[u - 1].n) < 0) {
                    printf("error audio %s\n", utts[u - 1].path);
                    break;
                }
            }
            if (decoder_start_utt(d) < 0) { printf("error start-utt\n"); break; }
            if (early && u == 0) request("early");
            if (!strcmp(mode, "full")) {
                decoder_process_int16(d, audio, naudio, 0, 1);
            } else {
                int nosearch = !strcmp(mode, "nosearch");
                while (upos < naudio) {
                    size_t want = (size_t)chunk, n;
                    while (run < nchunkseq && left <= 0) { run++; left = run < nchunkseq ? chunkseq[run][1] : 0; }
                    if (run < nchunkseq) { want = (size_t)chunkseq[run][0]; left--; }
                    n = naudio - upos < want ? naudio - upos : want;
                    decoder_process_int16(d, audio + upos, n, nosearch, 0);
                    upos += n;
                    if (u == 0)
                        for (i = 0; i < npartial; i++)
                            if (partials[i] == uk) {
                                snprintf(tag, sizeof(tag), "p%d", uk);
                                request(tag);
                            }
                    uk++;
                }
            }
            /* all audio processed, utterance not yet ended; also in the further utterances (an aligner left over
             * from the previous utterance must not answer: with full_utt the frame count equals the previous total) */
            if (preend) {
                if (u == 0) snprintf(tag, sizeof(tag), "preend");
                else snprintf(tag, sizeof(tag), "u%dpreend", u);
                request(tag);
            }
            decoder_end_utt(d);
            if (u == 0) snprintf(tag, sizeof(tag), "final");
            else snprintf(tag, sizeof(tag), "u%dfinal", u);
            request(tag);
            if (u == nutts) {
                int k;
                for (k = 0; k < nregram; k++) {
                    int rg = do_regram(k);
                    seg_iter_t *sg = decoder_seg_iter(d);
                    snprintf(rgline, sizeof(rgline), "RG %s %d %d %d", regram[k].kind, rg,
                             decoder_hyp(d, NULL) != NULL, sg != NULL);
                    if (sg) seg_iter_free(sg);
                    if (u == 0) snprintf(tag, sizeof(tag), "r%d%s", k, rg == 0 ? "swapped" : "refused");
                    else snprintf(tag, sizeof(tag), "u%dr%d%s", u, k, rg == 0 ? "swapped" : "refused");
                    request(tag);
                }
            }
        }
    }
    if (tmatskip) tmat_skip(0);
    printf("ENDCASE %s\n", caseid);
    out_flush();
}

int main(int argc, char **argv)
{
    static char line[1 << 20];
    char *w[300];
    if (argc < 2) { fprintf(stderr, "usage: h_c04 <hmmdir>\n"); return 2; }
    hmmdir = argv[1];
    err_set_loglevel(ERR_FATAL);
    if (ensure_decoder() < 0) return 3;
    print_model();
    while (fgets(line, sizeof(line), stdin)) {
        int n = vf_words(line, w, 300), i;
        size_t len;
        if (n == 0) continue;
        if (!strcmp(w[0], "case") && n >= 2) {
            snprintf(caseid, sizeof(caseid), "%s", w[1]);
            ncfg = 0; npartial = 0; early = 0; dumpsen = 0; gkind = 0; tmatskip = 0; naddw = 0; preend = 0; njson = 0; renormprobe = 0; deadprobe = 0;
            strcpy(mode, "stream"); chunk = 4096; nchunkseq = 0; nutts = 0;
            while (nregram > 0) { nregram--; free(regram[nregram].arg); free(regram[nregram].arg2); regram[nregram].arg2 = NULL; }
        } else if (!strcmp(w[0], "cfg") && n == 3 && ncfg < MAXCFG) {
            snprintf(cfgk[ncfg], 64, "%s", w[1]);
            snprintf(cfgv[ncfg], 128, "%s", w[2]);
            ncfg++;
        } else if ((!strcmp(w[0], "text") || !strcmp(w[0], "jsgf")) && n == 2) {
            free(gtext);
            gtext = (char *)vf_parse_hex(w[1], &len);
            gkind = w[0][0] == 't' ? 1 : 2;
        } else if (!strcmp(w[0], "audio") && n == 5) {
            if (load_audio(w[1], atol(w[2]), atol(w[3]), atol(w[4])) < 0) printf("error audio %s\n", w[1]);
        } else if (!strcmp(w[0], "noise") && n == 4) {
            make_noise((uint64_t)strtoull(w[1], NULL, 10), atol(w[2]), atoi(w[3]));
        } else if (!strcmp(w[0], "tmatskip") && n == 2) {
            tmatskip = atoi(w[1]);
        } else if (!strcmp(w[0], "addword") && n == 3 && naddw < 16) {
            unsigned char *a = vf_parse_hex(w[1], &len), *b = vf_parse_hex(w[2], &len);
            snprintf(addw[naddw][0], 256, "%s", (char *)a);
            snprintf(addw[naddw][1], 256, "%s", (char *)b);
            naddw++;
            free(a); free(b);
        } else if (!strcmp(w[0], "regram") && (n == 3 || n == 4) && nregram < 8) {
            snprintf(regram[nregram].kind, sizeof(regram[nregram].kind), "%s", w[1]);
            regram[nregram].arg = (char *)vf_parse_hex(w[2], &len);
            regram[nregram].arg2 = n == 4 ? (char *)vf_parse_hex(w[3], &len) : NULL;
            nregram++;
        } else if (!strcmp(w[0], "mode") && n == 2) {
            snprintf(mode, sizeof(mode), "%s", w[1]);
        } else if (!strcmp(w[0], "chunkseq")) {
            /* runs "SIZExCOUNT": COUNT chunks of SIZE samples, in order; then `chunk` */
            for (i = 1; i < n && nchunkseq < 64; i++) {
                char *x = strchr(w[i], 'x');
                chunkseq[nchunkseq][0] = atol(w[i]);
                chunkseq[nchunkseq][1] = x ? atol(x + 1) : 1;
                if (chunkseq[nchunkseq][0] < 1) chunkseq[nchunkseq][0] = 1;
                nchunkseq++;
            }
        } else if (!strcmp(w[0], "utt") && n == 5 && nutts < 8) {
            snprintf(utts[nutts].path, sizeof(utts[nutts].path), "%s", w[1]);
            utts[nutts].skip = atol(w[2]); utts[nutts].start = atol(w[3]); utts[nutts].n = atol(w[4]);
            nutts++;
        } else if (!strcmp(w[0], "chunk") && n == 2) {
            chunk = atol(w[1]);
            if (chunk < 1) chunk = 1;
        } else if (!strcmp(w[0], "partial")) {
            for (i = 1; i < n && npartial < 256; i++) partials[npartial++] = atoi(w[i]);
        } else if (!strcmp(w[0], "json")) {
            for (i = 1; i < n && njson < 32; i++) {
                char *x = strchr(w[i], ':');
                if (!x) continue;
                jlev[njson] = atoi(w[i]);
                jstart[njson] = strtod(x + 1, NULL);
                njson++;
            }
        } else if (!strcmp(w[0], "early") && n == 2) {
            early = atoi(w[1]);
        } else if (!strcmp(w[0], "preend") && n == 2) {
            preend = atoi(w[1]);
        } else if (!strcmp(w[0], "dumpsen") && n == 2) {
            dumpsen = atoi(w[1]);
        } else if (!strcmp(w[0], "renormprobe") && n == 2) {
            renormprobe = atol(w[1]);
        } else if (!strcmp(w[0], "deadprobe") && n == 2) {
            deadprobe = atoi(w[1]);
        } else if (!strcmp(w[0], "synth") && n >= 6) {
            synth(w[1], (uint64_t)strtoull(w[2], NULL, 10), atoi(w[3]), atoi(w[4]), n - 5, w + 5);
        } else if (!strcmp(w[0], "run")) {
            run_case();
        } else {
            printf("bad-directive %s\n", w[0]);
        }
        out_flush();
    }
    if (d) decoder_free(d);
    free(audio);
    free(gtext);
    return 0;
}
