/* C02 harness: decodes (grammar, audio excerpt) cases on the real fsg_search and dumps everything the
 * flat-network model needs to recompute the Viterbi optimum independently:
 *   the search FSG (after silence/filler/alternate arcs were added), the pronunciations, the
 *   triphone -> senone-sequence map taken straight from bin_mdef_phone_id_nearest + pid2ssid (NOT the
 *   dict2pid tables, NOT the lextree), senone sequences, transition matrices, wip/pip/beams as the search
 *   holds them, the per-frame senone scores acmod_score() returned, and the score decoder_hyp() reports.
 *
 * usage: h_c02 <hmmdir> <dictfile>          cases on stdin:
 *   case <id>
 *   cfg <key> <value>                (config_set_str on the decoder's config before the grammar is set)
 *   fsg <n_state> <start> <final>
 *   t <from> <to> <prob> [word]      (FSG text transition; no word = null transition)
 *   audio file <path> <start_sample> <n_samples> | audio noise <seed> <n_samples> <amplitude>
 *   probe <frame>                    (ask decoder_hyp() for a partial result after that frame; -1 = after the last frame,
 *                                     before the search is finished: result queries must not change the final result)
 *   pre file <path> <start_sample> <n_samples> | pre noise <seed> <n_samples> <amplitude> | pre empty
 *                                    (history family: an EARLIER utterance decoded on the same decoder and the same search object,
 *                                     after the grammar was set and before the judged utterance, through the public calls
 *                                     decoder_start_utt / decoder_process_int16 / decoder_end_utt / decoder_hyp; `empty` = start_utt
 *                                     directly followed by end_utt; up to MAXPRE, in the order given)
 *   run
 * Output per case: dump lines, closed by "end <id>".  Flushes after every line group. */
#include "common.h"
#include <soundswallower/acmod.h>
#include <soundswallower/bin_mdef.h>
#include <soundswallower/configuration.h>
#include <soundswallower/decoder.h>
#include <soundswallower/dict.h>
#include <soundswallower/err.h>
#include <soundswallower/fsg_model.h>
#include <soundswallower/fsg_lextree.h>
#include <soundswallower/fsg_search.h>
#include <soundswallower/hmm.h>
#include <soundswallower/s3file.h>
#include <soundswallower/search_module.h>
#include <soundswallower/tmat.h>

#define MAXT 4096
typedef struct { int from, to; char prob[40]; char word[128]; } tr_t;

static decoder_t *d;
static tr_t tr[MAXT];
static int ntr, nstate, sstart, sfinal;
static int16 *audio;
static size_t naudio;
static char caseid[64];
#define MAXPROBE 8
static int probes[MAXPROBE], nprobe;
static int detail_frame = -99;
/* earlier utterances on the same search object (history family) */
#define MAXPRE 4
typedef struct { int kind; char path[512]; long start, n; uint64_t seed; int amp; } pre_t;   /* kind 0 file, 1 noise, 2 empty */
static pre_t pre[MAXPRE];
static int npre;   /* `detail <t>`: also print the full state behind the fingerprint of frame t (YD lines) */

static void probe_hyp(int t)
{
    int32 sc = 0x7fffffff;
    const char *hyp = decoder_hyp(d, &sc);
    char *h = strdup(hyp ? hyp : ""), *p;
    for (p = h; *p; p++) if (*p == ' ') *p = '_';
    if (sc != 0x7fffffff) printf("PH %d %d %s\n", t, sc, *h ? h : "-");
    else printf("PH %d none -\n", t);
    free(h);
}

static void die(const char *m) { printf("error %s\nend %s\n", m, caseid); fflush(stdout); }

static int load_audio_file(const char *path, long start, long n)
{
    FILE *f = fopen(path, "rb");
    long got;
    if (!f) return -1;
    free(audio);
    audio = (int16 *)calloc((size_t)n + 1, sizeof(int16));
    fseek(f, start * 2, SEEK_SET);
    got = (long)fread(audio, 2, (size_t)n, f);
    fclose(f);
    naudio = (size_t)got;
    return 0;
}

static void make_noise(uint64_t seed, long n, int amp)
{
    long i;
    free(audio);
    audio = (int16 *)calloc((size_t)n + 1, sizeof(int16));
    for (i = 0; i < n; i++) {
        /* sum of 4 uniforms: roughly gaussian, never all-zero */
        int64_t s = 0; int k;
        for (k = 0; k < 4; k++) s += (int64_t)(vf_rand(&seed) % (uint64_t)(2 * amp + 1)) - amp;
        audio[i] = (int16)(s / 2);
    }
    naudio = (size_t)n;
}

/* set of ints with membership array */
typedef struct { int *v; int n; unsigned char *in; int cap; } iset_t;
static void iset_init(iset_t *s, int cap) { s->v = calloc(cap, sizeof(int)); s->in = calloc(cap, 1); s->n = 0; s->cap = cap; }
static void iset_add(iset_t *s, int x) { if (x >= 0 && x < s->cap && !s->in[x]) { s->in[x] = 1; s->v[s->n++] = x; } }
static void iset_free(iset_t *s) { free(s->v); free(s->in); }

static void emit_ssid(bin_mdef_t *m, iset_t *ssids, int ci, int lc, int rc, int wpos)
{
    int pid = bin_mdef_phone_id_nearest(m, ci, lc, rc, (word_posn_t)wpos);
    int ssid = bin_mdef_pid2ssid(m, pid);
    printf("S %d %d %d %d %d\n", ci, lc, rc, wpos, ssid);
    iset_add(ssids, ssid);
    /* close6-c02: the check no longer trusts the ssid above (it recomputes the back-off with the Lean model `nearest` from the
     * dumped cd_tree and feeds THAT to the optimum oracle), so the senone sequences of every triphone the back-off rule could
     * land on must be in the dump: exact look-ups at every word position, with and without silence contexts (Q / N lines) */
    {
        int sil = bin_mdef_silphone(m), t, a, b2;
        for (a = 0; a < 2; a++) for (b2 = 0; b2 < 2; b2++) for (t = 0; t < N_WORD_POSN; t++) {
            int l2 = a && sil >= 0 ? sil : lc, r2 = b2 && sil >= 0 ? sil : rc;
            int p2 = bin_mdef_phone_id(m, ci, l2, r2, (word_posn_t)t);
            if (p2 >= 0) iset_add(ssids, bin_mdef_pid2ssid(m, p2));
        }
    }
}

/* close6-c02: `absent` — every (b, l, r) over non-filler phones whose triphone the model definition has at NO word position
 * (exact bin_mdef_phone_id look-ups only): the boundary contexts where the back-off rule decides the senone sequence */
static void dump_absent(void)
{
    bin_mdef_t *m = d->acmod->mdef;
    int nci = bin_mdef_n_ciphone(m), b, l, r, t;
    for (b = 0; b < nci; b++) for (l = 0; l < nci; l++) {
        printf("AB %d %d", b, l);
        for (r = 0; r < nci; r++) {
            int any = 0;
            for (t = 0; t < N_WORD_POSN; t++) if (bin_mdef_phone_id(m, b, l, r, (word_posn_t)t) >= 0) any = 1;
            if (!any) printf(" %d", r);
        }
        printf("\n");
    }
    printf("PHONES %d", bin_mdef_silphone(m));
    for (b = 0; b < nci; b++) printf(" %s:%d", bin_mdef_ciphone_str(m, b), bin_mdef_is_fillerphone(m, b) ? 1 : 0);
    printf("\nabsent done\n");
}

/* the lextree the search really uses: every pnode (XN), the root chain of every state (XR), the child chain
 * of every non-leaf node (XC).  Node ids are positions in the per-state allocation lists. */
static fsg_link_t *links[MAXT];
static int nlinks;
#define MAXPN 65536
static fsg_pnode_t *pn[MAXPN];
static int npn;
static int pn_id(fsg_pnode_t *p)
{
    int i;
    for (i = 0; i < npn; i++) if (pn[i] == p) return i;
    return -1;
}
static void dump_lextree(fsg_lextree_t *lt, fsg_model_t *fsg)
{
    int s, i, k;
    fsg_pnode_t *p;
    npn = 0;
    for (s = 0; s < fsg_model_n_state(fsg); s++)
        for (p = lt->alloc_head[s]; p && npn < MAXPN; p = p->alloc_next) pn[npn++] = p;
    for (i = 0; i < npn; i++) {
        int arc = -1, all = 1, first = 1, r, st = -1;
        p = pn[i];
        if (p->leaf) for (k = 0; k < nlinks; k++) if (links[k] == p->next.fsglink) arc = k;
        for (k = 0; k < FSG_PNODE_CTXT_BVSZ; k++) if (p->ctxt.bv[k] != 0xffffffffu) all = 0;
        printf("XN %d %d %d %d %d %d %d %d ", i, (int)hmm_nonmpx_ssid(&p->hmm), (int)p->hmm.tmatid, p->logs2prob,
               (int)p->ci_ext, (int)p->ppos, (int)p->leaf, arc);
        (void)st;
        if (all) printf("ALL");
        else {
            for (r = 0; r < 32 * FSG_PNODE_CTXT_BVSZ; r++)
                if (p->ctxt.bv[r >> 5] & (1u << (r & 31))) { printf("%s%d", first ? "" : ",", r); first = 0; }
            if (first) printf("-");
        }
        printf("\n");
    }
    for (s = 0; s < fsg_model_n_state(fsg); s++) {
        if (!fsg_lextree_root(lt, s)) continue;
        printf("XR %d", s);
        for (p = fsg_lextree_root(lt, s); p; p = p->sibling) printf(" %d", pn_id(p));
        printf("\n");
    }
    for (i = 0; i < npn; i++) {
        if (pn[i]->leaf) continue;
        printf("XC %d", i);
        for (p = pn[i]->next.succ; p; p = p->sibling) printf(" %d", pn_id(p));
        printf("\n");
    }
}


/* per-frame fingerprint of the search state for the token-passing tie (tools/props/c02.py, driver c02s):
 *   Y <t> <bestscore> <#active HMMs> <hash of the active HMMs' state and exit scores>
 *     <hash of the word-exit entries made in this frame> <hash of the null-arc entries made in this frame>
 * Entry hashes are canonical: per (destination state, lc, right-context phone r < nci) the best score among
 * the entries of that kind whose rc set contains r (independent of the order in which equal scores arrived). */
#define HM 2147483629ULL
static uint64_t nrm(long long x) { long long m = x % (long long)HM; if (m < 0) m += (long long)HM; return (uint64_t)m; }
static uint64_t mix(const long long *xs, int n)
{
    uint64_t h = 7; int i;
    for (i = 0; i < n; i++) h = (h * 1000003ULL + nrm(xs[i])) % HM;
    return h;
}
static void dump_Y(fsg_search_t *fsgs, int t, int from, int nci)
{
    int i, n = fsg_history_n_entries(fsgs->history), nact = 0;
    uint64_t hh = 0, eh[2] = { 0, 0 };
    for (i = 0; i < npn; i++) {
        hmm_t *h = &pn[i]->hmm;
        if (hmm_frame(h) == fsgs->frame) {
            long long xs[5];
            xs[0] = i; xs[1] = hmm_score(h, 0); xs[2] = hmm_score(h, 1); xs[3] = hmm_score(h, 2); xs[4] = hmm_out_score(h);
            hh = (hh + mix(xs, 5)) % HM;
            nact++;
        }
    }
    for (i = from; i < n; i++) {
        fsg_hist_entry_t *e = fsg_history_entry_get(fsgs->history, i);
        fsg_link_t *l = fsg_hist_entry_fsglink(e);
        int r, kind;
        if (!l) continue;
        kind = fsg_link_wid(l) < 0;
        for (r = 0; r < nci; r++) {
            int j, win = 1;
            if (!(e->rc.bv[r >> 5] & (1u << (r & 31)))) continue;
            for (j = from; j < n && win; j++) {
                fsg_hist_entry_t *e2 = fsg_history_entry_get(fsgs->history, j);
                fsg_link_t *l2 = fsg_hist_entry_fsglink(e2);
                if (j == i || !l2 || (fsg_link_wid(l2) < 0) != kind) continue;
                if (fsg_link_to_state(l2) != fsg_link_to_state(l) || e2->lc != e->lc) continue;
                if (!(e2->rc.bv[r >> 5] & (1u << (r & 31)))) continue;
                if (e2->score > e->score || (e2->score == e->score && j < i)) win = 0;
            }
            if (win) {
                long long xs[4];
                xs[0] = fsg_link_to_state(l); xs[1] = e->lc; xs[2] = r; xs[3] = e->score;
                eh[kind] = (eh[kind] + mix(xs, 4)) % HM;
            }
        }
    }
    printf("Y %d %d %d %llu %llu %llu\n", t, (int)fsgs->bestscore, nact, (unsigned long long)hh,
           (unsigned long long)eh[0], (unsigned long long)eh[1]);
    if (t == detail_frame) {
        for (i = 0; i < npn; i++) {
            hmm_t *h = &pn[i]->hmm;
            if (hmm_frame(h) == fsgs->frame)
                printf("YD H %d %d %d %d %d\n", i, hmm_score(h, 0), hmm_score(h, 1), hmm_score(h, 2), hmm_out_score(h));
        }
        for (i = from; i < n; i++) {
            fsg_hist_entry_t *e = fsg_history_entry_get(fsgs->history, i);
            fsg_link_t *l = fsg_hist_entry_fsglink(e);
            int r, first = 1;
            if (!l) continue;
            printf("YD E %d %d %d %d ", fsg_link_wid(l) < 0, fsg_link_to_state(l), e->lc, e->score);
            for (r = 0; r < nci; r++)
                if (e->rc.bv[r >> 5] & (1u << (r & 31))) { printf("%s%d", first ? "" : ",", r); first = 0; }
            printf("%s\n", first ? "-" : "");
        }
        printf("YDEND %d\n", t);
    }
}

/* number of pnodes of the current lextree whose HMM is not in the state hmm_clear() leaves (every score WORST_SCORE, entry
 * back-pointer -1, frame stamp -1): what fsg_search_start assumes of every HMM it does not enter */
static int count_dirty(void)
{
    int i, k, dirty = 0;
    for (i = 0; i < npn; i++) {
        hmm_t *h = &pn[i]->hmm;
        int bad = hmm_in_score(h) != WORST_SCORE || hmm_out_score(h) != WORST_SCORE || hmm_frame(h) != -1
                  || hmm_in_history(h) != -1;
        for (k = 1; k < hmm_n_emit_state(h); k++) if (hmm_score(h, k) != WORST_SCORE) bad = 1;
        dirty += bad;
    }
    return dirty;
}

/* one earlier utterance, through the public interface; prints
 *   PRE <index> <frames searched> <score|none> <hyp|-> <pnodes left not cleared> <active lists left non-empty 0/1> */
static void run_pre(int idx)
{
    pre_t *q = &pre[idx];
    int16 *buf = NULL;
    long n = 0, i;
    int32 sc = 0x7fffffff;
    const char *hyp;
    char *h, *p;
    fsg_search_t *fsgs = (fsg_search_t *)d->search;
    if (q->kind == 0) {
        FILE *f = fopen(q->path, "rb");
        buf = (int16 *)calloc((size_t)q->n + 1, sizeof(int16));
        if (f) { fseek(f, q->start * 2, SEEK_SET); n = (long)fread(buf, 2, (size_t)q->n, f); fclose(f); }
    } else if (q->kind == 1) {
        uint64_t seed = q->seed;
        buf = (int16 *)calloc((size_t)q->n + 1, sizeof(int16));
        for (i = 0; i < q->n; i++) {
            int64_t s = 0; int k;
            for (k = 0; k < 4; k++) s += (int64_t)(vf_rand(&seed) % (uint64_t)(2 * q->amp + 1)) - q->amp;
            buf[i] = (int16)(s / 2);
        }
        n = q->n;
    }
    if (decoder_start_utt(d) < 0) { printf("error pre-start-utt\n"); free(buf); return; }
    if (q->kind != 2) decoder_process_int16(d, buf, (size_t)n, /*no_search*/ 0, /*full_utt*/ 1);
    if (decoder_end_utt(d) < 0) printf("error pre-end-utt\n");
    hyp = decoder_hyp(d, &sc);
    h = strdup(hyp ? hyp : "");
    for (p = h; *p; p++) if (*p == ' ') *p = '_';
    printf("PRE %d %d ", idx, (int)fsgs->frame);
    if (sc != 0x7fffffff) printf("%d", sc); else printf("none");
    printf(" %s %d %d\n", *h ? h : "-", count_dirty(), (fsgs->pnode_active || fsgs->pnode_active_next) ? 1 : 0);
    free(h);
    free(buf);
}

static void run_case(void)
{
    char *buf;
    size_t cap = 256 + (size_t)ntr * 256, o = 0;
    int i, k, w;
    s3file_t *s3;
    fsg_model_t *fsg;
    fsg_search_t *fsgs;
    acmod_t *acmod;
    bin_mdef_t *m;
    dict_t *dict;
    iset_t ctx, ssids, sens, cis, tmats;
    float32 lw;
    int T = 0, sil, nci;
    int32 score = 0;
    const char *hyp;

    buf = (char *)malloc(cap);
    o += sprintf(buf + o, "FSG_BEGIN %s\nNUM_STATES %d\nSTART_STATE %d\nFINAL_STATE %d\n", "g", nstate, sstart, sfinal);
    for (i = 0; i < ntr; i++)
        o += sprintf(buf + o, "TRANSITION %d %d %s %s\n", tr[i].from, tr[i].to, tr[i].prob, tr[i].word);
    o += sprintf(buf + o, "FSG_END\n");
    lw = (float32)config_float(d->config, "lw");
    s3 = s3file_init(buf, o);
    fsg = fsg_model_read_s3file(s3, d->lmath, lw);
    s3file_free(s3);
    if (fsg == NULL) { free(buf); die("fsg-parse"); return; }
    if (decoder_set_fsg(d, fsg) < 0) { free(buf); die("set-fsg"); return; }
    free(buf);

    fsgs = (fsg_search_t *)d->search;
    acmod = d->acmod;
    m = acmod->mdef;
    dict = d->dict;
    fsg = fsgs->fsg;
    sil = bin_mdef_silphone(m);
    nci = bin_mdef_n_ciphone(m);

    printf("K nci %d sil %d nsen %d nemit %d worst %d shift %d tmatworst %d\n", nci, sil, bin_mdef_n_sen(m),
           bin_mdef_n_emit_state(m), (int)WORST_SCORE, (int)SENSCR_SHIFT, (int)TMAT_WORST_SCORE);
    printf("P wip %d pip %d beam %d pbeam %d wbeam %d compallsen %d\n", fsgs->wip, fsgs->pip, fsgs->beam_orig,
           fsgs->pbeam_orig, fsgs->wbeam_orig, (int)acmod->compallsen);
    printf("G %d %d %d\n", fsg_model_n_state(fsg), fsg_model_start_state(fsg), fsg_model_final_state(fsg));
    nlinks = 0;
    for (i = 0; i < fsg_model_n_state(fsg); i++) {
        fsg_arciter_t *it;
        for (it = fsg_model_arcs(fsg, i); it; it = fsg_arciter_next(it)) {
            fsg_link_t *l = fsg_arciter_get(it);
            printf("A %d %d %d %d\n", l->from_state, l->to_state, l->logs2prob, l->wid);
            if (nlinks < MAXT) links[nlinks++] = l;
        }
    }
    dump_lextree(fsgs->lextree, fsg);
    /* words, candidate context phones */
    iset_init(&ctx, nci); iset_init(&cis, nci);
    iset_init(&ssids, bin_mdef_n_sseq(m)); iset_init(&sens, bin_mdef_n_sen(m)); iset_init(&tmats, acmod->tmat->n_tmat);
    iset_add(&ctx, sil);
    for (w = 0; w < fsg_model_n_word(fsg); w++) {
        int dw = dict_wordid(dict, fsg_model_word_str(fsg, w));
        int fil = fsg_model_is_filler(fsg, w), n;
        if (dw < 0) { printf("W %d %s -1 0 0 0\n", w, fsg_model_word_str(fsg, w)); continue; }
        n = dict_pronlen(dict, dw);
        printf("W %d %s %d %d %d %d", w, fsg_model_word_str(fsg, w), dw, fil ? 1 : 0, dict_filler_word(dict, dw) ? 1 : 0, n);
        for (k = 0; k < n; k++) { printf(" %d", dict_pron(dict, dw, k)); iset_add(&cis, dict_pron(dict, dw, k)); }
        printf("\n");
        if (!fil && n > 0) { iset_add(&ctx, dict_pron(dict, dw, 0)); iset_add(&ctx, dict_pron(dict, dw, n - 1)); }
    }
    for (i = 0; i < cis.n; i++) {
        int ci = cis.v[i];
        printf("C %d %s %d %d %d\n", ci, bin_mdef_ciphone_str(m, ci), bin_mdef_pid2ssid(m, ci), bin_mdef_pid2tmatid(m, ci),
               bin_mdef_is_fillerphone(m, ci) ? 1 : 0);
        iset_add(&ssids, bin_mdef_pid2ssid(m, ci));
        iset_add(&tmats, bin_mdef_pid2tmatid(m, ci));
    }
    /* triphone -> ssid, straight from the model definition */
    for (w = 0; w < fsg_model_n_word(fsg); w++) {
        int dw = dict_wordid(dict, fsg_model_word_str(fsg, w)), n;
        if (dw < 0) continue;
        n = dict_pronlen(dict, dw);
        if (n == 1) {
            for (i = 0; i < ctx.n; i++) emit_ssid(m, &ssids, dict_pron(dict, dw, 0), ctx.v[i], sil, WORD_POSN_SINGLE);
        } else if (n > 1) {
            for (i = 0; i < ctx.n; i++) emit_ssid(m, &ssids, dict_pron(dict, dw, 0), ctx.v[i], dict_pron(dict, dw, 1), WORD_POSN_BEGIN);
            for (k = 1; k < n - 1; k++)
                emit_ssid(m, &ssids, dict_pron(dict, dw, k), dict_pron(dict, dw, k - 1), dict_pron(dict, dw, k + 1), WORD_POSN_INTERNAL);
            for (i = 0; i < ctx.n; i++) emit_ssid(m, &ssids, dict_pron(dict, dw, n - 1), dict_pron(dict, dw, n - 2), ctx.v[i], WORD_POSN_END);
        }
    }
    for (i = 0; i < ssids.n; i++) {
        printf("Q %d", ssids.v[i]);
        for (k = 0; k < bin_mdef_n_emit_state(m); k++) {
            printf(" %d", bin_mdef_sseq2sen(m, ssids.v[i], k));
            iset_add(&sens, bin_mdef_sseq2sen(m, ssids.v[i], k));
        }
        printf("\n");
    }
    for (i = 0; i < tmats.n; i++) {
        int a, b, ns = acmod->tmat->n_state;
        printf("T %d", tmats.v[i]);
        for (a = 0; a < ns; a++) for (b = 0; b <= ns; b++) printf(" %d", (int)acmod->tmat->tp[tmats.v[i]][a][b]);
        printf("\n");
    }
    printf("N");
    for (i = 0; i < sens.n; i++) printf(" %d", sens.v[i]);
    printf("\n");
    fflush(stdout);

    /* history family: earlier utterances on this decoder and this search object */
    for (i = 0; i < npre; i++) run_pre(i);
    fflush(stdout);

    /* decode: buffer the features, then step the search by hand, recording the senone scores */
    if (decoder_start_utt(d) < 0) { die("start-utt"); goto done; }
    dump_Y(fsgs, -1, 0, nci);
    decoder_process_int16(d, audio, naudio, /*no_search*/ 1, /*full_utt*/ 1);
    acmod_end_utt(acmod);
    while (acmod->n_feat_frame > 0) {
        int fi = acmod->output_frame;
        int16 const *scr = acmod_score(acmod, &fi);
        int nprev = fsg_history_n_entries(fsgs->history);
        printf("F %d", T);
        for (i = 0; i < sens.n; i++) printf(" %d", (int)scr[sens.v[i]]);
        printf("\n");
        search_module_step(d->search, acmod->output_frame);
        dump_Y(fsgs, T, nprev, nci);
        for (k = 0; k < nprobe; k++) if (probes[k] == T) probe_hyp(T);
        acmod_advance(acmod);
        T++;
    }
    for (k = 0; k < nprobe; k++) if (probes[k] == -1) { probe_hyp(-1); break; }
    search_module_finish(d->search);
    printf("PZ %d %d\n", count_dirty(), (fsgs->pnode_active || fsgs->pnode_active_next) ? 1 : 0);
    /* decoder_hyp() returns NULL for a result that consists of fillers only but still sets the score:
     * a sentinel tells whether find_exit produced one */
    score = 0x7fffffff;
    hyp = decoder_hyp(d, &score);
    {
        seg_iter_t *seg;
        int lastef = -1;
        char *h = strdup(hyp ? hyp : ""), *p;
        for (p = h; *p; p++) if (*p == ' ') *p = '_';
        for (seg = decoder_seg_iter(d); seg; seg = seg_iter_next(seg)) {
            int sf, ef; int32 ascr, lscr;
            seg_iter_frames(seg, &sf, &ef);
            seg_iter_prob(seg, &ascr, &lscr);
            printf("H %s %d %d %d %d\n", seg_iter_word(seg), sf, ef, ascr, lscr);
            /* the frame the result really ends in is the frame of the history entry the score was taken
             * from, not what the iterator reports (it clamps the frame -1 null markers to frame 0);
             * bestpath is off, so this is the fsg_seg_t of fsg_search_seg_iter */
            {
                fsg_seg_t *fs = (fsg_seg_t *)seg;
                lastef = fsg_hist_entry_frame(fs->hist[fs->cur]);
            }
        }
        if (score != 0x7fffffff)
            printf("R %d %d %d %s\n", T, score, lastef, *h ? h : "-");
        else
            printf("R %d none -1 -\n", T);
        free(h);
    }
done:
    iset_free(&ctx); iset_free(&ssids); iset_free(&sens); iset_free(&cis); iset_free(&tmats);
    printf("end %s\n", caseid);
    fflush(stdout);
}

int main(int argc, char **argv)
{
    static char line[1 << 12];
    char *w[8];
    config_t *config;
    if (argc < 3) { fprintf(stderr, "usage: h_c02 hmmdir dict\n"); return 2; }
    err_set_loglevel(ERR_ERROR);
    config = config_init(NULL);
    config_set_str(config, "hmm", argv[1]);
    config_set_str(config, "dict", argv[2]);
    config_set_str(config, "loglevel", "ERROR");
    config_set_str(config, "compallsen", "yes");
    config_set_str(config, "maxhmmpf", "-1");
    config_set_str(config, "bestpath", "no");
    d = decoder_init(config);
    if (d == NULL) { fprintf(stderr, "decoder_init failed\n"); return 3; }
    while (fgets(line, sizeof(line), stdin)) {
        int n = vf_words(line, w, 8);
        if (n == 0) continue;
        if (!strcmp(w[0], "case") && n >= 2) {
            strncpy(caseid, w[1], sizeof(caseid) - 1);
            ntr = 0; nstate = 0; naudio = 0; nprobe = 0; detail_frame = -99; npre = 0;
            printf("case %s\n", caseid);
        } else if (!strcmp(w[0], "cfg") && n == 3) {
            if (config_set_str(d->config, w[1], w[2]) == NULL) printf("error cfg %s\n", w[1]);
        } else if (!strcmp(w[0], "fsg") && n == 4) {
            nstate = atoi(w[1]); sstart = atoi(w[2]); sfinal = atoi(w[3]);
        } else if (!strcmp(w[0], "t") && n >= 4 && ntr < MAXT) {
            tr[ntr].from = atoi(w[1]); tr[ntr].to = atoi(w[2]);
            strncpy(tr[ntr].prob, w[3], sizeof(tr[ntr].prob) - 1);
            tr[ntr].word[0] = 0;
            if (n >= 5) strncpy(tr[ntr].word, w[4], sizeof(tr[ntr].word) - 1);
            ntr++;
        } else if (!strcmp(w[0], "audio") && n == 5 && !strcmp(w[1], "file")) {
            if (load_audio_file(w[2], atol(w[3]), atol(w[4])) < 0) printf("error audio\n");
        } else if (!strcmp(w[0], "audio") && n == 5 && !strcmp(w[1], "noise")) {
            make_noise((uint64_t)strtoull(w[2], NULL, 10), atol(w[3]), atoi(w[4]));
        } else if (!strcmp(w[0], "pre") && n >= 2 && npre < MAXPRE) {
            pre_t *q = &pre[npre];
            memset(q, 0, sizeof(*q));
            if (!strcmp(w[1], "file") && n == 5) { q->kind = 0; strncpy(q->path, w[2], sizeof(q->path) - 1); q->start = atol(w[3]); q->n = atol(w[4]); npre++; }
            else if (!strcmp(w[1], "noise") && n == 5) { q->kind = 1; q->seed = (uint64_t)strtoull(w[2], NULL, 10); q->n = atol(w[3]); q->amp = atoi(w[4]); npre++; }
            else if (!strcmp(w[1], "empty") && n == 2) { q->kind = 2; npre++; }
            else printf("error bad-pre\n");
        } else if (!strcmp(w[0], "detail") && n == 2) {
            detail_frame = atoi(w[1]);
        } else if (!strcmp(w[0], "probe") && n == 2) {
            if (nprobe < MAXPROBE) probes[nprobe++] = atoi(w[1]);
        } else if (!strcmp(w[0], "absent")) {
            dump_absent();
        } else if (!strcmp(w[0], "addword") && n == 3) {
            /* close6-c02: a word added at run time through the public call (dict2pid_add_word path); phones joined by '_' */
            char *q;
            for (q = w[2]; *q; q++) if (*q == '_') *q = ' ';
            if (dict_wordid(d->dict, w[1]) < 0 && decoder_add_word(d, w[1], w[2], 1) < 0) printf("error addword %s\n", w[1]);
        } else if (!strcmp(w[0], "run")) {
            run_case();
        } else
            printf("error bad-line %s\n", w[0]);
        fflush(stdout);
    }
    decoder_free(d);
    free(audio);
    return 0;
}
