/* C02 unit correspondence harness: the real hmm_vit_eval (3-state, non-mpx) and the real
 * fsg_history_entry_add, one op per input line, one output line per op (same format as `ssdriver c02`).
 *   hmm <12 tp bytes> <3 senone scores> <in> <s1> <s2> <out>     -> hmm <in> <s1> <s2> <out> <best>
 *   hist <k> then k triples <score> <rc: comma separated phone ids or -> <tag>
 *                                                               -> hist <score>:<rc>:<tag> ... (list order) */
#include "common.h"
#include <soundswallower/bin_mdef.h>
#include <soundswallower/ckd_alloc.h>
#include <soundswallower/dict.h>
#include <soundswallower/fsg_history.h>
#include <soundswallower/fsg_lextree.h>
#include <soundswallower/fsg_model.h>
#include <soundswallower/hmm.h>

static void do_hmm(char **w)
{
    uint8 ***tp = (uint8 ***)ckd_calloc_3d(1, 3, 4, sizeof(uint8));
    uint16 **sseq = (uint16 **)ckd_calloc_2d(1, 3, sizeof(uint16));
    int16 senscr[3];
    hmm_context_t *ctx;
    hmm_t hmm;
    int i, best;
    for (i = 0; i < 12; i++) tp[0][i / 4][i % 4] = (uint8)atoi(w[1 + i]);
    for (i = 0; i < 3; i++) { senscr[i] = (int16)atoi(w[13 + i]); sseq[0][i] = (uint16)i; }
    ctx = hmm_context_init(3, tp, senscr, sseq);
    hmm_init(ctx, &hmm, FALSE, 0, 0);
    hmm_in_score(&hmm) = atoi(w[16]);
    hmm_score(&hmm, 1) = atoi(w[17]);
    hmm_score(&hmm, 2) = atoi(w[18]);
    hmm_out_score(&hmm) = atoi(w[19]);
    best = hmm_vit_eval(&hmm);
    printf("hmm %d %d %d %d %d\n", hmm_in_score(&hmm), hmm_score(&hmm, 1), hmm_score(&hmm, 2), hmm_out_score(&hmm), best);
    hmm_deinit(&hmm);
    hmm_context_free(ctx);
    ckd_free_3d(tp);
    ckd_free_2d(sseq);
}

/* hmm5 <30 tp bytes> <5 senone scores> <in> <s1> <s2> <s3> <s4> <out>  -> hmm5 <in> <s1>..<s4> <out> <best> */
static void do_hmm5(char **w)
{
    uint8 ***tp = (uint8 ***)ckd_calloc_3d(1, 5, 6, sizeof(uint8));
    uint16 **sseq = (uint16 **)ckd_calloc_2d(1, 5, sizeof(uint16));
    int16 senscr[5];
    hmm_context_t *ctx;
    hmm_t hmm;
    int i, best;
    for (i = 0; i < 30; i++) tp[0][i / 6][i % 6] = (uint8)atoi(w[1 + i]);
    for (i = 0; i < 5; i++) { senscr[i] = (int16)atoi(w[31 + i]); sseq[0][i] = (uint16)i; }
    ctx = hmm_context_init(5, tp, senscr, sseq);
    hmm_init(ctx, &hmm, FALSE, 0, 0);
    for (i = 0; i < 5; i++) hmm_score(&hmm, i) = atoi(w[36 + i]);
    hmm_out_score(&hmm) = atoi(w[41]);
    best = hmm_vit_eval(&hmm);
    printf("hmm5 %d %d %d %d %d %d %d\n", hmm_in_score(&hmm), hmm_score(&hmm, 1), hmm_score(&hmm, 2), hmm_score(&hmm, 3),
           hmm_score(&hmm, 4), hmm_out_score(&hmm), best);
    hmm_deinit(&hmm);
    hmm_context_free(ctx);
    ckd_free_3d(tp);
    ckd_free_2d(sseq);
}

/* fsg_history_entry_add() takes the right-context set by value; a refactoring that passes it by reference must not stop this
 * harness from compiling (the whole-utterance cases then judge the behaviour): dispatch on the declared type. */
typedef void (*add_val_t)(fsg_history_t *, fsg_link_t *, int32, int32, int32, int32, fsg_pnode_ctxt_t);
typedef void (*add_ptr_t)(fsg_history_t *, fsg_link_t *, int32, int32, int32, int32, fsg_pnode_ctxt_t *);
static void add_by_val(void (*f)(void), fsg_history_t *h, fsg_link_t *l, int32 fr, int32 sc, int32 pred, int32 lc, fsg_pnode_ctxt_t *rc)
{ ((add_val_t)f)(h, l, fr, sc, pred, lc, *rc); }
static void add_by_ptr(void (*f)(void), fsg_history_t *h, fsg_link_t *l, int32 fr, int32 sc, int32 pred, int32 lc, fsg_pnode_ctxt_t *rc)
{ ((add_ptr_t)f)(h, l, fr, sc, pred, lc, rc); }
#define ENTRY_ADD(h, l, fr, sc, pred, lc, rcp) \
    _Generic(&fsg_history_entry_add, add_ptr_t: add_by_ptr, default: add_by_val)((void (*)(void))fsg_history_entry_add, h, l, fr, sc, pred, lc, rcp)

static void do_hist(char **w, int n)
{
    static fsg_model_t fsg;
    static dict_t dict;
    static bin_mdef_t mdef;
    static fsg_link_t link;
    fsg_history_t *h;
    gnode_t *gn;
    int k = atoi(w[1]), i;
    memset(&fsg, 0, sizeof(fsg)); memset(&dict, 0, sizeof(dict)); memset(&mdef, 0, sizeof(mdef));
    fsg.n_state = 1; mdef.n_ciphone = 2; dict.mdef = &mdef;
    link.from_state = 0; link.to_state = 0; link.wid = 0; link.logs2prob = 0;
    h = fsg_history_init(&fsg, &dict);
    if (2 + 3 * k > n) { printf("bad-op\n"); return; }
    for (i = 0; i < k; i++) {
        fsg_pnode_ctxt_t rc;
        char *p = w[2 + 3 * i + 1];
        memset(&rc, 0, sizeof(rc));
        if (strcmp(p, "-")) {
            char *tok = strtok(p, ",");
            while (tok) { int r = atoi(tok); rc.bv[r >> 5] |= (1u << (r & 31)); tok = strtok(NULL, ","); }
        }
        ENTRY_ADD(h, &link, 0, atoi(w[2 + 3 * i]), atoi(w[2 + 3 * i + 2]), 0, &rc);
    }
    printf("hist");
    for (gn = h->frame_entries[0][0]; gn; gn = gnode_next(gn)) {
        fsg_hist_entry_t *e = (fsg_hist_entry_t *)gnode_ptr(gn);
        int r, first = 1;
        printf(" %d:", e->score);
        for (r = 0; r < 32 * FSG_PNODE_CTXT_BVSZ; r++)
            if (e->rc.bv[r >> 5] & (1u << (r & 31))) { printf("%s%d", first ? "" : ",", r); first = 0; }
        if (first) printf("-");
        printf(":%d", e->pred);
    }
    printf("\n");
    fsg_history_end_frame(h);
    fsg_history_free(h);
}

int main(void)
{
    static char line[1 << 16];
    static char *w[4096];
    while (fgets(line, sizeof(line), stdin)) {
        int n = vf_words(line, w, 4096);
        if (n == 20 && !strcmp(w[0], "hmm")) do_hmm(w);
        else if (n == 42 && !strcmp(w[0], "hmm5")) do_hmm5(w);
        else if (n >= 2 && !strcmp(w[0], "hist")) do_hist(w, n);
        else printf("bad-op\n");
        fflush(stdout);
    }
    return 0;
}
