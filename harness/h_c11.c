/* C11/C12 harness: decodes audio against a JSGF grammar through the public API, requests the word
 * lattice (mid-utterance and at the end), and dumps
 *   - the lattice through the iterator API of lattice.h (ps_latnode_iter, ps_latnode_exits/_entries,
 *     latlink_times, ps_latlink_nodes, ps_latnode_word, latnode_times) cross-checked against the
 *     struct fields,
 *   - whether a second decoder_lattice() without new audio returns the same pointer,
 *   - the search FSG and the history table the lattice was built from,
 *   - the first-best hypothesis and segmentation (decoder_hyp, decoder_seg_iter),
 *   - the first k N-best entries (decoder_nbest, hyp_iter_next/_hyp/_seg) with the node chain,
 *   - lattice_bestpath (returned link, per-link path_scr / best_prev / alpha), lattice_posterior
 *     (per-link beta, norm, return value), ps_latlink_prob.
 * Commands on stdin, one per line (strings in hex); every output line is flushed.
 *
 *   newdec k=v ...     free the decoder, make a new one
 *   jsgf <hex>         decoder_set_jsgf_string
 *   fsgfile <path>     fsg_model_readfile + decoder_set_fsg
 *   audio <path>       raw int16 mono samples
 *   start | end        decoder_start_utt / decoder_end_utt
 *   proc <n>           feed the next n samples
 *   procfull <n>       feed the next n samples in one call with full_utt = TRUE
 *   (bp=2: light request for position sweeps: lattice + FSG only, no history dump, no search passes)
 *   lat <tag> <k> <bp> [ops]  request + dump the lattice; k N-best entries; bp=1: bestpath + posterior too;
 *                      ops: a history of further calls on the same lattice (see run_history)
 *   addword <hexword> <hexphones> <update>   decoder_add_word
 *   calls <ops>        public calls that feed no audio and do not replace the search (see cmd_calls), to be placed
 *                      between two lattice requests
 * Cache trace: every public decoder call made by this harness prints a line `Z <api name> <arg> <object>`
 * (decoder_lattice: arg = search frame count, object = index of the returned lattice in the table of all
 * distinct lattices handed out so far, -1 = NULL; audio calls: arg = number of frames the search advanced).
 */
#include "common.h"
#include <unistd.h>
#include <soundswallower/decoder.h>
#include <soundswallower/configuration.h>
#include <soundswallower/err.h>
#include <soundswallower/fsg_history.h>
#include <soundswallower/fsg_model.h>
#include <soundswallower/fsg_search.h>
#include <soundswallower/lattice.h>
#include <soundswallower/search_module.h>
#include <soundswallower/dict.h>
#include <soundswallower/logmath.h>
#include <soundswallower/ckd_alloc.h>

static decoder_t *dec;
static const char *hmmdir;
static int16 *audio;
static size_t n_audio, audio_pos;

static void hexs(const char *s)
{
    if (s == NULL) { fputs("null", stdout); return; }
    if (*s == 0) { fputs("-", stdout); return; }
    vf_print_hex(stdout, (const unsigned char *)s, strlen(s));
}

static void drop_held(void);
static void drop_prev_utt(void);
static void drop_seen(void);

static void cmd_newdec(char **w, int n)
{
    config_t *cfg;
    int i, have_hmm = 0;
    drop_held();
    drop_prev_utt();
    drop_seen();
    if (dec) { decoder_free(dec); dec = NULL; }
    cfg = config_init(NULL);
    for (i = 1; i < n; i++) {
        char *eq = strchr(w[i], '=');
        if (!eq) continue;
        *eq = 0;
        if (!strcmp(w[i], "hmm")) have_hmm = 1;
        if (config_set_str(cfg, w[i], eq + 1) == NULL) { printf("newdec badconfig %s\n", w[i]); }
    }
    if (!have_hmm) config_set_str(cfg, "hmm", hmmdir);
    dec = decoder_init(cfg);
    printf("newdec %s\n", dec ? "ok" : "fail");
}

static void cmd_audio(const char *path)
{
    FILE *f = fopen(path, "rb");
    long sz;
    free(audio); audio = NULL; n_audio = audio_pos = 0;
    if (!f) { printf("audio fail\n"); return; }
    fseek(f, 0, SEEK_END); sz = ftell(f); fseek(f, 0, SEEK_SET);
    audio = (int16 *)malloc(sz + 2);
    n_audio = fread(audio, 2, sz / 2, f);
    fclose(f);
    printf("audio %zu\n", n_audio);
}

/* the lattice handed out by the previous request of this utterance, retained so that its address cannot be
 * recycled: a later request at the same frame count (no new audio searched in between — e.g. on the other side
 * of decoder_end_utt when that flushed nothing) must return this very object */
static lattice_t *held_dag;
/* the last lattice of the PREVIOUS utterance on this decoder (retained): a request of the current utterance
 * must never hand it out again */
static lattice_t *prev_utt_dag;
static int held_frames;
static void drop_prev_utt(void) { if (prev_utt_dag) { lattice_free(prev_utt_dag); prev_utt_dag = NULL; } }
static void drop_held(void) { if (held_dag) { lattice_free(held_dag); held_dag = NULL; } }

/* every distinct lattice handed out since newdec, retained once: an address cannot be recycled, so the index in
 * this table is the identity of the object in the cache trace */
static lattice_t **seen_dag;
static int n_seen, cap_seen;
static int obj_ix(lattice_t *dag)
{
    int i;
    if (dag == NULL) return -1;
    for (i = 0; i < n_seen; i++) if (seen_dag[i] == dag) return i;
    if (n_seen == cap_seen) { cap_seen = cap_seen ? 2 * cap_seen : 64; seen_dag = (lattice_t **)realloc(seen_dag, sizeof(*seen_dag) * cap_seen); }
    seen_dag[n_seen++] = lattice_retain(dag);
    return n_seen - 1;
}
static void drop_seen(void)
{
    int i;
    for (i = 0; i < n_seen; i++) lattice_free(seen_dag[i]);
    free(seen_dag); seen_dag = NULL; n_seen = cap_seen = 0;
}
static int search_frame(void) { fsg_search_t *fs = dec ? (fsg_search_t *)dec->search : NULL; return fs ? fs->frame : -99; }
/* trace line of a call that is neither a lattice request nor audio */
static void zo(const char *api) { printf("Z %s 0 -1\n", api); }
/* decoder_lattice with its trace line */
static lattice_t *req_lattice(void)
{
    lattice_t *dag = decoder_lattice(dec);
    printf("Z decoder_lattice %d %d\n", search_frame(), obj_ix(dag));
    return dag;
}

/* the whole remaining audio (up to n samples) in ONE call with full_utt = TRUE: everything is searched inside
 * the call, decoder_end_utt has nothing left to flush */
static void cmd_procfull(int n)
{
    int rv;
    size_t k = (size_t)n;
    fsg_search_t *fs = (fsg_search_t *)dec->search;
    int16 *ib;
    int f0 = search_frame();
    if (audio_pos + k > n_audio) k = n_audio - audio_pos;
    ib = (int16 *)malloc(sizeof(int16) * (k + 1));
    memcpy(ib, audio + audio_pos, sizeof(int16) * k);
    rv = decoder_process_int16(dec, ib, k, 0, 1);
    free(ib);
    audio_pos += k;
    printf("Z decoder_process_int16 %d -1\n", search_frame() - f0);
    printf("procfull %d %zu %d\n", rv, k, fs ? fs->frame : -99);
}

static void cmd_proc(int n)
{
    int rv = 0;
    size_t k = (size_t)n, done = 0;
    fsg_search_t *fs = (fsg_search_t *)dec->search;
    int f0 = search_frame();
    if (audio_pos + k > n_audio) k = n_audio - audio_pos;
    /* fed in pieces of at most 8000 samples (private copies so that an overrun is seen by ASan) */
    while (done < k || (k == 0 && done == 0)) {
        size_t m = k - done > 8000 ? 8000 : k - done;
        int16 *ib = (int16 *)malloc(sizeof(int16) * (m + 1));
        memcpy(ib, audio + audio_pos + done, sizeof(int16) * m);
        rv = decoder_process_int16(dec, ib, m, 0, 0);
        free(ib);
        done += m;
        if (rv < 0 || k == 0) break;
    }
    audio_pos += k;
    printf("Z decoder_process_int16 %d -1\n", search_frame() - f0);
    printf("proc %d %zu %d\n", rv, k, fs ? fs->frame : -99);
}

/* ---- lattice dump ------------------------------------------------------------------------- */

typedef struct { latnode_t **nodes; int n_nodes; latlink_t **links; int n_links; } latidx_t;

static int node_ix(latidx_t *x, latnode_t *p)
{
    int i;
    if (p == NULL) return -1;
    for (i = 0; i < x->n_nodes; i++) if (x->nodes[i] == p) return i;
    return -2;      /* pointer to something that is not in the node list */
}
static int link_ix(latidx_t *x, latlink_t *p)
{
    int i;
    if (p == NULL) return -1;
    for (i = 0; i < x->n_links; i++) if (x->links[i] == p) return i;
    return -2;
}

static void index_lattice(lattice_t *dag, latidx_t *x)
{
    latnode_iter_t *it;
    int cap = 64, lcap = 256;
    x->nodes = (latnode_t **)malloc(sizeof(*x->nodes) * cap);
    x->links = (latlink_t **)malloc(sizeof(*x->links) * lcap);
    x->n_nodes = x->n_links = 0;
    for (it = ps_latnode_iter(dag); it; it = ps_latnode_iter_next(it)) {
        if (x->n_nodes == cap) { cap *= 2; x->nodes = (latnode_t **)realloc(x->nodes, sizeof(*x->nodes) * cap); }
        x->nodes[x->n_nodes++] = ps_latnode_iter_node(it);
    }
    /* links are numbered in the order node list x exit list */
    {
        int i;
        for (i = 0; i < x->n_nodes; i++) {
            latlink_iter_t *li;
            for (li = ps_latnode_exits(x->nodes[i]); li; li = ps_latlink_iter_next(li)) {
                if (x->n_links == lcap) { lcap *= 2; x->links = (latlink_t **)realloc(x->links, sizeof(*x->links) * lcap); }
                x->links[x->n_links++] = ps_latlink_iter_link(li);
            }
        }
    }
}

static int g_nohist;   /* sweep requests: skip the (large) history dump */

static void dump_fsg_hist(fsg_search_t *fs)
{
    fsg_model_t *fsg = fs->fsg;
    fsg_link_t **links;
    int i, n = 0, cap = 256, nh;
    links = (fsg_link_t **)malloc(sizeof(*links) * cap);
    printf("F %d %d %d %d\n", fsg_model_start_state(fsg), fsg_model_final_state(fsg),
           fsg_model_n_state(fsg), fsg_model_n_word(fsg));
    for (i = 0; i < fsg_model_n_word(fsg); i++) {
        const char *ws = fsg_model_word_str(fsg, i);
        int32 dw = dict_wordid(dec->dict, ws);
        /* index, word, FSG filler flag, dictionary filler flag of the base word, is the silence word */
        printf("W %d ", i); hexs(ws);
        printf(" %d %d %d\n", fsg_model_is_filler(fsg, i) ? 1 : 0,
               (dw != BAD_S3WID && dict_filler_word(dec->dict, dict_basewid(dec->dict, dw))) ? 1 : 0,
               (dw != BAD_S3WID && dict_basewid(dec->dict, dw) == dict_silwid(dec->dict)) ? 1 : 0);
    }
    for (i = 0; i < fsg_model_n_state(fsg); i++) {
        fsg_arciter_t *it;
        for (it = fsg_model_arcs(fsg, i); it; it = fsg_arciter_next(it)) {
            fsg_link_t *l = fsg_arciter_get(it);
            if (n == cap) { cap *= 2; links = (fsg_link_t **)realloc(links, sizeof(*links) * cap); }
            links[n] = l;
            printf("A %d %d %d %d\n", n, fsg_link_from_state(l), fsg_link_to_state(l), fsg_link_wid(l));
            n++;
        }
    }
    nh = g_nohist ? 0 : fsg_history_n_entries(fs->history);
    for (i = 0; i < nh; i++) {
        fsg_hist_entry_t *e = fsg_history_entry_get(fs->history, i);
        int li = -1, k;
        if (e == NULL) { printf("E %d missing\n", i); continue; }
        if (e->fsglink) {
            li = -2;
            for (k = 0; k < n; k++) if (links[k] == e->fsglink) { li = k; break; }
        }
        /* index, arc index, from, to, wid, frame, score, pred */
        printf("E %d %d %d %d %d %d %d %d\n", i, li,
               e->fsglink ? fsg_link_from_state(e->fsglink) : -1,
               e->fsglink ? fsg_link_to_state(e->fsglink) : -1,
               e->fsglink ? fsg_link_wid(e->fsglink) : -1,
               e->frame, e->score, e->pred);
    }
    free(links);
    {
        /* the filler penalties exactly as fsg_search_lattice computes them */
        int32 silpen = (int32)(logmath_log(fsg->lmath, config_float(search_module_config(fs), "silprob")) * fsg->lw) >> SENSCR_SHIFT;
        int32 fillpen = (int32)(logmath_log(fsg->lmath, config_float(search_module_config(fs), "fillprob")) * fsg->lw) >> SENSCR_SHIFT;
        printf("Y silpen=%d fillpen=%d\n", silpen, fillpen);
    }
}

static void dump_seg(seg_iter_t *seg, const char *tag)
{
    int nseg = 0;
    for (; seg; seg = seg_iter_next(seg)) {
        int sf, ef;
        int32 ascr, lscr, prob;
        const char *w = seg_iter_word(seg);
        seg_iter_frames(seg, &sf, &ef);
        prob = seg_iter_prob(seg, &ascr, &lscr);
        printf("%s %d ", tag, nseg); hexs(w);
        printf(" %d %d %d %d %d\n", sf, ef, ascr, lscr, prob);
        nseg++;
    }
}

static void run_history(lattice_t *dag, latidx_t *x, float32 ascale, char *ops);

static void cmd_lat(const char *tag, int k, int bp, char *ops)
{
    fsg_search_t *fs = (fsg_search_t *)dec->search;
    lattice_t *dag, *dag2;
    latidx_t x;
    int i, nhist0, nword0;
    const char *hyp;
    int32 score = 0;
    if (!fs) { printf("LAT none\n"); return; }
    g_nohist = (bp == 2);
    if (bp == 2) bp = 0;
    nhist0 = fsg_history_n_entries(fs->history);
    nword0 = fsg_model_n_word(fs->fsg);
    /* first-best from the history table, before the lattice exists */
    hyp = decoder_hyp(dec, &score);
    printf("LAT begin %s final=%d frame=%d nhist=%d\n", tag, fs->final ? 1 : 0, fs->frame, nhist0);
    zo("decoder_hyp");
    printf("H "); hexs(hyp); printf(" %d\n", hyp ? score : 0);
    dump_seg(decoder_seg_iter(dec), "X");
    zo("decoder_seg_iter");
    fflush(stdout);

    dag = req_lattice();
    if (dag == NULL) {
        dag2 = req_lattice();
        printf("LAT null again=%s\n", dag2 ? "nonnull" : "null");
        dump_fsg_hist(fs);
        printf("LAT end %s\n", tag);
        return;
    }
    /* keep the first object alive so that a cache miss shows up as "not the same object" rather than as a
     * use of the freed lattice */
    lattice_retain(dag);
    if (prev_utt_dag)
        printf("KU stale_previous_utterance=%d prev_frames=%d\n", prev_utt_dag == dag ? 1 : 0, (int)prev_utt_dag->n_frames);
    if (held_dag)
        printf("K held_frames=%d now_frames=%d same_as_held=%d\n", held_frames, (int)dag->n_frames, held_dag == dag ? 1 : 0);
    drop_held();
    held_dag = lattice_retain(dag);
    held_frames = dag->n_frames;
    dag2 = req_lattice();
    index_lattice(dag, &x);
    printf("G nframes=%d api_nframes=%d nnodes=%d nlinks=%d start=%d end=%d same=%d n_nodes_field=%d final_ascr=%d silwid=%d\n",
           (int)dag->n_frames, lattice_n_frames(dag), x.n_nodes, x.n_links,
           node_ix(&x, dag->start), node_ix(&x, dag->end), dag == dag2 ? 1 : 0, dag->n_nodes,
           dag->final_node_ascr, dag->silence);
    for (i = 0; i < x.n_nodes; i++) {
        latnode_t *nd = x.nodes[i];
        int16 fef, lef;
        int sf = latnode_times(nd, &fef, &lef), nex = 0, nen = 0;
        latlink_iter_t *li;
        for (li = ps_latnode_exits(nd); li; li = ps_latlink_iter_next(li)) nex++;
        for (li = ps_latnode_entries(nd); li; li = ps_latlink_iter_next(li)) nen++;
        /* index, word, baseword, filler, sf, fef, lef (API), sf/fef/lef (fields), fsg state, id field, #exits, #entries */
        printf("N %d ", i); hexs(ps_latnode_word(dag, nd)); printf(" "); hexs(ps_latnode_baseword(dag, nd));
        printf(" %d %d %d %d %d %d %d %d %d %d %d\n",
               dict_filler_word(dag->dict, nd->basewid) ? 1 : 0, sf, (int)fef, (int)lef,
               (int)nd->sf, nd->fef, nd->lef, nd->node_id, nd->id, nex, nen);
    }
    for (i = 0; i < x.n_links; i++) {
        latlink_t *l = x.links[i];
        latnode_t *src = NULL, *dst;
        int16 sf;
        int ef = latlink_times(l, &sf);
        dst = ps_latlink_nodes(l, &src);
        /* index, from, to (API), from, to (fields), ef (API), ef field, sf (API), ascr */
        printf("L %d %d %d %d %d %d %d %d %d\n", i, node_ix(&x, src), node_ix(&x, dst),
               node_ix(&x, l->from), node_ix(&x, l->to), ef, (int)l->ef, (int)sf, l->ascr);
    }
    /* entry lists, in list order (needed to mirror the backward pass and the normaliser) */
    for (i = 0; i < x.n_nodes; i++) {
        latlink_iter_t *li;
        printf("I %d", i);
        for (li = ps_latnode_entries(x.nodes[i]); li; li = ps_latlink_iter_next(li))
            printf(" %d", link_ix(&x, ps_latlink_iter_link(li)));
        printf("\n");
    }
    dump_fsg_hist(fs);
    {
        /* the order in which lattice_traverse_edges / _next hand out the links */
        latlink_t *l;
        int cnt = 0;
        printf("T");
        for (l = lattice_traverse_edges(dag, NULL, NULL); l && cnt <= x.n_links + 1; l = lattice_traverse_next(dag, NULL)) {
            printf(" %d", link_ix(&x, l));
            cnt++;
        }
        printf("\n");
    }
    printf("M nhist_before=%d nhist_after=%d nword_before=%d nword_after=%d\n", nhist0,
           fsg_history_n_entries(fs->history), nword0, fsg_model_n_word(fs->fsg));
    fflush(stdout);

    /* N-best through the public iterator */
    if (k > 0) {
        hyp_iter_t *nb = decoder_nbest(dec);
        int j = 0, tried = 0, ins = 0, rej = 0, npath = 0, maxnp = 0;
        zo("decoder_nbest");
        while (nb && j < k) {
            int32 sc = 0;
            const char *h = hyp_iter_hyp(nb, &sc);
            latpath_t *p;
            int len = 0, m;
            int *ids;
            printf("B %d %d ", j, sc); hexs(h);
            for (p = nb->top; p; p = p->parent) len++;
            ids = (int *)malloc(sizeof(int) * (len + 1));
            for (p = nb->top, m = len - 1; p; p = p->parent, m--) ids[m] = node_ix(&x, p->node);
            printf(" %d", len);
            for (m = 0; m < len; m++) printf(" %d", ids[m]);
            printf("\n");
            free(ids);
            if (j < 64) {       /* segmentations of the head of the list only (deep reads would be huge) */
                char t[32];
                sprintf(t, "BX %d", j);
                dump_seg(hyp_iter_seg(nb), t);
            }
            fflush(stdout);
            j++;
            tried = nb->n_hyp_tried; ins = nb->n_hyp_insert; rej = nb->n_hyp_reject; npath = nb->n_path;
            if (npath > maxnp) maxnp = npath;
            nb = hyp_iter_next(nb);
            if (nb) { tried = nb->n_hyp_tried; ins = nb->n_hyp_insert; rej = nb->n_hyp_reject; npath = nb->n_path; }
            if (npath > maxnp) maxnp = npath;
        }
        printf("BN %d more=%d tried=%d inserted=%d rejected=%d npath=%d maxnpath=%d\n", j, nb ? 1 : 0, tried, ins, rej, npath, maxnp);
        /* the A* heuristic as astar_search_start left it in the nodes (info.rem_score) */
        printf("RS");
        for (i = 0; i < x.n_nodes; i++) printf(" %d", x.nodes[i]->info.rem_score);
        printf("\n");
        if (nb) hyp_iter_free(nb);
    }
    fflush(stdout);

    if (bp) {
        float32 ascale = fs->ascale;
        latlink_t *best;
        int32 post;
        logmath_t *lm = lattice_get_logmath(dag);
        best = lattice_bestpath(dag, ascale);
        zo("lattice_bestpath");
        printf("P best=%d score=%d norm=%d ascale=%.9g logzero=%d base=%.17g shift=%d\n", link_ix(&x, best),
               best ? best->path_scr : 0, dag->norm, (double)ascale, logmath_get_zero(lm),
               logmath_get_base(lm), logmath_get_shift(lm));
        fflush(stdout);
        if (best) {
            post = lattice_posterior(dag, ascale);
            zo("lattice_posterior");
            printf("Q post=%d norm=%d\n", post, dag->norm);
            for (i = 0; i < x.n_links; i++) {
                latlink_t *l = x.links[i];
                int32 ascr2 = 0, pr = ps_latlink_prob(dag, l, &ascr2);
                /* index, path_scr, best_prev, alpha, beta, posterior (API), ascr (API), scaled score as the
                 * forward/backward passes compute it */
                printf("R %d %d %d %d %d %d %d %d\n", i, l->path_scr, link_ix(&x, ps_latlink_pred(l)),
                       l->alpha, l->beta, pr, ascr2, (int32)((l->ascr << SENSCR_SHIFT) * ascale));
            }
            /* the lattice-based segmentation of the best path */
            dump_seg(lattice_seg_iter(dag, best), "PX");
            {
                const char *lh = lattice_hyp(dag, best);
                printf("PH "); hexs(lh); printf("\n");
            }
        }
        /* a history of further API calls on the same lattice (repeated / abandoned passes) */
        if (best && ops && strcmp(ops, "-")) run_history(dag, &x, ascale, ops);
        /* the object must still be the cached one */
        dag2 = req_lattice();
        printf("S same_after=%d\n", dag == dag2 ? 1 : 0);
    }
    free(x.nodes); free(x.links);
    lattice_free(dag);
    printf("LAT end %s\n", tag);
}

/* ops, comma separated:  b = lattice_bestpath;  p = lattice_posterior;  t<n> = lattice_traverse_edges + n x
 * lattice_traverse_next, then abandoned;  r<n> = the same with lattice_reverse_edges/_next;  n<k> = decoder_nbest,
 * k x hyp_iter_next, then hyp_iter_free.  Every pass prints everything it is specified to compute. */
static void run_history(lattice_t *dag, latidx_t *x, float32 ascale, char *ops)
{
    char *save = NULL, *op;
    int step = 0, i;
    for (op = strtok_r(ops, ",", &save); op; op = strtok_r(NULL, ",", &save), step++) {
        printf("HO %d %s\n", step, op);
        fflush(stdout);
        if (op[0] == 'b') {
            latlink_t *best = lattice_bestpath(dag, ascale);
            printf("HB %d best=%d score=%d norm=%d\n", step, link_ix(x, best), best ? best->path_scr : 0, dag->norm);
            printf("HS %d", step); for (i = 0; i < x->n_links; i++) printf(" %d", x->links[i]->path_scr); printf("\n");
            printf("HV %d", step); for (i = 0; i < x->n_links; i++) printf(" %d", link_ix(x, x->links[i]->best_prev)); printf("\n");
            printf("HA %d", step); for (i = 0; i < x->n_links; i++) printf(" %d", x->links[i]->alpha); printf("\n");
        } else if (op[0] == 'p') {
            int32 post = lattice_posterior(dag, ascale);
            printf("HP %d post=%d norm=%d\n", step, post, dag->norm);
            printf("HE %d", step); for (i = 0; i < x->n_links; i++) printf(" %d", x->links[i]->beta); printf("\n");
        } else if (op[0] == 't' || op[0] == 'r') {
            int n = atoi(op + 1), cnt = 0;
            latlink_t *l = (op[0] == 't') ? lattice_traverse_edges(dag, NULL, NULL) : lattice_reverse_edges(dag, NULL, NULL);
            while (l && cnt < n) {
                l = (op[0] == 't') ? lattice_traverse_next(dag, NULL) : lattice_reverse_next(dag, NULL);
                cnt++;
            }
            printf("HT %d steps=%d abandoned=%d\n", step, cnt, l ? 1 : 0);
        } else if (op[0] == 'n') {
            int k = atoi(op + 1), j = 0;
            hyp_iter_t *nb = decoder_nbest(dec);
            zo("decoder_nbest");
            printf("HN %d", step);
            while (nb && j < k) {
                int32 sc = 0;
                hyp_iter_hyp(nb, &sc);
                printf(" %d", sc);
                j++;
                nb = hyp_iter_next(nb);
            }
            printf("\n");
            if (nb) hyp_iter_free(nb);
        }
        fflush(stdout);
    }
}

/* ---- public calls that feed no audio and do not replace the search --------------------------------
 * ops, comma separated (arguments in hex after ':'); one `C <step> <op> <summary>` line and one trace line each:
 *   aw0:<word>:<phones> / aw1:<word>:<phones>   decoder_add_word with update = FALSE / TRUE
 *   lw:<word>    decoder_lookup_word            hyp    decoder_hyp            prob   decoder_prob
 *   seg<n>       decoder_seg_iter + n x seg_iter_next, freed when abandoned
 *   nb<n>        decoder_nbest + n x hyp_iter_next, then hyp_iter_free
 *   al           decoder_alignment              json<l> decoder_result_json(start 0, align_level l)
 *   nf           decoder_n_frames               cmn0/cmn1 decoder_get_cmn(update)     setcmn  decoder_set_cmn(current)
 *   cfg          decoder_config + typed reads   get    decoder_logmath/_fe/_feat     time   decoder_utt_time/_all_time
 *   ref          decoder_retain + decoder_free  lat    decoder_lattice
 *   rjs:<jsgf> decoder_set_jsgf_string   rjf:<file content> decoder_set_jsgf_file   rfsg:<file content> fsg_model_readfile +
 *   decoder_set_fsg   ral:<text> decoder_set_align_text — with grammars the decoder REFUSES (the lattice handed out must stay)
 * Not offered (they legitimately drop the lattice or feed audio): decoder_set_fsg, decoder_set_jsgf_file/_string, decoder_set_align_text, decoder_reinit(_feat),
 * decoder_apply_mllr, decoder_start_utt, decoder_process_*, decoder_end_utt, decoder_free of the last reference. */
static void cmd_calls(char *ops)
{
    char *save = NULL, *op;
    int step = 0;
    for (op = strtok_r(ops, ",", &save); op; op = strtok_r(NULL, ",", &save), step++) {
        char *a1 = strchr(op, ':'), *a2 = NULL;
        size_t l1 = 0, l2 = 0;
        char *s1 = NULL, *s2 = NULL;
        if (a1) { *a1++ = 0; a2 = strchr(a1, ':'); if (a2) *a2++ = 0; }
        if (a1) s1 = (char *)vf_parse_hex(a1, &l1);
        if (a2) s2 = (char *)vf_parse_hex(a2, &l2);
        printf("C %d %s ", step, op);
        if ((!strcmp(op, "aw0") || !strcmp(op, "aw1")) && s1 && s2) {
            int upd = op[2] == '1';
            printf("%d\n", decoder_add_word(dec, s1, s2, upd) >= 0 ? 0 : -1);
            zo(upd ? "decoder_add_word_update" : "decoder_add_word_noupdate");
        } else if (!strcmp(op, "lw") && s1) {
            char *ph = decoder_lookup_word(dec, s1);
            hexs(ph); printf("\n");
            ckd_free(ph);
            zo("decoder_lookup_word");
        } else if (!strcmp(op, "hyp")) {
            int32 sc = 0;
            const char *h = decoder_hyp(dec, &sc);
            hexs(h); printf(" %d\n", h ? sc : 0);
            zo("decoder_hyp");
        } else if (!strcmp(op, "prob")) {
            printf("%d\n", decoder_prob(dec));
            zo("decoder_prob");
        } else if (!strncmp(op, "seg", 3)) {
            int k = atoi(op + 3), j = 0;
            seg_iter_t *seg = decoder_seg_iter(dec);
            while (seg && j < k) { seg = seg_iter_next(seg); j++; }
            printf("%d %d\n", j, seg ? 1 : 0);
            if (seg) seg_iter_free(seg);
            zo("decoder_seg_iter");
        } else if (!strncmp(op, "nb", 2)) {
            int k = atoi(op + 2), j = 0;
            hyp_iter_t *nb = decoder_nbest(dec);
            while (nb && j < k) { int32 sc = 0; hyp_iter_hyp(nb, &sc); nb = hyp_iter_next(nb); j++; }
            printf("%d %d\n", j, nb ? 1 : 0);
            if (nb) hyp_iter_free(nb);
            zo("decoder_nbest");
        } else if (!strcmp(op, "al")) {
            alignment_t *al = decoder_alignment(dec);
            printf("%s\n", al ? "nonnull" : "null");
            zo("decoder_alignment");
        } else if (!strncmp(op, "json", 4)) {
            const char *js = decoder_result_json(dec, 0.0, atoi(op + 4));
            printf("%d\n", js ? (int)strlen(js) : -1);
            zo("decoder_result_json");
        } else if (!strcmp(op, "nf")) {
            printf("%d\n", decoder_n_frames(dec));
            zo("decoder_n_frames");
        } else if (!strcmp(op, "cmn0") || !strcmp(op, "cmn1")) {
            const char *r = decoder_get_cmn(dec, op[3] == '1');
            printf("%s\n", r ? "nonnull" : "null");
            zo(op[3] == '1' ? "decoder_get_cmn_update" : "decoder_get_cmn");
        } else if (!strcmp(op, "setcmn")) {
            const char *r = decoder_get_cmn(dec, 0);
            char *copy = r ? strdup(r) : NULL;
            printf("%d\n", copy ? decoder_set_cmn(dec, copy) : -2);
            free(copy);
            zo("decoder_get_cmn"); zo("decoder_set_cmn");
        } else if (!strcmp(op, "cfg")) {
            config_t *cfg = decoder_config(dec);
            const char *hm = config_str(cfg, "hmm");
            printf("%d %d %d\n", hm ? 1 : 0, config_float(cfg, "beam") > 0 ? 1 : 0, config_bool(cfg, "bestpath") ? 1 : 0);
            zo("decoder_config");
        } else if (!strcmp(op, "get")) {
            printf("%d %d %d\n", decoder_logmath(dec) ? 1 : 0, decoder_fe(dec) ? 1 : 0, decoder_feat(dec) ? 1 : 0);
            zo("decoder_logmath"); zo("decoder_fe"); zo("decoder_feat");
        } else if (!strcmp(op, "time")) {
            double a = 0, b = 0, c = 0;
            decoder_utt_time(dec, &a, &b, &c);
            decoder_all_time(dec, &a, &b, &c);
            printf("ok\n");
            zo("decoder_utt_time"); zo("decoder_all_time");
        } else if (!strcmp(op, "ref")) {
            decoder_t *d2 = decoder_retain(dec);
            printf("%d\n", decoder_free(d2));
            zo("decoder_retain"); zo("decoder_free_not_last");
        } else if (!strcmp(op, "lat")) {
            printf("request\n");
            req_lattice();
        } else if (!strcmp(op, "rjs") && s1) {
            /* grammar-setting calls meant to be REFUSED (a word missing from the dictionary, a JSGF that does not parse, no
             * public rule, an unreadable file, an alignment text with an unknown word).  The trace name follows the RETURN
             * VALUE: `<api>_refused` when the call returned an error, the plain name (a replaced search) when it was accepted */
            int rv = decoder_set_jsgf_string(dec, s1);
            printf("%d\n", rv);
            zo(rv < 0 ? "decoder_set_jsgf_string_refused" : "decoder_set_jsgf_string");
        } else if (!strcmp(op, "ral") && s1) {
            int rv = decoder_set_align_text(dec, s1);
            printf("%d\n", rv);
            zo(rv < 0 ? "decoder_set_align_text_refused" : "decoder_set_align_text");
        } else if ((!strcmp(op, "rjf") || !strcmp(op, "rfsg")) && s1) {
            /* s1 = file CONTENT ("" = a path that does not exist), written to a private temporary file */
            char path[64] = "/tmp/h_c11_gram_XXXXXX";
            int fd = l1 ? mkstemp(path) : -1, rv = -1;
            if (fd >= 0) { if (write(fd, s1, l1) != (ssize_t)l1) printf("short-write "); close(fd); }
            else snprintf(path, sizeof path, "/nonexistent/h_c11/no-such-grammar");
            if (!strcmp(op, "rjf")) {
                rv = decoder_set_jsgf_file(dec, path);
                printf("%d\n", rv);
                zo(rv < 0 ? "decoder_set_jsgf_file_refused" : "decoder_set_jsgf_file");
            } else {
                fsg_model_t *fsg = fsg_model_readfile(path, decoder_logmath(dec), config_float(decoder_config(dec), "lw"));
                if (fsg == NULL) printf("unreadable\n");
                else {
                    rv = decoder_set_fsg(dec, fsg);
                    /* the decoder consumes `fsg` (decoder.h) — also when it refuses it: fsg_search_init's error path
                     * releases it with the half-built search */
                    printf("%d\n", rv);
                    zo(rv < 0 ? "decoder_set_fsg_refused" : "decoder_set_fsg");
                }
            }
            if (fd >= 0) unlink(path);
        } else printf("bad-op\n");
        free(s1); free(s2);
        fflush(stdout);
    }
}

int main(int argc, char **argv)
{
    static char line[1 << 20];
    char *w[64];
    hmmdir = argc > 1 ? argv[1] : "/repo/model/en-us";
    err_set_loglevel(ERR_FATAL);
    setvbuf(stdout, NULL, _IOLBF, 0);
    while (fgets(line, sizeof(line), stdin)) {
        int n = vf_words(line, w, 64);
        if (n == 0) continue;
        printf("> %s\n", w[0]);
        fflush(stdout);
        if (!strcmp(w[0], "newdec")) cmd_newdec(w, n);
        else if (!dec) printf("nodec\n");
        else if (!strcmp(w[0], "jsgf") && n == 2) {
            size_t len;
            char *s = (char *)vf_parse_hex(w[1], &len);
            printf("jsgf %d\n", decoder_set_jsgf_string(dec, s));
            zo("decoder_set_jsgf_string");
            free(s);
        }
        else if (!strcmp(w[0], "fsgfile") && n == 2) {
            fsg_model_t *fsg = fsg_model_readfile(w[1], dec->lmath, (float32)config_float(dec->config, "lw"));
            if (fsg == NULL) printf("fsgfile -2\n");
            else { printf("fsgfile %d\n", decoder_set_fsg(dec, fsg)); zo("decoder_set_fsg"); }
        }
        else if (!strcmp(w[0], "addword") && n == 4) {
            size_t l1, l2;
            char *wd = (char *)vf_parse_hex(w[1], &l1), *ph = (char *)vf_parse_hex(w[2], &l2);
            int upd = atoi(w[3]);
            printf("addword %d\n", decoder_add_word(dec, wd, ph, upd) >= 0 ? 0 : -1);
            zo(upd ? "decoder_add_word_update" : "decoder_add_word_noupdate");
            free(wd); free(ph);
        }
        else if (!strcmp(w[0], "calls") && n == 2) cmd_calls(w[1]);
        else if (!strcmp(w[0], "audio") && n == 2) cmd_audio(w[1]);
        else if (!strcmp(w[0], "start")) {
            /* keep the last lattice of the utterance that ends here (retained, so its address stays taken) */
            if (held_dag) { if (prev_utt_dag) lattice_free(prev_utt_dag); prev_utt_dag = held_dag; held_dag = NULL; }
            audio_pos = 0; printf("start %d\n", decoder_start_utt(dec));
            zo("decoder_start_utt");
        }
        else if (!strcmp(w[0], "procfull") && n == 2) cmd_procfull(atoi(w[1]));
        else if (!strcmp(w[0], "proc") && n == 2) cmd_proc(atoi(w[1]));
        else if (!strcmp(w[0], "end")) {
            fsg_search_t *fs = (fsg_search_t *)dec->search;
            int f0 = search_frame();
            int rv = decoder_end_utt(dec);
            printf("Z decoder_end_utt %d -1\n", search_frame() - f0);
            printf("end %d %d\n", rv, fs ? fs->frame : -99);
        }
        else if (!strcmp(w[0], "lat") && n == 4) cmd_lat(w[1], atoi(w[2]), atoi(w[3]), NULL);
        else if (!strcmp(w[0], "lat") && n == 5) cmd_lat(w[1], atoi(w[2]), atoi(w[3]), w[4]);
        else printf("bad-op\n");
        fflush(stdout);
    }
    drop_held();
    if (prev_utt_dag) { lattice_free(prev_utt_dag); prev_utt_dag = NULL; }
    drop_seen();
    if (dec) decoder_free(dec);
    free(audio);
    return 0;
}
