/* C10 harness: feeds untrusted byte strings to the real text entry points of the library
 * (FSG reader, dictionary reader, JSON/typed configuration, alignment text, add_word, CMN string,
 * JSGF parser), dumps what was accepted in a canonical form, then USES and frees the object.
 *
 * usage: h_c10 <hmmdir> <basedict> <audio.raw> [leaks]
 * stdin: one case per line   "<id> <kind> <hex> [<hex2>] [<flag>]"
 * stdout: "<id> BEGIN <kind>" (flushed before the library is entered), result lines "<id> ...",
 *         then "<id> END".  A case that never prints END crashed/exited/timed out inside the library.
 */
#include "common.h"
#include <signal.h>
#include <unistd.h>
#include <soundswallower/decoder.h>
#include <soundswallower/configuration.h>
#include <soundswallower/config_defs.h>
#include <soundswallower/fsg_model.h>
#include <soundswallower/fsg_search.h>
#include <soundswallower/jsgf.h>
#include <soundswallower/dict.h>
#include <soundswallower/dict2pid.h>
#include <soundswallower/bin_mdef.h>
#include <soundswallower/s3file.h>
#include <soundswallower/err.h>
#include <soundswallower/cmn.h>
#include <soundswallower/fe.h>
#include <soundswallower/feat.h>
#include <soundswallower/alignment.h>
#include <soundswallower/ckd_alloc.h>

int __lsan_do_recoverable_leak_check(void);

static decoder_t *D;
static const char *g_hmm, *g_dict;
static int16 *g_audio;
static size_t g_naudio;
static const char *cur_id = "-";
static int in_case, check_leaks, use_long;
static char *cmn_init_repr;
static char first_err[200];
static const char *err_kind;   /* phrase of the first error message, looked up in the whole message (svspec) */
static char fatal_file[64];
/* messages of dict_read_s3file / dict_add_word counted while a dictionary case loads (bridge C10 -> C16):
 * no pronunciation, unknown phone, failed to add, missing base word, empty word */
static int dict_msgs[5];
static int dict_counting;

static const config_param_t defs[] = { CONFIG_OPTIONS, CONFIG_EMPTY_OPTION };

static void on_alarm(int sig)
{
    char buf[64];
    int n = snprintf(buf, sizeof buf, "%s TIMEOUT\n", cur_id);
    (void)sig;
    if (write(1, buf, n) < 0) {}
    _exit(97);
}

static void on_exit_(void)
{
    if (in_case) {
        printf("%s EXIT-CALLED %s\n", cur_id, fatal_file[0] ? fatal_file : "-");
        fflush(stdout);
    }
}

/* remember the first E_ERROR/E_WARN text of the case (digits squashed) = error kind */
static void err_cb(void *u, err_lvl_t lvl, const char *msg)
{
    (void)u;
    if (dict_counting && lvl >= ERR_ERROR) {
        if (strstr(msg, "No pronunciation for word")) dict_msgs[0]++;
        else if (strstr(msg, "is missing in the acoustic model")) dict_msgs[1]++;
        else if (strstr(msg, "Failed to add the word")) dict_msgs[2]++;
        else if (strstr(msg, "Missing base word for")) dict_msgs[3]++;
        else if (strstr(msg, "Cannot add an empty word")) dict_msgs[4]++;
    }
    if (lvl >= ERR_FATAL) {
        /* FATAL: "file.c", line N: ... -> remember the file: the site that exits the process */
        const char *q = strchr(msg, '"');
        size_t o = 0;
        if (q) for (q++; *q && *q != '"' && o < sizeof(fatal_file) - 1; q++) fatal_file[o++] = *q;
        fatal_file[o] = 0;
    }
    if (lvl >= ERR_ERROR && !first_err[0]) {
        static const char *const phrases[] = { "Couldn't read int", "Bad subrange spec", "Duplicate dimension", "Bad delimiter",
            "require single-stream", "is outside the feature", "Total dimensionality", NULL };
        const char *p = strstr(msg, ": ");
        size_t o = 0;
        int q;
        err_kind = NULL;
        for (q = 0; phrases[q] && !err_kind; q++)
            if (strstr(msg, phrases[q])) err_kind = phrases[q];
        /* skip "ERROR: "file.c", line N: " */
        p = strstr(msg, "line ");
        if (p) p = strstr(p, ": ");
        p = p ? p + 2 : msg;
        for (; *p && *p != '\n' && o < sizeof(first_err) - 1; p++) {
            unsigned char ch = (unsigned char)*p;
            if (ch >= '0' && ch <= '9') { if (o && first_err[o - 1] == '#') continue; ch = '#'; }
            if (ch < 32 || ch >= 127 || ch == ' ') ch = '_';
            first_err[o++] = (char)ch;
        }
        first_err[o] = 0;
    }
}

static void hexs(const char *s) { vf_print_hex(stdout, (const unsigned char *)s, strlen(s)); }

/* exact-size heap copy so that ASan sees any access outside [buf, buf+len) */
static unsigned char *exact(const unsigned char *b, size_t n)
{
    unsigned char *c = (unsigned char *)malloc(n ? n : 1);
    memcpy(c, b, n);
    return c;
}
static char *cstr(const unsigned char *b, size_t n)
{   /* C string: cut at the first NUL, exact allocation */
    size_t m = strnlen((const char *)b, n);
    char *c = (char *)malloc(m + 1);
    memcpy(c, b, m);
    c[m] = 0;
    return c;
}

static void drop_search(void)
{
    if (D->search) { search_module_free(D->search); D->search = NULL; }
    if (D->align) { search_module_free(D->align); D->align = NULL; }
}

/* one short utterance on whatever search is installed; prints hypothesis */
static void run_utt(int with_align)
{
    int32 score;
    const char *hyp;
    seg_iter_t *it;
    int nseg = 0;
    size_t n = use_long ? g_naudio : (g_naudio < 9600 ? g_naudio : 9600), pos = 0;
    if (decoder_start_utt(D) < 0) { printf("%s use start-failed\n", cur_id); return; }
    while (pos < n) {
        size_t k = n - pos > 2048 ? 2048 : n - pos;
        decoder_process_int16(D, g_audio + pos, k, 0, 0);
        pos += k;
    }
    decoder_end_utt(D);
    hyp = decoder_hyp(D, &score);
    for (it = decoder_seg_iter(D); it; it = seg_iter_next(it)) nseg++;
    printf("%s use ok nseg=%d hyp=", cur_id, nseg);
    if (hyp) hexs(hyp); else printf("null");
    printf("\n");
    if (with_align) {
        alignment_t *al = decoder_alignment(D);
        printf("%s use align=%s\n", cur_id, al ? "yes" : "no");
    }
}

static int cmp_link(const void *a, const void *b)
{
    const int32 *x = (const int32 *)a, *y = (const int32 *)b;
    int i;
    for (i = 0; i < 4; i++) if (x[i] != y[i]) return x[i] < y[i] ? -1 : 1;
    return 0;
}

static void dump_fsg(fsg_model_t *f)
{
    int i, n = 0, cap = 64;
    int32 *L = (int32 *)malloc(sizeof(int32) * 4 * cap);
    printf("%s ok %d %d %d %d\n", cur_id, f->n_state, f->start_state, f->final_state, f->n_word);
    printf("%s vocab", cur_id);
    for (i = 0; i < f->n_word; i++) { printf(" "); hexs(f->vocab[i]); }
    printf("\n");
    for (i = 0; i < f->n_state; i++) {
        fsg_arciter_t *it;
        for (it = fsg_model_arcs(f, i); it; it = fsg_arciter_next(it)) {
            fsg_link_t *l = fsg_arciter_get(it);
            if (n == cap) { cap *= 2; L = (int32 *)realloc(L, sizeof(int32) * 4 * cap); }
            L[4 * n] = l->from_state; L[4 * n + 1] = l->to_state; L[4 * n + 2] = l->wid; L[4 * n + 3] = l->logs2prob;
            n++;
        }
    }
    qsort(L, n, sizeof(int32) * 4, cmp_link);
    printf("%s links", cur_id);
    for (i = 0; i < n; i++) printf(" %d,%d,%d,%d", L[4 * i], L[4 * i + 1], L[4 * i + 2], L[4 * i + 3]);
    printf("\n");
    free(L);
}

static void case_fsg(unsigned char *b, size_t n)
{
    unsigned char *c = exact(b, n);
    s3file_t *s = s3file_init(c, n);
    float32 lw = (float32)config_float(D->config, "lw");
    fsg_model_t *f = fsg_model_read_s3file(s, D->lmath, lw);
    if (f == NULL) printf("%s rej\n", cur_id);
    else { dump_fsg(f); fsg_model_free(f); }
    /* the decoder entry point, then use */
    s3file_rewind(s);
    {
        int rc = decoder_init_grammar_s3file(D, s, NULL);
        printf("%s set %d\n", cur_id, rc);
        if (rc == 0) run_utt(0);
    }
    s3file_free(s);
    free(c);
    drop_search();
}

static void dump_dict(dict_t *d)
{
    int i, j;
    printf("%s ok %d %d %d\n", cur_id, d->n_word, d->filler_start, d->filler_end);
    printf("%s words", cur_id);
    for (i = 0; i < d->n_word; i++) {
        printf(" "); hexs(d->word[i].word); printf(":");
        for (j = 0; j < d->word[i].pronlen; j++) printf("%s%d", j ? "," : "", d->word[i].ciphone[j]);
        printf(":%d:%d", d->word[i].basewid, d->word[i].alt);
    }
    printf("\n");
    /* dict_wordid of every stored spelling (C16: the hash map is the index of the word table) */
    printf("%s wids", cur_id);
    for (i = 0; i < d->n_word; i++) printf(" %d", dict_wordid(d, d->word[i].word));
    printf("\n");
    printf("%s special %d %d %d\n", cur_id, d->startwid, d->finishwid, d->silwid);
}

static void restore_dict(void)
{
    /* decoder_init_dict frees d->dict / d->d2p first: make sure they are not dangling */
    if (decoder_init_dict(D) == NULL) { printf("%s harness-error base dict\n", cur_id); fflush(stdout); _exit(3); }
}

static void case_dict(unsigned char *b, size_t n, unsigned char *b2, size_t n2, int have2, int nocase)
{
    unsigned char *c = exact(b, n), *c2 = have2 ? exact(b2, n2) : NULL;
    s3file_t *s = s3file_init(c, n), *s2 = have2 ? s3file_init(c2, n2) : NULL;
    config_t *cfg = D->config;
    dict_t *d;
    if (nocase) {   /* `dictcase` set: case-insensitive word and phone lookup */
        cfg = config_init(NULL);
        config_set_bool(cfg, "dictcase", 1);
    }
    memset(dict_msgs, 0, sizeof dict_msgs);
    dict_counting = 1;
    d = dict_init_s3file(cfg, D->acmod->mdef, s, s2);
    dict_counting = 0;
    if (nocase) config_free(cfg);
    printf("%s dictmsgs %d %d %d %d %d\n", cur_id, dict_msgs[0], dict_msgs[1], dict_msgs[2], dict_msgs[3], dict_msgs[4]);
    if (d == NULL) printf("%s rej\n", cur_id);
    else {
        dict2pid_t *d2p;
        dump_dict(d);
        {   /* run-time additions on the dictionary that came out of the text reader (C16_wf_loaded_then_anything):
             * an alternate of word 0, a duplicate of word 0, an alternate without base word */
            s3cipid_t ph = bin_mdef_silphone(D->acmod->mdef);
            char *alt = (char *)malloc(strlen(d->word[0].word) + 8);
            int i, j, r1, r2, r3;
            sprintf(alt, "%s(77)", d->word[0].word);
            r1 = dict_add_word(d, alt, &ph, 1);
            r2 = dict_add_word(d, d->word[0].word, &ph, 1);
            r3 = dict_add_word(d, "zz-nobase(2)", &ph, 1);
            free(alt);
            printf("%s adds %d %d %d\n", cur_id, r1, r2, r3);
            printf("%s words2", cur_id);
            for (i = 0; i < d->n_word; i++) {
                printf(" "); hexs(d->word[i].word); printf(":");
                for (j = 0; j < d->word[i].pronlen; j++) printf("%s%d", j ? "," : "", d->word[i].ciphone[j]);
                printf(":%d:%d", d->word[i].basewid, d->word[i].alt);
            }
            printf("\n%s wids2", cur_id);
            for (i = 0; i < d->n_word; i++) printf(" %d", dict_wordid(d, d->word[i].word));
            printf("\n");
        }
        d2p = dict2pid_build(D->acmod->mdef, d);
        printf("%s d2p %s\n", cur_id, d2p ? "ok" : "null");
        dict2pid_free(d2p);
        dict_free(d);
    }
    /* decoder entry point + use: align the first few real words */
    s->ptr = (const char *)s->buf;
    if (s2) s2->ptr = (const char *)s2->buf;
    drop_search();
    if (decoder_init_dict_s3file(D, s, s2) == NULL) {
        printf("%s decdict null\n", cur_id);
    } else {
        char text[4096];
        size_t o = 0;
        int i, k = 0;
        dict_t *dd = D->dict;
        text[0] = 0;
        for (i = 0; i < dd->n_word && k < 3; i++) {
            const char *w = dd->word[i].word;
            if (!dict_real_word(dd, i) || strlen(w) > 1000 || strpbrk(w, " \t\n\r")) continue;
            o += sprintf(text + o, "%s%s", k ? " " : "", w);
            k++;
        }
        printf("%s decdict ok k=%d\n", cur_id, k);
        if (k) {
            int rc = decoder_set_align_text(D, text);
            printf("%s set %d\n", cur_id, rc);
            if (rc == 0) run_utt(1);
        }
    }
    drop_search();
    s3file_free(s); s3file_free(s2);
    free(c); free(c2);
    restore_dict();
}

static void dump_config_tag(config_t *c, const char *only, const char *tag)
{
    const config_param_t *p;
    printf("%s %s", cur_id, tag);
    for (p = defs; p->name; p++) {
        const anytype_t *v;
        if (only && strcmp(only, p->name)) continue;
        v = config_get(c, p->name);
        printf(" %s=", p->name);
        if (v == NULL) { printf("missing"); continue; }
        if (p->type & ARG_STRING) { if (v->ptr) { printf("s:"); hexs((const char *)v->ptr); } else printf("s:null"); }
        else if (p->type & ARG_INTEGER) printf("i:%ld", v->i);
        else if (p->type & ARG_BOOLEAN) printf("b:%ld", v->i);
        else if (p->type & ARG_FLOATING) printf("f:%a", v->fl);
    }
    printf("\n");
}

static void dump_config(config_t *c, const char *only) { dump_config_tag(c, only, "cfg"); }

static void case_json(unsigned char *b, size_t n, const char *flag)
{
    char *s = cstr(b, n);
    config_t *c = config_parse_json(NULL, s);
    if (c == NULL) printf("%s rej\n", cur_id);
    else {
        const char *js;
        printf("%s ok\n", cur_id);
        dump_config(c, NULL);
        js = config_serialize_json(c);
        printf("%s ser %s\n", cur_id, js ? "ok" : "null");
        if (js) {
            /* round trip: what the library writes it must read back to the same values; the
             * serialisation is handed over in an exactly-sized copy */
            char *copy = (char *)malloc(strlen(js) + 1);
            config_t *c3;
            strcpy(copy, js);
            printf("%s serlen %zu\n", cur_id, strlen(js));
            c3 = config_parse_json(NULL, copy);
            if (c3 == NULL) printf("%s rt rej\n", cur_id);
            else {
                const char *js2;
                printf("%s rt ok\n", cur_id);
                dump_config_tag(c3, NULL, "cfg2");
                js2 = config_serialize_json(c3);
                printf("%s rt2 %s\n", cur_id, js2 && !strcmp(js2, copy) ? "same" : (js2 ? "differs" : "null"));
                config_free(c3);
            }
            free(copy);
        }
        if (flag && (!strcmp(flag, "fe") || !strcmp(flag, "full"))) {
            /* use: the front end and feature module configured from it */
            fe_t *fe;
            feat_t *fcb;
            config_set_str(c, "logfn", NULL);
            fe = fe_init(c);
            printf("%s use fe=%s\n", cur_id, fe ? "ok" : "null");
            fcb = feat_init(c);
            printf("%s use feat=%s\n", cur_id, fcb ? "ok" : "null");
            fe_free(fe);
            feat_free(fcb);
        }
        config_free(c);
    }
    if (flag && !strcmp(flag, "full")) {
        /* use: a whole decoder configured from the acoustic model plus this JSON */
        config_t *c2 = config_init(NULL);
        config_set_str(c2, "hmm", g_hmm);
        config_set_str(c2, "dict", g_dict);
        if (config_parse_json(c2, s) == NULL) { printf("%s full rej\n", cur_id); config_free(c2); }
        else {
            decoder_t *d2;
            config_set_str(c2, "logfn", NULL);
            config_set_str(c2, "loglevel", "FATAL");
            d2 = decoder_init(c2);
            printf("%s full dec=%s\n", cur_id, d2 ? "ok" : "null");
            if (d2) {
                decoder_t *save = D;
                D = d2;
                if (D->search == NULL) decoder_set_align_text(D, "go forward");
                if (D->search) run_utt(0);
                D = save;
                decoder_free(d2);
            }
            err_set_loglevel(ERR_ERROR);
        }
    }
    free(s);
}

static void case_setstr(unsigned char *k, size_t nk, unsigned char *v, size_t nv)
{
    char *key = cstr(k, nk), *val = cstr(v, nv);
    config_t *c = config_init(NULL);
    const anytype_t *r = config_set_str(c, key, val);
    printf("%s %s\n", cur_id, r ? "ok" : "rej");
    if (r) dump_config(c, key);
    config_free(c);
    free(key); free(val);
}

static void case_align(unsigned char *b, size_t n)
{
    char *s = cstr(b, n);
    int rc = decoder_set_align_text(D, s);
    printf("%s rc %d\n", cur_id, rc);
    if (rc == 0) {
        fsg_model_t *f = ((fsg_search_t *)D->search)->fsg;
        int i;
        /* the word sequence of the linear grammar: follow state i -> i+1 */
        printf("%s seq", cur_id);
        for (i = 0; i < f->final_state; i++) {
            glist_t gl = fsg_model_trans(f, i, i + 1);
            gnode_t *gn;
            int k = 0;
            /* arcs i -> i+1: the word of the text and the alternative pronunciations that
             * fsg_search_init added for it; all of them are printed, separated by '|' */
            printf(" ");
            for (gn = gl; gn; gn = gnode_next(gn)) {
                fsg_link_t *l = (fsg_link_t *)gnode_ptr(gn);
                if (l->wid < 0) continue;
                if (k++) printf("|");
                hexs(fsg_model_word_str(f, l->wid));
            }
            if (k == 0) printf("?");
        }
        printf("\n");
        printf("%s shape %d %d %d\n", cur_id, f->n_state, f->start_state, f->final_state);
        run_utt(1);
    }
    drop_search();
    free(s);
}

static void case_addword(unsigned char *w, size_t nw, unsigned char *p, size_t np, const char *flag)
{
    char *word = cstr(w, nw), *phones = cstr(p, np);
    int update = flag && !strcmp(flag, "update");
    int32 wid;
    if (update) decoder_set_align_text(D, "go forward");
    wid = decoder_add_word(D, word, phones, update);
    printf("%s wid %d nword %d\n", cur_id, wid, D->dict->n_word);
    if (wid >= 0) {
        char *ph = decoder_lookup_word(D, word);
        printf("%s lookup ", cur_id);
        if (ph) hexs(ph); else printf("null");
        printf("\n");
        ckd_free(ph);
        printf("%s pron", cur_id);
        { int j; for (j = 0; j < D->dict->word[wid].pronlen; j++) printf(" %d", D->dict->word[wid].ciphone[j]); }
        printf("\n");
        if (!strpbrk(word, " \t\n\r") && word[0]) {
            int rc = decoder_set_align_text(D, word);
            printf("%s set %d\n", cur_id, rc);
            if (rc == 0) run_utt(1);
        }
    }
    drop_search();
    free(word); free(phones);
    restore_dict();
}

static void case_cmn(unsigned char *b, size_t n)
{
    char *s = cstr(b, n);
    cmn_t *cm = D->acmod->fcb->cmn_struct;
    int rc, i;
    printf("%s before", cur_id);
    for (i = 0; i < cm->veclen; i++) printf(" %a", (double)cm->cmn_mean[i]);
    printf("\n");
    rc = decoder_set_cmn(D, s);
    printf("%s rc %d\n", cur_id, rc);
    printf("%s means", cur_id);
    for (i = 0; i < cm->veclen; i++) printf(" %a", (double)cm->cmn_mean[i]);
    printf("\n");
    printf("%s repr ", cur_id); hexs(decoder_get_cmn(D, 0)); printf("\n");
    if (decoder_set_align_text(D, "go forward ten meters") == 0) run_utt(0);
    (void)decoder_get_cmn(D, 1);
    drop_search();
    decoder_set_cmn(D, cmn_init_repr);
    free(s);
}

/* canonical summary of an FSG built from a rule: sizes, well-formedness of every arc, and a hash of
 * the sorted (from, to, word) triples (log-probabilities left out: weights are renormalised in place) */
typedef struct { int32 from, to; const char *w; } arc3_t;
static int cmp_arc3(const void *a, const void *b)
{
    const arc3_t *x = (const arc3_t *)a, *y = (const arc3_t *)b;
    if (x->from != y->from) return x->from < y->from ? -1 : 1;
    if (x->to != y->to) return x->to < y->to ? -1 : 1;
    return strcmp(x->w, y->w);
}
static void summarize_fsg(const char *tag, const char *rname, fsg_model_t *f)
{
    int i, n = 0, cap = 64, wf = 1;
    uint64_t h = 1469598103934665603ULL;
    arc3_t *A;
    printf("%s %s ", cur_id, tag); hexs(rname);
    if (f == NULL) { printf(" null\n"); return; }
    A = (arc3_t *)malloc(sizeof(*A) * cap);
    if (!(f->start_state >= 0 && f->start_state < f->n_state && f->final_state >= 0 && f->final_state < f->n_state)) wf = 0;
    for (i = 0; i < f->n_state; i++) {
        fsg_arciter_t *it;
        for (it = fsg_model_arcs(f, i); it; it = fsg_arciter_next(it)) {
            fsg_link_t *l = fsg_arciter_get(it);
            if (n == cap) { cap *= 2; A = (arc3_t *)realloc(A, sizeof(*A) * cap); }
            if (l->from_state != i || l->to_state < 0 || l->to_state >= f->n_state || l->wid < -1 || l->wid >= f->n_word) wf = 0;
            A[n].from = l->from_state; A[n].to = l->to_state;
            A[n].w = (l->wid >= 0 && l->wid < f->n_word) ? f->vocab[l->wid] : "";
            n++;
        }
    }
    qsort(A, n, sizeof(*A), cmp_arc3);
    for (i = 0; i < n; i++) {
        const char *c;
        h = (h ^ (uint64_t)(uint32)A[i].from) * 1099511628211ULL;
        h = (h ^ (uint64_t)(uint32)A[i].to) * 1099511628211ULL;
        for (c = A[i].w; *c; c++) h = (h ^ (unsigned char)*c) * 1099511628211ULL;
        h = (h ^ 0xff) * 1099511628211ULL;
    }
    printf(" ok %d %d %d wf=%d %016llx\n", f->n_state, f->n_word, n, wf, (unsigned long long)h);
    free(A);
}

#define MAX_RULES_BUILT 12

/* large-count grammars (flag "big": tens of thousands of rules): parse, touch every rule name up to its
 * terminator, build nothing (the builds and the closure are quadratic and worse in the number of rules), free */
static void case_jsgf_big(const char *s)
{
    jsgf_t *j = jsgf_parse_string(s, NULL);
    if (j == NULL) printf("%s rej\n", cur_id);
    else {
        jsgf_rule_iter_t *it;
        long nr = 0, npub = 0, maxlen = 0, total = 0;
        for (it = jsgf_rule_iter(j); it; it = jsgf_rule_iter_next(it)) {
            jsgf_rule_t *r = jsgf_rule_iter_rule(it);
            long l = (long)strlen(jsgf_rule_name(r));
            nr++; total += l;
            if (l > maxlen) maxlen = l;
            if (jsgf_rule_public(r)) npub++;
        }
        printf("%s ok rules=%ld public=%ld\n", cur_id, nr, npub);
        printf("%s names maxlen=%ld total=%ld\n", cur_id, maxlen, total);
        jsgf_grammar_free(j);
    }
}

/* ---- grammar text crossed with the documented configuration parameters that select how the text is used
 * (flag "cfg:<toprule hex or ->:<lw>:<fsgusealtpron>:<fsgusefiller>"): the parameters are set on the live
 * decoder configuration before decoder_set_jsgf_string(); what the start-rule lookup of the SAME text gives is
 * printed first (the expected verdict); afterwards the parameters go back to their defaults and a known valid
 * grammar is installed and used: a refusal must have come back as -1 with the decoder still usable ---- */
static double cfg_saved_lw;
static int cfg_saved_alt, cfg_saved_fil;
static void jsgf_cfg_apply(const char *spec, const char *text)
{
    char buf[600], *f[4], *p;
    int nf = 0;
    char *top = NULL;
    size_t tl = 0;
    snprintf(buf, sizeof buf, "%s", spec);
    for (p = buf; nf < 4; ) {
        f[nf++] = p;
        p = strchr(p, ':');
        if (!p) break;
        *p++ = 0;
    }
    cfg_saved_lw = config_float(D->config, "lw");
    cfg_saved_alt = config_bool(D->config, "fsgusealtpron");
    cfg_saved_fil = config_bool(D->config, "fsgusefiller");
    if (nf > 0 && strcmp(f[0], "-")) {
        unsigned char *tb = vf_parse_hex(f[0], &tl);
        top = cstr(tb, tl);
        free(tb);
    }
    if (nf > 1) config_set_float(D->config, "lw", atof(f[1]));
    if (nf > 2) config_set_bool(D->config, "fsgusealtpron", atoi(f[2]));
    if (nf > 3) config_set_bool(D->config, "fsgusefiller", atoi(f[3]));
    if (top) {
        jsgf_t *j = jsgf_parse_string(text, NULL);
        config_set_str(D->config, "toprule", top);
        if (j == NULL) printf("%s toprule parse=0\n", cur_id);
        else {
            jsgf_rule_t *r = jsgf_get_rule(j, top);
            fsg_model_t *fm = r ? jsgf_build_fsg(j, r, D->lmath, (float32)config_float(D->config, "lw")) : NULL;
            int w, known = fm != NULL;
            for (w = 0; fm && w < fm->n_word; w++)
                if (dict_wordid(D->dict, fm->vocab[w]) == BAD_S3WID) known = 0;
            printf("%s toprule parse=1 found=%d public=%d build=%d known=%d\n", cur_id, r != NULL, r ? jsgf_rule_public(r) : 0, fm != NULL, known);
            fsg_model_free(fm);
            jsgf_grammar_free(j);
        }
        first_err[0] = 0; err_kind = NULL;
        free(top);
    } else
        printf("%s toprule absent\n", cur_id);
}

static void jsgf_cfg_after(void)
{
    static const char good[] = "#JSGF V1.0;\ngrammar after;\npublic <cmd> = go forward ten meters;\n<other> = ten;\n";
    int rc;
    config_set_str(D->config, "toprule", NULL);
    config_set_float(D->config, "lw", cfg_saved_lw);
    config_set_bool(D->config, "fsgusealtpron", cfg_saved_alt);
    config_set_bool(D->config, "fsgusefiller", cfg_saved_fil);
    drop_search();
    rc = decoder_set_jsgf_string(D, good);
    printf("%s after %d\n", cur_id, rc);
    if (rc == 0) run_utt(0);
}

static void case_jsgf(unsigned char *b, size_t n, const char *flag)
{
    char *s = cstr(b, n);
    jsgf_t *j;
    float32 lw = (float32)config_float(D->config, "lw");
    if (flag && !strcmp(flag, "big")) { case_jsgf_big(s); free(s); return; }
    j = jsgf_parse_string(s, NULL);
    if (j == NULL) printf("%s rej\n", cur_id);
    else {
        jsgf_rule_iter_t *it;
        jsgf_rule_t *rules[MAX_RULES_BUILT];
        char *names[MAX_RULES_BUILT];
        int nr = 0, npub = 0, k = 0, pass, i, used = 0;
        for (it = jsgf_rule_iter(j); it; it = jsgf_rule_iter_next(it)) {
            jsgf_rule_t *r = jsgf_rule_iter_rule(it);
            nr++;
            if (jsgf_rule_public(r)) npub++;
            if (k < MAX_RULES_BUILT) { rules[k] = r; names[k] = strdup(jsgf_rule_name(r)); k++; }
        }
        printf("%s ok rules=%d public=%d\n", cur_id, nr, npub);
        /* the grammar object stays usable whatever was built from it before: every rule in turn,
         * twice (so that each one is also built after every refused one), from the SAME jsgf_t */
        for (pass = 0; pass < 2; pass++)
            for (i = 0; i < k; i++) {
                int idx = pass ? k - 1 - i : i;
                fsg_model_t *f = jsgf_build_fsg_raw(j, rules[idx], D->lmath, lw);
                summarize_fsg(pass ? "b2" : "b1", names[idx], f);
                fsg_model_free(f);
            }
        /* complete build (with closure) + use on the decoder for a few rules */
        for (i = 0; i < k && used < 2 && nr <= MAX_RULES_BUILT; i++) {
            fsg_model_t *f = jsgf_build_fsg(j, rules[i], D->lmath, lw);
            int w, known = f != NULL;
            for (w = 0; f && w < f->n_word; w++)
                if (dict_wordid(D->dict, f->vocab[w]) == BAD_S3WID) known = 0;
            if (f && known && f->n_state <= 200) {
                int rc = decoder_set_fsg(D, f);   /* consumes f */
                printf("%s ruleuse ", cur_id); hexs(names[i]); printf(" %d\n", rc);
                if (rc == 0) run_utt(0);
                drop_search();
                used++;
            } else
                fsg_model_free(f);
        }
        jsgf_grammar_free(j);
        /* reference: the same rule built from a freshly parsed grammar object */
        for (i = 0; i < k; i++) {
            jsgf_t *j2 = jsgf_parse_string(s, NULL);
            fsg_model_t *f = NULL;
            if (j2) {
                for (it = jsgf_rule_iter(j2); it; it = jsgf_rule_iter_next(it))
                    if (!strcmp(jsgf_rule_name(jsgf_rule_iter_rule(it)), names[i])) {
                        f = jsgf_build_fsg_raw(j2, jsgf_rule_iter_rule(it), D->lmath, lw);
                        jsgf_rule_iter_free(it);
                        break;
                    }
            }
            summarize_fsg("rf", names[i], f);
            fsg_model_free(f);
            if (j2) jsgf_grammar_free(j2);
            free(names[i]);
        }
    }
    {
        int cfgd = flag && !strncmp(flag, "cfg:", 4), rc;
        if (cfgd) jsgf_cfg_apply(flag + 4, s);
        rc = decoder_set_jsgf_string(D, s);
        printf("%s set %d\n", cur_id, rc);
        if (rc == 0) run_utt(0);
        if (cfgd) jsgf_cfg_after();
    }
    drop_search();
    free(s);
}

/* ---- svspec: parse_subvecs on the bytes, then feat_set_subvecs on a default (single-stream) feature and the
 * projection of one frame; the un-projected frame comes from a second feature object without sub-vectors ---- */
#define SV_NFR 12
#define SV_FRAME 5
static void sv_fill(mfcc_t **mfc)
{
    int i, k;
    for (i = 0; i < SV_NFR; ++i)
        for (k = 0; k < 13; ++k)
            mfc[i][k] = (mfcc_t)((i * i * 7 + k * k * 3 + i * k + 1) % 97);   /* integers: deltas stay exact */
}

static void case_svspec(unsigned char *b, size_t n)
{
    char *s = cstr(b, n);
    int32 **sv = parse_subvecs(s);
    if (sv == NULL) printf("%s rej\n", cur_id);
    else {
        int32 **v;
        config_t *c = config_init(NULL);
        feat_t *plain, *fcb;
        int rc;
        printf("%s ok", cur_id);
        for (v = sv; *v; ++v) {
            int32 *d;
            printf(" ");
            for (d = *v; *d != -1; ++d) printf("%s%d", d == *v ? "" : ",", *d);
        }
        printf("\n");
        config_set_str(c, "cmn", "none");
        config_set_str(c, "logfn", NULL);
        plain = feat_init(c);
        fcb = feat_init(c);
        if (plain == NULL || fcb == NULL) { printf("%s harness-error feat_init\n", cur_id); fflush(stdout); _exit(3); }
        printf("%s feat %d %u\n", cur_id, (int)fcb->n_stream, (unsigned)feat_dimension(fcb));
        rc = feat_set_subvecs(fcb, sv);
        if (rc < 0) { printf("%s set %d\n", cur_id, rc); subvecs_free(sv); }
        else {
            mfcc_t **mfc = (mfcc_t **)ckd_calloc_2d(SV_NFR, 13, sizeof(mfcc_t));
            mfcc_t ***f0 = feat_array_alloc(plain, SV_NFR), ***f1 = feat_array_alloc(fcb, SV_NFR);
            int32 nfr, k, n0, n1;
            printf("%s set %d %d %d\n", cur_id, rc, (int)fcb->n_sv, (int)fcb->sv_dim);
            sv_fill(mfc); nfr = SV_NFR;
            n0 = feat_s2mfc2feat_live(plain, mfc, &nfr, 1, 1, f0);
            sv_fill(mfc); nfr = SV_NFR;
            n1 = feat_s2mfc2feat_live(fcb, mfc, &nfr, 1, 1, f1);
            printf("%s nfr %d %d\n", cur_id, n0, n1);
            if (n0 > SV_FRAME && n1 > SV_FRAME) {
                printf("%s frame", cur_id);
                for (k = 0; k < (int32)feat_dimension(plain); ++k) printf(" %d", (int)f0[SV_FRAME][0][k]);
                printf("\n%s proj", cur_id);
                for (k = 0; k < fcb->sv_dim; ++k) printf(" %d", (int)f1[SV_FRAME][0][k]);
                printf("\n");
            }
            feat_array_free(f0); feat_array_free(f1); ckd_free_2d(mfc);
        }
        feat_free(plain); feat_free(fcb);   /* fcb owns sv when it accepted it */
        config_free(c);
    }
    free(s);
}

int main(int argc, char **argv)
{
    static char line[1 << 24];
    char *w[8];
    config_t *cfg;
    FILE *fa;
    int i;
    setvbuf(stdout, NULL, _IOLBF, 0);
    if (argc < 4) { fprintf(stderr, "usage: h_c10 hmm dict audio [leaks]\n"); return 2; }
    g_hmm = argv[1]; g_dict = argv[2];
    check_leaks = argc > 4 && !strcmp(argv[4], "leaks");
    fa = fopen(argv[3], "rb");
    if (!fa) { perror(argv[3]); return 2; }
    g_audio = (int16 *)malloc(2 * 64000);
    g_naudio = fread(g_audio, 2, 64000, fa);
    fclose(fa);
    err_set_loglevel(ERR_FATAL);
    cfg = config_init(NULL);
    config_set_str(cfg, "hmm", g_hmm);
    config_set_str(cfg, "dict", g_dict);
    config_set_str(cfg, "loglevel", "FATAL");
    D = decoder_init(cfg);
    if (D == NULL) { fprintf(stderr, "decoder_init failed\n"); return 2; }
    err_set_callback(err_cb, NULL);
    err_set_loglevel(ERR_ERROR);
    cmn_init_repr = strdup(decoder_get_cmn(D, 0));
    /* facts the model needs */
    printf("- phones");
    for (i = 0; i < bin_mdef_n_ciphone(D->acmod->mdef); i++) { printf(" "); hexs(bin_mdef_ciphone_str(D->acmod->mdef, i)); }
    printf("\n- sil %d\n", bin_mdef_silphone(D->acmod->mdef));
    printf("- basedict");
    for (i = 0; i < D->dict->n_word; i++) { printf(" "); hexs(D->dict->word[i].word); }
    printf("\n- veclen %d\n", D->acmod->fcb->cmn_struct->veclen);
    printf("- means0");
    for (i = 0; i < D->acmod->fcb->cmn_struct->veclen; i++) printf(" %a", (double)D->acmod->fcb->cmn_struct->cmn_mean[i]);
    printf("\n");
    printf("- defs");
    { const config_param_t *p; for (p = defs; p->name; p++) { printf(" %s:%d:", p->name, p->type); if (p->deflt) hexs(p->deflt); else printf("null"); } }
    printf("\n");
    fflush(stdout);
    atexit(on_exit_);
    signal(SIGALRM, on_alarm);
    if (check_leaks && __lsan_do_recoverable_leak_check()) { printf("- harness-error leak before cases\n"); fflush(stdout); }
    while (fgets(line, sizeof line, stdin)) {
        int n = vf_words(line, w, 8);
        size_t l1 = 0, l2 = 0;
        unsigned char *b1 = NULL, *b2 = NULL;
        const char *flag = NULL;
        int have2 = 0;
        if (n < 5) continue;
        cur_id = w[0];
        b1 = vf_parse_hex(w[2], &l1);
        if (strcmp(w[3], ".")) { b2 = vf_parse_hex(w[3], &l2); have2 = 1; }
        if (strcmp(w[4], ".")) flag = w[4];
        use_long = flag && !strcmp(flag, "long");
        first_err[0] = 0; fatal_file[0] = 0; err_kind = NULL;
        printf("%s BEGIN %s\n", cur_id, w[1]);
        fflush(stdout);
        in_case = 1;
        alarm(flag && !strcmp(flag, "big") ? 90 : 20);   /* large-count cases are linear to quadratic in counts of 10^5 */
        decoder_set_cmn(D, cmn_init_repr);   /* every case starts from the same live means */
        first_err[0] = 0;
        if (!strcmp(w[1], "fsg")) case_fsg(b1, l1);
        else if (!strcmp(w[1], "dict")) case_dict(b1, l1, b2, l2, have2, flag && !strcmp(flag, "nocase"));
        else if (!strcmp(w[1], "json")) case_json(b1, l1, flag);
        else if (!strcmp(w[1], "setstr")) case_setstr(b1, l1, b2 ? b2 : (unsigned char *)"", l2);
        else if (!strcmp(w[1], "align")) case_align(b1, l1);
        else if (!strcmp(w[1], "addword")) case_addword(b1, l1, b2 ? b2 : (unsigned char *)"", l2, flag);
        else if (!strcmp(w[1], "cmn")) case_cmn(b1, l1);
        else if (!strcmp(w[1], "jsgf")) case_jsgf(b1, l1, flag);
        else if (!strcmp(w[1], "svspec")) case_svspec(b1, l1);
        else printf("%s bad-kind\n", cur_id);
        alarm(0);
        free(b1); free(b2);
        if (first_err[0]) printf("%s err %s\n", cur_id, first_err);
        if (first_err[0] && err_kind) {
            const char *q;
            printf("%s errkind ", cur_id);
            for (q = err_kind; *q; q++) putchar(*q == ' ' ? '_' : *q);
            printf("\n");
        }
        if (check_leaks && __lsan_do_recoverable_leak_check()) {
            printf("%s LEAK\n", cur_id);
            fflush(stdout);
            in_case = 0;
            _exit(96);
        }
        in_case = 0;
        printf("%s END\n", cur_id);
        fflush(stdout);
    }
    in_case = 0;
    free(cmn_init_repr);
    decoder_free(D);
    free(g_audio);
    return 0;
}
