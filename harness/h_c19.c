/* C19 harness: the real logmath.c (table-driven log-add, log/exp conversions).
 *
 *   h_c19 dump <base> <shift>      print the table logmath_init builds (header line, then one value per line)
 *   h_c19 < ops                    one output line per op line, same format as `ssdriver c19`
 *
 * ops:
 *   cfg <name> <base> <shift>      logmath_init(base, shift, 1)      -> cfg <name> size <n> width <w> shift <s> zero <z>
 *   tab                            FNV-1a/64 over the table values   -> t <n> <hash>
 *   add <x> <y>                    logmath_add                       -> r <v>
 *   sweep <x> <y> <dx> <dy> <n>    logmath_add(x+i*dx, y+i*dy), i<n  -> s <v0> ... <v(n-1)>
 *   log <p as C99 hex double>      logmath_log(p)                    -> l <L> <ppos> <m> <e>
 *        (m * 2^e is the exact value of the double log(p) * (1/log(base)) that the C code
 *         converts to int; recomputed here with the same libm calls)
 *   cfg0 <name> <base> <shift>     logmath_init(base, shift, 0): no table (log/exp only; add = add_exact)
 *                                                                    -> cfg <name> size 0 width 0 shift <s> zero <z>
 *   cfgx <name> <base> <shift>     two objects, with and without table, for the sweepx/rt ops (harness only)
 *   sweepx <x> <y> <dx> <dy> <n>   per i: logmath_add_exact(table obj), logmath_add(no-table obj), logmath_add(table obj)
 *                                                                    -> x <e0> <n0> <t0> <e1> <n1> <t1> ...
 *   rt <p hex>                     L = logmath_log(p), r = logmath_exp(L)  -> rt <L> <r as C99 hex double>
 *   exp <l>                        logmath_exp(l)                    -> e <k> <same>
 *        (k = exponent handed to pow(), recovered from the result; same = 1 iff the result is
 *         bit-identical to pow(base, (double)k); `e oor 0` when pow() under- or overflowed)
 *
 *   h_c19 hist < ops               HISTORY mode: several logmath objects created, retained, freed and
 *                                  re-created in ONE process (8 slots + one decoder-owned object)
 *   new <slot> <base> <shift>      slot = logmath_init(base, shift, 1), becomes current
 *                                                                    -> cfg <slot> size <n> width <w> shift <s> zero <z>
 *   new0 <slot> <base> <shift>     the same with use_table = 0      -> cfg <slot> size 0 width 0 shift <s> zero <z>
 *   retain <a> <b>                 slot b = logmath_retain(slot a)   -> ret <1 iff the same pointer came back>
 *   free <a>                       logmath_free(slot a), slot emptied, no current object  -> f <return value>
 *   use <a>                        slot a becomes current            -> cfg <a> size .. (as `new`)
 *   dec <logbase>                  config_init + `logbase` + decoder_create (no model files); the decoder's
 *                                  logmath (decoder_logmath, borrowed) becomes current     -> cfg dec size ..
 *   decre <logbase>                new config with `logbase`, decoder_reinit(d, config): decoder_init_config swaps the
 *                                  decoder's logmath when the base differs (frees the old one, creates a new one),
 *                                  then the reinit stops for lack of model files (return value ignored); the
 *                                  decoder's logmath becomes current                        -> cfg dec size ..
 *   decuse                         the decoder's logmath becomes current                    -> cfg dec size ..
 *   decretain <a>                  slot a = logmath_retain(decoder_logmath(d))              -> ret 1
 *   decfree                        decoder_free, no current object                          -> f <return value>
 *   table                          the current object's whole table, run-length encoded
 *                                                                    -> T <width> <size> <v:n,v:n,...>
 *   tab / add / sweep              as above, on the current object
 */
#include "common.h"
#include <math.h>
#include <soundswallower/logmath.h>
#include <soundswallower/configuration.h>
#include <soundswallower/decoder.h>

static unsigned tab_get(logadd_t *t, uint32 i)
{
    switch (t->width) {
    case 1: return ((uint8 *)t->table)[i];
    case 2: return ((uint16 *)t->table)[i];
    default: return ((uint32 *)t->table)[i];
    }
}

static int dump(double base, int shift)
{
    logmath_t *lm = logmath_init(base, shift, 1);
    uint32 size, width, sh, i;
    if (lm == NULL) { printf("init-failed\n"); return 1; }
    logmath_get_table_shape(lm, &size, &width, &sh);
    printf("base %.17g shift %u width %u size %u zero %d\n", logmath_get_base(lm), sh, width, size,
           logmath_get_zero(lm));
    for (i = 0; i < size; i++)
        printf("%u\n", tab_get(LOGMATH_TABLE(lm), i));
    logmath_free(lm);
    return 0;
}

static void shape_line(const char *name, logmath_t *lm)
{
    uint32 size = 0, width = 0;
    if (lm == NULL) { printf("init-failed\n"); return; }
    if (LOGMATH_TABLE(lm)->table != NULL)
        logmath_get_table_shape(lm, &size, &width, NULL);
    printf("cfg %s size %u width %u shift %d zero %d\n", name, size, width, logmath_get_shift(lm), logmath_get_zero(lm));
}

#define NSLOT 8
static int hist_main(void)
{
    static char line[1 << 12];
    char *w[8];
    logmath_t *slot[NSLOT], *lm = NULL;
    decoder_t *dec = NULL;
    int i;
    for (i = 0; i < NSLOT; i++) slot[i] = NULL;
    while (fgets(line, sizeof(line), stdin)) {
        int n = vf_words(line, w, 8);
        int a = n >= 2 ? atoi(w[1]) : -1, b = n >= 3 ? atoi(w[2]) : -1;
        if (n == 4 && (!strcmp(w[0], "new") || !strcmp(w[0], "new0")) && a >= 0 && a < NSLOT && slot[a] == NULL) {
            slot[a] = lm = logmath_init(strtod(w[2], NULL), atoi(w[3]), !strcmp(w[0], "new"));
            shape_line(w[1], lm);
        } else if (n == 3 && !strcmp(w[0], "retain") && a >= 0 && a < NSLOT && b >= 0 && b < NSLOT && slot[a] && !slot[b]) {
            slot[b] = logmath_retain(slot[a]);
            printf("ret %d\n", slot[b] == slot[a]);
        } else if (n == 2 && !strcmp(w[0], "free") && a >= 0 && a < NSLOT && slot[a]) {
            printf("f %d\n", logmath_free(slot[a]));
            slot[a] = lm = NULL;
        } else if (n == 2 && !strcmp(w[0], "use") && a >= 0 && a < NSLOT && slot[a]) {
            lm = slot[a];
            shape_line(w[1], lm);
        } else if (n == 2 && !strcmp(w[0], "dec") && dec == NULL) {
            config_t *c = config_init(NULL);
            config_set_str(c, "loglevel", "FATAL");
            config_set_str(c, "logbase", w[1]);
            dec = decoder_create(c);
            lm = dec ? decoder_logmath(dec) : NULL;
            shape_line("dec", lm);
        } else if (n == 2 && !strcmp(w[0], "decre") && dec) {
            config_t *c = config_init(NULL);
            config_set_str(c, "loglevel", "FATAL");
            config_set_str(c, "logbase", w[1]);
            (void)decoder_reinit(dec, c);
            lm = decoder_logmath(dec);
            shape_line("dec", lm);
        } else if (n == 1 && !strcmp(w[0], "decuse") && dec) {
            lm = decoder_logmath(dec);
            shape_line("dec", lm);
        } else if (n == 2 && !strcmp(w[0], "decretain") && dec && a >= 0 && a < NSLOT && !slot[a]) {
            slot[a] = logmath_retain(decoder_logmath(dec));
            printf("ret %d\n", slot[a] == decoder_logmath(dec));
        } else if (n == 1 && !strcmp(w[0], "decfree") && dec) {
            printf("f %d\n", decoder_free(dec));
            dec = NULL;
            lm = NULL;
        } else if (lm == NULL) {
            printf("no-cfg\n");
        } else if (n == 1 && !strcmp(w[0], "table")) {
            uint32 size = 0, width = 0, j, run = 0;
            unsigned cur = 0;
            if (LOGMATH_TABLE(lm)->table != NULL)
                logmath_get_table_shape(lm, &size, &width, NULL);
            printf("T %u %u ", width, size);
            for (j = 0; j < size; j++) {
                unsigned v = tab_get(LOGMATH_TABLE(lm), j);
                if (run && v == cur) { run++; continue; }
                if (run) printf("%u:%u,", cur, run);
                cur = v;
                run = 1;
            }
            if (run) printf("%u:%u", cur, run); else printf("-");
            printf("\n");
        } else if (n == 1 && !strcmp(w[0], "tab")) {
            uint32 size = 0, j;
            uint64_t h = 0xcbf29ce484222325ULL;
            if (LOGMATH_TABLE(lm)->table != NULL)
                logmath_get_table_shape(lm, &size, NULL, NULL);
            for (j = 0; j < size; j++) {
                h ^= (uint64_t)tab_get(LOGMATH_TABLE(lm), j);
                h *= 0x100000001b3ULL;
            }
            printf("t %u %llu\n", size, (unsigned long long)h);
        } else if (n == 3 && !strcmp(w[0], "add")) {
            printf("r %d\n", logmath_add(lm, atoi(w[1]), atoi(w[2])));
        } else if (n == 6 && !strcmp(w[0], "sweep")) {
            long x = atol(w[1]), y = atol(w[2]), dx = atol(w[3]), dy = atol(w[4]), cnt = atol(w[5]), k;
            printf("s");
            for (k = 0; k < cnt; k++)
                printf(" %d", logmath_add(lm, (int)(x + k * dx), (int)(y + k * dy)));
            printf("\n");
        } else {
            printf("bad-op\n");
        }
        fflush(stdout);
    }
    for (i = 0; i < NSLOT; i++)
        if (slot[i]) logmath_free(slot[i]);
    if (dec) decoder_free(dec);
    return 0;
}

int main(int argc, char **argv)
{
    static char line[1 << 12];
    char *w[8];
    logmath_t *lm = NULL, *lm0 = NULL;
    if (argc == 4 && !strcmp(argv[1], "dump"))
        return dump(strtod(argv[2], NULL), atoi(argv[3]));
    if (argc == 2 && !strcmp(argv[1], "hist"))
        return hist_main();
    while (fgets(line, sizeof(line), stdin)) {
        int n = vf_words(line, w, 8);
        if (n == 4 && !strcmp(w[0], "cfg")) {
            uint32 size, width, sh;
            if (lm) logmath_free(lm);
            lm = logmath_init(strtod(w[2], NULL), atoi(w[3]), 1);
            if (lm == NULL) { printf("init-failed\n"); fflush(stdout); continue; }
            logmath_get_table_shape(lm, &size, &width, &sh);
            printf("cfg %s size %u width %u shift %u zero %d\n", w[1], size, width, sh, logmath_get_zero(lm));
        } else if (n == 4 && (!strcmp(w[0], "cfg0") || !strcmp(w[0], "cfgx"))) {
            int x = !strcmp(w[0], "cfgx");
            if (lm) logmath_free(lm);
            if (lm0) logmath_free(lm0);
            lm0 = NULL;
            lm = logmath_init(strtod(w[2], NULL), atoi(w[3]), x);
            if (x) lm0 = logmath_init(strtod(w[2], NULL), atoi(w[3]), 0);
            if (lm == NULL || (x && lm0 == NULL)) { printf("init-failed\n"); fflush(stdout); continue; }
            if (x) {
                uint32 size, width;
                logmath_get_table_shape(lm, &size, &width, NULL);
                printf("cfg %s size %u width %u shift %d zero %d\n", w[1], size, width, logmath_get_shift(lm), logmath_get_zero(lm));
            } else
                printf("cfg %s size 0 width 0 shift %d zero %d\n", w[1], logmath_get_shift(lm), logmath_get_zero(lm));
        } else if (lm == NULL) {
            printf("no-cfg\n");
        } else if (n == 6 && !strcmp(w[0], "sweepx") && lm0 != NULL) {
            long x = atol(w[1]), y = atol(w[2]), dx = atol(w[3]), dy = atol(w[4]), cnt = atol(w[5]), i;
            printf("x");
            for (i = 0; i < cnt; i++) {
                int a = (int)(x + i * dx), b = (int)(y + i * dy);
                printf(" %d %d %d", logmath_add_exact(lm, a, b), logmath_add(lm0, a, b), logmath_add(lm, a, b));
            }
            printf("\n");
        } else if (n == 2 && !strcmp(w[0], "rt")) {
            double p = strtod(w[1], NULL);
            int L = logmath_log(lm, p);
            printf("rt %d %a\n", L, logmath_exp(lm, L));
        } else if (n == 1 && !strcmp(w[0], "tab")) {
            uint32 size, i;
            uint64_t h = 0xcbf29ce484222325ULL;
            logmath_get_table_shape(lm, &size, NULL, NULL);
            for (i = 0; i < size; i++) {
                h ^= (uint64_t)tab_get(LOGMATH_TABLE(lm), i);
                h *= 0x100000001b3ULL;
            }
            printf("t %u %llu\n", size, (unsigned long long)h);
        } else if (n == 3 && !strcmp(w[0], "add")) {
            printf("r %d\n", logmath_add(lm, atoi(w[1]), atoi(w[2])));
        } else if (n == 6 && !strcmp(w[0], "sweep")) {
            long x = atol(w[1]), y = atol(w[2]), dx = atol(w[3]), dy = atol(w[4]), cnt = atol(w[5]), i;
            printf("s");
            for (i = 0; i < cnt; i++)
                printf(" %d", logmath_add(lm, (int)(x + i * dx), (int)(y + i * dy)));
            printf("\n");
        } else if (n == 2 && !strcmp(w[0], "log")) {
            double p = strtod(w[1], NULL);
            int L = logmath_log(lm, p);
            if (p > 0) {
                double v = log(p) * (1.0 / log(logmath_get_base(lm)));
                int e;
                double m = frexp(v, &e); /* v = m * 2^e, 0.5 <= |m| < 1 */
                long long mi = (long long)ldexp(m, 53);
                printf("l %d 1 %lld %d\n", L, mi, e - 53);
            } else {
                printf("l %d 0 0 0\n", L);
            }
        } else if (n == 2 && !strcmp(w[0], "exp")) {
            int l = atoi(w[1]);
            double r = logmath_exp(lm, l);
            double base = logmath_get_base(lm);
            long long k;
            if (!(r > 0.0) || isinf(r)) { /* pow() under/overflowed: exponent not recoverable */
                printf("e oor 0\n");
                fflush(stdout);
                continue;
            }
            k = llround(log(r) / log(base));
            double again = pow(base, (double)k);
            printf("e %lld %d\n", k, memcmp(&again, &r, sizeof(r)) == 0);
        } else {
            printf("bad-op\n");
        }
        fflush(stdout);
    }
    if (lm) logmath_free(lm);
    return 0;
}
