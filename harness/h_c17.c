/* C17 harness: damaged acoustic-model files.
 *
 *   h_c17 dec <pristine_dir> <work_dir> <dict> <fdict|-> <jsgf_file> <raw_audio>
 *       stdin : one fault per line   "<id> <mmap|mem> <file> <edits>"
 *       stdout: one line per fault   "<id> fault=<acc|rej> site=<..> leak=<0|1|na> use=<..> intact=<acc|rej> end=<..> libexit=<0|1> diag=<..>"
 *     Every fault runs in a forked child: the damaged file is written into <work_dir> (all other files are
 *     symlinks to <pristine_dir>), the model is loaded through decoder_init (mmap: s3file_map_file) or through the
 *     in-memory path of js/api.js + js/soundswallower.c (mem: s3file_init over an exact-size heap buffer, so
 *     that ASan sees a read one byte past the file), the result is freed, LSan is asked for leaks, and the
 *     intact model is loaded in the same process afterwards.
 *
 *   h_c17 s3
 *       stdin : one case per line (see s3_case); stdout: one line per case, same format as `ssdriver c17`.
 *     Every case runs in a forked child too (E_FATAL/assert/sanitizer => "died ...").
 *
 * edits: "-" none | "x" file missing | comma list of  t<len> (truncate)  w<off>:<hex32> (little-endian store)
 *        b<off>:<hex8> (byte store)  p<len> (pad with zero bytes up to len)
 */
#define _GNU_SOURCE
#include "common.h"
#include <errno.h>
#include <stdarg.h>
#include <fcntl.h>
#include <signal.h>
#include <sys/stat.h>
#include <sys/time.h>
#include <sys/wait.h>
#include <unistd.h>

#include <soundswallower/acmod.h>
#include <soundswallower/bin_mdef.h>
#include <soundswallower/ckd_alloc.h>
#include <soundswallower/configuration.h>
#include <soundswallower/decoder.h>
#include <soundswallower/err.h>
#include <soundswallower/feat.h>
#include <soundswallower/hmm.h>
#include <soundswallower/logmath.h>
#include <soundswallower/ms_gauden.h>
#include <soundswallower/ms_mgau.h>
#include <soundswallower/ms_senone.h>
#include <soundswallower/ptm_mgau.h>
#include <soundswallower/s2_semi_mgau.h>
#include <soundswallower/s3file.h>
#include <soundswallower/tied_mgau_common.h>
#include <soundswallower/tmat.h>

__attribute__((weak)) int __lsan_do_recoverable_leak_check(void);


/* ------------------------------------------------------------------ allocation tracing (ledger tie)
 * The harness is linked with -Wl,--wrap=<f> for the allocation entry points of ckd_alloc.c.  While
 * tracing is on, every allocation / release the library performs *through those entry points from another
 * translation unit* is recorded with its call site (file:line as passed by the ckd_* macros) and the
 * ordinal of the object:   a:<file>:<line>:<k>   f:<k>   (a multi-dimensional array is one object; a
 * release of an object that was not allocated while tracing is f:?).  ckd_free_2d/_3d of a row table laid
 * over a separately allocated block (ckd_alloc_2d_ptr/_3d_ptr) also releases that block: recorded first. */
static int g_trace_on;
static char g_trace[60000];
static size_t g_trace_len;
static void *g_obj[8192];
static int g_nobj;

static void tr_add(const char *fmt, ...)
{
    va_list ap;
    int n;
    if (g_trace_len > sizeof(g_trace) - 200) return;
    va_start(ap, fmt);
    n = vsnprintf(g_trace + g_trace_len, sizeof(g_trace) - g_trace_len, fmt, ap);
    va_end(ap);
    if (n > 0) g_trace_len += n;
}
static const char *base_name(const char *f)
{
    const char *b = strrchr(f, '/');
    return b ? b + 1 : f;
}
static void tr_alloc(const char *file, int line, void *p)
{
    if (!g_trace_on || p == NULL) return;
    if (g_nobj < 8192) g_obj[g_nobj] = p;
    tr_add("%sa:%s:%d:%d", g_trace_len ? "," : "", base_name(file), line, g_nobj);
    g_nobj++;
}
static int tr_find(void *p)
{
    int i;
    for (i = (g_nobj < 8192 ? g_nobj : 8192) - 1; i >= 0; i--)
        if (g_obj[i] == p) return i;
    return -1;
}
static void tr_free(void *p, int quiet_if_unknown)
{
    int k;
    if (!g_trace_on || p == NULL) return;
    k = tr_find(p);
    if (k < 0) { if (!quiet_if_unknown) tr_add("%sf:?", g_trace_len ? "," : ""); return; }
    g_obj[k] = NULL;
    tr_add("%sf:%d", g_trace_len ? "," : "", k);
}
static void trace_start(void) { g_trace_on = 1; g_trace_len = 0; g_nobj = 0; g_trace[0] = 0; }
static void trace_stop(void) { g_trace_on = 0; }

void *__real___ckd_calloc__(size_t, size_t, const char *, int);
void *__real___ckd_malloc__(size_t, const char *, int);
void *__real___ckd_realloc__(void *, size_t, const char *, int);
char *__real___ckd_salloc__(const char *, const char *, int);
void *__real___ckd_calloc_2d__(size_t, size_t, size_t, const char *, int);
void *__real___ckd_calloc_3d__(size_t, size_t, size_t, size_t, const char *, int);
void ****__real___ckd_calloc_4d__(size_t, size_t, size_t, size_t, size_t, char *, int);
void *__real___ckd_alloc_3d_ptr(size_t, size_t, size_t, void *, size_t, char *, int);
void *__real___ckd_alloc_2d_ptr(size_t, size_t, void *, size_t, char *, int);
void __real_ckd_free(void *);
void __real_ckd_free_2d(void *);
void __real_ckd_free_3d(void *);
void __real_ckd_free_4d(void *);

void *__wrap___ckd_calloc__(size_t n, size_t sz, const char *f, int l)
{ void *p = __real___ckd_calloc__(n, sz, f, l); tr_alloc(f, l, p); return p; }
void *__wrap___ckd_malloc__(size_t sz, const char *f, int l)
{ void *p = __real___ckd_malloc__(sz, f, l); tr_alloc(f, l, p); return p; }
void *__wrap___ckd_realloc__(void *old, size_t sz, const char *f, int l)
{ void *p; tr_free(old, 0); p = __real___ckd_realloc__(old, sz, f, l); tr_alloc(f, l, p); return p; }
char *__wrap___ckd_salloc__(const char *o, const char *f, int l)
{ char *p = __real___ckd_salloc__(o, f, l); tr_alloc(f, l, p); return p; }
void *__wrap___ckd_calloc_2d__(size_t a, size_t b2, size_t sz, const char *f, int l)
{ void *p = __real___ckd_calloc_2d__(a, b2, sz, f, l); tr_alloc(f, l, p); return p; }
void *__wrap___ckd_calloc_3d__(size_t a, size_t b2, size_t c, size_t sz, const char *f, int l)
{ void *p = __real___ckd_calloc_3d__(a, b2, c, sz, f, l); tr_alloc(f, l, p); return p; }
void ****__wrap___ckd_calloc_4d__(size_t a, size_t b2, size_t c, size_t d, size_t sz, char *f, int l)
{ void ****p = __real___ckd_calloc_4d__(a, b2, c, d, sz, f, l); tr_alloc(f, l, p); return p; }
void *__wrap___ckd_alloc_3d_ptr(size_t a, size_t b2, size_t c, void *st, size_t sz, char *f, int l)
{ void *p = __real___ckd_alloc_3d_ptr(a, b2, c, st, sz, f, l); tr_alloc(f, l, p); return p; }
void *__wrap___ckd_alloc_2d_ptr(size_t a, size_t b2, void *st, size_t sz, char *f, int l)
{ void *p = __real___ckd_alloc_2d_ptr(a, b2, st, sz, f, l); tr_alloc(f, l, p); return p; }
void __wrap_ckd_free(void *p) { tr_free(p, 0); __real_ckd_free(p); }
void __wrap_ckd_free_2d(void *p)
{
    if (g_trace_on && p) tr_free(((void **)p)[0], 1);      /* the block under a row table, when it is its own object */
    tr_free(p, 0);
    __real_ckd_free_2d(p);
}
void __wrap_ckd_free_3d(void *p)
{
    if (g_trace_on && p && ((void ***)p)[0]) tr_free(((void ***)p)[0][0], 1);
    tr_free(p, 0);
    __real_ckd_free_3d(p);
}
void __wrap_ckd_free_4d(void *p) { tr_free(p, 0); __real_ckd_free_4d(p); }

/* ------------------------------------------------------------------ mapping ledger (mmio.c)
 * The harness is also linked with -Wl,--wrap=mmap,--wrap=munmap: every mapping the library creates is entered
 * into a table (address, length asked for), every munmap(addr, len) must name a live mapping by its address
 * and release exactly the pages that mapping holds (ceil(len/page) == ceil(mapped/page)).  A release that does
 * not is reported at once (" mmbad=<mapped>/<unmapped>/<known>", the child may not survive it); the pairs
 * (mapped, unmapped) of the clean releases and the number of mappings still live are printed at the end. */
#include <sys/mman.h>
void *__real_mmap(void *, size_t, int, int, int, off_t);
int __real_munmap(void *, size_t);
static void emit(const char *fmt, ...);
#define MM_MAX 64
static struct { char *addr; size_t len; } g_mm[MM_MAX];
static int g_mm_n, g_mm_bad, g_mm_maps;
static char g_mm_pairs[700];
static size_t g_mm_plen;
static size_t mm_pages(size_t len)
{
    size_t pg = (size_t)sysconf(_SC_PAGESIZE);
    return (len + pg - 1) / pg;
}
void *__wrap_mmap(void *a, size_t len, int prot, int flags, int fd, off_t off)
{
    void *p = __real_mmap(a, len, prot, flags, fd, off);
    if (p != MAP_FAILED) {
        g_mm_maps++;
        if (g_mm_n < MM_MAX) { g_mm[g_mm_n].addr = (char *)p; g_mm[g_mm_n].len = len; g_mm_n++; }
    }
    return p;
}
int __wrap_munmap(void *a, size_t len)
{
    int i, k = -1;
    for (i = 0; i < g_mm_n; i++)
        if (g_mm[i].addr == (char *)a) k = i;
    if (k < 0 || mm_pages(len) != mm_pages(g_mm[k].len)) {
        g_mm_bad++;
        emit(" mmbad=%lu/%lu/%d", (unsigned long)(k < 0 ? 0 : g_mm[k].len), (unsigned long)len, k < 0 ? 0 : 1);
    } else if (g_mm_plen < sizeof(g_mm_pairs) - 48) {
        g_mm_plen += snprintf(g_mm_pairs + g_mm_plen, sizeof(g_mm_pairs) - g_mm_plen, "%s%lu:%lu", g_mm_plen ? "," : "",
                              (unsigned long)g_mm[k].len, (unsigned long)len);
    }
    if (k >= 0) { g_mm[k] = g_mm[g_mm_n - 1]; g_mm_n--; }
    return __real_munmap(a, len);
}
static void mm_report(void)
{
    emit(" page=%ld mmaps=%d mmlive=%d mm=%s", sysconf(_SC_PAGESIZE), g_mm_maps, g_mm_n, g_mm_plen ? g_mm_pairs : "-");
}

/* ------------------------------------------------------------------ descriptor ledger
 * OS-level resources other than heap memory and mappings: the number of open file descriptors of the process
 * (every slot up to the soft limit is probed with fcntl, no allocation, no descriptor used by the probe itself).
 * It is taken at the start of every forked child (g_fd0), around every single load attempt inside a child and at the
 * end of the child: " fds=<before>:<after>" (the damaged load alone), " fdsend=<start of child>:<end of child>".
 * FILE streams are descriptors too (fopen without fclose shows here).  The first slots that are open at the end but
 * were not at the start are listed in " fdnew=" (with the name /proc/self/fd gives them). */
#include <sys/resource.h>
static int g_fd0 = -1;
static unsigned char g_fd0_open[4096];
static int fd_limit(void)
{
    struct rlimit rl;
    long n = 1024;
    if (getrlimit(RLIMIT_NOFILE, &rl) == 0 && rl.rlim_cur != RLIM_INFINITY) n = (long)rl.rlim_cur;
    if (n > 4096) n = 4096;
    return (int)n;
}
static int fd_count(unsigned char *open_map)
{
    int i, n = 0, lim = fd_limit();
    for (i = 0; i < lim; i++) {
        int o = fcntl(i, F_GETFD) != -1;
        if (open_map) open_map[i] = (unsigned char)o;
        n += o;
    }
    return n;
}
static void fd_report(const char *sep)
{
    static unsigned char now[4096];
    int n = fd_count(now), i, shown = 0, lim = fd_limit();
    emit("%sfdsend=%d:%d", sep, g_fd0, n);
    if (n != g_fd0) {
        for (i = 0; i < lim && shown < 3; i++)
            if (now[i] && !g_fd0_open[i]) {
                char lk[64], tgt[160];
                ssize_t r;
                char *q;
                snprintf(lk, sizeof(lk), "/proc/self/fd/%d", i);
                r = readlink(lk, tgt, sizeof(tgt) - 1);
                tgt[r > 0 ? r : 0] = 0;
                for (q = tgt; *q; q++) if (*q == ' ' || *q == '\t' || *q == '=') *q = '_';
                emit("%s%d>%s", shown ? "," : " fdnew=", i, tgt[0] ? tgt : "?");
                shown++;
            }
    }
}

/* ------------------------------------------------------------------ utilities */

static unsigned char *read_whole(const char *path, size_t *len)
{
    FILE *f = fopen(path, "rb");
    unsigned char *b;
    long n;
    if (!f) return NULL;
    fseek(f, 0, SEEK_END);
    n = ftell(f);
    fseek(f, 0, SEEK_SET);
    b = (unsigned char *)malloc(n ? n : 1);
    if (fread(b, 1, n, f) != (size_t)n) { fclose(f); free(b); return NULL; }
    fclose(f);
    *len = n;
    return b;
}

/* apply an edit list to (b,len); returns 0 = file present, 1 = file missing, -1 = bad spec.
 * the result buffer is re-allocated to the exact final length */
static int apply_edits(unsigned char **pb, size_t *plen, const char *edits)
{
    unsigned char *b = *pb;
    size_t len = *plen;
    const char *p = edits;
    if (!strcmp(edits, "-")) return 0;
    if (!strcmp(edits, "x")) return 1;
    while (*p) {
        char k = *p++;
        char *e;
        unsigned long a = strtoul(p, &e, 10), v = 0;
        if (e == p) return -1;
        p = e;
        if (k == 'w' || k == 'b') {
            if (*p != ':') return -1;
            v = strtoul(p + 1, &e, 16);
            if (e == p + 1) return -1;
            p = e;
        }
        if (k == 't') {
            if (a < len) len = a;
        } else if (k == 'p') {      /* pad with zero bytes up to length a */
            if (a > len && a < ((size_t)1 << 28)) { b = (unsigned char *)realloc(b, a); memset(b + len, 0, a - len); len = a; *pb = b; }
        } else if (k == 'w') {
            if (a + 4 <= len) { b[a] = v & 255; b[a + 1] = (v >> 8) & 255; b[a + 2] = (v >> 16) & 255; b[a + 3] = (v >> 24) & 255; }
        } else if (k == 'b') {
            if (a < len) b[a] = (unsigned char)v;
        } else
            return -1;
        if (*p == ',') p++;
        else if (*p) return -1;
    }
    {   /* exact-size copy: ASan red zone starts right after the last file byte */
        unsigned char *c = (unsigned char *)malloc(len ? len : 1);
        if (len == 0) { free(c); c = (unsigned char *)malloc(0); }
        memcpy(c, b, len);
        free(b);
        *pb = c;
        *plen = len;
    }
    return 0;
}

/* first ERROR/FATAL message of the library, as "file:text" with blanks replaced */
static char first_err[200];
static int n_err;
static void err_cb(void *ud, err_lvl_t lvl, const char *msg)
{
    (void)ud;
    if (lvl >= ERR_ERROR) {
        n_err++;
        if (!first_err[0]) {
            /* msg looks like:  ERROR: "tmat.c", line 133: Failed to read ... */
            const char *q = strchr(msg, '"'), *t;
            char file[40] = "?";
            size_t o = 0;
            if (q) {
                const char *q2 = strchr(q + 1, '"');
                if (q2 && (size_t)(q2 - q - 1) < sizeof(file)) { memcpy(file, q + 1, q2 - q - 1); file[q2 - q - 1] = 0; }
                t = q2 ? strchr(q2, ':') : NULL;
                t = t ? t + 1 : msg;
            } else
                t = msg;
            while (*t == ' ') t++;
            o = snprintf(first_err, sizeof(first_err), "%s%s:", lvl >= ERR_FATAL ? "FATAL:" : "", file);
            for (; *t && *t != '\n' && o < 90; t++) {
                char ch = *t;
                if (ch >= '0' && ch <= '9') continue;        /* numbers vary with the fault: keep the site only */
                first_err[o++] = (ch == ' ' || ch == '\t') ? '_' : ch;
            }
            first_err[o] = 0;
        }
    }
    fputs(msg, stderr);
}

static int out_fd = 1;
static void emit(const char *fmt, ...)
{
    char buf[1024];
    va_list ap;
    int n;
    va_start(ap, fmt);
    n = vsnprintf(buf, sizeof(buf), fmt, ap);
    va_end(ap);
    if (n > (int)sizeof(buf) - 1) n = sizeof(buf) - 1;
    if (write(out_fd, buf, n) < 0) { }
}

/* the library called exit() (E_FATAL, ckd_fail): report it and leave without flushing inherited stdio */
static void on_exit_hook(int status, void *arg)
{
    (void)arg;
    emit(" libexit=1");
    _exit(status & 255);
}

/* run fn(arg) in a forked child; the child's emit() output is collected, then " end=..." and a diagnostic
 * extracted from its stderr are appended and the line is printed */
static void in_child(const char *id, const char *errfile, void (*fn)(void *), void *arg, int timeout_s)
{
    int pfd[2], status = 0, n, timed_out = 0;
    pid_t pid;
    char buf[8192];
    size_t got = 0;
    struct timeval t0, t1;
    fflush(stdout);
    if (pipe(pfd) < 0) { printf("%s harness-error pipe\n", id); return; }
    gettimeofday(&t0, NULL);
    pid = fork();
    if (pid < 0) { printf("%s harness-error fork\n", id); return; }
    if (pid == 0) {
        int efd = open(errfile, O_WRONLY | O_CREAT | O_TRUNC, 0644);
        close(pfd[0]);
        if (efd >= 0) { dup2(efd, 2); close(efd); }
        out_fd = pfd[1];
        on_exit(on_exit_hook, NULL);
        alarm(timeout_s);
        g_fd0 = fd_count(g_fd0_open);
        fn(arg);
        emit(" done=1");
        _exit(0);
    }
    close(pfd[1]);
    while ((n = read(pfd[0], buf + got, sizeof(buf) - 1 - got)) > 0) got += n;
    buf[got] = 0;
    close(pfd[0]);
    waitpid(pid, &status, 0);
    gettimeofday(&t1, NULL);
    (void)timed_out;
    printf("%s%s", id, buf);
    if (WIFEXITED(status) && WEXITSTATUS(status) == 0 && strstr(buf, " done=1"))
        printf(" end=ok");
    else if (WIFEXITED(status))
        printf(" end=exit:%d", WEXITSTATUS(status));
    else if (WIFSIGNALED(status) && WTERMSIG(status) == SIGALRM)
        printf(" end=timeout");
    else if (WIFSIGNALED(status))
        printf(" end=sig:%d", WTERMSIG(status));
    else
        printf(" end=unknown");
    {   /* key diagnostic lines of the child's stderr */
        size_t elen = 0;
        unsigned char *e = read_whole(errfile, &elen);
        char diag[400];
        size_t o = 0;
        if (e) {
            char *s = (char *)malloc(elen + 1), *line, *save = NULL;
            memcpy(s, e, elen); s[elen] = 0;
            for (line = strtok_r(s, "\n", &save); line; line = strtok_r(NULL, "\n", &save)) {
                if (strstr(line, "ERROR: AddressSanitizer") || strstr(line, "runtime error") || strstr(line, "Assertion")
                    || strstr(line, "FATAL") || strstr(line, "ERROR: LeakSanitizer") || strstr(line, "failed from")
                    || (strstr(line, "    #0 ") && o < 200) || (strstr(line, "    #1 ") && o < 260) || (strstr(line, "    #2 ") && o < 300)) {
                    const char *t = line;
                    if (o) diag[o++] = '|';
                    for (; *t && o < sizeof(diag) - 2; t++) diag[o++] = (*t == ' ' || *t == '\t') ? '_' : *t;
                    if (o >= sizeof(diag) - 2) break;
                }
            }
            free(s);
            free(e);
        }
        diag[o] = 0;
        printf(" ms=%ld diag=%s\n", (long)((t1.tv_sec - t0.tv_sec) * 1000 + (t1.tv_usec - t0.tv_usec) / 1000), o ? diag : "-");
    }
    fflush(stdout);
}

/* ------------------------------------------------------------------ decoder-level faults */

static const char *g_pristine, *g_work, *g_dict, *g_fdict, *g_jsgf, *g_raw;

typedef struct held_s { struct held_s *next; void *p; } held_t;
static held_t *held;
static void *hold(void *p)
{
    held_t *h = (held_t *)malloc(sizeof(*h));
    h->p = p; h->next = held; held = h;
    return p;
}
static void release_held(void)
{
    while (held) { held_t *n = held->next; free(held->p); free(held); held = n; }
}

/* configuration overrides of the current fault: "-" or "key=value,key=value" (documented flags: cionly, topn, ds,
 * compallsen, mmap, ...), applied to the damaged and to the intact load alike */
static const char *g_dict_fault;     /* "dict.txt" when the current fault is in the main dictionary of the model */
static const char *g_cfg = "-";
static int g_cfg_bad;
static void apply_cfg(config_t *c)
{
    char buf[512], *kv, *save = NULL;
    if (!g_cfg || !strcmp(g_cfg, "-")) return;
    snprintf(buf, sizeof(buf), "%s", g_cfg);
    for (kv = strtok_r(buf, ",", &save); kv; kv = strtok_r(NULL, ",", &save)) {
        char *eq = strchr(kv, '=');
        if (!eq) { g_cfg_bad++; continue; }
        *eq = 0;
        if (config_set_str(c, kv, eq + 1) == NULL) g_cfg_bad++;
    }
}

static config_t *make_config(const char *dir)
{
    config_t *c = config_init(NULL);
    config_set_str(c, "hmm", dir);
    config_set_str(c, "loglevel", "ERROR");
    apply_cfg(c);
    if (g_dict_fault && dir == g_work) {       /* fault in the dictionary file itself (mapped by dict_init) */
        char dp[2200];
        snprintf(dp, sizeof(dp), "%s/%s", dir, g_dict_fault);
        config_set_str(c, "dict", dp);
    } else
    if (g_dict && strcmp(g_dict, "-")) config_set_str(c, "dict", g_dict);
    if (g_fdict && strcmp(g_fdict, "-")) config_set_str(c, "fdict", g_fdict);
    return c;
}

static decoder_t *load_mmap(const char *dir)
{
    return decoder_init(make_config(dir));
}

static s3file_t *mem_s3file(const char *path)
{
    size_t len = 0;
    unsigned char *b, *exact;
    if (path == NULL) return NULL;
    if ((b = read_whole(path, &len)) == NULL) return NULL;
    exact = (unsigned char *)malloc(len);   /* malloc(0) gives a valid zero-size block under ASan */
    memcpy(exact, b, len);
    free(b);
    hold(exact);
    return s3file_init(exact, len);
}

/* verbatim logic of load_gmm() in js/soundswallower.c */
static int js_load_gmm(decoder_t *ps, s3file_t *means, s3file_t *vars, s3file_t *mixw, s3file_t *sendump)
{
    acmod_t *acmod = ps->acmod;
    if ((acmod->mgau = ptm_mgau_init_s3file(acmod, means, vars, mixw, sendump)) == NULL) {
        s3file_rewind(means);
        s3file_rewind(vars);
        s3file_rewind(mixw);
        s3file_rewind(sendump);
        if ((acmod->mgau = s2_semi_mgau_init_s3file(acmod, means, vars, mixw, sendump)) == NULL) {
            s3file_rewind(means);
            s3file_rewind(vars);
            s3file_rewind(mixw);
            s3file_rewind(sendump);
            acmod->mgau = ms_mgau_init_s3file(acmod, means, vars, mixw, NULL);
            if (acmod->mgau == NULL)
                return -1;
        }
    }
    return 0;
}

/* the initialisation sequence of js/api.js (init_config .. init_grammar) with in-memory files */
static decoder_t *load_mem(const char *dir)
{
    decoder_t *d = decoder_create(make_config(dir));
    s3file_t *s, *means = NULL, *vars = NULL, *mixw = NULL, *sendump = NULL;
    const char *path;
    int rv;
    if (d == NULL) return NULL;
    if (decoder_init_fe(d) == NULL) goto fail;
    if ((path = config_str(d->config, "lda")) != NULL) {
        if ((s = mem_s3file(path)) == NULL) goto fail;
        decoder_init_feat_s3file(d, s);
        s3file_free(s);
        if (d->fcb == NULL) goto fail;
    } else if (decoder_init_feat_s3file(d, NULL) == NULL)
        goto fail;
    if (decoder_init_acmod_pre(d) == NULL) goto fail;
    /* load_mdef */
    if ((s = mem_s3file(config_str(d->config, "mdef"))) == NULL) goto fail;
    d->acmod->mdef = bin_mdef_read_s3file(s, config_bool(d->config, "cionly"));
    s3file_free(s);
    if (d->acmod->mdef == NULL) goto fail;
    /* load_tmat */
    if ((s = mem_s3file(config_str(d->config, "tmat"))) == NULL) goto fail;
    d->acmod->tmat = tmat_init_s3file(s, d->lmath, config_float(d->config, "tmatfloor"));
    s3file_free(s);
    if (d->acmod->tmat == NULL) goto fail;
    /* load_gmm */
    means = mem_s3file(config_str(d->config, "mean"));
    vars = mem_s3file(config_str(d->config, "var"));
    sendump = mem_s3file(config_str(d->config, "sendump"));
    if (sendump == NULL) mixw = mem_s3file(config_str(d->config, "mixw"));
    if (means == NULL || vars == NULL || (sendump == NULL && mixw == NULL))
        rv = -1;
    else
        rv = js_load_gmm(d, means, vars, mixw, sendump);
    s3file_free(means);
    s3file_free(vars);
    s3file_free(mixw);
    s3file_free(sendump);
    if (rv < 0) goto fail;
    if (decoder_init_acmod_post(d) < 0) goto fail;
    if (decoder_init_dict(d) == NULL) goto fail;
    if (decoder_init_grammar(d) < 0) goto fail;
    return d;
fail:
    decoder_free(d);
    return NULL;
}

/* smoke use of an accepted model: a grammar and half a second of audio */
static const char *use_model(decoder_t *d)
{
    size_t glen = 0, alen = 0;
    unsigned char *g = read_whole(g_jsgf, &glen), *a = read_whole(g_raw, &alen);
    char *gs;
    const char *res = "ok";
    if (!g || !a) { free(g); free(a); return "nofile"; }
    gs = (char *)malloc(glen + 1);
    memcpy(gs, g, glen); gs[glen] = 0;
    if (decoder_set_jsgf_string(d, gs) < 0)
        res = "nogrammar";
    else {
        size_t ns = alen / 2;
        if (ns > 12000) ns = 12000;
        if (decoder_start_utt(d) < 0) res = "nostart";
        else {
            decoder_process_int16(d, (int16 *)a, ns, 0, 1);
            decoder_end_utt(d);
            decoder_hyp(d, NULL);
        }
    }
    free(gs); free(g); free(a);
    return res;
}

typedef struct { const char *mode, *file, *edits; } fault_t;

static void dec_child(void *arg)
{
    fault_t *f = (fault_t *)arg;
    int mem = !strcmp(f->mode, "mem"), fda;
    decoder_t *d;
    err_set_callback(err_cb, NULL);
    first_err[0] = 0; n_err = 0;
    fda = fd_count(NULL);
    d = mem ? load_mem(g_work) : load_mmap(g_work);
    emit(" fault=%s site=%s", d ? "acc" : "rej", first_err[0] ? first_err : "-");
    if (d) {
        emit(" use=%s", use_model(d));
        decoder_free(d);
    } else
        emit(" use=na");
    release_held();
    emit(" fds=%d:%d", fda, fd_count(NULL));    /* the single (damaged) load attempt, after decoder_free */
    if (__lsan_do_recoverable_leak_check)
        emit(" leak=%d", __lsan_do_recoverable_leak_check() ? 1 : 0);
    else
        emit(" leak=na");
    /* an intact model afterwards loads normally (same process) */
    first_err[0] = 0;
    d = mem ? load_mem(g_pristine) : load_mmap(g_pristine);
    emit(" intact=%s", d ? "acc" : "rej");
    if (d) decoder_free(d);
    release_held();
    emit(" cfg=%s cfgbad=%d", g_cfg, g_cfg_bad);
    mm_report();
    fd_report(" ");
}

/* all input is read before the first fork (a child that exits must not move the shared stdin offset) */
static char **read_all_lines(size_t *n)
{
    size_t cap = 1024, cnt = 0, llen = 0;
    char **ls = (char **)malloc(cap * sizeof(char *)), *line = NULL;
    ssize_t r;
    while ((r = getline(&line, &llen, stdin)) > 0) {
        if (cnt == cap) { cap *= 2; ls = (char **)realloc(ls, cap * sizeof(char *)); }
        ls[cnt++] = strdup(line);
    }
    free(line);
    *n = cnt;
    return ls;
}

static int dec_main(int argc, char **argv)
{
    char *line, *w[8], path[2048], errfile[2048];
    char **lines;
    size_t nlines, li;
    if (argc < 8) { fprintf(stderr, "usage: h_c17 dec pristine work dict fdict jsgf raw\n"); return 2; }
    g_pristine = argv[2]; g_work = argv[3]; g_dict = argv[4]; g_fdict = argv[5]; g_jsgf = argv[6]; g_raw = argv[7];
    snprintf(errfile, sizeof(errfile), "%s.err", g_work);
    lines = read_all_lines(&nlines);
    for (li = 0; li < nlines; li++) {
        int n = vf_words(line = lines[li], w, 8);
        fault_t f;
        unsigned char *b = NULL;
        size_t len = 0;
        int miss;
        char src[2048];
        if (n != 4 && n != 5) { printf("bad-op\n"); fflush(stdout); continue; }
        f.mode = w[1]; f.file = w[2]; f.edits = w[3];
        g_cfg = n == 5 ? w[4] : "-";
        g_dict_fault = !strcmp(f.file, "dict.txt") ? f.file : NULL;
        snprintf(path, sizeof(path), "%s/%s", g_work, f.file);
        snprintf(src, sizeof(src), "%s/%s", g_pristine, f.file);
        b = read_whole(src, &len);
        miss = b ? apply_edits(&b, &len, f.edits) : 1;
        if (miss < 0) { printf("%s bad-edits\n", w[0]); fflush(stdout); free(b); continue; }
        unlink(path);
        if (!miss) {
            FILE *o = fopen(path, "wb");
            if (!o || fwrite(b, 1, len, o) != len) { printf("%s harness-error write\n", w[0]); fflush(stdout); if (o) fclose(o); free(b); continue; }
            fclose(o);
        }
        free(b);
        in_child(w[0], errfile, dec_child, &f, 120);
        /* restore the symlink to the pristine file */
        unlink(path);
        if (symlink(src, path) < 0) { }
        free(lines[li]);
    }
    free(lines);
    unlink(errfile);
    return 0;
}


/* ------------------------------------------------------------------ byte reader / loader level (mode s3) */

/* source spec: hex string ("-" = empty) or @path; then the edit list.  Returns an exact-size heap block. */
static unsigned char *load_src(const char *spec, const char *edits, size_t *len)
{
    unsigned char *b;
    if (spec[0] == '@') {
        if ((b = read_whole(spec + 1, len)) == NULL) return NULL;
    } else
        b = vf_parse_hex(spec, len);
    if (apply_edits(&b, len, edits) != 0) { free(b); return NULL; }
    return b;
}

typedef struct { int n; char **w; } s3case_t;

static void leak_suffix(void)
{
    trace_stop();
    if (__lsan_do_recoverable_leak_check)
        emit(" | leak=%d site=%s", __lsan_do_recoverable_leak_check() ? 1 : 0, first_err[0] ? first_err : "-");
    else
        emit(" | leak=na site=%s", first_err[0] ? first_err : "-");
    if (g_mm_maps || g_mm_bad) mm_report();
    fd_report(" ");
    if (g_trace_len) {
        if (write(out_fd, " trace=", 7) < 0 || write(out_fd, g_trace, g_trace_len) < 0) { }
    }
}

static void s3_child(void *arg)
{
    s3case_t *c = (s3case_t *)arg;
    char **w = c->w;
    int n = c->n;
    size_t len = 0, len2 = 0;
    unsigned char *b = NULL, *b2 = NULL;
    err_set_callback(err_cb, NULL);
    err_set_loglevel(ERR_ERROR);
    first_err[0] = 0;
    if (n == 5 && !strcmp(w[1], "rd")) {
        s3file_t *s;
        char *op, *save = NULL;
        if ((b = load_src(w[2], w[3], &len)) == NULL) { emit(" bad-src"); return; }
        s = s3file_init(b, len);
        for (op = strtok_r(w[4], ",", &save); op; op = strtok_r(NULL, ",", &save)) {
            if (!strcmp(op, "H")) {
                size_t i;
                if (s3file_parse_header(s, "1.0") < 0) { emit(" rej"); break; }
                emit(" H:%ld:%d:%d:%d:", (long)(s->ptr - (const char *)s->buf), s->do_swap ? 1 : 0, s->do_chksum ? 1 : 0, (int)s->nhdr);
                for (i = 0; i < s->nhdr; i++) {
                    char hx[600];
                    size_t o = 0, j;
                    if (i) hx[o++] = ';';
                    if (s->headers[i].name.len == 0) hx[o++] = '-';
                    for (j = 0; j < s->headers[i].name.len && o < 280; j++) o += sprintf(hx + o, "%02x", (unsigned char)s->headers[i].name.buf[j]);
                    hx[o++] = '=';
                    if (s->headers[i].value.len == 0) hx[o++] = '-';
                    for (j = 0; j < s->headers[i].value.len && o < 590; j++) o += sprintf(hx + o, "%02x", (unsigned char)s->headers[i].value.buf[j]);
                    hx[o] = 0;
                    emit("%s", hx);
                }
            } else if (!strcmp(op, "V")) {
                if (s3file_verify_chksum(s) < 0) { emit(" rej"); break; }
                emit(" V:%ld", (long)(s->ptr - (const char *)s->buf));
            } else if (op[0] == 'g') {
                unsigned long k = 0, cnt = 0;
                size_t got;
                void *buf;
                if (sscanf(op, "g%lux%lu", &k, &cnt) != 2) { emit(" bad-op"); break; }
                buf = malloc(k * cnt ? k * cnt : 1);
                got = s3file_get(buf, k, cnt, s);
                free(buf);
                emit(" g:%lu:%ld:%u", (unsigned long)got, (long)(s->ptr - (const char *)s->buf), (unsigned)s->chksum);
            } else if (op[1] == 'd' && op[0] == '1') {
                void *buf = NULL;
                uint32 cnt = 0;
                int rv1;
                trace_start();
                rv1 = s3file_get_1d(&buf, atoi(op + 2), &cnt, s) < 0;
                trace_stop();
                if (rv1) { emit(" rej"); break; }
                ckd_free(buf);
                emit(" 1:%u:%ld:%u", cnt, (long)(s->ptr - (const char *)s->buf), (unsigned)s->chksum);
            } else if (op[1] == 'd' && op[0] == '2') {
                void **arr = NULL;
                uint32 d1 = 0, d2 = 0;
                long r;
                trace_start();
                r = s3file_get_2d(&arr, atoi(op + 2), &d1, &d2, s);
                trace_stop();
                if (r < 0) { emit(" rej"); break; }
                ckd_free_2d(arr);
                emit(" 2:%u:%u:%ld:%ld:%u", d1, d2, r, (long)(s->ptr - (const char *)s->buf), (unsigned)s->chksum);
            } else if (op[1] == 'd' && op[0] == '3') {
                void ***arr = NULL;
                uint32 d1 = 0, d2 = 0, d3 = 0;
                long r;
                trace_start();
                r = s3file_get_3d(&arr, atoi(op + 2), &d1, &d2, &d3, s);
                trace_stop();
                if (r < 0) { emit(" rej"); break; }
                ckd_free_3d(arr);
                emit(" 3:%u:%u:%u:%ld:%ld:%u", d1, d2, d3, r, (long)(s->ptr - (const char *)s->buf), (unsigned)s->chksum);
            } else { emit(" bad-op"); break; }
        }
        s3file_free(s);
    } else if (n == 4 && !strcmp(w[1], "tmat")) {
        s3file_t *s;
        logmath_t *lm = logmath_init(1.0001, 0, TRUE);
        tmat_t *t;
        if ((b = load_src(w[2], w[3], &len)) == NULL) { emit(" bad-src"); return; }
        s = s3file_init(b, len);
        trace_start();
        t = tmat_init_s3file(s, lm, 0.0001);
        trace_stop();
        if (t) emit(" ok %d %d", t->n_tmat, t->n_state); else emit(" rej");
        tmat_free(t);
        s3file_free(s);
        logmath_free(lm);
    } else if (n == 6 && !strcmp(w[1], "gau")) {
        s3file_t *m, *v;
        logmath_t *lm = logmath_init(1.0001, 0, TRUE);
        gauden_t *g;
        if ((b = load_src(w[2], w[3], &len)) == NULL || (b2 = load_src(w[4], w[5], &len2)) == NULL) { emit(" bad-src"); return; }
        m = s3file_init(b, len);
        v = s3file_init(b2, len2);
        trace_start();
        g = gauden_init_s3file(m, v, 0.0001, lm);
        trace_stop();
        if (g) {
            int i;
            emit(" ok %d %d %d ", g->n_mgau, g->n_feat, g->n_density);
            for (i = 0; i < g->n_feat; i++) emit("%s%d", i ? "," : "", g->featlen[i]);
        } else
            emit(" rej");
        gauden_free(g);
        s3file_free(m);
        s3file_free(v);
        logmath_free(lm);
    } else if (n == 5 && !strcmp(w[1], "lda")) {
        s3file_t *s;
        config_t *cfg = config_init(NULL);
        feat_t *fcb;
        int sl = atoi(w[4]);
        if ((b = load_src(w[2], w[3], &len)) == NULL) { emit(" bad-src"); return; }
        config_set_str(cfg, "feat", "1s_c_d_dd");
        config_set_int(cfg, "ceplen", sl / 3);
        fcb = feat_init_s3file(cfg, NULL);
        if (fcb == NULL || (int)feat_stream_len(fcb, 0) != sl) { emit(" harness-error feat"); return; }
        s = s3file_init(b, len);
        {
            int rvl;
            trace_start();
            rvl = feat_read_lda_s3file(fcb, s, 0);
            trace_stop();
            if (rvl < 0) emit(" rej");
            else emit(" ok %u %u %u", fcb->n_lda, fcb->out_dim, feat_stream_len(fcb, 0));
        }
        s3file_free(s);
        feat_free(fcb);
        config_free(cfg);
    } else if (n == 7 && !strcmp(w[1], "lda2")) {
        /* feat_read_lda_s3file twice on one front end: the first (intact) file sets feat->lda, the second call
         * (the case) has a previous matrix to release; both calls are inside the allocation trace */
        s3file_t *s0, *s;
        config_t *cfg = config_init(NULL);
        feat_t *fcb;
        int sl = atoi(w[6]);
        if ((b = load_src(w[2], w[3], &len)) == NULL || (b2 = load_src(w[4], w[5], &len2)) == NULL) { emit(" bad-src"); return; }
        config_set_str(cfg, "feat", "1s_c_d_dd");
        config_set_int(cfg, "ceplen", sl / 3);
        fcb = feat_init_s3file(cfg, NULL);
        if (fcb == NULL || (int)feat_stream_len(fcb, 0) != sl) { emit(" harness-error feat"); return; }
        s0 = s3file_init(b, len);
        s = s3file_init(b2, len2);
        {
            int rv0, rvl;
            trace_start();
            rv0 = feat_read_lda_s3file(fcb, s0, 0);
            if (rv0 < 0) { trace_stop(); emit(" bad-old"); }
            else {
                rvl = feat_read_lda_s3file(fcb, s, 0);
                trace_stop();
                if (rvl < 0) emit(" rej");
                else emit(" ok %u %u %u", fcb->n_lda, fcb->out_dim, feat_stream_len(fcb, 0));
            }
        }
        s3file_free(s0);
        s3file_free(s);
        feat_free(fcb);
        config_free(cfg);
    } else if (n == 7 && !strcmp(w[1], "sd")) {
        s3file_t *s;
        gauden_t g;
        uint8 *cb = NULL, ***mixw = NULL;
        int rv;
        memset(&g, 0, sizeof(g));
        g.n_feat = atoi(w[4]);
        g.n_density = atoi(w[5]);
        if ((b = load_src(w[2], w[3], &len)) == NULL) { emit(" bad-src"); return; }
        s = s3file_init(b, len);
        rv = read_sendump(s, &g, atoi(w[6]), &cb, &mixw);
        if (rv < 0) emit(" rej");
        else {
            /* last word: sum over all row pointers of (k+1) * offset, k = n * n_density + i (mod 2^32) */
            unsigned long rs = 0;
            int nn, ii;
            for (nn = 0; nn < g.n_feat; nn++)
                for (ii = 0; ii < g.n_density; ii++)
                    rs = (rs + (unsigned long)(nn * g.n_density + ii + 1)
                               * (unsigned long)((const char *)mixw[nn][ii] - (const char *)s->buf)) % 4294967296UL;
            emit(" ok %d %ld %ld %lu", cb ? 16 : 0, (long)((const char *)mixw[0][0] - (const char *)s->buf),
                 (long)(s->ptr - (const char *)s->buf), rs);
        }
        ckd_free_2d(mixw);
        s3file_free(s);
    } else if (n == 4 && !strcmp(w[1], "mdef")) {
        s3file_t *s;
        bin_mdef_t *m;
        if ((b = load_src(w[2], w[3], &len)) == NULL) { emit(" bad-src"); return; }
        s = s3file_init(b, len);
        trace_start();
        m = bin_mdef_read_s3file(s, 0);
        trace_stop();
        if (m == NULL)
            emit(" rej");
        else {
            unsigned h1 = 7, h2 = 7;
            int i;
            for (i = 0; i < m->n_sen; i++) {
                h1 = h1 * 31u + (unsigned)(uint16)m->cd2cisen[i];
                h2 = h2 * 31u + (unsigned)(uint16)m->sen2cimap[i];
            }
            emit(" ok %d %d %d %d %d %d %d %d %d %d %ld %ld %ld %u %u", m->alloc_mode == BIN_MDEF_IN_MEMORY ? 1 : 0,
                 m->n_ciphone, m->n_phone, m->n_emit_state, m->n_ci_sen, m->n_sen, m->n_tmat, m->n_sseq, m->n_cd_tree,
                 m->sil, (long)((char *)m->cd_tree - m->ciname[0]), (long)((char *)m->phone - m->ciname[0]),
                 (long)((char *)m->sseq[0] - m->ciname[0]), h1, h2);
        }
        bin_mdef_free(m);
        s3file_free(s);
    } else if (n == 5 && !strcmp(w[1], "mdefc")) {
        /* bin_mdef_read_s3file with the documented flag cionly = w[4]; same line as `mdef`, the cd_tree offset is -1
         * when the pointer is NULL */
        s3file_t *s;
        bin_mdef_t *m;
        int cionly = atoi(w[4]);
        if ((b = load_src(w[2], w[3], &len)) == NULL) { emit(" bad-src"); return; }
        s = s3file_init(b, len);
        trace_start();
        m = bin_mdef_read_s3file(s, cionly);
        trace_stop();
        if (m == NULL)
            emit(" rej");
        else {
            unsigned h1 = 7, h2 = 7;
            int i;
            for (i = 0; i < m->n_sen; i++) {
                h1 = h1 * 31u + (unsigned)(uint16)m->cd2cisen[i];
                h2 = h2 * 31u + (unsigned)(uint16)m->sen2cimap[i];
            }
            emit(" ok %d %d %d %d %d %d %d %d %d %d %ld %ld %ld %u %u", m->alloc_mode == BIN_MDEF_IN_MEMORY ? 1 : 0,
                 m->n_ciphone, m->n_phone, m->n_emit_state, m->n_ci_sen, m->n_sen, m->n_tmat, m->n_sseq, m->n_cd_tree,
                 m->sil, m->cd_tree ? (long)((char *)m->cd_tree - m->ciname[0]) : -1L, (long)((char *)m->phone - m->ciname[0]),
                 (long)((char *)m->sseq[0] - m->ciname[0]), h1, h2);
        }
        bin_mdef_free(m);
        s3file_free(s);
    } else if (n == 4 && !strcmp(w[1], "sen")) {
        /* senone_mixw_read through senone_init_s3file with one codebook (all-to-one map, no mdef needed) */
        s3file_t *s;
        gauden_t g;
        logmath_t *lm = logmath_init(1.0001, 0, TRUE);
        senone_t *sn;
        memset(&g, 0, sizeof(g));
        g.n_mgau = 1;
        if ((b = load_src(w[2], w[3], &len)) == NULL) { emit(" bad-src"); return; }
        s = s3file_init(b, len);
        sn = senone_init_s3file(&g, s, NULL, 0.0000001, lm, NULL);
        if (sn) emit(" ok %u %u %u", sn->n_sen, sn->n_feat, sn->n_cw); else emit(" rej");
        senone_free(sn);
        s3file_free(s);
        logmath_free(lm);
    } else if (n == 15 && !strcmp(w[1], "am")) {
        /* the assembly: acmod_load_am on files (w[2] = 1) or the in-memory sequence of js/api.js (w[2] = 0) */
        int ct = atoi(w[2]), k, sd = !strcmp(w[12], "sd"), rv = -1;
        static const char *names[5] = { "mdef", "transition_matrices", "means", "variances", NULL };
        unsigned char *fb[5] = { 0 };
        size_t fl[5] = { 0 };
        char dir[1024], path[1200];
        config_t *cfg = config_init(NULL);
        decoder_t *d;
        names[4] = sd ? "sendump" : "mixture_weights";
        for (k = 0; k < 5; k++)
            if ((fb[k] = load_src(w[(k < 4 ? 4 : 5) + 2 * k], w[(k < 4 ? 5 : 6) + 2 * k], &fl[k])) == NULL) { emit(" bad-src"); return; }
        config_set_str(cfg, "loglevel", "ERROR");
        config_set_str(cfg, "feat", "1s_c_d_dd");
        if (strchr(w[3], ',')) config_set_str(cfg, "svspec", "0-12/13-25/26-38");
        d = decoder_create(cfg);
        if (d == NULL || decoder_init_fe(d) == NULL || decoder_init_feat_s3file(d, NULL) == NULL
            || decoder_init_acmod_pre(d) == NULL) { emit(" harness-error acmod"); return; }
        snprintf(dir, sizeof(dir), "%s/am-%d", getenv("VERIF_C17_TMP") ? getenv("VERIF_C17_TMP") : ".", (int)getpid());
        if (ct == 1) {
            static const char *keys[5] = { "mdef", "tmat", "mean", "var", NULL };
            keys[4] = sd ? "sendump" : "mixw";
            mkdir(dir, 0755);
            for (k = 0; k < 5; k++) {
                FILE *o;
                snprintf(path, sizeof(path), "%s/%s", dir, names[k]);
                o = fopen(path, "wb");
                if (!o || fwrite(fb[k], 1, fl[k], o) != fl[k]) { emit(" harness-error write"); return; }
                fclose(o);
                config_set_str(d->config, keys[k], path);
            }
            rv = acmod_load_am(d->acmod);
        } else {
            s3file_t *sm = s3file_init(fb[0], fl[0]), *st, *mn, *vr, *mx;
            d->acmod->mdef = bin_mdef_read_s3file(sm, 0);
            s3file_free(sm);
            if (d->acmod->mdef) {
                st = s3file_init(fb[1], fl[1]);
                d->acmod->tmat = tmat_init_s3file(st, d->lmath, config_float(d->config, "tmatfloor"));
                s3file_free(st);
                if (d->acmod->tmat) {
                    mn = s3file_init(fb[2], fl[2]);
                    vr = s3file_init(fb[3], fl[3]);
                    mx = s3file_init(fb[4], fl[4]);
                    if (ct == 2) {      /* the PTM loader alone, traced */
                        trace_start();
                        d->acmod->mgau = ptm_mgau_init_s3file(d->acmod, mn, vr, sd ? NULL : mx, sd ? mx : NULL);
                        trace_stop();
                        rv = d->acmod->mgau ? 0 : -1;
                    } else
                        rv = js_load_gmm(d, mn, vr, sd ? NULL : mx, sd ? mx : NULL);
                    s3file_free(mn);
                    s3file_free(vr);
                    s3file_free(mx);
                }
            }
        }
        if (rv < 0) emit(" rej"); else emit(" ok %s", d->acmod->mgau->vt->name);
        decoder_free(d);
        if (ct == 1) {
            for (k = 0; k < 5; k++) { snprintf(path, sizeof(path), "%s/%s", dir, names[k]); unlink(path); }
            rmdir(dir);
        }
        for (k = 0; k < 5; k++) free(fb[k]);
    } else if (n == 6 && !strcmp(w[1], "mixw")) {
        s3file_t *s;
        gauden_t g;
        logmath_t *lm = logmath_init(1.0001, SENSCR_SHIFT, TRUE);
        uint8 ***mixw = NULL;
        int32 n_sen = 0;
        int rv;
        memset(&g, 0, sizeof(g));
        g.n_feat = atoi(w[4]);
        g.n_density = atoi(w[5]);
        if ((b = load_src(w[2], w[3], &len)) == NULL) { emit(" bad-src"); return; }
        s = s3file_init(b, len);
        rv = read_mixw(s, &g, lm, &n_sen, &mixw, 0.0000001);
        if (rv < 0) emit(" rej"); else emit(" ok %d", n_sen);
        ckd_free_3d(mixw);
        s3file_free(s);
        logmath_free(lm);
    } else {
        emit(" bad-op");
        return;
    }
    free(b);
    free(b2);
    leak_suffix();
}

static int s3_main(void)
{
    char **lines, *w[20], errfile[256];
    size_t nlines, li;
    snprintf(errfile, sizeof(errfile), "%s/h_c17-s3-%d.err", getenv("VERIF_C17_TMP") ? getenv("VERIF_C17_TMP") : ".", (int)getpid());
    lines = read_all_lines(&nlines);
    for (li = 0; li < nlines; li++) {
        s3case_t c;
        c.n = vf_words(lines[li], w, 20);
        c.w = w;
        if (c.n < 2) { printf("bad-op\n"); fflush(stdout); continue; }
        in_child(w[0], errfile, s3_child, &c, 60);
        free(lines[li]);
    }
    free(lines);
    unlink(errfile);
    return 0;
}

int main(int argc, char **argv)
{
    if (argc >= 2 && !strcmp(argv[1], "dec")) return dec_main(argc, argv);
    if (argc >= 2 && !strcmp(argv[1], "s3")) return s3_main();
    fprintf(stderr, "usage: h_c17 dec|s3 ...\n");
    return 2;
}
