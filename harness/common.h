/* shared helpers of the /verif correspondence harnesses */
#ifndef VERIF_COMMON_H
#define VERIF_COMMON_H
#include <stdint.h>
#include <stdio.h>
#include <stdlib.h>
#include <string.h>

static inline int vf_hexval(int c)
{
    if (c >= '0' && c <= '9') return c - '0';
    if (c >= 'a' && c <= 'f') return c - 'a' + 10;
    if (c >= 'A' && c <= 'F') return c - 'A' + 10;
    return -1;
}

/* "-" = empty; returns malloc'ed buffer with a trailing NUL (not counted in *len) */
static inline unsigned char *vf_parse_hex(const char *s, size_t *len)
{
    size_t n = (strcmp(s, "-") == 0) ? 0 : strlen(s) / 2, i;
    unsigned char *b = (unsigned char *)malloc(n + 1);
    for (i = 0; i < n; i++)
        b[i] = (unsigned char)(vf_hexval(s[2 * i]) * 16 + vf_hexval(s[2 * i + 1]));
    b[n] = 0;
    *len = n;
    return b;
}

static inline void vf_print_hex(FILE *f, const unsigned char *b, size_t n)
{
    size_t i;
    if (n == 0) { fputc('-', f); return; }
    for (i = 0; i < n; i++) fprintf(f, "%02x", b[i]);
}

/* split a line in place into at most max words; returns the count */
static inline int vf_words(char *line, char **w, int max)
{
    int n = 0;
    char *p = line;
    while (*p && n < max) {
        while (*p == ' ' || *p == '\n' || *p == '\r' || *p == '\t') p++;
        if (!*p) break;
        w[n++] = p;
        while (*p && *p != ' ' && *p != '\n' && *p != '\r' && *p != '\t') p++;
        if (*p) *p++ = 0;
    }
    return n;
}

/* splitmix64 */
static inline uint64_t vf_rand(uint64_t *s)
{
    uint64_t z = (*s += 0x9E3779B97F4A7C15ULL);
    z = (z ^ (z >> 30)) * 0xBF58476D1CE4E5B9ULL;
    z = (z ^ (z >> 27)) * 0x94D049BB133111EBULL;
    return z ^ (z >> 31);
}
#endif
