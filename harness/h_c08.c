/* C08 harness: utterance / instance isolation of the real decoder (ASan/UBSan build of the working tree).
 *
 * Reads one command per line from stdin, echoes it as "> <line>" (flushed before the library is
 * entered) and prints result lines.  After every state-changing command the set of inventory
 * cells (every field of the generated inventory C08_FIELDS plus the contents of the owned
 * buffers, "<struct>.<field>[]") whose bytes changed is printed as "W <cells>", and the acmod
 * state as "S <state>".
 *
 *   audio <k> <path>                         load int16 mono raw audio into slot k
 *   new <d> <key=value,...>                  decoder d with that configuration
 *   jsgf <d> <hex>   fsg <d> <path>   align <d> <hex>       set the grammar
 *   setcmn <d> <text>   getcmn <d> <update>
 *   start <d>   end <d>   free <d>
 *   proc <d> <k> <off> <len> <no_search> <full_utt> <i|f>   feed audio[k][off..off+len)
 *   chk <d>                                  compare every reset-at-start cell with its canonical value ("R" lines)
 *   poison <d> <seed> <mask>                 1: overwrite every dead-on-start buffer with garbage ("P" lines)
 *                                            2: overwrite log-only counters   4: move ring phases / grow rings
 *   result <d> <flags>                       hypothesis, score, segmentation, frames, CMN ("H","G","N","C" lines)
 *                                            flags&1: lattice summary ("L")   flags&2: alignment ("A")
 *   globals <addr:size:name,...>             hash the given address ranges (writable globals of this binary) ("GL")
 *   cells                                    list the cell names of the snapshot ("CELLS")
 */
#include "common.h"
#include <soundswallower/acmod.h>
#include <soundswallower/alignment.h>
#include <soundswallower/blkarray_list.h>
#include <soundswallower/cmn.h>
#include <soundswallower/decoder.h>
#include <soundswallower/dict.h>
#include <soundswallower/fe.h>
#include <soundswallower/feat.h>
#include <soundswallower/fsg_history.h>
#include <soundswallower/fsg_lextree.h>
#include <soundswallower/fsg_search.h>
#include <soundswallower/hmm.h>
#include <soundswallower/lattice.h>
#include <soundswallower/ms_gauden.h>
#include <soundswallower/ptm_mgau.h>
#include <soundswallower/s2_semi_mgau.h>
#include <soundswallower/search_module.h>
#include <soundswallower/state_align_search.h>
/* struct noise_stats_s is private to fe_noise.c (linked with --allow-multiple-definition) */
#include "fe_noise.c"
#include "c08_fields.h"

#define MAXDEC 4
#define MAXAUD 16
#define MAXINST 200000

static decoder_t *DEC[MAXDEC];
static int16 *AUD[MAXAUD];
static size_t AUDN[MAXAUD];

/* ------------------------------------------------------------------ hashing */
#define FNV0 1469598103934665603ULL
static uint64_t fnv(uint64_t h, const void *p, size_t n)
{
    const unsigned char *b = (const unsigned char *)p;
    size_t i;
    for (i = 0; i < n; i++) {
        h ^= b[i];
        h *= 1099511628211ULL;
    }
    return h;
}

/* globals: `nm -S` sizes of an ASan build include the redzone padding, so this one is not instrumented */
__attribute__((no_sanitize("address"))) static uint64_t fnv_raw(const void *p, size_t n)
{
    const volatile unsigned char *b = (const volatile unsigned char *)p;
    uint64_t h = FNV0;
    size_t i;
    for (i = 0; i < n; i++) {
        h ^= b[i];
        h *= 1099511628211ULL;
    }
    return h;
}

/* ------------------------------------------------------------------ instances of each struct */
static void *INST[MAXINST];

static fsg_search_t *fsgs_of(decoder_t *d)
{
    if (d->search == NULL || strcmp(d->search->type, "fsg") != 0) return NULL;
    return (fsg_search_t *)d->search;
}
static ptm_mgau_t *ptm_of(decoder_t *d)
{
    mgau_t *m = d->acmod->mgau;
    return (m && strcmp(m->vt->name, "ptm") == 0) ? (ptm_mgau_t *)m : NULL;
}
static s2_semi_mgau_t *s2_of(decoder_t *d)
{
    mgau_t *m = d->acmod->mgau;
    return (m && strcmp(m->vt->name, "s2_semi") == 0) ? (s2_semi_mgau_t *)m : NULL;
}
static int all_pnodes(decoder_t *d, void **out, int hmm)
{
    fsg_search_t *f = fsgs_of(d);
    int n = 0, s;
    if (!f || !f->lextree) return 0;
    for (s = 0; s < fsg_model_n_state(f->lextree->fsg); s++) {
        fsg_pnode_t *p;
        for (p = f->lextree->alloc_head[s]; p; p = p->alloc_next) {
            if (n < MAXINST) out[n++] = hmm ? (void *)&p->hmm : (void *)p;
        }
    }
    return n;
}
static int inst_decoder_s(decoder_t *d, void **o) { o[0] = d; return 1; }
static int inst_search_module_s(decoder_t *d, void **o) { if (!d->search) return 0; o[0] = d->search; return 1; }
static int inst_fsg_search_s(decoder_t *d, void **o) { if (!fsgs_of(d)) return 0; o[0] = fsgs_of(d); return 1; }
static int inst_fsg_history_s(decoder_t *d, void **o) { if (!fsgs_of(d)) return 0; o[0] = fsgs_of(d)->history; return 1; }
static int inst_fsg_pnode_s(decoder_t *d, void **o) { return all_pnodes(d, o, 0); }
static int inst_hmm_context_s(decoder_t *d, void **o) { if (!fsgs_of(d)) return 0; o[0] = fsgs_of(d)->hmmctx; return 1; }
static int inst_hmm_s(decoder_t *d, void **o) { return all_pnodes(d, o, 1); }
static int inst_acmod_s(decoder_t *d, void **o) { o[0] = d->acmod; return 1; }
static int inst_mgau_s(decoder_t *d, void **o) { o[0] = d->acmod->mgau; return 1; }
static int inst_ptm_mgau_s(decoder_t *d, void **o) { if (!ptm_of(d)) return 0; o[0] = ptm_of(d); return 1; }
static int inst_ptm_fast_eval_s(decoder_t *d, void **o)
{
    ptm_mgau_t *p = ptm_of(d);
    int i;
    if (!p) return 0;
    for (i = 0; i < p->n_fast_hist; i++) o[i] = p->hist + i;
#ifdef C08_HAS_ptm_mgau_s__replay
    /* second-pass history (same element type) */
    for (i = 0; i < p->n_fast_hist; i++) o[p->n_fast_hist + i] = p->replay + i;
    return 2 * p->n_fast_hist;
#else
    return p->n_fast_hist;
#endif
}
/* the i-th top-N history slot over all histories the scorer keeps */
static int n_fast_slots(ptm_mgau_t *p)
{
#ifdef C08_HAS_ptm_mgau_s__replay
    return 2 * p->n_fast_hist;
#else
    return p->n_fast_hist;
#endif
}
static ptm_fast_eval_t *fast_slot(ptm_mgau_t *p, int i)
{
#ifdef C08_HAS_ptm_mgau_s__replay
    if (i >= p->n_fast_hist) return p->replay + (i - p->n_fast_hist);
#endif
    return p->hist + i;
}
static int inst_s2_semi_mgau_s(decoder_t *d, void **o) { if (!s2_of(d)) return 0; o[0] = s2_of(d); return 1; }
static int inst_feat_s(decoder_t *d, void **o) { o[0] = d->acmod->fcb; return 1; }
static int inst_cmn_t(decoder_t *d, void **o) { if (!d->acmod->fcb->cmn_struct) return 0; o[0] = d->acmod->fcb->cmn_struct; return 1; }
static int inst_fe_s(decoder_t *d, void **o) { o[0] = d->acmod->fe; return 1; }
static int inst_noise_stats_s(decoder_t *d, void **o) { if (!d->acmod->fe->noise_stats) return 0; o[0] = d->acmod->fe->noise_stats; return 1; }

/* one getter per inventoried field: hash of the raw bytes of the field over all live instances */
#define F_GET(ctype, sname, fname)                                        \
    static uint64_t get_##sname##__##fname(decoder_t *d)                  \
    {                                                                     \
        uint64_t h = FNV0;                                                \
        int i, n = inst_##sname(d, INST);                                 \
        h = fnv(h, &n, sizeof n);                                         \
        for (i = 0; i < n; i++) {                                         \
            ctype *p = (ctype *)INST[i];                                  \
            h = fnv(h, &p->fname, sizeof p->fname);                       \
        }                                                                 \
        return h;                                                         \
    }
C08_FIELDS(F_GET)

/* ------------------------------------------------------------------ owned buffers */
typedef struct { void *p; size_t n; } span_t;
static int featk(feat_t *f)
{
    int k = 0, i;
    for (i = 0; i < f->n_stream; i++) k += f->stream_len[i];
    return k;
}
static size_t bitvec_bytes(int n) { return (size_t)bitvec_size(n) * sizeof(bitvec_t); }
static int ncepbuf(feat_t *f) { return (LIVEBUFBLOCKSIZE < f->window_size * 2) ? f->window_size * 2 : LIVEBUFBLOCKSIZE; }

/* spans of the buffer <name> of decoder d (several for per-instance buffers); returns count */
#define MAXSPAN 8
static int buf_spans(decoder_t *d, const char *name, span_t *o)
{
    acmod_t *a = d->acmod;
    feat_t *f = a->fcb;
    fe_t *fe = a->fe;
    cmn_t *c = f->cmn_struct;
    noise_stats_t *ns = fe->noise_stats;
    ptm_mgau_t *pm = ptm_of(d);
    fsg_search_t *fs = fsgs_of(d);
    int n = 0, i;
#define SP(ptr, bytes) do { if ((ptr) != NULL) { o[n].p = (void *)(ptr); o[n].n = (bytes); n++; } } while (0)
    if (!strcmp(name, "acmod_s.mfc_buf[]")) SP(a->mfc_buf[0], (size_t)a->n_mfc_alloc * f->cepsize * sizeof(mfcc_t));
    else if (!strcmp(name, "acmod_s.feat_buf[]")) SP(a->feat_buf[0][0], (size_t)a->n_feat_alloc * featk(f) * sizeof(mfcc_t));
    else if (!strcmp(name, "acmod_s.senone_scores[]")) SP(a->senone_scores, (size_t)bin_mdef_n_sen(a->mdef) * sizeof(int16));
    else if (!strcmp(name, "acmod_s.senone_active[]")) SP(a->senone_active, (size_t)bin_mdef_n_sen(a->mdef));
    else if (!strcmp(name, "acmod_s.senone_active_vec[]")) SP(a->senone_active_vec, bitvec_bytes(bin_mdef_n_sen(a->mdef)));
    else if (!strcmp(name, "feat_s.cepbuf[]")) SP(f->cepbuf[0], (size_t)ncepbuf(f) * f->cepsize * sizeof(mfcc_t));
    else if (!strcmp(name, "feat_s.tmpcepbuf[]")) SP(f->tmpcepbuf, (size_t)(2 * f->window_size + 1) * sizeof(mfcc_t *));
    else if (!strcmp(name, "feat_s.sv_buf[]")) SP(f->sv_buf, (size_t)f->sv_dim * sizeof(mfcc_t));
    else if (!strcmp(name, "cmn_t.cmn_mean[]")) { if (c) SP(c->cmn_mean, (size_t)c->veclen * sizeof(mfcc_t)); }
    else if (!strcmp(name, "cmn_t.cmn_var[]")) { if (c) SP(c->cmn_var, (size_t)c->veclen * sizeof(mfcc_t)); }
    else if (!strcmp(name, "cmn_t.sum[]")) { if (c) SP(c->sum, (size_t)c->veclen * sizeof(mfcc_t)); }
    else if (!strcmp(name, "cmn_t.repr[]")) { if (c && c->repr) SP(c->repr, strlen(c->repr)); }
    else if (!strcmp(name, "fe_s.spch[]")) SP(fe->spch, (size_t)fe->frame_size * sizeof(*fe->spch));
    else if (!strcmp(name, "fe_s.overflow_samps[]")) SP(fe->overflow_samps, (size_t)fe->frame_size * sizeof(*fe->overflow_samps));
    else if (!strcmp(name, "fe_s.frame[]")) SP(fe->frame, (size_t)fe->fft_size * sizeof(*fe->frame));
    else if (!strcmp(name, "fe_s.spec[]")) SP(fe->spec, (size_t)fe->fft_size * sizeof(*fe->spec));
    else if (!strcmp(name, "fe_s.mfspec[]")) SP(fe->mfspec, (size_t)fe->mel_fb->num_filters * sizeof(*fe->mfspec));
    else if (!strcmp(name, "noise_stats_s.power[]")) { if (ns) SP(ns->power, (size_t)ns->num_filters * sizeof(powspec_t)); }
    else if (!strcmp(name, "noise_stats_s.noise[]")) { if (ns) SP(ns->noise, (size_t)ns->num_filters * sizeof(powspec_t)); }
    else if (!strcmp(name, "noise_stats_s.floor[]")) { if (ns) SP(ns->floor, (size_t)ns->num_filters * sizeof(powspec_t)); }
    else if (!strcmp(name, "noise_stats_s.peak[]")) { if (ns) SP(ns->peak, (size_t)ns->num_filters * sizeof(powspec_t)); }
    else if (!strcmp(name, "noise_stats_s.signal[]")) { if (ns) SP(ns->signal, (size_t)ns->num_filters * sizeof(powspec_t)); }
    else if (!strcmp(name, "noise_stats_s.gain[]")) { if (ns) SP(ns->gain, (size_t)ns->num_filters * sizeof(powspec_t)); }
    else if (!strcmp(name, "ptm_fast_eval_s.topn[]")) {
        if (pm) for (i = 0; i < n_fast_slots(pm) && n < MAXSPAN; i++)
            SP(fast_slot(pm, i)->topn[0][0], (size_t)pm->g->n_mgau * pm->g->n_feat * pm->max_topn * sizeof(ptm_topn_t));
    } else if (!strcmp(name, "ptm_fast_eval_s.mgau_active[]")) {
        if (pm) for (i = 0; i < n_fast_slots(pm) && n < MAXSPAN; i++)
            SP(fast_slot(pm, i)->mgau_active, bitvec_bytes(pm->g->n_mgau));
    } else if (!strcmp(name, "hmm_context_s.st_sen_scr[]")) { if (fs) SP(fs->hmmctx->st_sen_scr, (size_t)fs->hmmctx->n_emit_state * sizeof(int32)); }
    else if (!strcmp(name, "search_module_s.hyp_str[]")) { if (d->search && d->search->hyp_str) SP(d->search->hyp_str, strlen(d->search->hyp_str)); }
    else if (!strcmp(name, "ptm_mgau_s.g[]")) {
        if (pm) {
            int tot = 0;
            for (i = 0; i < pm->g->n_feat; i++) tot += pm->g->featlen[i];
            SP(pm->g->mean[0][0][0], (size_t)pm->g->n_mgau * pm->g->n_density * tot * sizeof(mfcc_t));
            SP(pm->g->var[0][0][0], (size_t)pm->g->n_mgau * pm->g->n_density * tot * sizeof(mfcc_t));
            SP(pm->g->det[0][0], (size_t)pm->g->n_mgau * pm->g->n_feat * pm->g->n_density * sizeof(mfcc_t));
        }
    } else if (!strcmp(name, "ptm_mgau_s.sen2cb[]")) { if (pm) SP(pm->sen2cb, (size_t)pm->n_sen); }
#undef SP
    return n;
}
static const char *BUFS[] = {
    "acmod_s.mfc_buf[]", "acmod_s.feat_buf[]", "acmod_s.senone_scores[]",
    "acmod_s.senone_active[]", "acmod_s.senone_active_vec[]", "feat_s.cepbuf[]", "feat_s.tmpcepbuf[]",
    "feat_s.sv_buf[]", "cmn_t.cmn_mean[]", "cmn_t.cmn_var[]", "cmn_t.sum[]", "cmn_t.repr[]", "fe_s.spch[]",
    "fe_s.overflow_samps[]", "fe_s.frame[]", "fe_s.spec[]", "fe_s.mfspec[]", "noise_stats_s.power[]",
    "noise_stats_s.noise[]", "noise_stats_s.floor[]", "noise_stats_s.peak[]", "noise_stats_s.signal[]",
    "noise_stats_s.gain[]", "ptm_fast_eval_s.topn[]", "ptm_fast_eval_s.mgau_active[]",
    "hmm_context_s.st_sen_scr[]", "search_module_s.hyp_str[]", "ptm_mgau_s.g[]", "ptm_mgau_s.sen2cb[]", NULL
};
/* structured owned data that is not one span */
static uint64_t hash_history(decoder_t *d)
{
    fsg_search_t *fs = fsgs_of(d);
    uint64_t h = FNV0;
    int i, n;
    if (!fs) return h;
    n = fsg_history_n_entries(fs->history);
    h = fnv(h, &n, sizeof n);
    for (i = 0; i < n; i++) {
        fsg_hist_entry_t *e = fsg_history_entry_get(fs->history, i);
        h = fnv(h, &e->fsglink, sizeof e->fsglink);
        h = fnv(h, &e->score, sizeof e->score);
        h = fnv(h, &e->pred, sizeof e->pred);
        h = fnv(h, &e->frame, sizeof e->frame);
        h = fnv(h, &e->lc, sizeof e->lc);
        h = fnv(h, &e->rc, sizeof e->rc);
    }
    return h;
}
static int frame_entries_nonnull(decoder_t *d)
{
    fsg_search_t *fs = fsgs_of(d);
    int s, lc, k = 0;
    if (!fs || !fs->history->frame_entries) return 0;
    for (s = 0; s < fsg_model_n_state(fs->history->fsg); s++)
        for (lc = 0; lc < fs->history->n_ciphone; lc++)
            if (fs->history->frame_entries[s][lc]) k++;
    return k;
}
static uint64_t hash_glist(glist_t g)
{
    uint64_t h = FNV0;
    gnode_t *gn;
    for (gn = g; gn; gn = gnode_next(gn)) {
        void *p = gnode_ptr(gn);
        h = fnv(h, &p, sizeof p);
    }
    return h;
}

/* ------------------------------------------------------------------ snapshot */
typedef struct { const char *name; uint64_t (*get)(decoder_t *); } cell_t;
#define F_CELL(ctype, sname, fname) { #sname "." #fname, get_##sname##__##fname },
static cell_t CELLS[] = { C08_FIELDS(F_CELL) { NULL, NULL } };
static int nbufs(void) { int n = 0; while (BUFS[n]) n++; return n; }
#define NBUF (nbufs())
#define NEXTRA 4
static const char *EXTRA[NEXTRA] = { "fsg_history_s.entries[]", "fsg_history_s.frame_entries[]",
                                     "fsg_search_s.pnode_active[]", "fsg_search_s.pnode_active_next[]" };
#define MAXCELL 512
static uint64_t SNAP[MAXDEC][MAXCELL];
static int ncells(void)
{
    int n = 0;
    while (CELLS[n].name) n++;
    return n;
}
static const char *cell_name(int i)
{
    int n = ncells();
    if (i < n) return CELLS[i].name;
    if (i < n + NBUF) return BUFS[i - n];
    return EXTRA[i - n - NBUF];
}
static int total_cells(void) { return ncells() + NBUF + NEXTRA; }
static int deep_snap = 0; /* include the big persistent tables */
static void snapshot(decoder_t *d, uint64_t *out)
{
    int n = ncells(), i, k;
    span_t sp[MAXSPAN];
    for (i = 0; i < n; i++) out[i] = CELLS[i].get(d);
    for (i = 0; i < NBUF; i++) {
        uint64_t h = FNV0;
        if (!deep_snap && !strncmp(BUFS[i], "ptm_mgau_s.", 11)) { out[n + i] = 0; continue; }
        int m = buf_spans(d, BUFS[i], sp);
        for (k = 0; k < m; k++) h = fnv(h, sp[k].p, sp[k].n);
        out[n + i] = h;
    }
    out[n + NBUF + 0] = hash_history(d);
    out[n + NBUF + 1] = (uint64_t)frame_entries_nonnull(d);
    out[n + NBUF + 2] = fsgs_of(d) ? hash_glist(fsgs_of(d)->pnode_active) : 0;
    out[n + NBUF + 3] = fsgs_of(d) ? hash_glist(fsgs_of(d)->pnode_active_next) : 0;
}
static void snap_begin(int di) { if (DEC[di]) snapshot(DEC[di], SNAP[di]); }
static void snap_end(int di)
{
    static uint64_t now[MAXCELL];
    int i, first = 1, n = total_cells();
    if (!DEC[di]) { printf("W -\n"); return; }
    snapshot(DEC[di], now);
    printf("W ");
    for (i = 0; i < n; i++)
        if (now[i] != SNAP[di][i]) {
            printf("%s%s", first ? "" : ",", cell_name(i));
            first = 0;
        }
    if (first) printf("-");
    printf("\n");
    printf("S %d\n", DEC[di]->acmod->state);
}

/* ------------------------------------------------------------------ reset check */
static int nbad_reset = 0;
static void R(const char *cell, int ok, long long obs, const char *canon)
{
    printf("R %s %s %lld %s\n", cell, ok ? "ok" : "BAD", obs, canon);
    if (!ok) nbad_reset++;
}
static int all_zero(const void *p, size_t n)
{
    const unsigned char *b = (const unsigned char *)p;
    size_t i;
    for (i = 0; i < n; i++) if (b[i]) return 0;
    return 1;
}
static void cmd_chk(decoder_t *d)
{
    acmod_t *a = d->acmod;
    fe_t *fe = a->fe;
    fsg_search_t *fs = fsgs_of(d);
    int i, n, nact = 0, bad_inact = 0, bad_act = 0;
    R("decoder_s.json_result", d->json_result == NULL, d->json_result != NULL, "NULL");
    R("decoder_s.align", d->align == NULL, d->align != NULL, "NULL");
    R("search_module_s.hyp_str", d->search->hyp_str == NULL, d->search->hyp_str != NULL, "NULL");
    R("search_module_s.dag", d->search->dag == NULL, d->search->dag != NULL, "NULL");
    R("search_module_s.last_link", d->search->last_link == NULL, d->search->last_link != NULL, "NULL");
    R("search_module_s.post", d->search->post == 0, d->search->post, "0");
    R("acmod_s.state", a->state == ACMOD_STARTED, a->state, "ACMOD_STARTED");
    R("acmod_s.n_mfc_frame", a->n_mfc_frame == 0, a->n_mfc_frame, "0");
    R("acmod_s.n_feat_frame", a->n_feat_frame == 0, a->n_feat_frame, "0");
    R("acmod_s.mfc_outidx", a->mfc_outidx == 0, a->mfc_outidx, "0");
    R("acmod_s.feat_outidx", a->feat_outidx == 0, a->feat_outidx, "0");
    R("acmod_s.output_frame", a->output_frame == 0, a->output_frame, "0");
    R("acmod_s.senscr_frame", a->senscr_frame == -1, a->senscr_frame, "-1");
    R("acmod_s.n_senone_active", a->n_senone_active == 0, a->n_senone_active, "0");
    R("mgau_s.frame_idx", a->mgau->frame_idx == 0, a->mgau->frame_idx, "0");
#ifdef C08_HAS_mgau_s__hw_frame
    R("mgau_s.hw_frame", a->mgau->hw_frame == 0, a->mgau->hw_frame, "0");
#endif
    R("fe_s.num_overflow_samps", fe->num_overflow_samps == 0, fe->num_overflow_samps, "0");
    R("fe_s.overflow_samps", all_zero(fe->overflow_samps, fe->frame_size * sizeof(*fe->overflow_samps)), 0, "all-zero");
    R("fe_s.pre_emphasis_prior", fe->pre_emphasis_prior == 0, (long long)fe->pre_emphasis_prior, "0");
    if (fe->noise_stats)
        R("noise_stats_s.undefined", fe->noise_stats->undefined == TRUE, fe->noise_stats->undefined, "TRUE");
    if (fs) {
        R("fsg_search_s.beam_factor", fs->beam_factor == 1.0f, (long long)(fs->beam_factor * 1000), "1.0");
        R("fsg_search_s.beam", fs->beam == fs->beam_orig, fs->beam, "=beam_orig");
        R("fsg_search_s.pbeam", fs->pbeam == fs->pbeam_orig, fs->pbeam, "=pbeam_orig");
        R("fsg_search_s.wbeam", fs->wbeam == fs->wbeam_orig, fs->wbeam, "=wbeam_orig");
        R("fsg_search_s.frame", fs->frame == 0, fs->frame, "0");
        R("fsg_search_s.final", fs->final == FALSE, fs->final, "FALSE");
        R("fsg_search_s.bestscore", fs->bestscore == 0, fs->bestscore, "0");
        R("fsg_search_s.bpidx_start", fs->bpidx_start == 0, fs->bpidx_start, "0");
        R("fsg_search_s.n_hmm_eval", fs->n_hmm_eval == 0, fs->n_hmm_eval, "0");
        R("fsg_search_s.n_sen_eval", fs->n_sen_eval == 0, fs->n_sen_eval, "0");
        R("fsg_search_s.pnode_active_next", fs->pnode_active_next == NULL, fs->pnode_active_next != NULL, "NULL");
        R("fsg_history_s.frame_entries", frame_entries_nonnull(d) == 0, frame_entries_nonnull(d), "all-NULL");
        {
            /* the table holds exactly the dummy start entry and its null closure (all in frame -1) */
            int ne = fsg_history_n_entries(fs->history), late = 0;
            for (i = 0; i < ne; i++)
                if (fsg_history_entry_get(fs->history, i)->frame != -1) late++;
            R("fsg_history_s.entries", ne >= 1 && late == 0, ne, "=start-entry-and-null-closure");
        }
        /* every HMM is either freshly entered for frame 0 (exactly those on the active list) or cleared */
        n = all_pnodes(d, INST, 1);
        for (i = 0; i < n; i++) {
            hmm_t *h = (hmm_t *)INST[i];
            int k, clean = 1;
            if (h->frame == 0) {
                nact++;
                for (k = 1; k < h->n_emit_state; k++) if (h->score[k] != WORST_SCORE || h->history[k] != -1) clean = 0;
                if (h->out_score != WORST_SCORE || h->out_history != -1 || h->bestscore != WORST_SCORE) clean = 0;
                if (!(h->score[0] BETTER_THAN WORST_SCORE)) clean = 0;
                if (!clean) bad_act++;
            } else {
                if (h->frame != -1) clean = 0;
                for (k = 0; k < h->n_emit_state; k++) if (h->score[k] != WORST_SCORE || h->history[k] != -1) clean = 0;
                if (h->out_score != WORST_SCORE || h->out_history != -1 || h->bestscore != WORST_SCORE) clean = 0;
                if (!clean) bad_inact++;
            }
        }
        R("hmm_s.score", bad_inact == 0 && bad_act == 0, bad_inact + bad_act, "cleared-unless-entered-at-start");
        R("hmm_s.history", bad_inact == 0 && bad_act == 0, bad_inact + bad_act, "cleared-unless-entered-at-start");
        R("hmm_s.out_score", bad_inact == 0 && bad_act == 0, bad_inact + bad_act, "cleared-unless-entered-at-start");
        R("hmm_s.out_history", bad_inact == 0 && bad_act == 0, bad_inact + bad_act, "cleared-unless-entered-at-start");
        R("hmm_s.bestscore", bad_inact == 0 && bad_act == 0, bad_inact + bad_act, "cleared-unless-entered-at-start");
        R("hmm_s.frame", bad_inact == 0, bad_inact, "cleared-unless-entered-at-start");
        {
            int nl = 0;
            gnode_t *gn;
            for (gn = fs->pnode_active; gn; gn = gnode_next(gn)) {
                fsg_pnode_t *p = (fsg_pnode_t *)gnode_ptr(gn);
                if (p->hmm.frame != 0) bad_act++;
                nl++;
            }
            R("fsg_search_s.pnode_active", nl == nact && bad_act == 0, nl, "=HMMs-entered-at-start");
            /* start digest: a function of the grammar alone (compared with a fresh decoder by the check) */
            printf("SD entries=%d active=%d hist=%016llx\n", fsg_history_n_entries(fs->history), nl,
                   (unsigned long long)0);
        }
    }
}

/* ------------------------------------------------------------------ poisoning */
/* closer (C08-em2 class): the model's `restCells` (the HMM state of the lextree, the active lists) rest at their canonical
 * value BETWEEN utterances — `decoder_end_utt` const-writes them (Model/Api.lean `spec _ .endUtt` / `.endUttEmpty`, constW [.hmm]),
 * whether or not the utterance produced a frame.  Read-back right after decoder_end_utt. */
static void cmd_rest(decoder_t *d)
{
    fsg_search_t *fs = fsgs_of(d);
    int i, n, dirty = 0;
    R("acmod_s.state@end", d->acmod->state == ACMOD_ENDED, d->acmod->state, "ACMOD_ENDED");
    R("decoder_s.align@end", d->align == NULL, d->align != NULL, "NULL");
    if (!fs) return;
    R("fsg_search_s.final@end", fs->final == TRUE, fs->final, "TRUE");
    R("fsg_search_s.pnode_active@end", fs->pnode_active == NULL, fs->pnode_active != NULL, "NULL");
    R("fsg_search_s.pnode_active_next@end", fs->pnode_active_next == NULL, fs->pnode_active_next != NULL, "NULL");
    n = all_pnodes(d, INST, 1);
    for (i = 0; i < n; i++) {
        hmm_t *h = (hmm_t *)INST[i];
        int k, clean = (h->frame == -1);
        for (k = 0; k < h->n_emit_state; k++) if (h->score[k] != WORST_SCORE || h->history[k] != -1) clean = 0;
        if (h->out_score != WORST_SCORE || h->out_history != -1 || h->bestscore != WORST_SCORE) clean = 0;
        if (!clean) dirty++;
    }
    R("hmm_s@end", dirty == 0, dirty, "every-HMM-cleared");
}

static uint64_t PRNG;
static void garbage(void *p, size_t n)
{
    unsigned char *b = (unsigned char *)p;
    size_t i;
    for (i = 0; i < n; i += 8) {
        uint64_t r = vf_rand(&PRNG);
        size_t k = n - i < 8 ? n - i : 8;
        memcpy(b + i, &r, k);
    }
}
static mfcc_t POISON_ROW[64];
static int16 POISON_SEN[70000];
static void poison_buf(decoder_t *d, const char *name)
{
    span_t sp[MAXSPAN];
    int m = buf_spans(d, name, sp), k;
    size_t tot = 0;
    for (k = 0; k < m; k++) {
        garbage(sp[k].p, sp[k].n);
        tot += sp[k].n;
    }
    printf("P %s %zu\n", name, tot);
}
static void cmd_poison(decoder_t *d, uint64_t seed, int mask)
{
    acmod_t *a = d->acmod;
    feat_t *f = a->fcb;
    fe_t *fe = a->fe;
    fsg_search_t *fs = fsgs_of(d);
    ptm_mgau_t *pm = ptm_of(d);
    int i, j, k, m;
    PRNG = seed;
    if (mask & 1) {
        static const char *dead[] = {
            "acmod_s.mfc_buf[]", "acmod_s.feat_buf[]", "acmod_s.senone_scores[]",
            "acmod_s.senone_active[]", "acmod_s.senone_active_vec[]", "feat_s.cepbuf[]", "feat_s.sv_buf[]",
            "cmn_t.cmn_var[]", "fe_s.spch[]", "fe_s.frame[]", "fe_s.spec[]", "fe_s.mfspec[]",
            "noise_stats_s.power[]", "noise_stats_s.noise[]", "noise_stats_s.floor[]", "noise_stats_s.peak[]",
            "noise_stats_s.signal[]", "noise_stats_s.gain[]", "ptm_fast_eval_s.mgau_active[]",
            "hmm_context_s.st_sen_scr[]", NULL };
        for (i = 0; dead[i]; i++) poison_buf(d, dead[i]);
        /* pointers: aim them at garbage that is safe to dereference */
        garbage(POISON_ROW, sizeof POISON_ROW);
        garbage(POISON_SEN, sizeof POISON_SEN);
        for (i = 0; i < 2 * f->window_size + 1; i++) f->tmpcepbuf[i] = POISON_ROW;
        printf("P feat_s.tmpcepbuf[] %zu\n", (size_t)(2 * f->window_size + 1) * sizeof(mfcc_t *));
        if (fe->noise_stats) {
            garbage(&fe->noise_stats->slow_peak_sum, sizeof fe->noise_stats->slow_peak_sum);
            printf("P noise_stats_s.slow_peak_sum %zu\n", sizeof fe->noise_stats->slow_peak_sum);
        }
        if (fs) {
            fs->hmmctx->senscore = POISON_SEN;
            printf("P hmm_context_s.senscore %zu\n", sizeof fs->hmmctx->senscore);
        }
        if (pm) {
            /* top-N history: any list of distinct valid codewords with any scores is a legal old content */
            for (i = 0; i < n_fast_slots(pm); i++)
                for (j = 0; j < pm->g->n_mgau; j++)
                    for (k = 0; k < pm->g->n_feat; k++) {
                        ptm_topn_t *tn = fast_slot(pm, i)->topn[j][k];
                        int base = (int)(vf_rand(&PRNG) % (uint64_t)pm->g->n_density);
                        int step = 1 + (int)(vf_rand(&PRNG) % 7);
                        for (m = 0; m < pm->max_topn; m++) {
                            tn[m].cw = (base + m * step) % pm->g->n_density;
                            tn[m].score = (int32)(vf_rand(&PRNG) % 2000000) - 1900000;
                        }
                        /* keep them distinct when n_density is small */
                        for (m = 1; m < pm->max_topn; m++) {
                            int q, dup = 0;
                            for (q = 0; q < m; q++)
                                if (tn[q].cw == tn[m].cw) dup = 1;
                            if (dup)
                                for (m = 0; m < pm->max_topn; m++) tn[m].cw = (base + m) % pm->g->n_density;
                        }
                    }
            printf("P ptm_fast_eval_s.topn[] %zu\n", (size_t)n_fast_slots(pm) * pm->g->n_mgau * pm->g->n_feat * pm->max_topn * sizeof(ptm_topn_t));
            pm->f = pm->hist + (vf_rand(&PRNG) % (uint64_t)pm->n_fast_hist);
            printf("P ptm_mgau_s.f %zu\n", sizeof pm->f);
        }
    }
    if (mask & 2) {
        garbage(&d->uttno, sizeof d->uttno);
        garbage(&d->n_frame, sizeof d->n_frame);
        garbage(&d->perf.t_tot_cpu, sizeof d->perf.t_tot_cpu);
        garbage(&d->perf.t_tot_elapsed, sizeof d->perf.t_tot_elapsed);
        printf("P decoder_s.uttno 4\nP decoder_s.n_frame 4\nP decoder_s.perf 16\n");
        if (fs) {
            garbage(&fs->n_tot_frame, sizeof fs->n_tot_frame);
            fs->n_tot_frame &= 0xfffff;
            garbage(&fs->perf.t_tot_cpu, sizeof fs->perf.t_tot_cpu);
            garbage(&fs->perf.t_tot_elapsed, sizeof fs->perf.t_tot_elapsed);
            printf("P fsg_search_s.n_tot_frame 4\nP fsg_search_s.perf 16\n");
        }
    }
    if (mask & 4) {
        /* legal layout changes: ring phase of the live window, larger rings */
        int r = (int)(vf_rand(&PRNG) % (uint64_t)ncepbuf(f));
        f->bufpos = f->curpos = r;
        printf("P feat_s.bufpos 4\nP feat_s.curpos 4\n");
        acmod_grow_feat_buf(a, a->n_feat_alloc + 1 + (int)(vf_rand(&PRNG) % 300));
        printf("P acmod_s.n_feat_alloc 4\n");
    }
}

/* ------------------------------------------------------------------ results */
static void print_str(const char *tag, const char *s)
{
    printf("%s ", tag);
    if (s == NULL) printf("(null)");
    else vf_print_hex(stdout, (const unsigned char *)s, strlen(s));
    printf("\n");
}
static int cmp_str(const void *a, const void *b) { return strcmp(*(char *const *)a, *(char *const *)b); }
static void cmd_result(decoder_t *d, int flags)
{
    int32 score = 0;
    const char *hyp = decoder_hyp(d, &score);
    seg_iter_t *seg;
    cmn_t *c = d->acmod->fcb->cmn_struct;
    int nseg = 0;
    printf("H %d ", hyp ? score : 0);
    if (hyp) vf_print_hex(stdout, (const unsigned char *)hyp, strlen(hyp)); else printf("(null)");
    printf("\n");
    for (seg = decoder_seg_iter(d); seg; seg = seg_iter_next(seg)) {
        int sf, ef;
        int32 ascr, lscr, post;
        seg_iter_frames(seg, &sf, &ef);
        post = seg_iter_prob(seg, &ascr, &lscr);
        printf("G %s %d %d %d %d %d\n", seg_iter_word(seg), sf, ef, ascr, lscr, post);
        nseg++;
    }
    printf("N frames=%d nseg=%d prob=%d\n", decoder_n_frames(d), nseg, decoder_prob(d));
    if (flags & 1) {
        lattice_t *dag = decoder_lattice(d);
        if (dag == NULL) printf("L (null)\n");
        else {
            latnode_t *nd;
            int nn = 0, nl = 0, cap = 0, i;
            char **lines = NULL;
            uint64_t h = FNV0;
            for (nd = dag->nodes; nd; nd = nd->next) {
                latlink_list_t *x;
                nn++;
                for (x = nd->exits; x; x = x->next) {
                    char buf[256];
                    snprintf(buf, sizeof buf, "%d:%d:%d:%d>%d:%d/%d:%d", nd->wid, nd->sf, nd->fef, nd->lef,
                             x->link->to->wid, x->link->to->sf, x->link->ascr, x->link->ef);
                    if (nl == cap) { cap = cap ? cap * 2 : 64; lines = (char **)realloc(lines, cap * sizeof(char *)); }
                    lines[nl++] = strdup(buf);
                }
            }
            if (nl > 0) qsort(lines, nl, sizeof(char *), cmp_str);   /* a lattice may have nodes but no links */
            for (i = 0; i < nl; i++) { h = fnv(h, lines[i], strlen(lines[i]) + 1); free(lines[i]); }
            free(lines);
            printf("L nodes=%d links=%d nframes=%d start=%d:%d end=%d:%d digest=%016llx\n", nn, nl, dag->n_frames,
                   dag->start ? dag->start->wid : -1, dag->start ? dag->start->sf : -1,
                   dag->end ? dag->end->wid : -1, dag->end ? dag->end->sf : -1, (unsigned long long)h);
        }
    }
    if ((flags & 2) && hyp != NULL) {
        /* only when a real word was recognised (an all-null segmentation is defect D27, C09's business) */
        int real = 0;
        for (seg = decoder_seg_iter(d); seg; seg = seg_iter_next(seg))
            if (dict_wordid(d->dict, seg_iter_word(seg)) != BAD_S3WID) real = 1;
        if (real) {
            alignment_t *al = decoder_alignment(d);
            if (al == NULL) printf("A (null)\n");
            else {
                alignment_iter_t *it;
                uint64_t h = FNV0;
                int nw = 0, np = 0, nst = 0;
                for (it = alignment_words(al); it; it = alignment_iter_next(it)) {
                    int st, du, sc = alignment_iter_seg(it, &st, &du);
                    h = fnv(h, &st, sizeof st); h = fnv(h, &du, sizeof du); h = fnv(h, &sc, sizeof sc);
                    nw++;
                }
                for (it = alignment_phones(al); it; it = alignment_iter_next(it)) {
                    int st, du, sc = alignment_iter_seg(it, &st, &du);
                    h = fnv(h, &st, sizeof st); h = fnv(h, &du, sizeof du); h = fnv(h, &sc, sizeof sc);
                    np++;
                }
                for (it = alignment_states(al); it; it = alignment_iter_next(it)) {
                    int st, du, sc = alignment_iter_seg(it, &st, &du);
                    h = fnv(h, &st, sizeof st); h = fnv(h, &du, sizeof du); h = fnv(h, &sc, sizeof sc);
                    nst++;
                }
                printf("A words=%d phones=%d states=%d digest=%016llx\n", nw, np, nst, (unsigned long long)h);
            }
        }
    }
    /* the channel-normalisation state after the utterance is part of the result */
    print_str("C", decoder_get_cmn(d, 0));
    if (c) {
        uint64_t h = FNV0;
        h = fnv(h, c->cmn_mean, c->veclen * sizeof(mfcc_t));
        h = fnv(h, c->sum, c->veclen * sizeof(mfcc_t));
        printf("CS nframe=%d digest=%016llx\n", c->nframe, (unsigned long long)h);
        printf("I cmn_mode=%d\n", (int)d->acmod->fcb->cmn);
    }
}

/* ------------------------------------------------------------------ main loop */
static decoder_t *make_decoder(char *kv)
{
    config_t *c = config_init(NULL);
    char *tok, *save = NULL;
    config_set_str(c, "loglevel", "FATAL");
    for (tok = strtok_r(kv, ",", &save); tok; tok = strtok_r(NULL, ",", &save)) {
        char *eq = strchr(tok, '=');
        if (!eq) continue;
        *eq = 0;
        {
            char *q;
            for (q = eq + 1; *q; q++) if (*q == '~') *q = ' ';      /* '~' stands for a blank inside a value */
        }
        if (config_set_str(c, tok, eq + 1) == NULL) printf("E config %s\n", tok);
    }
    return decoder_init(c);
}

int main(void)
{
    static char line[1 << 16];
    err_set_loglevel(ERR_FATAL);
    while (fgets(line, sizeof line, stdin)) {
        char *w[16];
        char echo[256];
        int n, di;
        snprintf(echo, sizeof echo, "%s", line);
        echo[strcspn(echo, "\n")] = 0;
        printf("> %s\n", echo);
        fflush(stdout);
        n = vf_words(line, w, 16);
        if (n == 0) continue;
        di = n > 1 ? atoi(w[1]) : 0;
        if (!strcmp(w[0], "audio") && n == 3) {
            FILE *f = fopen(w[2], "rb");
            long sz;
            if (di < 0 || di >= MAXAUD) { printf("E bad audio slot\n"); fflush(stdout); continue; }
            if (!f) { printf("E cannot open %s\n", w[2]); fflush(stdout); continue; }
            fseek(f, 0, SEEK_END); sz = ftell(f); rewind(f);
            free(AUD[di]);
            AUD[di] = (int16 *)malloc(sz + 2);
            AUDN[di] = fread(AUD[di], 2, sz / 2, f);
            fclose(f);
            printf("ok %zu\n", AUDN[di]);
        } else if (!strcmp(w[0], "globals") && n == 2) {
            char *tok, *save = NULL;
            for (tok = strtok_r(w[1], ",", &save); tok; tok = strtok_r(NULL, ",", &save)) {
                unsigned long long addr, sz;
                char nm[128];
                if (sscanf(tok, "%llx:%llu:%127s", &addr, &sz, nm) == 3)
                    printf("GL %s %016llx\n", nm, (unsigned long long)fnv_raw((void *)(uintptr_t)addr, (size_t)sz));
            }
        } else if (di < 0 || di >= MAXDEC) {
            printf("E bad decoder index\n");
        } else if (!strcmp(w[0], "cells")) {
            int i;
            printf("CELLS");
            for (i = 0; i < total_cells(); i++) printf(" %s", cell_name(i));
            printf("\n");
        } else if (!strcmp(w[0], "deep") && n == 2) {
            deep_snap = atoi(w[1]);
            printf("ok\n");
        } else if (!strcmp(w[0], "new") && n == 3) {
            DEC[di] = make_decoder(w[2]);
            if (DEC[di])
                printf("ok mgau=%s frame_size=%d frame_shift=%d\n", DEC[di]->acmod->mgau->vt->name,
                       (int)DEC[di]->acmod->fe->frame_size, (int)DEC[di]->acmod->fe->frame_shift);
            else
                printf("E init\n");
        } else if (DEC[di] == NULL) {
            printf("E no decoder\n");
        } else if (!strcmp(w[0], "jsgf") && n == 3) {
            size_t len;
            char *s = (char *)vf_parse_hex(w[2], &len);
            snap_begin(di);
            printf("rv %d\n", decoder_set_jsgf_string(DEC[di], s));
            free(s);
            snap_end(di);
        } else if (!strcmp(w[0], "fsg") && n == 3) {
            fsg_model_t *fsg = fsg_model_readfile(w[2], DEC[di]->lmath, config_float(DEC[di]->config, "lw"));
            snap_begin(di);
            if (!fsg) printf("rv -1\n");
            else {
                int rv = decoder_set_fsg(DEC[di], fsg);
                /* (the decoder consumes `fsg` also when it refuses it: fsg_search_init's error path frees it) */
                printf("rv %d\n", rv);
            }
            snap_end(di);
        } else if (!strcmp(w[0], "align") && n == 3) {
            size_t len;
            char *s = (char *)vf_parse_hex(w[2], &len);
            snap_begin(di);
            printf("rv %d\n", decoder_set_align_text(DEC[di], s));
            free(s);
            snap_end(di);
        } else if (!strcmp(w[0], "setcmn") && n == 3) {
            snap_begin(di);
            printf("rv %d\n", decoder_set_cmn(DEC[di], w[2]));
            snap_end(di);
        } else if (!strcmp(w[0], "getcmn") && n == 3) {
            snap_begin(di);
            print_str("C", decoder_get_cmn(DEC[di], atoi(w[2])));
            snap_end(di);
        } else if (!strcmp(w[0], "start")) {
            snap_begin(di);
            printf("rv %d\n", decoder_start_utt(DEC[di]));
            snap_end(di);
        } else if (!strcmp(w[0], "end")) {
            snap_begin(di);
            printf("rv %d\n", decoder_end_utt(DEC[di]));
            snap_end(di);
        } else if (!strcmp(w[0], "proc") && n == 8) {
            int k = atoi(w[2]);
            size_t off = (size_t)atol(w[3]), len = (size_t)atol(w[4]);
            int nosearch = atoi(w[5]), full = atoi(w[6]), rv;
            if (k < 0 || k >= MAXAUD || AUD[k] == NULL || off + len > AUDN[k]) { printf("E bad audio range\n"); fflush(stdout); continue; }
            snap_begin(di);
            if (w[7][0] == 'f') {
                float32 *fb = (float32 *)malloc((len + 1) * sizeof(float32));
                size_t i;
                for (i = 0; i < len; i++) fb[i] = (float32)AUD[k][off + i] / 32768.0f;
                rv = decoder_process_float32(DEC[di], fb, len, nosearch, full);
                free(fb);
            } else {
                int16 *ib = (int16 *)malloc((len + 1) * sizeof(int16));
                memcpy(ib, AUD[k] + off, len * sizeof(int16));
                rv = decoder_process_int16(DEC[di], ib, len, nosearch, full);
                free(ib);
            }
            printf("rv %d out=%d\n", rv, DEC[di]->acmod->output_frame);
            snap_end(di);
        } else if (!strcmp(w[0], "endx")) {
            /* decoder_end_utt step by step, hashing the senone scores handed to the search in every frame
             * (internal observable, more sensitive than the result record; used to probe "neutral" carries) */
            decoder_t *d = DEC[di];
            uint64_t h = FNV0;
            int nf = 0;
            acmod_end_utt(d->acmod);
            while (d->acmod->n_feat_frame > 0) {
                int fi = d->acmod->output_frame;
                search_module_step(d->search, fi);
                h = fnv(h, d->acmod->senone_scores, bin_mdef_n_sen(d->acmod->mdef) * sizeof(int16));
                acmod_advance(d->acmod);
                nf++;
            }
            search_module_finish(d->search);
            printf("X frames=%d senhash=%016llx\n", nf, (unsigned long long)h);
        } else if (!strcmp(w[0], "chk")) {
            cmd_chk(DEC[di]);
        } else if (!strcmp(w[0], "rest")) {
            cmd_rest(DEC[di]);
        } else if (!strcmp(w[0], "poison") && n == 4) {
            cmd_poison(DEC[di], strtoull(w[2], NULL, 10), atoi(w[3]));
        } else if (!strcmp(w[0], "result")) {
            snap_begin(di);
            cmd_result(DEC[di], n > 2 ? atoi(w[2]) : 0);
            snap_end(di);
        } else if (!strcmp(w[0], "free")) {
            printf("rv %d\n", decoder_free(DEC[di]));
            DEC[di] = NULL;
        } else {
            printf("E unknown command\n");
        }
        fflush(stdout);
    }
    return 0;
}
