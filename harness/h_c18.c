/* C18 harness.
 *
 *   h_c18 int                 integer correspondence: reads op lines on stdin, runs the REAL
 *                             hmm_vit_eval / ptm_mgau_codebook_norm / ptm_mgau_senone_eval /
 *                             mgau_norm + get_scores_* of s2_semi_mgau.c on synthetic structures,
 *                             prints one line per op in the format of `ssdriver c18`.
 *   h_c18 sig '<json config>' float side + whole-decoder observation: one utterance per stdin
 *                             line (signal kind, parameters, length, seed, mode), prints one line of
 *                             key=value observations per utterance (finiteness of cepstra / dynamic
 *                             features / CMN state, CMN text round trip, senone score ranges,
 *                             HMM / history / hypothesis score ranges and monotonicity).
 *
 * ptm_mgau.c and s2_semi_mgau.c are #included (static functions, private structs); the linker then
 * does not pull the archive members of the same name, i.e. the decoder below runs exactly this code.
 */
#include "common.h"
#include <math.h>
#include <limits.h>

/* B9: every index fast_logmath_add uses on the 256-byte add table is recorded (the function itself does not check it);
 * the scorers below are compiled against the recording wrapper, which then calls the real inline function. */
#include <soundswallower/tied_mgau_common.h>
static int g_addidx_max = -1, g_addidx_oob = 0;
static inline int c18_fast_logmath_add(logmath_t *lmath, int mlx, int mly)
{
    int d = mlx > mly ? mlx - mly : mly - mlx;
    if (d > g_addidx_max) g_addidx_max = d;
    if ((uint32)d >= LOGMATH_TABLE(lmath)->table_size) g_addidx_oob++;
    return fast_logmath_add(lmath, mlx, mly);
}
#define fast_logmath_add c18_fast_logmath_add
#include <ptm_mgau.c>
#define eval_topn s2semi_eval_topn
#define eval_cb s2semi_eval_cb
#include <s2_semi_mgau.c>
#undef eval_topn
#undef eval_cb
#undef fast_logmath_add
/* B8: the static score expressions of the grammar search are driven directly (fsg_search_pnode_trans) */
#include <fsg_search.c>
/* stage 3: the static frame-loop pieces of the aligner (renormalize_hmms, evaluate_hmms, prune_hmms, phone_transition) */
#include <state_align_search.c>
#ifndef C18_RENORM_TEST   /* the condition of the renormalisation `if` of state_align_search_step, pasted from the source by tools/props/c18.py */
#define C18_RENORM_TEST(b) (-1)
#endif

#include <soundswallower/decoder.h>
#include <soundswallower/acmod.h>
#include <soundswallower/fe.h>
#include <soundswallower/feat.h>
#include <soundswallower/cmn.h>
#include <soundswallower/hmm.h>
#include <soundswallower/fsg_search.h>
#include <soundswallower/fsg_history.h>
#include <soundswallower/fsg_lextree.h>
#include <soundswallower/search_module.h>
#include <soundswallower/ckd_alloc.h>
#include <soundswallower/err.h>

/* ------------------------------------------------------------------------------------------ */
/* integer correspondence                                                                      */

#define MAXW 70000
static char *W[MAXW];

static long L(const char *s) { return strtol(s, NULL, 10); }

/* hmm <n> <mpx> | tp n*(n+1) | senid n (65535 = BAD) | senscore nsen... given as: nsen then values
 *   | score n | out | hist n | outhist
 * line: hmm n mpx nsen tp... sseq/senid... senscore... score... out hist... outhist           */
static uint8 ***g_tp; static int16 *g_senscore; static uint16 **g_sseq; static hmm_context_t *g_ctx;
static hmm_t g_h; static int g_n, g_nsen;

static void hmm_release(void)
{
    if (!g_ctx) return;
    hmm_deinit(&g_h);
    hmm_context_free(g_ctx); g_ctx = NULL;
    ckd_free(g_senscore); ckd_free_2d(g_sseq); ckd_free_3d(g_tp);
}

static void hmm_print(int32 best)
{
    int i;
    printf("r");
    for (i = 0; i < g_n; i++) printf(" %d", g_h.score[i]);
    printf(" %d %d |", g_h.out_score, best);
    for (i = 0; i < g_n; i++) printf(" %d", g_h.history[i]);
    printf(" %d\n", g_h.out_history);
}

static void op_hmm(char **w, int nw)
{
    int n = (int)L(w[1]), mpx = (int)L(w[2]), nsen = (int)L(w[3]);
    int k = 4, i, j;
    int32 best;
    if (n < 1 || n > HMM_MAX_NSTATE || mpx || nw != 4 + n * (n + 1) + n + nsen + n + 1 + n + 1) { printf("bad-op\n"); return; }
    hmm_release();
    g_n = n; g_nsen = nsen;
    g_tp = (uint8 ***)ckd_calloc_3d(1, n, n + 1, sizeof(uint8));
    for (i = 0; i < n; i++) for (j = 0; j <= n; j++) g_tp[0][i][j] = (uint8)L(w[k++]);
    g_sseq = (uint16 **)ckd_calloc_2d(1, n, sizeof(uint16));
    for (i = 0; i < n; i++) g_sseq[0][i] = (uint16)L(w[k++]);
    g_senscore = (int16 *)ckd_calloc(nsen, sizeof(int16));
    for (i = 0; i < nsen; i++) g_senscore[i] = (int16)L(w[k++]);
    g_ctx = hmm_context_init(n, (uint8 **const *)g_tp, g_senscore, g_sseq);
    hmm_init(g_ctx, &g_h, 0, 0, 0);
    for (i = 0; i < n; i++) g_h.score[i] = (int32)L(w[k++]);
    g_h.out_score = (int32)L(w[k++]);
    for (i = 0; i < n; i++) g_h.history[i] = (int32)L(w[k++]);
    g_h.out_history = (int32)L(w[k++]);
    fflush(stdout);
    best = hmm_vit_eval(&g_h);
    hmm_print(best);
}

/* hmmc <enter 0|1> <score> <hist> <senscore nsen...> : next frame of the HMM of the last `hmm` op */
static void op_hmmc(char **w, int nw)
{
    int i;
    int32 best;
    if (!g_ctx || nw != 4 + g_nsen) { printf("bad-op\n"); return; }
    if (L(w[1])) hmm_enter(&g_h, (int32)L(w[2]), (int32)L(w[3]), 0);
    for (i = 0; i < g_nsen; i++) g_senscore[i] = (int16)L(w[4 + i]);
    fflush(stdout);
    best = hmm_vit_eval(&g_h);
    hmm_print(best);
}

static logmath_t *g_lmath8;
static logmath_t *lmath8(void)
{
    if (!g_lmath8) g_lmath8 = logmath_init(1.0001, SENSCR_SHIFT, TRUE);
    return g_lmath8;
}

/* tab : print the 256 entries of the real 8-bit log-add table (what fast_logmath_add reads) */
static void op_tab(void)
{
    logadd_t *t = LOGMATH_TABLE(lmath8());
    int i;
    printf("tab width=%d size=%u", (int)t->width, (unsigned)t->table_size);
    for (i = 0; i < 256; i++)
        printf(" %d", (uint32)i < t->table_size ? ((uint8 *)t->table)[i] : 0);
    printf("\n");
}

/* ptm ngau nfeat topn nsen nden compall use4b | sen2cb[nsen] | active[ngau] |
 *     topn entries (cw score) ngau*nfeat*topn | mixw: 8b: nfeat*nden*nsen ; 4b: 16 cb values then nfeat*nden*((nsen+1)/2)
 *     | nact deltas...                                                                         */
static void op_ptm(char **w, int nw)
{
    ptm_mgau_t s;
    gauden_t g;
    ptm_fast_eval_t fe;
    int ngau = (int)L(w[1]), nfeat = (int)L(w[2]), topn = (int)L(w[3]), nsen = (int)L(w[4]),
        nden = (int)L(w[5]), compall = (int)L(w[6]), use4b = (int)L(w[7]);
    int k = 8, i, j, m, nact;
    int16 *scores;
    uint8 *act;
    uint8 cb16[16];
    memset(&s, 0, sizeof(s));
    memset(&g, 0, sizeof(g));
    memset(&fe, 0, sizeof(fe));
    g.n_mgau = ngau; g.n_feat = nfeat; g.n_density = nden;
    s.g = &g; s.max_topn = topn; s.n_sen = nsen; s.lmath_8b = lmath8();
    s.sen2cb = (uint8 *)ckd_calloc(nsen, 1);
    for (i = 0; i < nsen; i++) s.sen2cb[i] = (uint8)L(w[k++]);
    fe.mgau_active = bitvec_alloc(ngau);
    for (i = 0; i < ngau; i++) if (L(w[k++])) bitvec_set(fe.mgau_active, i);
    fe.topn = (ptm_topn_t ***)ckd_calloc_3d(ngau, nfeat, topn, sizeof(ptm_topn_t));
    for (i = 0; i < ngau; i++) for (j = 0; j < nfeat; j++) for (m = 0; m < topn; m++) {
        fe.topn[i][j][m].cw = (int32)L(w[k++]);
        fe.topn[i][j][m].score = (int32)L(w[k++]);
    }
    s.hist = &fe; s.f = &fe; s.n_fast_hist = 1;
    if (use4b) {
        int half = (nsen + 1) / 2;
        for (i = 0; i < 16; i++) cb16[i] = (uint8)L(w[k++]);
        s.mixw_cb = cb16;
        s.mixw = (uint8 ***)ckd_calloc_3d(nfeat, nden, half, 1);
        for (i = 0; i < nfeat; i++) for (j = 0; j < nden; j++) for (m = 0; m < half; m++)
            s.mixw[i][j][m] = (uint8)L(w[k++]);
    } else {
        s.mixw = (uint8 ***)ckd_calloc_3d(nfeat, nden, nsen, 1);
        for (i = 0; i < nfeat; i++) for (j = 0; j < nden; j++) for (m = 0; m < nsen; m++)
            s.mixw[i][j][m] = (uint8)L(w[k++]);
    }
    nact = (int)L(w[k++]);
    act = (uint8 *)ckd_calloc(nact + 1, 1);
    for (i = 0; i < nact; i++) act[i] = (uint8)L(w[k++]);
    if (k != nw) { printf("bad-op\n"); return; }
    scores = (int16 *)ckd_calloc(nsen, sizeof(int16));
    fflush(stdout);
    ptm_mgau_codebook_norm(&s, NULL, 0);
    ptm_mgau_senone_eval(&s, scores, act, nact, compall);
    printf("s");
    for (i = 0; i < nsen; i++) printf(" %d", scores[i]);
    printf(" | t");
    for (i = 0; i < ngau; i++) for (j = 0; j < nfeat; j++) for (m = 0; m < topn; m++)
        printf(" %d", fe.topn[i][j][m].score);
    printf("\n");
    ckd_free(scores); ckd_free(act); ckd_free_3d(s.mixw); ckd_free_3d(fe.topn);
    bitvec_free(fe.mgau_active); ckd_free(s.sen2cb);
}

/* semi nfeat topn nsen nden compall use4b | topn_beam[nfeat] | entries (cw score) nfeat*topn |
 *      mixw as for ptm | nact deltas...
 * replicates the dispatch of s2_semi_mgau_frame_eval after mgau_dist (5 lines)                 */
static void op_semi(char **w, int nw)
{
    s2_semi_mgau_t s;
    gauden_t g;
    int nfeat = (int)L(w[1]), topn = (int)L(w[2]), nsen = (int)L(w[3]), nden = (int)L(w[4]),
        compall = (int)L(w[5]), use4b = (int)L(w[6]);
    int k = 7, i, j, m, nact;
    int16 *scores;
    uint8 *act, cb16[16];
    vqFeature_t **f;
    int ncnt[16];
    memset(&s, 0, sizeof(s));
    memset(&g, 0, sizeof(g));
    g.n_mgau = 1; g.n_feat = nfeat; g.n_density = nden;
    s.g = &g; s.max_topn = topn; s.n_sen = nsen; s.lmath_8b = lmath8();
    s.topn_beam = (uint8 *)ckd_calloc(nfeat, 1);
    for (i = 0; i < nfeat; i++) s.topn_beam[i] = (uint8)L(w[k++]);
    f = (vqFeature_t **)ckd_calloc_2d(nfeat, topn, sizeof(vqFeature_t));
    for (i = 0; i < nfeat; i++) for (m = 0; m < topn; m++) {
        f[i][m].codeword = (int32)L(w[k++]);
        f[i][m].score = (int32)L(w[k++]);
    }
    s.f = f;
    if (use4b) {
        int half = (nsen + 1) / 2;
        for (i = 0; i < 16; i++) cb16[i] = (uint8)L(w[k++]);
        s.mixw_cb = cb16;
        s.mixw = (uint8 ***)ckd_calloc_3d(nfeat, nden, half, 1);
        for (i = 0; i < nfeat; i++) for (j = 0; j < nden; j++) for (m = 0; m < half; m++)
            s.mixw[i][j][m] = (uint8)L(w[k++]);
    } else {
        s.mixw = (uint8 ***)ckd_calloc_3d(nfeat, nden, nsen, 1);
        for (i = 0; i < nfeat; i++) for (j = 0; j < nden; j++) for (m = 0; m < nsen; m++)
            s.mixw[i][j][m] = (uint8)L(w[k++]);
    }
    nact = (int)L(w[k++]);
    act = (uint8 *)ckd_calloc(nact + 1, 1);
    for (i = 0; i < nact; i++) act[i] = (uint8)L(w[k++]);
    if (k != nw) { printf("bad-op\n"); return; }
    scores = (int16 *)ckd_calloc(nsen, sizeof(int16));
    fflush(stdout);
    for (i = 0; i < nfeat; ++i) {
        ncnt[i] = mgau_norm(&s, i);
        if (s.mixw_cb) {
            if (compall) get_scores_4b_feat_all(&s, i, ncnt[i], scores);
            else get_scores_4b_feat(&s, i, ncnt[i], scores, act, nact);
        } else {
            if (compall) get_scores_8b_feat_all(&s, i, ncnt[i], scores);
            else get_scores_8b_feat(&s, i, ncnt[i], scores, act, nact);
        }
    }
    printf("s");
    for (i = 0; i < nsen; i++) printf(" %d", scores[i]);
    printf(" | n");
    for (i = 0; i < nfeat; i++) printf(" %d", ncnt[i]);
    printf(" | t");
    for (i = 0; i < nfeat; i++) for (m = 0; m < topn; m++) printf(" %d", f[i][m].score);
    printf("\n");
    ckd_free(scores); ckd_free(act); ckd_free_3d(s.mixw); ckd_free_2d(f); ckd_free(s.topn_beam);
}

/* top topn nden | (cw score) x topn | density x nden
 * the REAL eval_topn and eval_cb on a one-codebook, one-stream, one-dimensional Gaussian set built so that
 * the density of codeword cw for the observation 0 is exactly the given integer (mean 0, det = value);
 * a value below -2147483648 stands for a density under MAX_NEG_INT32. */
static void op_top(char **w, int nw)
{
    ptm_mgau_t s;
    gauden_t g;
    ptm_fast_eval_t fe;
    int topn = (int)L(w[1]), nden = (int)L(w[2]), k = 3, i;
    int32 featlen = 1;
    mfcc_t *meanv, *varv, *detv, **m2, **v2, ***m3, ***v3, **d2;
    mfcc_t z[4] = { 0, 0, 0, 0 };
    if (nw != 3 + 2 * topn + nden || topn < 1 || nden < topn) { printf("bad-op\n"); return; }
    memset(&s, 0, sizeof(s)); memset(&g, 0, sizeof(g)); memset(&fe, 0, sizeof(fe));
    meanv = (mfcc_t *)ckd_calloc(nden, sizeof(mfcc_t));
    varv = (mfcc_t *)ckd_calloc(nden, sizeof(mfcc_t));
    detv = (mfcc_t *)ckd_calloc(nden, sizeof(mfcc_t));
    m2 = (mfcc_t **)ckd_calloc(1, sizeof(*m2)); v2 = (mfcc_t **)ckd_calloc(1, sizeof(*v2)); d2 = (mfcc_t **)ckd_calloc(1, sizeof(*d2));
    m3 = (mfcc_t ***)ckd_calloc(1, sizeof(*m3)); v3 = (mfcc_t ***)ckd_calloc(1, sizeof(*v3));
    m2[0] = meanv; v2[0] = varv; d2[0] = detv; m3[0] = m2; v3[0] = v2;
    g.mean = &m3; g.var = &v3; g.det = &d2;   /* mean[0][0][0] = meanv, det[0][0] = detv */
    g.n_mgau = 1; g.n_feat = 1; g.n_density = nden; g.featlen = &featlen;
    s.g = &g; s.max_topn = topn;
    fe.topn = (ptm_topn_t ***)ckd_calloc_3d(1, 1, topn, sizeof(ptm_topn_t));
    for (i = 0; i < topn; i++) { fe.topn[0][0][i].cw = (int32)L(w[k++]); fe.topn[0][0][i].score = (int32)L(w[k++]); }
    for (i = 0; i < nden; i++) { varv[i] = 1.0f; detv[i] = (mfcc_t)strtod(w[k++], NULL); }
    s.f = &fe; s.hist = &fe; s.n_fast_hist = 1;
    fflush(stdout);
    eval_topn(&s, 0, 0, z);
    eval_cb(&s, 0, 0, z);
    printf("p");
    for (i = 0; i < topn; i++) printf(" %d %d", fe.topn[0][0][i].cw, fe.topn[0][0][i].score);
    printf("\n");
    ckd_free_3d(fe.topn); ckd_free(meanv); ckd_free(varv); ckd_free(detv);
    ckd_free(m2); ckd_free(v2); ckd_free(d2); ckd_free(m3); ckd_free(v3);
}

/* semif nfeat topn nsen nden compall use4b ds nframes | topn_beam[nfeat] | mixw as for ptm | nact deltas... |
 *       per frame: nfeat*nden integer densities
 * the REAL s2_semi_mgau_frame_eval over consecutive frames on a scorer set up as s2_semi_mgau_init_s3file does
 * (two-frame top-N history initialised to WORST_DIST / codeword k), with one-dimensional streams built so that the
 * density of codeword cw of stream f for the observation 0 is exactly the given integer (mean 0, var 1, det = value;
 * a value below -2147483648 stands for a density under MAX_NEG_INT32): mgau_dist = eval_topn (+ eval_cb when
 * frame % ds == 0), mgau_norm, get_scores_* dispatch, int16 accumulation.
 * output per frame: f scores | n counts | t (cw score) per stream                                  */
static void op_semif(char **w, int nw)
{
    s2_semi_mgau_t s;
    gauden_t g;
    int nfeat = (int)L(w[1]), topn = (int)L(w[2]), nsen = (int)L(w[3]), nden = (int)L(w[4]),
        compall = (int)L(w[5]), use4b = (int)L(w[6]), ds = (int)L(w[7]), nfr = (int)L(w[8]);
    int k = 9, i, j, m, nact, fr;
    int16 *scores;
    uint8 *act, cb16[16];
    int32 *featlen;
    mfcc_t **meanv, **varv, **detv, ***m3, ***v3, zero[4] = { 0, 0, 0, 0 }, **featbuf;
    if (nfeat < 1 || topn < 1 || nden < topn || nsen < 1 || ds < 1 || nfr < 1) { printf("bad-op\n"); return; }
    memset(&s, 0, sizeof(s));
    memset(&g, 0, sizeof(g));
    featlen = (int32 *)ckd_calloc(nfeat, sizeof(int32));
    meanv = (mfcc_t **)ckd_calloc(nfeat, sizeof(*meanv)); varv = (mfcc_t **)ckd_calloc(nfeat, sizeof(*varv));
    detv = (mfcc_t **)ckd_calloc(nfeat, sizeof(*detv));
    m3 = (mfcc_t ***)ckd_calloc(nfeat, sizeof(*m3)); v3 = (mfcc_t ***)ckd_calloc(nfeat, sizeof(*v3));
    featbuf = (mfcc_t **)ckd_calloc(nfeat, sizeof(*featbuf));
    for (i = 0; i < nfeat; i++) {
        featlen[i] = 1;
        meanv[i] = (mfcc_t *)ckd_calloc(nden, sizeof(mfcc_t));
        varv[i] = (mfcc_t *)ckd_calloc(nden, sizeof(mfcc_t));
        detv[i] = (mfcc_t *)ckd_calloc(nden, sizeof(mfcc_t));
        for (j = 0; j < nden; j++) varv[i][j] = 1.0f;
        m3[i] = &meanv[i]; v3[i] = &varv[i];        /* mean[0][f][0] = meanv[f] */
        featbuf[i] = zero;
    }
    g.mean = &m3; g.var = &v3; g.det = &detv;
    g.n_mgau = 1; g.n_feat = nfeat; g.n_density = nden; g.featlen = featlen;
    s.g = &g; s.max_topn = (int16)topn; s.n_sen = nsen; s.lmath_8b = lmath8(); s.ds_ratio = (int16)ds;
    s.topn_beam = (uint8 *)ckd_calloc(nfeat, 1);
    for (i = 0; i < nfeat; i++) s.topn_beam[i] = (uint8)L(w[k++]);
    if (use4b) {
        int half = (nsen + 1) / 2;
        for (i = 0; i < 16; i++) cb16[i] = (uint8)L(w[k++]);
        s.mixw_cb = cb16;
        s.mixw = (uint8 ***)ckd_calloc_3d(nfeat, nden, half, 1);
        for (i = 0; i < nfeat; i++) for (j = 0; j < nden; j++) for (m = 0; m < half; m++)
            s.mixw[i][j][m] = (uint8)L(w[k++]);
    } else {
        s.mixw = (uint8 ***)ckd_calloc_3d(nfeat, nden, nsen, 1);
        for (i = 0; i < nfeat; i++) for (j = 0; j < nden; j++) for (m = 0; m < nsen; m++)
            s.mixw[i][j][m] = (uint8)L(w[k++]);
    }
    nact = (int)L(w[k++]);
    act = (uint8 *)ckd_calloc(nact + 1, 1);
    for (i = 0; i < nact; i++) act[i] = (uint8)L(w[k++]);
    if (nw != k + nfr * nfeat * nden) { printf("bad-op\n"); return; }
    /* as s2_semi_mgau_init_s3file (s2_semi_mgau.c:1000-1016) */
    s.n_topn_hist = 2;
    s.topn_hist = (vqFeature_t ***)ckd_calloc_3d(s.n_topn_hist, nfeat, topn, sizeof(vqFeature_t));
    s.topn_hist_n = (uint8 **)ckd_calloc_2d(s.n_topn_hist, nfeat, sizeof(uint8));
    for (i = 0; i < s.n_topn_hist; ++i) for (j = 0; j < nfeat; ++j) for (m = 0; m < topn; ++m) {
        s.topn_hist[i][j][m].score = WORST_DIST;
        s.topn_hist[i][j][m].codeword = m;
    }
    scores = (int16 *)ckd_calloc(nsen, sizeof(int16));
    for (fr = 0; fr < nfr; fr++) {
        for (i = 0; i < nfeat; i++) for (j = 0; j < nden; j++) detv[i][j] = (mfcc_t)strtod(w[k++], NULL);
        fflush(stdout);
        s2_semi_mgau_frame_eval((mgau_t *)&s, scores, act, nact, featbuf, fr, compall);
        printf(fr ? " ; f" : "f");
        for (i = 0; i < nsen; i++) printf(" %d", scores[i]);
        printf(" | n");
        for (i = 0; i < nfeat; i++) printf(" %d", (int)s.topn_hist_n[fr % 2][i]);
        printf(" | t");
        for (i = 0; i < nfeat; i++) for (m = 0; m < topn; m++) printf(" %d %d", s.f[i][m].codeword, s.f[i][m].score);
    }
    printf("\n");
    ckd_free(scores); ckd_free(act); ckd_free_3d(s.mixw); ckd_free(s.topn_beam);
    ckd_free_3d(s.topn_hist); ckd_free_2d(s.topn_hist_n);
    for (i = 0; i < nfeat; i++) { ckd_free(meanv[i]); ckd_free(varv[i]); ckd_free(detv[i]); }
    ckd_free(meanv); ckd_free(varv); ckd_free(detv); ckd_free(m3); ckd_free(v3); ckd_free(featbuf); ckd_free(featlen);
}

/* enter src lp best beam childIn childFrame frame : the REAL fsg_search_pnode_trans (fsg_search.c:407-438) on a parent
 * pnode whose HMM has out_score = src and ONE child with logs2prob = lp and in-score childIn, in a search with
 * bestscore = best, beam = beam.  output: e <child in-score afterwards> <child frame afterwards> <activated 0|1>  */
static void op_enter(char **w, int nw)
{
    fsg_search_t fs;
    fsg_pnode_t parent, child;
    uint8 ***tp; uint16 **sseq; hmm_context_t *ctx;
    if (nw != 8) { printf("bad-op\n"); return; }
    memset(&fs, 0, sizeof(fs)); memset(&parent, 0, sizeof(parent)); memset(&child, 0, sizeof(child));
    tp = (uint8 ***)ckd_calloc_3d(1, 3, 4, sizeof(uint8));
    sseq = (uint16 **)ckd_calloc_2d(1, 3, sizeof(uint16));
    ctx = hmm_context_init(3, (uint8 **const *)tp, NULL, sseq);
    hmm_init(ctx, &parent.hmm, 0, 0, 0);
    hmm_init(ctx, &child.hmm, 0, 0, 0);
    parent.leaf = FALSE; parent.next.succ = &child; child.sibling = NULL;
    hmm_out_score(&parent.hmm) = (int32)L(w[1]); hmm_out_history(&parent.hmm) = 7;
    child.logs2prob = (int32)L(w[2]);
    fs.bestscore = (int32)L(w[3]); fs.beam = (int32)L(w[4]);
    hmm_in_score(&child.hmm) = (int32)L(w[5]);
    hmm_frame(&child.hmm) = (int)L(w[6]);
    fs.frame = (int)L(w[7]);
    fflush(stdout);
    fsg_search_pnode_trans(&fs, &parent);
    printf("e %d %d %d\n", hmm_in_score(&child.hmm), hmm_frame(&child.hmm), fs.pnode_active_next ? 1 : 0);
    glist_free(fs.pnode_active_next);
    hmm_deinit(&parent.hmm); hmm_deinit(&child.hmm); hmm_context_free(ctx); ckd_free_2d(sseq); ckd_free_3d(tp);
}

/* arun N T best0 | tp 12 | per HMM: frame s0 s1 s2 out h0 h1 h2 hout | per frame: 3N senone scores
 * the frame loop of state_align_search_step on N three-state HMMs WITHOUT the acoustic scoring and the token stack:
 * the renormalisation test (pasted from the source) + the REAL renormalize_hmms, evaluate_hmms, prune_hmms and
 * phone_transition of state_align_search.c (sf = 0, ef = INT_MAX: no alignment constraints).
 * output: A renorms | per HMM: frame s0 s1 s2 out h0 h1 h2 hout | best per frame                       */
static void op_arun(char **w, int nw)
{
    state_align_search_t sas;
    int N = (int)L(w[1]), T = (int)L(w[2]), k = 4, i, j, t, nren = 0;
    uint8 ***tp; uint16 **sseq; int16 *senscr; int32 *bests;
    if (N < 1 || N > 16 || T < 0 || nw != 4 + 12 + 9 * N + 3 * N * T) { printf("bad-op\n"); return; }
    memset(&sas, 0, sizeof(sas));
    tp = (uint8 ***)ckd_calloc_3d(1, 3, 4, sizeof(uint8));
    for (i = 0; i < 3; i++) for (j = 0; j < 4; j++) tp[0][i][j] = (uint8)L(w[k++]);
    sseq = (uint16 **)ckd_calloc_2d(N, 3, sizeof(uint16));
    for (i = 0; i < N; i++) for (j = 0; j < 3; j++) sseq[i][j] = (uint16)(3 * i + j);
    senscr = (int16 *)ckd_calloc(3 * N, sizeof(int16));
    bests = (int32 *)ckd_calloc(T + 1, sizeof(int32));
    sas.hmmctx = hmm_context_init(3, (uint8 **const *)tp, senscr, sseq);
    sas.n_phones = N; sas.n_emit_state = 3 * N;
    sas.hmms = (hmm_t *)ckd_calloc(N, sizeof(hmm_t));
    sas.sf = (int *)ckd_calloc(N, sizeof(int)); sas.ef = (int *)ckd_calloc(N, sizeof(int));
    sas.best_score = (int32)L(w[3]);
    for (i = 0; i < N; i++) {
        hmm_t *h = sas.hmms + i;
        hmm_init(sas.hmmctx, h, 0, i, 0);
        sas.ef[i] = INT_MAX;
        hmm_frame(h) = (int)L(w[k++]);
        for (j = 0; j < 3; j++) h->score[j] = (int32)L(w[k++]);
        h->out_score = (int32)L(w[k++]);
        for (j = 0; j < 3; j++) h->history[j] = (int32)L(w[k++]);
        h->out_history = (int32)L(w[k++]);
    }
    fflush(stdout);
    for (t = 0; t < T; t++) {
        for (i = 0; i < 3 * N; i++) senscr[i] = (int16)L(w[k++]);
        if (C18_RENORM_TEST(sas.best_score)) { renormalize_hmms(&sas, t, sas.best_score); nren++; }
        sas.best_score = evaluate_hmms(&sas, senscr, t);
        prune_hmms(&sas, t);
        phone_transition(&sas, t);
        bests[t] = sas.best_score;
    }
    printf("A %d |", nren);
    for (i = 0; i < N; i++) {
        hmm_t *h = sas.hmms + i;
        printf(" %d %d %d %d %d %d %d %d %d", hmm_frame(h), h->score[0], h->score[1], h->score[2], h->out_score,
               h->history[0], h->history[1], h->history[2], h->out_history);
    }
    printf(" |");
    for (t = 0; t < T; t++) printf(" %d", bests[t]);
    printf("\n");
    for (i = 0; i < N; i++) hmm_deinit(sas.hmms + i);
    hmm_context_free(sas.hmmctx); ckd_free(sas.hmms); ckd_free(sas.sf); ckd_free(sas.ef);
    ckd_free(senscr); ckd_free(bests); ckd_free_2d(sseq); ckd_free_3d(tp);
}

/* ---- C18More: multiplex and any-topology evaluators -------------------------------------------
 * hmmx n mpx nsen nss | tp n*(n+1) | sseq nss*n | senid n (65535 = BAD) | senscore nsen | score n | out | hist n | outhist
 *   the REAL hmm_vit_eval on an HMM built by hmm_context_init + hmm_init(ctx, hmm, mpx, 0, 0), whose senid[] array,
 *   scores and histories are then set to the given values (mpx: senid[] holds senone-SEQUENCE ids).
 * hmmxc enter score hist senscore...   : next frame of that HMM
 * output: r score.. out best | hist.. outhist | senid..                                         */
static uint8 ***x_tp; static int16 *x_senscore; static uint16 **x_sseq; static hmm_context_t *x_ctx;
static hmm_t x_h; static int x_n, x_nsen;

static void hmmx_release(void)
{
    if (!x_ctx) return;
    hmm_deinit(&x_h);
    hmm_context_free(x_ctx); x_ctx = NULL;
    ckd_free(x_senscore); ckd_free_2d(x_sseq); ckd_free_3d(x_tp);
}

static void hmmx_print(int32 best)
{
    int i;
    printf("r");
    for (i = 0; i < x_n; i++) printf(" %d", x_h.score[i]);
    printf(" %d %d |", x_h.out_score, best);
    for (i = 0; i < x_n; i++) printf(" %d", x_h.history[i]);
    printf(" %d |", x_h.out_history);
    for (i = 0; i < x_n; i++) printf(" %d", (int)x_h.senid[i]);
    printf("\n");
}

static void op_hmmx(char **w, int nw)
{
    int n = (int)L(w[1]), mpx = (int)L(w[2]), nsen = (int)L(w[3]), nss = (int)L(w[4]);
    int k = 5, i, j;
    int32 best;
    if (n < 1 || n > HMM_MAX_NSTATE || nss < 1 || nsen < 1
        || nw != 5 + n * (n + 1) + nss * n + n + nsen + n + 1 + n + 1) { printf("bad-op\n"); return; }
    hmmx_release();
    x_n = n; x_nsen = nsen;
    x_tp = (uint8 ***)ckd_calloc_3d(1, n, n + 1, sizeof(uint8));
    for (i = 0; i < n; i++) for (j = 0; j <= n; j++) x_tp[0][i][j] = (uint8)L(w[k++]);
    x_sseq = (uint16 **)ckd_calloc_2d(nss, n, sizeof(uint16));
    for (i = 0; i < nss; i++) for (j = 0; j < n; j++) x_sseq[i][j] = (uint16)L(w[k++]);
    x_senscore = (int16 *)ckd_calloc(nsen, sizeof(int16));
    x_ctx = hmm_context_init(n, (uint8 **const *)x_tp, x_senscore, x_sseq);
    hmm_init(x_ctx, &x_h, mpx, 0, 0);
    for (i = 0; i < n; i++) x_h.senid[i] = (uint16)L(w[k++]);
    for (i = 0; i < nsen; i++) x_senscore[i] = (int16)L(w[k++]);
    for (i = 0; i < n; i++) x_h.score[i] = (int32)L(w[k++]);
    x_h.out_score = (int32)L(w[k++]);
    for (i = 0; i < n; i++) x_h.history[i] = (int32)L(w[k++]);
    x_h.out_history = (int32)L(w[k++]);
    fflush(stdout);
    best = hmm_vit_eval(&x_h);
    hmmx_print(best);
}

static void op_hmmxc(char **w, int nw)
{
    int i;
    int32 best;
    if (!x_ctx || nw != 4 + x_nsen) { printf("bad-op\n"); return; }
    if (L(w[1])) hmm_enter(&x_h, (int32)L(w[2]), (int32)L(w[3]), 0);
    for (i = 0; i < x_nsen; i++) x_senscore[i] = (int16)L(w[4 + i]);
    fflush(stdout);
    best = hmm_vit_eval(&x_h);
    hmmx_print(best);
}

/* hmmxrun n T sen tpself tpnext : an n-state non-multiplex left-to-right HMM (self = tpself, next = tpnext, no skips),
 * cleared, entered once with score 0, then evaluated for T frames with every senone score = sen.
 * output: x score.. out best | lowest entry-state score seen                                      */
static void op_hmmxrun(char **w, int nw)
{
    int n, i, j, t, T;
    int32 best = 0, low = 0;
    if (nw != 6) { printf("bad-op\n"); return; }
    n = (int)L(w[1]); T = (int)L(w[2]);
    if (n < 1 || n > HMM_MAX_NSTATE || T < 0) { printf("bad-op\n"); return; }
    hmmx_release();
    x_n = n; x_nsen = n;
    x_tp = (uint8 ***)ckd_calloc_3d(1, n, n + 1, sizeof(uint8));
    for (i = 0; i < n; i++) for (j = 0; j <= n; j++)
        x_tp[0][i][j] = (uint8)(j == i ? L(w[4]) : j == i + 1 ? L(w[5]) : 255);
    x_sseq = (uint16 **)ckd_calloc_2d(1, n, sizeof(uint16));
    for (j = 0; j < n; j++) x_sseq[0][j] = (uint16)j;
    x_senscore = (int16 *)ckd_calloc(n, sizeof(int16));
    for (j = 0; j < n; j++) x_senscore[j] = (int16)L(w[3]);
    x_ctx = hmm_context_init(n, (uint8 **const *)x_tp, x_senscore, x_sseq);
    hmm_init(x_ctx, &x_h, 0, 0, 0);
    hmm_enter(&x_h, 0, 1, 0);
    fflush(stdout);
    for (t = 0; t < T; t++) {
        best = hmm_vit_eval(&x_h);
        if (x_h.score[0] < low) low = x_h.score[0];
    }
    printf("x");
    for (i = 0; i < n; i++) printf(" %d", x_h.score[i]);
    printf(" %d %d | %d\n", x_h.out_score, best, low);
}

#ifndef C18_RENORM_TEST   /* the condition of the renormalisation `if` of state_align_search_step, pasted from the source by tools/props/c18.py */
#define C18_RENORM_TEST(b) (-1)
#endif
/* norm best n | score n | out : the renormalisation test of state_align_search_step (same C expression) and the
 * REAL hmm_normalize on an n-state HMM with the given scores.  output: n fired score.. out        */
static void op_norm(char **w, int nw)
{
    int32 bestscr = (int32)L(w[1]);
    int n = (int)L(w[2]), i, k = 3, fired;
    uint8 ***tp; uint16 **sseq; hmm_context_t *ctx; hmm_t h;
    if (n < 1 || n > HMM_MAX_NSTATE || nw != 3 + n + 1) { printf("bad-op\n"); return; }
    tp = (uint8 ***)ckd_calloc_3d(1, n, n + 1, sizeof(uint8));
    sseq = (uint16 **)ckd_calloc_2d(1, n, sizeof(uint16));
    ctx = hmm_context_init(n, (uint8 **const *)tp, NULL, sseq);
    hmm_init(ctx, &h, 0, 0, 0);
    for (i = 0; i < n; i++) h.score[i] = (int32)L(w[k++]);
    h.out_score = (int32)L(w[k++]);
    fflush(stdout);
    fired = C18_RENORM_TEST(bestscr);
    if (fired) hmm_normalize(&h, bestscr);
    printf("n %d", fired);
    for (i = 0; i < n; i++) printf(" %d", h.score[i]);
    printf(" %d\n", h.out_score);
    hmm_deinit(&h); hmm_context_free(ctx); ckd_free_2d(sseq); ckd_free_3d(tp);
}

/* cmnr <veclen> <tok>* : the CMN state machine (Model/CmnRepr.lean) on the REAL cmn_init / cmn_live / cmn_set_repr /
 * cmn_live_update / cmn (batch, varnorm 0) with INTEGER-valued cepstra, so that every float32 the code computes is exact
 * as long as the exact result is representable; every float is printed as the exact rational it is (lowest terms).
 *   A x_0..x_{n-1}   one frame through cmn_live            S k v_1..v_k   cmn_set_repr("v_1,...,v_k")
 *   U                cmn_live_update                        B m frames..   cmn(frames, varnorm = 0, m)
 * output: c ; nframe | mean.. | sum.. (one group per token)                                                     */
static void print_rat(double v)
{
    int e, neg = v < 0;
    double m;
    unsigned long long mi;
    if (v == 0) { printf("0"); return; }
    if (!isfinite(v)) { printf(isnan(v) ? "nan" : (v > 0 ? "inf" : "-inf")); return; }
    m = frexp(fabs(v), &e);                 /* |v| = m * 2^e, 0.5 <= m < 1 */
    mi = (unsigned long long)ldexp(m, 53); e -= 53;
    while (!(mi & 1)) { mi >>= 1; e++; }
    if (e >= 0) {
        if (e > 62 || (mi >> (62 - e)) != 0) { printf("big:%a", v); return; }
        printf("%s%llu", neg ? "-" : "", mi << e);
    } else {
        if (-e > 62) { printf("tiny:%a", v); return; }
        printf("%s%llu/%llu", neg ? "-" : "", mi, 1ULL << (-e));
    }
}

static void cmnr_state(cmn_t *cm)
{
    int i;
    printf(" ; %d |", (int)cm->nframe);
    for (i = 0; i < cm->veclen; i++) { printf(" "); print_rat(cm->cmn_mean[i]); }
    printf(" |");
    for (i = 0; i < cm->veclen; i++) { printf(" "); print_rat(cm->sum[i]); }
}

static void op_cmnr(char **w, int nw)
{
    int n = nw >= 2 ? (int)L(w[1]) : 0, k, i, j;
    cmn_t *cm;
    if (n < 1 || n > 64) { printf("bad-op\n"); return; }
    for (k = 2; k < nw;) {      /* validate first: nothing is printed for a malformed line */
        if (!strcmp(w[k], "A")) k += 1 + n;
        else if (!strcmp(w[k], "U")) k += 1;
        else if (!strcmp(w[k], "S")) { long c = k + 1 < nw ? L(w[k + 1]) : -1; if (c < 0 || c > 200) { k = nw + 1; break; } k += 2 + (int)c; }
        else if (!strcmp(w[k], "B")) { long c = k + 1 < nw ? L(w[k + 1]) : -1; if (c < 0 || c > 4096) { k = nw + 1; break; } k += 2 + (int)c * n; }
        else { k = nw + 1; break; }
    }
    if (k != nw) { printf("bad-op\n"); return; }
    err_set_loglevel(ERR_FATAL);
    cm = cmn_init(n);
    printf("c");
    for (k = 2; k < nw;) {
        if (!strcmp(w[k], "A")) {
            mfcc_t *fr = (mfcc_t *)calloc(n, sizeof(mfcc_t)), *rows[1];
            for (i = 0; i < n; i++) fr[i] = (mfcc_t)L(w[k + 1 + i]);
            rows[0] = fr;
            cmn_live(cm, rows, 0, 1);
            free(fr);
            k += 1 + n;
        } else if (!strcmp(w[k], "U")) {
            cmn_live_update(cm);
            k += 1;
        } else if (!strcmp(w[k], "S")) {
            int c = (int)L(w[k + 1]);
            char *s = (char *)calloc(1, 32 * (size_t)(c + 1)), *p = s;
            for (i = 0; i < c; i++) p += sprintf(p, "%s%ld", i ? "," : "", L(w[k + 2 + i]));
            cmn_set_repr(cm, s);
            free(s);
            k += 2 + c;
        } else {
            int c = (int)L(w[k + 1]);
            mfcc_t **rows = (mfcc_t **)ckd_calloc_2d(c > 0 ? c : 1, n, sizeof(mfcc_t));
            for (i = 0; i < c; i++) for (j = 0; j < n; j++) rows[i][j] = (mfcc_t)L(w[k + 2 + i * n + j]);
            cmn(cm, rows, 0, c);
            ckd_free_2d(rows);
            k += 2 + c * n;
        }
        cmnr_state(cm);
    }
    printf("\n");
    cmn_free(cm);
}

/* arith ops of the search (fsg_search.c): these are single expressions; the harness evaluates the
 * same C expressions on int32 so that the model's Int arithmetic is compared with real int32.   */
static int main_int(void)
{
    static char line[1 << 21];
    while (fgets(line, sizeof(line), stdin)) {
        int nw = vf_words(line, W, MAXW);
        if (nw == 0) { printf("\n"); fflush(stdout); continue; }
        if (!strcmp(W[0], "hmm")) op_hmm(W, nw);
        else if (!strcmp(W[0], "hmmc")) op_hmmc(W, nw);
        else if (!strcmp(W[0], "tab")) op_tab();
        else if (!strcmp(W[0], "ptm")) op_ptm(W, nw);
        else if (!strcmp(W[0], "semi")) op_semi(W, nw);
        else if (!strcmp(W[0], "top")) op_top(W, nw);
        else if (!strcmp(W[0], "hmmx")) op_hmmx(W, nw);
        else if (!strcmp(W[0], "hmmxc")) op_hmmxc(W, nw);
        else if (!strcmp(W[0], "hmmxrun")) op_hmmxrun(W, nw);
        else if (!strcmp(W[0], "norm")) op_norm(W, nw);
        else if (!strcmp(W[0], "semif")) op_semif(W, nw);
        else if (!strcmp(W[0], "enter")) op_enter(W, nw);
        else if (!strcmp(W[0], "arun")) op_arun(W, nw);
        else if (!strcmp(W[0], "cmnr")) op_cmnr(W, nw);
        else if (!strcmp(W[0], "addidx")) { printf("a %d %d\n", g_addidx_max, g_addidx_oob); g_addidx_max = -1; g_addidx_oob = 0; }
        else printf("bad-op\n");
        fflush(stdout);
    }
    return 0;
}

/* ------------------------------------------------------------------------------------------ */
/* signals                                                                                     */

enum { K_ZERO, K_SQUARE, K_IMPULSE, K_DC, K_NOISE, K_CLIPSPEECH, K_ALT, K_SWEEP, K_SPEECH_SIL,
       K_BURSTS, K_ONE, K_LSB, K_MIX, K_FDENORM, K_FTINY, K_FONE, K_FHUGE, K_FBITS, K_FNOISE, K_NKINDS };
static const char *kind_names[] = { "zero", "square", "impulse", "dc", "noise", "clipspeech", "alt",
    "sweep", "speech_sil", "bursts", "one", "lsb", "mix", "fdenorm", "ftiny", "fone", "fhuge", "fbits", "fnoise" };

/* float32 samples chosen by BIT PATTERN (close-c05c18): every value is a legal sample in [-1,1] in host order, but
 * its byte-REVERSED pattern (what a reader that forgets / doubles the input_endian swap would see) is
 * cls 0: NaN, 1: +-Inf, 2: huge (|v| > 1e37), 3: subnormal, 4: -0.0 / 0x80000000-like, other: one of these at random.
 * Host bytes b3 b2 b1 b0 (b3 = sign + high exponent bits); reversed value has b0 as ITS sign/exponent byte.       */
static float32 c18_fbits_sample(long cls, uint64_t *st)
{
    uint32_t r = (uint32_t)(vf_rand(st) >> 7), b3, b2, b1, b0, u;
    float32 f;
    static const uint32_t tops[] = { 0x3E, 0xBE, 0x3F, 0xBF, 0x3D, 0xBB, 0x38, 0xB0 };
    if (cls < 0 || cls > 4) cls = (long)((r >> 24) % 5);
    b3 = tops[r & 7]; b2 = (r >> 3) & 0xFF; b1 = (r >> 11) & 0xFF; b0 = (r >> 19) & 1 ? 0xFF : 0x7F;
    if ((b3 & 0x7F) == 0x3F) b2 &= 0x7F;                 /* exponent 126: |v| in [0.5, 1) */
    switch (cls) {
    case 0: b1 |= 0x80; break;                           /* reversed: exponent 255, mantissa != 0 (b3 != 0) */
    case 1: b1 = 0x80; b2 = 0; b3 = 0; break;            /* reversed: 0x7F800000 / 0xFF800000; host value subnormal */
    case 2: if (r & 0x100000) { b1 &= 0x7F; } else { b0 -= 1; } break;   /* reversed exponent 254 / 252..253 */
    case 3: b0 = (r & 0x100000) ? 0x80 : 0x00; b1 &= 0x7F; break;       /* reversed: subnormal */
    default: b0 = 0x80; b1 = 0; b2 = 0; b3 = 0; break;                   /* host 1.8e-43, reversed -0.0 */
    }
    u = (b3 << 24) | (b2 << 16) | (b1 << 8) | b0;
    memcpy(&f, &u, 4);
    return f;
}
/* white noise with a full 23-bit random mantissa, sign random, exponent 127-p1 .. 126 (p1 in 1..100): |v| < 1 */
static float32 c18_fnoise_sample(long p1, uint64_t *st)
{
    uint32_t r = (uint32_t)(vf_rand(st) >> 5), u;
    float32 f;
    if (p1 < 1) p1 = 1;
    if (p1 > 100) p1 = 100;
    u = (r & 0x807FFFFFu) | ((uint32_t)(126 - (long)((r >> 23) & 0xFF) % p1) << 23);
    memcpy(&f, &u, 4);
    return f;
}
/* fills f32[0..n): kind K_FBITS (p1 = class, every p2-th sample adversarial, the rest full-mantissa noise) / K_FNOISE */
static void c18_gen_fpattern(int fbits, long p1, long p2, size_t n, uint64_t seed, float32 *f32)
{
    uint64_t st = seed * 0x9E3779B97F4A7C15ULL + 777;
    size_t i;
    for (i = 0; i < n; i++) {
        if (fbits && (p2 <= 1 || i % (size_t)p2 == (size_t)(seed % (uint64_t)p2))) f32[i] = c18_fbits_sample(p1, &st);
        else f32[i] = c18_fnoise_sample(fbits ? 6 : p1, &st);
    }
}

static int16 *g_speech; static size_t g_nspeech;
static void load_speech(const char *path)
{
    FILE *fh = fopen(path, "rb");
    long sz;
    if (!fh) return;
    fseek(fh, 0, SEEK_END); sz = ftell(fh); fseek(fh, 0, SEEK_SET);
    g_speech = (int16 *)malloc(sz);
    g_nspeech = fread(g_speech, 2, sz / 2, fh);
    fclose(fh);
}

static int16 clip16(double v) { return v > 32767 ? 32767 : v < -32768 ? -32768 : (int16)v; }

/* fills out[0..n) (as doubles in int16 units, before conversion) */
static void gen_signal(int kind, long p1, long p2, size_t n, uint64_t seed, double *out)
{
    size_t i;
    uint64_t st = seed;
    switch (kind) {
    case K_ZERO: for (i = 0; i < n; i++) out[i] = 0; break;
    case K_SQUARE: { long per = p1 < 1 ? 1 : p1; for (i = 0; i < n; i++) out[i] = ((i / per) & 1) ? -32768 : 32767; } break;
    case K_IMPULSE: { long per = p1 < 1 ? 1 : p1; for (i = 0; i < n; i++) out[i] = (i % per == 0) ? p2 : 0; } break;
    case K_DC: for (i = 0; i < n; i++) out[i] = p1; break;
    case K_NOISE: for (i = 0; i < n; i++) out[i] = (double)((long)(vf_rand(&st) % (2 * (uint64_t)(p1 < 1 ? 1 : p1) + 1)) - (p1 < 1 ? 1 : p1)); break;
    case K_CLIPSPEECH: for (i = 0; i < n; i++) out[i] = g_nspeech ? clip16((double)g_speech[i % g_nspeech] * p1) : 0; break;
    case K_ALT: for (i = 0; i < n; i++) out[i] = (i & 1) ? -32768 : 32767; break;
    case K_SWEEP: for (i = 0; i < n; i++) { double t = (double)i / (n ? n : 1); out[i] = p1 * sin(3.14159265358979 * t * t * n * 0.5); } break;
    case K_SPEECH_SIL: for (i = 0; i < n; i++) out[i] = (g_nspeech && i < g_nspeech) ? g_speech[i] : 0; break;
    case K_BURSTS: for (i = 0; i < n; i++) { long per = p1 < 2 ? 2 : p1; out[i] = ((i / per) & 1) ? (double)((long)(vf_rand(&st) % 65536) - 32768) : 0; } break;
    case K_ONE: for (i = 0; i < n; i++) out[i] = ((long)i == p1) ? p2 : 0; break;
    case K_LSB: for (i = 0; i < n; i++) out[i] = (double)((long)(vf_rand(&st) % 3) - 1); break;
    case K_MIX: {
        size_t pos = 0;
        while (pos < n) {
            size_t seg = 800 + vf_rand(&st) % 24000, j;
            int k2 = (int)(vf_rand(&st) % K_MIX);
            long q1 = (long)(vf_rand(&st) % 400) + 1, q2 = (long)(vf_rand(&st) % 65536) - 32768;
            if (k2 == K_DC || k2 == K_NOISE || k2 == K_SWEEP) q1 = (long)(vf_rand(&st) % 32768);
            if (k2 == K_CLIPSPEECH) q1 = 1 + (long)(vf_rand(&st) % 60);
            if (seg > n - pos) seg = n - pos;
            gen_signal(k2, q1, q2, seg, vf_rand(&st), out + pos);
            (void)j;
            pos += seg;
        }
    } break;
    default: for (i = 0; i < n; i++) out[i] = 0;
    }
}

/* ------------------------------------------------------------------------------------------ */
/* adversarial CEPSTRA (fed through acmod_process_cep / feat_s2mfc2feat_live instead of audio).  Every value has
 * magnitude <= 1e6 (CEP_HUGE): a crude bound on what the library's own front end can produce from int16 / [-1,1]
 * audio (|log mel energy| <= 745, <= 130 filters, lifter weight <= 12).  C0 >= 0 unless the pattern says otherwise
 * (a frame with C0 < 0 is "zero energy" and is skipped by the CMN accumulators).                                    */
#define CEP_HUGE 1.0e6
enum { C_VARY, C_CONSTDIM, C_ALLEQUAL, C_ZEROS, C_HUGE, C_HUGECONST, C_DENORM, C_TINYVAR, C_NEGC0, C_SOMENEGC0,
       C_MIXED, C_RAND, C_CONSTTAIL, C_TWOVAL, C_NPAT };
static const char *cep_names[] = { "cvary", "cconstdim", "callequal", "czeros", "chuge", "chugeconst", "cdenorm",
    "ctinyvar", "cnegc0", "csomenegc0", "cmixed", "crand", "cconsttail", "ctwoval" };

static double cep_unit(uint64_t *st) { return ((double)(vf_rand(st) % 2000001) - 1000000.0) / 1000000.0; }

static void gen_cep(int pat, long p1, int nfr, int ceplen, uint64_t seed, mfcc_t **out)
{
    uint64_t st = seed * 0x9E3779B97F4A7C15ULL + 12345;
    int i, j;
    double consts[64];
    int dimkind[64];
    for (j = 0; j < 64; j++) {
        consts[j] = (j == 0 ? 12.0 : 0.0) + cep_unit(&st) * 5.0;
        dimkind[j] = (int)(vf_rand(&st) % 6);
    }
    for (i = 0; i < nfr; i++)
        for (j = 0; j < ceplen; j++) {
            double vary = (j == 0 ? 12.0 : 0.0) + sin(0.7 * i + 1.3 * j + (double)(seed % 7)) * (2.0 / (j + 1)) + cep_unit(&st) * 0.01;
            double v = vary;
            switch (pat) {
            case C_VARY: break;
            case C_CONSTDIM: if (j == (int)(p1 % ceplen)) v = (j == 0) ? 10.0 : -0.25; break;
            case C_ALLEQUAL: v = consts[j % 64]; break;
            case C_ZEROS: v = 0.0; break;
            case C_HUGE: v = ((vf_rand(&st) & 1) ? -1.0 : 1.0) * CEP_HUGE; if (j == 0) v = CEP_HUGE; break;
            case C_HUGECONST: v = (j & 1) ? -CEP_HUGE : CEP_HUGE; break;
            case C_DENORM: v = ((i + j) & 1 ? -1.0 : 1.0) * 1e-42; if (j == 0) v = 1e-42 * (1 + (i % 3)); break;
            case C_TINYVAR: v = consts[j % 64] * (i == (int)(p1 % (nfr > 0 ? nfr : 1)) ? 1.0 + 1.2e-7 : 1.0); break;
            case C_NEGC0: if (j == 0) v = -1.0 - (i % 3); break;
            case C_SOMENEGC0: if (j == 0 && (i % (p1 < 2 ? 2 : (int)p1)) != 0) v = -2.5; break;
            case C_MIXED:
                switch (dimkind[j % 64]) {
                case 0: v = 0.0; break;
                case 1: v = consts[j % 64]; break;
                case 2: v = ((vf_rand(&st) & 1) ? -1.0 : 1.0) * CEP_HUGE; break;
                case 3: v = ((i & 1) ? -1.0 : 1.0) * 1e-42; break;
                case 4: v = cep_unit(&st) * 30.0; break;
                default: break;
                }
                if (j == 0 && v < 0) v = -v;
                break;
            case C_RAND: v = cep_unit(&st) * (j == 0 ? 20.0 : 8.0); if (j == 0) v = fabs(v); break;
            case C_CONSTTAIL: if (j >= (int)(p1 % ceplen)) v = consts[j % 64]; break;      /* coefficients p1.. constant */
            case C_TWOVAL: v = ((i / (p1 < 1 ? 1 : (int)p1)) & 1) ? consts[j % 64] : consts[(j + 7) % 64]; if (j == 0) v = fabs(v) + 1; break;
            default: break;
            }
            out[i][j] = (mfcc_t)v;
        }
}

/* ------------------------------------------------------------------------------------------ */
/* whole-decoder observation                                                                   */

typedef struct {
    long ncep, cep_bad, cep_first_bad, c0neg;
    long nfeat, feat_bad, feat_first_bad;
    long sen_frames, sen_empty, sen_neg, sen_minnz, sen_first_bad; int sen_max;
    long hmm_checked, hmm_bad; int hmm_min, hmm_max;
    long best_up, best_pos, best_frames; int best_last;
    long hist_n, hist_bad, hist_up;
    long inact_neg;
} obs_t;

static int finite_f(double v) { return isfinite(v); }

static void observe_frame(decoder_t *d, obs_t *o, int frame)
{
    acmod_t *am = d->acmod;
    fsg_search_t *fs = (fsg_search_t *)d->search;
    mfcc_t **fr = am->feat_buf[am->feat_outidx];
    int ns = feat_dimension1(am->fcb), i, j, bad = 0;
    int nsen = bin_mdef_n_sen(am->mdef);
    gnode_t *gn;
    for (i = 0; i < ns; i++)
        for (j = 0; j < (int)feat_dimension2(am->fcb, i); j++)
            if (!finite_f(fr[i][j])) bad = 1;
    o->nfeat++;
    if (bad) { if (!o->feat_bad) o->feat_first_bad = frame; o->feat_bad++; }
    /* senone scores of the frame just searched */
    {
        int mn = INT_MAX, mx = INT_MIN, neg = 0, cnt = 0;
        if (am->compallsen) {
            for (i = 0; i < nsen; i++) {
                int v = am->senone_scores[i];
                if (v < mn) mn = v; if (v > mx) mx = v; if (v < 0) neg++;
                cnt++;
            }
        } else {
            int sen = 0;
            for (i = 0; i < am->n_senone_active; i++) {
                int v;
                sen += am->senone_active[i];
                v = am->senone_scores[sen];
                if (v < mn) mn = v; if (v > mx) mx = v; if (v < 0) neg++;
                cnt++;
            }
        }
        if (cnt == 0) o->sen_empty++;
        else {
            o->sen_frames++;
            if (neg) o->sen_neg++;
            if (mn != 0) o->sen_minnz++;
            if ((neg || mn != 0) && o->sen_first_bad < 0) o->sen_first_bad = frame;
            if (mx > o->sen_max) o->sen_max = mx;
        }
    }
    /* state scores of the HMMs that survive into the next frame, and of those just evaluated */
    for (gn = fs->pnode_active; gn; gn = gnode_next(gn)) {
        fsg_pnode_t *pn = (fsg_pnode_t *)gnode_ptr(gn);
        hmm_t *h = fsg_pnode_hmmptr(pn);
        int b = 0;
        for (i = 0; i < hmm_n_emit_state(h); i++) {
            int v = hmm_score(h, i);
            if (v < WORST_SCORE || v > 0) b = 1;
            if (v < o->hmm_min) o->hmm_min = v; if (v > o->hmm_max) o->hmm_max = v;
        }
        if (hmm_out_score(h) < WORST_SCORE || hmm_out_score(h) > 0) b = 1;
        o->hmm_checked++;
        if (b) o->hmm_bad++;
    }
    if (fs->bestscore > 0) o->best_pos++;
    if (o->best_frames && fs->bestscore > o->best_last) o->best_up++;
    o->best_last = fs->bestscore; o->best_frames++;
}

static void forward(decoder_t *d, obs_t *o)
{
    fsg_search_t *fs = (fsg_search_t *)d->search;
    while (d->acmod->n_feat_frame > 0) {
        int fr = d->acmod->output_frame;
        int h0 = fsg_history_n_entries(fs->history), h1, i;
        if (search_module_step(d->search, fr) < 0) break;
        observe_frame(d, o, fr);
        h1 = fsg_history_n_entries(fs->history);
        for (i = h0; i < h1; i++) {
            fsg_hist_entry_t *e = fsg_history_entry_get(fs->history, i);
            o->hist_n++;
            if (e->score > 0 || (long long)e->score < (long long)WORST_SCORE + fs->wbeam_orig) o->hist_bad++;
            if (e->pred >= 0) {
                fsg_hist_entry_t *p = fsg_history_entry_get(fs->history, e->pred);
                if (e->score > p->score) o->hist_up++;
            }
        }
        acmod_advance(d->acmod);
        ++d->n_frame;
    }
}

static const char *GRAMMAR =
    "#JSGF V1.0; grammar g; public <s> = (go | stop | turn) [ <dir> ] [ <num> [ meter | meters ] ] ;"
    " <dir> = forward | backward | left | right ;"
    " <num> = (one | two | three | four | five | six | seven | eight | nine | ten)+ ;";

static const char *GRAMMAR_FR =
    "#JSGF V1.0; grammar g; public <s> = (avance | recule | stop) [ de <num> [ m\xc3\xa8tre | m\xc3\xa8tres ] ] [ gauche | droite ] ;"
    " <num> = (un | deux | trois | dix)+ ;";

static int cmn_text_finite(const char *s)
{
    const char *p = s;
    while (*p) {
        char *e;
        double v = strtod(p, &e);
        if (e == p) return 0;
        if (!isfinite(v)) return 0;
        p = e;
        if (*p == ',') p++;
    }
    return 1;
}

/* The same frame scored several times with DIFFERENT active senone sets, as a second search pass sharing the
 * acmod would do (acmod.h: acmod_clear_active / acmod_activate_hmm / acmod_score):  B, then A (A and B overlap,
 * neither contains the other), then B again.  After every call: all ACTIVE scores >= 0 with minimum 0; the second
 * scoring of B must equal the first one (a fresh scoring of the frame). */
static void rescoring_probe(decoder_t *d, uint64_t seed, int every)
{
    acmod_t *am = d->acmod;
    int nsen = bin_mdef_n_sen(am->mdef), fr, pass, i;
    long frames = 0, probed = 0, neg = 0, minnz = 0, mismatch = 0, first_bad = -1, nullscr = 0;
    int worst = 0;
    uint64_t st = seed * 2654435761u + 17;
    uint8 *inA = (uint8 *)calloc(nsen, 1), *inB = (uint8 *)calloc(nsen, 1);
    int16 *firstB = (int16 *)calloc(nsen, sizeof(int16));
    while (am->n_feat_frame > 0) {
        fr = am->output_frame;
        if (frames % every == 0 && !am->compallsen) {
            int base = (int)(vf_rand(&st) % nsen), stepA = 1 + (int)(vf_rand(&st) % 7), stepB = 1 + (int)(vf_rand(&st) % 5);
            int nA = 20 + (int)(vf_rand(&st) % 300), nB = 20 + (int)(vf_rand(&st) % 300);
            memset(inA, 0, nsen); memset(inB, 0, nsen);
            for (i = 0; i < nA; i++) inA[(base + i * stepA) % nsen] = 1;
            for (i = 0; i < nB; i++) inB[(base + nA / 2 * stepA + 1 + i * stepB) % nsen] = 1;
            for (pass = 0; pass < 3; pass++) {
                uint8 *set = (pass == 1) ? inA : inB;
                int16 const *scr;
                int f2 = fr, mn = INT_MAX, bad = 0;
                acmod_clear_active(am);
                for (i = 0; i < nsen; i++) if (set[i]) bitvec_set(am->senone_active_vec, i);
                scr = acmod_score(am, &f2);
                if (scr == NULL) { nullscr++; break; }
                for (i = 0; i < nsen; i++) if (set[i]) {
                    if (scr[i] < 0) { bad = 1; if (scr[i] < worst) worst = scr[i]; }
                    if (scr[i] < mn) mn = scr[i];
                    if (pass == 0) firstB[i] = scr[i];
                    if (pass == 2 && firstB[i] != scr[i]) { mismatch++; bad = 1; }
                }
                /* the evaluated set is the delta-coded list acmod_flags2list built: the requested senones plus the
                 * bridge senones it inserts for gaps > 255; the frame's best (0) may be one of those */
                {
                    int sen = 0;
                    for (i = 0; i < am->n_senone_active; i++) { sen += am->senone_active[i]; if (scr[sen] < mn) mn = scr[sen]; }
                }
                if (bad) neg += (mn < 0);
                if (mn != 0) { minnz++; bad = 1; }
                if (bad && first_bad < 0) first_bad = fr * 10 + pass;
            }
            probed++;
        }
        acmod_advance(am);
        frames++;
    }
    printf("pobs frames=%ld probed=%ld neg=%ld minnz=%ld mismatch=%ld worst=%d nullscr=%ld first_bad=%ld compallsen=%d\n",
           frames, probed, neg, minnz, mismatch, worst, nullscr, first_bad, (int)am->compallsen);
    fflush(stdout);
    free(inA); free(inB); free(firstB);
}

/* Does the exported text DENOTE the mean in use?  Largest deviation between the numbers of `text` and the actual
 * state cmn->cmn_mean (read through decoder -> acmod -> fcb -> cmn_struct), relative to the printed precision of
 * "%g" (6 significant digits); 1e9 when the text has too few numbers or a side is not finite. */
static double cmn_text_vs_state(const char *text, cmn_t *cm)
{
    const char *p = text;
    double worst = 0;
    int i;
    if (!text) return 1e9;
    for (i = 0; i < cm->veclen; i++) {
        char *e;
        double v = strtod(p, &e), m = cm->cmn_mean[i], err;
        if (e == p) return 1e9;
        p = e; if (*p == ',') p++;
        if (!isfinite(v) || !isfinite(m)) return 1e9;
        err = fabs(v - m) / (fabs(m) > 1e-30 ? fabs(m) : 1e-30);
        if (fabs(v - m) > 1e-37 && err > worst) worst = err;
    }
    return worst;
}

/* One export / re-import cycle of the CMN state through the public API:
 *   g = decoder_get_cmn(d, update); every number finite?  state arrays finite?
 *   decoder_set_cmn(d, g) must ACCEPT what get just produced (return 0);
 *   decoder_get_cmn(d, 0) must give the same text; the mean may move by at most the %g rounding. */
static void cmn_roundtrip(decoder_t *d, int update, int *struct_fin, int *text_fin, int *rt, int *set_rc, double *relerr, double *denote, char **text)
{
    cmn_t *cm = d->acmod->fcb->cmn_struct;
    float before[64]; int nv = cm->veclen < 64 ? cm->veclen : 64, i;
    const char *g1, *g2; char *c1, *c2;
    for (i = 0; i < cm->veclen; i++) {
        if (!finite_f(cm->cmn_mean[i]) || !finite_f(cm->sum[i])) *struct_fin = 0;
        if (d->acmod->fcb->varnorm && d->acmod->fcb->cmn == CMN_BATCH && !finite_f(cm->cmn_var[i])) *struct_fin = 0;
    }
    g1 = decoder_get_cmn(d, update);
    for (i = 0; i < cm->veclen; i++)
        if (!finite_f(cm->cmn_mean[i]) || !finite_f(cm->sum[i])) *struct_fin = 0;
    c1 = strdup(g1 ? g1 : "(null)");
    for (i = 0; i < nv; i++) before[i] = cm->cmn_mean[i];
    *text_fin = g1 ? cmn_text_finite(c1) : 0;
    { double dn = cmn_text_vs_state(g1, cm); if (dn > *denote) *denote = dn; }   /* export must denote the state in use */
    *set_rc = decoder_set_cmn(d, c1);
    g2 = decoder_get_cmn(d, 0);
    c2 = strdup(g2 ? g2 : "(null)");
    *rt = !strcmp(c1, c2);
    for (i = 0; i < nv; i++) {
        double a = before[i], b = cm->cmn_mean[i], e;
        if (!finite_f(a) || !finite_f(b)) { *relerr = 1e9; continue; }
        e = fabs(a - b) / (fabs(a) > 1e-30 ? fabs(a) : 1e-30);
        if (fabs(a - b) > 1e-37 && e > *relerr) *relerr = e;
    }
    free(c2);
    *text = c1;
}

/* B9: the largest add-table index ptm_mgau_senone_eval can produce on the LOADED mixture weights, over every senone,
 * stream, choice and order of top-N codewords and every normalised score vector in [0, MAX_NEG_ASCR]^K:
 * the index of an add is |acc - y| with y <= maxbyte + MAX_NEG_ASCR and acc >= (the chain over the K-1 smallest weight
 * bytes of that senone with scores 0, minimised over their orders) — fast_logmath_add is monotone in both arguments for
 * a non-increasing table with steps <= 1, so smaller inputs give a smaller accumulator; in the other direction
 * acc - y <= maxbyte + MAX_NEG_ASCR.  All orders are tried for K-1 <= 5 (exact = 1), ascending and descending otherwise. */
static int c18_chain(logmath_t *lm, const int *v, int n)
{
    int acc = v[0], i;
    logadd_t *t = LOGMATH_TABLE(lm);
    for (i = 1; i < n; i++) {
        int x = acc, y = v[i], dd = x > y ? x - y : y - x, r = x > y ? y : x;
        acc = r - ((uint32)dd < t->table_size ? ((uint8 *)t->table)[dd] : 0);
    }
    return acc;
}
static int c18_perm_min(logmath_t *lm, int *v, int n, int k)
{
    int best, i;
    if (k == n) return c18_chain(lm, v, n);
    best = INT_MAX;
    for (i = k; i < n; i++) {
        int tmp = v[k], r;
        v[k] = v[i]; v[i] = tmp;
        r = c18_perm_min(lm, v, n, k + 1);
        if (r < best) best = r;
        tmp = v[k]; v[k] = v[i]; v[i] = tmp;
    }
    return best;
}
static int c18_addidx_bound(ptm_mgau_t *pm, int topn, int *out_sen, int *out_exact)
{
    int f, sen, cw, worst = -1, nden = pm->g->n_density, K1 = topn - 1;
    int small[8];
    *out_exact = K1 <= 5;
    if (K1 > 7) K1 = 7;
    for (f = 0; f < pm->g->n_feat; f++) for (sen = 0; sen < pm->n_sen; sen++) {
        int maxb = 0, n = 0, i, accmin, idx;
        for (cw = 0; cw < nden; cw++) {
            int b;
            if (pm->mixw_cb) { int dcw = pm->mixw[f][cw][sen / 2]; b = pm->mixw_cb[(dcw & 1) ? dcw >> 4 : dcw & 0x0f]; /* as ptm_mgau.c:376 */ }
            else b = pm->mixw[f][cw][sen];
            if (b > maxb) maxb = b;
            /* keep the K1 smallest */
            if (n < K1) { small[n++] = b; }
            else { int mi = 0; for (i = 1; i < n; i++) if (small[i] > small[mi]) mi = i; if (n && b < small[mi]) small[mi] = b; }
        }
        if (n == 0) accmin = 0;
        else if (n <= 5) accmin = c18_perm_min(pm->lmath_8b, small, n, 0);
        else {
            int a[8], bb[8], j, u, v2;
            for (i = 0; i < n; i++) a[i] = small[i];
            for (i = 0; i < n; i++) for (j = i + 1; j < n; j++) if (a[j] < a[i]) { int tt = a[i]; a[i] = a[j]; a[j] = tt; }
            for (i = 0; i < n; i++) bb[i] = a[n - 1 - i];
            u = c18_chain(pm->lmath_8b, a, n); v2 = c18_chain(pm->lmath_8b, bb, n);
            accmin = u < v2 ? u : v2;
        }
        if (accmin > 0) accmin = 0;
        idx = maxb + MAX_NEG_ASCR - accmin;
        if (idx > worst) { worst = idx; *out_sen = sen; }
    }
    return worst;
}

/* cmnset <comma-separated values | "-" for the empty string> [info]
 * The text-import contract of the CMN state, through the public API only (plus the public cmn_t fields for the
 * consistency of accumulators and means):
 *   t0 = get(FALSE); rc = decoder_set_cmn(d, text)
 *   rc != 0 (refused): the state must be unchanged (get(FALSE) == t0)
 *   rc == 0: with k = min(#values, veclen), expected = the first k values as float32, then zeros:
 *     get(FALSE) right after the import  == expected   (exactly: dev_after  = 0)
 *     sum[i] / nframe                     ~ expected   (the accumulators stand for the imported means: dev_sum)
 *     get(TRUE)  right after the import  ~ expected    (no audio in between: an update must not move anything;
 *                                                       float32 (v*500)/500 may differ from v by one unit in the last place)
 *     get(FALSE), get(TRUE) again        == the previous export (dev_again = 0)
 * "info": the same calls, nothing judged (values outside the admissible range, recorded for information).       */
static double rel_dev(double got, double want)
{
    double a = fabs(got - want);
    if (!isfinite(got) || !isfinite(want)) return 1e9;
    if (a == 0) return 0;
    return a / (fabs(want) > 1e-30 ? fabs(want) : 1e-30);
}

static int parse_list(const char *s, double *out, int max)
{
    int n = 0;
    while (s && *s && n < max) {
        char *e;
        out[n] = (double)(float)strtod(s, &e);      /* the text denotes a float32 (nine significant digits identify it) */
        if (e == s) break;
        n++;
        if (*e != ',') break;
        s = e + 1;
    }
    return n;
}

static void op_cmnset(decoder_t *d, const char *text, const char *how)
{
    cmn_t *cm = d->acmod->fcb->cmn_struct;
    double in[256], g[256], g2[256], want[256];
    int nin, veclen, k, i, rc, n1, n2, n3, unchanged = 1, fin = 1;
    double dev_after = 0, dev_upd = 0, dev_again = 0, dev_sum = 0;
    char *t0, *t1, *t2, *t3;
    const char *gp;
    if (!strcmp(text, "-")) text = "";
    if (cm == NULL) { printf("cmnp none=1 rc=%d\n", decoder_set_cmn(d, text)); fflush(stdout); return; }
    veclen = cm->veclen;
    /* count the values as the library documents the format: comma separated; an empty trailing field is no value */
    nin = 0;
    { const char *p = text; while (*p) { const char *q = strchr(p, ','); if (nin < 256) in[nin] = (double)(float)atof(p); nin++; if (!q) break; p = q + 1; if (!*p) break; } }
    k = nin < veclen ? nin : veclen;
    for (i = 0; i < veclen && i < 256; i++) want[i] = i < k ? in[i] : 0.0;
    gp = decoder_get_cmn(d, 0); t0 = strdup(gp ? gp : "(null)");
    printf("cmnp-begin %s\n", text); fflush(stdout);
    rc = decoder_set_cmn(d, text);
    gp = decoder_get_cmn(d, 0); t1 = strdup(gp ? gp : "(null)");
    if (rc != 0) {
        unchanged = !strcmp(t0, t1);
        printf("cmnp none=0 rc=%d nin=%d veclen=%d unchanged=%d how=%s\n", rc, nin, veclen, unchanged, how);
        fflush(stdout); free(t0); free(t1); return;
    }
    n1 = parse_list(t1, g, 256);
    for (i = 0; i < veclen && i < 256; i++) {
        double dv = i < n1 ? rel_dev(g[i], want[i]) : 1e9, ds;
        if (dv > dev_after) dev_after = dv;
        ds = cm->nframe > 0 ? rel_dev((double)(float)(cm->sum[i] / cm->nframe), want[i]) : 1e9;
        if (ds > dev_sum) dev_sum = ds;
        if (!finite_f(cm->cmn_mean[i]) || !finite_f(cm->sum[i])) fin = 0;
    }
    gp = decoder_get_cmn(d, 1); t2 = strdup(gp ? gp : "(null)");
    n2 = parse_list(t2, g2, 256);
    for (i = 0; i < veclen && i < 256; i++) {
        double dv = i < n2 ? rel_dev(g2[i], want[i]) : 1e9;
        if (dv > dev_upd) dev_upd = dv;
        if (!finite_f(cm->cmn_mean[i]) || !finite_f(cm->sum[i])) fin = 0;
    }
    gp = decoder_get_cmn(d, 0); t3 = strdup(gp ? gp : "(null)");
    if (strcmp(t2, t3)) dev_again = 1;
    gp = decoder_get_cmn(d, 1);
    n3 = parse_list(gp, g, 256);
    for (i = 0; i < veclen && i < 256; i++) { double dv = i < n3 && i < n2 ? rel_dev(g[i], g2[i]) : 1e9; if (dv > dev_again) dev_again = dv; }
    printf("cmnp none=0 rc=%d nin=%d veclen=%d n_out=%d nframe=%d fin=%d dev_after=%.3g dev_sum=%.3g dev_upd=%.3g dev_again=%.3g how=%s after=%s upd=%s\n",
           rc, nin, veclen, n1, (int)cm->nframe, fin, dev_after, dev_sum, dev_upd, dev_again, how, t1, t2);
    fflush(stdout);
    if (!strcmp(how, "info")) decoder_set_cmn(d, t0);     /* a run for information must not poison the following utterances */
    free(t0); free(t1); free(t2); free(t3);
}

static int main_sig(const char *json, const char *speech, const char *lang)
{
    static char line[4096];
    config_t *config;
    decoder_t *d;
    fe_t *fe2;
    int ceplen;
    mfcc_t **cepbuf;
    const int CEPCHUNK = 256;

    err_set_loglevel(ERR_FATAL);
    load_speech(speech);
    config = config_parse_json(NULL, json);
    if (!config) { printf("init-fail config\n"); return 0; }
    d = decoder_init(config);
    if (!d) { printf("init-fail decoder\n"); fflush(stdout); return 0; }
    if (decoder_set_jsgf_string(d, !strcmp(lang, "fr") ? GRAMMAR_FR : GRAMMAR) < 0) { printf("init-fail grammar\n"); fflush(stdout); return 0; }
    fe2 = fe_init(decoder_config(d));
    if (!fe2) { printf("init-fail fe\n"); fflush(stdout); return 0; }
    ceplen = fe_get_output_size(fe2);
    cepbuf = (mfcc_t **)ckd_calloc_2d(CEPCHUNK + 1, ceplen, sizeof(mfcc_t));
    {
        /* the range hypotheses of the theorems, read from the loaded model and search (reported and checked
         * by tools/props/c18.py): largest mixture weight, table bytes, stream / top-N counts, penalties */
        fsg_search_t *fs = (fsg_search_t *)d->search;
        int mixw_max = -1, is4b = 0, n_mgau = -1, n_den = -1, tmax = -1, lp_min = INT_MAX, lp_max = INT_MIN, lp_raw_min = INT_MAX, tp_max = -1, i, j, k;
        int addidx_bound = -1, addidx_sen = -1, addidx_exact = 0, tabsize = -1;
        if (!strcmp(d->acmod->mgau->vt->name, "ptm")) {
            ptm_mgau_t *pm = (ptm_mgau_t *)d->acmod->mgau;
            logadd_t *t = LOGMATH_TABLE(pm->lmath_8b);
            n_mgau = pm->g->n_mgau; n_den = pm->g->n_density;
            if (pm->mixw_cb) { is4b = 1; for (i = 0; i < 16; i++) if (pm->mixw_cb[i] > mixw_max) mixw_max = pm->mixw_cb[i]; }
            else for (i = 0; i < pm->g->n_feat; i++) for (j = 0; j < n_den; j++) for (k = 0; k < pm->n_sen; k++)
                if (pm->mixw[i][j][k] > mixw_max) mixw_max = pm->mixw[i][j][k];
            for (i = 0; i < (int)t->table_size; i++) if (((uint8 *)t->table)[i] > tmax) tmax = ((uint8 *)t->table)[i];
            addidx_bound = c18_addidx_bound(pm, (int)config_int(decoder_config(d), "topn"), &addidx_sen, &addidx_exact);
            tabsize = (int)t->table_size;
        }
        for (i = 0; i < fsg_model_n_state(fs->fsg); i++) {
            fsg_arciter_t *it;
            for (it = fsg_model_arcs(fs->fsg, i); it; it = fsg_arciter_next(it)) {
                int v = fsg_link_logs2prob(fsg_arciter_get(it)) >> SENSCR_SHIFT;
                if (v < lp_min) lp_min = v;
                if (v > lp_max) lp_max = v;
                if (fsg_link_logs2prob(fsg_arciter_get(it)) < lp_raw_min) lp_raw_min = fsg_link_logs2prob(fsg_arciter_get(it));
            }
        }
        printf("ready link_max=%d link_raw_min=%d addidx_bound=%d addidx_sen=%d addidx_exact=%d tabsize=%d mgau=%s n_sen=%d n_feat=%d ceplen=%d frate=%d topn=%d n_emit=%d n_mgau=%d n_den=%d mixw4b=%d mixw_max=%d "
               "tab_max=%d pip=%d wip=%d beam=%d pbeam=%d wbeam=%d link_min=%d cmntype=%d varnorm=%d\n",
               lp_max, lp_raw_min, addidx_bound, addidx_sen, addidx_exact, tabsize,
               d->acmod->mgau->vt->name, (int)bin_mdef_n_sen(d->acmod->mdef), (int)feat_dimension1(d->acmod->fcb), ceplen,
               (int)config_int(decoder_config(d), "frate"), (int)config_int(decoder_config(d), "topn"),
               (int)bin_mdef_n_emit_state(d->acmod->mdef), n_mgau, n_den, is4b, mixw_max, tmax,
               fs->pip, fs->wip, fs->beam_orig, fs->pbeam_orig, fs->wbeam_orig, lp_min,
               (int)d->acmod->fcb->cmn, (int)d->acmod->fcb->varnorm);
        (void)tp_max;
    }
    fflush(stdout);

    /* utt <fmt i16|f32> <kind> <p1> <p2> <nsamples> <seed> <batch 0|1> <chunk> <cmnupdate 0|1> */
    while (fgets(line, sizeof(line), stdin)) {
        char *w[16];
        int nw = vf_words(line, w, 16), isf, kind, batch, upd, probe;
        long p1, p2; size_t n, chunk, i; uint64_t seed;
        double *sig; int16 *s16 = NULL; float32 *f32 = NULL;
        obs_t o;
        int32 score = 0; long long segsum = 0; int nseg = 0, segbad = 0;
        const char *hyp; char *c1, *c2; int cmn_fin, cmn_rt, cmn_struct_fin = 1, cmn_set_rc = 0, cmn_bad_update = -1; double cmn_relerr = 0, cmn_denote = 0, mid_err = 0;
        long mid_checks = 0, mid_bad = 0, mid_first = -1, mid_next = 0;
        cmn_t *cm;
        int iscep = 0; mfcc_t **cepm = NULL;
        if (nw >= 2 && !strcmp(w[0], "cmnset")) { op_cmnset(d, w[1], nw >= 3 ? w[2] : "check"); continue; }
        if (nw < 10 || (strcmp(w[0], "utt") && strcmp(w[0], "probe"))) { printf("bad-op\n"); fflush(stdout); continue; }
        probe = !strcmp(w[0], "probe");
        isf = !strcmp(w[1], "f32");
        iscep = !strcmp(w[1], "cep");       /* cepstra instead of audio: kind = cepstral pattern, nsamples = number of FRAMES, chunk = frames per block */
        if (iscep) {
            for (kind = 0; kind < C_NPAT; kind++) if (!strcmp(cep_names[kind], w[2])) break;
            if (kind == C_NPAT || probe) { printf("bad-op\n"); fflush(stdout); continue; }
        } else
        for (kind = 0; kind < K_NKINDS; kind++) if (!strcmp(kind_names[kind], w[2])) break;
        p1 = L(w[3]); p2 = L(w[4]); n = (size_t)L(w[5]); seed = strtoull(w[6], NULL, 10);
        batch = (int)L(w[7]); chunk = (size_t)L(w[8]); upd = (int)L(w[9]);
        if (chunk < 1) chunk = 1;
        printf("begin %s", line[0] ? "" : ""); /* flushed marker so that a crash is attributed */
        for (i = 0; (int)i < nw; i++) printf("%s%s", i ? " " : "", w[i]);
        printf("\n"); fflush(stdout);

        sig = (double *)malloc(sizeof(double) * (n + 1));
        if (iscep) {
            if (n > 100000) n = 100000;
            cepm = (mfcc_t **)ckd_calloc_2d(n + 1, feat_cepsize(d->acmod->fcb), sizeof(mfcc_t));
            gen_cep(kind, p1, (int)n, feat_cepsize(d->acmod->fcb), seed, cepm);
        } else
        if (kind < K_FDENORM) gen_signal(kind, p1, p2, n, seed, sig);
        if (iscep) {
        } else if (isf) {
            f32 = (float32 *)malloc(sizeof(float32) * (n + 1));
            for (i = 0; i < n; i++) {
                switch (kind) {
                case K_FDENORM: f32[i] = ((i & 1) ? -1.0f : 1.0f) * 1e-42f; break; /* subnormal */
                case K_FTINY: f32[i] = ((i % 3) ? 1.0f : -1.0f) * 1.2e-38f; break; /* FLT_MIN-ish */
                case K_FONE: f32[i] = ((i / (p1 < 1 ? 1 : p1)) & 1) ? -1.0f : 1.0f; break; /* documented extremes */
                case K_FHUGE: f32[i] = ((i & 1) ? -1.0f : 1.0f) * (float)p1; break; /* OUTSIDE the documented range */
                default: f32[i] = (float32)(sig[i] / 32768.0);
                }
            }
            if (kind == K_FBITS || kind == K_FNOISE) c18_gen_fpattern(kind == K_FBITS, p1, p2, n, seed, f32);
            if (kind == K_FBITS || kind == K_FNOISE) for (i = 0; i < n; i++) if (!(f32[i] >= -1.0f && f32[i] <= 1.0f)) { fprintf(stderr, "harness: generated float sample outside [-1,1]\n"); abort(); }
        } else {
            s16 = (int16 *)malloc(sizeof(int16) * (n + 1));
            for (i = 0; i < n; i++) s16[i] = clip16(sig[i]);
        }
        if (d->acmod->fe->swap) {
            /* input_endian differs from the host: hand over the signal in THAT byte order, as a file of that
             * endianness would, so that the front end sees the intended adversarial samples */
            for (i = 0; i < n; i++) {
                if (s16) { uint16 v = (uint16)s16[i]; s16[i] = (int16)((v >> 8) | (v << 8)); }
                if (f32) { unsigned char *b = (unsigned char *)&f32[i], t; t = b[0]; b[0] = b[3]; b[3] = t; t = b[1]; b[1] = b[2]; b[2] = t; }
            }
        }
        memset(&o, 0, sizeof(o));
        o.cep_first_bad = o.feat_first_bad = o.sen_first_bad = -1;
        o.hmm_min = 0; o.hmm_max = INT_MIN; o.sen_max = INT_MIN;

        /* 1. front end alone: every cepstral value finite.  Fed in blocks of 4096 samples with room for
         * every frame of the block (an output-limited fe_process call that leaves more than 32767 samples
         * trips `assert(*inout_nsamps <= MAX_INT16)` in create_overflow_frame — not this property). */
        if (iscep) {
            size_t k2;
            o.ncep = (long)n;
            for (k2 = 0; k2 < n; k2++) if (cepm[k2][0] < 0) o.c0neg++;
            printf("fe ncep=%ld cep_bad=%ld c0neg=%ld cmntype=%d varnorm=%d\n", o.ncep, o.cep_bad, o.c0neg,
                   (int)d->acmod->fcb->cmn, (int)d->acmod->fcb->varnorm);
            fflush(stdout);
        } else {
            size_t pos = 0; int nfr, k, j;
            fe_start(fe2);
            while (pos < n) {
                size_t left = n - pos < 4096 ? n - pos : 4096, took = left;
                int16 *p16 = s16 ? s16 + pos : NULL; float32 *pf = f32 ? f32 + pos : NULL;
                int guard = 0;
                while (left > 0 && guard++ < 64) {
                    size_t before = left;
                    nfr = isf ? fe_process_float32(fe2, &pf, &left, cepbuf, CEPCHUNK)
                              : fe_process_int16(fe2, &p16, &left, cepbuf, CEPCHUNK);
                    if (nfr < 0) break;
                    for (k = 0; k < nfr; k++) {
                        int bad = 0;
                        for (j = 0; j < ceplen; j++) if (!finite_f(cepbuf[k][j])) bad = 1;
                        if (bad) { if (!o.cep_bad) o.cep_first_bad = o.ncep; o.cep_bad++; }
                        if (cepbuf[k][0] < 0) o.c0neg++;
                        o.ncep++;
                    }
                    if (nfr == 0 && left == before) break;
                }
                pos += took;
            }
            nfr = fe_end(fe2, cepbuf, CEPCHUNK);
            for (k = 0; k < nfr; k++) {
                int bad = 0;
                for (j = 0; j < ceplen; j++) if (!finite_f(cepbuf[k][j])) bad = 1;
                if (bad) { if (!o.cep_bad) o.cep_first_bad = o.ncep; o.cep_bad++; }
                if (cepbuf[k][0] < 0) o.c0neg++;
                o.ncep++;
            }
            printf("fe ncep=%ld cep_bad=%ld c0neg=%ld cmntype=%d varnorm=%d\n", o.ncep, o.cep_bad, o.c0neg,
                   (int)d->acmod->fcb->cmn, (int)d->acmod->fcb->varnorm);
            fflush(stdout);
        }

        /* 2. whole decoder */
        if (decoder_start_utt(d) < 0) { printf("err start_utt\n"); fflush(stdout); goto next; }
        if (probe) {
            /* acmod-level probe: `probe ...` has the same fields as `utt`, the last one = probe every k-th frame */
            size_t pos = 0;
            if (batch) { if (isf) decoder_process_float32(d, f32, n, 1, 1); else decoder_process_int16(d, s16, n, 1, 1); }
            else while (pos < n) {
                size_t m = n - pos < chunk ? n - pos : chunk;
                if (isf) decoder_process_float32(d, f32 + pos, m, 1, 0); else decoder_process_int16(d, s16 + pos, m, 1, 0);
                pos += m;
            }
            acmod_end_utt(d->acmod);
            rescoring_probe(d, seed, upd < 1 ? 1 : upd);
            search_module_finish(d->search);
            ptmr_stop(&d->perf);
            goto next;
        }
        if (iscep) {
            /* = decoder_process_* with no_search, but the cepstra go straight to acmod_process_cep (which normalises
             * them in place and computes the dynamic features) */
            mfcc_t **ptr = cepm; int left = (int)n, guard = 0;
            acmod_set_grow(d->acmod, TRUE);
            if (batch) {
                if (left > 0) acmod_process_cep(d->acmod, &ptr, &left, TRUE);
                forward(d, &o);
            } else while (left > 0 && guard < 8) {
                int m = left < (int)chunk ? left : (int)chunk, mm = m;
                mfcc_t **p = ptr;
                if (acmod_process_cep(d->acmod, &p, &mm, FALSE) < 0) break;
                if (mm == m) guard++; else guard = 0;
                ptr += m - mm; left -= m - mm;
                forward(d, &o);
                if (d->acmod->fcb->cmn_struct && (long)(n - left) >= mid_next) {
                    double e = cmn_text_vs_state(decoder_get_cmn(d, 0), d->acmod->fcb->cmn_struct);
                    mid_checks++;
                    if (e > mid_err) mid_err = e;
                    if (e > 2e-5) { mid_bad++; if (mid_first < 0) mid_first = (long)(n - left); }
                    mid_next = (long)(n - left) + 50;
                }
            }
        } else if (batch) {
            if (isf) decoder_process_float32(d, f32, n, 1, 1); else decoder_process_int16(d, s16, n, 1, 1);
            forward(d, &o);
        } else {
            size_t pos = 0;
            while (pos < n) {
                size_t m = n - pos < chunk ? n - pos : chunk;
                if (isf) decoder_process_float32(d, f32 + pos, m, 1, 0); else decoder_process_int16(d, s16 + pos, m, 1, 0);
                forward(d, &o);
                pos += m;
                /* export IN THE MIDDLE of the utterance, WITHOUT the update flag, about every 50 frames: the text must
                 * denote the mean the live CMN is using right now (state read through the headers) */
                if (d->acmod->fcb->cmn_struct && (long)(pos / (size_t)d->acmod->fe->frame_shift) >= mid_next) {
                    long fr_now = (long)(pos / (size_t)d->acmod->fe->frame_shift);
                    double e = cmn_text_vs_state(decoder_get_cmn(d, 0), d->acmod->fcb->cmn_struct);
                    mid_checks++;
                    if (e > mid_err) mid_err = e;
                    if (e > 2e-5) { mid_bad++; if (mid_first < 0) mid_first = fr_now; }
                    mid_next = fr_now + 50;
                }
            }
        }
        /* = decoder_end_utt with per-frame observation */
        acmod_end_utt(d->acmod);
        forward(d, &o);
        search_module_finish(d->search);
        ptmr_stop(&d->perf);

        hyp = decoder_hyp(d, &score);
        {
            seg_iter_t *seg;
            for (seg = decoder_seg_iter(d); seg; seg = seg_iter_next(seg)) {
                int32 a, l;
                seg_iter_prob(seg, &a, &l);
                segsum += (long long)a + (long long)l;
                if (a > 0 || l > 0 || a < WORST_SCORE || l < WORST_SCORE) segbad++;
                nseg++;
            }
        }
        /* 3. CMN state: export / finite / re-import, with update = 0, 1 or both (upd: 0, 1, 2 = 0 then 1, 3 = 1 then 0) */
        cm = d->acmod->fcb->cmn_struct;
        c1 = c2 = NULL; cmn_fin = cmn_rt = 1;
        if (cm == NULL) {
            /* cmn: none — there is no state; the documented getters are still called (they must not crash) */
            const char *g1;
            printf("cmn-none\n"); fflush(stdout);
            g1 = decoder_get_cmn(d, upd & 1);
            c1 = strdup(g1 ? g1 : "(none)");
            decoder_set_cmn(d, "1,2,3");
        } else {
            int seq[2], nseq = 0, q;
            if (upd == 0) seq[nseq++] = 0; else if (upd == 1) seq[nseq++] = 1;
            else if (upd == 2) { seq[nseq++] = 0; seq[nseq++] = 1; } else { seq[nseq++] = 1; seq[nseq++] = 0; }
            for (q = 0; q < nseq; q++) {
                int f1 = 1, r1 = 1, sf = 1, src = 0; double re = 0; char *txt = NULL;
                cmn_roundtrip(d, seq[q], &sf, &f1, &r1, &src, &re, &cmn_denote, &txt);
                if (!sf) cmn_struct_fin = 0;
                if (!f1) cmn_fin = 0;
                if (!r1) cmn_rt = 0;
                if (src != 0) cmn_set_rc = src;
                if (re > cmn_relerr) cmn_relerr = re;
                if ((!sf || !f1 || !r1 || src != 0) && cmn_bad_update < 0) cmn_bad_update = seq[q];
                free(c1); c1 = txt;
            }
        }
        printf("obs addidx_max=%d addidx_oob=%d ncep=%ld cep_bad=%ld cep_first_bad=%ld nfeat=%ld feat_bad=%ld feat_first_bad=%ld "
               "c0neg=%ld sen_frames=%ld sen_empty=%ld sen_neg=%ld sen_minnz=%ld sen_first_bad=%ld sen_max=%d "
               "hmm_checked=%ld hmm_bad=%ld hmm_min=%d hmm_max=%d best_frames=%ld best_up=%ld best_pos=%ld best_last=%d "
               "hist_n=%ld hist_bad=%ld hist_up=%ld hyp=%d score=%d nseg=%d segsum=%lld segbad=%d "
               "cmn_struct_fin=%d cmn_fin=%d cmn_rt=%d cmn_set_rc=%d cmn_bad_update=%d cmn_relerr=%.3g cmn_denote=%.3g "
               "cmn_mid_checks=%ld cmn_mid_bad=%ld cmn_mid_first=%ld cmn_mid_err=%.3g nframes=%d cmn=%s\n",
               g_addidx_max, g_addidx_oob, o.ncep, o.cep_bad, o.cep_first_bad, o.nfeat, o.feat_bad, o.feat_first_bad,
               o.c0neg, o.sen_frames, o.sen_empty, o.sen_neg, o.sen_minnz, o.sen_first_bad, o.sen_max == INT_MIN ? -1 : o.sen_max,
               o.hmm_checked, o.hmm_bad, o.hmm_min, o.hmm_max == INT_MIN ? 1 : o.hmm_max, o.best_frames, o.best_up, o.best_pos, o.best_last,
               o.hist_n, o.hist_bad, o.hist_up, hyp ? 1 : 0, score, nseg, segsum, segbad,
               cmn_struct_fin, cmn_fin, cmn_rt, cmn_set_rc, cmn_bad_update, cmn_relerr, cmn_denote, mid_checks, mid_bad, mid_first, mid_err, decoder_n_frames(d), c1);
        fflush(stdout);
        free(c1); free(c2);
    next:
        free(sig); free(s16); free(f32);
        if (cepm) ckd_free_2d(cepm);
    }
    ckd_free_2d(cepbuf);
    fe_free(fe2);
    decoder_free(d);
    return 0;
}

/* ------------------------------------------------------------------------------------------ */
/* front end alone over MANY configurations: `h_c18 fe` reads one JSON configuration per line; each is run in
 * a forked child (fe_init may E_FATAL = exit on a filterbank it cannot build).  For an accepted configuration:
 * every mel filter coefficient must be finite, and every cepstral value of a fixed set of signals must be.    */
#include <sys/wait.h>
#include <unistd.h>

/* close-c05c18: float samples chosen by bit pattern (c18_gen_fpattern) through fe_process_float32 in blocks of
 * `block` samples (0 = the whole signal in one call), then fe_end; counts frames with a non-finite cepstral value */
static void fe_run_fpattern(fe_t *fe, mfcc_t **cep, int ceplen, int fbits, long p1, long p2, uint64_t seed,
                            size_t block, long *frames, long *bad, char *first, size_t firstsz)
{
    size_t n = (size_t)fe->frame_shift * 24 + fe->frame_size, pos = 0, i;
    float32 *f32 = (float32 *)malloc(4 * (n + 1));
    int fr = 0, nfr, j;
    c18_gen_fpattern(fbits, p1, p2, n, seed, f32);
    for (i = 0; i < n; i++) if (!(f32[i] >= -1.0f && f32[i] <= 1.0f)) { fprintf(stderr, "harness: float sample outside [-1,1]\n"); abort(); }
    if (fe->swap)
        for (i = 0; i < n; i++) { unsigned char *b = (unsigned char *)&f32[i], t; t = b[0]; b[0] = b[3]; b[3] = t; t = b[1]; b[1] = b[2]; b[2] = t; }
    if (block == 0 || block > n) block = n;
    fe_start(fe);
    while (pos <= n) {
        size_t m = n - pos < block ? n - pos : block, left = m;
        const float32 *pf = f32 + pos; int guard = 0;
        if (pos == n) nfr = fe_end(fe, cep, 300);
        else {
            nfr = 0;
            while (left > 0 && guard++ < 8) {
                int r = fe_process_float32(fe, &pf, &left, cep + nfr, 300 - nfr);
                if (r <= 0) break;
                nfr += r;
            }
        }
        for (i = 0; (int)i < nfr; i++) {
            int b = 0;
            for (j = 0; j < ceplen; j++) if (!isfinite(cep[i][j])) b = 1;
            (*frames)++;
            if (b) { if (!*bad) snprintf(first, firstsz, "%s%ld/p2=%ld/block%ld/frame%d", fbits ? "fbits" : "fnoise", p1, p2, (long)block, fr); (*bad)++; }
            fr++;
        }
        if (pos == n) break;
        pos += m;
    }
    free(f32);
}

static void fe_one_config(const char *json)
{
    config_t *config = config_parse_json(NULL, json);
    fe_t *fe;
    int ceplen, i, j, k, kind, isf;
    long coef_bad = 0, coef_neg = 0, ncoef = 0, frames = 0, bad = 0;
    char first[64] = "-";
    mfcc_t **cep;
    static const int kinds[] = { K_ZERO, K_NOISE, K_IMPULSE, K_DC, K_ALT, K_LSB, K_SQUARE };
    if (!config) { printf("fecfg init=0 why=config\n"); return; }
    fe = fe_init(config);
    if (!fe) { printf("fecfg init=0 why=fe_init\n"); return; }
    ceplen = fe_get_output_size(fe);
    for (i = 0; i < fe->mel_fb->num_filters; i++)
        for (j = 0; j < fe->mel_fb->filt_width[i]; j++) {
            double v = fe->mel_fb->filt_coeffs[fe->mel_fb->filt_start[i] + j];
            ncoef++;
            if (!isfinite(v)) coef_bad++; else if (v < 0) coef_neg++;
        }
    cep = (mfcc_t **)ckd_calloc_2d(300, ceplen, sizeof(mfcc_t));
    for (k = 0; k < (int)(sizeof(kinds) / sizeof(kinds[0])); k++) {
        for (isf = 0; isf < 2; isf++) {
            size_t n = (size_t)fe->frame_shift * 24 + fe->frame_size, pos = 0;
            double *sig = (double *)malloc(sizeof(double) * (n + 1));
            int16 *s16 = (int16 *)malloc(2 * (n + 1)); float32 *f32 = (float32 *)malloc(4 * (n + 1));
            int fr = 0, nfr;
            kind = kinds[k];
            gen_signal(kind, kind == K_NOISE ? 32767 : kind == K_IMPULSE ? 97 : kind == K_DC ? -32768 : 3,
                       32767, n, 11 + k, sig);
            for (i = 0; (size_t)i < n; i++) {
                s16[i] = clip16(sig[i]); f32[i] = (float32)(sig[i] / 32768.0);
                if (fe->swap) {
                    uint16 v = (uint16)s16[i]; unsigned char *b = (unsigned char *)&f32[i], t;
                    s16[i] = (int16)((v >> 8) | (v << 8));
                    t = b[0]; b[0] = b[3]; b[3] = t; t = b[1]; b[1] = b[2]; b[2] = t;
                }
            }
            fe_start(fe);
            while (pos <= n) {
                size_t m = n - pos < 1000 ? n - pos : 1000, left = m;
                int16 *p16 = s16 + pos; float32 *pf = f32 + pos; int guard = 0;
                if (pos == n) {
                    nfr = fe_end(fe, cep, 300);
                } else {
                    nfr = 0;
                    while (left > 0 && guard++ < 8) {
                        int r = isf ? fe_process_float32(fe, &pf, &left, cep + nfr, 300 - nfr)
                                    : fe_process_int16(fe, &p16, &left, cep + nfr, 300 - nfr);
                        if (r <= 0) break;
                        nfr += r;
                    }
                }
                for (i = 0; i < nfr; i++) {
                    int b = 0;
                    for (j = 0; j < ceplen; j++) if (!isfinite(cep[i][j])) b = 1;
                    frames++;
                    if (b) { if (!bad) snprintf(first, sizeof(first), "%s/%s/frame%d", kind_names[kind], isf ? "f32" : "i16", fr); bad++; }
                    fr++;
                }
                if (pos == n) break;
                pos += m;
            }
            free(sig); free(s16); free(f32);
        }
    }
    {
        /* close-c05c18: bit-pattern floats x call shapes (one call / 1000 / shift+1 / less than a frame shift) */
        long fpf = 0, fpb = 0, cls; char fpfirst[96] = "-";
        size_t blocks[4]; int bi;
        blocks[0] = 0; blocks[1] = 1000; blocks[2] = (size_t)fe->frame_shift + 1; blocks[3] = fe->frame_shift > 3 ? (size_t)fe->frame_shift / 3 : 1;
        for (bi = 0; bi < 4; bi++) {
            for (cls = 0; cls <= 5; cls++)
                fe_run_fpattern(fe, cep, ceplen, 1, cls, (cls == 5 || (cls + bi) % 2) ? 1 : 97, 101 + (uint64_t)cls * 7 + (uint64_t)bi, blocks[bi], &fpf, &fpb, fpfirst, sizeof(fpfirst));
            fe_run_fpattern(fe, cep, ceplen, 0, bi == 0 ? 1 : bi == 1 ? 8 : bi == 2 ? 30 : 100, 0, 211 + (uint64_t)bi, blocks[bi], &fpf, &fpb, fpfirst, sizeof(fpfirst));
        }
        printf("fecfg init=1 nfilt=%d fft=%d frame_size=%d shift=%d ceplen=%d ncoef=%ld coef_bad=%ld coef_neg=%ld frames=%ld bad=%ld first=%s "
               "swap=%d dither=%d remove_dc=%d fpat_frames=%ld fpat_bad=%ld fpat_first=%s\n",
               fe->mel_fb->num_filters, fe->fft_size, fe->frame_size, fe->frame_shift, ceplen, ncoef, coef_bad, coef_neg, frames, bad, first,
               fe->swap ? 1 : 0, fe->dither ? 1 : 0, fe->remove_dc ? 1 : 0, fpf, fpb, fpfirst);
    }
}

static int main_fe(void)
{
    static char line[8192];
    err_set_loglevel(ERR_FATAL);
    while (fgets(line, sizeof(line), stdin)) {
        pid_t pid;
        int status = 0;
        size_t L0 = strlen(line);
        while (L0 && (line[L0 - 1] == '\n' || line[L0 - 1] == '\r')) line[--L0] = 0;
        if (!L0) continue;
        fflush(stdout);
        pid = fork();
        if (pid == 0) {
            fe_one_config(line);
            fflush(stdout);
            _exit(0);
        }
        waitpid(pid, &status, 0);
        if (!WIFEXITED(status) || WEXITSTATUS(status) != 0)
            printf("fecfg died exited=%d code=%d signal=%d\n", WIFEXITED(status), WIFEXITED(status) ? WEXITSTATUS(status) : -1,
                   WIFSIGNALED(status) ? WTERMSIG(status) : 0);
        fflush(stdout);
    }
    return 0;
}

/* ------------------------------------------------------------------------------------------ */
/* feature computation alone over MANY configurations x adversarial CEPSTRA: `h_c18 cepf` reads one line per
 * configuration: <json config> TAB <case> <case> ...   with  case = pattern:nframes:p1:seed:mode:chunk
 * (mode f = whole utterance in one call (beginutt && endutt), b = blocks of `chunk` frames).  Each line runs in a
 * forked child (cmn_live E_FATALs on varnorm by design) on ONE feat_t, the cases in order (CMN state carries over).
 * Drives feat_s2mfc2feat_live exactly as acmod_process_cep does.  Per case: every output value and the CMN state
 * (mean, sum; the inverse standard deviations cmn_var when batch + varnorm just ran) must be finite.               */
static void cepf_one(char *line)
{
    char *tab = strchr(line, '\t'), *w[256];
    config_t *config;
    feat_t *fcb;
    int nw, ci, ceplen, i, j, k;
    if (!tab) { printf("cepcfg init=0 why=format\n"); return; }
    *tab++ = 0;
    config = config_parse_json(NULL, line);
    if (!config) { printf("cepcfg init=0 why=config\n"); return; }
    fcb = feat_init(config);
    if (!fcb) { printf("cepcfg init=0 why=feat_init\n"); return; }
    ceplen = feat_cepsize(fcb);
    printf("cepcfg init=1 cmntype=%d varnorm=%d ceplen=%d nstream=%d dim=%d win=%d\n", (int)fcb->cmn, (int)fcb->varnorm, ceplen,
           (int)feat_dimension1(fcb), (int)feat_dimension(fcb), (int)feat_window_size(fcb));
    fflush(stdout);
    nw = vf_words(tab, w, 256);
    for (ci = 0; ci < nw; ci++) {
        char name[32] = "", mode = 'f';
        long nfr = 0, p1 = 0, chunk = 0; unsigned long long seed = 0;
        int pat, nout = 0, left, first_fr = -1, first_dim = -1, statebad = 0, begin = 1;
        long bad = 0, vals = 0;
        mfcc_t **cep, ***feat, **ptr;
        if (sscanf(w[ci], "%31[^:]:%ld:%ld:%llu:%c:%ld", name, &nfr, &p1, &seed, &mode, &chunk) != 6 || nfr < 0 || nfr > 20000) {
            printf("case %s bad-case\n", w[ci]); continue;
        }
        for (pat = 0; pat < C_NPAT; pat++) if (!strcmp(cep_names[pat], name)) break;
        if (pat == C_NPAT) { printf("case %s bad-case\n", w[ci]); continue; }
        if (chunk < 1) chunk = 1;
        printf("case-begin %s\n", w[ci]); fflush(stdout);
        cep = (mfcc_t **)ckd_calloc_2d(nfr + 1, ceplen, sizeof(mfcc_t));
        gen_cep(pat, p1, (int)nfr, ceplen, seed, cep);
        feat = feat_array_alloc(fcb, (int)nfr + 2 * feat_window_size(fcb) + 8);
        ptr = cep; left = (int)nfr;
        if (mode == 'f') {
            int32 n = left;
            nout = feat_s2mfc2feat_live(fcb, ptr, &n, TRUE, TRUE, feat);
        } else {
            int guard = 0;
            while (guard < 8) {
                int32 n = left < chunk ? left : (int32)chunk, m = n, r;
                int end = (left <= chunk);
                r = feat_s2mfc2feat_live(fcb, ptr, &n, begin, end, feat + nout);
                if (r < 0) break;
                nout += r; ptr += n; left -= n;
                if (n > 0) begin = 0;
                if (n == 0 && m > 0) guard++; else guard = 0;
                if (end && n == m) break;       /* the whole last block was taken together with the end of the utterance */
            }
        }
        for (i = 0; i < nout; i++)
            for (j = 0; j < (int)feat_dimension1(fcb); j++)
                for (k = 0; k < (int)feat_dimension2(fcb, j); k++) {
                    vals++;
                    if (!isfinite((double)feat[i][j][k])) { if (!bad) { first_fr = i; first_dim = k; } bad++; }
                }
        if (fcb->cmn_struct) {
            cmn_t *cm = fcb->cmn_struct;
            for (i = 0; i < cm->veclen; i++) {
                if (!isfinite((double)cm->cmn_mean[i]) || !isfinite((double)cm->sum[i])) statebad |= 1;
                if (fcb->varnorm && fcb->cmn == CMN_BATCH && mode == 'f' && nfr > 0 && !isfinite((double)cm->cmn_var[i])) statebad |= 2;
            }
            if (cm->repr == NULL || !cmn_text_finite(cm->repr)) statebad |= 4;
        }
        printf("case %s out=%d vals=%ld bad=%ld first=%d.%d statebad=%d\n", w[ci], nout, vals, bad, first_fr, first_dim, statebad);
        fflush(stdout);
        feat_array_free(feat);
        ckd_free_2d(cep);
    }
    printf("cepcfg done\n");
    feat_free(fcb);
    config_free(config);
}

static int main_cepf(void)
{
    static char line[1 << 16];
    err_set_loglevel(ERR_FATAL);
    while (fgets(line, sizeof(line), stdin)) {
        pid_t pid;
        int status = 0;
        size_t L0 = strlen(line);
        while (L0 && (line[L0 - 1] == '\n' || line[L0 - 1] == '\r')) line[--L0] = 0;
        if (!L0) continue;
        fflush(stdout);
        pid = fork();
        if (pid == 0) {
            cepf_one(line);
            fflush(stdout);
            _exit(0);
        }
        waitpid(pid, &status, 0);
        if (!WIFEXITED(status) || WEXITSTATUS(status) != 0)
            printf("cepcfg died exited=%d code=%d signal=%d\n", WIFEXITED(status), WIFEXITED(status) ? WEXITSTATUS(status) : -1,
                   WIFSIGNALED(status) ? WTERMSIG(status) : 0);
        printf("cepcfg end\n");
        fflush(stdout);
    }
    return 0;
}

int main(int argc, char **argv)
{
    if (argc >= 2 && !strcmp(argv[1], "fe")) return main_fe();
    if (argc >= 2 && !strcmp(argv[1], "cepf")) return main_cepf();
    if (argc >= 2 && !strcmp(argv[1], "int")) return main_int();
    if (argc >= 4 && !strcmp(argv[1], "sig")) return main_sig(argv[2], argv[3], argc >= 5 ? argv[4] : "en");
    fprintf(stderr, "usage: h_c18 int < ops | h_c18 sig '<json>' <speech.raw> < utts\n");
    return 2;
}
