/* C09 harness: replays a history of public API calls on the real library (ASan/UBSan/LSan, asserts on).
 *
 * stdin: one call per line, arguments symbolic (see tools/props/c09.py for the generator); an optional
 * first word "@0" / "@1" selects the decoder instance the call is made on (default @0): two decoders may
 * be alive in one process, each with its own handle tables.
 * stdout, per call:   "> <call>"   flushed BEFORE the call is made (a crash is attributed to it)
 *                     "< <return class> | <state of instance 0> || <state of instance 1> || <shared objects>"
 * A call that names an empty handle slot (or needs a live decoder when there is none) is not a call
 * with a valid object pointer: it is answered "< skip" and nothing is executed.
 * At end of input everything still held (iterators, user references, decoder references) is released by
 * explicit, printed calls, so that the transcript is a complete history ending with the last release;
 * the process then exits normally and LeakSanitizer reports anything still allocated.
 *
 * The state summary reads decoder_t/acmod_t/search_module_t fields through the installed headers only.
 *
 * -DVF_PASSTHROUGH_POOL: the element pool of listelem_alloc.c (lattice nodes, links, A* paths, FSG links)
 * is replaced by one malloc per element, so that AddressSanitizer sees a use of a pooled element after it
 * was returned to its pool (the real pool recycles the memory and hides it).
 */
#include "common.h"
#include <soundswallower/acmod.h>
#include <soundswallower/ckd_alloc.h>
#include <soundswallower/alignment.h>
#include <soundswallower/config_defs.h>
#include <soundswallower/configuration.h>
#include <soundswallower/decoder.h>
#include <soundswallower/err.h>
#include <soundswallower/fe.h>
#include <soundswallower/feat.h>
#include <soundswallower/fsg_model.h>
#include <soundswallower/fsg_search.h>
#include <soundswallower/lattice.h>
#include <soundswallower/logmath.h>
#include <soundswallower/mllr.h>
#include <soundswallower/search_module.h>
#include <soundswallower/state_align_search.h>
/* counting wrappers for every exported function of the API surface (generated from the current headers) */
#include "gen_c09_api.h"

#ifdef VF_PASSTHROUGH_POOL
#include <soundswallower/listelem_alloc.h>
/* pass-through replacement of src/listelem_alloc.c (these definitions are found first by the linker, the
 * archive member is not pulled in): one heap block per element, freeing the pool frees what is left */
typedef struct vf_elem_s { struct vf_elem_s *prev, *next; double pad; } vf_elem_t;
struct listelem_alloc_s { size_t elemsize; vf_elem_t head; long n_alloc, n_free; };
listelem_alloc_t *listelem_alloc_init(size_t elemsize)
{
    listelem_alloc_t *le = (listelem_alloc_t *)calloc(1, sizeof(*le));
    le->elemsize = elemsize; le->head.prev = le->head.next = &le->head;
    return le;
}
void listelem_alloc_free(listelem_alloc_t *le)
{
    if (!le) return;
    while (le->head.next != &le->head) { vf_elem_t *e = le->head.next; le->head.next = e->next; free(e); }
    free(le);
}
void *__listelem_malloc__(listelem_alloc_t *le, char *file, int line)
{
    /* zeroed like an element of a fresh block of the real pool (ckd_calloc) */
    vf_elem_t *e = (vf_elem_t *)calloc(1, sizeof(vf_elem_t) + le->elemsize);
    (void)file; (void)line;
    e->next = le->head.next; e->prev = &le->head; le->head.next->prev = e; le->head.next = e;
    le->n_alloc++;
    return (void *)(e + 1);
}
void *__listelem_malloc_id__(listelem_alloc_t *le, char *file, int line, int32 *out_id)
{
    if (out_id) *out_id = -1;
    return __listelem_malloc__(le, file, line);
}
void *listelem_get_item(listelem_alloc_t *le, int32 id) { (void)le; (void)id; return NULL; }
void __listelem_free__(listelem_alloc_t *le, void *elem, char *file, int line)
{
    vf_elem_t *e = ((vf_elem_t *)elem) - 1;
    (void)file; (void)line;
    e->prev->next = e->next; e->next->prev = e->prev;
    le->n_free++;
    free(e);
}
void listelem_stats(listelem_alloc_t *le) { (void)le; }
#endif

#define NSLOT 6
typedef struct {
    decoder_t *dec;        /* the decoder (NULL = no live reference held by the history) */
    int refs;              /* references the history holds on the decoder */
    seg_iter_t *seg[NSLOT];
    hyp_iter_t *hyp[NSLOT];
    alignment_iter_t *ali[NSLOT];
    lattice_t *lat[NSLOT];   /* user references taken with lattice_retain */
    alignment_t *aln[NSLOT]; /* user references taken with alignment_retain, or created with alignment_init */
    int built[NSLOT];        /* the slot holds an alignment the history builds itself */
    latnode_iter_t *ln[NSLOT]; lattice_t *lndag[NSLOT]; /* node iterators (pointers into a lattice) */
    latlink_iter_t *ll[NSLOT]; lattice_t *lldag[NSLOT]; /* link iterators */
} inst_t;
static inst_t I[2], *C = &I[0];
#define D (C->dec)
#define Drefs (C->refs)
#define SEG (C->seg)
#define HYP (C->hyp)
#define ALI (C->ali)
#define LAT (C->lat)
#define ALN (C->aln)
#define LN (C->ln)
#define LL (C->ll)
/* objects shared between the instances: references the history holds on sub-objects */
static config_t *CFG[NSLOT];
static logmath_t *LM[NSLOT];
static fe_t *FE[NSLOT];
static feat_t *FT[NSLOT];
static mllr_t *ML[NSLOT];
static const char *BOR[NSLOT]; /* borrowed strings (decoder_hyp, decoder_result_json, decoder_get_cmn, hyp_iter_hyp) */
static char *STR[NSLOT];       /* strings owned by the history (decoder_lookup_word) */
static const char *REPO = "/repo";
static const char *SCRATCH = "/tmp";
static char pathbuf[5][1024];

static int16 *goraw; static size_t gon;

static const char *repo_path(int i, const char *rel)
{
    snprintf(pathbuf[i], sizeof(pathbuf[i]), "%s/%s", REPO, rel);
    return pathbuf[i];
}

static void load_audio(void)
{
    FILE *f = fopen(repo_path(0, "tests/data/goforward.raw"), "rb");
    long sz;
    if (!f) { fprintf(stderr, "harness: cannot open goforward.raw\n"); exit(3); }
    fseek(f, 0, SEEK_END); sz = ftell(f); fseek(f, 0, SEEK_SET);
    gon = sz / 2;
    goraw = (int16 *)malloc(sz);
    if (fread(goraw, 2, gon, f) != gon) exit(3);
    fclose(f);
}

/* symbolic audio: exactly n samples in a fresh heap block (so that an over-read is seen by ASan) */
static int16 *make_audio(const char *clip, size_t off, size_t n)
{
    int16 *b = (int16 *)malloc(n ? n * 2 : 1);
    size_t i;
    uint64_t s = 12345 + off;
    for (i = 0; i < n; i++) {
        if (!strcmp(clip, "go")) b[i] = goraw[(off + i) % gon];
        else if (!strcmp(clip, "zero")) b[i] = 0;
        else if (!strcmp(clip, "dc")) b[i] = 1000;
        else if (!strcmp(clip, "noise")) b[i] = (int16)(vf_rand(&s) & 0xffff);
        else if (!strcmp(clip, "quiet")) b[i] = (int16)((int)(vf_rand(&s) % 7) - 3);
        else if (!strcmp(clip, "sq")) b[i] = ((off + i) / 40) % 2 ? 32767 : -32768;
        else if (!strcmp(clip, "imp")) b[i] = (i % 997 == 0) ? 32767 : 0;
        else b[i] = (int16)(goraw[(off + i) % gon] / 64);
    }
    return b;
}

static const char *jsgf_text(const char *k)
{
    if (!strcmp(k, "go")) return "#JSGF V1.0; grammar g; public <s> = go forward ten meters;";
    if (!strcmp(k, "move")) return "#JSGF V1.0; grammar g; public <m> = go <d> <n> [meter | meters]; <d> = forward | backward; <n> = one | two | ten;";
    if (!strcmp(k, "opt")) return "#JSGF V1.0; grammar g; public <s> = [go] [forward] [ten] [meters];";
    if (!strcmp(k, "star")) return "#JSGF V1.0; grammar g; public <s> = (go | forward | ten | meters)*;";
    if (!strcmp(k, "plus")) return "#JSGF V1.0; grammar g; public <s> = (go forward)+ ten;";
    if (!strcmp(k, "nullonly")) return "#JSGF V1.0; grammar g; public <s> = <NULL>;";
    if (!strcmp(k, "grp")) return "#JSGF V1.0; grammar g; public <s> = (go | stop) [forward] /2/ ten {tag} | /0.5/ hello;";
    if (!strcmp(k, "long")) return "#JSGF V1.0; grammar g; public <s> = go forward ten meters go forward ten meters go forward ten meters;";
    if (!strcmp(k, "wide")) return "#JSGF V1.0; grammar g; public <s> = (go | stop | hello | forward | backward | ten | two | one | meter | meters | left | right)+;";
    if (!strcmp(k, "empty")) return "";
    if (!strcmp(k, "syntax")) return "#JSGF V1.0; grammar g; public <s> = go forward";
    if (!strcmp(k, "garbage")) return "\x01\xff this is not a grammar ((((";
    if (!strcmp(k, "nopublic")) return "#JSGF V1.0; grammar g; <s> = go forward;";
    if (!strcmp(k, "oov")) return "#JSGF V1.0; grammar g; public <s> = go zzyzxqq;";
    /* a grammar that USES a word added by decoder_add_word (new0, new1, ...): valid only after that word was added */
    if (!strncmp(k, "usenew", 6)) { static char g2[128]; snprintf(g2, sizeof(g2), "#JSGF V1.0; grammar g; public <s> = go new%s forward | hello;", k + 6); return g2; }
    return "#JSGF V1.0; grammar g; public <s> = hello;";
}

static const char *word_text(const char *k)
{
    if (!strcmp(k, "known")) return "forward";
    if (!strcmp(k, "alt")) return "forward(2)";
    if (!strcmp(k, "altnew")) return "forward(7)";          /* new alternate of an existing base word */
    if (!strcmp(k, "altdict")) return "hello(2)";            /* an alternate every dictionary used here already holds */
    if (!strcmp(k, "altmissing")) return "zzyzxqq(2)";      /* alternate of a base word that is not in the dictionary */
    if (!strncmp(k, "altofnew", 8)) { static char b2[32]; snprintf(b2, sizeof(b2), "new%s(2)", k + 8); return b2; }
    if (!strcmp(k, "filler")) return "<sil>";
    if (!strcmp(k, "unknown")) return "zzyzxqq";
    if (!strcmp(k, "empty")) return "";
    if (!strcmp(k, "paren")) return "(";
    if (!strcmp(k, "long")) return "aaaaaaaaaaaaaaaaaaaaaaaaaaaaaaaaaaaaaaaaaaaaaaaaaaaaaaaaaaaaaaaaaaaaaaaaaaaaaaaaaaaaaaaaaaaaaaaaaaaaaaaaaaaaaaaaaaaaaaaaaaaaaaaaaaaaaaaaaaaaaaaaaaaaaaaa";
    /* spellings over the whole byte range the dictionary accepts: DEL, control bytes, quote and backslash, bytes >= 0x80 */
    if (!strcmp(k, "weird0")) return "w\x7f\x7f" "d";
    if (!strcmp(k, "weird1")) return "q\"u\\o";
    if (!strcmp(k, "weird2")) return "c\x01\x1f\x7f";
    if (!strcmp(k, "weird3")) return "h\xc3\xa9\xff\x80";
    return k; /* new0, new1, ... literal new words */
}

static const char *phones_text(const char *k)
{
    if (!strcmp(k, "ok")) return "G OW";
    if (!strcmp(k, "one")) return "B";
    if (!strcmp(k, "sil")) return "SIL";
    if (!strcmp(k, "spaces")) return "  G   OW  ";
    if (!strcmp(k, "empty")) return "";
    if (!strcmp(k, "blank")) return "   ";
    if (!strcmp(k, "bad")) return "G QQ";
    if (!strcmp(k, "long")) return "G OW F AO R W ER D T EH N M IY T ER Z G OW F AO R W ER D T EH N M IY T ER Z";
    return "AH";
}

static const char *aligntext(const char *k)
{
    if (!strcmp(k, "go")) return "go forward ten meters";
    if (!strcmp(k, "one")) return "go";
    if (!strcmp(k, "ws")) return "  go \t forward\n";
    if (!strcmp(k, "empty")) return "";
    if (!strcmp(k, "blank")) return "   ";
    if (!strcmp(k, "oov")) return "go zzyzxqq";
    if (!strcmp(k, "rep")) return "go go go go go go go go";
    if (!strcmp(k, "weird")) return "w\x7f\x7f" "d q\"u\\o c\x01\x1f\x7f h\xc3\xa9\xff\x80 w\x7f\x7f" "d";
    return "hello";
}

static const char *cmn_text(const char *k)
{
    if (!strcmp(k, "ok")) return "41.0,-5.3,-0.1,5.4,-1.2,4.0,2.7,-3.4,-7.2,-3.9,-3.6,-1.8,-1.2";
    if (!strcmp(k, "short")) return "40,1";
    if (!strcmp(k, "empty")) return "";
    if (!strcmp(k, "long")) return "1,2,3,4,5,6,7,8,9,10,11,12,13,14,15,16,17,18,19,20";
    if (!strcmp(k, "junk")) return "abc,,;;";
    return "0";
}

static void config_args(config_t *c, int argc, char **argv)
{
    int i;
    for (i = 0; i + 1 < argc; i += 2) {
        if (!strcmp(argv[i], "dict")) config_set_str(c, "dict", repo_path(3, argv[i + 1]));
        else if (!strcmp(argv[i], "hmm")) config_set_str(c, "hmm", repo_path(3, argv[i + 1])); /* another model directory */
        else if (!strcmp(argv[i], "sdict")) { snprintf(pathbuf[3], sizeof(pathbuf[3]), "%s/%s", SCRATCH, argv[i + 1]); config_set_str(c, "dict", pathbuf[3]); }
        else if (!strcmp(argv[i], "logfn")) { snprintf(pathbuf[4], sizeof(pathbuf[4]), "%s/%s", SCRATCH, argv[i + 1]); config_set_str(c, "logfn", pathbuf[4]); }
        else config_set_str(c, argv[i], argv[i + 1]);
    }
}

static config_t *make_config(const char *gram, int argc, char **argv)
{
    config_t *c = config_init(NULL);
    config_set_str(c, "loglevel", "FATAL");
    config_set_str(c, "hmm", repo_path(1, !strcmp(gram, "badhmm") ? "model/nonexistent" : "model/en-us"));
    if (!strcmp(gram, "jsgf")) config_set_str(c, "jsgf", repo_path(2, "tests/data/goforward.gram"));
    else if (!strcmp(gram, "fsg")) config_set_str(c, "fsg", repo_path(2, "tests/data/goforward.fsg"));
    else if (!strcmp(gram, "nojsgf")) config_set_str(c, "jsgf", repo_path(2, "tests/data/nonexistent.gram"));
    else if (!strcmp(gram, "nofsg")) config_set_str(c, "fsg", repo_path(2, "tests/data/nonexistent.fsg"));
    config_args(c, argc, argv);
    return c;
}

/* the reuse test of decoder_alignment (decoder.c:746-752), evaluated before the call */
static int al_reuse(void)
{
    return D && D->align && ((state_align_search_t *)D->align)->frame == D->acmod->output_frame;
}

/* size of the FSG search's history table after an utterance (close-c09: block-crossing family).  Read through the
 * installed headers; the history is a blkarray_list whose rows hold `blksize` entries each. */
#include <soundswallower/fsg_history.h>
#include <soundswallower/blkarray_list.h>
static blkarray_list_t *vf_hist(void)
{
    fsg_search_t *fs = D ? (fsg_search_t *)D->search : NULL;
    return (fs && fs->history) ? fs->history->entries : NULL;
}
static int vf_hist_entries(void) { blkarray_list_t *b = vf_hist(); return b ? (int)blkarray_list_n_valid(b) : -1; }
static int vf_hist_blocks(void) { blkarray_list_t *b = vf_hist(); return b ? (int)blkarray_list_cur_row(b) + 1 : -1; }
static int vf_hist_blksize(void) { blkarray_list_t *b = vf_hist(); return b ? (int)blkarray_list_blksize(b) : -1; }

static int count(void **a) { int i, n = 0; for (i = 0; i < NSLOT; i++) n += a[i] != NULL; return n; }

/* ownership probe (close-c09): after EVERY call, every object the decoder owns through a pointer that a failure exit
 * could leave behind is looked at - the aligner's alignment (decoder_alignment hands it to state_align_search_init),
 * the search's lattice.  A released object is reported by ASan at the call that left it behind (not only when a later
 * call happens to use it); a reference count below 1 aborts like a failed assertion. */
static void vf_probe_owned(decoder_t *d)
{
    if (d && d->align) {
        alignment_t *al = ((state_align_search_t *)d->align)->al;
        if (al && *(volatile int *)&al->refcount < 1) {
            fprintf(stderr, "Assertion `the decoder's aligner owns a live alignment' failed (harness ownership probe): refcount %d\n", al->refcount);
            abort();
        }
    }
    if (d && d->search && d->search->dag && *(volatile int *)&d->search->dag->refcount < 1) {
        fprintf(stderr, "Assertion `the search owns a live lattice' failed (harness ownership probe): refcount %d\n", d->search->dag->refcount);
        abort();
    }
}

static void inst_state(inst_t *x)
{
    vf_probe_owned(x->dec);
    if (x->dec) {
        int st = x->dec->acmod ? (int)x->dec->acmod->state : -1;
        printf("D=%d u=%c s=%d a=%d j=%d g=%d fr=%d", x->dec->refcount,
               st == ACMOD_IDLE ? 'i' : (st == ACMOD_ENDED ? 'e' : (st < 0 ? 'c' : (st == ACMOD_PROCESSING ? 'p' : 's'))),
               x->dec->search != NULL, x->dec->align != NULL, x->dec->json_result != NULL,
               x->dec->search && x->dec->search->dag != NULL,
               x->dec->acmod ? (int)x->dec->acmod->output_frame + 1 : 0);
    } else
        printf("D=0");
    printf(" it=%d,%d,%d lr=%d ar=%d ln=%d,%d ub=", count((void **)x->seg), count((void **)x->hyp), count((void **)x->ali),
           count((void **)x->lat), count((void **)x->aln), count((void **)x->ln), count((void **)x->ll));
    {
        int k, any = 0;
        for (k = 0; k < NSLOT; k++)
            if (x->aln[k] && x->built[k]) {
                printf("%s%d:%d/%d/%d", any ? "," : "", k, alignment_n_words(x->aln[k]), alignment_n_phones(x->aln[k]),
                       alignment_n_states(x->aln[k]));
                any = 1;
            }
        if (!any) printf("-");
    }
}

static void state(void)
{
    printf(" | ");
    inst_state(&I[0]);
    printf(" || ");
    inst_state(&I[1]);
    printf(" || cf=%d lm=%d fe=%d ft=%d ml=%d so=%d\n", count((void **)CFG), count((void **)LM), count((void **)FE),
           count((void **)FT), count((void **)ML), count((void **)STR));
    /* the exported functions this call reached */
    {
        int f;
        fputs("*", stdout);
        for (f = 0; f < VF_API_N; f++)
            if (vf_api_seen[f]) { printf(" %s", vf_api_name[f]); vf_api_seen[f] = 0; }
        fputs("\n", stdout);
    }
    fflush(stdout);
}

static void touch_seg(seg_iter_t *s)
{
    int sf, ef; int32 a, l;
    const char *w = seg_iter_word(s);
    volatile size_t n = w ? strlen(w) : 0; (void)n;
    seg_iter_frames(s, &sf, &ef); seg_iter_frames(s, NULL, NULL);
    seg_iter_prob(s, &a, &l); seg_iter_prob(s, NULL, NULL);
}
static void touch_ali(alignment_iter_t *it)
{
    int st, du;
    const char *w = alignment_iter_name(it);
    volatile size_t n = w ? strlen(w) : 0; (void)n;
    alignment_iter_seg(it, &st, &du); alignment_iter_seg(it, NULL, NULL);
    { alignment_entry_t *e = alignment_iter_get(it); volatile int q = e ? e->start + e->duration + e->parent : 0; (void)q; }
}
static void touch_link(lattice_t *dag, latlink_t *lk)
{
    int16 sf; latnode_t *src; int32 as;
    const char *w, *bw; volatile size_t n;
    latlink_times(lk, &sf); ps_latlink_nodes(lk, &src); ps_latlink_nodes(lk, NULL);
    w = ps_latlink_word(dag, lk); bw = ps_latlink_baseword(dag, lk);
    n = (w ? strlen(w) : 0) + (bw ? strlen(bw) : 0); (void)n;
    ps_latlink_pred(lk); ps_latlink_prob(dag, lk, &as); ps_latlink_prob(dag, lk, NULL);
}
static void touch_node(lattice_t *dag, latnode_t *nd)
{
    int16 fef, lef; latlink_t *bl;
    const char *w = ps_latnode_word(dag, nd), *bw = ps_latnode_baseword(dag, nd);
    volatile size_t n = (w ? strlen(w) : 0) + (bw ? strlen(bw) : 0); (void)n;
    latnode_times(nd, &fef, &lef); latnode_times(nd, NULL, NULL);
    ps_latnode_prob(dag, nd, &bl); ps_latnode_prob(dag, nd, NULL);
}
/* How many FURTHER elements an iterator will deliver (observed once, when the iterator is created, and handed to the model,
 * which from then on predicts every ..._next).  Segment / lattice iterators: a second, private iterator is walked through
 * the real functions, bypassing the counting wrappers (`(f)(x)` is not a macro call).  Alignment iterators: computed from
 * the entry vector (the elements after `pos` that have the iterator's parent). */
static int rem_seg(seg_iter_t *s) { int n = 0; if (!s) return 0; while ((s = (seg_iter_next)(s))) n++; return n; }
/* decoder_seg_iter: unless the best-path pass produced the iterator (fsg_search.c:1105-1116: `bestpath` set and the
 * utterance final), it is a backtrace of the history table whose length was fixed when it was made: the count is read off
 * the iterator itself, independently of seg_iter_next */
static int rem_dec_seg(decoder_t *d, seg_iter_t *s)
{
    fsg_search_t *fs = (fsg_search_t *)d->search;
    if (!(fs->bestpath && fs->final)) { fsg_seg_t *f = (fsg_seg_t *)s; return f->n_hist - f->cur - 1; }
    return rem_seg((decoder_seg_iter)(d));
}
/* lattice node / link iterators are the list cells themselves (lattice.h:71, 84): the count is the length of the rest of
 * the list, read off the `next` fields without calling the iterator functions */
static int rem_lnode(latnode_iter_t *it) { int n = 0; struct latnode_s *q; for (q = it ? it->next : NULL; q; q = q->next) n++; return n; }
static int rem_llink(latlink_iter_t *it) { int n = 0; struct latlink_list_s *q; for (q = it ? it->next : NULL; q; q = q->next) n++; return n; }
static int rem_ali(alignment_iter_t *it)
{
    int n = 0, p;
    for (p = it->pos + 1; p < (int)it->vec->n_ent; p++) {
        if (it->parent != ALIGNMENT_NONE && it->vec->seq[p].parent != it->parent) break;
        n++;
    }
    return n;
}
static void touch_lat(lattice_t *dag)
{
    latnode_iter_t *ni; int nn = 0;
    (void)lattice_n_frames(dag); (void)lattice_get_logmath(dag);
    for (ni = ps_latnode_iter(dag); ni; ni = ps_latnode_iter_next(ni)) {
        latnode_t *nd = ps_latnode_iter_node(ni);
        latlink_iter_t *li;
        touch_node(dag, nd);
        for (li = ps_latnode_exits(nd); li; li = ps_latlink_iter_next(li)) touch_link(dag, ps_latlink_iter_link(li));
        for (li = ps_latnode_entries(nd); li; li = ps_latlink_iter_next(li)) (void)ps_latlink_iter_link(li);
        if (++nn > 100000) break;
    }
}

/* the lattice an op works on: source -1 = the decoder's current lattice (decoder_lattice), k = a retained one */
static lattice_t *lat_of(int src)
{
    if (src < 0) return D ? decoder_lattice(D) : NULL;
    return src < NSLOT ? LAT[src] : NULL;
}

#define RET(...) do { fputs("< ", stdout); printf(__VA_ARGS__); state(); } while (0)
#define NEED_D if (!D) { RET("skip"); continue; }
#define SLOT_OK(k) ((k) >= 0 && (k) < NSLOT)

static void do_line(char *line);

static void use_config(config_t *c, const char *key)
{
    const char *js;
    volatile size_t l;
    (void)config_typeof(c, key); (void)config_int(c, key); (void)config_float(c, key);
    (void)config_str(c, key); (void)config_bool(c, key); (void)config_get(c, key);
    { config_val_t *cv = config_access(c, key); volatile int q = cv ? cv->type : 0; (void)q; }
    js = config_serialize_json(c); l = js ? strlen(js) : 0; (void)l;
}

/* config_* call `w[0..n)` = <setter|get|unset|json|same|typeof> key [value] on configuration c */
static const void *config_call(config_t *c, char **w, int n)
{
    const void *r = NULL;
    if (!strcmp(w[0], "str") && n >= 3) {
        const char *v = w[2];
        if (!strcmp(v, "NULL")) v = NULL;
        else if (!strcmp(v, "EMPTY")) v = "";
        else if (!strncmp(v, "@", 1)) v = repo_path(2, v + 1);
        r = config_set_str(c, w[1], v);
    } else if (!strcmp(w[0], "int") && n >= 3) r = config_set_int(c, w[1], atol(w[2]));
    else if (!strcmp(w[0], "float") && n >= 3) r = config_set_float(c, w[1], atof(w[2]));
    else if (!strcmp(w[0], "bool") && n >= 3) r = config_set_bool(c, w[1], atoi(w[2]));
    else if (!strcmp(w[0], "unset") && n >= 2) r = config_unset(c, w[1]);
    else if (!strcmp(w[0], "setnull") && n >= 2) r = config_set(c, w[1], NULL, 0);
    else if (!strcmp(w[0], "setany") && n >= 4) {
        /* setany <key> str|int|bool|float <value>: config_set(c, key, &val, type) */
        anytype_t v; memset(&v, 0, sizeof(v));
        if (!strcmp(w[2], "str")) {
            char *cp = !strcmp(w[3], "NULL") ? NULL : ckd_salloc(!strcmp(w[3], "EMPTY") ? "" : w[3]);
            v.ptr = cp; r = config_set(c, w[1], &v, ARG_STRING); ckd_free(cp);
        } else if (!strcmp(w[2], "int")) { v.i = atol(w[3]); r = config_set(c, w[1], &v, ARG_INTEGER); }
        else if (!strcmp(w[2], "bool")) { v.i = atol(w[3]); r = config_set(c, w[1], &v, ARG_BOOLEAN); }
        else { v.fl = atof(w[3]); r = config_set(c, w[1], &v, ARG_FLOATING); }
    }
    else if (!strcmp(w[0], "same") && n >= 2) {
        /* set the parameter to the value it has, through the setter of its own type */
        int t = config_typeof(c, w[1]);
        if (t & ARG_STRING) { const char *v = config_str(c, w[1]); char *cp = v ? ckd_salloc(v) : NULL; r = config_set_str(c, w[1], cp); ckd_free(cp); }
        else if (t & ARG_INTEGER) r = config_set_int(c, w[1], config_int(c, w[1]));
        else if (t & ARG_BOOLEAN) r = config_set_bool(c, w[1], config_bool(c, w[1]));
        else if (t & ARG_FLOATING) r = config_set_float(c, w[1], config_float(c, w[1]));
    } else if (!strcmp(w[0], "get") && n >= 2) {
        (void)config_typeof(c, w[1]); (void)config_int(c, w[1]); (void)config_float(c, w[1]);
        (void)config_str(c, w[1]); (void)config_bool(c, w[1]);
        { config_val_t *cv = config_access(c, w[1]); volatile int q = cv ? cv->type : 0; (void)q; }
        r = config_get(c, w[1]);
    } else if (!strcmp(w[0], "typeof") && n >= 2) {
        r = config_typeof(c, w[1]) ? (const void *)c : NULL;
    } else if (!strcmp(w[0], "json")) {
        const char *js = config_serialize_json(c);
        volatile size_t l = js ? strlen(js) : 0; (void)l;
        r = js;
    } else if (!strcmp(w[0], "parse") && n >= 2) {
        /* config_parse_json on the existing configuration */
        const char *js = !strcmp(w[1], "ok") ? "{\"beam\": 1e-40, \"compallsen\": true}"
            : (!strcmp(w[1], "unknown") ? "{\"nosuchkey\": 3}" : (!strcmp(w[1], "empty") ? "" : "{\"beam\": "));
        r = config_parse_json(c, js);
    }
    return r;
}

int main(int argc, char **argv)
{
    static char line[4096], copy[4096];
    int i, ins;
    if (getenv("SS_REPO")) REPO = getenv("SS_REPO");
    if (getenv("SS_SCRATCH")) SCRATCH = getenv("SS_SCRATCH");
    (void)argc; (void)argv;
    err_set_loglevel(ERR_FATAL);
    load_audio();
    while (fgets(line, sizeof(line), stdin)) {
        char *wbuf[18], **w = wbuf;
        int n;
        size_t L = strlen(line);
        while (L && (line[L - 1] == '\n' || line[L - 1] == '\r')) line[--L] = 0;
        if (!L) continue;
        strcpy(copy, line);
        n = vf_words(copy, w, 18);
        if (!n) continue;
        printf("> %s\n", line); fflush(stdout);
        C = &I[0];
        if (w[0][0] == '@') { C = &I[w[0][1] == '1' ? 1 : 0]; w++; n--; if (!n) { RET("bad-op"); continue; } }

        if (!strcmp(w[0], "init") && n >= 2) {
            config_t *c; decoder_t *d;
            if (D) { RET("skip"); continue; }
            c = !strcmp(w[1], "null") ? NULL : make_config(w[1], n - 2, w + 2);
            d = decoder_init(c); /* consumes c, also on failure */
            if (d) { D = d; Drefs = 1; RET("ptr"); } else RET("null");
        } else if (!strcmp(w[0], "initcfg") && n >= 2) {
            /* decoder_init with a configuration the history holds a reference on: the reference is consumed */
            int k = atoi(w[1]); decoder_t *d;
            if (D || !SLOT_OK(k) || !CFG[k]) { RET("skip"); continue; }
            d = decoder_init(CFG[k]); CFG[k] = NULL;
            if (d) { D = d; Drefs = 1; RET("ptr"); } else RET("null");
        } else if (!strcmp(w[0], "reinit") && n >= 2) {
            int r;
            NEED_D;
            if (!strcmp(w[1], "null")) r = decoder_reinit(D, NULL);
            else if (!strcmp(w[1], "same")) r = decoder_reinit(D, decoder_config(D));
            else r = decoder_reinit(D, make_config(w[1], n - 2, w + 2));
            RET(r == 0 ? "ok" : "err");
        } else if (!strcmp(w[0], "reinitcfg") && n >= 2) {
            /* decoder_reinit with a held configuration: consumed unless it is the decoder's own */
            int k = atoi(w[1]), r, own;
            NEED_D;
            if (!SLOT_OK(k) || !CFG[k]) { RET("skip"); continue; }
            own = CFG[k] == decoder_config(D);
            r = decoder_reinit(D, CFG[k]);
            if (!own) CFG[k] = NULL;
            RET(r == 0 ? "ok own=%d" : "err own=%d", own);
        } else if (!strcmp(w[0], "reinitfeat")) {
            int r; NEED_D; r = decoder_reinit_feat(D, NULL); RET(r == 0 ? "ok" : "err");
        } else if (!strcmp(w[0], "retain")) {
            NEED_D;
            decoder_retain(D); Drefs++; RET("ptr");
        } else if (!strcmp(w[0], "free")) {
            int r;
            NEED_D;
            r = decoder_free(D);
            if (--Drefs == 0) D = NULL;
            RET("rc=%d", r);
        } else if (!strcmp(w[0], "freenull")) {
            int r = decoder_free(NULL);
            decoder_t *p = decoder_retain(NULL);
            lattice_free(NULL); lattice_retain(NULL); alignment_free(NULL); alignment_retain(NULL);
            alignment_iter_next(NULL); alignment_iter_children(NULL); config_free(NULL); config_retain(NULL);
            mllr_free(NULL); mllr_retain(NULL); alignment_iter_name(NULL); alignment_iter_seg(NULL, NULL, NULL);
            alignment_iter_goto(NULL, 0); ps_latnode_iter_free(NULL); ps_latlink_iter_free(NULL);
            RET(r == 0 && p == NULL ? "ok" : "err");
        } else if (!strcmp(w[0], "cfg") && n >= 2) {
            const void *r;
            NEED_D;
            r = config_call(decoder_config(D), w + 1, n - 1);
            RET(r ? "ptr" : "null");
        } else if (!strcmp(w[0], "cfgk") && n >= 3) {
            /* the same calls on a configuration the history holds a reference on */
            int k = atoi(w[1]); const void *r;
            if (!SLOT_OK(k) || !CFG[k]) { RET("skip"); continue; }
            r = config_call(CFG[k], w + 2, n - 2);
            RET(r ? "ptr" : "null");
        } else if (!strcmp(w[0], "subretain") && n >= 3) {
            /* subretain cfg|lmath|fe|feat <slot>: retain the decoder's sub-object */
            int k = atoi(w[2]);
            NEED_D;
            if (!SLOT_OK(k)) { RET("skip"); continue; }
            if (!strcmp(w[1], "cfg") && !CFG[k]) { CFG[k] = config_retain(decoder_config(D)); RET(CFG[k] ? "ptr" : "null"); }
            else if (!strcmp(w[1], "lmath") && !LM[k]) { LM[k] = logmath_retain(decoder_logmath(D)); RET(LM[k] ? "ptr" : "null"); }
            else if (!strcmp(w[1], "fe") && !FE[k]) { FE[k] = fe_retain(decoder_fe(D)); RET(FE[k] ? "ptr" : "null"); }
            else if (!strcmp(w[1], "feat") && !FT[k]) { FT[k] = feat_retain(decoder_feat(D)); RET(FT[k] ? "ptr" : "null"); }
            else RET("skip");
        } else if (!strcmp(w[0], "cfgnew") && n >= 3) {
            /* cfgnew <slot> <grammar kind> [args]: a configuration created by the user */
            int k = atoi(w[1]);
            if (!SLOT_OK(k) || CFG[k]) { RET("skip"); continue; }
            CFG[k] = make_config(w[2], n - 3, w + 3);
            RET("ptr");
        } else if (!strcmp(w[0], "cfgretain") && n >= 2) {
            /* a second reference on a held configuration, in another slot */
            int k = atoi(w[1]), j = n > 2 ? atoi(w[2]) : -1;
            if (!SLOT_OK(k) || !CFG[k] || !SLOT_OK(j) || CFG[j]) { RET("skip"); continue; }
            CFG[j] = config_retain(CFG[k]); RET("ptr");
        } else if (!strcmp(w[0], "subuse") && n >= 3) {
            int k = atoi(w[2]);
            if (!SLOT_OK(k)) { RET("skip"); continue; }
            if (!strcmp(w[1], "cfg") && CFG[k]) { use_config(CFG[k], "hmm"); use_config(CFG[k], "beam"); use_config(CFG[k], "nosuchkey"); RET("void"); }
            else if (!strcmp(w[1], "lmath") && LM[k]) {
                volatile double x = logmath_exp(LM[k], logmath_log(LM[k], 0.25)) + logmath_get_base(LM[k]);
                (void)x; (void)logmath_add(LM[k], -100, -200); (void)logmath_get_zero(LM[k]); RET("void");
            } else if (!strcmp(w[1], "fe") && FE[k]) { int a, b2; (void)fe_get_output_size(FE[k]); fe_get_input_size(FE[k], &a, &b2); RET("void"); }
            else if (!strcmp(w[1], "feat") && FT[k]) { volatile int x = feat_dimension(FT[k]) + feat_window_size(FT[k]); (void)x; RET("void"); }
            else RET("skip");
        } else if (!strcmp(w[0], "subfree") && n >= 3) {
            int k = atoi(w[2]);
            if (!SLOT_OK(k)) { RET("skip"); continue; }
            if (!strcmp(w[1], "cfg") && CFG[k]) { config_free(CFG[k]); CFG[k] = NULL; RET("void"); }
            else if (!strcmp(w[1], "lmath") && LM[k]) { logmath_free(LM[k]); LM[k] = NULL; RET("void"); }
            else if (!strcmp(w[1], "fe") && FE[k]) { fe_free(FE[k]); FE[k] = NULL; RET("void"); }
            else if (!strcmp(w[1], "feat") && FT[k]) { feat_free(FT[k]); FT[k] = NULL; RET("void"); }
            else RET("skip");
        } else if (!strcmp(w[0], "logfile") && n >= 2) {
            int r; const char *p2 = NULL;
            NEED_D;
            if (!strcmp(w[1], "bad")) p2 = "/nonexistent-directory/c09.log";
            else if (strcmp(w[1], "null")) { snprintf(pathbuf[4], sizeof(pathbuf[4]), "%s/%s", SCRATCH, w[1]); p2 = pathbuf[4]; }
            r = decoder_set_logfile(D, p2);
            RET(r == 0 ? "ok" : "err");
        } else if (!strcmp(w[0], "mllrread") && n >= 3) {
            /* mllrread <slot> id|missing|short|bad */
            int k = atoi(w[1]);
            if (!SLOT_OK(k) || ML[k]) { RET("skip"); continue; }
            if (!strcmp(w[2], "missing")) snprintf(pathbuf[4], sizeof(pathbuf[4]), "%s/nonexistent.mllr", SCRATCH);
            else snprintf(pathbuf[4], sizeof(pathbuf[4]), "%s/mllr-%s.txt", SCRATCH, w[2]);
            ML[k] = mllr_read(pathbuf[4]);
            RET(ML[k] ? "ptr" : "null");
        } else if (!strcmp(w[0], "mllrapply") && n >= 2) {
            /* mllrapply <slot> [keep] | null : decoder_apply_mllr consumes the transform ("The decoder consumes this
             * pointer, so you should call mllr_retain() on it if you wish to reuse it elsewhere"); with `keep` the
             * history retains it first and keeps its slot */
            mllr_t *r;
            NEED_D;
            if (!strcmp(w[1], "null")) r = decoder_apply_mllr(D, NULL);
            else {
                int k = atoi(w[1]);
                if (!SLOT_OK(k) || !ML[k]) { RET("skip"); continue; }
                if (n > 2 && !strcmp(w[2], "keep")) { mllr_retain(ML[k]); r = decoder_apply_mllr(D, ML[k]); }
                else { r = decoder_apply_mllr(D, ML[k]); ML[k] = NULL; }
            }
            RET(r ? "ptr" : "null");
        } else if (!strcmp(w[0], "mllrfree") && n >= 2) {
            int k = atoi(w[1]);
            if (!SLOT_OK(k) || !ML[k]) { RET("skip"); continue; }
            mllr_free(ML[k]); ML[k] = NULL; RET("void");
        } else if (!strcmp(w[0], "start")) {
            int r; NEED_D; r = decoder_start_utt(D); RET(r == 0 ? "ok" : "err");
        } else if (!strcmp(w[0], "end")) {
            int r, f0; NEED_D; f0 = decoder_n_frames(D); r = decoder_end_utt(D);
            /* he= / hb=: entries and blocks of the search history (a blkarray_list: blocks of `blksize` entries) */
            if (r == 0) RET("ok adv=%d he=%d hb=%d bs=%d", decoder_n_frames(D) != f0, vf_hist_entries(), vf_hist_blocks(), vf_hist_blksize());
            else RET("err");
        } else if (!strcmp(w[0], "proc") && n >= 7) {
            /* proc i16|f32 clip off len no_search full_utt */
            size_t off = (size_t)atol(w[3]), len = (size_t)atol(w[4]), k;
            int ns = atoi(w[5]), fu = atoi(w[6]), r, f0;
            int16 *b;
            NEED_D;
            b = make_audio(w[2], off, len);
            f0 = decoder_n_frames(D);
            if (!strcmp(w[1], "f32")) {
                float32 *fb = (float32 *)malloc(len ? len * sizeof(float32) : 1);
                for (k = 0; k < len; k++) fb[k] = b[k] / 32768.0f;
                r = decoder_process_float32(D, fb, len, ns, fu);
                free(fb);
            } else
                r = decoder_process_int16(D, b, len, ns, fu);
            free(b);
            if (r < 0) RET("err"); else RET("n=%d adv=%d", r, decoder_n_frames(D) != f0);
        } else if (!strcmp(w[0], "nframes")) {
            NEED_D; RET("n=%d", decoder_n_frames(D));
        } else if (!strcmp(w[0], "hyp")) {
            int32 sc = 0; const char *h;
            NEED_D;
            h = atoi(n > 1 ? w[1] : "0") ? decoder_hyp(D, NULL) : decoder_hyp(D, &sc);
            if (h) { volatile size_t l = strlen(h); (void)l; }
            RET(h ? "ptr" : "null");
        } else if (!strcmp(w[0], "prob")) {
            int32 p; NEED_D; p = decoder_prob(D); RET(p == -1 ? "err" : "n=0");
        } else if (!strcmp(w[0], "seg") && n >= 2) {
            int k = atoi(w[1]);
            NEED_D;
            if (!SLOT_OK(k) || SEG[k]) { RET("skip"); continue; }
            SEG[k] = decoder_seg_iter(D);
            if (SEG[k]) { touch_seg(SEG[k]); RET("ptr k=%d", rem_dec_seg(D, SEG[k])); } else RET("null");
        } else if (!strcmp(w[0], "segnext") && n >= 2) {
            int k = atoi(w[1]);
            if (!SLOT_OK(k) || !SEG[k]) { RET("skip"); continue; }
            SEG[k] = seg_iter_next(SEG[k]);
            if (SEG[k]) { touch_seg(SEG[k]); RET("ptr"); } else RET("null");
        } else if (!strcmp(w[0], "segfree") && n >= 2) {
            int k = atoi(w[1]);
            if (!SLOT_OK(k) || !SEG[k]) { RET("skip"); continue; }
            seg_iter_free(SEG[k]); SEG[k] = NULL; RET("void");
        } else if (!strcmp(w[0], "nbest") && n >= 2) {
            int k = atoi(w[1]);
            NEED_D;
            if (!SLOT_OK(k) || HYP[k]) { RET("skip"); continue; }
            HYP[k] = decoder_nbest(D);
            if (HYP[k]) { int32 sc; const char *h = hyp_iter_hyp(HYP[k], &sc); volatile size_t l = h ? strlen(h) : 0; (void)l; RET("ptr"); }
            else RET("null");
        } else if (!strcmp(w[0], "hypnext") && n >= 2) {
            int k = atoi(w[1]);
            if (!SLOT_OK(k) || !HYP[k]) { RET("skip"); continue; }
            HYP[k] = hyp_iter_next(HYP[k]);
            if (HYP[k]) { const char *h = hyp_iter_hyp(HYP[k], NULL); volatile size_t l = h ? strlen(h) : 0; (void)l; RET("ptr"); }
            else RET("null");
        } else if (!strcmp(w[0], "hypfree") && n >= 2) {
            int k = atoi(w[1]);
            if (!SLOT_OK(k) || !HYP[k]) { RET("skip"); continue; }
            hyp_iter_free(HYP[k]); HYP[k] = NULL; RET("void");
        } else if (!strcmp(w[0], "hypseg") && n >= 3) {
            /* hypseg <destination seg slot> <hyp slot> */
            int j = atoi(w[1]), k = atoi(w[2]);
            if (!SLOT_OK(k) || !HYP[k] || !SLOT_OK(j) || SEG[j]) { RET("skip"); continue; }
            SEG[j] = hyp_iter_seg(HYP[k]);
            if (SEG[j]) { touch_seg(SEG[j]); RET("ptr k=%d", rem_seg((hyp_iter_seg)(HYP[k]))); } else RET("null");
        } else if (!strcmp(w[0], "lattice")) {
            lattice_t *l; NEED_D; l = decoder_lattice(D);
            if (l) touch_lat(l);
            RET(l ? "ptr" : "null");
        } else if (!strcmp(w[0], "latbest")) {
            /* latbest [src]: lattice_bestpath / posterior / hyp / seg_iter on a lattice (default: the decoder's) */
            int src = n > 1 ? atoi(w[1]) : -1;
            lattice_t *l; latlink_t *lk = NULL;
            if (src < 0) { NEED_D; } else if (!SLOT_OK(src) || !LAT[src]) { RET("skip"); continue; }
            l = lat_of(src);
            if (l) {
                lk = lattice_bestpath(l, 1.0f / 20.0f);
                if (lk) {
                    const char *h; seg_iter_t *s;
                    lattice_posterior(l, 1.0f / 20.0f);
                    h = lattice_hyp(l, lk);
                    if (h) { volatile size_t q = strlen(h); (void)q; }
                    if (src < 0 || (n > 2 && !strcmp(w[2], "seg")))
                        for (s = lattice_seg_iter(l, lk); s; s = seg_iter_next(s)) touch_seg(s);
                }
            }
            RET(l ? (lk ? "ptr" : "null") : "null");
        } else if (!strcmp(w[0], "latprune") && n >= 3) {
            /* latprune <src> <beam kind>: bestpath + posterior + posterior_prune, then the lattice is walked */
            int src = atoi(w[1]); lattice_t *l; int32 beam, np = -1;
            if (src < 0) { NEED_D; } else if (!SLOT_OK(src) || !LAT[src]) { RET("skip"); continue; }
            l = lat_of(src);
            if (l && lattice_bestpath(l, 1.0f / 20.0f)) {
                lattice_posterior(l, 1.0f / 20.0f);
                beam = !strcmp(w[2], "all") ? 1 : (!strcmp(w[2], "none") ? -2000000000
                    : logmath_log(lattice_get_logmath(l), !strcmp(w[2], "half") ? 0.5 : 1e-3));
                np = lattice_posterior_prune(l, beam);
                touch_lat(l);
            }
            if (!l) RET("null"); else RET(np >= 0 ? "n=%d" : "null", np);
        } else if (!strcmp(w[0], "lattrav") && n >= 4) {
            /* lattrav <src> fwd|rev <max links>: traverse, abandoning after <max> links */
            int src = atoi(w[1]), max = atoi(w[3]), cnt = 0; lattice_t *l; latlink_t *lk;
            if (src < 0) { NEED_D; } else if (!SLOT_OK(src) || !LAT[src]) { RET("skip"); continue; }
            l = lat_of(src);
            if (!l) { RET("null"); continue; }
            if (!strcmp(w[2], "fwd")) {
                for (lk = lattice_traverse_edges(l, NULL, NULL); lk && cnt < max; lk = lattice_traverse_next(l, NULL)) { touch_link(l, lk); cnt++; }
            } else {
                for (lk = lattice_reverse_edges(l, NULL, NULL); lk && cnt < max; lk = lattice_reverse_next(l, NULL)) { touch_link(l, lk); cnt++; }
            }
            RET("n=%d", cnt);
        } else if (!strcmp(w[0], "latretain") && n >= 2) {
            int k = atoi(w[1]); lattice_t *l;
            NEED_D;
            if (!SLOT_OK(k) || LAT[k]) { RET("skip"); continue; }
            l = decoder_lattice(D);
            if (l) { LAT[k] = lattice_retain(l); RET("ptr"); } else RET("null");
        } else if (!strcmp(w[0], "latwalk") && n >= 2) {
            int k = atoi(w[1]);
            if (!SLOT_OK(k) || !LAT[k]) { RET("skip"); continue; }
            touch_lat(LAT[k]); RET("void");
        } else if (!strcmp(w[0], "latfree") && n >= 2) {
            int k = atoi(w[1]);
            if (!SLOT_OK(k) || !LAT[k]) { RET("skip"); continue; }
            lattice_free(LAT[k]); LAT[k] = NULL; RET("void");
        } else if (!strcmp(w[0], "lnode") && n >= 3) {
            /* lnode <dst> <src>: ps_latnode_iter on the decoder's lattice (-1) or a retained one */
            int j = atoi(w[1]), src = atoi(w[2]); lattice_t *l;
            if (src < 0) { NEED_D; } else if (!SLOT_OK(src) || !LAT[src]) { RET("skip"); continue; }
            if (!SLOT_OK(j) || LN[j]) { RET("skip"); continue; }
            l = lat_of(src);
            if (!l) { RET("null lat=0"); continue; }
            LN[j] = ps_latnode_iter(l); C->lndag[j] = l;
            if (LN[j]) { touch_node(l, ps_latnode_iter_node(LN[j])); RET("ptr lat=1 k=%d", rem_lnode(LN[j])); } else RET("null lat=1");
        } else if (!strcmp(w[0], "lnodenext") && n >= 2) {
            int k = atoi(w[1]);
            if (!SLOT_OK(k) || !LN[k]) { RET("skip"); continue; }
            LN[k] = ps_latnode_iter_next(LN[k]);
            if (LN[k]) { touch_node(C->lndag[k], ps_latnode_iter_node(LN[k])); RET("ptr"); } else RET("null");
        } else if (!strcmp(w[0], "lnodefree") && n >= 2) {
            int k = atoi(w[1]);
            if (!SLOT_OK(k) || !LN[k]) { RET("skip"); continue; }
            ps_latnode_iter_free(LN[k]); LN[k] = NULL; RET("void");
        } else if (!strcmp(w[0], "llink") && n >= 4) {
            /* llink <dst> <node iterator slot> exits|entries */
            int j = atoi(w[1]), k = atoi(w[2]);
            if (!SLOT_OK(k) || !LN[k] || !SLOT_OK(j) || LL[j]) { RET("skip"); continue; }
            LL[j] = !strcmp(w[3], "exits") ? ps_latnode_exits(ps_latnode_iter_node(LN[k])) : ps_latnode_entries(ps_latnode_iter_node(LN[k]));
            C->lldag[j] = C->lndag[k];
            if (LL[j]) { touch_link(C->lldag[j], ps_latlink_iter_link(LL[j])); RET("ptr k=%d", rem_llink(LL[j])); } else RET("null");
        } else if (!strcmp(w[0], "llinknext") && n >= 2) {
            int k = atoi(w[1]);
            if (!SLOT_OK(k) || !LL[k]) { RET("skip"); continue; }
            LL[k] = ps_latlink_iter_next(LL[k]);
            if (LL[k]) { touch_link(C->lldag[k], ps_latlink_iter_link(LL[k])); RET("ptr"); } else RET("null");
        } else if (!strcmp(w[0], "llinkfree") && n >= 2) {
            int k = atoi(w[1]);
            if (!SLOT_OK(k) || !LL[k]) { RET("skip"); continue; }
            ps_latlink_iter_free(LL[k]); LL[k] = NULL; RET("void");
        } else if (!strcmp(w[0], "align")) {
            alignment_t *a; int ru; NEED_D; ru = al_reuse(); a = decoder_alignment(D);
            RET(a ? "ptr ru=%d" : "null ru=%d", ru);
        } else if (!strcmp(w[0], "alretain") && n >= 2) {
            int k = atoi(w[1]); alignment_t *a;
            NEED_D;
            if (!SLOT_OK(k) || ALN[k]) { RET("skip"); continue; }
            { int ru = al_reuse();
            a = decoder_alignment(D);
            if (a) { ALN[k] = alignment_retain(a); RET("ptr ru=%d", ru); } else RET("null ru=%d", ru); }
        } else if (!strcmp(w[0], "alfree") && n >= 2) {
            int k = atoi(w[1]);
            if (!SLOT_OK(k) || !ALN[k]) { RET("skip"); continue; }
            alignment_free(ALN[k]); ALN[k] = NULL; C->built[k] = 0; RET("void");
        } else if (!strcmp(w[0], "albuild") && n >= 2) {
            /* albuild <slot>: alignment_init(d->d2p), an alignment the history fills itself */
            int k = atoi(w[1]);
            NEED_D;
            if (!SLOT_OK(k) || ALN[k]) { RET("skip"); continue; }
            ALN[k] = alignment_init(D->d2p); C->built[k] = 1;
            RET(ALN[k] ? "ptr" : "null");
        } else if (!strcmp(w[0], "aladd") && n >= 4) {
            /* aladd <slot> <count> <word>: <count> x alignment_add_word; stops at the first refusal (return value 0) */
            int k = atoi(w[1]), cnt = atoi(w[2]), i2, okc = 0, last = -1; int32 wid; dict_t *dict;
            if (!SLOT_OK(k) || !ALN[k] || !C->built[k]) { RET("skip"); continue; }
            dict = ALN[k]->d2p->dict;
            wid = dict_wordid(dict, w[3]);
            if (wid == BAD_S3WID) { RET("skip"); continue; }
            for (i2 = 0; i2 < cnt; i2++) {
                last = alignment_add_word(ALN[k], wid, 0, 0);
                if (last == 0) break;
                okc++;
            }
            RET("n=%d added=%d plen=%d", last, okc, dict_pronlen(dict, wid));
        } else if (!strcmp(w[0], "alpop") && n >= 3) {
            /* alpop <slot> cd|ci: alignment_populate / alignment_populate_ci */
            int k = atoi(w[1]), r;
            if (!SLOT_OK(k) || !ALN[k] || !C->built[k]) { RET("skip"); continue; }
            r = !strcmp(w[2], "ci") ? alignment_populate_ci(ALN[k]) : alignment_populate(ALN[k]);
            RET(r == 0 ? "ok ne=%d" : "err ne=%d", bin_mdef_n_emit_state(ALN[k]->d2p->mdef));
        } else if (!strcmp(w[0], "aliter") && n >= 4) {
            /* aliter <destination slot> <retained alignment slot | -1> words|phones|states */
            /* source -1 = the alignment owned by the decoder (decoder_alignment) */
            int j = atoi(w[1]), k = atoi(w[2]);
            alignment_t *a; int ru;
            if (k < -1 || k >= NSLOT || (k >= 0 && !ALN[k]) || (k < 0 && !D) || !SLOT_OK(j) || ALI[j]) { RET("skip"); continue; }
            w[2] = w[3];
            ru = k >= 0 ? 0 : al_reuse();
            a = k >= 0 ? ALN[k] : decoder_alignment(D);
            if (!a) { RET("null al=0 ru=%d", ru); continue; }
            ALI[j] = !strcmp(w[2], "words") ? alignment_words(a)
                : (!strcmp(w[2], "phones") ? alignment_phones(a) : alignment_states(a));
            if (ALI[j]) { touch_ali(ALI[j]); RET("ptr al=1 ru=%d k=%d", ru, rem_ali(ALI[j])); } else RET("null al=1 ru=%d", ru);
        } else if (!strcmp(w[0], "alinext") && n >= 2) {
            int k = atoi(w[1]);
            if (!SLOT_OK(k) || !ALI[k]) { RET("skip"); continue; }
            ALI[k] = alignment_iter_next(ALI[k]);
            if (ALI[k]) { touch_ali(ALI[k]); RET("ptr"); } else RET("null");
        } else if (!strcmp(w[0], "alichild") && n >= 3) {
            /* alichild <destination slot> <parent slot> */
            int j = atoi(w[1]), k = atoi(w[2]);
            if (!SLOT_OK(k) || !ALI[k] || !SLOT_OK(j) || ALI[j]) { RET("skip"); continue; }
            ALI[j] = alignment_iter_children(ALI[k]);
            if (ALI[j]) { touch_ali(ALI[j]); RET("ptr k=%d", rem_ali(ALI[j])); } else RET("null");
        } else if (!strcmp(w[0], "aligoto") && n >= 3) {
            int k = atoi(w[1]);
            if (!SLOT_OK(k) || !ALI[k]) { RET("skip"); continue; }
            ALI[k] = alignment_iter_goto(ALI[k], atoi(w[2]));
            if (ALI[k]) { touch_ali(ALI[k]); RET("ptr k=%d", rem_ali(ALI[k])); } else RET("null");
        } else if (!strcmp(w[0], "alifree") && n >= 2) {
            int k = atoi(w[1]);
            if (!SLOT_OK(k) || !ALI[k]) { RET("skip"); continue; }
            alignment_iter_free(ALI[k]); ALI[k] = NULL; RET("void");
        } else if (!strcmp(w[0], "json") && n >= 2) {
            const char *j; int ru; NEED_D;
            ru = al_reuse();
            j = decoder_result_json(D, 0.5, atoi(w[1]));
            if (j) {
                size_t l = strlen(j);
                if (l < 2 || j[l - 1] != '\n' || j[0] != '{') { RET("badjson"); continue; }
            }
            RET(j ? "ptr ru=%d" : "null ru=%d", ru);
        } else if (!strcmp(w[0], "getcmn") && n >= 2) {
            const char *c; NEED_D; c = decoder_get_cmn(D, atoi(w[1]));
            if (c) { volatile size_t l = strlen(c); (void)l; }
            RET(c ? "ptr" : "null");
        } else if (!strcmp(w[0], "setcmn") && n >= 2) {
            int r; NEED_D; r = decoder_set_cmn(D, cmn_text(w[1])); RET(r == 0 ? "ok" : "err");
        } else if (!strcmp(w[0], "lookup") && n >= 2) {
            char *p; NEED_D; p = decoder_lookup_word(D, word_text(w[1]));
            if (p) { volatile size_t l = strlen(p); (void)l; ckd_free(p); RET("ptr"); } else RET("null");
        } else if (!strcmp(w[0], "addword") && n >= 4) {
            int r; NEED_D;
            r = decoder_add_word(D, word_text(w[1]), phones_text(w[2]), atoi(w[3]));
            RET(r >= 0 ? "n=0" : "err");
        } else if (!strcmp(w[0], "jsgf") && n >= 2) {
            int r; NEED_D; r = decoder_set_jsgf_string(D, jsgf_text(w[1])); RET(r == 0 ? "ok" : "err");
        } else if (!strcmp(w[0], "jsgffile") && n >= 2) {
            int r; NEED_D;
            r = decoder_set_jsgf_file(D, repo_path(2, !strcmp(w[1], "good") ? "tests/data/goforward.gram" : "tests/data/nonexistent.gram"));
            RET(r == 0 ? "ok" : "err");
        } else if (!strcmp(w[0], "fsg") && n >= 2) {
            /* fsg <kind> [other]: decoder_set_fsg consumes the model (also when it fails); with "other" the model
             * is built with the log-math object of the OTHER decoder instance */
            fsg_model_t *f = NULL; int r; float lw; logmath_t *lm;
            inst_t *o = &I[C == &I[0] ? 1 : 0];
            NEED_D;
            lm = decoder_logmath(D);
            if (n > 2 && !strcmp(w[2], "other")) { if (!o->dec) { RET("skip"); continue; } lm = decoder_logmath(o->dec); }
            lw = (float)config_float(decoder_config(D), "lw");
            if (!strcmp(w[1], "file")) f = fsg_model_readfile(repo_path(2, "tests/data/goforward.fsg"), lm, lw);
            else {
                int a, b, c2;
                f = fsg_model_init("h", lm, lw, 3);
                a = fsg_model_word_add(f, "go"); b = fsg_model_word_add(f, !strcmp(w[1], "oov") ? "zzyzxqq" : "forward");
                fsg_model_trans_add(f, 0, 1, 0, a);
                fsg_model_trans_add(f, 1, 2, 0, b);
                if (!strcmp(w[1], "nulls")) {
                    fsg_model_null_trans_add(f, 0, 1, 0);
                    fsg_model_null_trans_add(f, 1, 2, -10);
                } else if (!strcmp(w[1], "loop")) {
                    c2 = fsg_model_word_add(f, "ten");
                    fsg_model_trans_add(f, 2, 0, -100, c2);
                }
                f->start_state = 0; f->final_state = 2;
            }
            if (!f) { RET("skip"); continue; }
            if (!strcmp(w[1], "shared")) {
                /* keep our own reference across the call and drop it afterwards */
                fsg_model_retain(f);
                r = decoder_set_fsg(D, f);
                fsg_model_free(f);
            } else
                r = decoder_set_fsg(D, f);
            RET(r == 0 ? "ok" : "err");
        } else if (!strcmp(w[0], "aligntext") && n >= 2) {
            int r; NEED_D; r = decoder_set_align_text(D, aligntext(w[1])); RET(r == 0 ? "ok" : "err");
        } else if (!strcmp(w[0], "create") && n >= 2) {
            /* create <grammar kind | null> [args]: decoder_create - allocated and configured, not initialised */
            config_t *c; decoder_t *d;
            if (D) { RET("skip"); continue; }
            c = !strcmp(w[1], "null") ? NULL : make_config(w[1], n - 2, w + 2);
            d = decoder_create(c);
            if (d) { D = d; Drefs = 1; RET("ptr"); } else RET("null");
        } else if (!strcmp(w[0], "hyphold") && n >= 2) {
            /* hyphold <borrow slot>: decoder_hyp, the pointer is kept and read later */
            int k = atoi(w[1]); int32 sc = 0;
            NEED_D;
            if (!SLOT_OK(k)) { RET("skip"); continue; }
            BOR[k] = decoder_hyp(D, &sc);
            RET(BOR[k] ? "ptr" : "null");
        } else if (!strcmp(w[0], "jsonhold") && n >= 3) {
            int k = atoi(w[1]), ru;
            NEED_D;
            if (!SLOT_OK(k)) { RET("skip"); continue; }
            ru = al_reuse();
            BOR[k] = decoder_result_json(D, 0.0, atoi(w[2]));
            RET(BOR[k] ? "ptr ru=%d" : "null ru=%d", ru);
        } else if (!strcmp(w[0], "cmnhold") && n >= 2) {
            int k = atoi(w[1]);
            NEED_D;
            if (!SLOT_OK(k)) { RET("skip"); continue; }
            BOR[k] = decoder_get_cmn(D, 0);
            RET(BOR[k] ? "ptr" : "null");
        } else if (!strcmp(w[0], "iterhold") && n >= 3) {
            /* iterhold <borrow slot> <hyp iterator slot>: hyp_iter_hyp, the pointer is kept */
            int k = atoi(w[1]), j = atoi(w[2]); int32 sc;
            if (!SLOT_OK(k) || !SLOT_OK(j) || !HYP[j]) { RET("skip"); continue; }
            BOR[k] = hyp_iter_hyp(HYP[j], &sc);
            RET(BOR[k] ? "ptr" : "null");
        } else if (!strcmp(w[0], "buse") && n >= 2) {
            /* read a borrowed string from its first to its last byte */
            int k = atoi(w[1]); volatile size_t l;
            if (!SLOT_OK(k) || !BOR[k]) { RET("skip"); continue; }
            l = strlen(BOR[k]); (void)l;
            RET("void");
        } else if (!strcmp(w[0], "lookuphold") && n >= 3) {
            /* lookuphold <string slot> <word>: decoder_lookup_word, the caller owns the result */
            int k = atoi(w[1]);
            NEED_D;
            if (!SLOT_OK(k) || STR[k]) { RET("skip"); continue; }
            STR[k] = decoder_lookup_word(D, word_text(w[2]));
            RET(STR[k] ? "ptr" : "null");
        } else if (!strcmp(w[0], "struse") && n >= 2) {
            int k = atoi(w[1]); volatile size_t l;
            if (!SLOT_OK(k) || !STR[k]) { RET("skip"); continue; }
            l = strlen(STR[k]); STR[k][0] = STR[k][0]; (void)l;
            RET("void");
        } else if (!strcmp(w[0], "strfree") && n >= 2) {
            int k = atoi(w[1]);
            if (!SLOT_OK(k) || !STR[k]) { RET("skip"); continue; }
            ckd_free(STR[k]); STR[k] = NULL; RET("void");
        } else if (!strcmp(w[0], "alprop") && n >= 2) {
            int k = atoi(w[1]), r;
            if (!SLOT_OK(k) || !ALN[k]) { RET("skip"); continue; }
            r = alignment_propagate(ALN[k]);
            RET(r == 0 ? "ok" : "err");
        } else if ((!strcmp(w[0], "cfgvalidate") || !strcmp(w[0], "cfgexpand") || !strcmp(w[0], "cfglog")) && n >= 2) {
            /* <op> -1 | <held slot>: config_validate / config_expand / config_log_help + config_log_values */
            int k = atoi(w[1]); config_t *c;
            if (k < 0) { NEED_D; c = decoder_config(D); } else c = SLOT_OK(k) ? CFG[k] : NULL;
            if (!c) { RET("skip"); continue; }
            if (!strcmp(w[0], "cfgvalidate")) { int r = config_validate(c); RET(r == 0 ? "ok" : "err"); }
            else if (!strcmp(w[0], "cfgexpand")) { config_expand(c); RET("void"); }
            else { config_log_help(c); config_log_values(c); RET("void"); }
        } else if (!strcmp(w[0], "cfgparsenew") && n >= 3) {
            /* cfgparsenew <slot> ok|unknown|empty|trunc|null: config_parse_json(NULL, text) creates a configuration */
            int k = atoi(w[1]);
            const char *js = !strcmp(w[2], "ok") ? "{\"beam\": 1e-40, \"loglevel\": \"FATAL\"}"
                : (!strcmp(w[2], "unknown") ? "{\"nosuchkey\": 3}" : (!strcmp(w[2], "empty") ? ""
                : (!strcmp(w[2], "null") ? NULL : "{\"beam\": ")));
            if (!SLOT_OK(k) || CFG[k]) { RET("skip"); continue; }
            CFG[k] = config_parse_json(NULL, js);
            RET(CFG[k] ? "ptr" : "null");
        } else if (!strcmp(w[0], "times")) {
            double a, b, c; NEED_D;
            decoder_utt_time(D, &a, &b, &c); decoder_all_time(D, &a, &b, &c);
            (void)decoder_logmath(D); (void)decoder_fe(D); (void)decoder_feat(D); (void)decoder_config(D);
            RET("void");
        } else {
            RET("bad-op");
        }
    }
    /* release whatever the history still holds, as explicit calls */
    for (ins = 0; ins < 2; ins++) {
        char buf[64];
        C = &I[ins];
        for (i = 0; i < NSLOT; i++) {
            if (SEG[i]) { sprintf(buf, "@%d segfree %d", ins, i); do_line(buf); }
            if (HYP[i]) { sprintf(buf, "@%d hypfree %d", ins, i); do_line(buf); }
            if (ALI[i]) { sprintf(buf, "@%d alifree %d", ins, i); do_line(buf); }
            if (LN[i]) { sprintf(buf, "@%d lnodefree %d", ins, i); do_line(buf); }
            if (LL[i]) { sprintf(buf, "@%d llinkfree %d", ins, i); do_line(buf); }
        }
        for (i = 0; i < NSLOT; i++) {
            if (LAT[i]) { sprintf(buf, "@%d latfree %d", ins, i); do_line(buf); }
            if (ALN[i]) { sprintf(buf, "@%d alfree %d", ins, i); do_line(buf); }
        }
    }
    for (ins = 0; ins < 2; ins++) {
        char buf[64];
        C = &I[ins];
        while (D) { sprintf(buf, "@%d free", ins); do_line(buf); }
    }
    C = &I[0];
    for (i = 0; i < NSLOT; i++) {
        char buf[64];
        if (CFG[i]) { sprintf(buf, "subfree cfg %d", i); do_line(buf); }
        if (LM[i]) { sprintf(buf, "subfree lmath %d", i); do_line(buf); }
        if (FE[i]) { sprintf(buf, "subfree fe %d", i); do_line(buf); }
        if (FT[i]) { sprintf(buf, "subfree feat %d", i); do_line(buf); }
        if (ML[i]) { sprintf(buf, "mllrfree %d", i); do_line(buf); }
        if (STR[i]) { sprintf(buf, "strfree %d", i); do_line(buf); }
    }
    free(goraw);
    printf("> exit\n< void"); state();
    fflush(stdout);
    return 0;
}

/* closing calls issued by the harness itself at end of input */
static void do_line(char *line)
{
    char copy[64], *wb[5], **w = wb;
    int n, k;
    strcpy(copy, line);
    n = vf_words(copy, w, 5);
    printf("> %s\n", line); fflush(stdout);
    if (w[0][0] == '@') { C = &I[w[0][1] == '1' ? 1 : 0]; w++; n--; }
    k = n > 1 ? atoi(w[n - 1]) : 0;
    if (!strcmp(w[0], "segfree")) { seg_iter_free(SEG[k]); SEG[k] = NULL; printf("< void"); }
    else if (!strcmp(w[0], "hypfree")) { hyp_iter_free(HYP[k]); HYP[k] = NULL; printf("< void"); }
    else if (!strcmp(w[0], "alifree")) { alignment_iter_free(ALI[k]); ALI[k] = NULL; printf("< void"); }
    else if (!strcmp(w[0], "lnodefree")) { ps_latnode_iter_free(LN[k]); LN[k] = NULL; printf("< void"); }
    else if (!strcmp(w[0], "llinkfree")) { ps_latlink_iter_free(LL[k]); LL[k] = NULL; printf("< void"); }
    else if (!strcmp(w[0], "latfree")) { lattice_free(LAT[k]); LAT[k] = NULL; printf("< void"); }
    else if (!strcmp(w[0], "alfree")) { alignment_free(ALN[k]); ALN[k] = NULL; C->built[k] = 0; printf("< void"); }
    else if (!strcmp(w[0], "mllrfree")) { mllr_free(ML[k]); ML[k] = NULL; printf("< void"); }
    else if (!strcmp(w[0], "strfree")) { ckd_free(STR[k]); STR[k] = NULL; printf("< void"); }
    else if (!strcmp(w[0], "subfree")) {
        if (!strcmp(w[1], "cfg")) { config_free(CFG[k]); CFG[k] = NULL; }
        else if (!strcmp(w[1], "lmath")) { logmath_free(LM[k]); LM[k] = NULL; }
        else if (!strcmp(w[1], "fe")) { fe_free(FE[k]); FE[k] = NULL; }
        else { feat_free(FT[k]); FT[k] = NULL; }
        printf("< void");
    }
    else { int r = decoder_free(D); if (--Drefs == 0) D = NULL; printf("< rc=%d", r); }
    state();
}
